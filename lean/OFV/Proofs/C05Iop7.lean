/-
Regrouping nested sums over index ranges: pairs, triples and the four-index identity behind the loops
B (Coulomb/exchange), C (number-excitation) and D (double excitation) of `_bravyi_kitaev_interaction_operator`.
-/
import OFV.Proofs.C05Iop6

set_option linter.unusedSimpArgs false
set_option linter.unusedVariables false

namespace OFV
namespace BK
open Model Model.C05 Spec Sem

theorem sum_range_succ' (N : Nat) (g : Nat → GQ) :
    ((List.range (N + 1)).map g).sum = ((List.range N).map g).sum + g N := by
  rw [List.range_succ, List.map_append, List.sum_append]; simp

/-- a double sum over a square: diagonal plus the two triangles -/
theorem sum_square (h : Nat → Nat → GQ) (N : Nat) :
    ((List.range N).map fun p => ((List.range N).map fun q => h p q).sum).sum
      = ((List.range N).map fun p => h p p).sum
        + ((List.range N).map fun p => ((List.range p).map fun q => h p q + h q p).sum).sum := by
  induction N with
  | zero => simp
  | succ N ih =>
    simp only [sum_range_succ', sum_add_map]
    rw [ih]
    simp only [sum_add_map]
    ring

/-- a sum over `(q, r > s)`: `q` equal to `r`, equal to `s`, or the three positions of `q` among `r > s` -/
theorem sum_triple (f : Nat → Nat → Nat → GQ) (N : Nat) :
    ((List.range N).map fun q => ((List.range N).map fun r => ((List.range r).map fun s => f q r s).sum).sum).sum
      = ((List.range N).map fun r => ((List.range r).map fun s => f r r s + f s r s).sum).sum
        + ((List.range N).map fun j => ((List.range j).map fun k => ((List.range k).map fun l =>
            f j k l + f k j l + f l j k).sum).sum).sum := by
  induction N with
  | zero => simp
  | succ N ih =>
    simp only [sum_range_succ', sum_add_map]
    rw [ih]
    have h6 := sum_square (fun q s => f q N s) N
    simp only [sum_add_map] at h6 ⊢
    have e : ((List.range N).map fun q => ((List.range N).map fun s => f q N s).sum).sum
        = ((List.range N).map fun x => ((List.range N).map fun s => f x N s).sum).sum := rfl
    rw [h6]
    ring

/-- **the four-index identity**: a function symmetric in its first two and in its last two arguments, summed
over `p > q`, `r > s`, splits into the diagonal (`{p,q} = {r,s}`), the terms with exactly one common index, and
the six pairings of every four distinct indices — in the loop shapes of cases B, C, D -/
theorem sum_four (G : Nat → Nat → Nat → Nat → GQ) (s12 : ∀ p q r s, G q p r s = G p q r s)
    (s34 : ∀ p q r s, G p q s r = G p q r s) (N : Nat) :
    ((List.range N).map fun p => ((List.range p).map fun q => ((List.range N).map fun r =>
        ((List.range r).map fun s => G p q r s).sum).sum).sum).sum
      = ((List.range N).map fun i => ((List.range i).map fun j => G i j i j).sum).sum
        + ((List.range N).map fun i => ((List.range N).map fun j => ((List.range j).map fun k =>
            if i != j && i != k then G i j k i + G i k j i else 0).sum).sum).sum
        + ((List.range N).map fun i => ((List.range i).map fun j => ((List.range j).map fun k =>
            ((List.range k).map fun l =>
              (G i j k l + G k l i j) + (G i k j l + G j l i k) + (G i l j k + G j k i l)).sum).sum).sum).sum := by
  induction N with
  | zero => simp
  | succ N ih =>
    simp only [sum_range_succ', sum_add_map]
    rw [ih]
    -- the new terms: `X1` (`r = N`), `X2` (`p = N`), `X3` (`p = r = N`)
    have hX3 := sum_square (fun q s => G N q N s) N
    have hX2 := sum_triple (fun q r s => G N q r s) N
    have hX1' : ((List.range N).map fun p => ((List.range p).map fun q => ((List.range N).map fun s => G p q N s).sum).sum).sum
        = ((List.range N).map fun s => ((List.range N).map fun p => ((List.range p).map fun q => G p q N s).sum).sum).sum := by
      rw [sum_swap (List.range N) (List.range N) (fun s p => ((List.range p).map fun q => G p q N s).sum)]
      congr 1; apply List.map_congr_left; intro p _
      rw [sum_swap]
    have hX1 := sum_triple (fun s p q => G p q N s) N
    -- case C with `j = N`
    have hCj := sum_square (fun i k => if i != N && i != k then G i N k i + G i k N i else 0) N
    have hne : ∀ i ∈ List.range N, (i != N) = true := by
      intro i hi; rw [List.mem_range] at hi; simp; omega
    have hCj1 : ((List.range N).map fun i => ((List.range N).map fun k =>
          if i != N && i != k then G i N k i + G i k N i else 0).sum).sum
        = ((List.range N).map fun i => ((List.range i).map fun k =>
            (G i N k i + G i k N i) + (G k N i k + G k i N k)).sum).sum := by
      rw [hCj]
      have hz : ((List.range N).map fun p => if p != N && p != p then G p N p p + G p p N p else 0).sum = 0 := by
        apply sum_zero_map; intro p _; simp
      rw [hz, zero_add]
      congr 1; apply List.map_congr_left; intro i hi
      congr 1; apply List.map_congr_left; intro k hk
      have h1 := hne i hi
      rw [List.mem_range] at hi hk
      have h2 : (k != N) = true := by simp; omega
      have h3 : (i != k) = true := by simp; omega
      have h4 : (k != i) = true := by simp; omega
      simp only [h1, h2, h3, h4, Bool.and_self, if_true]
    -- case C with `i = N`
    have hCi : ((List.range N).map fun j => ((List.range j).map fun k =>
          if N != j && N != k then G N j k N + G N k j N else 0).sum).sum
        = ((List.range N).map fun j => ((List.range j).map fun k => G N j N k + G N k N j).sum).sum := by
      congr 1; apply List.map_congr_left; intro j hj
      congr 1; apply List.map_congr_left; intro k hk
      rw [List.mem_range] at hj hk
      have h1 : (N != j) = true := by simp; omega
      have h2 : (N != k) = true := by simp; omega
      simp only [h1, h2, Bool.and_self, if_true, s34]
    have hCNN : ((List.range N).map fun k => if N != N && N != k then G N N k N + G N k N N else 0).sum = 0 := by
      apply sum_zero_map; intro k _; simp
    simp only [sum_add_map] at hX3 hX2 hX1 hCj1 hCi ⊢
    rw [hX1', hX1, hX2, hX3, hCj1, hCi, hCNN]
    -- symmetric rewrites of the one-common terms
    have e1 : ((List.range N).map fun r => ((List.range r).map fun s => G N r r s).sum).sum
        = ((List.range N).map fun i => ((List.range i).map fun k => G i N k i).sum).sum := by
      congr 1; apply List.map_congr_left; intro i _
      congr 1; apply List.map_congr_left; intro k _
      rw [s12 N i k i, s34 N i i k]
    have e2 : ((List.range N).map fun r => ((List.range r).map fun s => G N s r s).sum).sum
        = ((List.range N).map fun i => ((List.range i).map fun k => G k N i k).sum).sum := by
      congr 1; apply List.map_congr_left; intro i _
      congr 1; apply List.map_congr_left; intro k _
      rw [s12 N k i k]
    have e3 : ((List.range N).map fun p => ((List.range p).map fun q => G p q N q).sum).sum
        = ((List.range N).map fun i => ((List.range i).map fun k => G k i N k).sum).sum := by
      congr 1; apply List.map_congr_left; intro i _
      congr 1; apply List.map_congr_left; intro k _
      rw [s12 i k N k]
    rw [e1, e2, e3]
    ring

end BK
end OFV
