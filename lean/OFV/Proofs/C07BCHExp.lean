/-
C07 — the closed form `exp X · exp Y` of the Spec (coefficient `1/(a! b!)` on `X^a Y^b`) is the list product
of the two truncated exponentials, degrees `≤ 7` (kernel computation).
-/
import OFV.Spec.C07BCH

namespace OFV
namespace Proofs
namespace C07
open OFV.Spec.BCH

theorem expXexpY_split (k : Nat) (hk : k ≤ 7) :
    expXexpY k = gmul k (gexp k (ginj k 1 [1, 0])) (gexp k (ginj k 1 [0, 1])) := by
  have : k = 0 ∨ k = 1 ∨ k = 2 ∨ k = 3 ∨ k = 4 ∨ k = 5 ∨ k = 6 ∨ k = 7 := by omega
  rcases this with rfl | rfl | rfl | rfl | rfl | rfl | rfl | rfl <;> decide +kernel

end C07
end Proofs
end OFV
