/-
C08 helper lemmas: MajoranaOperators as endomorphisms of Fock space (`evM`), the Model's Majorana
arithmetic (`mmul`, `miadd`, `msmul`, `mmk`) as ring operations, and `get_majorana_operator`.
-/
import OFV.Proofs.C08Fock
import OFV.Proofs.C08Conv
import OFV.Proofs.C01Majorana

namespace OFV
namespace C08P
open Spec Spec.C08 Model Model.C08 Proofs.C03

/-- image of a basis state under a product of Majorana operators -/
noncomputable def imgM (t : MTerm) (m : Nat) : Fock :=
  Finsupp.single (actMTerm t m).2 (GQ.ipow (actMTerm t m).1)

noncomputable def evMT (t : MTerm) : FEnd := Finsupp.linearCombination GQ (imgM t)

noncomputable def evM (A : MOp) : FEnd := (A.map fun e => e.2 • evMT e.1).sum

theorem evMT_single (t : MTerm) (m : Nat) (b : GQ) : evMT t (Finsupp.single m b) = b • imgM t m := by
  simp [evMT, Finsupp.linearCombination_single]

theorem evM_nil : evM [] = 0 := by simp [evM]
theorem evM_cons (e : MTerm × GQ) (A : MOp) : evM (e :: A) = e.2 • evMT e.1 + evM A := by simp [evM]
theorem evM_append (A B : MOp) : evM (A ++ B) = evM A + evM B := by simp [evM]

/-! ### accumulation -/

theorem evM_set_some {d : MOp} {k : MTerm} {v : GQ} (v' : GQ) (h : Dict.get? d k = some v) :
    evM (Dict.set d k v') = evM d - v • evMT k + v' • evMT k := by
  induction d with
  | nil => simp [Dict.get?] at h
  | cons e r ih =>
    obtain ⟨k', w⟩ := e
    simp only [Dict.get?] at h
    by_cases hk : k' = k
    · simp only [hk, if_true, Option.some.injEq] at h
      subst h; subst hk
      simp only [Dict.set, if_true, evM_cons]; abel
    · simp only [hk, if_false] at h
      simp only [Dict.set, hk, if_false, evM_cons, ih h]; abel

theorem evM_set_none {d : MOp} {k : MTerm} (v' : GQ) (h : Dict.get? d k = none) :
    evM (Dict.set d k v') = evM d + v' • evMT k := by
  induction d with
  | nil => simp [Dict.set, evM_cons, evM_nil]
  | cons e r ih =>
    obtain ⟨k', w⟩ := e
    simp only [Dict.get?] at h
    by_cases hk : k' = k
    · simp [hk] at h
    · simp only [hk, if_false] at h
      simp only [Dict.set, hk, if_false, evM_cons, ih h]; abel

theorem evM_maccum (d : MOp) (k : MTerm) (c : GQ) : evM (maccum d k c) = evM d + c • evMT k := by
  unfold maccum
  cases h : Dict.get? d k with
  | none => exact evM_set_none c h
  | some v => simp only [evM_set_some (v + c) h, add_smul]; abel

theorem evM_miadd (a b : MOp) : evM (miadd a b) = evM a + evM b := by
  unfold miadd
  induction b generalizing a with
  | nil => simp [evM_nil]
  | cons e r ih =>
    obtain ⟨t, c⟩ := e
    simp only [List.foldl_cons, ih, evM_maccum, evM_cons]; abel

theorem evM_msmul (c : GQ) (a : MOp) : evM (msmul c a) = c • evM a := by
  induction a with
  | nil => simp [msmul, evM_nil]
  | cons e r ih =>
    obtain ⟨t, v⟩ := e
    have : msmul c ((t, v) :: r) = (t, v * c) :: msmul c r := rfl
    rw [this, evM_cons, evM_cons, ih, smul_add, smul_smul, mul_comm]

/-! ### products -/

theorem foldr_stepM_from (l : MTerm) (k s : Nat) (hk : k < 4) :
    l.foldr stepM (k, s) = shift k (l.foldr stepM (0, s)) := by
  have : (k, s) = shift k (0, s) := by simp [shift]; omega
  rw [this, foldr_stepM_shift]

theorem actMTerm_lt (t : MTerm) (m : Nat) : (actMTerm t m).1 < 4 := by
  rw [actMTerm_eq]
  cases t with
  | nil => simp
  | cons a r => simp only [List.foldr_cons, stepM]; omega

/-- `γ_l γ_r = (-1)^parity γ_merged` in the endomorphism ring (left term strictly increasing) -/
theorem evMT_mul (l r : MTerm) (hl : l.Pairwise (· < ·)) :
    evMT l * evMT r = GQ.sgn (mergeM l r).2 • evMT (mergeM l r).1 := by
  apply fend_ext
  intro m x
  have hs := mergeM_sound l r hl (0, m)
  rw [List.foldr_append, ← actMTerm_eq r m,
    show actMTerm r m = ((actMTerm r m).1, (actMTerm r m).2) from rfl,
    foldr_stepM_from l _ _ (actMTerm_lt r m), ← actMTerm_eq, ← actMTerm_eq] at hs
  simp only [shift, Nat.add_zero, Prod.mk.injEq] at hs
  obtain ⟨hph, hst⟩ := hs
  rw [Module.End.mul_apply, evMT_single, one_smul, imgM, evMT_single, imgM, Finsupp.smul_single, smul_eq_mul,
    LinearMap.smul_apply, evMT_single, one_smul, imgM, Finsupp.smul_single, smul_eq_mul, hst]
  congr 1
  rw [ipow_mul, sgn_eq_ipow, ipow_mul, ← ipow_mod, ← ipow_mod (2 * _ + _)]
  have h4 : ((actMTerm r m).1 + (actMTerm l (actMTerm r m).2).1) % 4
      = (2 * (mergeM l r).2 + (actMTerm (mergeM l r).1 m).1) % 4 := by omega
  rw [h4]

def SortedM (A : MOp) : Prop := ∀ e ∈ A, e.1.Pairwise (· < ·)

theorem evM_mmul_inner (lt : MTerm) (lc : GQ) (hl : lt.Pairwise (· < ·)) (b acc : MOp) :
    evM (b.foldl (fun acc2 (x : MTerm × GQ) =>
        maccum acc2 (mergeM lt x.1).1 (lc * x.2 * GQ.sgn (mergeM lt x.1).2)) acc)
      = evM acc + (lc • evMT lt) * evM b := by
  induction b generalizing acc with
  | nil => simp [evM_nil]
  | cons r b ih =>
    simp only [List.foldl_cons, ih, evM_maccum, evM_cons, mul_add]
    rw [smul_mul_smul_comm, evMT_mul lt r.1 hl, smul_smul]
    abel

theorem evM_mmul (a b : MOp) (ha : SortedM a) : evM (mmul a b) = evM a * evM b := by
  unfold mmul
  suffices h : ∀ acc, evM (a.foldl (fun acc (l : MTerm × GQ) =>
      b.foldl (fun acc2 (r : MTerm × GQ) =>
        maccum acc2 (mergeM l.1 r.1).1 (l.2 * r.2 * GQ.sgn (mergeM l.1 r.1).2)) acc) acc)
      = evM acc + evM a * evM b by
    have := h []
    rwa [evM_nil, zero_add] at this
  induction a with
  | nil => intro acc; simp [evM_nil]
  | cons l a ih =>
    intro acc
    simp only [List.foldl_cons]
    rw [ih (fun e he => ha e (List.mem_cons_of_mem _ he)), evM_mmul_inner l.1 l.2 (ha l (by simp)), evM_cons,
      add_mul]
    abel

/-! ### sortedness is preserved -/

theorem set_sorted {d : MOp} {k : MTerm} (v : GQ) (hd : SortedM d) (hk : k.Pairwise (· < ·)) :
    SortedM (Dict.set d k v) := by
  induction d with
  | nil => intro e he; simp [Dict.set] at he; subst he; exact hk
  | cons e r ih =>
    obtain ⟨k', w⟩ := e
    have hr : SortedM r := fun x hx => hd x (List.mem_cons_of_mem _ hx)
    intro x hx
    simp only [Dict.set] at hx
    split at hx
    · rename_i hkk
      rcases List.mem_cons.mp hx with rfl | hx
      · exact hkk ▸ hk
      · exact hr x hx
    · rcases List.mem_cons.mp hx with rfl | hx
      · exact hd _ (by simp)
      · exact ih hr x hx

theorem maccum_sorted {d : MOp} {k : MTerm} (c : GQ) (hd : SortedM d) (hk : k.Pairwise (· < ·)) :
    SortedM (maccum d k c) := by
  unfold maccum
  split <;> exact set_sorted _ hd hk

theorem mmul_sorted (a b : MOp) (ha : SortedM a) (hb : SortedM b) : SortedM (mmul a b) := by
  unfold mmul
  suffices h : ∀ acc, SortedM acc → SortedM (a.foldl (fun acc (l : MTerm × GQ) =>
      b.foldl (fun acc2 (r : MTerm × GQ) =>
        maccum acc2 (mergeM l.1 r.1).1 (l.2 * r.2 * GQ.sgn (mergeM l.1 r.1).2)) acc) acc) from
    h [] (fun e he => by simp at he)
  induction a with
  | nil => intro acc h; exact h
  | cons l a ih =>
    intro acc hacc
    simp only [List.foldl_cons]
    apply ih (fun e he => ha e (List.mem_cons_of_mem _ he))
    have hl := ha l (by simp)
    clear ih
    induction b generalizing acc with
    | nil => exact hacc
    | cons r b ihb =>
      simp only [List.foldl_cons]
      apply ihb (fun e he => hb e (List.mem_cons_of_mem _ he))
      exact maccum_sorted _ hacc (mergeM_strict _ _ hl (hb r (by simp)))

/-! ### `_fermion_term_to_majorana_operator` -/

/-- the MajoranaOperator of one ladder operator: `(γ_{2j} ∓ i γ_{2j+1}) / 2` -/
def copOf (f : Factor) : MOp :=
  if f.2 ≠ 0 then miadd (mmk [2 * f.1] half) (mmk [2 * f.1 + 1] (-(half * GQ.I)))
  else miadd (mmk [2 * f.1] half) (mmk [2 * f.1 + 1] (half * GQ.I))

theorem copOf_eq (f : Factor) :
    copOf f = [([2 * f.1], half), ([2 * f.1 + 1], if f.2 ≠ 0 then -(half * GQ.I) else half * GQ.I)] := by
  unfold copOf
  by_cases ha : f.2 = 0 <;>
  simp [mmk, sortM, sortMFuel, maccum, miadd, Dict.get?, Dict.set, ha, GQ.sgn]

theorem copOf_sorted (f : Factor) : SortedM (copOf f) := by
  rw [copOf_eq]
  intro e he
  simp at he
  rcases he with rfl | rfl <;> simp

theorem fTTM_eq (t : Term) :
    fermionTermToMajorana t = t.foldl (fun acc f => mmul acc (copOf f)) (mmk [] 1) := rfl

/-- one ladder operator: the Majorana image acts on Fock space as the ladder operator -/
theorem evM_copOf (j a : Nat) (ha : a = 0 ∨ a = 1) : evM (copOf (j, a)) = gF (j, a) := by
  rw [copOf_eq]
  apply fend_ext
  intro m x
  have hn : normAct (j, a) = (j, a) := by rcases ha with rfl | rfl <;> simp [normAct]
  rw [gF_single, one_smul, hn]
  simp only [evM_cons, evM_nil, add_zero, LinearMap.add_apply, LinearMap.smul_apply, evMT_single, one_smul,
    Finsupp.add_apply, Finsupp.smul_apply, smul_eq_mul, imgM, imgT, Finsupp.single_apply]
  have hc : countBelow m j % 2 = 0 ∨ countBelow m j % 2 = 1 := by omega
  have hj : 2 * j / 2 = j := by omega
  have hj1 : (2 * j + 1) / 2 = j := by omega
  rcases ha with rfl | rfl <;> cases hb : m.testBit j <;> rcases hc with hc | hc <;>
    by_cases ht : m ^^^ 1 <<< j = x <;>
    simp [actFTerm, actMTerm, actF, actM, hb, hc, hj, hj1, ht, GQ.sgn, GQ.ipow, Finsupp.single_apply] <;>
    decide +kernel

theorem evMT_nil : evMT [] = 1 := by
  apply fend_ext
  intro m x
  simp [evMT_single, imgM, actMTerm, GQ.ipow]

theorem evM_mmk_nil : evM (mmk [] 1) = 1 ∧ SortedM (mmk [] 1) := by
  have : mmk [] 1 = [([], 1)] := by simp [mmk, sortM, sortMFuel, GQ.sgn]
  rw [this]
  refine ⟨by simp [evM_cons, evM_nil, evMT_nil], ?_⟩
  intro e he; simp at he; subst he; simp

theorem evM_fold (t : Term) (hv : ∀ f ∈ t, f.2 < 2) :
    ∀ acc : MOp, SortedM acc →
    evM (t.foldl (fun acc f => mmul acc (copOf f)) acc) = evM acc * fockInterp.evalT t ∧
    SortedM (t.foldl (fun acc f => mmul acc (copOf f)) acc) := by
  induction t with
  | nil => intro acc h; simp [Interp.evalT, h]
  | cons f r ih =>
    intro acc hacc
    obtain ⟨j, a⟩ := f
    have ha : a = 0 ∨ a = 1 := by have := hv (j, a) (by simp); simp at this; omega
    simp only [List.foldl_cons]
    obtain ⟨h1, h2⟩ := ih (fun g hg => hv g (List.mem_cons_of_mem _ hg)) (mmul acc (copOf (j, a)))
      (mmul_sorted _ _ hacc (copOf_sorted _))
    refine ⟨?_, h2⟩
    rw [h1, evM_mmul _ _ hacc, evM_copOf j a ha, Interp.evalT_cons, mul_assoc]
    rfl

/-- `_fermion_term_to_majorana_operator(term)` denotes the product of the ladder operators -/
theorem evM_fTTM (t : Term) (hv : ∀ f ∈ t, f.2 < 2) :
    evM (fermionTermToMajorana t) = fockInterp.evalT t := by
  rw [fTTM_eq, (evM_fold t hv _ evM_mmk_nil.2).1, evM_mmk_nil.1, one_mul]

/-- **`get_majorana_operator(FermionOperator)` denotes the same operator** -/
theorem evM_fermionToMajorana (A : Op) (hv : ∀ e ∈ A, ∀ f ∈ e.1, f.2 < 2) :
    evM (fermionToMajorana A) = fockInterp.evalOp A := by
  unfold fermionToMajorana
  suffices h : ∀ acc : MOp, evM (A.foldl (fun acc (x : Term × GQ) =>
      miadd acc (msmul x.2 (fermionTermToMajorana x.1))) acc) = evM acc + fockInterp.evalOp A by
    have := h []
    rwa [evM_nil, zero_add] at this
  induction A with
  | nil => intro acc; simp
  | cons e r ih =>
    intro acc
    simp only [List.foldl_cons]
    rw [ih (fun e' he' => hv e' (List.mem_cons_of_mem _ he')), evM_miadd, evM_msmul,
      evM_fTTM e.1 (hv e (by simp)), Interp.evalOp_cons, add_assoc]
    congr 2

/-- matrix elements of `evM` are those of the shared Spec (`Spec.applyM`) -/
theorem evM_apply (A : MOp) (m x : Nat) : (evM A (Finsupp.single m 1)) x = SV.coeff (applyM A m) x := by
  rw [melM_eq_evalWM]
  induction A with
  | nil => simp [evM_nil, evalWM]
  | cons e r ih =>
    obtain ⟨t, c⟩ := e
    rw [evM_cons, LinearMap.add_apply, Finsupp.add_apply, ih, LinearMap.smul_apply, evMT_single]
    simp only [one_smul, Finsupp.smul_apply, imgM, Finsupp.single_apply, smul_eq_mul, evalWM, termMelM]

end C08P
end OFV
