/- C10: expectation_computational_basis_state summed over the dictionary: for an operator whose terms are the
constant, `i^ i` and `j^ i^ j i` (i < j) — what the function reads of a normal-ordered operator with at most
two-body terms — the value is the Spec diagonal element. -/
import OFV.Proofs.C10Sum

namespace OFV.C10
open OFV.Model OFV.Model.C10 OFV.Spec OFV.Spec.C10
open OFV.Proofs.C03 (contrib melF_eq_sum)

/-! ### sums over a dictionary against sums over a key universe -/

theorem sum_zero_of_forall {β : Type} (l : List β) (F : β → GQ) (h : ∀ x ∈ l, F x = 0) : (l.map F).sum = 0 := by
  induction l with
  | nil => rfl
  | cons x r ih =>
    rw [List.map_cons, List.sum_cons, h x (by simp), ih (fun y hy => h y (List.mem_cons_of_mem _ hy))]; simp

theorem sum_indicator_nodup (U : List Term) (hU : U.Nodup) (k0 : Term) (hk : k0 ∈ U) (c : GQ) :
    (U.map fun k => if k0 = k then c else 0).sum = c := by
  induction U with
  | nil => cases hk
  | cons u r ih =>
    rw [List.nodup_cons] at hU
    rw [List.map_cons, List.sum_cons]
    by_cases h : k0 = u
    · subst h
      rw [if_pos rfl, sum_zero_of_forall r _ (fun y hy => by
        have : ¬ k0 = y := fun e => hU.1 (e ▸ hy)
        simp [this])]
      simp
    · rw [if_neg h, ih hU.2 (by rcases List.mem_cons.mp hk with e | e; exact absurd e h; exact e)]; simp

theorem getD_not_key (op : Op) (k : Term) (h : k ∉ Dict.keys op) : Dict.getD op k 0 = 0 := by
  induction op with
  | nil => rfl
  | cons e r ih =>
    obtain ⟨a, b⟩ := e
    have h1 : ¬ a = k := fun e => h (by simp [Dict.keys, e])
    have h2 : k ∉ Dict.keys r := fun e => h (by simp only [Dict.keys, List.map_cons, List.mem_cons]; exact Or.inr e)
    unfold Dict.getD at ih ⊢
    simp only [Dict.get?, h1, if_false]
    exact ih h2

theorem getD_cons (a : Term) (b : GQ) (r : Op) (k : Term) :
    Dict.getD ((a, b) :: r) k 0 = if a = k then b else Dict.getD r k 0 := by
  unfold Dict.getD
  by_cases h : a = k <;> simp [Dict.get?, h]

/-- the sum over the entries of a dictionary is the sum over any duplicate-free list of keys containing its keys -/
theorem dict_sum_universe (op : Op) (U : List Term) (hU : U.Nodup) (hwf : Dict.WF op) (hk : ∀ e ∈ op, e.1 ∈ U)
    (f : Term → GQ) :
    (op.map fun e => e.2 * f e.1).sum = (U.map fun k => Dict.getD op k 0 * f k).sum := by
  induction op with
  | nil =>
    rw [sum_zero_of_forall U _ (fun k _ => by simp [Dict.getD, Dict.get?])]; rfl
  | cons e r ih =>
    obtain ⟨a, b⟩ := e
    have hwf' : a ∉ Dict.keys r ∧ Dict.WF r := by
      unfold Dict.WF Dict.keys at hwf
      rw [List.map_cons, List.nodup_cons] at hwf
      exact hwf
    rw [List.map_cons, List.sum_cons, ih hwf'.2 (fun e he => hk e (List.mem_cons_of_mem _ he))]
    have hsplit : ∀ k ∈ U, Dict.getD ((a, b) :: r) k 0 * f k =
        (if a = k then b * f a else 0) + Dict.getD r k 0 * f k := by
      intro k _
      rw [getD_cons]
      by_cases h : a = k
      · subst h
        rw [if_pos rfl, if_pos rfl, getD_not_key r a hwf'.1]; simp
      · rw [if_neg h, if_neg h]; simp
    rw [List.map_congr_left hsplit]
    have : (U.map fun k => (if a = k then b * f a else 0) + Dict.getD r k 0 * f k).sum =
        (U.map fun k => if a = k then b * f a else 0).sum + (U.map fun k => Dict.getD r k 0 * f k).sum := by
      clear hsplit hU hk ih
      induction U with
      | nil => simp
      | cons u t iht => simp only [List.map_cons, List.sum_cons, iht]; ring
    rw [this, sum_indicator_nodup U hU a (hk (a, b) (by simp))]

/-! ### the keys the function reads -/

def oneKey (i : Nat) : Term := [(i, 1), (i, 0)]
def twoKey (i j : Nat) : Term := [(j, 1), (i, 1), (j, 0), (i, 0)]

/-- all keys read for `n` orbitals: the constant, `i^ i`, and `j^ i^ j i` for `i < j < n` -/
def expectKeys (n : Nat) : List Term :=
  [] :: (List.range n).flatMap fun i => oneKey i :: (List.range (n - (i + 1))).map fun d => twoKey i (i + 1 + d)

/-- the terms of an operator are among the read keys -/
def ExpectOp (n : Nat) (op : Op) : Prop :=
  Dict.WF op ∧ ∀ e ∈ op, e.1 = [] ∨ (∃ i, i < n ∧ e.1 = oneKey i) ∨ (∃ i j, i < j ∧ j < n ∧ e.1 = twoKey i j)

def lastMode (t : Term) : Nat := (t.getLastD (0, 0)).1

theorem expectKeys_nodup (n : Nat) : (expectKeys n).Nodup := by
  unfold expectKeys
  rw [List.nodup_cons]
  constructor
  · intro h
    obtain ⟨i, _, hi⟩ := List.mem_flatMap.mp h
    rcases List.mem_cons.mp hi with e | e
    · simp [oneKey] at e
    · obtain ⟨d, _, hd⟩ := List.mem_map.mp e
      simp [twoKey] at hd
  · apply nodup_flatMap_key _ _ lastMode List.nodup_range
    · intro i _
      rw [List.nodup_cons]
      constructor
      · intro h
        obtain ⟨d, _, hd⟩ := List.mem_map.mp h
        simp [oneKey, twoKey] at hd
      · apply List.Nodup.map_on _ List.nodup_range
        intro d1 _ d2 _ h
        simp only [twoKey, List.cons.injEq, Prod.mk.injEq] at h
        omega
    · intro i _ b hb
      rcases List.mem_cons.mp hb with e | e
      · rw [e]; rfl
      · obtain ⟨d, _, hd⟩ := List.mem_map.mp e
        rw [← hd]; rfl

theorem expectKeys_cover (n : Nat) (op : Op) (h : ExpectOp n op) : ∀ e ∈ op, e.1 ∈ expectKeys n := by
  intro e he
  unfold expectKeys
  rcases h.2 e he with h0 | ⟨i, hi, h1⟩ | ⟨i, j, hij, hj, h2⟩
  · rw [h0]; simp
  · rw [h1]
    apply List.mem_cons_of_mem
    exact List.mem_flatMap.mpr ⟨i, List.mem_range.mpr hi, by simp⟩
  · rw [h2]
    apply List.mem_cons_of_mem
    refine List.mem_flatMap.mpr ⟨i, List.mem_range.mpr (by omega), List.mem_cons_of_mem _ ?_⟩
    exact List.mem_map.mpr ⟨j - (i + 1), List.mem_range.mpr (by omega), by congr 1 <;> omega⟩

/-- the Spec diagonal value of a term: `⟨s| t |s⟩` -/
def dval (s : Nat) (t : Term) : GQ :=
  match actFTerm t s with
  | none => 0
  | some (k, s') => if s' = s then GQ.sgn k else 0

theorem contrib_diag (s : Nat) (e : Term × GQ) : contrib s s e = e.2 * dval s e.1 := by
  unfold contrib dval
  cases actFTerm e.1 s with
  | none => simp
  | some ks =>
    obtain ⟨k, s'⟩ := ks
    by_cases h : s' = s <;> simp [h]

theorem dval_nil (s : Nat) : dval s [] = 1 := by
  unfold dval
  have : actFTerm [] s = some (0, s) := rfl
  rw [this]; simp [OFV.Proofs.C03.sgn_zero]

theorem dval_one (s i : Nat) : dval s (oneKey i) = if s.testBit i then 1 else 0 := by
  unfold dval oneKey
  rw [actFTerm_number]
  by_cases h : s.testBit i = true
  · simp [h, OFV.Proofs.C03.sgn_zero]
  · simp [h]

theorem dval_two (s i j : Nat) (hij : i < j) : dval s (twoKey i j) = if s.testBit i && s.testBit j then -1 else 0 := by
  unfold dval twoKey
  rw [actFTerm_two_body i j s hij]
  by_cases h : (s.testBit i && s.testBit j) = true
  · simp only [h, if_true]
    simp [GQ.sgn]
  · simp [h]

/-! ### the double loop as a sum -/

theorem fold_cond_sub {β : Type} (l : List β) (c : β → Bool) (g : β → GQ) (acc : GQ) :
    l.foldl (fun acc d => if c d then acc - g d else acc) acc = acc + (l.map fun d => if c d then -g d else 0).sum := by
  induction l generalizing acc with
  | nil => simp
  | cons d r ih =>
    rw [List.foldl_cons, ih, List.map_cons, List.sum_cons]
    by_cases h : c d = true
    · simp only [h, if_true]; ring
    · simp only [h]; simp

theorem fold_cond_add {β : Type} (l : List β) (c : β → Bool) (F : β → GQ → GQ) (G : β → GQ)
    (hF : ∀ d acc, F d acc = acc + G d) (acc : GQ) :
    l.foldl (fun acc d => if c d then F d acc else acc) acc = acc + (l.map fun d => if c d then G d else 0).sum := by
  induction l generalizing acc with
  | nil => simp
  | cons d r ih =>
    rw [List.foldl_cons, ih, List.map_cons, List.sum_cons]
    by_cases h : c d = true
    · simp only [h, if_true, hF]; ring
    · simp only [h]; simp

theorem sum_flatMap {β γ : Type} (l : List β) (g : β → List γ) (F : γ → GQ) :
    ((l.flatMap g).map F).sum = (l.map fun i => ((g i).map F).sum).sum := by
  induction l with
  | nil => rfl
  | cons x r ih => simp [List.flatMap_cons, ih]

theorem expectCBS_eq_sum (op : Op) (occ : List Bool) :
    expectCBS op occ = Dict.getD op [] 0 + ((List.range occ.length).map fun i =>
      if occ.getD i false then
        Dict.getD op (oneKey i) 0 + ((List.range (occ.length - (i + 1))).map fun d =>
          if occ.getD (i + 1 + d) false then -Dict.getD op (twoKey i (i + 1 + d)) 0 else 0).sum
      else 0).sum := by
  unfold expectCBS
  exact fold_cond_add (List.range occ.length) (fun i => occ.getD i false)
    (fun i acc => (List.range (occ.length - (i + 1))).foldl (fun acc d =>
        if occ.getD (i + 1 + d) false then acc - Dict.getD op [(i + 1 + d, 1), (i, 1), (i + 1 + d, 0), (i, 0)] 0 else acc)
      (acc + Dict.getD op [(i, 1), (i, 0)] 0))
    (fun i => Dict.getD op (oneKey i) 0 + ((List.range (occ.length - (i + 1))).map fun d =>
          if occ.getD (i + 1 + d) false then -Dict.getD op (twoKey i (i + 1 + d)) 0 else 0).sum)
    (fun i acc => by
      rw [fold_cond_sub (List.range (occ.length - (i + 1))) (fun d => occ.getD (i + 1 + d) false)
        (fun d => Dict.getD op [(i + 1 + d, 1), (i, 1), (i + 1 + d, 0), (i, 0)] 0)]
      simp only [oneKey, twoKey]; ring) _

/-- **expectation_computational_basis_state, summed over the dictionary**: for an operator whose terms are among
the constant, `i^ i` and `j^ i^ j i` (`i < j`) on the orbitals of the occupation list, the double loop returns the
Spec diagonal element `⟨s| op |s⟩` of the basis state with those occupations -/
theorem expectCBS_sound (op : Op) (occ : List Bool) (s : Nat) (hag : Agree occ s) (hop : ExpectOp occ.length op) :
    expectCBS op occ = melF op s s := by
  rw [melF_eq_sum, List.map_congr_left (fun e _ => contrib_diag s e),
    dict_sum_universe op (expectKeys occ.length) (expectKeys_nodup _) hop.1 (expectKeys_cover _ op hop) (dval s),
    expectCBS_eq_sum]
  unfold expectKeys
  rw [List.map_cons, List.sum_cons, dval_nil, sum_flatMap]
  congr 1
  · simp
  · congr 1
    apply List.map_congr_left
    intro i hi
    rw [List.map_cons, List.sum_cons, dval_one, List.map_map, hag i]
    by_cases hoi : occ.getD i false = true
    · rw [if_pos hoi, if_pos hoi]
      congr 1
      · simp
      · congr 1
        apply List.map_congr_left
        intro d _
        simp only [Function.comp]
        rw [dval_two s i (i + 1 + d) (by omega), hag i, hag (i + 1 + d), hoi]
        by_cases hoj : occ.getD (i + 1 + d) false = true
        · simp [hoj]
        · simp [hoj]
    · rw [if_neg hoi, if_neg hoi]
      have : ((List.range (occ.length - (i + 1))).map
          ((fun k => Dict.getD op k 0 * dval s k) ∘ fun d => twoKey i (i + 1 + d))).sum = 0 := by
        apply sum_zero_of_forall
        intro d _
        simp only [Function.comp]
        have hf : occ.getD i false = false := Bool.eq_false_iff.mpr hoi
        rw [dval_two s i (i + 1 + d) (by omega), hag i, hf, Bool.false_and]
        simp
      rw [this]; simp

end OFV.C10
