/- Helper lemmas for C01: the store semantics of operator programs (`Model.exec`): which objects a
statement may change, what aliases observe, in-place vs out-of-place.  Core Lean only. -/
import OFV.Model.Program

namespace OFV
namespace Model

/-- the object a statement mutates in place (`none`: the statement only allocates / rebinds) -/
def inPlaceTarget (f : Fam) (s : Store) : Stmt → Option Nat
  | .iop x o _ => if f = .maj ∧ o = .mul then none else (s.obj? x).map (·.1)
  | .isop x _ _ => (s.obj? x).map (·.1)
  | _ => none

theorem objs_bindNew_get (s : Store) (x : Nat) (v : Op) (id : Nat) (o : Op)
    (h : s.objs[id]? = some o) : (s.bindNew x v).objs[id]? = some o := by
  have hl : id < s.objs.length := by
    rcases Nat.lt_or_ge id s.objs.length with h' | h'
    · exact h'
    · rw [List.getElem?_eq_none h'] at h; cases h
  simp only [Store.bindNew]
  rw [List.getElem?_append_left hl]; exact h

theorem objs_setObj_get (s : Store) (i : Nat) (v : Op) (id : Nat) (o : Op)
    (h : s.objs[id]? = some o) (hne : i ≠ id) : (s.setObj i v).objs[id]? = some o := by
  simp only [Store.setObj]
  rw [List.getElem?_set_ne hne]; exact h

/-- **Frame**: a statement changes no existing object except its in-place target. -/
theorem exec_frame_lemma (tol : Rat) (f : Fam) (s s' : Store) (st : Stmt)
    (h : exec tol f s st = .ok s') (id : Nat) (o : Op) (ho : s.objs[id]? = some o)
    (hne : inPlaceTarget f s st ≠ some id) : s'.objs[id]? = some o := by
  cases st with
  | new x t c => simp only [exec] at h; cases h; exact objs_bindNew_get s x _ id o ho
  | zero x => simp only [exec] at h; cases h; exact objs_bindNew_get s x _ id o ho
  | alias x y =>
    simp only [exec] at h
    split at h
    · cases h; exact ho
    · cases h
  | bin x op y z =>
    simp only [exec] at h
    split at h
    · cases h; exact objs_bindNew_get s x _ id o ho
    · cases h
  | sbin x op y c =>
    simp only [exec] at h
    split at h
    · cases h
    · cases op <;> simp only at h
      all_goals first
        | (cases h; exact objs_bindNew_get s x _ id o ho)
        | (split at h
           · cases h
           · cases h; exact objs_bindNew_get s x _ id o ho)
  | neg x y =>
    simp only [exec] at h
    split at h
    · cases h; exact objs_bindNew_get s x _ id o ho
    · cases h
  | pow x y k =>
    simp only [exec] at h
    split at h
    · cases h; exact objs_bindNew_get s x _ id o ho
    · cases h
  | iop x op y =>
    simp only [exec] at h
    split at h
    · rename_i i a b hx hy
      simp only [inPlaceTarget, hx] at hne
      split at h
      · cases h; exact objs_bindNew_get s x _ id o ho
      · rename_i hc
        rw [if_neg hc] at hne
        cases h
        apply objs_setObj_get s i _ id o ho
        intro e; apply hne; simp [e]
    · cases h
  | isop x op c =>
    simp only [exec] at h
    split at h
    · cases h
    · rename_i i a hx
      simp only [inPlaceTarget, hx] at hne
      have hid : i ≠ id := by intro e; apply hne; simp [e]
      cases op <;> simp only at h
      all_goals first
        | (cases h; exact objs_setObj_get s i _ id o ho hid)
        | (split at h
           · cases h
           · cases h; exact objs_setObj_get s i _ id o ho hid)

/-- in-place statements rebind no variable (aliases keep pointing at the mutated object) … -/
theorem exec_inplace_vars (tol : Rat) (f : Fam) (s s' : Store) (st : Stmt)
    (h : exec tol f s st = .ok s') (id : Nat) (ht : inPlaceTarget f s st = some id) :
    s'.vars = s.vars := by
  cases st with
  | iop x op y =>
    simp only [exec] at h
    split at h
    · rename_i i a b hx hy
      simp only [inPlaceTarget, hx] at ht
      split at h
      · rename_i hc; rw [if_pos hc] at ht; cases ht
      · cases h; rfl
    · cases h
  | isop x op c =>
    simp only [exec] at h
    split at h
    · cases h
    · cases op <;> simp only at h
      all_goals first
        | (cases h; rfl)
        | (split at h
           · cases h
           · cases h; rfl)
  | _ => simp [inPlaceTarget] at ht

theorem val_bindNew_self (s : Store) (x : Nat) (v : Op) (hx : x < s.vars.length) :
    (s.bindNew x v).val? x = some v := by
  simp [Store.val?, Store.obj?, Store.bindNew, List.getElem?_set_self hx]

theorem val_setObj_of_obj (s : Store) (x i : Nat) (a v : Op) (hx : s.obj? x = some (i, a)) :
    (s.setObj i v).val? x = some v := by
  simp only [Store.obj?] at hx
  split at hx
  · rename_i id hv
    simp only [Option.map_eq_some_iff] at hx
    obtain ⟨o, ho, he⟩ := hx
    cases he
    have hl : i < s.objs.length := by
      rcases Nat.lt_or_ge i s.objs.length with h' | h'
      · exact h'
      · rw [List.getElem?_eq_none h'] at ho; cases ho
    simp [Store.val?, Store.obj?, Store.setObj, hv, List.getElem?_set_self hl]
  · cases hx

theorem obj_lt (s : Store) (x i : Nat) (a : Op) (hx : s.obj? x = some (i, a)) : x < s.vars.length := by
  simp only [Store.obj?] at hx
  split at hx
  · rename_i id hv
    rcases Nat.lt_or_ge x s.vars.length with h' | h'
    · exact h'
    · rw [List.getElem?_eq_none h'] at hv; cases hv
  · cases hx

theorem val_of_obj (s : Store) (x i : Nat) (a : Op) (hx : s.obj? x = some (i, a)) : s.val? x = some a := by
  simp [Store.val?, hx]

/-- `x o= y` leaves in `x` the value `x o y` has out of place — also when `y` aliases `x` -/
theorem iop_eq_bin_lemma (tol : Rat) (f : Fam) (s s1 s2 : Store) (x y z : Nat) (o : BinOp)
    (h1 : exec tol f s (.iop x o y) = .ok s1) (h2 : exec tol f s (.bin z o x y) = .ok s2)
    (hz : z < s.vars.length) : s1.val? x = s2.val? z := by
  simp only [exec] at h1 h2
  split at h1
  · rename_i i a b hx hy
    rw [val_of_obj s x i a hx, hy] at h2
    simp only at h2
    cases h2
    rw [val_bindNew_self s z _ hz]
    split at h1
    · cases h1; exact val_bindNew_self s x _ (obj_lt s x i a hx)
    · cases h1; exact val_setObj_of_obj s x i a _ hx
  · cases h1

def ISOp.toSOp : ISOp → SOp
  | .mul => .mul | .div => .div | .add => .add | .sub => .sub

/-- `x o= c` leaves in `x` the value `x o c` has out of place -/
theorem isop_eq_sbin_lemma (tol : Rat) (f : Fam) (s s1 s2 : Store) (x z : Nat) (o : ISOp) (c : GQ)
    (h1 : exec tol f s (.isop x o c) = .ok s1) (h2 : exec tol f s (.sbin z o.toSOp x c) = .ok s2)
    (hz : z < s.vars.length) : s1.val? x = s2.val? z := by
  simp only [exec] at h1 h2
  split at h1
  · cases h1
  · rename_i i a hx
    rw [val_of_obj s x i a hx] at h2
    cases o <;> simp only [ISOp.toSOp] at h1 h2
    · cases h1; cases h2
      rw [val_bindNew_self s z _ hz]; exact val_setObj_of_obj s x i a _ hx
    · split at h1
      · cases h1
      · rename_i hc
        rw [if_neg hc] at h2
        cases h1; cases h2
        rw [val_bindNew_self s z _ hz]; exact val_setObj_of_obj s x i a _ hx
    · cases h1; cases h2
      rw [val_bindNew_self s z _ hz]; exact val_setObj_of_obj s x i a _ hx
    · cases h1; cases h2
      rw [val_bindNew_self s z _ hz]; exact val_setObj_of_obj s x i a _ hx

/-- an in-place statement succeeds exactly when its out-of-place form does -/
theorem iop_ok_iff_bin (tol : Rat) (f : Fam) (s : Store) (x y z : Nat) (o : BinOp) :
    (∃ s1, exec tol f s (.iop x o y) = .ok s1) ↔ (∃ s2, exec tol f s (.bin z o x y) = .ok s2) := by
  simp only [exec]
  cases hx : s.obj? x with
  | none =>
    have : s.val? x = none := by simp [Store.val?, hx]
    simp [this]
  | some p =>
    obtain ⟨i, a⟩ := p
    rw [val_of_obj s x i a hx]
    cases hy : s.val? y with
    | none => simp
    | some b =>
      simp only
      constructor
      · intro _; exact ⟨_, rfl⟩
      · intro _; split <;> exact ⟨_, rfl⟩

/-- every variable bound to the mutated object observes the new value (aliases are not copies) -/
theorem alias_sees_inplace_lemma (s : Store) (x w i : Nat) (a a' v : Op)
    (hx : s.obj? x = some (i, a)) (hw : s.obj? w = some (i, a')) :
    (s.setObj i v).val? w = (s.setObj i v).val? x := by
  rw [val_setObj_of_obj s x i a v hx, val_setObj_of_obj s w i a' v hw]

end Model
end OFV
