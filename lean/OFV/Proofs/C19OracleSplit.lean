/-
C19 — for ALL integrals: whenever the Spec oracle without the identity returns a value `v` for the molecular
Hamiltonian, the oracle with the identity returns `v + |htilde|`; hence `one_norm_spec` for `get_one_norm_int` follows
from the one for `get_one_norm_int_woconst` (and conversely the two Model functions differ by the same amount).
-/
import OFV.Proofs.C19OneNormId

namespace OFV
namespace C19P
open Spec Spec.C19 Sem

theorem fold_none {β : Type} (l : List β) (step : Option Rat → β → Option Rat) (hnone : ∀ b, step none b = none) :
    l.foldl step none = none := by
  induction l with
  | nil => rfl
  | cons b l ih => simp only [List.foldl_cons, hnone, ih]

/-- if the inner loop of the oracle ends with a value, it started with one and every inspected trace was real -/
theorem optFold_some {β : Type} (l : List β) (skip : β → Prop) [DecidablePred skip] (val : β → GQ)
    (step : Option Rat → β → Option Rat) (hnone : ∀ b, step none b = none)
    (hsome : ∀ a b, step (some a) b
      = if skip b then some a else if (val b).im ≠ 0 then none else some (a + rabs (val b).re))
    (acc : Option Rat) (v : Rat) (h : l.foldl step acc = some v) :
    (∃ a0, acc = some a0) ∧ ∀ b ∈ l, ¬ skip b → (val b).im = 0 := by
  induction l generalizing acc with
  | nil => exact ⟨⟨v, h⟩, fun b hb => by simp at hb⟩
  | cons b l ih =>
    simp only [List.foldl_cons] at h
    obtain ⟨⟨a1, ha1⟩, hrest⟩ := ih _ h
    cases acc with
    | none => rw [hnone] at ha1; cases ha1
    | some a0 =>
      refine ⟨⟨a0, rfl⟩, ?_⟩
      intro b' hb' hsk
      rcases List.mem_cons.1 hb' with rfl | hb'
      · rw [hsome] at ha1
        rw [if_neg hsk] at ha1
        by_contra him
        rw [if_pos him] at ha1
        cases ha1
      · exact hrest b' hb' hsk

theorem optFold2_some (xs zs : List Nat) (skip : Nat → Nat → Prop) [∀ x, DecidablePred (skip x)] (val : Nat → Nat → GQ)
    (step : Nat → Option Rat → Nat → Option Rat) (hnone : ∀ x z, step x none z = none)
    (hsome : ∀ x a z, step x (some a) z
      = if skip x z then some a else if (val x z).im ≠ 0 then none else some (a + rabs (val x z).re))
    (acc : Option Rat) (v : Rat)
    (h : xs.foldl (fun (acc : Option Rat) x => zs.foldl (step x) acc) acc = some v) :
    ∀ x ∈ xs, ∀ z ∈ zs, ¬ skip x z → (val x z).im = 0 := by
  induction xs generalizing acc with
  | nil => intro x hx; simp at hx
  | cons x xs ih =>
    simp only [List.foldl_cons] at h
    intro x' hx'
    rcases List.mem_cons.1 hx' with rfl | hx'
    · -- the inner loop for x' must have produced a value
      cases hin : zs.foldl (step x') acc with
      | none =>
        rw [hin] at h
        have : xs.foldl (fun (acc : Option Rat) x => zs.foldl (step x) acc) none = none := by
          apply fold_none
          intro b
          exact fold_none zs (step b) (hnone b)
        rw [this] at h; cases h
      | some w =>
        exact (optFold_some zs (skip x') (val x') (step x') (hnone x') (hsome x') acc w hin).2
    · exact ih _ h x' hx'

/-- all non-identity traces are real whenever the oracle without the identity returns a value -/
theorem im_of_jwOneNorm_false (n : Nat) (A : Model.Op) (v : Rat) (h : jwOneNorm n A false = some v) :
    ∀ x ∈ List.range (2 ^ n), ∀ z ∈ List.range (2 ^ n), ¬ (x = 0 ∧ z = 0 ∧ (!false) = true) → (ptv n A x z).im = 0 := by
  unfold jwOneNorm at h
  simp only at h
  obtain ⟨w, hw, _⟩ := Option.map_eq_some_iff.1 h
  exact optFold2_some (List.range (2 ^ n)) (List.range (2 ^ n)) (fun x z => x = 0 ∧ z = 0 ∧ (!false) = true)
    (fun x z => ptv n A x z) _ (fun x z => rfl) (fun x a z => rfl) (some 0) w hw

/-- **oracle with the identity from the oracle without it** -/
theorem jwOneNorm_true_of_false (n : Nat) (A : Model.Op) (v : Rat) (h : jwOneNorm n A false = some v)
    (h00 : (ptv n A 0 0).im = 0) :
    jwOneNorm n A true = some (v + rabs (ptv n A 0 0).re / ((2 ^ n : Nat) : Rat)) := by
  have him0 := im_of_jwOneNorm_false n A v h
  have him1 : ∀ x ∈ List.range (2 ^ n), ∀ z ∈ List.range (2 ^ n), ¬ (x = 0 ∧ z = 0 ∧ (!true) = true) → (ptv n A x z).im = 0 := by
    intro x hx z hz _
    by_cases h0 : x = 0 ∧ z = 0
    · rw [h0.1, h0.2]; exact h00
    · exact him0 x hx z hz (fun hc => h0 ⟨hc.1, hc.2.1⟩)
  have e0 := jwOneNorm_eval n A false him0
  rw [e0] at h
  have hv := Option.some.inj h
  rw [jwOneNorm_eval n A true him1, sum_split00 (2 ^ n) (Nat.two_pow_pos n) (fun x z => rabs (ptv n A x z).re), add_div, hv]

end C19P

namespace C19Jw
open Model.C19
open Spec.C19 (molOp)

/-- for ALL integrals: the oracle value with the identity is the one without it plus `|htilde|` -/
theorem oracle_split (n : Nat) (const : Rat) (h : List (List Rat)) (g : List (List (List (List Rat)))) (v : Rat)
    (hv : Spec.C19.jwOneNorm (2 * n) (molOp n const h g) false = some v) :
    Spec.C19.jwOneNorm (2 * n) (molOp n const h g) true = some (v + Spec.C19.rabs (C19P.htildeF n const h g)) := by
  have htr := C19P.mol_trace n const h g
  have h00 : (C19P.ptv (2 * n) (molOp n const h g) 0 0).im = 0 := by
    unfold C19P.ptv
    rw [htr, C19P.mul_nat_im]; simp
  rw [C19P.jwOneNorm_true_of_false (2 * n) (molOp n const h g) v hv h00]
  congr 2
  unfold C19P.ptv
  have hN : ((2 ^ (2 * n) : Nat) : Rat) ≠ 0 := by
    have : 0 < 2 ^ (2 * n) := Nat.two_pow_pos _
    exact_mod_cast (Nat.pos_iff_ne_zero.1 this)
  rw [htr, C19P.rabs_mul_nat, mul_comm, mul_div_assoc, div_self hN, mul_one]

end C19Jw
end OFV
