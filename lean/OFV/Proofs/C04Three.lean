/-
`jordan_wigner_two_body`, three distinct indices: the result is `± n_z (c' a†_a a_b + h.c.)`.
Fermionic side: the four ways a number operator can sit inside `a† a† a a`.
-/
import OFV.Proofs.C04TwoBody

namespace OFV
namespace Sem
open Spec Model Model.C04

/-- closed form of `c' a†_a a_b + h.c.` on `|m⟩` for `a < b` (what the hopping strings add up to) -/
def Hop (a b : Nat) (c : GQ) (m x : Nat) : GQ :=
  if m ^^^ (1 <<< b) ^^^ (1 <<< a) = x then
    (if m.testBit b then (if m.testBit a then 0 else c * GQ.sgn (cnt m (a + 1) b))
     else (if m.testBit a then c.conj * GQ.sgn (cnt m (a + 1) b) else 0))
  else 0

theorem hop_fermion_closed (u v : Nat) (c : GQ) (m x : Nat) (h : u ≠ v) :
    c * termCoef .fermion [(u, 1), (v, 0)] [m] [x] + c.conj * termCoef .fermion [(v, 1), (u, 0)] [m] [x]
      = if u < v then Hop u v c m x else Hop v u c.conj m x := by
  by_cases hlt : u < v
  · simp only [hlt, if_true, Hop, hop_fermion_pq u v m x hlt, hop_fermion_qp u v m x hlt]
    by_cases hx : m ^^^ (1 <<< v) ^^^ (1 <<< u) = x <;> cases m.testBit v <;> cases m.testBit u <;> simp [hx]
  · have hgt : v < u := by omega
    simp only [hlt, if_false, Hop, hop_fermion_pq v u m x hgt, hop_fermion_qp v u m x hgt, conj_conj]
    by_cases hx : m ^^^ (1 <<< u) ^^^ (1 <<< v) = x <;> cases m.testBit v <;> cases m.testBit u <;> simp [hx]

/-! ### a number operator inside a two-body term -/

/-- generic evaluation of a four-factor term in which `z` is created and annihilated around a hop `u ← v`;
the four placements differ only in the parity `k` of the extra sign -/
theorem tC_four (f1 f2 f3 f4 : Nat × Nat) (m x : Nat) :
    termCoef .fermion [f1, f2, f3, f4] [m] [x]
      = match actF f4.1 f4.2 m with
        | none => 0
        | some (k4, m4) => match actF f3.1 f3.2 m4 with
          | none => 0
          | some (k3, m3) => match actF f2.1 f2.2 m3 with
            | none => 0
            | some (k2, m2) => match actF f1.1 f1.2 m2 with
              | none => 0
              | some (k1, m1) => if m1 = x then GQ.sgn (k4 + k3 + k2 + k1) else 0 := by
  rw [termCoef_fermion]
  simp only [actFTerm, List.foldr_cons, List.foldr_nil]
  cases h4 : actF f4.1 f4.2 m with
  | none => rfl
  | some km4 =>
    obtain ⟨k4, m4⟩ := km4
    simp only
    cases h3 : actF f3.1 f3.2 m4 with
    | none => rfl
    | some km3 =>
      obtain ⟨k3, m3⟩ := km3
      simp only
      cases h2 : actF f2.1 f2.2 m3 with
      | none => rfl
      | some km2 =>
        obtain ⟨k2, m2⟩ := km2
        simp only
        cases h1 : actF f1.1 f1.2 m2 with
        | none => rfl
        | some km1 =>
          obtain ⟨k1, m1⟩ := km1
          simp only
          split
          · rw [sgn_congr]; omega
          · rfl

theorem tC_two (f1 f2 : Nat × Nat) (m x : Nat) :
    termCoef .fermion [f1, f2] [m] [x]
      = match actF f2.1 f2.2 m with
        | none => 0
        | some (k2, m2) => match actF f1.1 f1.2 m2 with
          | none => 0
          | some (k1, m1) => if m1 = x then GQ.sgn (k2 + k1) else 0 := by
  rw [termCoef_fermion]
  simp only [actFTerm, List.foldr_cons, List.foldr_nil]
  cases h2 : actF f2.1 f2.2 m with
  | none => rfl
  | some km2 =>
    obtain ⟨k2, m2⟩ := km2
    simp only
    cases h1 : actF f1.1 f1.2 m2 with
    | none => rfl
    | some km1 =>
      obtain ⟨k1, m1⟩ := km1
      simp only
      split
      · rw [sgn_congr]; omega
      · rfl

theorem sgn_succ (k : Nat) : GQ.sgn (k + 1) = -GQ.sgn k := by
  unfold GQ.sgn
  have : k % 2 = 0 ∨ k % 2 = 1 := by omega
  rcases this with h | h <;> simp [h, Nat.add_mod]

/-- `a†_u n_z a_v`-type placement (the pair `a†_z a_z` adjacent in the middle): no extra sign -/
theorem F3 (u z v m x : Nat) (huz : u ≠ z) (hvz : v ≠ z) (huv : u ≠ v) :
    termCoef .fermion [(u, 1), (z, 1), (z, 0), (v, 0)] [m] [x]
      = if m.testBit z then termCoef .fermion [(u, 1), (v, 0)] [m] [x] else 0 := by
  have bz : (m ^^^ (1 <<< v)).testBit z = m.testBit z := testBit_xflip_ne m v z hvz
  have bz' : (m ^^^ (1 <<< v) ^^^ (1 <<< z)).testBit z = !m.testBit z := by rw [testBit_xflip, bz]
  have st : m ^^^ (1 <<< v) ^^^ (1 <<< z) ^^^ (1 <<< z) = m ^^^ (1 <<< v) := xflip_xflip _ _
  have cz : countBelow (m ^^^ (1 <<< v) ^^^ (1 <<< z)) z = countBelow (m ^^^ (1 <<< v)) z :=
    cb_xflip_hi _ z z (Nat.le_refl _)
  rw [tC_four, tC_two]
  simp only [actF_ann, actF_cre]
  cases hv : m.testBit v
  · simp
  · simp only [if_true, bz]
    cases hz : m.testBit z
    · simp
    · simp only [if_true, bz', hz, Bool.not_true, Bool.false_eq_true, if_false, st, cz]
      cases hu : (m ^^^ (1 <<< v)).testBit u
      · simp only [Bool.false_eq_true, if_false]
        split
        · apply sgn_congr; omega
        · rfl
      · simp

/-- `a†_z a†_u a_z a_v = - n_z a†_u a_v` -/
theorem F1 (u z v m x : Nat) (huz : u ≠ z) (hvz : v ≠ z) (huv : u ≠ v) :
    termCoef .fermion [(z, 1), (u, 1), (z, 0), (v, 0)] [m] [x]
      = if m.testBit z then -termCoef .fermion [(u, 1), (v, 0)] [m] [x] else 0 := by
  have bz : (m ^^^ (1 <<< v)).testBit z = m.testBit z := testBit_xflip_ne m v z hvz
  have bu : (m ^^^ (1 <<< v) ^^^ (1 <<< z)).testBit u = (m ^^^ (1 <<< v)).testBit u :=
    testBit_xflip_ne _ z u (Ne.symm huz)
  have bz' : (m ^^^ (1 <<< v) ^^^ (1 <<< z) ^^^ (1 <<< u)).testBit z = !m.testBit z := by
    rw [testBit_xflip_ne _ u z huz, testBit_xflip, bz]
  have st : m ^^^ (1 <<< v) ^^^ (1 <<< z) ^^^ (1 <<< u) ^^^ (1 <<< z) = m ^^^ (1 <<< v) ^^^ (1 <<< u) := by
    rw [xflip_comm (m ^^^ (1 <<< v) ^^^ (1 <<< z)) u z, xflip_xflip]
  have e1 := cb_xflip_parity (m ^^^ (1 <<< v)) z u (Ne.symm huz)
  have e2 := cb_xflip_parity (m ^^^ (1 <<< v) ^^^ (1 <<< z)) u z huz
  have e3 : countBelow (m ^^^ (1 <<< v) ^^^ (1 <<< z)) z = countBelow (m ^^^ (1 <<< v)) z :=
    cb_xflip_hi _ z z (Nat.le_refl _)
  rw [tC_four, tC_two]
  simp only [actF_ann, actF_cre]
  cases hv : m.testBit v
  · simp
  · simp only [if_true, bz]
    cases hz : m.testBit z
    · simp
    · simp only [if_true, bu]
      cases hu : (m ^^^ (1 <<< v)).testBit u
      · simp only [Bool.false_eq_true, if_false, bz', hz, Bool.not_true, st]
        split
        · rw [← sgn_succ]; apply sgn_congr
          rw [e3] at e2
          by_cases hlt : z < u
          · have : ¬ u < z := by omega
            simp only [hlt, this, if_true, if_false] at e1 e2; omega
          · have : u < z := by omega
            simp only [hlt, this, if_true, if_false] at e1 e2; omega
        · simp
      · simp

/-- `a†_z a†_u a_v a_z = + n_z a†_u a_v` -/
theorem F2 (u z v m x : Nat) (huz : u ≠ z) (hvz : v ≠ z) (huv : u ≠ v) :
    termCoef .fermion [(z, 1), (u, 1), (v, 0), (z, 0)] [m] [x]
      = if m.testBit z then termCoef .fermion [(u, 1), (v, 0)] [m] [x] else 0 := by
  have bv : (m ^^^ (1 <<< z)).testBit v = m.testBit v := testBit_xflip_ne m z v (Ne.symm hvz)
  have sw : m ^^^ (1 <<< z) ^^^ (1 <<< v) = m ^^^ (1 <<< v) ^^^ (1 <<< z) := xflip_comm m z v
  have bu : (m ^^^ (1 <<< v) ^^^ (1 <<< z)).testBit u = (m ^^^ (1 <<< v)).testBit u :=
    testBit_xflip_ne _ z u (Ne.symm huz)
  have bz' : (m ^^^ (1 <<< v) ^^^ (1 <<< z) ^^^ (1 <<< u)).testBit z = !m.testBit z := by
    rw [testBit_xflip_ne _ u z huz, testBit_xflip, testBit_xflip_ne m v z hvz]
  have st : m ^^^ (1 <<< v) ^^^ (1 <<< z) ^^^ (1 <<< u) ^^^ (1 <<< z) = m ^^^ (1 <<< v) ^^^ (1 <<< u) := by
    rw [xflip_comm (m ^^^ (1 <<< v) ^^^ (1 <<< z)) u z, xflip_xflip]
  have e0 := cb_xflip_parity m z v (Ne.symm hvz)
  have e1 := cb_xflip_parity (m ^^^ (1 <<< v)) z u (Ne.symm huz)
  have e2 := cb_xflip_parity (m ^^^ (1 <<< v) ^^^ (1 <<< z)) u z huz
  have e3 : countBelow (m ^^^ (1 <<< v) ^^^ (1 <<< z)) z = countBelow (m ^^^ (1 <<< v)) z :=
    cb_xflip_hi _ z z (Nat.le_refl _)
  have e4 := cb_xflip_parity m v z hvz
  rw [tC_four, tC_two]
  simp only [actF_ann, actF_cre]
  cases hz : m.testBit z
  · simp
  · simp only [if_true, bv]
    cases hv : m.testBit v
    · simp
    · simp only [if_true, sw, bu]
      cases hu : (m ^^^ (1 <<< v)).testBit u
      · simp only [Bool.false_eq_true, if_false, bz', hz, Bool.not_true, st]
        split
        · apply sgn_congr
          rw [e3] at e2
          by_cases h1 : z < u <;> by_cases h2 : z < v <;>
            simp only [h1, h2, if_true, if_false, show (u < z) = ¬ (z < u) by simp; omega,
              show (v < z) = ¬ (z < v) by simp; omega, not_true_eq_false, not_false_eq_true] at e0 e1 e2 e4 <;> omega
        · rfl
      · simp

/-- `a†_u a†_z a_v a_z = - n_z a†_u a_v` -/
theorem F4 (u z v m x : Nat) (huz : u ≠ z) (hvz : v ≠ z) (huv : u ≠ v) :
    termCoef .fermion [(u, 1), (z, 1), (v, 0), (z, 0)] [m] [x]
      = if m.testBit z then -termCoef .fermion [(u, 1), (v, 0)] [m] [x] else 0 := by
  have bv : (m ^^^ (1 <<< z)).testBit v = m.testBit v := testBit_xflip_ne m z v (Ne.symm hvz)
  have sw : m ^^^ (1 <<< z) ^^^ (1 <<< v) = m ^^^ (1 <<< v) ^^^ (1 <<< z) := xflip_comm m z v
  have bz' : (m ^^^ (1 <<< v) ^^^ (1 <<< z)).testBit z = !m.testBit z := by
    rw [testBit_xflip, testBit_xflip_ne m v z hvz]
  have st : m ^^^ (1 <<< v) ^^^ (1 <<< z) ^^^ (1 <<< z) = m ^^^ (1 <<< v) := xflip_xflip _ _
  have e0 := cb_xflip_parity m z v (Ne.symm hvz)
  have e3 : countBelow (m ^^^ (1 <<< v) ^^^ (1 <<< z)) z = countBelow (m ^^^ (1 <<< v)) z :=
    cb_xflip_hi _ z z (Nat.le_refl _)
  have e4 := cb_xflip_parity m v z hvz
  rw [tC_four, tC_two]
  simp only [actF_ann, actF_cre]
  cases hz : m.testBit z
  · simp
  · simp only [if_true, bv]
    cases hv : m.testBit v
    · simp
    · simp only [if_true, sw, bz', hz, Bool.not_true, Bool.false_eq_true, if_false, st, e3]
      cases hu : (m ^^^ (1 <<< v)).testBit u
      · simp only [Bool.false_eq_true, if_false]
        split
        · rw [← sgn_succ]; apply sgn_congr
          by_cases h2 : z < v
          · have : ¬ v < z := by omega
            simp only [h2, this, if_true, if_false] at e0 e4; omega
          · have : v < z := by omega
            simp only [h2, this, if_true, if_false] at e0 e4; omega
        · simp
      · simp

end Sem
end OFV

namespace OFV
namespace Sem
open Spec Model Model.C04

theorem den_mulOp_mk_right (a : Op) (ha : ValidOp a) (T : List (Nat × Nat)) (hT : ValidQ T) (c : GQ) (m x : Nat) :
    den .qubit (mulOp .qubit a (mk .qubit T c)) [m] [x]
      = c * GQ.ipow (actPTerm T m).1 * den .qubit a [(actPTerm T m).2] [x] := by
  rw [den_mulOp_right a _ ha (mk_valid T hT c)]
  obtain ⟨h1, h2⟩ := simplifyQubit_sound hT m
  simp only [mk, simplify, List.map_cons, List.map_nil, List.sum_cons, List.sum_nil, add_zero, h1]
  rw [← h2]; ring

theorem hop_valid (a b oa ob : Nat) (ha : oa < 4) (hb : ob < 4) : ValidQ ([(a, oa)] ++ zs (a + 1) b ++ [(b, ob)]) := by
  intro f hf
  rcases List.mem_append.1 hf with h | h
  · rcases List.mem_append.1 h with h | h
    · simp at h; subst h; exact ha
    · exact zs_valid _ _ f h
  · simp at h; subst h; exact hb

/-- one iteration of the three-index loop: `-= Z_z * hop; += hop` contributes `2 n_z · hop` -/
theorem three_elem (a b z oa ob : Nat) (x : Rat) (m y : Nat) (hab : a < b) (hza : z ≠ a) (hzb : z ≠ b)
    (hoa : oa = 1 ∨ oa = 2) (hob : ob = 1 ∨ ob = 2) :
    ((if x == 0 then [] else
        [(false, mulOp .qubit (mk .qubit [(z, 3)] 1) (mk .qubit ([(a, oa)] ++ zs (a + 1) b ++ [(b, ob)]) (rl (x / 4)))),
         (true, mk .qubit ([(a, oa)] ++ zs (a + 1) b ++ [(b, ob)]) (rl (x / 4)))]).map
      fun so => (if so.1 then (1 : GQ) else -1) * den .qubit so.2 [m] [y]).sum
    = if m.testBit z then rl (mkRat 1 2 * x) * termCoef .qubit ([(a, oa)] ++ zs (a + 1) b ++ [(b, ob)]) [m] [y]
      else 0 := by
  have hv : ValidQ ([(a, oa)] ++ zs (a + 1) b ++ [(b, ob)]) :=
    hop_valid a b oa ob (by rcases hoa with h | h <;> omega) (by rcases hob with h | h <;> omega)
  by_cases hx : x = 0
  · subst hx
    have h0 : rl (mkRat 1 2 * 0) = 0 := by apply GQ.ext <;> simp [rl]
    rw [h0]
    simp
  · have hx' : (x == 0) = false := by simp [hx]
    simp only [hx', Bool.false_eq_true, if_false, List.map_cons, List.map_nil, List.sum_cons, List.sum_nil, add_zero,
      if_true]
    rw [den_mulOp_mk_right _ (mk_valid _ (valid_z z) 1) _ hv, den_mk _ hv, den_mk _ (valid_z z), tC_z,
      termCoef_qubit, act_hop a b oa ob m hab]
    have hst : (actP a oa (actP b ob m).2).2 = m ^^^ (1 <<< b) ^^^ (1 <<< a) := by
      rcases hoa with rfl | rfl <;> rcases hob with rfl | rfl <;> simp [actP]
    have hbz : (m ^^^ (1 <<< b) ^^^ (1 <<< a)).testBit z = m.testBit z := by
      rw [testBit_xflip_ne _ a z (Ne.symm hza), testBit_xflip_ne _ b z (Ne.symm hzb)]
    simp only [hst, hbz]
    have e : rl (mkRat 1 2 * x) = rl (x / 4) + rl (x / 4) := by
      apply GQ.ext <;> simp [rl] <;> norm_num [Rat.mkRat_eq_div] <;> ring
    rw [e]
    by_cases hy : m ^^^ (1 <<< b) ^^^ (1 <<< a) = y <;> cases m.testBit z <;> simp [hy] <;> ring

end Sem
end OFV

namespace OFV
namespace Sem
open Spec Model Model.C04

/-- the operand sequence of the three-index branch for given `(a, b, coefficient, z)` -/
def threeOps (a b z : Nat) (c : GQ) : List (Bool × Op) :=
  (hopList c).flatMap fun (x, oa, ob) =>
    if x == 0 then [] else
    [(false, mulOp .qubit (mk .qubit [(z, 3)] 1) (mk .qubit ([(a, oa)] ++ zs (a + 1) b ++ [(b, ob)]) (rl (x / 4)))),
     (true, mk .qubit ([(a, oa)] ++ zs (a + 1) b ++ [(b, ob)]) (rl (x / 4)))]

theorem threeOps_sum (a b z : Nat) (c : GQ) (m y : Nat) (hab : a < b) (hza : z ≠ a) (hzb : z ≠ b) :
    ((threeOps a b z c).map fun so => (if so.1 then (1 : GQ) else -1) * den .qubit so.2 [m] [y]).sum
      = if m.testBit z then Hop a b c m y else 0 := by
  unfold threeOps
  simp only [hopList, List.flatMap_cons, List.flatMap_nil, List.append_nil, List.map_append, List.sum_append]
  rw [three_elem a b z 1 1 c.re m y hab hza hzb (Or.inl rfl) (Or.inl rfl),
    three_elem a b z 2 2 c.re m y hab hza hzb (Or.inr rfl) (Or.inr rfl),
    three_elem a b z 2 1 c.im m y hab hza hzb (Or.inr rfl) (Or.inl rfl),
    three_elem a b z 1 2 (-c.im) m y hab hza hzb (Or.inl rfl) (Or.inr rfl)]
  have := hop_qubit_sum a b m y c hab
  simp only [hopList, List.map_cons, List.map_nil, List.sum_cons, List.sum_nil, add_zero] at this
  cases m.testBit z
  · simp
  · simp only [if_true, Hop]
    rw [← this]

theorem Hop_neg (a b : Nat) (c : GQ) (m x : Nat) : Hop a b (-c) m x = -Hop a b c m x := by
  have : (-c).conj = -c.conj := by apply GQ.ext <;> simp [GQ.conj]
  unfold Hop
  rw [this]
  split <;> [skip; simp]
  split <;> split <;> simp

theorem twoBodyOp_offdiag (p q r s : Nat) (c : GQ) (h : ¬ ((p = r ∧ q = s) ∨ (p = s ∧ q = r))) (m x : Nat) :
    den .fermion (Spec.C04.twoBodyOp p q r s c) [m] [x]
      = c * termCoef .fermion [(p, 1), (q, 1), (r, 0), (s, 0)] [m] [x]
        + c.conj * termCoef .fermion [(s, 1), (r, 1), (q, 0), (p, 0)] [m] [x] := by
  simp only [Spec.C04.twoBodyOp, h, if_false, den_cons, den_nil, add_zero, Spec.C04.dagTerm]
  rfl

theorem nDistinct3_a (p q s : Nat) (h1 : p ≠ q) (h2 : p ≠ s) (h3 : q ≠ s) : nDistinct [p, q, p, s] = 3 := by
  have h1' := Ne.symm h1; have h2' := Ne.symm h2; have h3' := Ne.symm h3
  simp [nDistinct, List.eraseDups_cons, h1, h2, h3, h1', h2', h3']
theorem nDistinct3_b (p q r : Nat) (h1 : p ≠ q) (h2 : p ≠ r) (h3 : q ≠ r) : nDistinct [p, q, r, p] = 3 := by
  have h1' := Ne.symm h1; have h2' := Ne.symm h2; have h3' := Ne.symm h3
  simp [nDistinct, List.eraseDups_cons, h1, h2, h3, h1', h2', h3']
theorem nDistinct3_c (p q s : Nat) (h1 : p ≠ q) (h2 : p ≠ s) (h3 : q ≠ s) : nDistinct [p, q, q, s] = 3 := by
  have h1' := Ne.symm h1; have h2' := Ne.symm h2; have h3' := Ne.symm h3
  simp [nDistinct, List.eraseDups_cons, h1, h2, h3, h1', h2', h3']
theorem nDistinct3_d (p q r : Nat) (h1 : p ≠ q) (h2 : p ≠ r) (h3 : q ≠ r) : nDistinct [p, q, r, q] = 3 := by
  have h1' := Ne.symm h1; have h2' := Ne.symm h2; have h3' := Ne.symm h3
  simp [nDistinct, List.eraseDups_cons, h1, h2, h3, h1', h2', h3']

/-- in the three-index branch the operand sequence is `threeOps` of what `case3` returns -/
theorem twoBodyOps_three (p q r s : Nat) (c : GQ) (hpq : p ≠ q) (hrs : r ≠ s)
    (hk : nDistinct [p, q, r, s] = 3) :
    twoBodyOps p q r s c
      = threeOps (case3 p q r s c).1 (case3 p q r s c).2.1 (case3 p q r s c).2.2.2 (case3 p q r s c).2.2.1 := by
  have hb : (p == q || r == s) = false := by simp [hpq, hrs]
  simp only [twoBodyOps, hb, Bool.false_eq_true, if_false, hk]
  rw [show ((3 : Nat) == 4) = false from rfl, show ((3 : Nat) == 3) = true from rfl]
  simp only [Bool.false_eq_true, if_false, if_true]
  rfl

end Sem
end OFV

namespace OFV
namespace Sem
open Spec Model Model.C04

/-- which index is repeated when exactly three of `p, q, r, s` are distinct (`p ≠ q`, `r ≠ s`) -/
theorem three_patterns (p q r s : Nat) (hpq : p ≠ q) (hrs : r ≠ s) (hk : nDistinct [p, q, r, s] = 3) :
    (p = r ∧ q ≠ s ∧ p ≠ s) ∨ (p = s ∧ q ≠ r ∧ p ≠ r) ∨ (q = r ∧ p ≠ s ∧ q ≠ s ∧ p ≠ r) ∨ (q = s ∧ p ≠ r ∧ q ≠ r ∧ p ≠ s) := by
  have hqp := Ne.symm hpq
  have hsr := Ne.symm hrs
  by_cases h1 : p = r <;> by_cases h2 : p = s <;> by_cases h3 : q = r <;> by_cases h4 : q = s
  all_goals (try (exfalso; omega))
  all_goals (try (subst_vars; simp [nDistinct, List.eraseDups_cons, *] at hk; done))
  all_goals first
    | (left; exact ⟨h1, h4, h2⟩)
    | (right; left; exact ⟨h2, h3, h1⟩)
    | (right; right; left; exact ⟨h3, h2, h4, h1⟩)
    | (right; right; right; exact ⟨h4, h1, h3, h2⟩)
    | (exfalso
       have a1 := Ne.symm h1; have a2 := Ne.symm h2; have a3 := Ne.symm h3; have a4 := Ne.symm h4
       simp [nDistinct, List.eraseDups_cons, *] at hk)

/-- **three distinct indices**: `jordan_wigner_two_body(p, q, r, s, c)` denotes
`c a†_p a†_q a_r a_s + h.c.` on every exact run -/
theorem jwTwoBody_three (tol : Rat) (p q r s : Nat) (c : GQ) (hpq : p ≠ q) (hrs : r ≠ s)
    (hk : nDistinct [p, q, r, s] = 3) (hok : jwTwoBodyOk tol p q r s c = true) (m x : Nat) :
    den .qubit (jwTwoBody tol p q r s c) [m] [x] = den .fermion (Spec.C04.twoBodyOp p q r s c) [m] [x] := by
  unfold jwTwoBody
  rw [den_foldSigned .qubit tol _ [m] [x] hok, twoBodyOps_three p q r s c hpq hrs hk]
  rcases three_patterns p q r s hpq hrs hk with ⟨h1, h2, h3⟩ | ⟨h1, h2, h3⟩ | ⟨h1, h2, h3, h4⟩ | ⟨h1, h2, h3, h4⟩
  · -- p = r
    subst h1
    rw [twoBodyOp_offdiag p q p s c (by rintro (⟨_, h⟩ | ⟨h, _⟩) <;> [exact h2 h; exact h3 h]),
      F1 q p s m x (Ne.symm hpq) (Ne.symm h3) h2, F4 s p q m x (Ne.symm h3) (Ne.symm hpq) (Ne.symm h2)]
    have hc := hop_fermion_closed q s c m x h2
    by_cases hgt : q > s
    · have e : case3 p q p s c = (s, q, -(c.conj), p) := by simp [case3, hgt]
      rw [e, threeOps_sum s q p _ m x hgt h3 hpq, Hop_neg]
      have hlt : ¬ q < s := by omega
      simp only [hlt, if_false] at hc
      cases m.testBit p <;> simp <;> rw [← hc] <;> ring
    · have e : case3 p q p s c = (q, s, -c, p) := by simp [case3, hgt]
      have hlt : q < s := by omega
      rw [e, threeOps_sum q s p _ m x hlt hpq h3, Hop_neg]
      simp only [hlt, if_true] at hc
      cases m.testBit p <;> simp <;> rw [← hc] <;> ring
  · -- p = s
    subst h1
    have hpr : (p == r) = false := by simp [h3]
    rw [twoBodyOp_offdiag p q r p c (by rintro (⟨h, _⟩ | ⟨_, h⟩) <;> [exact h3 h; exact h2 h]),
      F2 q p r m x (Ne.symm hpq) (Ne.symm h3) h2, F2 r p q m x (Ne.symm h3) (Ne.symm hpq) (Ne.symm h2)]
    have hc := hop_fermion_closed q r c m x h2
    by_cases hgt : q > r
    · have e : case3 p q r p c = (r, q, c.conj, p) := by simp [case3, hpr, hgt]
      rw [e, threeOps_sum r q p _ m x hgt h3 hpq]
      have hlt : ¬ q < r := by omega
      simp only [hlt, if_false] at hc
      cases m.testBit p <;> simp <;> rw [← hc]
    · have e : case3 p q r p c = (q, r, c, p) := by simp [case3, hpr, hgt]
      have hlt : q < r := by omega
      rw [e, threeOps_sum q r p _ m x hlt hpq h3]
      simp only [hlt, if_true] at hc
      cases m.testBit p <;> simp <;> rw [← hc]
  · -- q = r
    subst h1
    have e1 : (p == q) = false := by simp [hpq]
    have e2 : (p == s) = false := by simp [h2]
    rw [twoBodyOp_offdiag p q q s c (by rintro (⟨h, _⟩ | ⟨h, _⟩) <;> [exact hpq h; exact h2 h]),
      F3 p q s m x hpq (Ne.symm h3) h2, F3 s q p m x (Ne.symm h3) hpq (Ne.symm h2)]
    have hc := hop_fermion_closed p s c m x h2
    by_cases hgt : p > s
    · have e : case3 p q q s c = (s, p, c.conj, q) := by simp [case3, e1, e2, hgt]
      rw [e, threeOps_sum s p q _ m x hgt h3 (Ne.symm hpq)]
      have hlt : ¬ p < s := by omega
      simp only [hlt, if_false] at hc
      cases m.testBit q <;> simp <;> rw [← hc]
    · have e : case3 p q q s c = (p, s, c, q) := by simp [case3, e1, e2, hgt]
      have hlt : p < s := by omega
      rw [e, threeOps_sum p s q _ m x hlt (Ne.symm hpq) h3]
      simp only [hlt, if_true] at hc
      cases m.testBit q <;> simp <;> rw [← hc]
  · -- q = s
    subst h1
    have e1 : (p == r) = false := by simp [h2]
    have e2 : (p == q) = false := by simp [hpq]
    have e3 : (q == r) = false := by simp [h3]
    rw [twoBodyOp_offdiag p q r q c (by rintro (⟨h, _⟩ | ⟨h, _⟩) <;> [exact h2 h; exact hpq h]),
      F4 p q r m x hpq (Ne.symm h3) h2, F1 r q p m x (Ne.symm h3) hpq (Ne.symm h2)]
    have hc := hop_fermion_closed p r c m x h2
    by_cases hgt : p > r
    · have e : case3 p q r q c = (r, p, -(c.conj), q) := by simp [case3, e1, e2, e3, hgt]
      rw [e, threeOps_sum r p q _ m x hgt h3 (Ne.symm hpq), Hop_neg]
      have hlt : ¬ p < r := by omega
      simp only [hlt, if_false] at hc
      cases m.testBit q <;> simp <;> rw [← hc] <;> ring
    · have e : case3 p q r q c = (p, r, -c, q) := by simp [case3, e1, e2, e3, hgt]
      have hlt : p < r := by omega
      rw [e, threeOps_sum p r q _ m x hlt (Ne.symm hpq) h3, Hop_neg]
      simp only [hlt, if_true] at hc
      cases m.testBit q <;> simp <;> rw [← hc] <;> ring

end Sem
end OFV
