/-
Denotation of a dictionary of terms as a matrix (`den alg A s x = ⟨x| A |s⟩`), read off the
Spec's own `applyOp`, and its description as a sum over the entries.
-/
import OFV.Spec.Expr
import OFV.Proofs.C04GQ
import Mathlib.Algebra.BigOperators.Group.List.Basic

namespace OFV
namespace Sem
open Spec

abbrev Op := List (List (Nat × Nat) × GQ)

theorem coeff_nil (x : St) : GV.coeff [] x = 0 := rfl

theorem coeff_cons (e : St) (c : GQ) (r : GV) (x : St) :
    GV.coeff ((e, c) :: r) x = if e = x then c else GV.coeff r x := by
  simp only [GV.coeff, Dict.getD, Dict.get?]
  split <;> simp

theorem coeff_addEntry (v : GV) (e : St) (c : GQ) (x : St) :
    GV.coeff (GV.addEntry v e c) x = GV.coeff v x + (if e = x then c else 0) := by
  induction v with
  | nil => simp [GV.addEntry, coeff_cons, coeff_nil]
  | cons h r ih =>
    obtain ⟨e', c'⟩ := h
    simp only [GV.addEntry]
    by_cases h1 : e' = e
    · subst h1
      simp only [if_true, coeff_cons]
      by_cases h2 : e' = x <;> simp [h2]
    · simp only [h1, if_false, coeff_cons, ih]
      by_cases h2 : e' = x
      · have : ¬ e = x := fun h => h1 (h2.trans h.symm)
        simp [h2, this]
      · simp [h2]

/-- contribution of one term with coefficient 1 to `⟨x| · |s⟩` -/
def termCoef (alg : Alg) (t : List (Nat × Nat)) (s x : St) : GQ :=
  match actTerm alg t s with
  | none => 0
  | some (k, s') => if s' = x then k else 0

/-- `⟨x| A |s⟩` as computed by the Spec -/
def den (alg : Alg) (A : Op) (s x : St) : GQ := GV.coeff (applyOp alg A s) x

theorem applyOp_fold (alg : Alg) (A : Op) (s x : St) (acc : GV) :
    GV.coeff (A.foldl (fun acc (tc : List (Nat × Nat) × GQ) => match actTerm alg tc.1 s with
      | none => acc
      | some (k, s') => GV.addEntry acc s' (tc.2 * k)) acc) x
    = GV.coeff acc x + (A.map fun tc => tc.2 * termCoef alg tc.1 s x).sum := by
  induction A generalizing acc with
  | nil => simp
  | cons h r ih =>
    simp only [List.foldl_cons, List.map_cons, List.sum_cons, ih]
    unfold termCoef
    cases hh : actTerm alg h.1 s with
    | none => simp
    | some ks =>
      obtain ⟨k, s'⟩ := ks
      simp only [coeff_addEntry]
      by_cases h2 : s' = x <;> simp [h2, add_assoc]

theorem den_eq_sum (alg : Alg) (A : Op) (s x : St) :
    den alg A s x = (A.map fun tc => tc.2 * termCoef alg tc.1 s x).sum := by
  have := applyOp_fold alg A s x []
  simp only [coeff_nil, zero_add] at this
  rw [← this]
  rfl

theorem den_nil (alg : Alg) (s x : St) : den alg [] s x = 0 := by simp [den_eq_sum]

theorem den_cons (alg : Alg) (t : List (Nat × Nat)) (c : GQ) (A : Op) (s x : St) :
    den alg ((t, c) :: A) s x = c * termCoef alg t s x + den alg A s x := by
  simp [den_eq_sum]

theorem den_append (alg : Alg) (A B : Op) (s x : St) :
    den alg (A ++ B) s x = den alg A s x + den alg B s x := by
  simp [den_eq_sum]

end Sem
end OFV
