/-
C20 — the attribute encode / decode table of MolecularData.save / load.
-/
import OFV.Model.C20Mol
namespace OFV.C20
open OFV.Model.C20

/-- **attribute table**: `None` and every non-boolean value of the attribute's own kind survive
`decode ∘ encode` — `None ↦ False ↦ None`, numbers and arrays unchanged -/
theorem attr_roundtrip_keep (v : AttrVal) (h : ∀ b, v ≠ .bool b) : decodeAttr 0 (encodeAttr v) = v := by
  cases v with
  | none => rfl
  | bool b => exact absurd rfl (h b)
  | int z => rfl
  | real q => rfl
  | arr l => rfl

theorem attr_roundtrip_int (z : Int) : decodeAttr 1 (encodeAttr (.int z)) = .int z := rfl
theorem attr_roundtrip_float (q : Rat) : decodeAttr 2 (encodeAttr (.real q)) = .real q := rfl
theorem attr_roundtrip_none (kind : Nat) : decodeAttr kind (encodeAttr .none) = .none := rfl

/-- zero is not `None`: the sentinel is the *boolean* `False`, so the numbers `0` / `0.0` round-trip -/
theorem attr_zero_is_kept : decodeAttr 1 (encodeAttr (.int 0)) = .int 0 ∧ decodeAttr 2 (encodeAttr (.real 0)) = .real 0 :=
  ⟨rfl, rfl⟩

/-- the one exception: a boolean attribute collides with the sentinel and loads as `None` -/
theorem attr_bool_counterexample (b : Bool) (kind : Nat) : decodeAttr kind (encodeAttr (.bool b)) = .none := rfl
end OFV.C20
