/- C09: checksum_code(n, odd) decodes what it encodes on the vectors of that parity. -/
import OFV.Proofs.C09Builtin

namespace OFV.C09
open OFV.Model.C09 OFV.Spec.C09

theorem xorCols_cons (w : Nat → Bool) (c : Nat) (r : List Nat) : xorCols w (c :: r) = xor (w c) (xorCols w r) := rfl

theorem xorCols_append (w : Nat → Bool) (a b : List Nat) :
    xorCols w (a ++ b) = xor (xorCols w a) (xorCols w b) := by
  induction a with
  | nil => simp [xorCols]
  | cons c r ih => rw [List.cons_append, xorCols_cons, xorCols_cons, ih, bxor_assoc]

theorem xorCols_congr (w w' : Nat → Bool) (l : List Nat) (h : ∀ k ∈ l, w k = w' k) :
    xorCols w l = xorCols w' l := by
  induction l with
  | nil => rfl
  | cons c r ih =>
    rw [xorCols_cons, xorCols_cons, h c (by simp), ih (fun k hk => h k (List.mem_cons_of_mem _ hk))]

theorem xorCols_map_succ (w : Nat → Bool) (l : List Nat) :
    xorCols w (l.map Nat.succ) = xorCols (fun m => w (m + 1)) l := by
  induction l with
  | nil => rfl
  | cons c r ih => rw [List.map_cons, xorCols_cons, xorCols_cons, ih]

/-- XOR of the bits of a 0/1 vector = parity of its Hamming weight -/
theorem xor_range_eq_sum (v : List Nat) (hb : ∀ x ∈ v, x ≤ 1) :
    xorCols (fun m => v.getD m 0 == 1) (List.range v.length) = (v.sum % 2 == 1) := by
  induction v with
  | nil => rfl
  | cons b v ih =>
    rw [List.length_cons, List.range_succ_eq_map, xorCols_cons, xorCols_map_succ]
    have h1 : (fun m => (b :: v).getD (m + 1) 0 == 1) = fun m => v.getD m 0 == 1 := by
      funext m; simp
    rw [h1, ih (fun x hx => hb x (List.mem_cons_of_mem _ hx)), List.sum_cons]
    have hb0 : b ≤ 1 := hb b (by simp)
    have : b = 0 ∨ b = 1 := by omega
    generalize v.sum = S
    have hS := Nat.mod_two_eq_zero_or_one S
    rcases this with rfl | rfl
    · simp
    · rcases hS with h | h
      · have : (1 + S) % 2 = 1 := by omega
        simp [h, this]
      · have : (1 + S) % 2 = 0 := by omega
        simp [h, this]

theorem ofString_var (m : Nat) : ofString [[Tok.var m]] = .ok [[some m]] := by
  unfold ofString
  have := mapM_parse_vars [m]
  simp only [List.map_cons, List.map_nil] at this
  rw [this]
  show (Except.ok (checkTerms [[some m]]) : Except Err Poly) = _
  congr 1

theorem allIn_spec (ms : List Nat) (start : Poly) :
    ∃ p, ms.foldlM allInStep start = .ok p ∧
      ∀ w, evalPoly w p = xor (evalPoly w start) (xorCols w ms) := by
  induction ms generalizing start with
  | nil => exact ⟨start, rfl, by intro w; simp [xorCols]⟩
  | cons m r ih =>
    obtain ⟨p, hp, hev⟩ := ih (iadd start [[some m]])
    refine ⟨p, ?_, ?_⟩
    · rw [List.foldlM_cons]
      have : allInStep start m = .ok (iadd start [[some m]]) := by
        unfold allInStep; rw [ofString_var]; rfl
      rw [this]
      exact hp
    · intro w
      rw [hev w, eval_iadd, xorCols_cons, evalPoly_cons, evalPoly_nil, bxor_assoc]
      simp

theorem getD_encoderChecksum (n i : Nat) (h : i < n - 1) :
    (encoderChecksum n).getD i [] = (List.range n).map fun j => if i = j then 1 else 0 := by
  simp [encoderChecksum, List.getD_eq_getElem?_getD, h]

theorem decoderChecksum_spec (n : Nat) (odd : Bool) :
    ∃ djw allIn, decoderChecksum n odd = .ok (djw ++ [allIn]) ∧ djw.length = n - 1 ∧
      (∀ w i, i < n - 1 → evalPoly w (djw.getD i []) = w i) ∧
      ∀ w, evalPoly w allIn = xor odd (xorCols w (List.range (n - 1))) := by
  obtain ⟨djw, hdjw, hlen, hev⟩ := linearizeDecoder_sound (identity (n - 1))
  have hstart : checksumStart odd = .ok (if odd then [[none]] else []) := by
    cases odd <;> rfl
  obtain ⟨allIn, hall, hallev⟩ := allIn_spec (List.range (n - 1)) (if odd then [[none]] else [])
  refine ⟨djw, allIn, ?_, by simp [hlen, identity], ?_, ?_⟩
  · unfold decoderChecksum
    rw [hstart]
    simp only [bind, Except.bind]
    rw [hall]
    simp only [hdjw, pure, Except.pure]
  · intro w i hi
    rw [hev, getD_identity _ i hi, onesOf_unit _ i hi, xorCols_single]
  · intro w
    rw [hallev]
    cases odd <;> simp [evalPoly_cons, evalPoly_nil]

theorem checksum_valid' (n : Nat) (odd : Bool) (c : Code) (h : checksumCode n odd = .ok c) (v : List Nat)
    (hlen : v.length = n) (hb : ∀ x ∈ v, x ≤ 1) (hpar : (v.sum % 2 == 1) = odd) : ValidOn c v := by
  unfold checksumCode at h
  split at h
  · cases h
  · next hn =>
    have hn2 : 2 ≤ n := by omega
    obtain ⟨djw, allIn, hdec, hdl, hdjw, hall⟩ := decoderChecksum_spec n odd
    simp only [hdec, bind, Except.bind] at h
    obtain ⟨rfl, _, _⟩ := mk'_ok _ _ _ _ _ h
    have henc : ∀ m, m < n - 1 →
        encFn ⟨encoderChecksum n, (djw ++ [allIn]).map .poly, n - 1, n⟩ v m = (v.getD m 0 == 1) := by
      intro m hm
      rw [encFn_eq _ _ _ (by simp [encoderChecksum]; exact hm)]
      show (dot ((encoderChecksum n).getD m []) v % 2 == 1) = _
      rw [getD_encoderChecksum n m hm, dot_unit, if_pos (by omega), bit_eq _ (getD_le_one v hb m)]
    intro i hi
    have hi' : i < n := hi
    show decFn ((djw ++ [allIn]).map .poly) _ i = _
    rw [decFn_map_poly]
    by_cases hlt : i < n - 1
    · rw [List.getD_eq_getElem?_getD, List.getElem?_append_left (by rw [hdl]; exact hlt),
        ← List.getD_eq_getElem?_getD, hdjw _ i hlt, henc i hlt]
    · have hi_eq : i = n - 1 := by omega
      rw [List.getD_eq_getElem?_getD, List.getElem?_append_right (by rw [hdl]; omega), hdl]
      have : i - (n - 1) = 0 := by omega
      rw [this]
      simp only [List.getElem?_cons_zero, Option.getD_some]
      rw [hall, xorCols_congr _ (fun m => v.getD m 0 == 1) _ (fun k hk => henc k (List.mem_range.mp hk))]
      have hfull := xor_range_eq_sum v hb
      rw [hlen, hpar] at hfull
      have hsplit : List.range n = List.range (n - 1) ++ [n - 1] := by
        have : n = (n - 1) + 1 := by omega
        conv => lhs; rw [this, List.range_succ]
      rw [hsplit, xorCols_append, xorCols_single] at hfull
      rw [hi_eq, ← hfull]
      cases xorCols (fun m => v.getD m 0 == 1) (List.range (n - 1)) <;> cases (v.getD (n - 1) 0 == 1) <;> rfl

end OFV.C09
