/-
`reverse_jordan_wigner`, part 3: the fermionic images of single Paulis and the `while` loop.
-/
import OFV.Proofs.C04Rev2

namespace OFV
namespace Sem
open Spec Model Model.C04

theorem sgn_mod_two (k : Nat) : GQ.sgn (k % 2) = GQ.sgn k := sgn_congr (by omega)

theorem iadd_two (tol : Rat) (k1 k2 : List (Nat × Nat)) (c1 c2 : GQ) (hk : k1 ≠ k2)
    (hs : GQ.isSmall tol c2 = false) :
    iadd tol [(k1, c1)] [(k2, c2)] = [(k1, c1), (k2, c2)] := by
  simp [iadd, Dict.getD, Dict.get?, hk, hs, Dict.set]

theorem notSmall_of_normSq (tol : Rat) (htol : tol * tol ≤ 1 / 4) (v : GQ) (h : 1 / 4 ≤ v.normSq) :
    GQ.isSmall tol v = false := by
  simp only [GQ.isSmall, decide_eq_false_iff_not, not_lt]
  exact le_trans htol h

/-- the weighted sum a fermionic operator `b` contributes as a right factor -/
def sumF (b : Op) (m : Nat) (W : Nat → GQ) : GQ :=
  (b.map fun r => r.2 * (match actFTerm r.1 m with
    | none => 0
    | some (k, m') => GQ.sgn k * W m')).sum

theorem den_mulOpF_sumF (a b : Op) (m x : Nat) :
    den .fermion (mulOp .fermion a b) [m] [x] = sumF b m (fun y => den .fermion a [y] [x]) :=
  den_mulOpF_right a b m x

/-- `Z_j ↦ 1 - 2 a†_j a_j` -/
theorem tpZ_sum (tol : Rat) (htol : tol * tol ≤ 1 / 4) (j m : Nat) (W : Nat → GQ) :
    sumF (iadd tol (mk .fermion [] 1) (mk .fermion [(j, 1), (j, 0)] (rl (-2)))) m W
      = (if m.testBit j then -1 else 1) * W m := by
  have hne : ([] : List (Nat × Nat)) ≠ [(j, 1), (j, 0)] := by simp
  have hs : GQ.isSmall tol (rl (-2) * 1) = false := by
    apply notSmall_of_normSq tol htol
    simp [GQ.normSq, rl]; norm_num
  simp only [mk, simplify]
  rw [iadd_two tol _ _ _ _ hne hs]
  simp only [sumF, List.map_cons, List.map_nil, List.sum_cons, List.sum_nil, add_zero, actFTerm, List.foldr_cons,
    List.foldr_nil, actF_ann, actF_cre]
  by_cases hb : m.testBit j = true
  · simp only [hb, if_true, testBit_xflip, Bool.not_true, Bool.false_eq_true, if_false, xflip_xflip,
      cb_xflip_hi m j j (Nat.le_refl _)]
    have e1 : GQ.sgn (((0 + countBelow m j % 2) % 2 + countBelow m j % 2) % 2) = 1 := by
      rw [sgn_congr (b := 0) (by omega)]; rfl
    rw [e1]
    simp [GQ.sgn, rl]; apply GQ.ext <;> simp <;> ring
  · simp [hb, GQ.sgn]

/-- `X_j, Y_j ↦ (a†_j + a_j), i (a†_j − a_j)` (the Z-string goes into the working term), scaled by `c` -/
theorem tpXY_sum (tol : Rat) (htol : tol * tol ≤ 1 / 4) (j P m : Nat) (c : GQ) (W : Nat → GQ) (hP : P = 1 ∨ P = 2) :
    sumF (smul c (iadd tol (if (P == 2) = true then smul GQ.I (mk .fermion [(j, 1)] 1) else mk .fermion [(j, 1)] 1)
        (if (P == 2) = true then smul (-GQ.I) (mk .fermion [(j, 0)] 1) else mk .fermion [(j, 0)] 1))) m W
      = c * GQ.ipow (yph P (m.testBit j)) * GQ.sgn (countBelow m j) * W (m ^^^ (1 <<< j)) := by
  have hne : [(j, 1)] ≠ [(j, 0)] := by simp
  have hs1 : GQ.isSmall tol ((1 : GQ) * 1) = false := by
    apply notSmall_of_normSq tol htol; simp [GQ.normSq]; norm_num
  have hs2 : GQ.isSmall tol ((1 : GQ) * 1 * -GQ.I) = false := by
    apply notSmall_of_normSq tol htol; simp [GQ.normSq, GQ.I]; norm_num
  rcases hP with rfl | rfl
  · have e : ((1 : Nat) == 2) = false := rfl
    simp only [e, Bool.false_eq_true, if_false, mk, simplify]
    rw [iadd_two tol _ _ _ _ hne hs1]
    simp only [smul, sumF, List.map_cons, List.map_nil, List.sum_cons, List.sum_nil, add_zero, actFTerm,
      List.foldr_cons, List.foldr_nil, actF_ann, actF_cre, yph]
    by_cases hb : m.testBit j = true
    · simp [hb, GQ.ipow, sgn_mod_two]; ring
    · simp [hb, GQ.ipow, sgn_mod_two]; ring
  · have e : ((2 : Nat) == 2) = true := rfl
    simp only [e, if_true, mk, simplify, smul, List.map_cons, List.map_nil]
    rw [iadd_two tol _ _ _ _ hne hs2]
    simp only [sumF, List.map_cons, List.map_nil, List.sum_cons, List.sum_nil, add_zero, actFTerm,
      List.foldr_cons, List.foldr_nil, actF_ann, actF_cre, yph]
    by_cases hb : m.testBit j = true
    · simp [hb, GQ.ipow, sgn_mod_two]; ring
    · simp [hb, GQ.ipow, sgn_mod_two]; ring

end Sem
end OFV

namespace OFV
namespace Sem
open Spec Model Model.C04

theorem actP_flip_other (i p s j : Nat) (h : i ≠ j) :
    actP i p (s ^^^ (1 <<< j)) = ((actP i p s).1, (actP i p s).2 ^^^ (1 <<< j)) ∧
    (actP i p s).2.testBit j = s.testBit j := by
  have e1 := testBit_xflip_ne s j i (Ne.symm h)
  have e2 := testBit_xflip_ne s i j h
  have e3 := xflip_comm s j i
  unfold actP
  split <;> simp [e1, e2, e3]

/-- a string acting only below `j` ignores (and preserves) qubit `j` -/
theorem act_below (j : Nat) (L : List (Nat × Nat)) (h : Below j L) (m : Nat) :
    (actPTerm L m).2.testBit j = m.testBit j ∧
    actPTerm L (m ^^^ (1 <<< j)) = ((actPTerm L m).1, (actPTerm L m).2 ^^^ (1 <<< j)) := by
  induction L with
  | nil => simp [actPTerm_nil]
  | cons f L ih =>
    have hf : f.1 < j := h f List.mem_cons_self
    obtain ⟨i1, i2⟩ := ih (fun g hg => h g (List.mem_cons_of_mem _ hg))
    obtain ⟨a1, a2⟩ := actP_flip_other f.1 f.2 (actPTerm L m).2 j (by omega)
    simp only [actPTerm_cons, stepP, i2, a1]
    exact ⟨by rw [a2, i1], trivial⟩

theorem nextPauli_eq (L H : List (Nat × Nat)) (j : Nat) (hL : Below j L) (hH : AtLeast j H) :
    nextPauli (L ++ H) j = L.getLast? := by
  unfold nextPauli
  rw [List.reverse_append, List.find?_append]
  have h1 : H.reverse.find? (fun w => decide (w.1 < j)) = none := by
    rw [List.find?_eq_none]
    intro w hw
    have := hH w (List.mem_reverse.1 hw)
    simp; omega
  rw [h1]
  simp only [Option.none_or]
  cases hr : L.reverse with
  | nil =>
    have : L = [] := by simpa using hr
    subst this; rfl
  | cons p r =>
    have hp : p ∈ L := by
      have : p ∈ L.reverse := by rw [hr]; exact List.mem_cons_self
      exact List.mem_reverse.1 this
    have := hL p hp
    rw [List.find?_cons_of_pos (by simpa using this)]
    have : L = r.reverse ++ [p] := by
      have := congrArg List.reverse hr
      simpa using this
    rw [this, List.getLast?_append]; simp

theorem split_last (L : List (Nat × Nat)) (p : Nat × Nat) (hS : SortedQ L) (hV : ValidQ L)
    (h : L.getLast? = some p) :
    ∃ L', L = L' ++ [p] ∧ Below p.1 L' ∧ SortedQ L' ∧ ValidQ L' ∧ (p.2 = 1 ∨ p.2 = 2 ∨ p.2 = 3) := by
  have hne : L ≠ [] := by intro h0; subst h0; simp at h
  have hd := List.dropLast_append_getLast? p h
  refine ⟨L.dropLast, hd.symm, ?_, ?_, ?_, ?_⟩
  · intro f hf
    have hp := hS.1
    rw [← hd, List.pairwise_append] at hp
    exact hp.2.2 f hf p (by simp)
  · constructor
    · have hp := hS.1
      rw [← hd, List.pairwise_append] at hp
      exact hp.1
    · intro f hf; exact hS.2 f (List.dropLast_subset L hf)
  · intro f hf; exact hV f (List.dropLast_subset L hf)
  · have hm : p ∈ L := by rw [← hd]; simp
    have h1 := hS.2 p hm
    have h2 := hV p hm
    omega

theorem bitsOver_range_rev (m j : Nat) : bitsOver m (List.range j).reverse = countBelow m j := by
  unfold bitsOver countBelow
  rw [List.filter_reverse, List.length_reverse]

theorem sgn_sq (k : Nat) : GQ.sgn k * GQ.sgn k = 1 := by
  unfold GQ.sgn
  have : k % 2 = 0 ∨ k % 2 = 1 := by omega
  rcases this with h | h <;> simp [h]

end Sem
end OFV
