/-
C08 helper lemmas: the `QuadraticHamiltonian` constructor against the class docstring
(`Spec.C08.denoteQH`).
-/
import OFV.Proofs.C08Qh

namespace OFV
namespace C08P
open Spec Spec.C08 Model Model.C08

theorem tget_some_shaped (n : Nat) : ∀ (k : Nat) (T : Tensor) (idx : List Nat), Shaped n k T → idx.length = k →
    (∀ a ∈ idx, a < n) → ∃ c, tget idx T = some c := by
  intro k
  induction k with
  | zero =>
    intro T idx h hl _
    have : idx = [] := List.eq_nil_of_length_eq_zero hl
    subst this
    cases T with
    | s c => exact ⟨c, rfl⟩
    | v l => simp [Shaped] at h
  | succ k ih =>
    intro T idx h hl hn
    cases T with
    | s c => simp [Shaped] at h
    | v l =>
      cases idx with
      | nil => simp at hl
      | cons i r =>
        simp only [List.length_cons, Nat.add_right_cancel_iff] at hl
        simp only [Shaped] at h
        have hi : i < l.length := by rw [h.1]; exact hn i (by simp)
        simp only [tget, List.getElem?_eq_getElem hi]
        exact ih l[i] r (h.2 _ (List.getElem_mem hi)) hl (fun a ha => hn a (by simp [ha]))

theorem tget_getD (n : Nat) (T : Tensor) (hT : Shaped n 2 T) (p q : Nat) (hp : p < n) (hq : q < n) :
    tget [p, q] T = some ((tget [p, q] T).getD 0) := by
  obtain ⟨c, hc⟩ := tget_some_shaped n 2 T [p, q] hT rfl (lt2 hp hq)
  rw [hc]; rfl

theorem neg_half_eq : (⟨-1/2, 0⟩ : GQ) = -(⟨1/2, 0⟩ : GQ) := by
  apply GQ.ext <;> simp <;> ring

/-- **`QuadraticHamiltonian(hermitian_part, antisymmetric_part, constant, chemical_potential)`** denotes
the operator of the class docstring, for every weight on words that is antisymmetric on `a_p a_q` -/
theorem mkQH_docstring (n : Nat) (herm Δ : Tensor) (c mu : GQ) (hH : Shaped n 2 herm) (hΔ : Shaped n 2 Δ)
    (w : Term → GQ) (W00 : ∀ p q, w (k00 q p) = -(w (k00 p q))) :
    evalW w (denotePT (mkQH n herm (some Δ) c mu).d) = evalW w (denoteQH n herm Δ mu c) := by
  have hd : (mkQH n herm (some Δ) c mu).d
      = [([], .s c), ([1, 0], if mu = 0 then herm else addDiag n (-mu) herm),
          ([1, 1], tmap (fun x => ⟨1/2, 0⟩ * x) 2 Δ),
          ([0, 0], tmap (fun x => ⟨-1/2, 0⟩ * GQ.conj x) 2 Δ)] := rfl
  have hk0 : evK w [] (.s c) = c * w [] := by simp [evK, evalT]
  have hrange : ∀ i ∈ List.range n, i < n := fun i hi => List.mem_range.mp hi
  have hcomb : Shaped n 2 (if mu = 0 then herm else addDiag n (-mu) herm) ∧
      ∀ p q, p < n → q < n → tget [p, q] (if mu = 0 then herm else addDiag n (-mu) herm)
        = some ((tget [p, q] herm).getD 0 - if p = q then mu else 0) := by
    by_cases hmu : mu = 0
    · rw [if_pos hmu]
      refine ⟨hH, fun p q hp hq => ?_⟩
      rw [tget_getD n herm hH p q hp hq, hmu]; simp
    · rw [if_neg hmu]
      obtain ⟨sh', h'⟩ := addDiag_entries n (-mu) (fun p q => (tget [p, q] herm).getD 0) (List.range n) herm
        List.nodup_range hrange hH (fun p q hp hq => by rw [tget_getD n herm hH p q hp hq]; simp)
      refine ⟨sh', fun p q hp hq => ?_⟩
      have := h' p q hp hq
      unfold addDiag
      rw [this]
      congr 1
      have hin : p ∈ List.range n := List.mem_range.mpr hp
      by_cases hpq : p = q
      · subst hpq; simp only [hin, and_self, if_true]; ring
      · simp only [hpq, false_and, if_false]; ring
  have e11 : ∀ p q, p < n → q < n → tget [p, q] (tmap (fun x => (⟨1/2, 0⟩ : GQ) * x) 2 Δ)
      = some (⟨1/2, 0⟩ * (tget [p, q] Δ).getD 0) := by
    intro p q hp hq
    rw [tget_tmap _ n 2 Δ [p, q] hΔ rfl, tget_getD n Δ hΔ p q hp hq]; rfl
  have e00 : ∀ p q, p < n → q < n → tget [p, q] (tmap (fun x => (⟨-1/2, 0⟩ : GQ) * GQ.conj x) 2 Δ)
      = some (⟨-1/2, 0⟩ * GQ.conj ((tget [p, q] Δ).getD 0)) := by
    intro p q hp hq
    rw [tget_tmap _ n 2 Δ [p, q] hΔ rfl, tget_getD n Δ hΔ p q hp hq]; rfl
  rw [evalW_denotePT, hd]
  simp only [evD, add_zero]
  rw [hk0, evK2_eq n w [1, 0] rfl _ hcomb.1 _ hcomb.2,
    evK2_eq n w [1, 1] rfl _ (Shaped_tmap _ n 2 Δ hΔ) _ e11,
    evK2_eq n w [0, 0] rfl _ (Shaped_tmap _ n 2 Δ hΔ) _ e00]
  -- the docstring
  unfold denoteQH
  rw [evalW_eq_lsum]
  simp only [lsum_append, lsum_map, lsum_flatMap]
  rw [lsum_pairs, lsum_pairs]
  simp only [lsum, add_zero]
  rw [← sumN_add, ← add_assoc]
  congr 1
  · congr 1
    apply sumN_congr; intro p _
    apply sumN_congr; intro q _
    rw [entry2_eq]; rfl
  · apply sumN_congr; intro p _
    rw [← sumN_add]
    apply sumN_congr; intro q _
    have hw : w ([q, p].zip [0, 0]) = -(w ([p, q].zip [0, 0])) := W00 p q
    have k3 : w [(q, 0), (p, 0)] = -(w ([p, q].zip [0, 0])) := hw
    rw [entry2_eq, k3, neg_half_eq]
    have : ([p, q].zip [1, 1] : Term) = [(p, 1), (q, 1)] := rfl
    rw [this]
    ring

theorem sumN2_zero (n : Nat) (F : Nat → Nat → GQ) (hF : ∀ p q, p < n → q < n → F p q = 0) :
    sumN n (fun p => sumN n (fun q => F p q)) = 0 := by
  have e1 : sumN n (fun p => sumN n (fun q => F p q)) = sumN n (fun _ => 0) := by
    apply sumN_congr; intro p hp
    have e2 : sumN n (fun q => F p q) = sumN n (fun _ => 0) := by
      apply sumN_congr; intro q hq; exact hF p q hp hq
    rw [e2, sumN_zero]
  rw [e1, sumN_zero]

/-- the constructor without an antisymmetric part: the docstring operator with `Δ = 0` -/
theorem mkQH_docstring_none (n : Nat) (herm : Tensor) (c mu : GQ) (hH : Shaped n 2 herm) (w : Term → GQ) :
    evalW w (denotePT (mkQH n herm none c mu).d) = evalW w (denoteQH n herm (tzeros n 2) mu c) := by
  have hd : (mkQH n herm none c mu).d
      = [([], .s c), ([1, 0], if mu = 0 then herm else addDiag n (-mu) herm)] := rfl
  have hk0 : evK w [] (.s c) = c * w [] := by simp [evK, evalT]
  have hrange : ∀ i ∈ List.range n, i < n := fun i hi => List.mem_range.mp hi
  have hcomb : Shaped n 2 (if mu = 0 then herm else addDiag n (-mu) herm) ∧
      ∀ p q, p < n → q < n → tget [p, q] (if mu = 0 then herm else addDiag n (-mu) herm)
        = some ((tget [p, q] herm).getD 0 - if p = q then mu else 0) := by
    by_cases hmu : mu = 0
    · rw [if_pos hmu]
      refine ⟨hH, fun p q hp hq => ?_⟩
      rw [tget_getD n herm hH p q hp hq, hmu]; simp
    · rw [if_neg hmu]
      obtain ⟨sh', h'⟩ := addDiag_entries n (-mu) (fun p q => (tget [p, q] herm).getD 0) (List.range n) herm
        List.nodup_range hrange hH (fun p q hp hq => by rw [tget_getD n herm hH p q hp hq]; simp)
      refine ⟨sh', fun p q hp hq => ?_⟩
      have := h' p q hp hq
      unfold addDiag
      rw [this]
      congr 1
      have hin : p ∈ List.range n := List.mem_range.mpr hp
      by_cases hpq : p = q
      · subst hpq; simp only [hin, and_self, if_true]; ring
      · simp only [hpq, false_and, if_false]; ring
  rw [evalW_denotePT, hd]
  simp only [evD, add_zero]
  rw [hk0, evK2_eq n w [1, 0] rfl _ hcomb.1 _ hcomb.2]
  unfold denoteQH
  rw [evalW_eq_lsum]
  simp only [lsum_append, lsum_map, lsum_flatMap]
  rw [lsum_pairs, lsum_pairs]
  simp only [lsum, add_zero]
  have hz : sumN n (fun p => sumN n (fun q =>
      (⟨1/2, 0⟩ : GQ) * entry2 (tzeros n 2) p q * w [(p, 1), (q, 1)]
        + (⟨1/2, 0⟩ : GQ) * GQ.conj (entry2 (tzeros n 2) p q) * w [(q, 0), (p, 0)])) = 0 := by
    apply sumN2_zero
    intro p q hp hq
    rw [entry2_eq, tget_tzeros n 2 [p, q] rfl (lt2 hp hq)]
    simp [conj_zero']
  rw [hz, add_zero]
  congr 1
  apply sumN_congr; intro p _
  apply sumN_congr; intro q _
  rw [entry2_eq]; rfl

end C08P
end OFV
