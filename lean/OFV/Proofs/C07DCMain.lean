/-
C07 — `commutator_ordered_diagonal_coulomb_with_two_body_operator` as one statement: on operands that
keep the documented contract the double loop adds exactly `[A, B]` to `prior_terms`, in every ring with
the canonical anticommutation relations.
-/
import OFV.Proofs.C07DCTwo
import OFV.Proofs.C07DCp

namespace OFV
namespace Proofs
namespace C07R

open OFV.Model OFV.Model.C07 OFV.Proofs.C03
open OFV.Proofs.C07F (OneBody dcStep dcCommutator_eq dcStep_oneBody)

variable {A : Type} [Ring A]

/-- a normal-ordered two-body term `k^ l^ m n`, `k > l`, `m > n` -/
def TwoBody (t : Term) : Prop := ∃ k l m n, l < k ∧ n < m ∧ t = [(k, 1), (l, 1), (m, 0), (n, 0)]

/-- a normal-ordered diagonal Coulomb term `i^ j^ i j`, `i > j` -/
def DiagTwo (t : Term) : Prop := ∃ i j, j < i ∧ t = [(i, 1), (j, 1), (i, 0), (j, 0)]

/-- the documented contract on the terms of `operator_a` -/
def AdmA (t : Term) : Prop := t = [] ∨ OneBody t ∨ DiagTwo t

/-- the documented contract on the terms of `operator_b` -/
def AdmB (t : Term) : Prop := t = [] ∨ OneBody t ∨ TwoBody t

section main
variable {I : Interp A} (h : CAR I) (hmul : ∀ a b, I.ι (a * b) = I.ι a * I.ι b)
include h hmul

/-- one pass of the loop body adds `c_a c_b [t_a, t_b]` -/
theorem dcStep_eval (tol : Rat) (ta tb : Term) (ca cb : GQ) (hta : AdmA ta) (htb : AdmB tb) (acc : Op) :
    I.evalOp (dcStep tol ta ca acc (tb, cb)) =
      I.evalOp acc + I.ι (ca * cb) * (I.evalT ta * I.evalT tb - I.evalT tb * I.evalT ta) := by
  rcases hta with rfl | ⟨i, j, rfl⟩ | ⟨i, j, hij, rfl⟩
  · simp [dcStep]
  · rcases htb with rfl | ⟨k, l, rfl⟩ | ⟨k, l, m, n, hkl, hmn, rfl⟩
    · simp [dcStep]
    · rw [dcStep_oneBody]
      by_cases hsame : i = k ∧ j = l
      · obtain ⟨rfl, rfl⟩ := hsame
        simp
      · rw [if_neg hsame, dcOneOne_eval h]
    · have : dcStep tol [(i, 1), (j, 0)] ca acc ([(k, 1), (l, 1), (m, 0), (n, 0)], cb) =
          dcOneTwo [(i, 1), (j, 0)] [(k, 1), (l, 1), (m, 0), (n, 0)] (ca * cb) acc := by
        simp [dcStep]
      rw [this, dcOneTwo_eval h i j k l m n (by omega) (by omega)]
  · rcases htb with rfl | ⟨k, l, rfl⟩ | ⟨k, l, m, n, hkl, hmn, rfl⟩
    · simp [dcStep]
    · have : dcStep tol [(i, 1), (j, 1), (i, 0), (j, 0)] ca acc ([(k, 1), (l, 0)], cb) =
          dcOneTwo [(i, 1), (j, 1), (i, 0), (j, 0)] [(k, 1), (l, 0)] (ca * cb) acc := by
        simp [dcStep]
      rw [this, dcOneTwo_eval_swap h k l i j i j (by omega) (by omega)]
    · by_cases hsame : i = k ∧ j = l ∧ i = m ∧ j = n
      · obtain ⟨rfl, rfl, e3, e4⟩ := hsame
        subst e3; subst e4
        simp [dcStep]
      · have hneq : ([(i, 1), (j, 1), (i, 0), (j, 0)] == [(k, 1), (l, 1), (m, 0), (n, 0)]) = false := by
          simp only [beq_eq_false_iff_ne, ne_eq, List.cons.injEq, Prod.mk.injEq, and_true, not_and]
          intro h1 h2 h3 h4; exact hsame ⟨h1, h2, h3, h4⟩
        have : dcStep tol [(i, 1), (j, 1), (i, 0), (j, 0)] ca acc ([(k, 1), (l, 1), (m, 0), (n, 0)], cb) =
            dcTwoTwo [(i, 1), (j, 1), (i, 0), (j, 0)] [(k, 1), (l, 1), (m, 0), (n, 0)] (ca * cb) acc := by
          simp [dcStep, hneq, fIdx]
        rw [this, dcTwoTwo_eval h i j k l m n hij hkl hmn hsame]

/-- the inner loop adds `[c_a t_a, B]` -/
theorem dcInner_eval (tol : Rat) (ta : Term) (ca : GQ) (hta : AdmA ta) (B : Op) (hB : ∀ e ∈ B, AdmB e.1) :
    ∀ acc : Op, I.evalOp (B.foldl (dcStep tol ta ca) acc) =
      I.evalOp acc + (I.ι ca * I.evalT ta * I.evalOp B - I.evalOp B * (I.ι ca * I.evalT ta)) := by
  induction B with
  | nil => intro acc; simp
  | cons e B ih =>
    intro acc
    obtain ⟨tb, cb⟩ := e
    simp only [List.foldl_cons]
    rw [ih (fun e' he' => hB e' (by simp [he'])), dcStep_eval h hmul tol ta tb ca cb hta (hB (tb, cb) (by simp)),
      Interp.evalOp_cons, hmul]
    have c1 := I.ι_central cb
    have c2 := I.ι_central ca
    simp only
    have hx : I.evalT ta * I.ι cb = I.ι cb * I.evalT ta := (c1 _).symm
    have hy : I.evalT tb * I.ι ca = I.ι ca * I.evalT tb := (c2 _).symm
    have hc : I.ι cb * I.ι ca = I.ι ca * I.ι cb := (c2 _).symm
    have f1 : I.ι ca * I.evalT ta * (I.ι cb * I.evalT tb) = I.ι ca * I.ι cb * (I.evalT ta * I.evalT tb) := by
      rw [mul_assoc, ← mul_assoc (I.evalT ta), hx, mul_assoc (I.ι cb), ← mul_assoc]
    have f2 : I.ι cb * I.evalT tb * (I.ι ca * I.evalT ta) = I.ι ca * I.ι cb * (I.evalT tb * I.evalT ta) := by
      rw [mul_assoc, ← mul_assoc (I.evalT tb), hy, mul_assoc (I.ι ca), ← mul_assoc, hc]
    have e1 : I.ι ca * I.ι cb * (I.evalT ta * I.evalT tb - I.evalT tb * I.evalT ta) =
        I.ι ca * I.evalT ta * (I.ι cb * I.evalT tb) - I.ι cb * I.evalT tb * (I.ι ca * I.evalT ta) := by
      rw [f1, f2, mul_sub]
    rw [e1]
    noncomm_ring

/-- **`commutator_ordered_diagonal_coulomb_with_two_body_operator`** (ring form): if the terms of
`operator_a` are the identity, hopping / number terms `i^ j` or normal-ordered diagonal Coulomb terms
`i^ j^ i j`, and the terms of `operator_b` are the identity, one-body terms or normal-ordered two-body
terms, the result is `prior_terms + [A, B]`. -/
theorem dcCommutator_eval (tol : Rat) (A' B : Op) (hA : ∀ e ∈ A', AdmA e.1) (hB : ∀ e ∈ B, AdmB e.1) :
    ∀ prior : Op, I.evalOp (dcCommutator tol A' B prior) =
      I.evalOp prior + (I.evalOp A' * I.evalOp B - I.evalOp B * I.evalOp A') := by
  intro prior
  rw [dcCommutator_eq]
  induction A' generalizing prior with
  | nil => simp
  | cons e A' ih =>
    simp only [List.foldl_cons]
    rw [ih (fun e' he' => hA e' (by simp [he'])), dcInner_eval h hmul tol e.1 e.2 (hA e (by simp)) B hB prior,
      Interp.evalOp_cons]
    noncomm_ring

/-! ### outside the contract: the fallback branch, tolerance 0 -/

/-- the weaker condition under which the function still returns the commutator (tolerance 0): every
term of BOTH operands is the identity, a one-body term or a normal-ordered two-body term -/
theorem dcStep_eval0 (ta tb : Term) (ca cb : GQ) (hta : AdmB ta) (htb : AdmB tb) (acc : Op) :
    I.evalOp (dcStep 0 ta ca acc (tb, cb)) =
      I.evalOp acc + I.ι (ca * cb) * (I.evalT ta * I.evalT tb - I.evalT tb * I.evalT ta) := by
  rcases hta with rfl | ho | ⟨i, j, m, n, hij, hmn, rfl⟩
  · exact dcStep_eval h hmul 0 [] tb ca cb (Or.inl rfl) htb acc
  · exact dcStep_eval h hmul 0 ta tb ca cb (Or.inr (Or.inl ho)) htb acc
  · by_cases hd : i = m ∧ j = n
    · obtain ⟨rfl, rfl⟩ := hd
      exact dcStep_eval h hmul 0 _ tb ca cb (Or.inr (Or.inr ⟨i, j, hij, rfl⟩)) htb acc
    · rcases htb with rfl | ⟨k, l, rfl⟩ | ⟨k, l, p, q, hkl, hpq, rfl⟩
      · simp [dcStep]
      · have : dcStep 0 [(i, 1), (j, 1), (m, 0), (n, 0)] ca acc ([(k, 1), (l, 0)], cb) =
            dcOneTwo [(i, 1), (j, 1), (m, 0), (n, 0)] [(k, 1), (l, 0)] (ca * cb) acc := by
          simp [dcStep, fIdx]
        rw [this, dcOneTwo_eval_swap h k l i j m n (by omega) (by omega)]
      · by_cases hsame : i = k ∧ j = l ∧ m = p ∧ n = q
        · obtain ⟨rfl, rfl, rfl, rfl⟩ := hsame
          simp [dcStep]
        · have hneq : ([(i, 1), (j, 1), (m, 0), (n, 0)] == [(k, 1), (l, 1), (p, 0), (q, 0)]) = false := by
            simp only [beq_eq_false_iff_ne, ne_eq, List.cons.injEq, Prod.mk.injEq, and_true, not_and]
            intro h1 h2 h3 h4; exact hsame ⟨h1, h2, h3, h4⟩
          have hk : ([(i, 1), (j, 1), (m, 0), (n, 0)] ++ [(k, 1), (l, 1), (p, 0), (q, 0)] : Term) ≠
              [(k, 1), (l, 1), (p, 0), (q, 0)] ++ [(i, 1), (j, 1), (m, 0), (n, 0)] := by
            simp only [List.cons_append, List.nil_append, ne_eq, List.cons.injEq, Prod.mk.injEq, and_true, not_and]
            intro h1 h2 h3 h4; exact absurd ⟨h1, h2, h3, h4⟩ hsame
          have hdd : (fIdx [(i, 1), (j, 1), (m, 0), (n, 0)] 0 == fIdx [(i, 1), (j, 1), (m, 0), (n, 0)] 2 &&
              fIdx [(i, 1), (j, 1), (m, 0), (n, 0)] 1 == fIdx [(i, 1), (j, 1), (m, 0), (n, 0)] 3) = false := by
            simp [fIdx]; intro e1 e2; exact hd ⟨e1, e2⟩
          have : dcStep 0 [(i, 1), (j, 1), (m, 0), (n, 0)] ca acc ([(k, 1), (l, 1), (p, 0), (q, 0)], cb) =
              iadd 0 acc (OFV.Model.C07.normalOrdered 0
                (Dict.set (Dict.set [] ([(i, 1), (j, 1), (m, 0), (n, 0)] ++ [(k, 1), (l, 1), (p, 0), (q, 0)]) (ca * cb))
                  ([(k, 1), (l, 1), (p, 0), (q, 0)] ++ [(i, 1), (j, 1), (m, 0), (n, 0)]) (-(ca * cb)))) := by
            unfold dcStep
            simp only [hneq, hdd, List.isEmpty_cons, Bool.or_self, Bool.false_eq_true, if_false, Bool.and_false,
              List.length_cons, List.length_nil]
            simp only [show ((0 + 1 + 1 + 1 + 1 : Nat) == 4) = true from rfl,
              show ((0 + 1 + 1 + 1 + 1 : Nat) == 2) = false from rfl, Bool.true_and, Bool.and_false, Bool.false_and,
              hdd, Bool.false_eq_true, if_false]
          rw [this, Interp.evalOp_iadd]
          unfold OFV.Model.C07.normalOrdered
          rw [normalOrdered_sound I .fermion h.relations]
          have hset : Dict.set (Dict.set ([] : Op) ([(i, 1), (j, 1), (m, 0), (n, 0)] ++ [(k, 1), (l, 1), (p, 0), (q, 0)]) (ca * cb))
              ([(k, 1), (l, 1), (p, 0), (q, 0)] ++ [(i, 1), (j, 1), (m, 0), (n, 0)]) (-(ca * cb)) =
              [([(i, 1), (j, 1), (m, 0), (n, 0)] ++ [(k, 1), (l, 1), (p, 0), (q, 0)], ca * cb),
               ([(k, 1), (l, 1), (p, 0), (q, 0)] ++ [(i, 1), (j, 1), (m, 0), (n, 0)], -(ca * cb))] := by
            simp only [Dict.set, if_neg hk]
          rw [hset]
          simp only [Interp.evalOp_cons, Interp.evalOp_nil, add_zero, Interp.evalT_append, Proofs.C07D.ι_neg']
          noncomm_ring

theorem dcInner_eval0 (ta : Term) (ca : GQ) (hta : AdmB ta) (B : Op) (hB : ∀ e ∈ B, AdmB e.1) :
    ∀ acc : Op, I.evalOp (B.foldl (dcStep 0 ta ca) acc) =
      I.evalOp acc + (I.ι ca * I.evalT ta * I.evalOp B - I.evalOp B * (I.ι ca * I.evalT ta)) := by
  induction B with
  | nil => intro acc; simp
  | cons e B ih =>
    intro acc
    obtain ⟨tb, cb⟩ := e
    simp only [List.foldl_cons]
    rw [ih (fun e' he' => hB e' (by simp [he'])), dcStep_eval0 h hmul ta tb ca cb hta (hB (tb, cb) (by simp)),
      Interp.evalOp_cons, hmul]
    have c1 := I.ι_central cb
    have c2 := I.ι_central ca
    simp only
    have hx : I.evalT ta * I.ι cb = I.ι cb * I.evalT ta := (c1 _).symm
    have hy : I.evalT tb * I.ι ca = I.ι ca * I.evalT tb := (c2 _).symm
    have hc : I.ι cb * I.ι ca = I.ι ca * I.ι cb := (c2 _).symm
    have f1 : I.ι ca * I.evalT ta * (I.ι cb * I.evalT tb) = I.ι ca * I.ι cb * (I.evalT ta * I.evalT tb) := by
      rw [mul_assoc, ← mul_assoc (I.evalT ta), hx, mul_assoc (I.ι cb), ← mul_assoc]
    have f2 : I.ι cb * I.evalT tb * (I.ι ca * I.evalT ta) = I.ι ca * I.ι cb * (I.evalT tb * I.evalT ta) := by
      rw [mul_assoc, ← mul_assoc (I.evalT tb), hy, mul_assoc (I.ι ca), ← mul_assoc, hc]
    have e1 : I.ι ca * I.ι cb * (I.evalT ta * I.evalT tb - I.evalT tb * I.evalT ta) =
        I.ι ca * I.evalT ta * (I.ι cb * I.evalT tb) - I.ι cb * I.evalT tb * (I.ι ca * I.evalT ta) := by
      rw [f1, f2, mul_sub]
    rw [e1]
    noncomm_ring

/-- tolerance 0, both operands made of identity / one-body / normal-ordered two-body terms (operator_a
need NOT be diagonal: the out-of-spec fallback through `normal_ordered` is included) -/
theorem dcCommutator_eval0 (A' B : Op) (hA : ∀ e ∈ A', AdmB e.1) (hB : ∀ e ∈ B, AdmB e.1) :
    ∀ prior : Op, I.evalOp (dcCommutator 0 A' B prior) =
      I.evalOp prior + (I.evalOp A' * I.evalOp B - I.evalOp B * I.evalOp A') := by
  intro prior
  rw [dcCommutator_eq]
  induction A' generalizing prior with
  | nil => simp
  | cons e A' ih =>
    simp only [List.foldl_cons]
    rw [ih (fun e' he' => hA e' (by simp [he'])), dcInner_eval0 h hmul e.1 e.2 (hA e (by simp)) B hB prior,
      Interp.evalOp_cons]
    noncomm_ring

end main

end C07R
end Proofs
end OFV
