/- C19 — the selection loop of `cost_estimator` returns the first strict minimum of `qubits × rounds` among the
feasible candidates. -/
import OFV.Model.C19Phys
import OFV.Spec.C19
import Mathlib.Tactic.Linarith

namespace OFV.Proofs.C19Ph
open OFV.Model.C19

/-- invariant after the first `k` candidates -/
def Inv (cands : List (Nat × Nat)) (feasible : List Bool) (k : Nat) (best : Option (Nat × Nat × Nat)) : Prop :=
  match best with
  | none => ∀ j, j < k → feasible.getD j false = false
  | some (i, q, r) => i < k ∧ cands.getD i (0, 0) = (q, r) ∧ feasible.getD i false = true ∧
      ∀ j, j < k → feasible.getD j false = true →
        q * r ≤ (cands.getD j (0, 0)).1 * (cands.getD j (0, 0)).2
        ∧ (i ≤ j ∨ q * r < (cands.getD j (0, 0)).1 * (cands.getD j (0, 0)).2)

theorem inv_step (cands : List (Nat × Nat)) (feasible : List Bool) (k : Nat) (best : Option (Nat × Nat × Nat))
    (h : Inv cands feasible k best) : Inv cands feasible (k + 1) (selectStep cands feasible best k) := by
  unfold selectStep
  cases hf : feasible.getD k false with
  | false =>
    simp only [if_true]
    cases best with
    | none =>
      intro j hj
      by_cases e : j = k
      · subst e; exact hf
      · exact h j (by omega)
    | some b =>
      obtain ⟨i, q, r⟩ := b
      obtain ⟨h1, h2, h3, h4⟩ := h
      refine ⟨by omega, h2, h3, ?_⟩
      intro j hj hfj
      by_cases e : j = k
      · subst e; rw [hf] at hfj; cases hfj
      · exact h4 j (by omega) hfj
  | true =>
    simp only [Bool.true_eq_false, if_false]
    cases best with
    | none =>
      refine ⟨by omega, rfl, hf, ?_⟩
      intro j hj hfj
      by_cases e : j = k
      · subst e; exact ⟨Nat.le_refl _, Or.inl (Nat.le_refl _)⟩
      · have := h j (by omega); rw [this] at hfj; cases hfj
    | some b =>
      obtain ⟨i, q, r⟩ := b
      obtain ⟨h1, h2, h3, h4⟩ := h
      simp only
      by_cases hlt : (cands.getD k (0, 0)).1 * (cands.getD k (0, 0)).2 < q * r
      · rw [if_pos hlt]
        refine ⟨by omega, rfl, hf, ?_⟩
        intro j hj hfj
        by_cases e : j = k
        · subst e; exact ⟨Nat.le_refl _, Or.inl (Nat.le_refl _)⟩
        · have := (h4 j (by omega) hfj).1
          exact ⟨by omega, Or.inr (by omega)⟩
      · rw [if_neg hlt]
        refine ⟨by omega, h2, h3, ?_⟩
        intro j hj hfj
        by_cases e : j = k
        · subst e; exact ⟨by omega, Or.inl (by omega)⟩
        · exact h4 j (by omega) hfj

theorem inv_fold (cands : List (Nat × Nat)) (feasible : List Bool) (n : Nat) :
    Inv cands feasible n ((List.range n).foldl (selectStep cands feasible) none) := by
  induction n with
  | zero => intro j hj; omega
  | succ n ih =>
    rw [List.range_succ, List.foldl_append]
    exact inv_step cands feasible n _ ih

/-- **the selection loop of `cost_estimator`** -/
theorem selectBest_ok (cands : List (Nat × Nat)) (feasible : List Bool) :
    Spec.C19.selectOk cands feasible (selectBest cands feasible) = true := by
  have h := inv_fold cands feasible (min cands.length feasible.length)
  unfold selectBest
  unfold Spec.C19.selectOk
  cases hb : (List.range (min cands.length feasible.length)).foldl (selectStep cands feasible) none with
  | none =>
    rw [hb] at h
    simp only [List.all_eq_true, List.mem_range, beq_iff_eq]
    exact fun j hj => h j hj
  | some b =>
    obtain ⟨i, q, r⟩ := b
    rw [hb] at h
    obtain ⟨h1, h2, h3, h4⟩ := h
    simp only [Bool.and_eq_true, decide_eq_true_eq, beq_iff_eq, List.all_eq_true, List.mem_range, Bool.or_eq_true]
    refine ⟨⟨⟨h1, h2⟩, h3⟩, ?_⟩
    intro j hj
    cases hfj : feasible.getD j false with
    | false => exact Or.inl rfl
    | true =>
      right
      obtain ⟨a, b⟩ := h4 j hj hfj
      exact ⟨a, b⟩

end OFV.Proofs.C19Ph
