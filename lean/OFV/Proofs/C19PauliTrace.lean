/-
C19 — orthogonality of canonical Pauli strings under the trace, in the form `Spec.C19.pauliTrace` evaluates it:
`i^{|x∧z|} Σ_s (-1)^{|z ∧ (s⊕x)|} ⟨s⊕x| t |s⟩ = 2^n` if `(x, z)` are the masks of `t`, and `0` otherwise.
-/
import OFV.Proofs.C19PauliAct

namespace OFV
namespace C19P
open Spec Spec.C19 Sem

theorem xor_cancel_left (s a b : Nat) (h : s ^^^ a = s ^^^ b) : a = b := by
  have : s ^^^ (s ^^^ a) = s ^^^ (s ^^^ b) := by rw [h]
  rwa [← Nat.xor_assoc, ← Nat.xor_assoc, Nat.xor_self, Nat.zero_xor, Nat.zero_xor] at this

theorem eq_of_xor_eq_zero (a b : Nat) (h : a ^^^ b = 0) : a = b := by
  have : a ^^^ (a ^^^ b) = a ^^^ 0 := by rw [h]
  rw [← Nat.xor_assoc, Nat.xor_self, Nat.zero_xor, Nat.xor_zero] at this
  exact this.symm

theorem popcount_congr (n a b : Nat) (h : ∀ k, k < n → a.testBit k = b.testBit k) : popcount a n = popcount b n := by
  induction n with
  | zero => rfl
  | succ n ih => rw [popcount_succ, popcount_succ, ih (fun k hk => h k (by omega)), h n (by omega)]

theorem popcount_flip (n a q : Nat) (hq : q < n) (ha : a.testBit q = false) :
    popcount (a ^^^ (1 <<< q)) n = popcount a n + 1 := by
  induction n with
  | zero => omega
  | succ n ih =>
    rw [popcount_succ, popcount_succ]
    by_cases h : q = n
    · subst h
      rw [popcount_congr q (a ^^^ (1 <<< q)) a (fun k hk => testBit_xflip_ne a q k (by omega)), testBit_xflip, ha]
      simp
    · rw [ih (by omega), testBit_xflip_ne a q n h]; omega

/-- the number of `Y` letters is the number of common bits of the two masks -/
theorem ycount_eq (n : Nat) (t : PStr) (h : Canon n t) : popcount (xmask t &&& zmask t) n = ycount t := by
  induction t with
  | nil => simp [xmask, zmask, ycount, popcount]
  | cons f r ih =>
    have ihr := ih (canon_tail h)
    obtain ⟨q, P⟩ := f
    have hP := (h.2 (q, P) List.mem_cons_self).1
    have hq : q < n := (h.2 (q, P) List.mem_cons_self).2
    have hxb : (xmask r).testBit q = false := xmask_head_bit h
    have hzb : (zmask r).testBit q = false := zmask_head_bit h
    rw [xmask_cons, zmask_cons, ycount_cons]
    simp only
    rcases hP with rfl | rfl | rfl
    · simp only [true_or, if_true, show ¬ ((1 : Nat) = 2 ∨ (1 : Nat) = 3) by decide, if_false, show ¬ ((1 : Nat) = 2) by decide]
      rw [← ihr]
      apply popcount_congr
      intro k _
      simp only [Nat.testBit_and, Nat.testBit_xor]
      by_cases hk : q = k
      · subst hk; simp [hzb]
      · simp [Nat.one_shiftLeft, Nat.testBit_two_pow, hk]
    · simp only [true_or, or_true, if_true]
      rw [← ihr, ← popcount_flip n _ q hq (by simp [Nat.testBit_and, hxb])]
      apply popcount_congr
      intro k _
      simp only [Nat.testBit_and, Nat.testBit_xor]
      by_cases hk : q = k
      · subst hk; simp [hzb, hxb, Nat.one_shiftLeft, Nat.testBit_two_pow_self]
      · simp [Nat.one_shiftLeft, Nat.testBit_two_pow, hk]
    · simp only [or_true, if_true, show ¬ ((3 : Nat) = 1 ∨ (3 : Nat) = 2) by decide, if_false, show ¬ ((3 : Nat) = 2) by decide]
      rw [← ihr]
      apply popcount_congr
      intro k _
      simp only [Nat.testBit_and, Nat.testBit_xor]
      by_cases hk : q = k
      · subst hk; simp [hxb]
      · simp [Nat.one_shiftLeft, Nat.testBit_two_pow, hk]

theorem ipow_sq_sg (n w : Nat) : GQ.ipow (popcount w n) * GQ.ipow (popcount w n) * sg n w = 1 := by
  rw [ipow_add]
  unfold sg
  have hm : (popcount w n + popcount w n) % 4 = if popcount w n % 2 = 0 then 0 else 2 := by
    split <;> omega
  rw [← ipow_mod, hm]
  split
  · simp [ipow_zero]
  · rw [ipow_two]; ring

theorem exists_low_bit (n w : Nat) (hw : w ≠ 0) (hlt : w < 2 ^ n) : ∃ k, k < n ∧ w.testBit k = true := by
  obtain ⟨k, hk⟩ := Nat.exists_testBit_of_ne_zero hw
  refine ⟨k, ?_, hk⟩
  by_contra hc
  have h1 := Nat.ge_two_pow_of_testBit hk
  have h2 : 2 ^ n ≤ 2 ^ k := Nat.pow_le_pow_right (by norm_num) (by omega)
  omega

theorem sum_const_range (N : Nat) (c : GQ) : ∑ _s ∈ Finset.range N, c = (N : GQ) * c := by
  simp [Finset.sum_const, nsmul_eq_mul]

/-- **trace orthogonality** of a canonical string against the mask pair `(x, z)` -/
theorem trace_canon (n : Nat) (t : PStr) (h : Canon n t) (x z : Nat) (hz : z < 2 ^ n) :
    GQ.ipow (popcount (x &&& z) n)
        * ∑ s ∈ Finset.range (2 ^ n), sg n (z &&& (s ^^^ x)) * termCoef .qubit t [s] [s ^^^ x]
      = if xmask t = x ∧ zmask t = z then ((2 ^ n : Nat) : GQ) else 0 := by
  have hterm : ∀ s, termCoef .qubit t [s] [s ^^^ x]
      = if xmask t = x then GQ.ipow (ycount t) * sg n (zmask t &&& s) else 0 := by
    intro s
    obtain ⟨a1, a2⟩ := act_canon n t h s
    rw [termCoef_qubit, a1, a2]
    by_cases hx : xmask t = x
    · simp [hx]
    · have : ¬ (s ^^^ xmask t = s ^^^ x) := fun e => hx (xor_cancel_left s _ _ e)
      simp [hx, this]
  by_cases hx : xmask t = x
  · have hs : ∀ s, sg n (z &&& (s ^^^ x)) * termCoef .qubit t [s] [s ^^^ x]
        = sg n ((z ^^^ zmask t) &&& s) * (GQ.ipow (ycount t) * sg n (z &&& x)) := by
      intro s
      rw [hterm s, if_pos hx, Nat.and_xor_distrib_left, sg_xor, Nat.and_xor_distrib_right, sg_xor]
      ring
    rw [Finset.sum_congr rfl (fun s _ => hs s)]
    by_cases hzz : zmask t = z
    · rw [if_pos ⟨hx, hzz⟩]
      have : ∀ s ∈ Finset.range (2 ^ n), sg n ((z ^^^ zmask t) &&& s) * (GQ.ipow (ycount t) * sg n (z &&& x))
          = GQ.ipow (ycount t) * sg n (z &&& x) := by
        intro s _
        rw [hzz, Nat.xor_self, Nat.zero_and, sg_zero, one_mul]
      rw [Finset.sum_congr rfl this, sum_const_range]
      have hy := ycount_eq n t h
      rw [hx, hzz] at hy
      rw [← hy, Nat.and_comm z x]
      have := ipow_sq_sg n (x &&& z)
      calc GQ.ipow (popcount (x &&& z) n) * (((2 ^ n : Nat) : GQ) * (GQ.ipow (popcount (x &&& z) n) * sg n (x &&& z)))
          = ((2 ^ n : Nat) : GQ) * (GQ.ipow (popcount (x &&& z) n) * GQ.ipow (popcount (x &&& z) n) * sg n (x &&& z)) := by ring
        _ = ((2 ^ n : Nat) : GQ) := by rw [this, mul_one]
    · rw [if_neg (fun hc => hzz hc.2)]
      have hw : z ^^^ zmask t ≠ 0 := by
        intro e
        exact hzz (eq_of_xor_eq_zero _ _ e).symm
      have hwl : z ^^^ zmask t < 2 ^ n := Nat.xor_lt_two_pow hz (zmask_lt n t h)
      obtain ⟨k, hk, hb⟩ := exists_low_bit n _ hw hwl
      rw [char_sum_zero n _ k hk hb, mul_zero]
  · rw [if_neg (fun hc => hx hc.1)]
    have : ∀ s ∈ Finset.range (2 ^ n), sg n (z &&& (s ^^^ x)) * termCoef .qubit t [s] [s ^^^ x] = 0 := by
      intro s _
      rw [hterm s, if_neg hx, mul_zero]
    rw [Finset.sum_congr rfl this]
    simp

end C19P
end OFV
