/- C09: parity_code(n): the bidiagonal decoder matrix inverts the prefix sums, on all vectors. -/
import OFV.Proofs.C09Checksum

namespace OFV.C09
open OFV.Model.C09 OFV.Spec.C09

/-! ### the bidiagonal decoder matrix `eye(n) + eye(n, k=-1)` -/

theorem getD_parityDec (n i : Nat) (h : i < n) :
    (parityDec n).getD i [] = (List.range n).map fun j => if i = j ∨ i = j + 1 then 1 else 0 := by
  simp [parityDec, List.getD_eq_getElem?_getD, h]

theorem onesOf_parityRow (n i : Nat) (h : i < n) :
    onesOf ((List.range n).map fun j => if i = j ∨ i = j + 1 then 1 else 0)
      = (List.range n).filter fun c => decide (i = c ∨ i = c + 1) := by
  unfold onesOf
  rw [List.length_map, List.length_range]
  apply List.filter_congr
  intro c hc
  rw [getD_map_range n _ c (List.mem_range.mp hc)]
  by_cases hic : i = c ∨ i = c + 1 <;> simp [hic]

theorem filter_range_first (n : Nat) (h : 0 < n) :
    (List.range n).filter (fun c => decide (0 = c ∨ 0 = c + 1)) = [0] := by
  rw [← filter_range_eq n 0 h]
  apply List.filter_congr
  intro c _
  by_cases hc : 0 = c <;> simp [hc]

theorem filter_range_pair (n i : Nat) (h1 : 1 ≤ i) (h2 : i < n) :
    (List.range n).filter (fun c => decide (i = c ∨ i = c + 1)) = [i - 1, i] := by
  induction n with
  | zero => omega
  | succ k ih =>
    rw [List.range_succ, List.filter_append]
    by_cases hik : i < k
    · rw [ih hik]
      have : ¬ (i = k ∨ i = k + 1) := by omega
      simp [this]
    · have hk : i = k := by omega
      subst hk
      have hpre : (List.range i).filter (fun c => decide (i = c ∨ i = c + 1)) = [i - 1] := by
        rw [← filter_range_eq i (i - 1) (by omega)]
        apply List.filter_congr
        intro c hc
        have := List.mem_range.mp hc
        by_cases hcc : i - 1 = c
        · have : i = c + 1 := by omega
          simp [hcc, this]
        · have : ¬ (i = c ∨ i = c + 1) := by omega
          simp [hcc, this]
      rw [hpre]
      simp

/-! ### the encoder: lower triangular ones = prefix sums -/

theorem dot_tril_row (n i : Nat) (v : List Nat) (h : v.length = n) (hi : i < n) :
    dot ((List.range n).map fun j => if j ≤ i then 1 else 0) v = (v.take (i + 1)).sum := by
  induction n generalizing i v with
  | zero => omega
  | succ k ih =>
    rw [List.range_succ_eq_map, List.map_cons, List.map_map]
    cases v with
    | nil => simp at h
    | cons b v =>
      rw [dot_cons]
      cases i with
      | zero =>
        have hz : (List.range k).map ((fun j => if j ≤ 0 then 1 else 0) ∘ Nat.succ) = zeros k := by
          simp [zeros, Function.comp_def, List.map_const']
        rw [hz, dot_zeros]; simp
      | succ i' =>
        have hs : (List.range k).map ((fun j => if j ≤ i' + 1 then 1 else 0) ∘ Nat.succ)
            = (List.range k).map fun j => if j ≤ i' then 1 else 0 := by
          apply List.map_congr_left; intro j _; simp [Function.comp]
        rw [hs, ih i' v (by simpa using h) (by omega)]
        simp

theorem sum_take_succ (v : List Nat) (i : Nat) : (v.take (i + 1)).sum = (v.take i).sum + v.getD i 0 := by
  induction v generalizing i with
  | nil => simp
  | cons b v ih =>
    cases i with
    | zero => simp
    | succ i' => simp only [List.take_succ_cons, List.sum_cons, ih i']; simp; omega

theorem getD_tril (n i : Nat) (h : i < n) :
    (tril n).getD i [] = (List.range n).map fun j => if j ≤ i then 1 else 0 := by
  simp [tril, List.getD_eq_getElem?_getD, h]

theorem parity_valid' (n : Nat) (c : Code) (h : parityCode n = .ok c) (v : List Nat)
    (hlen : v.length = n) (hb : ∀ x ∈ v, x ≤ 1) : ValidOn c v := by
  unfold parityCode at h
  obtain ⟨ps, hps, _, hev⟩ := linearizeDecoder_sound (parityDec n)
  simp only [hps, bind, Except.bind] at h
  obtain ⟨rfl, _, _⟩ := mk'_ok _ _ _ _ _ h
  have henc : ∀ q, q < n →
      encFn ⟨tril n, ps.map .poly, n, n⟩ v q = ((v.take (q + 1)).sum % 2 == 1) := by
    intro q hq
    rw [encFn_eq _ _ _ (by simp [tril]; exact hq)]
    show (dot ((tril n).getD q []) v % 2 == 1) = _
    rw [getD_tril _ q hq, dot_tril_row _ q v hlen hq]
  intro i hi
  have hi' : i < n := hi
  show decFn (ps.map .poly) _ i = _
  rw [decFn_map_poly, hev, getD_parityDec n i hi', onesOf_parityRow n i hi']
  cases i with
  | zero =>
    rw [filter_range_first n hi', xorCols_single, henc 0 hi']
    have : (v.take 1).sum = v.getD 0 0 := by
      cases v with
      | nil => simp
      | cons b v => simp
    rw [this, bit_eq _ (getD_le_one v hb 0)]
  | succ k =>
    rw [filter_range_pair n (k + 1) (by omega) hi']
    have hx : xorCols (encFn ⟨tril n, ps.map .poly, n, n⟩ v) [k + 1 - 1, k + 1]
        = xor (encFn ⟨tril n, ps.map .poly, n, n⟩ v k) (encFn ⟨tril n, ps.map .poly, n, n⟩ v (k + 1)) := by
      simp [xorCols]
    rw [hx, henc k (by omega), henc (k + 1) hi', sum_take_succ v (k + 1)]
    have hle := getD_le_one v hb (k + 1)
    generalize (v.take (k + 1)).sum = S at *
    generalize v.getD (k + 1) 0 = x at *
    have hx : x = 0 ∨ x = 1 := by omega
    have hS := Nat.mod_two_eq_zero_or_one S
    rcases hx with rfl | rfl <;> rcases hS with h0 | h0
    · simp [h0]
    · simp [h0]
    · have : (S + 1) % 2 = 1 := by omega
      simp [h0, this]
    · have : (S + 1) % 2 = 0 := by omega
      simp [h0, this]

end OFV.C09
