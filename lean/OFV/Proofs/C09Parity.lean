/- C09: parity_code(n), n ≥ 2: the reshaped decoder matrix and validity on all vectors. -/
import OFV.Proofs.C09Checksum
import Mathlib.Tactic.Ring

namespace OFV.C09
open OFV.Model.C09 OFV.Spec.C09

/-! ### structural reading of `onesOf` -/

/-- XOR of `w k, w (k+1), …` over the entries of the row that are 1 -/
def xorIdx (w : Nat → Bool) : List Nat → Nat → Bool
  | [], _ => false
  | e :: r, k => xor (e == 1 && w k) (xorIdx w r (k + 1))

theorem xorCols_filter_range' (w : Nat → Bool) (row : List Nat) (k : Nat) :
    xorCols w ((List.range' k row.length).filter fun c => row.getD (c - k) 0 == 1) = xorIdx w row k := by
  induction row generalizing k with
  | nil => rfl
  | cons e r ih =>
    rw [List.length_cons, List.range'_succ, List.filter_cons]
    have htail : (List.range' (k + 1) r.length).filter (fun c => (e :: r).getD (c - k) 0 == 1)
        = (List.range' (k + 1) r.length).filter (fun c => r.getD (c - (k + 1)) 0 == 1) := by
      apply List.filter_congr
      intro c hc
      have hc' := (List.mem_range'_1.mp hc).1
      have : c - k = (c - (k + 1)) + 1 := by omega
      rw [this]; simp
    rw [htail]
    simp only [Nat.sub_self, List.getD_cons_zero]
    unfold xorIdx
    rw [← ih (k + 1)]
    by_cases he : e = 1
    · simp [he, xorCols_cons]
    · have : (e == 1) = false := by simp [he]
      simp [this]

theorem xorCols_onesOf (w : Nat → Bool) (row : List Nat) : xorCols w (onesOf row) = xorIdx w row 0 := by
  unfold onesOf
  rw [List.range_eq_range', ← xorCols_filter_range' w row 0]
  simp

theorem xorIdx_zeros (w : Nat → Bool) (b k : Nat) : xorIdx w (zeros b) k = false := by
  induction b generalizing k with
  | zero => rfl
  | succ b ih =>
    simp only [zeros, List.replicate_succ, xorIdx] at ih ⊢
    rw [ih]; simp

theorem xorIdx_zeros_append (w : Nat → Bool) (a : Nat) (r : List Nat) (k : Nat) :
    xorIdx w (zeros a ++ r) k = xorIdx w r (k + a) := by
  induction a generalizing k with
  | zero => simp [zeros]
  | succ a ih =>
    simp only [zeros, List.replicate_succ, List.cons_append, xorIdx] at ih ⊢
    rw [ih (k + 1)]
    have : k + 1 + a = k + (a + 1) := by omega
    rw [this]; simp

theorem xorIdx_pair (w : Nat → Bool) (a b : Nat) :
    xorIdx w (zeros a ++ ([1, 1] ++ zeros b)) 0 = xor (w a) (w (a + 1)) := by
  rw [xorIdx_zeros_append]
  simp [xorIdx, xorIdx_zeros]

theorem xorIdx_first (w : Nat → Bool) (b : Nat) : xorIdx w ([1] ++ zeros b) 0 = w 0 := by
  simp [xorIdx, xorIdx_zeros]

/-! ### the reshape of `parity_code` -/

theorem zeros_add (a b : Nat) : zeros (a + b) = zeros a ++ zeros b := by
  simp [zeros, List.replicate_append_replicate]

theorem length_zeros (a : Nat) : (zeros a).length = a := by simp [zeros]

theorem chunks_cons_of_length (k w : Nat) (l1 l2 : List Nat) (h : l1.length = w) :
    chunks (k + 1) w (l1 ++ l2) = l1 :: chunks k w l2 := by
  simp [chunks, ← h]

/-- after `k` rows the stream is `k` zeros followed by the remaining blocks -/
theorem chunks_parity (m k : Nat) :
    chunks (m + 1) (k + m + 2)
      (zeros k ++ ((List.replicate m ([1, 1] ++ zeros (k + m + 1))).flatten ++ [1, 1]))
      = (List.range (m + 1)).map fun t => zeros (k + t) ++ ([1, 1] ++ zeros (m - t)) := by
  induction m generalizing k with
  | zero =>
    have : zeros k ++ (([] : List (List Nat)).flatten ++ [1, 1]) = (zeros k ++ [1, 1]) ++ [] := by simp
    rw [List.replicate_zero, this, chunks_cons_of_length 0 _ _ _ (by simp [length_zeros])]
    simp [chunks, zeros]
  | succ m ih =>
    have hstream : zeros k ++ ((List.replicate (m + 1) ([1, 1] ++ zeros (k + (m + 1) + 1))).flatten ++ [1, 1])
        = (zeros k ++ ([1, 1] ++ zeros (m + 1))) ++
          (zeros (k + 1) ++ ((List.replicate m ([1, 1] ++ zeros ((k + 1) + m + 1))).flatten ++ [1, 1])) := by
      have h1 : k + (m + 1) + 1 = (m + 1) + (k + 1) := by omega
      have h2 : k + 1 + m + 1 = (m + 1) + (k + 1) := by omega
      rw [List.replicate_succ, List.flatten_cons, h1, h2, zeros_add (m + 1) (k + 1)]
      simp [List.append_assoc]
    have hw : k + (m + 1) + 2 = (k + 1) + m + 2 := by omega
    rw [hstream, chunks_cons_of_length (m + 1) _ _ _ (by simp [length_zeros]; omega), hw, ih (k + 1),
      List.range_succ_eq_map (n := m + 1), List.map_cons, List.map_map]
    congr 1
    apply List.map_congr_left
    intro t _
    simp only [Function.comp, Nat.succ_eq_add_one]
    have e1 : k + 1 + t = k + (t + 1) := by omega
    have e2 : m - t = m + 1 - (t + 1) := by omega
    rw [e1, e2]

theorem length_flatten_replicate (m : Nat) (B : List Nat) : (List.replicate m B).flatten.length = m * B.length := by
  induction m with
  | zero => simp
  | succ m ih => rw [List.replicate_succ, List.flatten_cons, List.length_append, ih]; ring

/-- the decoder matrix of `parity_code(m + 2)` -/
theorem reshape_parity (m : Nat) :
    reshapeSq (parityFlat (m + 2)) (m + 2) = .ok
      (([1] ++ zeros (m + 1)) ::
        (List.range (m + 1)).map fun t => zeros t ++ ([1, 1] ++ zeros (m - t))) := by
  unfold reshapeSq
  have hlen : (parityFlat (m + 2)).length = (m + 2) * (m + 2) := by
    simp only [parityFlat, List.length_append, length_flatten_replicate, length_zeros, List.length_cons,
      List.length_nil]
    have : m + 2 - 2 = m := by omega
    have h1 : m + 2 - 1 = m + 1 := by omega
    rw [this, h1]; ring
  rw [if_neg (by simp [hlen])]
  congr 1
  have hflat : parityFlat (m + 2) = ([1] ++ zeros (m + 1)) ++
      (zeros 0 ++ ((List.replicate m ([1, 1] ++ zeros (0 + m + 1))).flatten ++ [1, 1])) := by
    simp only [parityFlat]
    have : m + 2 - 2 = m := by omega
    have h1 : m + 2 - 1 = m + 1 := by omega
    rw [this, h1]
    simp [zeros, List.append_assoc]
  have hw : m + 2 = 0 + m + 2 := by omega
  rw [hflat, chunks_cons_of_length (m + 1) (m + 2) _ _ (by simp [length_zeros])]
  congr 1
  conv => lhs; rw [hw]
  rw [chunks_parity m 0]
  apply List.map_congr_left
  intro t _
  simp

/-! ### the encoder: lower triangular ones = prefix sums -/

theorem dot_tril_row (n i : Nat) (v : List Nat) (h : v.length = n) (hi : i < n) :
    dot ((List.range n).map fun j => if j ≤ i then 1 else 0) v = (v.take (i + 1)).sum := by
  induction n generalizing i v with
  | zero => omega
  | succ k ih =>
    rw [List.range_succ_eq_map, List.map_cons, List.map_map]
    cases v with
    | nil => simp at h
    | cons b v =>
      rw [dot_cons]
      cases i with
      | zero =>
        have hz : (List.range k).map ((fun j => if j ≤ 0 then 1 else 0) ∘ Nat.succ) = zeros k := by
          simp [zeros, Function.comp_def, List.map_const']
        rw [hz, dot_zeros]; simp
      | succ i' =>
        have hs : (List.range k).map ((fun j => if j ≤ i' + 1 then 1 else 0) ∘ Nat.succ)
            = (List.range k).map fun j => if j ≤ i' then 1 else 0 := by
          apply List.map_congr_left; intro j _; simp [Function.comp]
        rw [hs, ih i' v (by simpa using h) (by omega)]
        simp

theorem sum_take_succ (v : List Nat) (i : Nat) : (v.take (i + 1)).sum = (v.take i).sum + v.getD i 0 := by
  induction v generalizing i with
  | nil => simp
  | cons b v ih =>
    cases i with
    | zero => simp
    | succ i' => simp only [List.take_succ_cons, List.sum_cons, ih i']; simp; omega

theorem getD_tril (n i : Nat) (h : i < n) :
    (tril n).getD i [] = (List.range n).map fun j => if j ≤ i then 1 else 0 := by
  simp [tril, List.getD_eq_getElem?_getD, h]

theorem parity_valid' (m : Nat) (c : Code) (h : parityCode (m + 2) = .ok c) (v : List Nat)
    (hlen : v.length = m + 2) (hb : ∀ x ∈ v, x ≤ 1) : ValidOn c v := by
  unfold parityCode at h
  rw [reshape_parity m] at h
  simp only [bind, Except.bind] at h
  obtain ⟨ps, hps, _, hev⟩ := linearizeDecoder_sound
    (([1] ++ zeros (m + 1)) :: (List.range (m + 1)).map fun t => zeros t ++ ([1, 1] ++ zeros (m - t)))
  simp only [hps] at h
  obtain ⟨rfl, _, _⟩ := mk'_ok _ _ _ _ _ h
  have henc : ∀ q, q < m + 2 →
      encFn ⟨tril (m + 2), ps.map .poly, m + 2, m + 2⟩ v q = ((v.take (q + 1)).sum % 2 == 1) := by
    intro q hq
    rw [encFn_eq _ _ _ (by simp [tril]; exact hq)]
    show (dot ((tril (m + 2)).getD q []) v % 2 == 1) = _
    rw [getD_tril _ q hq, dot_tril_row _ q v hlen hq]
  intro i hi
  have hi' : i < m + 2 := hi
  show decFn (ps.map .poly) _ i = _
  rw [decFn_map_poly, hev, xorCols_onesOf]
  cases i with
  | zero =>
    simp only [List.getD_cons_zero]
    rw [xorIdx_first, henc 0 (by omega)]
    have : (v.take 1).sum = v.getD 0 0 := by
      cases v with
      | nil => simp
      | cons b v => simp
    rw [this, bit_eq _ (getD_le_one v hb 0)]
  | succ k =>
    have hk : k < m + 1 := by omega
    have hrow : ((([1] ++ zeros (m + 1)) ::
        (List.range (m + 1)).map fun t => zeros t ++ ([1, 1] ++ zeros (m - t))) : Mat).getD (k + 1) []
        = zeros k ++ ([1, 1] ++ zeros (m - k)) := by
      simp [List.getD_eq_getElem?_getD, hk]
    rw [hrow, xorIdx_pair, henc k (by omega), henc (k + 1) (by omega), sum_take_succ v (k + 1)]
    have hle := getD_le_one v hb (k + 1)
    generalize (v.take (k + 1)).sum = S at *
    generalize v.getD (k + 1) 0 = x at *
    have hx : x = 0 ∨ x = 1 := by omega
    have hS := Nat.mod_two_eq_zero_or_one S
    rcases hx with rfl | rfl <;> rcases hS with h0 | h0
    · simp [h0]
    · simp [h0]
    · have : (S + 1) % 2 = 1 := by omega
      simp [h0, this]
    · have : (S + 1) % 2 = 0 := by omega
      simp [h0, this]

end OFV.C09
