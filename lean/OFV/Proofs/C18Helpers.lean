/- C18 — helper generators: `_gen_partitions` yields contiguous balanced partitions of the labels, `_parallel_iter`
yields exactly the non-empty rows (same index of every iterator, concatenated). -/
import OFV.Proofs.C18Pws1

namespace OFV.Proofs.C18Helpers
open OFV.Model.C18 OFV.Proofs.C18Pws List

section
variable {β : Type}

theorem balanced_halves (l : List β) (h : 2 ≤ l.length) : Balanced (halves l) := by
  refine ⟨by simp [halves], ?_⟩
  intro p hp
  have hl : lastLen (halves l) = l.length - l.length / 2 := by
    simp [lastLen, halves]
  rw [hl]
  simp only [halves, mem_cons, not_mem_nil, or_false] at hp
  rcases hp with rfl | rfl
  · simp only [length_take]; omega
  · simp only [length_drop]; omega

/-- every level is a contiguous partition of the starting level, with balanced sizes -/
theorem genPartitionsAux_spec (ms : Nat) : ∀ (fuel : Nat) (parts : List (List β)), Balanced parts →
    ∀ x ∈ genPartitionsAux ms fuel parts, x.flatten = parts.flatten ∧ Balanced x := by
  intro fuel
  induction fuel with
  | zero =>
    intro parts hb x hx
    simp only [genPartitionsAux, mem_singleton] at hx
    subst hx; exact ⟨rfl, hb⟩
  | succ fuel ih =>
    intro parts hb x hx
    rw [genPartitionsAux_succ] at hx
    rcases mem_cons.1 hx with rfl | hx
    · exact ⟨rfl, hb⟩
    · by_cases hl : lastLen parts < ms
      · rw [if_pos hl] at hx; simp at hx
      · rw [if_neg hl] at hx
        obtain ⟨h1, h2⟩ := ih (parts.flatMap halves) (balanced_step parts hb) x hx
        exact ⟨by rw [h1, flatten_flatMap_halves], h2⟩

/-- `_gen_partitions(labels, min_size)`: every yield is a partition of `labels` into contiguous parts (their
concatenation is `labels`), non-empty, and for at least two labels the part sizes differ by at most one with a
largest part last -/
theorem genPartitions_spec (labels : List β) (ms : Nat) :
    ∀ x ∈ genPartitions labels ms, x.flatten = labels ∧ x ≠ [] ∧ (2 ≤ labels.length → Balanced x) := by
  intro x hx
  unfold genPartitions at hx
  by_cases h1 : labels.length = 1
  · rw [if_pos h1] at hx
    simp only [mem_singleton] at hx
    subst hx
    exact ⟨by simp, by simp, fun h => by omega⟩
  · rw [if_neg h1] at hx
    by_cases h2 : 2 ≤ labels.length
    · obtain ⟨a, b⟩ := genPartitionsAux_spec ms labels.length (halves labels) (balanced_halves labels h2) x hx
      refine ⟨?_, b.1, fun _ => b⟩
      rw [a]; simp [halves]
    · -- no labels: the two empty halves, at every level
      have h0 : labels = [] := by
        cases labels with
        | nil => rfl
        | cons a t => exfalso; simp only [List.length_cons] at h1 h2; omega
      subst h0
      have key : ∀ (fuel : Nat) (parts : List (List β)), parts ≠ [] → parts.flatten = [] →
          ∀ y ∈ genPartitionsAux ms fuel parts, y.flatten = [] ∧ y ≠ [] := by
        intro fuel
        induction fuel with
        | zero =>
          intro parts hne hf y hy
          simp only [genPartitionsAux, mem_singleton] at hy
          subst hy; exact ⟨hf, hne⟩
        | succ fuel ih =>
          intro parts hne hf y hy
          rw [genPartitionsAux_succ] at hy
          rcases mem_cons.1 hy with rfl | hy
          · exact ⟨hf, hne⟩
          · split at hy
            · simp at hy
            · refine ih (parts.flatMap halves) ?_ (by rw [flatten_flatMap_halves, hf]) y hy
              intro e
              have := length_flatMap_halves parts
              rw [e] at this
              simp at this
              exact hne (length_eq_zero_iff.1 (by omega))
      obtain ⟨a, b⟩ := key _ (halves ([] : List β)) (by simp [halves]) (by simp [halves]) x hx
      exact ⟨a, b, fun h => by simp at h⟩

/-- `_parallel_iter(iterators, flatten=True)`: the yields are exactly the non-empty rows — the results with the
same index of all iterators, concatenated in iterator order — in index order -/
theorem parallelIter_spec (its : List (List (List β))) (r : List β) :
    r ∈ parallelIter its ↔
      r ≠ [] ∧ ∃ k, k < its.foldl (fun acc l => max acc l.length) 0 ∧ r = its.flatMap (fun l => l.getD k []) := by
  unfold parallelIter
  simp only [mem_filter, mem_map, mem_range, Bool.not_eq_eq_eq_not, Bool.not_true, isEmpty_eq_false_iff]
  constructor
  · rintro ⟨⟨k, hk, rfl⟩, hne⟩
    exact ⟨hne, k, hk, rfl⟩
  · rintro ⟨hne, k, hk, rfl⟩
    exact ⟨⟨k, hk, rfl⟩, hne⟩

end

end OFV.Proofs.C18Helpers
