/-
C08 helper lemmas: the scatter loop of `get_quadratic_hamiltonian` on normal-ordered input and the
`QuadraticHamiltonian` constructor, against the Fock-space Spec.
-/
import OFV.Proofs.C08Dch
import Mathlib.Tactic.LinearCombination

namespace OFV
namespace C08P
open Spec Spec.C08 Model Model.C08

/-! ### entries under `+=` -/

theorem tget_madd (n : Nat) (T : Tensor) (p0 q0 : Nat) (c x : GQ) (hT : Shaped n 2 T) (hp : p0 < n) (hq : q0 < n)
    (hx : tget [p0, q0] T = some x) (idx : List Nat) (hl : idx.length = 2) :
    tget idx (madd T p0 q0 c) = if idx = [p0, q0] then some (x + c) else tget idx T := by
  unfold madd mget
  rw [hx, tget_tset n 2 T [p0, q0] idx _ hT rfl (lt2 hp hq) hl]
  rfl

theorem Shaped_madd (n : Nat) (T : Tensor) (p0 q0 : Nat) (c : GQ) (hT : Shaped n 2 T) :
    Shaped n 2 (madd T p0 q0 c) := Shaped_tset n 2 _ _ _ hT

/-- `a[p0, q0] += z; a[q0, p0] -= z` -/
theorem anti_update (n : Nat) (T : Tensor) (G : Nat → Nat → GQ) (p0 q0 : Nat) (z : GQ) (hT : Shaped n 2 T)
    (hp : p0 < n) (hq : q0 < n) (hne : p0 ≠ q0) (hG : ∀ p q, p < n → q < n → tget [p, q] T = some (G p q)) :
    Shaped n 2 (madd (madd T p0 q0 z) q0 p0 (-z)) ∧
    ∀ p q, p < n → q < n → tget [p, q] (madd (madd T p0 q0 z) q0 p0 (-z))
      = some (G p q + (if p = p0 ∧ q = q0 then z else 0) - (if p = q0 ∧ q = p0 then z else 0)) := by
  have h1 := Shaped_madd n T p0 q0 z hT
  refine ⟨Shaped_madd n _ q0 p0 (-z) h1, ?_⟩
  have e1 : ∀ idx, idx.length = 2 → tget idx (madd T p0 q0 z)
      = if idx = [p0, q0] then some (G p0 q0 + z) else tget idx T :=
    fun idx hl => tget_madd n T p0 q0 z (G p0 q0) hT hp hq (hG p0 q0 hp hq) idx hl
  have hqp : tget [q0, p0] (madd T p0 q0 z) = some (G q0 p0) := by
    rw [e1 [q0, p0] rfl]
    have : ¬ ([q0, p0] = [p0, q0]) := by intro h; simp at h; exact hne h.1.symm
    rw [if_neg this, hG q0 p0 hq hp]
  intro p q hp' hq'
  rw [tget_madd n _ q0 p0 (-z) (G q0 p0) h1 hq hp hqp [p, q] rfl, e1 [p, q] rfl]
  by_cases a : p = q0 ∧ q = p0
  · obtain ⟨rfl, rfl⟩ := a
    have n1 : ¬ (p = q ∧ q = p) := fun h => hne h.2
    simp only [if_true, and_self, n1, if_false]
    congr 1; ring
  · have n1 : ¬ ([p, q] = [q0, p0]) := by intro h; simp at h; exact a h
    rw [if_neg n1, if_neg a]
    by_cases b : p = p0 ∧ q = q0
    · obtain ⟨rfl, rfl⟩ := b
      simp only [if_true, and_self]
      congr 1; ring
    · have n2 : ¬ ([p, q] = [p0, q0]) := by intro h; simp at h; exact b h
      rw [if_neg n2, if_neg b, hG p q hp' hq']
      congr 1; ring

/-! ### the coefficient of a word in a prefix of the dictionary -/

theorem getD_snoc (P : Op) (t : Term) (c : GQ) (K : Term) (h : t ∉ P.map Prod.fst) :
    Dict.getD (P ++ [(t, c)]) K 0 = if K = t then c else Dict.getD P K 0 := by
  induction P with
  | nil =>
    rw [List.nil_append, getD_cons_op]
    by_cases e : K = t
    · subst e; simp
    · have : ¬ t = K := fun h => e h.symm
      simp only [this, e, if_false]
  | cons e r ih =>
    have hr : t ∉ r.map Prod.fst := fun h' => h (by simp only [List.map_cons, List.mem_cons]; exact Or.inr h')
    have he : e.1 ≠ t := fun h' => h (by simp [h'])
    rw [List.cons_append, getD_cons_op, getD_cons_op, ih hr]
    by_cases e1 : e.1 = K
    · have : ¬ K = t := fun h' => he (e1.trans h')
      simp only [e1, if_true, this, if_false]
    · simp only [e1, if_false]

def k10 (p q : Nat) : Term := [(p, 1), (q, 0)]
def k11 (p q : Nat) : Term := [(p, 1), (q, 1)]
def k00 (p q : Nat) : Term := [(p, 0), (q, 0)]

/-- the antisymmetric part after a prefix `P` of the normal-ordered dictionary has been processed -/
def antiF (P : Op) (p q : Nat) : GQ :=
  half * Dict.getD P (k11 p q) 0 - half * GQ.conj (Dict.getD P (k00 p q) 0)
    - half * Dict.getD P (k11 q p) 0 + half * GQ.conj (Dict.getD P (k00 q p) 0)

theorem conj_zero' : GQ.conj 0 = 0 := by apply GQ.ext <;> simp [GQ.conj]

theorem antiF_snoc11 (P : Op) (p0 q0 : Nat) (c : GQ) (h : k11 p0 q0 ∉ P.map Prod.fst) (hne : p0 ≠ q0) (p q : Nat) :
    antiF (P ++ [(k11 p0 q0, c)]) p q
      = antiF P p q + (if p = p0 ∧ q = q0 then half * c else 0) - (if p = q0 ∧ q = p0 then half * c else 0) := by
  have h0 : Dict.getD P (k11 p0 q0) 0 = 0 := getD_of_not_mem h
  unfold antiF
  rw [getD_snoc P _ c _ h, getD_snoc P _ c _ h, getD_snoc P _ c _ h, getD_snoc P _ c _ h]
  have a1 : (k11 p q = k11 p0 q0) ↔ (p = p0 ∧ q = q0) := by simp [k11]
  have a2 : (k11 q p = k11 p0 q0) ↔ (p = q0 ∧ q = p0) := by simp [k11]; tauto
  have a3 : ¬ (k00 p q = k11 p0 q0) := by simp [k00, k11]
  have a4 : ¬ (k00 q p = k11 p0 q0) := by simp [k00, k11]
  rw [if_neg a3, if_neg a4]
  by_cases b1 : p = p0 ∧ q = q0
  · obtain ⟨rfl, rfl⟩ := b1
    have b2 : ¬ (p = q ∧ q = p) := fun h => hne h.1
    rw [if_pos (a1.mpr ⟨rfl, rfl⟩), if_neg (fun h => b2 (a2.mp h)), if_pos ⟨rfl, rfl⟩, if_neg b2, h0]
    ring
  · rw [if_neg (fun h => b1 (a1.mp h)), if_neg b1]
    by_cases b2 : p = q0 ∧ q = p0
    · obtain ⟨rfl, rfl⟩ := b2
      rw [if_pos (a2.mpr ⟨rfl, rfl⟩), if_pos ⟨rfl, rfl⟩, h0]
      ring
    · rw [if_neg (fun h => b2 (a2.mp h)), if_neg b2]
      ring

theorem antiF_snoc00 (P : Op) (p0 q0 : Nat) (d : GQ) (h : k00 p0 q0 ∉ P.map Prod.fst) (hne : p0 ≠ q0) (p q : Nat) :
    antiF (P ++ [(k00 p0 q0, d)]) p q
      = antiF P p q + (if p = p0 ∧ q = q0 then -(half * GQ.conj d) else 0)
          - (if p = q0 ∧ q = p0 then -(half * GQ.conj d) else 0) := by
  have h0 : Dict.getD P (k00 p0 q0) 0 = 0 := getD_of_not_mem h
  unfold antiF
  rw [getD_snoc P _ d _ h, getD_snoc P _ d _ h, getD_snoc P _ d _ h, getD_snoc P _ d _ h]
  have a1 : (k00 p q = k00 p0 q0) ↔ (p = p0 ∧ q = q0) := by simp [k00]
  have a2 : (k00 q p = k00 p0 q0) ↔ (p = q0 ∧ q = p0) := by simp [k00]; tauto
  have a3 : ¬ (k11 p q = k00 p0 q0) := by simp [k00, k11]
  have a4 : ¬ (k11 q p = k00 p0 q0) := by simp [k00, k11]
  rw [if_neg a3, if_neg a4]
  by_cases b1 : p = p0 ∧ q = q0
  · obtain ⟨rfl, rfl⟩ := b1
    have b2 : ¬ (p = q ∧ q = p) := fun h => hne h.1
    rw [if_pos (a1.mpr ⟨rfl, rfl⟩), if_neg (fun h => b2 (a2.mp h)), if_pos ⟨rfl, rfl⟩, if_neg b2, h0, conj_zero']
    ring
  · rw [if_neg (fun h => b1 (a1.mp h)), if_neg b1]
    by_cases b2 : p = q0 ∧ q = p0
    · obtain ⟨rfl, rfl⟩ := b2
      rw [if_pos (a2.mpr ⟨rfl, rfl⟩), if_pos ⟨rfl, rfl⟩, h0, conj_zero']
      ring
    · rw [if_neg (fun h => b2 (a2.mp h)), if_neg b2]
      ring

theorem antiF_snoc_other (P : Op) (t : Term) (c : GQ) (h : t ∉ P.map Prod.fst)
    (h11 : ∀ p q, t ≠ k11 p q) (h00 : ∀ p q, t ≠ k00 p q) (p q : Nat) :
    antiF (P ++ [(t, c)]) p q = antiF P p q := by
  unfold antiF
  rw [getD_snoc P _ c _ h, getD_snoc P _ c _ h, getD_snoc P _ c _ h, getD_snoc P _ c _ h,
    if_neg (fun e => h11 p q e.symm), if_neg (fun e => h00 p q e.symm),
    if_neg (fun e => h11 q p e.symm), if_neg (fun e => h00 q p e.symm)]

/-! ### the loop -/

inductive AdmQ (n : Nat) : Term → Prop
  | const : AdmQ n []
  | k10 (p q : Nat) (hp : p < n) (hq : q < n) : AdmQ n (k10 p q)
  | k11 (p q : Nat) (hp : p < n) (hq : q < n) : AdmQ n (k11 p q)
  | k00 (p q : Nat) (hp : p < n) (hq : q < n) : AdmQ n (k00 p q)

structure InvQ (n : Nat) (P : Op) (st : GQ × Tensor × Tensor) : Prop where
  sh1 : Shaped n 2 st.2.1
  sh2 : Shaped n 2 st.2.2
  const : st.1 = Dict.getD P [] 0
  herm : ∀ p q, p < n → q < n → tget [p, q] st.2.1 = some (Dict.getD P (k10 p q) 0)
  anti : ∀ p q, p < n → q < n → tget [p, q] st.2.2 = some (antiF P p q)

theorem qhStep_spec (tol : Rat) (n : Nat) (no P : Op) (st st1 : GQ × Tensor × Tensor) (t : Term) (c : GQ)
    (hs : GQ.isSmall tol c = false) (hn : ∀ f ∈ t, f.1 < n) (hv : ∀ f ∈ t, f.2 < 2)
    (hno : Spec.C02.NormalOrderedF t) (hfresh : t ∉ P.map Prod.fst) (hinv : InvQ n P st)
    (h : qhStep tol false no st (t, c) = .ok st1) :
    AdmQ n t ∧ InvQ n (P ++ [(t, c)]) st1 := by
  rcases t with _ | ⟨⟨p, a⟩, _ | ⟨⟨q, b⟩, _ | ⟨x, r⟩⟩⟩
  · -- the constant
    simp only [qhStep, hs, Bool.false_eq_true, if_false, Except.ok.injEq] at h
    subst h
    refine ⟨AdmQ.const, ⟨hinv.sh1, hinv.sh2, ?_, ?_, ?_⟩⟩
    · simp only; rw [getD_snoc P _ c _ hfresh]; simp
    · intro p q hp hq
      simp only
      rw [getD_snoc P _ c _ hfresh, if_neg (by simp [k10]), hinv.herm p q hp hq]
    · intro p q hp hq
      simp only
      rw [antiF_snoc_other P [] c hfresh (by simp [k11]) (by simp [k00]), hinv.anti p q hp hq]
  · simp [qhStep, hs] at h
  · -- two factors
    have hp : p < n := hn (p, a) (by simp)
    have hq : q < n := hn (q, b) (by simp)
    have ha : a < 2 := hv (p, a) (by simp)
    have hb : b < 2 := hv (q, b) (by simp)
    have hok : Spec.C02.okF (p, a) (q, b) := (List.pairwise_cons.mp hno).1 (q, b) (by simp)
    simp only [qhStep, hs, Bool.false_eq_true, if_false] at h
    by_cases c10 : a = 1 ∧ b = 0
    · obtain ⟨rfl, rfl⟩ := c10
      simp only [and_self, if_true, Except.ok.injEq] at h
      subst h
      refine ⟨AdmQ.k10 p q hp hq, ⟨Shaped_tset n 2 _ _ _ hinv.sh1, hinv.sh2, ?_, ?_, ?_⟩⟩
      · simp only; rw [getD_snoc P _ c _ hfresh, if_neg (by simp), hinv.const]
      · intro p' q' hp' hq'
        simp only
        rw [tget_tset n 2 st.2.1 [p, q] [p', q'] c hinv.sh1 rfl (lt2 hp hq) rfl, getD_snoc P _ c _ hfresh]
        by_cases e : p' = p ∧ q' = q
        · obtain ⟨rfl, rfl⟩ := e; simp [k10]
        · have e1 : ¬ ([p', q'] = [p, q]) := by intro h; simp at h; exact e h
          have e2 : ¬ (k10 p' q' = [(p, 1), (q, 0)]) := by intro h; simp [k10] at h; exact e h
          rw [if_neg e1, if_neg e2, hinv.herm p' q' hp' hq']
      · intro p' q' hp' hq'
        simp only
        rw [antiF_snoc_other P _ c hfresh (by simp [k11]) (by simp [k00]), hinv.anti p' q' hp' hq']
    · rw [if_neg c10] at h
      by_cases c11 : a = 1 ∧ b = 1
      · obtain ⟨rfl, rfl⟩ := c11
        simp only [and_self, if_true] at h
        have hqp : q < p := hok.2 rfl
        split at h
        · cases h
        · split at h
          · cases h
          · simp only [Except.ok.injEq] at h
            subst h
            obtain ⟨u1, u2⟩ := anti_update n st.2.2 (antiF P) p q (half * c) hinv.sh2 hp hq (by omega) hinv.anti
            refine ⟨AdmQ.k11 p q hp hq, ⟨hinv.sh1, u1, ?_, ?_, ?_⟩⟩
            · simp only; rw [getD_snoc P _ c _ hfresh, if_neg (by simp), hinv.const]
            · intro p' q' hp' hq'
              simp only
              rw [getD_snoc P _ c _ hfresh, if_neg (by simp [k10]), hinv.herm p' q' hp' hq']
            · intro p' q' hp' hq'
              simp only
              rw [u2 p' q' hp' hq']
              have := antiF_snoc11 P p q c hfresh (by omega) p' q'
              simp only [k11] at this
              rw [this]
      · rw [if_neg c11] at h
        have hab : a = 0 ∧ b = 0 := by
          have h1 := hok.1
          simp only at h1
          by_cases hb0 : b = 0
          · refine ⟨?_, hb0⟩
            by_contra ha0
            exact c10 ⟨by omega, hb0⟩
          · have : a ≠ 0 := h1 hb0
            exact absurd ⟨by omega, by omega⟩ c11
        obtain ⟨rfl, rfl⟩ := hab
        have hqp : q < p := hok.2 rfl
        split at h
        · cases h
        · split at h
          · cases h
          · simp only [Except.ok.injEq] at h
            subst h
            obtain ⟨u1, u2⟩ := anti_update n st.2.2 (antiF P) p q (-(half * GQ.conj c)) hinv.sh2 hp hq (by omega)
              hinv.anti
            rw [neg_neg] at u1 u2
            refine ⟨AdmQ.k00 p q hp hq, ⟨hinv.sh1, u1, ?_, ?_, ?_⟩⟩
            · simp only; rw [getD_snoc P _ c _ hfresh, if_neg (by simp), hinv.const]
            · intro p' q' hp' hq'
              simp only
              rw [getD_snoc P _ c _ hfresh, if_neg (by simp [k10]), hinv.herm p' q' hp' hq']
            · intro p' q' hp' hq'
              simp only
              rw [u2 p' q' hp' hq']
              have := antiF_snoc00 P p q c hfresh (by omega) p' q'
              simp only [k00] at this
              rw [this]
  · simp [qhStep, hs] at h

theorem qh_fold (tol : Rat) (n : Nat) (no : Op) : ∀ (L P : Op) (st st' : GQ × Tensor × Tensor),
    L.foldlM (qhStep tol false no) st = .ok st' → ((P ++ L).map Prod.fst).Nodup →
    (∀ e ∈ L, GQ.isSmall tol e.2 = false) → (∀ e ∈ L, ∀ f ∈ e.1, f.1 < n) → (∀ e ∈ L, ∀ f ∈ e.1, f.2 < 2) →
    (∀ e ∈ L, Spec.C02.NormalOrderedF e.1) → InvQ n P st →
    InvQ n (P ++ L) st' ∧ ∀ e ∈ L, AdmQ n e.1 := by
  intro L
  induction L with
  | nil =>
    intro P st st' h _ _ _ _ _ hinv
    simp only [List.foldlM_nil, pure, Except.pure, Except.ok.injEq] at h
    subst h
    rw [List.append_nil]
    exact ⟨hinv, by simp⟩
  | cons e r ih =>
    intro P st st' h hnd hsm hn hv hno hinv
    obtain ⟨t, c⟩ := e
    rw [List.foldlM_cons] at h
    cases h1 : qhStep tol false no st (t, c) with
    | error er => simp [h1, bind, Except.bind] at h
    | ok st1 =>
      simp only [h1, bind, Except.bind] at h
      have hfresh : t ∉ P.map Prod.fst := by
        intro hm
        rw [List.map_append, List.map_cons] at hnd
        have := (List.nodup_append.mp hnd).2.2 t hm t (by simp)
        exact this rfl
      obtain ⟨ha, hinv1⟩ := qhStep_spec tol n no P st st1 t c (hsm (t, c) (by simp)) (hn (t, c) (by simp))
        (hv (t, c) (by simp)) (hno (t, c) (by simp)) hfresh hinv h1
      have happ : P ++ (t, c) :: r = (P ++ [(t, c)]) ++ r := by simp
      rw [happ] at hnd ⊢
      obtain ⟨hinv', hadm⟩ := ih (P ++ [(t, c)]) st1 st' h hnd (fun e he => hsm e (by simp [he]))
        (fun e he => hn e (by simp [he])) (fun e he => hv e (by simp [he])) (fun e he => hno e (by simp [he])) hinv1
      refine ⟨hinv', ?_⟩
      intro e he
      rcases List.mem_cons.mp he with rfl | he
      · exact ha
      · exact hadm e he

/-! ### entries of the tensors handed to the constructor -/

theorem tget_tmap (f : GQ → GQ) (n : Nat) : ∀ (k : Nat) (T : Tensor) (idx : List Nat), Shaped n k T →
    idx.length = k → tget idx (tmap f k T) = (tget idx T).map f := by
  intro k
  induction k with
  | zero =>
    intro T idx h hl
    have : idx = [] := List.eq_nil_of_length_eq_zero hl
    subst this
    cases T with
    | s c => rfl
    | v l => simp [Shaped] at h
  | succ k ih =>
    intro T idx h hl
    cases T with
    | s c => simp [Shaped] at h
    | v l =>
      cases idx with
      | nil => simp at hl
      | cons i r =>
        simp only [List.length_cons, Nat.add_right_cancel_iff] at hl
        simp only [tmap, tget, List.getElem?_map]
        cases hli : l[i]? with
        | none => rfl
        | some t =>
          simp only [Option.map_some]
          exact ih t r (h.2 t (List.mem_of_getElem? hli)) hl

/-- `M += mu * eye(n)` entrywise -/
theorem addDiag_entries (n : Nat) (mu : GQ) (E : Nat → Nat → GQ) :
    ∀ (L : List Nat) (T : Tensor), L.Nodup → (∀ i ∈ L, i < n) → Shaped n 2 T →
    (∀ p q, p < n → q < n → tget [p, q] T = some (E p q + if p = q ∧ p ∈ ([] : List Nat) then mu else 0)) →
    Shaped n 2 (L.foldl (fun acc i => madd acc i i mu) T) ∧
    ∀ p q, p < n → q < n → tget [p, q] (L.foldl (fun acc i => madd acc i i mu) T)
      = some (E p q + if p = q ∧ p ∈ L then mu else 0) := by
  intro L
  -- generalise the set of diagonal positions already shifted
  suffices h : ∀ (L D : List Nat) (T : Tensor), L.Nodup → (∀ i ∈ L, i ∉ D) → (∀ i ∈ L, i < n) → Shaped n 2 T →
      (∀ p q, p < n → q < n → tget [p, q] T = some (E p q + if p = q ∧ p ∈ D then mu else 0)) →
      Shaped n 2 (L.foldl (fun acc i => madd acc i i mu) T) ∧
      ∀ p q, p < n → q < n → tget [p, q] (L.foldl (fun acc i => madd acc i i mu) T)
        = some (E p q + if p = q ∧ p ∈ D ++ L then mu else 0) by
    intro T hnd hL hT hE
    have := h L [] T hnd (fun _ _ => by simp) hL hT hE
    simpa using this
  intro L
  induction L with
  | nil => intro D T _ _ _ hT hE; simpa using ⟨hT, hE⟩
  | cons i r ih =>
    intro D T hnd hD hL hT hE
    rw [List.foldl_cons]
    obtain ⟨hi, hr⟩ := List.nodup_cons.mp hnd
    have hin : i < n := hL i (by simp)
    have hiD : i ∉ D := hD i (by simp)
    have := ih (D ++ [i]) (madd T i i mu) hr
      (fun j hj => by
        simp only [List.mem_append, List.mem_singleton, not_or]
        exact ⟨hD j (by simp [hj]), fun e => hi (e ▸ hj)⟩)
      (fun j hj => hL j (by simp [hj])) (Shaped_madd n T i i mu hT)
      (fun p q hp hq => by
        rw [tget_madd n T i i mu _ hT hin hin (hE i i hin hin) [p, q] rfl]
        by_cases e : p = i ∧ q = i
        · obtain ⟨rfl, rfl⟩ := e
          simp [hiD]
        · have e1 : ¬ ([p, q] = [i, i]) := by intro h; simp at h; exact e h
          rw [if_neg e1, hE p q hp hq]
          congr 2
          by_cases hpq : p = q
          · subst hpq
            have : p ≠ i := fun h => e ⟨h, h⟩
            simp [this]
          · simp [hpq])
    simpa [List.append_assoc] using this

theorem half_add_half (x : GQ) : half * x + half * x = x := by
  apply GQ.ext <;> simp [half] <;> ring

theorem antisym_sum (n : Nat) (C w : Nat → Nat → GQ) (hw : ∀ p q, w q p = -(w p q)) :
    sumN n (fun p => sumN n (fun q => (half * (C p q - C q p)) * w p q))
      = sumN n (fun p => sumN n (fun q => C p q * w p q)) := by
  have e1 : sumN n (fun p => sumN n (fun q => (half * (C p q - C q p)) * w p q))
      = sumN n (fun p => sumN n (fun q => half * C p q * w p q))
        + sumN n (fun p => sumN n (fun q => -(half * C q p * w p q))) := by
    rw [← sumN_add]
    apply sumN_congr; intro p _
    rw [← sumN_add]
    apply sumN_congr; intro q _
    ring
  rw [e1, sumN_comm n n (fun p q => -(half * C q p * w p q)), ← sumN_add]
  apply sumN_congr; intro p _
  rw [← sumN_add]
  apply sumN_congr; intro q _
  rw [hw p q]
  have h2 := half_add_half (C p q)
  calc half * C p q * w p q + -(half * C p q * -w p q)
      = (half * C p q + half * C p q) * w p q := by ring
    _ = C p q * w p q := by rw [h2]

/-! ### the words covered by the loop -/

def admKeysQ (n : Nat) : List Term :=
  [] :: ((indices n 2).map (fun idx => idx.zip [1, 0]) ++
    ((indices n 2).map (fun idx => idx.zip [1, 1]) ++ (indices n 2).map (fun idx => idx.zip [0, 0])))

theorem zip_ne_of_key_ne (n : Nat) (k1 k2 : Key) (h1 : k1.length = 2) (h2 : k2.length = 2) (hne : k1 ≠ k2) :
    ∀ a ∈ (indices n 2).map (fun idx => idx.zip k1), ∀ b ∈ (indices n 2).map (fun idx => idx.zip k2), a ≠ b := by
  intro a ha b hb hab
  obtain ⟨i1, m1, e1⟩ := List.mem_map.mp ha
  obtain ⟨i2, m2, e2⟩ := List.mem_map.mp hb
  have l1 := mem_indices_length n 2 i1 m1
  have l2 := mem_indices_length n 2 i2 m2
  have := congrArg (List.map Prod.snd) (e1.trans (hab.trans e2.symm))
  rw [List.map_snd_zip (by omega), List.map_snd_zip (by omega)] at this
  exact hne this

theorem admKeysQ_nodup (n : Nat) : (admKeysQ n).Nodup := by
  unfold admKeysQ
  have hz : ∀ (k : Key), k.length = 2 → [] ∉ (indices n 2).map (fun idx => idx.zip k) := by
    intro k hk h
    obtain ⟨idx, hi, he⟩ := List.mem_map.mp h
    have := mem_indices_length n 2 idx hi
    have hl := congrArg List.length he
    simp [List.length_zip, this, hk] at hl
  have hn : ∀ (k : Key), k.length = 2 → ((indices n 2).map (fun idx => idx.zip k)).Nodup :=
    fun k hk => zip_inj_on k _ (fun idx h => by rw [mem_indices_length n 2 idx h, hk]) (indices_nodup n 2)
  rw [List.nodup_cons]
  constructor
  · intro h
    rcases List.mem_append.mp h with h | h
    · exact hz [1, 0] rfl h
    · rcases List.mem_append.mp h with h | h
      · exact hz [1, 1] rfl h
      · exact hz [0, 0] rfl h
  · rw [List.nodup_append]
    refine ⟨hn [1, 0] rfl, ?_, ?_⟩
    · rw [List.nodup_append]
      exact ⟨hn [1, 1] rfl, hn [0, 0] rfl, zip_ne_of_key_ne n [1, 1] [0, 0] rfl rfl (by decide)⟩
    · intro a ha b hb
      rcases List.mem_append.mp hb with hb | hb
      · exact zip_ne_of_key_ne n [1, 0] [1, 1] rfl rfl (by decide) a ha b hb
      · exact zip_ne_of_key_ne n [1, 0] [0, 0] rfl rfl (by decide) a ha b hb

theorem admQ_mem (n : Nat) (t : Term) (h : AdmQ n t) : t ∈ admKeysQ n := by
  unfold admKeysQ
  cases h with
  | const => simp
  | k10 p q hp hq =>
    exact List.mem_cons_of_mem _ (List.mem_append_left _ (List.mem_map.mpr
      ⟨[p, q], mem_indices_of n 2 [p, q] rfl (lt2 hp hq), rfl⟩))
  | k11 p q hp hq =>
    exact List.mem_cons_of_mem _ (List.mem_append_right _ (List.mem_append_left _ (List.mem_map.mpr
      ⟨[p, q], mem_indices_of n 2 [p, q] rfl (lt2 hp hq), rfl⟩)))
  | k00 p q hp hq =>
    exact List.mem_cons_of_mem _ (List.mem_append_right _ (List.mem_append_right _ (List.mem_map.mpr
      ⟨[p, q], mem_indices_of n 2 [p, q] rfl (lt2 hp hq), rfl⟩)))

theorem invQ_init (n : Nat) : InvQ n [] (0, tzeros n 2, tzeros n 2) := by
  refine ⟨Shaped_tzeros n 2, Shaped_tzeros n 2, rfl, ?_, ?_⟩
  · intro p q hp hq
    rw [tget_tzeros n 2 [p, q] rfl (lt2 hp hq)]; rfl
  · intro p q hp hq
    rw [tget_tzeros n 2 [p, q] rfl (lt2 hp hq)]
    simp [antiF, Dict.getD, Dict.get?, conj_zero']

theorem conj_conj' (x : GQ) : GQ.conj (GQ.conj x) = x := by apply GQ.ext <;> simp [GQ.conj]
theorem conj_neg' (x : GQ) : GQ.conj (-x) = -(GQ.conj x) := by apply GQ.ext <;> simp [GQ.conj]

theorem antiF_exact (no : Op)
    (hex : ∀ p q, Dict.getD no (k00 p q) 0 = -(GQ.conj (Dict.getD no (k11 p q) 0))) (p q : Nat) :
    antiF no p q = Dict.getD no (k11 p q) 0 - Dict.getD no (k11 q p) 0 := by
  unfold antiF
  rw [hex p q, hex q p, conj_neg', conj_neg', conj_conj', conj_conj']
  have h1 := half_add_half (Dict.getD no (k11 p q) 0)
  have h2 := half_add_half (Dict.getD no (k11 q p) 0)
  linear_combination h1 - h2

theorem evK2_eq (n : Nat) (w : Term → GQ) (key : Key) (hk : key.length = 2) (T : Tensor) (hT : Shaped n 2 T)
    (E : Nat → Nat → GQ) (hE : ∀ p q, p < n → q < n → tget [p, q] T = some (E p q)) :
    evK w key T = sumN n (fun p => sumN n (fun q => E p q * w ([p, q].zip key))) := by
  rw [evK, hk, evalT_eq_lsum n 2 _ T hT, lsum_indices2]
  apply sumN_congr; intro p hp
  apply sumN_congr; intro q hq
  rw [hE p q hp hq]; rfl

/-! ### the denotation of the result -/

theorem neg_half_conj (x y : GQ) :
    (⟨-1/2, 0⟩ : GQ) * GQ.conj (x - y) = half * (-(GQ.conj x) - -(GQ.conj y)) := by
  apply GQ.ext <;> simp [half, GQ.conj] <;> ring

/-- **the scatter loop of `get_quadratic_hamiltonian` followed by the `QuadraticHamiltonian`
constructor** on a normal-ordered dictionary whose pairing terms come in exact conjugate pairs, for
every weight on words that is antisymmetric on `a†_p a†_q` and on `a_p a_q` -/
theorem qh_denote (tol : Rat) (n : Nat) (no : Op) (c : GQ) (comb anti : Tensor) (mu : GQ)
    (h : qhScatter tol false n no = .ok (c, comb, anti))
    (hnd : (no.map Prod.fst).Nodup) (hsm : ∀ e ∈ no, GQ.isSmall tol e.2 = false)
    (hn : ∀ e ∈ no, ∀ f ∈ e.1, f.1 < n) (hv : ∀ e ∈ no, ∀ f ∈ e.1, f.2 < 2)
    (hno : ∀ e ∈ no, Spec.C02.NormalOrderedF e.1)
    (hex : ∀ p q, Dict.getD no (k00 p q) 0 = -(GQ.conj (Dict.getD no (k11 p q) 0)))
    (w : Term → GQ) (W11 : ∀ p q, w (k11 q p) = -(w (k11 p q))) (W00 : ∀ p q, w (k00 q p) = -(w (k00 p q))) :
    evalW w (denotePT (if maxSmall tol n 2 anti then mkQH n (addDiag n mu comb) none c mu
      else mkQH n (addDiag n mu comb) (some anti) c mu).d) = evalW w no := by
  obtain ⟨hinv, hadm⟩ := qh_fold tol n no no [] _ _ h (by simpa using hnd) hsm hn hv hno (invQ_init n)
  rw [List.nil_append] at hinv
  obtain ⟨sh1, sh2, hconst, hherm, hanti⟩ := hinv
  simp only at sh1 sh2 hconst hherm hanti
  -- the antisymmetric part
  have hA : ∀ p q, p < n → q < n → tget [p, q] anti
      = some (Dict.getD no (k11 p q) 0 - Dict.getD no (k11 q p) 0) := by
    intro p q hp hq; rw [hanti p q hp hq, antiF_exact no hex]
  -- the combined one-body part handed to the PolynomialTensor
  have hrange : ∀ i ∈ List.range n, i < n := fun i hi => List.mem_range.mp hi
  obtain ⟨shH, hH⟩ := addDiag_entries n mu (fun p q => Dict.getD no (k10 p q) 0) (List.range n) comb
    List.nodup_range hrange sh1 (fun p q hp hq => by rw [hherm p q hp hq]; simp)
  have hcomb : ∀ (T : Tensor), T = (if mu = 0 then addDiag n mu comb else addDiag n (-mu) (addDiag n mu comb)) →
      Shaped n 2 T ∧ ∀ p q, p < n → q < n → tget [p, q] T = some (Dict.getD no (k10 p q) 0) := by
    intro T hT
    by_cases hmu : mu = 0
    · rw [if_pos hmu] at hT
      subst hT
      refine ⟨shH, fun p q hp hq => ?_⟩
      have := hH p q hp hq
      unfold addDiag
      rw [this, hmu]; simp
    · rw [if_neg hmu] at hT
      subst hT
      obtain ⟨sh', h'⟩ := addDiag_entries n (-mu)
        (fun p q => Dict.getD no (k10 p q) 0 + if p = q ∧ p ∈ List.range n then mu else 0) (List.range n)
        (addDiag n mu comb) List.nodup_range hrange shH (fun p q hp hq => by
          have := hH p q hp hq
          unfold addDiag
          rw [this]; simp)
      refine ⟨sh', fun p q hp hq => ?_⟩
      have := h' p q hp hq
      unfold addDiag at this ⊢
      rw [this]
      congr 1
      have hin : p ∈ List.range n := List.mem_range.mpr hp
      by_cases hpq : p = q
      · subst hpq; simp only [hin, and_self, if_true]; ring
      · simp only [hpq, false_and, if_false]; ring
  -- the right-hand side over the admissible words
  rw [evalW_eq_lsum w no, ← lsum_getD_cover w (admKeysQ n) (admKeysQ_nodup n) no hnd
    (fun e he => admQ_mem n e.1 (hadm e he))]
  unfold admKeysQ
  simp only [lsum, lsum_append, lsum_map]
  rw [lsum_indices2, lsum_indices2, lsum_indices2]
  have k1 : ∀ p q, [p, q].zip [1, 0] = k10 p q := fun _ _ => rfl
  have k2 : ∀ p q, [p, q].zip [1, 1] = k11 p q := fun _ _ => rfl
  have k3 : ∀ p q, [p, q].zip [0, 0] = k00 p q := fun _ _ => rfl
  simp only [k1, k2, k3]
  have hk0 : evK w [] (.s c) = c * w [] := by simp [evK, evalT]
  by_cases hms : maxSmall tol n 2 anti = true
  · -- no pairing term survives: there is none
    rw [if_pos hms]
    have hzero : ∀ p q, p < n → q < n → Dict.getD no (k11 p q) 0 = 0 := by
      intro p q hp hq
      by_contra hne
      have hm : (k11 p q, Dict.getD no (k11 p q) 0) ∈ no := (getD_cases no (k11 p q)).resolve_left hne
      have hok := (List.pairwise_cons.mp (hno _ hm)).1 (q, 1) (by simp [k11])
      have hqp : q < p := hok.2 rfl
      have hz : Dict.getD no (k11 q p) 0 = 0 := by
        by_contra hne'
        have hm' : (k11 q p, Dict.getD no (k11 q p) 0) ∈ no := (getD_cases no (k11 q p)).resolve_left hne'
        have hok' := (List.pairwise_cons.mp (hno _ hm')).1 (p, 1) (by simp [k11])
        have : p < q := hok'.2 rfl
        omega
      have hsmall : GQ.isSmall tol ((tget [p, q] anti).getD 0) = true := by
        unfold maxSmall at hms
        exact List.all_eq_true.mp hms [p, q] (mem_indices_of n 2 [p, q] rfl (lt2 hp hq))
      rw [hA p q hp hq, hz] at hsmall
      have := hsm _ hm
      simp only [Option.getD_some, sub_zero] at hsmall
      rw [hsmall] at this
      cases this
    have hzero0 : ∀ p q, p < n → q < n → Dict.getD no (k00 p q) 0 = 0 := by
      intro p q hp hq; rw [hex p q, hzero p q hp hq, conj_zero']; simp
    have hd : (mkQH n (addDiag n mu comb) none c mu).d
        = [([], .s c), ([1, 0], if mu = 0 then addDiag n mu comb else addDiag n (-mu) (addDiag n mu comb))] := rfl
    obtain ⟨shC, hC⟩ := hcomb _ rfl
    rw [evalW_denotePT, hd]
    simp only [evD, add_zero]
    rw [hk0, evK2_eq n w [1, 0] rfl _ shC _ hC, ← hconst]
    simp only [k1]
    have zz : ∀ (F : Nat → Nat → GQ), (∀ p q, p < n → q < n → F p q = 0) →
        sumN n (fun p => sumN n (fun q => F p q)) = 0 := by
      intro F hF
      have e1 : sumN n (fun p => sumN n (fun q => F p q)) = sumN n (fun _ => 0) := by
        apply sumN_congr; intro p hp
        have e2 : sumN n (fun q => F p q) = sumN n (fun _ => 0) := by
          apply sumN_congr; intro q hq; exact hF p q hp hq
        rw [e2, sumN_zero]
      rw [e1, sumN_zero]
    have z1 := zz (fun p q => Dict.getD no (k11 p q) 0 * w (k11 p q))
      (fun p q hp hq => by rw [hzero p q hp hq]; ring)
    have z2 := zz (fun p q => Dict.getD no (k00 p q) 0 * w (k00 p q))
      (fun p q hp hq => by rw [hzero0 p q hp hq]; ring)
    rw [z1, z2]; ring
  · rw [if_neg hms]
    have hd : (mkQH n (addDiag n mu comb) (some anti) c mu).d
        = [([], .s c), ([1, 0], if mu = 0 then addDiag n mu comb else addDiag n (-mu) (addDiag n mu comb)),
            ([1, 1], tmap (fun x => ⟨1/2, 0⟩ * x) 2 anti),
            ([0, 0], tmap (fun x => ⟨-1/2, 0⟩ * GQ.conj x) 2 anti)] := rfl
    obtain ⟨shC, hC⟩ := hcomb _ rfl
    have e11 : ∀ p q, p < n → q < n → tget [p, q] (tmap (fun x => (⟨1/2, 0⟩ : GQ) * x) 2 anti)
        = some (half * (Dict.getD no (k11 p q) 0 - Dict.getD no (k11 q p) 0)) := by
      intro p q hp hq
      rw [tget_tmap _ n 2 anti [p, q] sh2 rfl, hA p q hp hq]; rfl
    have e00 : ∀ p q, p < n → q < n → tget [p, q] (tmap (fun x => (⟨-1/2, 0⟩ : GQ) * GQ.conj x) 2 anti)
        = some (half * (Dict.getD no (k00 p q) 0 - Dict.getD no (k00 q p) 0)) := by
      intro p q hp hq
      rw [tget_tmap _ n 2 anti [p, q] sh2 rfl, hA p q hp hq, hex p q, hex q p]
      simp only [Option.map_some]
      rw [neg_half_conj]
    rw [evalW_denotePT, hd]
    simp only [evD, add_zero]
    rw [hk0, evK2_eq n w [1, 0] rfl _ shC _ hC,
      evK2_eq n w [1, 1] rfl _ (Shaped_tmap _ n 2 anti sh2) _ e11,
      evK2_eq n w [0, 0] rfl _ (Shaped_tmap _ n 2 anti sh2) _ e00, ← hconst]
    simp only [k1, k2, k3]
    rw [antisym_sum n (fun p q => Dict.getD no (k11 p q) 0) (fun p q => w (k11 p q)) W11,
      antisym_sum n (fun p q => Dict.getD no (k00 p q) 0) (fun p q => w (k00 p q)) W00]

/-! ### the relations on the Fock-space Spec, and the composition with `normal_ordered` -/

theorem ring_anticomm {R : Type} [Ring R] (x y : R) (h : x * y + y * x = 0) : x * y = -(y * x) :=
  eq_neg_of_add_eq_zero_left h

theorem ring_sq_zero {R : Type} [Ring R] (x : R) (h : x * x = 0) : x * x = -(x * x) := by
  rw [h, neg_zero]

open Proofs.C03 in
theorem termMel_pair_antisym (t s a : Nat) (ha : a < 2) (p q : Nat) :
    termMel [(q, a), (p, a)] t s = -(termMel [(p, a), (q, a)] t s) := by
  have v : ∀ (x y : Nat × Nat), x.2 < 2 → y.2 < 2 → ∀ f ∈ [x, y], f.2 < 2 := by
    intro x y hx hy f hf
    simp at hf; rcases hf with rfl | rfl <;> assumption
  rw [termMel_eq_fock _ (v _ _ ha ha), termMel_eq_fock _ (v _ _ ha ha)]
  have hg : fockInterp.g = gF := rfl
  have hE : fockInterp.evalT [(q, a), (p, a)] = -(fockInterp.evalT [(p, a), (q, a)]) := by
    simp only [Interp.evalT, List.map_cons, List.map_nil, List.prod_cons, List.prod_nil, mul_one, hg]
    by_cases hpq : p = q
    · subst hpq
      exact ring_sq_zero _ (fock_car_sq (p, a) (p, a) rfl rfl)
    · exact ring_anticomm _ _ (fock_car_same (p, a) (q, a) rfl hpq)
  rw [hE]
  simp

theorem qhExact_hex (tol : Rat) (A : Op) (h : qhExact tol A = true) (p q : Nat) :
    Dict.getD (normalOrdered tol A) (k00 p q) 0 = -(GQ.conj (Dict.getD (normalOrdered tol A) (k11 p q) 0)) := by
  unfold qhExact at h
  have hall := List.all_eq_true.mp h
  rcases getD_cases (normalOrdered tol A) (k11 p q) with h0 | hm
  · rcases getD_cases (normalOrdered tol A) (k00 p q) with h0' | hm'
    · rw [h0, h0', conj_zero']; simp
    · have := hall _ hm'
      simp only [k00, k11] at this h0 ⊢
      have e : Dict.getD (normalOrdered tol A) [(p, 1), (q, 1)] 0
          = -(GQ.conj (Dict.getD (normalOrdered tol A) [(p, 0), (q, 0)] 0)) := by simpa using this
      rw [h0] at e ⊢
      have e2 : GQ.conj (Dict.getD (normalOrdered tol A) [(p, 0), (q, 0)] 0) = 0 := by
        have := congrArg (fun x => -x) e
        simpa using this.symm
      have := congrArg GQ.conj e2
      rw [conj_conj', conj_zero'] at this
      rw [this, conj_zero']; simp
  · have := hall _ hm
    simp only [k00, k11] at this ⊢
    simpa using this

/-- **`get_quadratic_hamiltonian` is sound** (lattice inputs, exact conjugate pairs) -/
theorem getQH_sound (D : Nat) (hD : 0 < D) (tol : Rat) (h0 : 0 ≤ tol) (h1 : tol * D ≤ 1) (A : Op) (mu : GQ)
    (n? : Option Nat) (P : PT) (hv : ∀ e ∈ A, ∀ f ∈ e.1, f.2 < 2) (la : ∀ e ∈ A, Proofs.C03.Lat D e.2)
    (h : getQuadraticHamiltonian tol A mu n? false = .ok P) (hex : qhExact tol A = true) (t s : Nat) :
    melF (denotePT P.d) t s = melF A t s := by
  unfold getQuadraticHamiltonian at h
  cases hr : resolveN A n? with
  | error e => simp [hr, bind, Except.bind] at h
  | ok n =>
    cases hsc : qhScatter tol false n (normalOrdered tol A) with
    | error e => simp [hr, hsc, bind, Except.bind] at h
    | ok r =>
      simp only [hr, hsc, bind, Except.bind] at h
      split at h
      · cases h
      · obtain ⟨c, comb, anti⟩ := r
        have hge := resolveN_ge A n? n hr
        have hidx : ∀ e ∈ normalOrdered tol A, ∀ f ∈ e.1, f.1 < n := by
          have := Proofs.C03.normalOrdered_valid (tol := tol) (k := .fermion) (Q := fun f => f.1 < n)
            (fun t ht => ht) A (fun e he f hf => by
              have := countQubits_bound A e he f hf; omega)
          exact this
        obtain ⟨wf, hval, hno⟩ := Proofs.C03.normalOrdered_fermion_wellformed tol A hv
        have key := qh_denote tol n _ c comb anti mu hsc wf (normalOrdered_noSmall tol A) hidx hval hno
          (qhExact_hex tol A hex) (fun τ => termMel τ t s)
          (fun p q => termMel_pair_antisym t s 1 (by omega) p q)
          (fun p q => termMel_pair_antisym t s 0 (by omega) p q)
        have hP : P = (if maxSmall tol n 2 anti then mkQH n (addDiag n mu comb) none c mu
            else mkQH n (addDiag n mu comb) (some anti) c mu) := by
          simp only at h
          split at h
          · rename_i hms
            simp only [Except.ok.injEq] at h
            rw [if_pos hms]; exact h.symm
          · rename_i hms
            simp only [Except.ok.injEq] at h
            rw [if_neg hms]; exact h.symm
        rw [melF_eq_evalW, hP, key, ← melF_eq_evalW]
        exact normalOrdered_melF D hD tol h0 h1 A hv la t s

end C08P
end OFV
