/-
`jordan_wigner_dual_basis_hamiltonian` (jellium + external potential of nuclei, direct qubit form) has the matrix
elements of `plane_wave_hamiltonian(plane_wave=False)` with the same geometry.
-/
import OFV.Proofs.C04JFinal
import OFV.Proofs.C04Iop2

set_option linter.unusedSimpArgs false
set_option linter.unusedVariables false

namespace OFV
namespace Jel
open Model Model.C04J Spec Sem

/-- sums over (grid point, spin) are sums over orbitals -/
theorem orb_enum (l : List Nat) (sl : Bool) (G : List Nat → Nat → GQ) :
    ((allPoints l).map fun x => ((spins sl).map fun σ => G x (orbitalId l x σ)).sum).sum
      = ((List.range (nqOf l sl)).map fun p => G (gridIndices l p sl) p).sum := by
  rw [sum_points]
  cases sl with
  | true =>
    simp only [nqOf, if_true, spins, List.map_cons, List.map_nil, List.sum_cons, List.sum_nil, add_zero, orbitalId,
      tensorFactor_eq, gridIndices_eq]
    congr 1; apply List.map_congr_left; intro t ht
    rw [List.mem_range] at ht
    rw [tf_gi l t ht]
  | false =>
    simp only [nqOf, Bool.false_eq_true, if_false, spins, List.map_cons, List.map_nil, List.sum_cons, List.sum_nil,
      add_zero, orbitalId, tensorFactor_eq, gridIndices_eq]
    rw [sum_double]
    congr 1; apply List.map_congr_left; intro t ht
    rw [List.mem_range] at ht
    have g1 : (2 * t + 1) / 2 = t := by omega
    have g3 : 2 * t / 2 = t := by omega
    rw [tf_gi l t ht, g1, g3, Nat.mul_comm t 2]

theorem sum_neg_map (L : List GQ) : (L.map fun v => -v).sum = -L.sum := by
  induction L with
  | nil => simp
  | cons t b ih => simp only [List.map_cons, List.sum_cons, ih]; ring

theorem den_isub (tol : Rat) (a b : Model.Op) (s x : St)
    (h : C04.iaddOk tol a (b.map fun tc => (tc.1, -tc.2)) = true) :
    den .qubit (isub tol a b) s x = den .qubit a s x - den .qubit b s x := by
  rw [isub_eq_iadd, den_iadd .qubit tol _ _ _ _ h]
  have : den .qubit (b.map fun tc => (tc.1, -tc.2)) s x = -den .qubit b s x := by
    rw [den_eq_sum, den_eq_sum, List.map_map]
    have e := sum_neg_map (b.map fun tc => tc.2 * termCoef .qubit tc.1 s x)
    rw [← e, List.map_map]
    congr 1; apply List.map_congr_left; intro tc _
    simp only [Function.comp]; ring
  rw [this]; ring

/-- `Q((), c) - Q(Z_p, c) = 2 c n_p` -/
theorem extPair_den (tol : Rat) (p : Nat) (c : GQ) (m x : Nat)
    (h : C04.iaddOk tol (mk .qubit [] c) ((mk .qubit [(p, 3)] c).map fun tc => (tc.1, -tc.2)) = true) :
    den .qubit (extPair tol p c) [m] [x] = (⟨2, 0⟩ : GQ) * c * termCoef .fermion [(p, 1), (p, 0)] [m] [x] := by
  unfold extPair
  rw [den_isub tol _ _ _ _ h, den_mk _ valid_nil, den_mk _ (valid_z p), tC_nil, tC_z, n_fermion]
  by_cases hx : m = x
  · cases m.testBit p <;> simp [hx] <;> (apply GQ.ext <;> simp <;> ring)
  · simp [hx]

/-- the external potential as a sum over momenta, nuclei and orbitals -/
def extSum (l : List Nat) (sl : Bool) (nNuc : Nat) (skipK : List Nat → Bool) (ext : List Nat → List Nat → Nat → GQ)
    (m y : Nat) : GQ :=
  ((allPoints l).map fun k => if skipK k then 0 else
    ((List.range (nqOf l sl)).map fun p => ((List.range nNuc).map fun j =>
      (⟨2, 0⟩ : GQ) * ext k (gridIndices l p sl) j * termCoef .fermion [(p, 1), (p, 0)] [m] [y]).sum).sum).sum

theorem extDirect_den (tol : Rat) (l : List Nat) (sl : Bool) (nNuc : Nat) (skipK : List Nat → Bool)
    (ext : List Nat → List Nat → Nat → GQ) (m y : Nat)
    (hp : ((allPoints l).all fun k => skipK k || (List.range (nqOf l sl)).all fun p => (List.range nNuc).all fun j =>
      C04.iaddOk tol (mk .qubit [] (ext k (gridIndices l p sl) j))
        ((mk .qubit [(p, 3)] (ext k (gridIndices l p sl) j)).map fun tc => (tc.1, -tc.2))) = true) :
    ((extDirectImgs tol l sl nNuc skipK ext).map fun img => den .qubit img [m] [y]).sum = extSum l sl nNuc skipK ext m y := by
  unfold extDirectImgs extSum
  have hnq : (if sl = true then prodL l else 2 * prodL l) = nqOf l sl := rfl
  simp only [hnq]
  rw [sum_flatMap]
  congr 1; apply List.map_congr_left; intro k hk
  have hk' := (List.all_eq_true.1 hp) k hk
  by_cases hs : skipK k = true
  · simp [hs]
  · simp only [hs, Bool.false_or, Bool.false_eq_true, if_false] at hk' ⊢
    rw [sum_flatMap]
    congr 1; apply List.map_congr_left; intro p hpp
    rw [List.map_map]
    congr 1; apply List.map_congr_left; intro j hj
    have := (List.all_eq_true.1 ((List.all_eq_true.1 hk') p hpp)) j hj
    simp only [Function.comp]
    exact extPair_den tol p _ m y this

theorem extModel_sum (l : List Nat) (sl : Bool) (nNuc : Nat) (skipK : List Nat → Bool)
    (ext : List Nat → List Nat → Nat → GQ) (m y : Nat) :
    ((extModelImgs l sl nNuc skipK ext).map fun img => den .fermion img [m] [y]).sum = extSum l sl nNuc skipK ext m y := by
  unfold extModelImgs extSum
  -- Σ_x Σ_j Σ_k Σ_σ  →  Σ_k Σ_j Σ_x Σ_σ  →  Σ_k Σ_j Σ_p  →  Σ_k Σ_p Σ_j
  have e1 : (((allPoints l).flatMap fun x => (List.range nNuc).flatMap fun j => (allPoints l).flatMap fun k =>
        if skipK k then [] else (spins sl).map fun σ =>
          mk .fermion [(orbitalId l x σ, 1), (orbitalId l x σ, 0)] (⟨2, 0⟩ * ext k x j)).map
        fun img => den .fermion img [m] [y]).sum
      = ((allPoints l).map fun x => ((List.range nNuc).map fun j => ((allPoints l).map fun k =>
          if skipK k then 0 else ((spins sl).map fun σ => (⟨2, 0⟩ : GQ) * ext k x j *
            termCoef .fermion [(orbitalId l x σ, 1), (orbitalId l x σ, 0)] [m] [y]).sum).sum).sum).sum := by
    rw [sum_flatMap]
    congr 1; apply List.map_congr_left; intro x _
    rw [sum_flatMap]
    congr 1; apply List.map_congr_left; intro j _
    rw [sum_flatMap]
    congr 1; apply List.map_congr_left; intro k _
    by_cases hs : skipK k = true
    · simp [hs]
    · simp only [hs, Bool.false_eq_true, if_false, List.map_map]
      congr 1; apply List.map_congr_left; intro σ _
      simp only [Function.comp, den_mk_f]
  rw [e1]
  -- bring k outside
  let A : List Nat → Nat → List Nat → GQ := fun x j k =>
    if skipK k then 0 else ((spins sl).map fun σ => (⟨2, 0⟩ : GQ) * ext k x j *
      termCoef .fermion [(orbitalId l x σ, 1), (orbitalId l x σ, 0)] [m] [y]).sum
  have e2 : ((allPoints l).map fun x => ((List.range nNuc).map fun j => ((allPoints l).map fun k => A x j k).sum).sum).sum
      = ((allPoints l).map fun k => ((List.range nNuc).map fun j => ((allPoints l).map fun x => A x j k).sum).sum).sum := by
    rw [sum_swap (allPoints l) (List.range nNuc) (fun x j => ((allPoints l).map fun k => A x j k).sum)]
    rw [sum_swap (allPoints l) (List.range nNuc) (fun k j => ((allPoints l).map fun x => A x j k).sum)]
    congr 1; apply List.map_congr_left; intro j _
    exact sum_swap (allPoints l) (allPoints l) (fun x k => A x j k)
  show ((allPoints l).map fun x => ((List.range nNuc).map fun j => ((allPoints l).map fun k => A x j k).sum).sum).sum = _
  rw [e2]
  congr 1; apply List.map_congr_left; intro k _
  by_cases hs : skipK k = true
  · simp only [A, hs, if_true]
    apply sum_zero_map; intro j _
    apply sum_zero_map; intro x _; rfl
  · simp only [A, hs, Bool.false_eq_true, if_false]
    have e3 : ∀ j, ((allPoints l).map fun x => ((spins sl).map fun σ => (⟨2, 0⟩ : GQ) * ext k x j *
          termCoef .fermion [(orbitalId l x σ, 1), (orbitalId l x σ, 0)] [m] [y]).sum).sum
        = ((List.range (nqOf l sl)).map fun p => (⟨2, 0⟩ : GQ) * ext k (gridIndices l p sl) j *
            termCoef .fermion [(p, 1), (p, 0)] [m] [y]).sum :=
      fun j => orb_enum l sl (fun x o => (⟨2, 0⟩ : GQ) * ext k x j * termCoef .fermion [(o, 1), (o, 0)] [m] [y])
    simp only [e3]
    exact sum_swap (List.range nNuc) (List.range (nqOf l sl))
      (fun j p => (⟨2, 0⟩ : GQ) * ext k (gridIndices l p sl) j * termCoef .fermion [(p, 1), (p, 0)] [m] [y])

/-- **`jordan_wigner_dual_basis_hamiltonian` has the matrix elements of `plane_wave_hamiltonian(plane_wave=False)`**
(every grid, spinless or with spin, any number of nuclei), under the hypotheses of the jellium theorem -/
theorem dualBasisHam_sound (tol : Rat) (l : List Nat) (sl : Bool) (kin pot : List Nat → GQ) (nNuc : Nat)
    (skipK : List Nat → Bool) (ext : List Nat → List Nat → Nat → GQ)
    (hevenK : ∀ u v, VP l u → VP l v → kin (subIdx l u v) = kin (subIdx l v u))
    (hevenP : ∀ u v, VP l u → VP l v → pot (subIdx l u v) = pot (subIdx l v u))
    (hsum : ((allPoints l).map pot).sum = 0)
    (hokD : jwDualBasisHamOk tol l sl kin pot nNuc skipK ext = true)
    (hokM : dualBasisHamModelOk tol l sl kin pot nNuc skipK ext = true) (m y : Nat) :
    den .qubit (jwDualBasisHam tol l sl kin pot nNuc skipK ext) [m] [y]
      = den .fermion (dualBasisHamModel tol l sl kin pot nNuc skipK ext) [m] [y] := by
  unfold jwDualBasisHamOk at hokD
  simp only [Bool.and_eq_true] at hokD
  obtain ⟨⟨⟨d1, d2⟩, d3⟩, d4⟩ := hokD
  unfold dualBasisHamModelOk at hokM
  simp only [Bool.and_eq_true] at hokM
  obtain ⟨m1, m2⟩ := hokM
  have hJ := jellium_direct_eq_model tol l sl kin pot none hevenK hevenP hsum d1 m1 m y
  unfold jwDualBasisHam
  simp only
  rw [den_iadd .qubit tol _ _ _ _ d4, den_sum_ok .qubit tol _ _ _ d2, hJ,
    extDirect_den tol l sl nNuc skipK ext m y d3, ← extModel_sum l sl nNuc skipK ext m y]
  unfold dualBasisHamModel extModel
  cases himgs : extModelImgs l sl nNuc skipK ext with
  | nil => simp
  | cons first rest =>
    rw [himgs] at m2
    simp only [Bool.and_eq_true] at m2
    obtain ⟨m3, m4⟩ := m2
    simp only
    rw [den_iadd .fermion tol _ _ _ _ m4, den_fold_from .fermion tol first rest _ _ m3]
    simp only [List.map_cons, List.sum_cons]

end Jel
end OFV
