/- C18 — `group_into_tensor_product_basis_sets`: invariant of the grouping loop, for every
sequence of shuffles that lists every current basis at least once. -/
import OFV.Model.C18Qubit
import OFV.Spec.C18
import Mathlib.Data.List.Perm.Basic
import Mathlib.Algebra.Ring.Rat
import Mathlib.Tactic.NormNum
import Mathlib.Data.Rat.Defs
import Mathlib.Algebra.Order.Field.Rat

namespace OFV.Proofs.C18Tpb
open OFV OFV.Model OFV.Model.C18 OFV.Spec.C18 List

/-! ### dictionary lemmas -/
section
variable {κ α : Type} [DecidableEq κ]

theorem set_of_not_mem (d : List (κ × α)) (k : κ) (v : α) (h : k ∉ Dict.keys d) :
    Dict.set d k v = d ++ [(k, v)] := by
  induction d with
  | nil => rfl
  | cons x r ih =>
    obtain ⟨k', v'⟩ := x
    have h1 : k' ≠ k := fun e => h (by simp [Dict.keys, e])
    have h2 : k ∉ Dict.keys r := fun e => h (by simp [Dict.keys] at e ⊢; exact Or.inr e)
    simp [Dict.set, h1, ih h2]

theorem get?_of_not_mem (d : List (κ × α)) (k : κ) (h : k ∉ Dict.keys d) : Dict.get? d k = none := by
  induction d with
  | nil => rfl
  | cons x r ih =>
    obtain ⟨k', v'⟩ := x
    have h1 : k' ≠ k := fun e => h (by simp [Dict.keys, e])
    have h2 : k ∉ Dict.keys r := fun e => h (by simp [Dict.keys] at e ⊢; exact Or.inr e)
    simp [Dict.get?, h1, ih h2]

theorem erase_of_not_mem (d : List (κ × α)) (k : κ) (h : k ∉ Dict.keys d) : Dict.erase d k = d := by
  induction d with
  | nil => rfl
  | cons x r ih =>
    obtain ⟨k', v'⟩ := x
    have h1 : k' ≠ k := fun e => h (by simp [Dict.keys, e])
    have h2 : k ∉ Dict.keys r := fun e => h (by simp [Dict.keys] at e ⊢; exact Or.inr e)
    simp [Dict.erase, h1, ih h2]

theorem get?_of_mem (d : List (κ × α)) (k : κ) (v : α) (hnd : (Dict.keys d).Nodup) (h : (k, v) ∈ d) :
    Dict.get? d k = some v := by
  induction d with
  | nil => simp at h
  | cons x r ih =>
    obtain ⟨k', v'⟩ := x
    have hnd' : k' ∉ Dict.keys r ∧ (Dict.keys r).Nodup := by simpa [Dict.keys] using hnd
    rcases mem_cons.mp h with e | e
    · injection e with e1 e2; subst e1 e2; simp [Dict.get?]
    · have hk : k' ≠ k := by
        intro e'; subst e'
        exact hnd'.1 (by simp only [Dict.keys, mem_map]; exact ⟨(k', v), e, rfl⟩)
      simp [Dict.get?, hk, ih hnd'.2 e]

theorem erase_perm (d : List (κ × α)) (k : κ) (v : α) (hnd : (Dict.keys d).Nodup) (h : (k, v) ∈ d) :
    d.Perm ((k, v) :: Dict.erase d k) ∧ k ∉ Dict.keys (Dict.erase d k) ∧
      ∀ x ∈ Dict.erase d k, x ∈ d := by
  induction d with
  | nil => simp at h
  | cons x r ih =>
    obtain ⟨k', v'⟩ := x
    have hnd' : k' ∉ Dict.keys r ∧ (Dict.keys r).Nodup := by simpa [Dict.keys] using hnd
    rcases mem_cons.mp h with e | e
    · injection e with e1 e2; subst e1 e2
      simp only [Dict.erase, if_true]
      exact ⟨Perm.refl _, hnd'.1, fun x hx => mem_cons_of_mem _ hx⟩
    · have hk : k' ≠ k := by
        intro e'; subst e'
        exact hnd'.1 (by simp only [Dict.keys, mem_map]; exact ⟨(k', v), e, rfl⟩)
      obtain ⟨p, q, s⟩ := ih hnd'.2 e
      simp only [Dict.erase, hk, if_false]
      refine ⟨(p.cons _).trans (Perm.swap _ _ _), ?_, ?_⟩
      · simp only [Dict.keys, map_cons, mem_cons, not_or]
        exact ⟨Ne.symm hk, q⟩
      · intro x hx
        rcases mem_cons.mp hx with rfl | hx
        · simp
        · exact mem_cons_of_mem _ (s x hx)

end

/-! ### sorting and simplification of canonical terms -/

theorem insertF_perm (f : Factor) (l : Term) : (insertF f l).Perm (f :: l) := by
  induction l with
  | nil => exact Perm.refl _
  | cons g r ih =>
    unfold insertF
    split
    · exact Perm.refl _
    · exact (ih.cons g).trans (Perm.swap _ _ _)

theorem sortF_perm (t : Term) : (sortF t).Perm t := by
  induction t with
  | nil => exact Perm.refl _
  | cons f r ih => exact (insertF_perm f (sortF r)).trans (ih.cons f)

theorem insertF_sorted (f : Factor) (l : Term) (h : l.Pairwise (fun a b => a.1 ≤ b.1)) :
    (insertF f l).Pairwise (fun a b => a.1 ≤ b.1) := by
  induction l with
  | nil => simp [insertF]
  | cons g r ih =>
    unfold insertF
    have hr := (pairwise_cons.mp h)
    split
    · rename_i hle
      refine pairwise_cons.mpr ⟨?_, h⟩
      intro x hx
      rcases mem_cons.mp hx with rfl | hx
      · exact hle
      · exact Nat.le_trans hle (hr.1 x hx)
    · rename_i hle
      refine pairwise_cons.mpr ⟨?_, ih hr.2⟩
      intro x hx
      have := (insertF_perm f r).subset hx
      rcases mem_cons.mp this with rfl | hx
      · omega
      · exact hr.1 x hx

theorem sortF_sorted (t : Term) : (sortF t).Pairwise (fun a b => a.1 ≤ b.1) := by
  induction t with
  | nil => simp [sortF]
  | cons f r ih => exact insertF_sorted f _ ih

theorem sortF_of_strict (t : Term) (h : t.Pairwise (fun a b => a.1 < b.1)) : sortF t = t := by
  induction t with
  | nil => rfl
  | cons f r ih =>
    have hr := pairwise_cons.mp h
    rw [sortF, ih hr.2]
    cases r with
    | nil => rfl
    | cons g r' =>
      have : f.1 ≤ g.1 := Nat.le_of_lt (hr.1 g (by simp))
      simp [insertF, this]

theorem mergeQ_of_strict (l : Factor) (rest : Term) (h : (l :: rest).Pairwise (fun a b => a.1 < b.1))
    (hact : ∀ f ∈ l :: rest, f.2 ≠ 0) : mergeQ l rest = (1, l :: rest) := by
  induction rest generalizing l with
  | nil => simp [mergeQ, hact l (by simp)]
  | cons r rest ih =>
    have hr := pairwise_cons.mp h
    have hne : l.1 ≠ r.1 := Nat.ne_of_lt (hr.1 r (by simp))
    have := ih r hr.2 (fun f hf => hact f (mem_cons_of_mem _ hf))
    simp [mergeQ, hne, this, hact l (by simp)]

theorem GQ_mul_one (c : GQ) : c * 1 = c := by
  apply GQ.ext <;> simp

theorem GQ_zero_add (c : GQ) : 0 + c = c := by
  apply GQ.ext <;> simp

/-- `QubitOperator(term, c)` of a canonical term is the one-term dictionary -/
theorem mk_canonical (t : Term) (c : GQ) (h : isBasis t = true) : mk .qubit t c = [(t, c)] := by
  simp only [isBasis, Bool.and_eq_true, all_eq_true, decide_eq_true_eq] at h
  have hs := sortF_of_strict t h.2
  have hact : ∀ f ∈ t, f.2 ≠ 0 := fun f hf => by have := (h.1 f hf).1; omega
  simp only [mk, simplify, simplifyQubit, hs]
  cases t with
  | nil => simp [GQ_mul_one]
  | cons l rest => simp [mergeQ_of_strict l rest h.2 hact, GQ_mul_one]


/-! ### conflicts between bases -/

/-- two Pauli words act with different letters on a common qubit -/
def Conflict (k1 k2 : Term) : Prop := ∃ f ∈ k1, ∃ g ∈ k2, f.1 = g.1 ∧ f ≠ g

theorem Conflict.symm {k1 k2 : Term} (h : Conflict k1 k2) : Conflict k2 k1 := by
  obtain ⟨f, hf, g, hg, e, n⟩ := h
  exact ⟨g, hg, f, hf, e.symm, Ne.symm n⟩

theorem Conflict.mono {b b' k : Term} (h : Conflict b k) (hs : ∀ f ∈ b, f ∈ b') : Conflict b' k := by
  obtain ⟨f, hf, g, hg, e, n⟩ := h
  exact ⟨f, hs f hf, g, hg, e, n⟩

theorem conflicts_iff (t b : Term) :
    conflicts t b = true ↔ ∃ f ∈ t, (∃ g ∈ b, g.1 = f.1) ∧ f ∉ b := by
  simp [conflicts]

theorem conflict_of_conflicts {t b : Term} (h : conflicts t b = true) : Conflict t b := by
  obtain ⟨f, hf, ⟨g, hg, e⟩, hn⟩ := (conflicts_iff t b).mp h
  exact ⟨f, hf, g, hg, e.symm, fun e' => hn (e' ▸ hg)⟩

theorem strict_inj {k : Term} (h : k.Pairwise (fun a b => a.1 < b.1)) :
    ∀ f ∈ k, ∀ g ∈ k, f.1 = g.1 → f = g := by
  induction k with
  | nil => simp
  | cons x r ih =>
    have hr := pairwise_cons.mp h
    intro f hf g hg e
    rcases mem_cons.mp hf with rfl | hf' <;> rcases mem_cons.mp hg with rfl | hg'
    · rfl
    · have := hr.1 g hg'; omega
    · have := hr.1 f hf'; omega
    · exact ih hr.2 f hf' g hg' e

theorem isBasis_strict {k : Term} (h : isBasis k = true) : k.Pairwise (fun a b => a.1 < b.1) := by
  simp only [isBasis, Bool.and_eq_true, decide_eq_true_eq] at h; exact h.2

theorem not_conflict_self {k : Term} (h : isBasis k = true) : ¬ Conflict k k := by
  rintro ⟨f, hf, g, hg, e, n⟩
  exact n (strict_inj (isBasis_strict h) f hf g hg e)

theorem conflicts_self (t : Term) : conflicts t t = false := by
  rw [Bool.eq_false_iff]; intro h
  obtain ⟨f, hf, _, hn⟩ := (conflicts_iff t t).mp h
  exact hn hf

/-! ### the invariant of the grouping loop -/

def nz (tc : Term × GQ) : Bool := tc.2 != 0

structure Inv (done : Op) (sub : Groups) : Prop where
  nd : (Dict.keys sub).Nodup
  basis : ∀ kg ∈ sub, isBasis kg.1 = true ∧ ∀ tc ∈ kg.2, diagonalIn kg.1 tc.1 = true
  conf : ∀ k1 ∈ Dict.keys sub, ∀ k2 ∈ Dict.keys sub, k1 ≠ k2 → Conflict k1 k2
  sum : ((sub.flatMap (·.2)).filter nz).Perm (done.filter nz)
  src : ∀ kg ∈ sub, ∀ tc ∈ kg.2, tc.1 ∈ done.map (·.1)

theorem shuffled_sub (bases : List Term) (perm : List Nat) : ∀ x ∈ shuffled bases perm, x ∈ bases := by
  intro x hx
  simp only [shuffled, mem_filterMap] at hx
  obtain ⟨i, _, hi⟩ := hx
  exact mem_of_getElem? hi

theorem shuffled_cover (bases : List Term) (perm : List Nat) (hc : ∀ i < bases.length, i ∈ perm) :
    ∀ x ∈ bases, x ∈ shuffled bases perm := by
  intro x hx
  obtain ⟨i, hi, rfl⟩ := getElem_of_mem hx
  simp only [shuffled, mem_filterMap]
  exact ⟨i, hc i hi, by simp [hi]⟩

theorem iadd_single (tol : Rat) (g : Op) (t : Term) (c : GQ) (ht : t ∉ Dict.keys g) :
    iadd tol g [(t, c)] = if GQ.isSmall tol c then g else g ++ [(t, c)] := by
  simp only [iadd, foldl_cons, foldl_nil, Dict.getD, get?_of_not_mem g t ht, Option.getD_none,
    GQ_zero_add, erase_of_not_mem g t ht, set_of_not_mem g t c ht]


theorem keys_append (d : Groups) (x : Term × Op) : Dict.keys (d ++ [x]) = Dict.keys d ++ [x.1] := by
  simp [Dict.keys]

theorem mem_keys_iff {κ α : Type} (d : List (κ × α)) (k : κ) : k ∈ Dict.keys d ↔ ∃ g, (k, g) ∈ d := by
  simp [Dict.keys]

theorem diagonalIn_self (t : Term) : diagonalIn t t = true := by
  simp [diagonalIn]

theorem diagonalIn_mono {k k' t : Term} (h : diagonalIn k t = true) (hs : ∀ f ∈ k, f ∈ k') :
    diagonalIn k' t = true := by
  simp only [diagonalIn, all_eq_true, contains_iff_mem] at h ⊢
  exact fun f hf => hs f (h f hf)

/-- the merged key `sorted(basis + additions)` is again a basis and contains `basis` and `term` -/
theorem merged_basis (t basis : Term) (ht : isBasis t = true) (hb : isBasis basis = true)
    (hcomp : conflicts t basis = false) :
    let b' := sortF (basis ++ t.filter (fun f => !basis.contains f))
    isBasis b' = true ∧ (∀ f ∈ basis, f ∈ b') ∧ (∀ f ∈ t, f ∈ b') := by
  intro b'
  have hperm : b'.Perm (basis ++ t.filter (fun f => !basis.contains f)) := sortF_perm _
  have hadds : ∀ f ∈ t.filter (fun f => !basis.contains f), f ∈ t ∧ f ∉ basis ∧ ∀ g ∈ basis, g.1 ≠ f.1 := by
    intro f hf
    simp only [mem_filter, Bool.not_eq_true', contains_eq_mem, decide_eq_false_iff_not] at hf
    refine ⟨hf.1, hf.2, ?_⟩
    intro g hg e
    have : conflicts t basis = true := (conflicts_iff t basis).mpr ⟨f, hf.1, ⟨g, hg, e⟩, hf.2⟩
    rw [hcomp] at this; cases this
  have hsub1 : ∀ f ∈ basis, f ∈ b' := fun f hf => hperm.symm.subset (mem_append_left _ hf)
  have hsub2 : ∀ f ∈ t, f ∈ b' := by
    intro f hf
    by_cases hm : f ∈ basis
    · exact hsub1 f hm
    · exact hperm.symm.subset (mem_append_right _ (by simp [mem_filter, hf, hm]))
  refine ⟨?_, hsub1, hsub2⟩
  have hts := isBasis_strict ht
  have hbs := isBasis_strict hb
  simp only [isBasis, Bool.and_eq_true, all_eq_true, decide_eq_true_eq] at ht hb ⊢
  refine ⟨?_, ?_⟩
  · intro f hf
    rcases mem_append.mp (hperm.subset hf) with h | h
    · exact hb.1 f h
    · exact ht.1 f (hadds f h).1
  · have hne : (basis ++ t.filter (fun f => !basis.contains f)).Pairwise (fun a b => a.1 ≠ b.1) := by
      refine pairwise_append.mpr ⟨hbs.imp (fun h => Nat.ne_of_lt h), ?_, ?_⟩
      · exact (hts.sublist filter_sublist).imp (fun h => Nat.ne_of_lt h)
      · intro g hg f hf; exact (hadds f hf).2.2 g hg
    have hne' : b'.Pairwise (fun a b => a.1 ≠ b.1) :=
      (hperm.pairwise_iff (fun {a b} h => Ne.symm h)).mpr hne
    exact ((sortF_sorted _).and hne').imp (fun ⟨h1, h2⟩ => Nat.lt_of_le_of_ne h1 h2)


theorem filter_nz_single (t : Term) (c : GQ) (tol : Rat) (hc : c ≠ 0 → GQ.isSmall tol c = false) :
    (if GQ.isSmall tol c then ([] : Op) else [(t, c)]).filter nz = [(t, c)].filter nz := by
  by_cases h : GQ.isSmall tol c = true
  · have : c = 0 := by
      by_contra hne; rw [hc hne] at h; cases h
    subst this; simp [h, nz]
  · simp [h]

/-- one iteration of the loop keeps the invariant -/
theorem step_inv (tol : Rat) (done : Op) (sub : Groups) (perm : List Nat) (t : Term) (c : GQ)
    (I : Inv done sub) (hcov : ∀ i < sub.length, i ∈ perm) (ht : isBasis t = true)
    (hnew : t ∉ done.map (·.1)) (hc : c ≠ 0 → GQ.isSmall tol c = false) :
    Inv (done ++ [(t, c)]) (tpbStep tol sub perm t c) := by
  have hcov' : ∀ x ∈ Dict.keys sub, x ∈ shuffled (Dict.keys sub) perm :=
    shuffled_cover _ _ (by simpa [Dict.keys] using hcov)
  unfold tpbStep
  rw [mk_canonical t c ht]
  cases hfind : findCompatibleBasis t (shuffled (Dict.keys sub) perm) with
  | none =>
    simp only
    have hall : ∀ k ∈ Dict.keys sub, conflicts t k = true := by
      intro k hk
      have := find?_eq_none.mp hfind k (hcov' k hk)
      simpa using this
    have htk : t ∉ Dict.keys sub := by
      intro hm; have := hall t hm; rw [conflicts_self] at this; cases this
    rw [set_of_not_mem sub t _ htk]
    refine ⟨?_, ?_, ?_, ?_, ?_⟩
    · rw [keys_append]
      exact nodup_append.mpr ⟨I.nd, by simp, by
        intro a ha b hb; simp at hb; subst hb; exact fun e => htk (e ▸ ha)⟩
    · intro kg hkg
      rcases mem_append.mp hkg with h | h
      · exact I.basis kg h
      · simp only [mem_singleton] at h; subst h
        refine ⟨ht, ?_⟩
        intro tc htc; simp only [mem_singleton] at htc; subst htc
        exact diagonalIn_self t
    · intro k1 h1 k2 h2 hne
      rw [keys_append] at h1 h2
      rcases mem_append.mp h1 with a1 | a1 <;> rcases mem_append.mp h2 with a2 | a2
      · exact I.conf k1 a1 k2 a2 hne
      · simp only [mem_singleton] at a2; subst a2
        exact (conflict_of_conflicts (hall k1 a1)).symm
      · simp only [mem_singleton] at a1; subst a1
        exact conflict_of_conflicts (hall k2 a2)
      · simp only [mem_singleton] at a1 a2; exact absurd (a1.trans a2.symm) hne
    · simp only [flatMap_append, flatMap_cons, flatMap_nil, append_nil, filter_append]
      exact I.sum.append (Perm.refl _)
    · intro kg hkg tc htc
      simp only [map_append, mem_append]
      rcases mem_append.mp hkg with h | h
      · exact Or.inl (I.src kg h tc htc)
      · simp only [mem_singleton] at h; subst h
        simp only [mem_singleton] at htc; subst htc
        exact Or.inr (by simp)
  | some basis =>
    simp only
    have hb1 : basis ∈ shuffled (Dict.keys sub) perm := mem_of_find?_eq_some hfind
    have hcomp : conflicts t basis = false := by
      have := find?_some hfind; simpa using this
    have hbk : basis ∈ Dict.keys sub := shuffled_sub _ _ _ hb1
    obtain ⟨g, hg⟩ := (mem_keys_iff sub basis).mp hbk
    have hget : Dict.getD sub basis [] = g := by simp [Dict.getD, get?_of_mem sub basis g I.nd hg]
    have htg : t ∉ Dict.keys g := by
      intro hm
      obtain ⟨cc, hcc⟩ := (mem_keys_iff g t).mp hm
      exact hnew (I.src _ hg _ hcc)
    rw [hget, iadd_single tol g t c htg]
    obtain ⟨hperm, hbne, hers⟩ := erase_perm sub basis g I.nd hg
    obtain ⟨hB', hsub1, hsub2⟩ := merged_basis t basis ht (I.basis _ hg).1 hcomp
    generalize sortF (basis ++ filter (fun f => !basis.contains f) t) = b' at *
    have hkeys_er : ∀ k ∈ Dict.keys (Dict.erase sub basis), k ∈ Dict.keys sub ∧ k ≠ basis := by
      intro k hk
      obtain ⟨gg, hgg⟩ := (mem_keys_iff _ k).mp hk
      exact ⟨(mem_keys_iff sub k).mpr ⟨gg, hers _ hgg⟩, fun e => hbne (e ▸ hk)⟩
    have hconfb' : ∀ k ∈ Dict.keys (Dict.erase sub basis), Conflict b' k := by
      intro k hk
      obtain ⟨h1, h2⟩ := hkeys_er k hk
      exact (I.conf basis hbk k h1 (Ne.symm h2)).mono hsub1
    have hb'k : b' ∉ Dict.keys (Dict.erase sub basis) := by
      intro hm
      exact not_conflict_self hB' (hconfb' b' hm)
    rw [set_of_not_mem _ b' _ hb'k]
    have hnd_er : (Dict.keys (Dict.erase sub basis)).Nodup := by
      have hp : (Dict.keys sub).Perm (Dict.keys ((basis, g) :: Dict.erase sub basis)) := hperm.map _
      have : (Dict.keys ((basis, g) :: Dict.erase sub basis)).Nodup := hp.nodup_iff.mp I.nd
      simpa [Dict.keys] using (nodup_cons.mp this).2
    refine ⟨?_, ?_, ?_, ?_, ?_⟩
    · rw [keys_append]
      exact nodup_append.mpr ⟨hnd_er, by simp, by
        intro a ha b hb; simp at hb; subst hb; exact fun e => hb'k (e ▸ ha)⟩
    · intro kg hkg
      rcases mem_append.mp hkg with h | h
      · exact I.basis kg (hers _ h)
      · simp only [mem_singleton] at h; subst h
        refine ⟨hB', ?_⟩
        intro tc htc
        have hold : ∀ tc ∈ g, diagonalIn b' tc.1 = true :=
          fun tc h => diagonalIn_mono ((I.basis _ hg).2 tc h) hsub1
        have hnewt : diagonalIn b' t = true := by
          simp only [diagonalIn, all_eq_true, contains_iff_mem]; exact hsub2
        by_cases hs : GQ.isSmall tol c = true
        · simp only [hs, if_true] at htc; exact hold tc htc
        · simp only [hs] at htc
          rcases mem_append.mp htc with h | h
          · exact hold tc h
          · simp only [mem_singleton] at h; subst h; exact hnewt
    · intro k1 h1 k2 h2 hne
      rw [keys_append] at h1 h2
      rcases mem_append.mp h1 with a1 | a1 <;> rcases mem_append.mp h2 with a2 | a2
      · exact I.conf k1 (hkeys_er k1 a1).1 k2 (hkeys_er k2 a2).1 hne
      · simp only [mem_singleton] at a2; subst a2
        exact (hconfb' k1 a1).symm
      · simp only [mem_singleton] at a1; subst a1
        exact hconfb' k2 a2
      · simp only [mem_singleton] at a1 a2; exact absurd (a1.trans a2.symm) hne
    · simp only [flatMap_append, flatMap_cons, flatMap_nil, append_nil, filter_append]
      have h1 : (filter nz (sub.flatMap (·.2))).Perm
          (filter nz g ++ filter nz ((Dict.erase sub basis).flatMap (·.2))) := by
        have := (hperm.flatMap_right (·.2)).filter nz
        simpa [filter_append] using this
      have h2 : filter nz (if GQ.isSmall tol c = true then g else g ++ [(t, c)]) =
          filter nz g ++ filter nz [(t, c)] := by
        have := filter_nz_single t c tol hc
        by_cases hs : GQ.isSmall tol c = true
        · rw [if_pos hs] at this ⊢; rw [← this]; simp
        · rw [if_neg hs, filter_append]
      rw [h2, ← append_assoc]
      refine Perm.append ?_ (Perm.refl _)
      exact (perm_append_comm.trans h1.symm).trans I.sum
    · intro kg hkg tc htc
      simp only [map_append, mem_append]
      rcases mem_append.mp hkg with h | h
      · exact Or.inl (I.src kg (hers _ h) tc htc)
      · simp only [mem_singleton] at h; subst h
        by_cases hs : GQ.isSmall tol c = true
        · simp only [hs, if_true] at htc; exact Or.inl (I.src _ hg tc htc)
        · simp only [hs] at htc
          rcases mem_append.mp htc with h | h
          · exact Or.inl (I.src _ hg tc h)
          · simp only [mem_singleton] at h; subst h; exact Or.inr (by simp)


/-- every shuffle lists each basis present at that step (true for genuine permutations) -/
def PermsCover (tol : Rat) : Groups → Op → List (List Nat) → Prop
  | _, [], _ => True
  | sub, (t, c) :: r, perms =>
    (∀ i < sub.length, i ∈ perms.headD []) ∧
      PermsCover tol (tpbStep tol sub (perms.headD []) t c) r perms.tail

instance decPermsCover (tol : Rat) : ∀ (sub : Groups) (op : Op) (perms : List (List Nat)),
    Decidable (PermsCover tol sub op perms)
  | _, [], _ => isTrue trivial
  | sub, (t, c) :: r, perms => by
    unfold PermsCover
    exact @instDecidableAnd _ _ _ (decPermsCover tol _ r _)

theorem groupTPBAux_inv (tol : Rat) : ∀ (op done : Op) (sub : Groups) (perms : List (List Nat)),
    Inv done sub → ((done ++ op).map (·.1)).Nodup → (∀ tc ∈ op, isBasis tc.1 = true) →
    (∀ tc ∈ op, tc.2 ≠ 0 → GQ.isSmall tol tc.2 = false) → PermsCover tol sub op perms →
    Inv (done ++ op) (groupTPBAux tol sub op perms) := by
  intro op
  induction op with
  | nil => intro done sub perms I _ _ _ _; simpa [groupTPBAux] using I
  | cons tc r ih =>
    intro done sub perms I hnd hb hc hp
    obtain ⟨t, c⟩ := tc
    simp only [groupTPBAux]
    have hnew : t ∉ done.map (·.1) := by
      intro hm
      have : ((done.map (·.1)) ++ (t :: r.map (·.1))).Nodup := by simpa using hnd
      exact (nodup_append.mp this).2.2 _ hm t (by simp) rfl
    have I' := step_inv tol done sub (perms.headD []) t c I hp.1 (hb (t, c) (by simp)) hnew (hc (t, c) (by simp))
    have := ih (done ++ [(t, c)]) _ perms.tail I' (by simpa using hnd)
      (fun x hx => hb x (mem_cons_of_mem _ hx)) (fun x hx => hc x (mem_cons_of_mem _ hx)) hp.2
    simpa using this

theorem groupTPB_ok (tol : Rat) (op : Op) (perms : List (List Nat))
    (hnd : (op.map (·.1)).Nodup) (hb : ∀ tc ∈ op, isBasis tc.1 = true)
    (hc : ∀ tc ∈ op, tc.2 ≠ 0 → GQ.isSmall tol tc.2 = false) (hp : PermsCover tol [] op perms) :
    tpbOk op (groupTPB tol op perms) = true := by
  have I0 : Inv [] [] := ⟨by simp [Dict.keys], by simp, by simp [Dict.keys], by simp, by simp⟩
  have I := groupTPBAux_inv tol op [] [] perms I0 (by simpa using hnd) hb hc hp
  simp only [nil_append] at I
  simp only [tpbOk, groupTPB, Bool.and_eq_true, decide_eq_true_eq, all_eq_true]
  refine ⟨⟨decide_eq_true I.nd, ?_⟩, isPerm_iff.mpr I.sum⟩
  intro kg hkg
  exact ⟨(I.basis kg hkg).1, (I.basis kg hkg).2⟩


/-! ### a simple sufficient condition for `PermsCover` (used by the non-vacuity example) -/

theorem length_set_le {κ α : Type} [DecidableEq κ] (d : List (κ × α)) (k : κ) (v : α) :
    (Dict.set d k v).length ≤ d.length + 1 := by
  induction d with
  | nil => simp [Dict.set]
  | cons x r ih =>
    obtain ⟨k', v'⟩ := x
    unfold Dict.set
    split <;> simp <;> omega

theorem length_erase_le {κ α : Type} [DecidableEq κ] (d : List (κ × α)) (k : κ) :
    (Dict.erase d k).length ≤ d.length := by
  induction d with
  | nil => simp [Dict.erase]
  | cons x r ih =>
    obtain ⟨k', v'⟩ := x
    unfold Dict.erase
    split <;> simp <;> omega

theorem length_tpbStep_le (tol : Rat) (sub : Groups) (perm : List Nat) (t : Term) (c : GQ) :
    (tpbStep tol sub perm t c).length ≤ sub.length + 1 := by
  unfold tpbStep
  split
  · exact length_set_le _ _ _
  · exact le_trans (length_set_le _ _ _) (by have := length_erase_le sub ‹_›; omega)

theorem permsCover_of_full (tol : Rat) (N : Nat) : ∀ (op : Op) (sub : Groups) (perms : List (List Nat)),
    sub.length + op.length ≤ N → (∀ j < op.length, ∀ i < N, i ∈ perms.getD j []) →
    PermsCover tol sub op perms := by
  intro op
  induction op with
  | nil => intro sub perms _ _; trivial
  | cons tc r ih =>
    intro sub perms hN h
    obtain ⟨t, c⟩ := tc
    unfold PermsCover
    have h0 : ∀ i < N, i ∈ perms.headD [] := by
      intro i hi
      have := h 0 (by simp) i hi
      cases perms <;> simpa using this
    refine ⟨fun i hi => h0 i (by simp at hN; omega), ?_⟩
    apply ih
    · have := length_tpbStep_le tol sub (perms.headD []) t c
      simp only [length_cons] at hN; omega
    · intro j hj i hi
      have := h (j + 1) (by simp; omega) i hi
      cases perms with
      | nil => simp at this
      | cons p ps => simpa using this

theorem one_not_small : GQ.isSmall GQ.eqTol 1 = false := by
  have h : mkRat 1 100000000 = (1 : ℚ) / 100000000 := by
    rw [Rat.mkRat_eq_div]; norm_num
  have : ¬ (GQ.normSq 1 < GQ.eqTol * GQ.eqTol) := by
    simp only [GQ.normSq, GQ.eqTol, GQ.one_re, GQ.one_im, h]
    norm_num
  unfold GQ.isSmall
  exact decide_eq_false this

end OFV.Proofs.C18Tpb
