/- C18 — `pair_within_simultaneously`, part 4: every four labels have a co-scheduled split
(induction over the levels of `_gen_partitions`). -/
import OFV.Proofs.C18Pws3
import Mathlib.Data.List.Perm.Subperm

namespace OFV.Proofs.C18Pws
open OFV.Model.C18 OFV.Spec.C18 OFV.Proofs.C18 List

/-- some yield pairs up the four labels of `S` in two pairs -/
def CovSet (Y : List (Pairing L)) (S : List L) : Prop :=
  ∃ y ∈ Y, ∃ x1 x2 x3 x4, [x1, x2, x3, x4].Perm S ∧ PairIn y x1 x2 ∧ PairIn y x3 x4

theorem CovSet.perm {Y : List (Pairing L)} {S S' : List L} (h : CovSet Y S) (hp : S.Perm S') : CovSet Y S' := by
  obtain ⟨y, hy, x1, x2, x3, x4, hperm, h1, h2⟩ := h
  exact ⟨y, hy, x1, x2, x3, x4, hperm.trans hp, h1, h2⟩

theorem CovSet.mono {Y Y' : List (Pairing L)} {S : List L} (h : CovSet Y S) (hs : ∀ y ∈ Y, y ∈ Y') : CovSet Y' S := by
  obtain ⟨y, hy, rest⟩ := h
  exact ⟨y, hs y hy, rest⟩

theorem hasPair_of_PairIn {y : Pairing L} {a b : L} (h : PairIn y a b) : hasPair y a b = true := by
  simp only [hasPair, Bool.or_eq_true, contains_iff_mem]; exact h

theorem q1 {Y : List (Pairing L)} {y : Pairing L} {a b c d : L} (hy : y ∈ Y) (h1 : PairIn y a b) (h2 : PairIn y c d) :
    quadOk Y a b c d = true := by
  simp only [quadOk, coSched, Bool.or_eq_true, any_eq_true, Bool.and_eq_true]
  exact Or.inl (Or.inl ⟨y, hy, hasPair_of_PairIn h1, hasPair_of_PairIn h2⟩)

theorem q2 {Y : List (Pairing L)} {y : Pairing L} {a b c d : L} (hy : y ∈ Y) (h1 : PairIn y a c) (h2 : PairIn y b d) :
    quadOk Y a b c d = true := by
  simp only [quadOk, coSched, Bool.or_eq_true, any_eq_true, Bool.and_eq_true]
  exact Or.inl (Or.inr ⟨y, hy, hasPair_of_PairIn h1, hasPair_of_PairIn h2⟩)

theorem q3 {Y : List (Pairing L)} {y : Pairing L} {a b c d : L} (hy : y ∈ Y) (h1 : PairIn y a d) (h2 : PairIn y b c) :
    quadOk Y a b c d = true := by
  simp only [quadOk, coSched, Bool.or_eq_true, any_eq_true, Bool.and_eq_true]
  exact Or.inr ⟨y, hy, hasPair_of_PairIn h1, hasPair_of_PairIn h2⟩

/-- a covered set of four distinct labels satisfies the Spec predicate -/
theorem quadOk_of_CovSet {Y : List (Pairing L)} {a b c d : L} (hnd : [a, b, c, d].Nodup)
    (h : CovSet Y [a, b, c, d]) : quadOk Y a b c d = true := by
  obtain ⟨y, hy, x1, x2, x3, x4, hperm, h12, h34⟩ := h
  have hnd' : [x1, x2, x3, x4].Nodup := hperm.nodup_iff.mpr hnd
  have m1 : x1 ∈ [a, b, c, d] := hperm.subset (by simp)
  have m2 : x2 ∈ [a, b, c, d] := hperm.subset (by simp)
  have m3 : x3 ∈ [a, b, c, d] := hperm.subset (by simp)
  have m4 : x4 ∈ [a, b, c, d] := hperm.subset (by simp)
  simp only [mem_cons, not_mem_nil, or_false] at m1 m2 m3 m4
  simp only [nodup_cons, mem_cons, not_mem_nil, or_false, not_or, nodup_nil, and_true] at hnd'
  obtain ⟨⟨n12, n13, n14⟩, ⟨n23, n24⟩, n34, _⟩ := hnd'
  rcases m1 with e1 | e1 | e1 | e1 <;> rcases m2 with e2 | e2 | e2 | e2 <;>
    rcases m3 with e3 | e3 | e3 | e3 <;> rcases m4 with e4 | e4 | e4 | e4 <;>
    subst x1 <;> subst x2 <;> subst x3 <;> subst x4 <;>
    first
    | exact absurd rfl n12
    | exact absurd rfl n13
    | exact absurd rfl n14
    | exact absurd rfl n23
    | exact absurd rfl n24
    | exact absurd rfl n34
    | exact q1 hy h12 h34
    | exact q1 hy h12.symm h34
    | exact q1 hy h12 h34.symm
    | exact q1 hy h12.symm h34.symm
    | exact q1 hy h34 h12
    | exact q1 hy h34.symm h12
    | exact q1 hy h34 h12.symm
    | exact q1 hy h34.symm h12.symm
    | exact q2 hy h12 h34
    | exact q2 hy h12.symm h34
    | exact q2 hy h12 h34.symm
    | exact q2 hy h12.symm h34.symm
    | exact q2 hy h34 h12
    | exact q2 hy h34.symm h12
    | exact q2 hy h34 h12.symm
    | exact q2 hy h34.symm h12.symm
    | exact q3 hy h12 h34
    | exact q3 hy h12.symm h34
    | exact q3 hy h12 h34.symm
    | exact q3 hy h12.symm h34.symm
    | exact q3 hy h34 h12
    | exact q3 hy h34.symm h12
    | exact q3 hy h34 h12.symm
    | exact q3 hy h34.symm h12.symm


/-! ### levels -/

structure Lvl (labels : List L) (parts : List (List L)) : Prop where
  flat : parts.flatten = labels
  bal : Balanced parts

theorem Lvl.step {labels : List L} {parts : List (List L)} (h : Lvl labels parts) :
    Lvl labels (parts.flatMap halves) :=
  ⟨by rw [flatten_flatMap_halves, h.flat], balanced_step parts h.bal⟩

theorem Lvl.good {labels : List L} {parts : List (List L)} (h : Lvl labels parts) (hl : labels.Nodup)
    (hn : none ∉ labels) : ∀ p ∈ parts, p.Nodup ∧ none ∉ p := by
  intro p hp
  have hnd : parts.flatten.Nodup := by rw [h.flat]; exact hl
  exact ⟨(nodup_flatten.mp hnd).1 p hp, fun hm => hn (h.flat ▸ mem_flatten.mpr ⟨p, hp, hm⟩)⟩

theorem parts_disjoint {parts : List (List L)} (hflat : parts.flatten.Nodup) (a b : List L) (ha : a ∈ parts)
    (hb : b ∈ parts) (hab : a ≠ b) : (a ++ b).Nodup := by
  have := nodup_flatten.mp hflat
  refine nodup_append.mpr ⟨this.1 a ha, this.1 b hb, ?_⟩
  have hp := this.2
  obtain ⟨i, hi, rfl⟩ := getElem_of_mem ha
  obtain ⟨j, hj, rfl⟩ := getElem_of_mem hb
  have hij : i ≠ j := fun e => hab (by subst e; rfl)
  intro x hx y hy e
  subst e
  rcases Nat.lt_or_gt_of_ne hij with h | h
  · exact (pairwise_iff_getElem.mp hp) i j hi hj h hx hy
  · exact (pairwise_iff_getElem.mp hp) j i hj hi h hy hx

theorem half_mem_next {parts : List (List L)} {A : List L} (hA : A ∈ parts) (x : Nat) (hx : x ≤ 1) :
    half A x ∈ parts.flatMap halves := by
  rw [mem_flatMap]
  refine ⟨A, hA, ?_⟩
  rcases (show x = 0 ∨ x = 1 by omega) with rfl | rfl <;> simp [half, halves]

theorem mem_half_or {A : List L} {a : L} (h : a ∈ A) : a ∈ half A 0 ∨ a ∈ half A 1 := by
  rw [← half_append A] at h
  exact mem_append.mp h

theorem half_length0 (A : List L) : (half A 0).length = A.length / 2 := by simp [half_zero]; omega
theorem half_length1 (A : List L) : (half A 1).length = A.length - A.length / 2 := by simp [half_one]

theorem length_le_of_subset_nodup {T A : List L} (hT : T.Nodup) (hs : ∀ t ∈ T, t ∈ A) : T.length ≤ A.length :=
  (subperm_of_subset hT hs).length_le

/-- split of a list of labels of `A` by the two halves of `A` -/
theorem split_by_half (A T : List L) (hs : ∀ t ∈ T, t ∈ A) :
    T.Perm (T.filter (fun t => decide (t ∈ half A 0)) ++ T.filter (fun t => !decide (t ∈ half A 0))) ∧
    (∀ t ∈ T.filter (fun t => decide (t ∈ half A 0)), t ∈ half A 0) ∧
    (∀ t ∈ T.filter (fun t => !decide (t ∈ half A 0)), t ∈ half A 1) := by
  refine ⟨(filter_append_perm _ T).symm, ?_, ?_⟩
  · intro t ht; simpa using (mem_filter.mp ht).2
  · intro t ht
    obtain ⟨h1, h2⟩ := mem_filter.mp ht
    rcases mem_half_or (hs t h1) with h | h
    · simp [h] at h2
    · exact h


/-! ### three labels in one part, one in another -/

theorem claim31 (labels : List L) (hl : labels.Nodup) (hn : none ∉ labels) :
    ∀ (sz fuel : Nat) (parts : List (List L)) (A B : List L) (T : List L) (d : L),
      A.length ≤ sz → Lvl labels parts → lastLen parts ≤ fuel → parts.length % 2 = 0 →
      A ∈ parts → B ∈ parts → A ≠ B → T.Nodup → T.length = 3 → (∀ t ∈ T, t ∈ A) → d ∈ B →
      CovSet (chainYields fuel parts) (T ++ [d]) := by
  intro sz
  induction sz with
  | zero =>
    intro fuel parts A B T d hsz _ _ _ _ _ _ hT hT3 hTA _
    have := length_le_of_subset_nodup hT hTA
    omega
  | succ sz ih =>
    intro fuel parts A B T d hsz hlv hfuel heven hA hB hAB hT hT3 hTA hd
    have hflat : parts.flatten.Nodup := by rw [hlv.flat]; exact hl
    have hnone : none ∉ parts.flatten := by rw [hlv.flat]; exact hn
    have hgood := hlv.good hl hn
    have hA3 : 3 ≤ A.length := by have := length_le_of_subset_nodup hT hTA; omega
    have hlast3 : 3 ≤ lastLen parts := by have := (hlv.bal.2 A hA).1; omega
    have hsz2 : ∀ p ∈ parts, 2 ≤ p.length := by
      intro p hp; have := (hlv.bal.2 p hp).2; omega
    have hABnd := parts_disjoint hflat A B hA hB hAB
    have hBAnd := parts_disjoint hflat B A hB hA (Ne.symm hAB)
    have hAn : none ∉ A := (hgood A hA).2
    have hBn : none ∉ B := (hgood B hB).2
    have hB2 := hsz2 B hB
    -- where `d` lies in `B`
    obtain ⟨y0, hy0, hdy⟩ : ∃ y0, y0 ≤ 1 ∧ d ∈ half B y0 := by
      rcases mem_half_or hd with h | h
      · exact ⟨0, by omega, h⟩
      · exact ⟨1, by omega, h⟩
    have hBhalf : ∀ y, y ≤ 1 → half B y ≠ [] := by
      intro y hy e
      rcases (show y = 0 ∨ y = 1 by omega) with rfl | rfl
      · have := half_length0 B; rw [e] at this; simp at this; omega
      · have := half_length1 B; rw [e] at this; simp at this; omega
    -- the second stage of this level is active
    have hstage : ∀ y ∈ pwsStage2 parts, y ∈ chainYields fuel parts := by
      intro y hy
      apply chainYields_head
      simp only [levelYields, mem_append]
      right
      rw [if_neg (by omega)]; exact hy
    obtain ⟨hperm, hT0, hT1⟩ := split_by_half A T hTA
    obtain ⟨T0, hT0e⟩ : ∃ T0, T0 = T.filter (fun t => decide (t ∈ half A 0)) := ⟨_, rfl⟩
    obtain ⟨T1, hT1e⟩ : ∃ T1, T1 = T.filter (fun t => !decide (t ∈ half A 0)) := ⟨_, rfl⟩
    rw [← hT0e] at hperm hT0; rw [← hT1e] at hperm hT1
    have hlen : T0.length + T1.length = 3 := by rw [← hT3, hperm.length_eq, length_append]
    have hndp : (T0 ++ T1).Nodup := hperm.nodup_iff.mp hT
    -- the (2, 1) situation, for either orientation of the halves
    have split21 : ∀ (x : Nat), x ≤ 1 → ∀ p q r : L, p ∈ half A x → q ∈ half A x → p ≠ q → r ∈ half A (1 - x) →
        [p, q, r].Perm T → CovSet (chainYields fuel parts) (T ++ [d]) := by
      intro x hx p q r hp hq hpq hr hpT
      have e1 : 1 - (1 - y0) = y0 := by omega
      rcases stage2_contains parts hflat hnone hsz2 heven A B hA hB hAB with hc | hc
      · obtain ⟨g, hg, g1, g2⟩ := gpb_cover_left A B hABnd hAn hBn x (1 - y0) hx (by omega) p q r d hp hq hpq hr
          (by rw [e1]; exact hdy) (hBhalf _ (by omega))
        obtain ⟨y, hy, hsub⟩ := hc g hg
        exact ⟨y, hstage y hy, p, q, r, d, by simpa using hpT.append_right [d], g1.mono hsub, g2.mono hsub⟩
      · have hAhalf : half A x ≠ [] := ne_nil_of_mem hp
        obtain ⟨g, hg, g1, g2⟩ := gpb_cover_right B A hBAnd hBn hAn (1 - y0) x (by omega) hx p q r d hp hq hpq hr
          (by rw [e1]; exact hdy) (hBhalf _ (by omega))
        obtain ⟨y, hy, hsub⟩ := hc g hg
        exact ⟨y, hstage y hy, p, q, r, d, by simpa using hpT.append_right [d], g1.mono hsub, g2.mono hsub⟩
    -- all three labels in the same half: go down one level
    have down : ∀ (x : Nat), x ≤ 1 → (∀ t ∈ T, t ∈ half A x) → CovSet (chainYields fuel parts) (T ++ [d]) := by
      intro x hx hall
      have hA'3 : 3 ≤ (half A x).length := by have := length_le_of_subset_nodup hT hall; omega
      have hA5 : 5 ≤ A.length := by
        rcases (show x = 0 ∨ x = 1 by omega) with rfl | rfl
        · rw [half_length0] at hA'3; omega
        · rw [half_length1] at hA'3; omega
      have hlast5 : 5 ≤ lastLen parts := by have := (hlv.bal.2 A hA).1; omega
      obtain ⟨f, rfl⟩ : ∃ f, fuel = f + 1 := ⟨fuel - 1, by omega⟩
      have hlen' : (half A x).length ≤ sz := by
        rcases (show x = 0 ∨ x = 1 by omega) with rfl | rfl
        · rw [half_length0]; omega
        · rw [half_length1]; omega
      have hne' : half A x ≠ half B y0 := by
        intro e
        have hdA : d ∈ A := mem_half (e ▸ hdy)
        exact (nodup_append.mp hABnd).2.2 d hdA d hd rfl
      have := ih f (parts.flatMap halves) (half A x) (half B y0) T d hlen' hlv.step
        (by rw [lastLen_flatMap_halves parts hlv.bal.1]; omega)
        (by rw [length_flatMap_halves]; omega)
        (half_mem_next hA x hx) (half_mem_next hB y0 hy0) hne' hT hT3 hall hdy
      exact this.mono (chainYields_tail f parts (by omega))
    -- case analysis on the number of labels in the front half
    rcases (show T0.length = 0 ∨ T0.length = 1 ∨ T0.length = 2 ∨ T0.length = 3 by omega) with h | h | h | h
    · have : T0 = [] := length_eq_zero_iff.mp h
      refine down 1 (by omega) ?_
      intro t ht
      have : t ∈ T0 ++ T1 := hperm.subset ht
      simp only [‹T0 = []›, nil_append] at this
      exact hT1 t this
    · obtain ⟨r, rfl⟩ := length_eq_one_iff.mp h
      obtain ⟨p, q, rfl⟩ := length_eq_two.mp (show T1.length = 2 by omega)
      have hpq : p ≠ q := by
        have := (nodup_append.mp hndp).2.1
        simpa using this
      refine split21 1 (by omega) p q r (hT1 p (by simp)) (hT1 q (by simp)) hpq (hT0 r (by simp)) ?_
      exact (perm_append_comm (l₁ := [p, q]) (l₂ := [r])).trans hperm.symm
    · obtain ⟨p, q, rfl⟩ := length_eq_two.mp h
      obtain ⟨r, rfl⟩ := length_eq_one_iff.mp (show T1.length = 1 by omega)
      have hpq : p ≠ q := by
        have := (nodup_append.mp hndp).1
        simpa using this
      exact split21 0 (by omega) p q r (hT0 p (by simp)) (hT0 q (by simp)) hpq (hT1 r (by simp)) hperm.symm
    · have : T1 = [] := length_eq_zero_iff.mp (by omega)
      refine down 0 (by omega) ?_
      intro t ht
      have : t ∈ T0 ++ T1 := hperm.subset ht
      simp only [‹T1 = []›, append_nil] at this
      exact hT0 t this


/-! ### four labels in one part -/

theorem claimAll (labels : List L) (hl : labels.Nodup) (hn : none ∉ labels) :
    ∀ (sz fuel : Nat) (parts : List (List L)) (v : List L) (S : List L),
      v.length ≤ sz → Lvl labels parts → lastLen parts ≤ fuel → v ∈ parts →
      S.Nodup → S.length = 4 → (∀ s ∈ S, s ∈ v) →
      CovSet (chainYields (fuel - 1) (parts.flatMap halves)) S := by
  intro sz
  induction sz with
  | zero =>
    intro fuel parts v S hsz _ _ _ hS hS4 hSv
    have := length_le_of_subset_nodup hS hSv
    omega
  | succ sz ih =>
    intro fuel parts v S hsz hlv hfuel hv hS hS4 hSv
    have hgood := hlv.good hl hn
    have hv4 : 4 ≤ v.length := by have := length_le_of_subset_nodup hS hSv; omega
    have hlast4 : 4 ≤ lastLen parts := by have := (hlv.bal.2 v hv).1; omega
    have hlv' := hlv.step
    have hlast' : lastLen (parts.flatMap halves) ≤ fuel - 1 := by
      rw [lastLen_flatMap_halves parts hlv.bal.1]; omega
    have hflat' : (parts.flatMap halves).flatten.Nodup := by rw [hlv'.flat]; exact hl
    have hv0 := half_mem_next hv 0 (by omega)
    have hv1 := half_mem_next hv 1 (by omega)
    have hvnd := (hgood v hv).1
    have hvn := (hgood v hv).2
    have hne01 : half v 0 ≠ half v 1 := by
      intro e
      have h0 : 1 ≤ (half v 0).length := by rw [half_length0]; omega
      obtain ⟨x, hx⟩ := exists_mem_of_ne_nil (half v 0) (by intro e'; rw [e'] at h0; simp at h0)
      have := halves_disjoint hvnd 0 (by omega)
      exact (nodup_append.mp this).2.2 x hx x (e ▸ hx) rfl
    obtain ⟨hperm, hS0, hS1⟩ := split_by_half v S hSv
    obtain ⟨S0, hS0e⟩ : ∃ S0, S0 = S.filter (fun t => decide (t ∈ half v 0)) := ⟨_, rfl⟩
    obtain ⟨S1, hS1e⟩ : ∃ S1, S1 = S.filter (fun t => !decide (t ∈ half v 0)) := ⟨_, rfl⟩
    rw [← hS0e] at hperm hS0; rw [← hS1e] at hperm hS1
    have hlen : S0.length + S1.length = 4 := by rw [← hS4, hperm.length_eq, length_append]
    have hndp : (S0 ++ S1).Nodup := hperm.nodup_iff.mp hS
    have heven' : (parts.flatMap halves).length % 2 = 0 := by rw [length_flatMap_halves]; omega
    -- all four in the same half: recurse
    have down : ∀ (x : Nat), x ≤ 1 → (∀ t ∈ S, t ∈ half v x) →
        CovSet (chainYields (fuel - 1) (parts.flatMap halves)) S := by
      intro x hx hall
      have h4 : 4 ≤ (half v x).length := by have := length_le_of_subset_nodup hS hall; omega
      have hlen' : (half v x).length ≤ sz := by
        rcases (show x = 0 ∨ x = 1 by omega) with rfl | rfl
        · rw [half_length0]; omega
        · rw [half_length1]; omega
      have hmem := half_mem_next hv x hx
      have := ih (fuel - 1) (parts.flatMap halves) (half v x) S hlen' hlv' hlast' hmem hS hS4 hall
      have hl4 : 4 ≤ lastLen (parts.flatMap halves) := by
        have := (hlv'.bal.2 _ hmem).1; omega
      have e : fuel - 1 = (fuel - 1 - 1) + 1 := by omega
      rw [e]
      exact this.mono (chainYields_tail _ _ hl4)
    rcases (show S0.length = 0 ∨ S0.length = 1 ∨ S0.length = 2 ∨ S0.length = 3 ∨ S0.length = 4 by omega)
      with h | h | h | h | h
    · have e0 : S0 = [] := length_eq_zero_iff.mp h
      refine down 1 (by omega) ?_
      intro t ht
      have : t ∈ S0 ++ S1 := hperm.subset ht
      simp only [e0, nil_append] at this
      exact hS1 t this
    · -- one label in the front half, three in the back half
      obtain ⟨d, rfl⟩ := length_eq_one_iff.mp h
      have hT3 : S1.length = 3 := by simp at hlen; omega
      have := claim31 labels hl hn (half v 1).length (fuel - 1) (parts.flatMap halves) (half v 1) (half v 0) S1 d
        (Nat.le_refl _) hlv' hlast' heven' hv1 hv0 (Ne.symm hne01) (nodup_append.mp hndp).2.1 hT3 hS1
        (hS0 d (by simp))
      exact this.perm (perm_append_comm.trans hperm.symm)
    · -- two and two: the first stage of the next level
      obtain ⟨x, y, rfl⟩ := length_eq_two.mp h
      obtain ⟨z, w, rfl⟩ := length_eq_two.mp (show S1.length = 2 by simp at hlen; omega)
      have hxy : x ≠ y := by have := (nodup_append.mp hndp).1; simpa using this
      have hzw : z ≠ w := by have := (nodup_append.mp hndp).2.1; simpa using this
      obtain ⟨y0, hy0, hp0⟩ := pairWithin_covers (half v 0) (half_nodup hvnd 0) (fun hm => hvn (mem_half hm))
        x (hS0 x (by simp)) y (hS0 y (by simp)) hxy
      obtain ⟨y1, hy1, hp1⟩ := pairWithin_covers (half v 1) (half_nodup hvnd 1) (fun hm => hvn (mem_half hm))
        z (hS1 z (by simp)) w (hS1 w (by simp)) hzw
      obtain ⟨i, hi, rfl⟩ := getElem_of_mem hv
      obtain ⟨yy, hyy, c0, c1⟩ := stage1_cosched parts hlv.bal hgood i hi y0 y1 hy0 hy1
      refine ⟨yy, chainYields_head _ _ yy ?_, x, y, z, w, hperm.symm, PairIn.mono hp0 c0, PairIn.mono hp1 c1⟩
      simp only [levelYields, mem_append]
      exact Or.inl hyy
    · obtain ⟨d, rfl⟩ := length_eq_one_iff.mp (show S1.length = 1 by omega)
      have := claim31 labels hl hn (half v 0).length (fuel - 1) (parts.flatMap halves) (half v 0) (half v 1) S0 d
        (Nat.le_refl _) hlv' hlast' heven' hv0 hv1 hne01 (nodup_append.mp hndp).1 h hS0 (hS1 d (by simp))
      exact this.perm hperm.symm
    · have e1 : S1 = [] := length_eq_zero_iff.mp (by omega)
      refine down 0 (by omega) ?_
      intro t ht
      have : t ∈ S0 ++ S1 := hperm.subset ht
      simp only [e1, append_nil] at this
      exact hS0 t this

/-- `pair_within_simultaneously`: for every four labels at least one of their three splits into two
pairs is co-scheduled in some yield -/
theorem pws_covers (labels : List L) (hl : labels.Nodup) (hn : none ∉ labels) (a b c d : L)
    (hnd : [a, b, c, d].Nodup) (hmem : ∀ s ∈ [a, b, c, d], s ∈ labels) :
    quadOk (pairWithinSimultaneously labels) a b c d = true := by
  have h4 : 4 ≤ labels.length := by
    have := length_le_of_subset_nodup hnd hmem; simpa using this
  rw [pws_eq labels h4]
  have hlv : Lvl labels [labels] := by
    refine ⟨by simp, by simp, ?_⟩
    intro p hp; simp only [mem_singleton] at hp; subst hp; simp [lastLen]
  have := claimAll labels hl hn labels.length (labels.length + 1) [labels] labels [a, b, c, d]
    (Nat.le_refl _) hlv (by simp [lastLen]) (by simp) hnd rfl hmem
  have e : [labels].flatMap halves = halves labels := by simp
  rw [e, Nat.add_sub_cancel] at this
  exact quadOk_of_CovSet hnd this

end OFV.Proofs.C18Pws
