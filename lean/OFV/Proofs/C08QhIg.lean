/-
C08 helper lemmas: `get_quadratic_hamiltonian` for either value of `ignore_incompatible_terms`:
the result denotes the terms of `normal_ordered(A)` that are quadratic.
-/
import OFV.Proofs.C08Qh
import OFV.Proofs.C08DchIg

namespace OFV
namespace C08P
open Spec Spec.C08 Model Model.C08

theorem cover_filterQ (n : Nat) (no : Op) (hnd : (no.map Prod.fst).Nodup) (w : Term → GQ) :
    lsum (fun t => Dict.getD no t 0 * w t) (admKeysQ n)
      = evalW w (no.filter fun e => decide (e.1 ∈ admKeysQ n)) := by
  rw [evalW_eq_lsum, ← lsum_getD_cover w (admKeysQ n) (admKeysQ_nodup n)
    (no.filter fun e => decide (e.1 ∈ admKeysQ n))
    ((List.Sublist.map _ List.filter_sublist).nodup hnd)
    (fun e he => by simpa using (List.mem_filter.mp he).2)]
  apply lsum_congr
  intro K hK
  rw [getD_filter (fun t => decide (t ∈ admKeysQ n)) no K (by simpa using hK)]

theorem qhStep_spec_ig (tol : Rat) (n : Nat) (no P : Op) (st st1 : GQ × Tensor × Tensor) (t : Term) (c : GQ)
    (hs : GQ.isSmall tol c = false) (hn : ∀ f ∈ t, f.1 < n) (hv : ∀ f ∈ t, f.2 < 2)
    (hno : Spec.C02.NormalOrderedF t) (hfresh : t ∉ P.map Prod.fst) (ig : Bool) (hinv : InvQ n P st)
    (h : qhStep tol ig no st (t, c) = .ok st1) :
    InvQ n (P ++ [(t, c)]) st1 := by
  rcases t with _ | ⟨⟨p, a⟩, _ | ⟨⟨q, b⟩, _ | ⟨x, r⟩⟩⟩
  · -- the constant
    simp only [qhStep, hs, Bool.false_eq_true, if_false, Except.ok.injEq] at h
    subst h
    refine ⟨hinv.sh1, hinv.sh2, ?_, ?_, ?_⟩
    · simp only; rw [getD_snoc P _ c _ hfresh]; simp
    · intro p q hp hq
      simp only
      rw [getD_snoc P _ c _ hfresh, if_neg (by simp [k10]), hinv.herm p q hp hq]
    · intro p q hp hq
      simp only
      rw [antiF_snoc_other P [] c hfresh (by simp [k11]) (by simp [k00]), hinv.anti p q hp hq]
  · -- a term the loop skips
    cases ig with
    | false => simp [qhStep, hs] at h
    | true =>
      simp only [qhStep, hs, Bool.false_eq_true, if_false, if_true, Except.ok.injEq] at h
      subst h
      refine ⟨hinv.sh1, hinv.sh2, ?_, ?_, ?_⟩
      · rw [getD_snoc P _ c _ hfresh, if_neg (by simp), hinv.const]
      · intro p' q' hp' hq'
        rw [getD_snoc P _ c _ hfresh, if_neg (by simp [k10]), hinv.herm p' q' hp' hq']
      · intro p' q' hp' hq'
        rw [antiF_snoc_other P _ c hfresh (by simp [k11]) (by simp [k00]), hinv.anti p' q' hp' hq']
  · -- two factors
    have hp : p < n := hn (p, a) (by simp)
    have hq : q < n := hn (q, b) (by simp)
    have ha : a < 2 := hv (p, a) (by simp)
    have hb : b < 2 := hv (q, b) (by simp)
    have hok : Spec.C02.okF (p, a) (q, b) := (List.pairwise_cons.mp hno).1 (q, b) (by simp)
    simp only [qhStep, hs, Bool.false_eq_true, if_false] at h
    by_cases c10 : a = 1 ∧ b = 0
    · obtain ⟨rfl, rfl⟩ := c10
      simp only [and_self, if_true, Except.ok.injEq] at h
      subst h
      refine ⟨Shaped_tset n 2 _ _ _ hinv.sh1, hinv.sh2, ?_, ?_, ?_⟩
      · simp only; rw [getD_snoc P _ c _ hfresh, if_neg (by simp), hinv.const]
      · intro p' q' hp' hq'
        simp only
        rw [tget_tset n 2 st.2.1 [p, q] [p', q'] c hinv.sh1 rfl (lt2 hp hq) rfl, getD_snoc P _ c _ hfresh]
        by_cases e : p' = p ∧ q' = q
        · obtain ⟨rfl, rfl⟩ := e; simp [k10]
        · have e1 : ¬ ([p', q'] = [p, q]) := by intro h; simp at h; exact e h
          have e2 : ¬ (k10 p' q' = [(p, 1), (q, 0)]) := by intro h; simp [k10] at h; exact e h
          rw [if_neg e1, if_neg e2, hinv.herm p' q' hp' hq']
      · intro p' q' hp' hq'
        simp only
        rw [antiF_snoc_other P _ c hfresh (by simp [k11]) (by simp [k00]), hinv.anti p' q' hp' hq']
    · rw [if_neg c10] at h
      by_cases c11 : a = 1 ∧ b = 1
      · obtain ⟨rfl, rfl⟩ := c11
        simp only [and_self, if_true] at h
        have hqp : q < p := hok.2 rfl
        split at h
        · cases h
        · split at h
          · cases h
          · simp only [Except.ok.injEq] at h
            subst h
            obtain ⟨u1, u2⟩ := anti_update n st.2.2 (antiF P) p q (half * c) hinv.sh2 hp hq (by omega) hinv.anti
            refine ⟨hinv.sh1, u1, ?_, ?_, ?_⟩
            · simp only; rw [getD_snoc P _ c _ hfresh, if_neg (by simp), hinv.const]
            · intro p' q' hp' hq'
              simp only
              rw [getD_snoc P _ c _ hfresh, if_neg (by simp [k10]), hinv.herm p' q' hp' hq']
            · intro p' q' hp' hq'
              simp only
              rw [u2 p' q' hp' hq']
              have := antiF_snoc11 P p q c hfresh (by omega) p' q'
              simp only [k11] at this
              rw [this]
      · rw [if_neg c11] at h
        have hab : a = 0 ∧ b = 0 := by
          have h1 := hok.1
          simp only at h1
          by_cases hb0 : b = 0
          · refine ⟨?_, hb0⟩
            by_contra ha0
            exact c10 ⟨by omega, hb0⟩
          · have : a ≠ 0 := h1 hb0
            exact absurd ⟨by omega, by omega⟩ c11
        obtain ⟨rfl, rfl⟩ := hab
        have hqp : q < p := hok.2 rfl
        split at h
        · cases h
        · split at h
          · cases h
          · simp only [Except.ok.injEq] at h
            subst h
            obtain ⟨u1, u2⟩ := anti_update n st.2.2 (antiF P) p q (-(half * GQ.conj c)) hinv.sh2 hp hq (by omega)
              hinv.anti
            rw [neg_neg] at u1 u2
            refine ⟨hinv.sh1, u1, ?_, ?_, ?_⟩
            · simp only; rw [getD_snoc P _ c _ hfresh, if_neg (by simp), hinv.const]
            · intro p' q' hp' hq'
              simp only
              rw [getD_snoc P _ c _ hfresh, if_neg (by simp [k10]), hinv.herm p' q' hp' hq']
            · intro p' q' hp' hq'
              simp only
              rw [u2 p' q' hp' hq']
              have := antiF_snoc00 P p q c hfresh (by omega) p' q'
              simp only [k00] at this
              rw [this]
  · -- a term the loop skips
    cases ig with
    | false => simp [qhStep, hs] at h
    | true =>
      simp only [qhStep, hs, Bool.false_eq_true, if_false, if_true, Except.ok.injEq] at h
      subst h
      refine ⟨hinv.sh1, hinv.sh2, ?_, ?_, ?_⟩
      · rw [getD_snoc P _ c _ hfresh, if_neg (by simp), hinv.const]
      · intro p' q' hp' hq'
        rw [getD_snoc P _ c _ hfresh, if_neg (by simp [k10]), hinv.herm p' q' hp' hq']
      · intro p' q' hp' hq'
        rw [antiF_snoc_other P _ c hfresh (by simp [k11]) (by simp [k00]), hinv.anti p' q' hp' hq']

theorem qh_fold_ig (tol : Rat) (n : Nat) (no : Op) (ig : Bool) : ∀ (L P : Op) (st st' : GQ × Tensor × Tensor),
    L.foldlM (qhStep tol ig no) st = .ok st' → ((P ++ L).map Prod.fst).Nodup →
    (∀ e ∈ L, GQ.isSmall tol e.2 = false) → (∀ e ∈ L, ∀ f ∈ e.1, f.1 < n) → (∀ e ∈ L, ∀ f ∈ e.1, f.2 < 2) →
    (∀ e ∈ L, Spec.C02.NormalOrderedF e.1) → InvQ n P st →
    InvQ n (P ++ L) st' := by
  intro L
  induction L with
  | nil =>
    intro P st st' h _ _ _ _ _ hinv
    simp only [List.foldlM_nil, pure, Except.pure, Except.ok.injEq] at h
    subst h
    rw [List.append_nil]
    exact hinv
  | cons e r ih =>
    intro P st st' h hnd hsm hn hv hno hinv
    obtain ⟨t, c⟩ := e
    rw [List.foldlM_cons] at h
    cases h1 : qhStep tol ig no st (t, c) with
    | error er => simp [h1, bind, Except.bind] at h
    | ok st1 =>
      simp only [h1, bind, Except.bind] at h
      have hfresh : t ∉ P.map Prod.fst := by
        intro hm
        rw [List.map_append, List.map_cons] at hnd
        have := (List.nodup_append.mp hnd).2.2 t hm t (by simp)
        exact this rfl
      have hinv1 := qhStep_spec_ig tol n no P st st1 t c (hsm (t, c) (by simp)) (hn (t, c) (by simp))
        (hv (t, c) (by simp)) (hno (t, c) (by simp)) hfresh ig hinv h1
      have happ : P ++ (t, c) :: r = (P ++ [(t, c)]) ++ r := by simp
      rw [happ] at hnd ⊢
      exact ih (P ++ [(t, c)]) st1 st' h hnd (fun e he => hsm e (by simp [he]))
        (fun e he => hn e (by simp [he])) (fun e he => hv e (by simp [he])) (fun e he => hno e (by simp [he])) hinv1

theorem qh_denote_ig (tol : Rat) (n : Nat) (no : Op) (c : GQ) (comb anti : Tensor) (mu : GQ)
    (ig : Bool) (h : qhScatter tol ig n no = .ok (c, comb, anti))
    (hnd : (no.map Prod.fst).Nodup) (hsm : ∀ e ∈ no, GQ.isSmall tol e.2 = false)
    (hn : ∀ e ∈ no, ∀ f ∈ e.1, f.1 < n) (hv : ∀ e ∈ no, ∀ f ∈ e.1, f.2 < 2)
    (hno : ∀ e ∈ no, Spec.C02.NormalOrderedF e.1)
    (hex : ∀ p q, Dict.getD no (k00 p q) 0 = -(GQ.conj (Dict.getD no (k11 p q) 0)))
    (w : Term → GQ) (W11 : ∀ p q, w (k11 q p) = -(w (k11 p q))) (W00 : ∀ p q, w (k00 q p) = -(w (k00 p q))) :
    evalW w (denotePT (if maxSmall tol n 2 anti then mkQH n (addDiag n mu comb) none c mu
      else mkQH n (addDiag n mu comb) (some anti) c mu).d)
      = evalW w (no.filter fun e => decide (e.1 ∈ admKeysQ n)) := by
  have hinv := qh_fold_ig tol n no ig no [] _ _ h (by simpa using hnd) hsm hn hv hno (invQ_init n)
  rw [List.nil_append] at hinv
  obtain ⟨sh1, sh2, hconst, hherm, hanti⟩ := hinv
  simp only at sh1 sh2 hconst hherm hanti
  -- the antisymmetric part
  have hA : ∀ p q, p < n → q < n → tget [p, q] anti
      = some (Dict.getD no (k11 p q) 0 - Dict.getD no (k11 q p) 0) := by
    intro p q hp hq; rw [hanti p q hp hq, antiF_exact no hex]
  -- the combined one-body part handed to the PolynomialTensor
  have hrange : ∀ i ∈ List.range n, i < n := fun i hi => List.mem_range.mp hi
  obtain ⟨shH, hH⟩ := addDiag_entries n mu (fun p q => Dict.getD no (k10 p q) 0) (List.range n) comb
    List.nodup_range hrange sh1 (fun p q hp hq => by rw [hherm p q hp hq]; simp)
  have hcomb : ∀ (T : Tensor), T = (if mu = 0 then addDiag n mu comb else addDiag n (-mu) (addDiag n mu comb)) →
      Shaped n 2 T ∧ ∀ p q, p < n → q < n → tget [p, q] T = some (Dict.getD no (k10 p q) 0) := by
    intro T hT
    by_cases hmu : mu = 0
    · rw [if_pos hmu] at hT
      subst hT
      refine ⟨shH, fun p q hp hq => ?_⟩
      have := hH p q hp hq
      unfold addDiag
      rw [this, hmu]; simp
    · rw [if_neg hmu] at hT
      subst hT
      obtain ⟨sh', h'⟩ := addDiag_entries n (-mu)
        (fun p q => Dict.getD no (k10 p q) 0 + if p = q ∧ p ∈ List.range n then mu else 0) (List.range n)
        (addDiag n mu comb) List.nodup_range hrange shH (fun p q hp hq => by
          have := hH p q hp hq
          unfold addDiag
          rw [this]; simp)
      refine ⟨sh', fun p q hp hq => ?_⟩
      have := h' p q hp hq
      unfold addDiag at this ⊢
      rw [this]
      congr 1
      have hin : p ∈ List.range n := List.mem_range.mpr hp
      by_cases hpq : p = q
      · subst hpq; simp only [hin, and_self, if_true]; ring
      · simp only [hpq, false_and, if_false]; ring
  -- the right-hand side over the admissible words
  rw [← cover_filterQ n no hnd w]
  unfold admKeysQ
  simp only [lsum, lsum_append, lsum_map]
  rw [lsum_indices2, lsum_indices2, lsum_indices2]
  have k1 : ∀ p q, [p, q].zip [1, 0] = k10 p q := fun _ _ => rfl
  have k2 : ∀ p q, [p, q].zip [1, 1] = k11 p q := fun _ _ => rfl
  have k3 : ∀ p q, [p, q].zip [0, 0] = k00 p q := fun _ _ => rfl
  simp only [k1, k2, k3]
  have hk0 : evK w [] (.s c) = c * w [] := by simp [evK, evalT]
  by_cases hms : maxSmall tol n 2 anti = true
  · -- no pairing term survives: there is none
    rw [if_pos hms]
    have hzero : ∀ p q, p < n → q < n → Dict.getD no (k11 p q) 0 = 0 := by
      intro p q hp hq
      by_contra hne
      have hm : (k11 p q, Dict.getD no (k11 p q) 0) ∈ no := (getD_cases no (k11 p q)).resolve_left hne
      have hok := (List.pairwise_cons.mp (hno _ hm)).1 (q, 1) (by simp [k11])
      have hqp : q < p := hok.2 rfl
      have hz : Dict.getD no (k11 q p) 0 = 0 := by
        by_contra hne'
        have hm' : (k11 q p, Dict.getD no (k11 q p) 0) ∈ no := (getD_cases no (k11 q p)).resolve_left hne'
        have hok' := (List.pairwise_cons.mp (hno _ hm')).1 (p, 1) (by simp [k11])
        have : p < q := hok'.2 rfl
        omega
      have hsmall : GQ.isSmall tol ((tget [p, q] anti).getD 0) = true := by
        unfold maxSmall at hms
        exact List.all_eq_true.mp hms [p, q] (mem_indices_of n 2 [p, q] rfl (lt2 hp hq))
      rw [hA p q hp hq, hz] at hsmall
      have := hsm _ hm
      simp only [Option.getD_some, sub_zero] at hsmall
      rw [hsmall] at this
      cases this
    have hzero0 : ∀ p q, p < n → q < n → Dict.getD no (k00 p q) 0 = 0 := by
      intro p q hp hq; rw [hex p q, hzero p q hp hq, conj_zero']; simp
    have hd : (mkQH n (addDiag n mu comb) none c mu).d
        = [([], .s c), ([1, 0], if mu = 0 then addDiag n mu comb else addDiag n (-mu) (addDiag n mu comb))] := rfl
    obtain ⟨shC, hC⟩ := hcomb _ rfl
    rw [evalW_denotePT, hd]
    simp only [evD, add_zero]
    rw [hk0, evK2_eq n w [1, 0] rfl _ shC _ hC, ← hconst]
    simp only [k1]
    have zz : ∀ (F : Nat → Nat → GQ), (∀ p q, p < n → q < n → F p q = 0) →
        sumN n (fun p => sumN n (fun q => F p q)) = 0 := by
      intro F hF
      have e1 : sumN n (fun p => sumN n (fun q => F p q)) = sumN n (fun _ => 0) := by
        apply sumN_congr; intro p hp
        have e2 : sumN n (fun q => F p q) = sumN n (fun _ => 0) := by
          apply sumN_congr; intro q hq; exact hF p q hp hq
        rw [e2, sumN_zero]
      rw [e1, sumN_zero]
    have z1 := zz (fun p q => Dict.getD no (k11 p q) 0 * w (k11 p q))
      (fun p q hp hq => by rw [hzero p q hp hq]; ring)
    have z2 := zz (fun p q => Dict.getD no (k00 p q) 0 * w (k00 p q))
      (fun p q hp hq => by rw [hzero0 p q hp hq]; ring)
    rw [z1, z2]; ring
  · rw [if_neg hms]
    have hd : (mkQH n (addDiag n mu comb) (some anti) c mu).d
        = [([], .s c), ([1, 0], if mu = 0 then addDiag n mu comb else addDiag n (-mu) (addDiag n mu comb)),
            ([1, 1], tmap (fun x => ⟨1/2, 0⟩ * x) 2 anti),
            ([0, 0], tmap (fun x => ⟨-1/2, 0⟩ * GQ.conj x) 2 anti)] := rfl
    obtain ⟨shC, hC⟩ := hcomb _ rfl
    have e11 : ∀ p q, p < n → q < n → tget [p, q] (tmap (fun x => (⟨1/2, 0⟩ : GQ) * x) 2 anti)
        = some (half * (Dict.getD no (k11 p q) 0 - Dict.getD no (k11 q p) 0)) := by
      intro p q hp hq
      rw [tget_tmap _ n 2 anti [p, q] sh2 rfl, hA p q hp hq]; rfl
    have e00 : ∀ p q, p < n → q < n → tget [p, q] (tmap (fun x => (⟨-1/2, 0⟩ : GQ) * GQ.conj x) 2 anti)
        = some (half * (Dict.getD no (k00 p q) 0 - Dict.getD no (k00 q p) 0)) := by
      intro p q hp hq
      rw [tget_tmap _ n 2 anti [p, q] sh2 rfl, hA p q hp hq, hex p q, hex q p]
      simp only [Option.map_some]
      rw [neg_half_conj]
    rw [evalW_denotePT, hd]
    simp only [evD, add_zero]
    rw [hk0, evK2_eq n w [1, 0] rfl _ shC _ hC,
      evK2_eq n w [1, 1] rfl _ (Shaped_tmap _ n 2 anti sh2) _ e11,
      evK2_eq n w [0, 0] rfl _ (Shaped_tmap _ n 2 anti sh2) _ e00, ← hconst]
    simp only [k1, k2, k3]
    rw [antisym_sum n (fun p q => Dict.getD no (k11 p q) 0) (fun p q => w (k11 p q)) W11,
      antisym_sum n (fun p q => Dict.getD no (k00 p q) 0) (fun p q => w (k00 p q)) W00]

/-- **`get_quadratic_hamiltonian`, either value of `ignore_incompatible_terms`** -/
theorem getQH_sound_ig (D : Nat) (hD : 0 < D) (tol : Rat) (h0 : 0 ≤ tol) (h1 : tol * D ≤ 1) (A : Op) (mu : GQ)
    (n? : Option Nat) (ig : Bool) (P : PT) (hv : ∀ e ∈ A, ∀ f ∈ e.1, f.2 < 2) (la : ∀ e ∈ A, Proofs.C03.Lat D e.2)
    (h : getQuadraticHamiltonian tol A mu n? ig = .ok P) (hex : qhExact tol A = true) (t s : Nat) :
    ∃ n, resolveN A n? = .ok n ∧ melF (denotePT P.d) t s
      = melF ((normalOrdered tol A).filter fun e => decide (e.1 ∈ admKeysQ n)) t s := by
  unfold getQuadraticHamiltonian at h
  cases hr : resolveN A n? with
  | error e => simp [hr, bind, Except.bind] at h
  | ok n =>
    cases hsc : qhScatter tol ig n (normalOrdered tol A) with
    | error e => simp [hr, hsc, bind, Except.bind] at h
    | ok r =>
      simp only [hr, hsc, bind, Except.bind] at h
      split at h
      · cases h
      · obtain ⟨c, comb, anti⟩ := r
        have hge := resolveN_ge A n? n hr
        have hidx : ∀ e ∈ normalOrdered tol A, ∀ f ∈ e.1, f.1 < n := by
          have := Proofs.C03.normalOrdered_valid (tol := tol) (k := .fermion) (Q := fun f => f.1 < n)
            (fun t ht => ht) A (fun e he f hf => by
              have := countQubits_bound A e he f hf; omega)
          exact this
        obtain ⟨wf, hval, hno⟩ := Proofs.C03.normalOrdered_fermion_wellformed tol A hv
        have key := qh_denote_ig tol n _ c comb anti mu ig hsc wf (normalOrdered_noSmall tol A) hidx hval hno
          (qhExact_hex tol A hex) (fun τ => termMel τ t s)
          (fun p q => termMel_pair_antisym t s 1 (by omega) p q)
          (fun p q => termMel_pair_antisym t s 0 (by omega) p q)
        have hP : P = (if maxSmall tol n 2 anti then mkQH n (addDiag n mu comb) none c mu
            else mkQH n (addDiag n mu comb) (some anti) c mu) := by
          simp only at h
          split at h
          · rename_i hms
            simp only [Except.ok.injEq] at h
            rw [if_pos hms]; exact h.symm
          · rename_i hms
            simp only [Except.ok.injEq] at h
            rw [if_neg hms]; exact h.symm
        refine ⟨n, rfl, ?_⟩
        rw [melF_eq_evalW, hP, key, ← melF_eq_evalW]

/-- the words `admKeysQ n` lists are exactly the quadratic forms `()`, `p^ q`, `p^ q^`, `p q` below `n` -/
theorem mem_admKeysQ_iff (n : Nat) (t : Term) : t ∈ admKeysQ n ↔ AdmQ n t := by
  constructor
  · intro h
    unfold admKeysQ at h
    have two : ∀ idx ∈ indices n 2, ∃ p q, idx = [p, q] ∧ p < n ∧ q < n := by
      intro idx hi
      have hl := mem_indices_length n 2 idx hi
      have hlt := mem_indices_lt n 2 idx hi
      match idx, hl, hlt with
      | [p, q], _, hlt => exact ⟨p, q, rfl, hlt p (by simp), hlt q (by simp)⟩
    rcases List.mem_cons.mp h with rfl | h
    · exact AdmQ.const
    · rcases List.mem_append.mp h with h | h
      · obtain ⟨idx, hi, rfl⟩ := List.mem_map.mp h
        obtain ⟨p, q, rfl, hp, hq⟩ := two idx hi
        exact AdmQ.k10 p q hp hq
      · rcases List.mem_append.mp h with h | h
        · obtain ⟨idx, hi, rfl⟩ := List.mem_map.mp h
          obtain ⟨p, q, rfl, hp, hq⟩ := two idx hi
          exact AdmQ.k11 p q hp hq
        · obtain ⟨idx, hi, rfl⟩ := List.mem_map.mp h
          obtain ⟨p, q, rfl, hp, hq⟩ := two idx hi
          exact AdmQ.k00 p q hp hq
  · exact admQ_mem n t

end C08P
end OFV
