/- C03 — `reorder` and `chemist_ordered` only rewrite the operator (abstract relations). -/
import OFV.Proofs.C03
import OFV.Proofs.C03Valid

namespace OFV
namespace Proofs
namespace C03
open Model Model.C03

variable {A : Type} [Ring A]

/-! ### reorder -/

/-- the interpretation with relabelled modes: `a_p ↦ a_{m(p)}` -/
def Interp.relabel (I : Interp A) (m : List Nat) : Interp A :=
  { ι := I.ι, g := fun f => I.g (m.getD f.1 0, f.2), ι_add := I.ι_add, ι_central := I.ι_central }

theorem evalT_relabel (I : Interp A) (m : List Nat) (t : Term) :
    (I.relabel m).evalT t = I.evalT (t.map fun f => (m.getD f.1 0, f.2)) := by
  induction t with
  | nil => simp [Interp.evalT]
  | cons f r ih => rw [Interp.evalT_cons, ih, List.map_cons, Interp.evalT_cons]; rfl

/-- `reorder(op, f)` denotes the relabelled operator, for every class whose constructor
normalisation preserves the denotation -/
theorem reorder_sound_gen (I : Interp A) (cls : Cls)
    (hs : ∀ t, (simplify cls t).1 = 1 ∧ I.evalT (simplify cls t).2 = I.evalT t)
    (m : List Nat) (a : Op) :
    I.evalOp (reorder 0 cls m a) = (I.relabel m).evalOp a := by
  unfold reorder
  have : ∀ (acc : Op), I.evalOp (a.foldl (fun acc (x : Term × GQ) =>
      iadd 0 acc (mk cls (x.1.map fun f => (m.getD f.1 0, f.2)) x.2)) acc) =
      I.evalOp acc + (I.relabel m).evalOp a := by
    induction a with
    | nil => intro acc; simp
    | cons e r ih =>
      intro acc
      rw [List.foldl_cons, ih, I.evalOp_iadd, Interp.evalOp_cons, evalT_relabel]
      have : I.evalOp (mk cls (e.1.map fun f => (m.getD f.1 0, f.2)) e.2) =
          I.ι e.2 * I.evalT (e.1.map fun f => (m.getD f.1 0, f.2)) := by
        unfold mk
        simp only [Interp.evalOp_cons, Interp.evalOp_nil, add_zero, (hs _).1, gq_mul_one, (hs _).2]
      rw [this]
      show _ = _ + (I.ι e.2 * _ + _)
      abel
  simpa using this []

/-! ### chemist_ordered -/

theorem gq_add_neg (c : GQ) : c + (-c) = 0 := by apply GQ.ext <;> simp

theorem ι_neg (I : Interp A) (c : GQ) : I.ι (-c) = - I.ι c := by
  have h := I.ι_add c (-c)
  rw [gq_add_neg, I.ι_zero] at h
  exact (neg_eq_of_add_eq_zero_right h.symm).symm

/-- the middle pair of a two-body term can be exchanged -/
def MidOK (I : Interp A) (t : Term) : Prop :=
  match t with
  | [_, t1, t2, _] => I.g t1 * I.g t2 + I.g t2 * I.g t1 = if t1.1 = t2.1 then 1 else 0
  | _ => True

theorem chemist_step (I : Interp A) (t : Term) (c : GQ) (acc : Op) (h : MidOK I t) :
    I.evalOp (chemistStep 0 acc t c) = I.evalOp acc + I.ι c * I.evalT t := by
  unfold chemistStep
  have hmk : ∀ (t : Term) (c : GQ), I.evalOp (mk .fermion t c) = I.ι c * I.evalT t := by
    intro t c
    simp [mk, simplify, Interp.evalOp_cons, gq_mul_one]
  match t, h with
  | [t0, t1, t2, t3], h =>
    simp only [MidOK] at h
    have h' : I.g t1 * I.g t2 = (if t1.1 = t2.1 then 1 else 0) - I.g t2 * I.g t1 := eq_sub_of_add_eq h
    simp only
    by_cases he : t1.1 = t2.1
    · simp only [he, if_true] at h' ⊢
      rw [I.evalOp_iadd, I.evalOp_iadd, hmk, hmk, ι_neg]
      simp only [Interp.evalT_cons, Interp.evalT_nil, mul_one]
      have : I.g t0 * (I.g t1 * (I.g t2 * I.g t3)) = I.g t0 * ((I.g t1 * I.g t2) * I.g t3) := by
        noncomm_ring
      rw [this, h']
      noncomm_ring
    · simp only [he, if_false] at h' ⊢
      rw [I.evalOp_iadd, hmk, ι_neg]
      simp only [Interp.evalT_cons, Interp.evalT_nil, mul_one]
      have : I.g t0 * (I.g t1 * (I.g t2 * I.g t3)) = I.g t0 * ((I.g t1 * I.g t2) * I.g t3) := by
        noncomm_ring
      rw [this, h']
      noncomm_ring
  | [], _ => simp [I.evalOp_iadd, hmk]
  | [_], _ => simp [I.evalOp_iadd, hmk]
  | [_, _], _ => simp [I.evalOp_iadd, hmk]
  | [_, _, _], _ => simp [I.evalOp_iadd, hmk]
  | _ :: _ :: _ :: _ :: _ :: _, _ => simp [I.evalOp_iadd, hmk]

theorem chemist_fold (I : Interp A) (l : Op) (h : ∀ e ∈ l, MidOK I e.1) :
    ∀ (acc : Op), I.evalOp (l.foldl (fun acc (x : Term × GQ) => chemistStep 0 acc x.1 x.2) acc) =
      I.evalOp acc + I.evalOp l := by
  induction l with
  | nil => intro acc; simp
  | cons e r ih =>
    intro acc
    rw [List.foldl_cons, ih (fun e' he' => h e' (List.mem_cons_of_mem _ he')),
      chemist_step I e.1 e.2 acc (h e (by simp)), Interp.evalOp_cons]
    abel

theorem midOK_of_car (I : Interp A)
    (car_mixed : ∀ x l : Factor, x.2 ≠ 0 → l.2 = 0 →
      I.g l * I.g x + I.g x * I.g l = if x.1 = l.1 then 1 else 0)
    (car_same : ∀ x l : Factor, x.2 = l.2 → x.1 ≠ l.1 → I.g l * I.g x + I.g x * I.g l = 0)
    (t : Term) (hn : Proofs.C02.Adj (okK .fermion) t) (hv : TermQ (fun f => f.2 < 2) t) : MidOK I t := by
  match t, hn, hv with
  | [t0, t1, t2, t3], hn, hv =>
    simp only [MidOK]
    have hok : okK .fermion t1 t2 := hn.2.1
    have v1 : t1.2 < 2 := hv t1 (by simp)
    have v2 : t2.2 < 2 := hv t2 (by simp)
    obtain ⟨h1, h2⟩ := hok
    simp only [Kind.high, Kind.isFermion] at h1 h2
    by_cases hs : t2.2 = t1.2
    · obtain ⟨h3, h4⟩ := h2 hs
      have hne : t2.1 ≠ t1.1 := h4 trivial
      have := car_same t2 t1 hs hne
      rw [if_neg (fun e => hne e.symm)]
      exact this
    · have h10 : t1.2 ≠ 0 ∧ t2.2 = 0 := by
        by_contra hc
        have : t1.2 = 0 ∧ t2.2 = 1 := by omega
        apply h1
        simp [this.1, this.2]
      have := car_mixed t1 t2 h10.1 h10.2
      rw [add_comm]
      exact this
  | [], _, _ => trivial
  | [_], _, _ => trivial
  | [_, _], _, _ => trivial
  | [_, _, _], _, _ => trivial
  | _ :: _ :: _ :: _ :: _ :: _, _, _ => trivial

/-- `chemist_ordered(op)` denotes the same operator (CAR; valid action codes) -/
theorem chemistOrdered_sound (I : Interp A)
    (car_mixed : ∀ x l : Factor, x.2 ≠ 0 → l.2 = 0 →
      I.g l * I.g x + I.g x * I.g l = if x.1 = l.1 then 1 else 0)
    (car_same : ∀ x l : Factor, x.2 = l.2 → x.1 ≠ l.1 → I.g l * I.g x + I.g x * I.g l = 0)
    (car_sq : ∀ x l : Factor, x.2 = l.2 → x.1 = l.1 → I.g l * I.g x = 0)
    (a : Op) (hv : ∀ e ∈ a, ∀ f ∈ e.1, f.2 < 2) :
    I.evalOp (chemistOrdered 0 a) = I.evalOp a := by
  have hnorm := normalOrdered_norm 0 .fermion (fun t => Proofs.C02.Adj (okK .fermion) t) (fun t ht => ht) a
  have hval := normalOrdered_valid 0 .fermion (fun f => f.2 < 2) (fun t ht => ht) a hv
  unfold chemistOrdered
  rw [chemist_fold I _ (fun e he => midOK_of_car I car_mixed car_same e.1 (hnorm e he) (hval e he)) []]
  simp only [Interp.evalOp_nil, zero_add]
  exact normalOrdered_sound I .fermion (relations_fermion I car_mixed car_same car_sq) a

end C03
end Proofs
end OFV
