/- Sum manipulations and the diagonal (occupation-number) identity of the dual-basis jellium Hamiltonian. -/
import OFV.Proofs.C04JDen

set_option linter.unusedSimpArgs false
set_option linter.unusedVariables false

namespace OFV
namespace Jel
open Model Model.C04J Spec Sem

theorem sum_range_succJ (N : Nat) (g : Nat → GQ) :
    ((List.range (N + 1)).map g).sum = ((List.range N).map g).sum + g N := by
  rw [List.range_succ, List.map_append, List.sum_append]; simp

theorem sum_squareJ (h : Nat → Nat → GQ) (N : Nat) :
    ((List.range N).map fun p => ((List.range N).map fun q => h p q).sum).sum
      = ((List.range N).map fun p => h p p).sum
        + ((List.range N).map fun p => ((List.range p).map fun q => h p q + h q p).sum).sum := by
  induction N with
  | zero => simp
  | succ N ih =>
    simp only [sum_range_succJ, sum_add_map]
    rw [ih]
    simp only [sum_add_map]
    ring

/-- the loop `for p in range(N): for q in range(p + 1, N)` visits the pairs `b < a` -/
theorem sum_upper_lower (f : Nat → Nat → GQ) (N : Nat) :
    ((List.range N).map fun p => ((List.range' (p + 1) (N - (p + 1))).map fun q => f p q).sum).sum
      = ((List.range N).map fun a => ((List.range a).map fun b => f b a).sum).sum := by
  induction N with
  | zero => simp
  | succ N ih =>
    rw [sum_range_succJ, sum_range_succJ, ← ih]
    have e : ((List.range N).map fun p => ((List.range' (p + 1) (N + 1 - (p + 1))).map fun q => f p q).sum).sum
        = ((List.range N).map fun p => ((List.range' (p + 1) (N - (p + 1))).map fun q => f p q).sum + f p N).sum := by
      congr 1; apply List.map_congr_left; intro p hp
      rw [List.mem_range] at hp
      have : N + 1 - (p + 1) = (N - (p + 1)) + 1 := by omega
      rw [this, List.range'_concat, List.map_append, List.sum_append]
      have e2 : p + 1 + 1 * (N - (p + 1)) = N := by omega
      have e3 : p + 1 + (N - (p + 1)) = N := by omega
      simp [e2, e3]
    rw [e, sum_add_map]
    have : N + 1 - (N + 1) = 0 := by omega
    simp [this]

theorem sum_mul_rightJ {α : Type} (c : GQ) (l : List α) (f : α → GQ) :
    (l.map fun i => f i * c).sum = (l.map f).sum * c := by
  induction l with
  | nil => simp
  | cons a l ih => simp [ih]; ring

theorem sum_sub_mapJ {α : Type} (l : List α) (f g : α → GQ) :
    (l.map fun a => f a - g a).sum = (l.map f).sum - (l.map g).sum := by
  induction l with
  | nil => simp
  | cons a l ih => simp [ih]; ring

theorem sum_constJ (N : Nat) (c : GQ) : ((List.range N).map fun _ => c).sum = (⟨N, 0⟩ : GQ) * c := by
  induction N with
  | zero => simp; apply GQ.ext <;> simp
  | succ N ih =>
    rw [sum_range_succJ, ih]
    apply GQ.ext <;> simp <;> ring

theorem half_add_half : C04.half + C04.half = 1 := by
  apply GQ.ext <;> simp [C04.half] <;> norm_num [Rat.mkRat_eq_div]

/-- **the diagonal identity**: identity + local `Z` + `ZZ` terms of the direct form are the kinetic diagonal and
the density-density interaction, for a symmetric pair potential whose rows sum to zero -/
theorem diag_identity (N : Nat) (W : Nat → Nat → GQ) (K0 P0 : GQ) (n : Nat → GQ)
    (hsym : ∀ a b, a < N → b < N → W a b = W b a)
    (hdiag : ∀ a, a < N → W a a = P0)
    (hrow : ∀ a, a < N → ((List.range N).map fun b => W a b).sum = 0) :
    ((⟨N, 0⟩ : GQ) * K0 * C04.half - (⟨N, 0⟩ : GQ) * P0 * C04.half * C04.half)
      + ((List.range N).map fun q => (P0 * C04.half - K0 * C04.half) * (1 - (n q + n q))).sum
      + ((List.range N).map fun a => ((List.range a).map fun b =>
          W a b * C04.half * ((1 - (n b + n b)) * (1 - (n a + n a)))).sum).sum
      = ((List.range N).map fun p => K0 * n p).sum
        + ((List.range N).map fun a => ((List.range a).map fun b => (W a b + W a b) * (n a * n b)).sum).sum := by
  -- the three aggregated pair sums
  set T := ((List.range N).map fun a => ((List.range a).map fun b => W a b).sum).sum with hT
  set U := ((List.range N).map fun a => ((List.range a).map fun b => W a b * (n a + n b)).sum).sum with hU
  set Q := ((List.range N).map fun a => ((List.range a).map fun b => W a b * (n a * n b)).sum).sum with hQ
  set S1 := ((List.range N).map fun a => n a).sum with hS1
  -- Σ_a Σ_b W = 0 = N P0 + 2 T
  have hT2 : (⟨N, 0⟩ : GQ) * P0 + (T + T) = 0 := by
    have h := sum_squareJ W N
    have hz : ((List.range N).map fun p => ((List.range N).map fun q => W p q).sum).sum = 0 := by
      apply sum_zero_map; intro a ha; exact hrow a (List.mem_range.1 ha)
    have hd : ((List.range N).map fun p => W p p).sum = (⟨N, 0⟩ : GQ) * P0 := by
      rw [← sum_constJ]; congr 1; apply List.map_congr_left; intro a ha; exact hdiag a (List.mem_range.1 ha)
    have hs : ((List.range N).map fun p => ((List.range p).map fun q => W p q + W q p).sum).sum = T + T := by
      rw [hT, ← sum_add_map]; congr 1; apply List.map_congr_left; intro a ha
      rw [← sum_add_map]; congr 1; apply List.map_congr_left; intro b hb
      rw [List.mem_range] at ha hb
      rw [hsym b a (by omega) ha]
    rw [hz, hd, hs] at h
    exact h.symm
  -- Σ_a n_a Σ_b W(a,b) = 0 = P0 S1 + U
  have hU2 : P0 * S1 + U = 0 := by
    have h := sum_squareJ (fun a b => W a b * n a) N
    have hz : ((List.range N).map fun p => ((List.range N).map fun q => W p q * n p).sum).sum = 0 := by
      apply sum_zero_map; intro a ha
      rw [sum_mul_rightJ, hrow a (List.mem_range.1 ha), zero_mul]
    have hd : ((List.range N).map fun p => W p p * n p).sum = P0 * S1 := by
      rw [hS1, ← sum_map_mul_left']; congr 1; apply List.map_congr_left; intro a ha
      rw [hdiag a (List.mem_range.1 ha)]
    have hs : ((List.range N).map fun p => ((List.range p).map fun q => W p q * n p + W q p * n q).sum).sum = U := by
      rw [hU]; congr 1; apply List.map_congr_left; intro a ha
      congr 1; apply List.map_congr_left; intro b hb
      rw [List.mem_range] at ha hb
      rw [hsym b a (by omega) ha]; ring
    rw [hz, hd, hs] at h
    exact h.symm
  -- expand the three sums of the statement
  have e1 : ((List.range N).map fun q => (P0 * C04.half - K0 * C04.half) * (1 - (n q + n q))).sum
      = (P0 * C04.half - K0 * C04.half) * ((⟨N, 0⟩ : GQ) - (S1 + S1)) := by
    rw [sum_map_mul_left']
    congr 1
    rw [sum_sub_mapJ, sum_add_map, sum_constJ, mul_one]
  have e2 : ((List.range N).map fun a => ((List.range a).map fun b =>
        W a b * C04.half * ((1 - (n b + n b)) * (1 - (n a + n a)))).sum).sum
      = C04.half * T - U + (Q + Q) := by
    have ew : ∀ a b, W a b * C04.half * ((1 - (n b + n b)) * (1 - (n a + n a)))
        = (C04.half * W a b - W a b * (n a + n b)) + (W a b * (n a * n b) + W a b * (n a * n b)) := by
      intro a b
      linear_combination (-(W a b * (n a + n b)) + 2 * (W a b * (n a * n b))) * half_add_half
    simp only [ew, sum_add_map, sum_sub_mapJ]
    rw [hT, hU, hQ]
    simp only [sum_map_mul_left']
  have e3 : ((List.range N).map fun a => ((List.range a).map fun b => (W a b + W a b) * (n a * n b)).sum).sum = Q + Q := by
    rw [hQ, ← sum_add_map]; congr 1; apply List.map_congr_left; intro a _
    rw [← sum_add_map]; congr 1; apply List.map_congr_left; intro b _; ring
  have e4 : ((List.range N).map fun p => K0 * n p).sum = K0 * S1 := by rw [sum_map_mul_left']
  rw [e1, e2, e3, e4]
  linear_combination (C04.half * C04.half) * hT2 + (-1 : GQ) * hU2
    + (-(P0 * S1 - K0 * S1) - C04.half * T - (⟨N, 0⟩ : GQ) * P0 * C04.half) * half_add_half

end Jel
end OFV
