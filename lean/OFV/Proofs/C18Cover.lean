/- C18 — `pair_within` contains every unordered pair (all lengths): simultaneous induction with
"every label is the bare label of some yield (odd lengths)", using the positional alignment of the two
recursive halves (C18Rel). -/
import OFV.Proofs.C18Rel

namespace OFV.Proofs.C18
open OFV.Model.C18 OFV.Spec.C18 List

section
variable {α : Type}

/-- the positional relation between two lists -/
def Rpos (A B : List (Option α)) (x y : Option α) : Prop := ∃ i : Nat, A[i]? = some x ∧ B[i]? = some y

theorem forall₂_Rpos (A B : List (Option α)) (h : A.length = B.length) : Forall₂ (Rpos A B) A B := by
  rw [forall₂_iff_get]
  refine ⟨h, ?_⟩
  intro i h1 h2
  exact ⟨i, by simp [h1], by simp [h2]⟩

theorem Rpos_unique {A B : List (Option α)} (hA : A.Nodup) {i : Nat} (hi : i < A.length) (hiB : i < B.length)
    {y : Option α} (h : Rpos A B A[i] y) : y = B[i] := by
  obtain ⟨j, h1, h2⟩ := h
  have hj : j < A.length := by
    by_contra hc; rw [getElem?_eq_none (by omega)] at h1; cases h1
  rw [getElem?_eq_getElem hj] at h1
  have : j = i := (hA.getElem_inj_iff).mp (by injection h1)
  subst this
  rw [getElem?_eq_getElem hiB] at h2
  injection h2 with h2; exact h2.symm

theorem Rpos_unique' {A B : List (Option α)} (hA : A.Nodup) {i : Nat} {x y : Option α}
    (hx : A[i]? = some x) (h : Rpos A B x y) : B[i]? = some y := by
  obtain ⟨j, h1, h2⟩ := h
  have hj : j < A.length := by
    by_contra hc; rw [getElem?_eq_none (by omega)] at h1; cases h1
  have hi : i < A.length := by
    by_contra hc; rw [getElem?_eq_none (by omega)] at hx; cases hx
  rw [getElem?_eq_getElem hj] at h1
  rw [getElem?_eq_getElem hi] at hx
  have : j = i := (hA.getElem_inj_iff).mp (by injection h1 with h1; injection hx with hx; rw [h1, hx])
  subst this; exact h2

/-- the partner of `p1` at the same position of the zip -/
theorem zip_at {r : Nat} {P1 P2 : List (Pairing (Option α))} (hlen : P1.length = P2.length)
    {p1 : Pairing (Option α)} (h : p1 ∈ P1) :
    ∃ p2 ∈ P2, combine r p1 p2 ∈ zipWith (combine r) P1 P2 ∧
      ∀ S : Pairing (Option α) → Pairing (Option α) → Prop, Forall₂ S P1 P2 → S p1 p2 := by
  obtain ⟨t, ht, rfl⟩ := getElem_of_mem h
  have ht2 : t < P2.length := by omega
  refine ⟨P2[t], getElem_mem ht2, ?_, ?_⟩
  · rw [mem_iff_getElem]
    exact ⟨t, by simp; omega, by simp⟩
  · intro S hS
    exact (forall₂_iff_get.mp hS).2 t ht ht2

theorem zip_at_right {r : Nat} {P1 P2 : List (Pairing (Option α))} (hlen : P1.length = P2.length)
    {p2 : Pairing (Option α)} (h : p2 ∈ P2) :
    ∃ p1 ∈ P1, combine r p1 p2 ∈ zipWith (combine r) P1 P2 := by
  obtain ⟨t, ht, rfl⟩ := getElem_of_mem h
  have ht1 : t < P1.length := by omega
  refine ⟨P1[t], getElem_mem ht1, ?_⟩
  rw [mem_iff_getElem]
  exact ⟨t, by simp; omega, by simp⟩

theorem dnp_mem {q : Pairing (Option α)} {a : Option α} {b : α} (h : Item.pr a (some b) ∈ q) :
    Item.pr a (some b) ∈ dropNonePairs q := by
  induction q with
  | nil => simp at h
  | cons x r ih =>
    rcases mem_cons.mp h with rfl | h'
    · simp [dropNonePairs]
    · cases x with
      | pr c d => cases d with
        | none => simpa [dropNonePairs] using ih h'
        | some d' => simp only [dropNonePairs]; exact mem_cons_of_mem _ (ih h')
      | sg c => simp only [dropNonePairs]; exact mem_cons_of_mem _ (ih h')
      | bad => simp only [dropNonePairs]; exact mem_cons_of_mem _ (ih h')

theorem zeroIndices_mem {q : Pairing (Option α)} {a : Option α} (h : Item.pr a none ∈ q) :
    ∀ {zs : List (Option α)}, zeroIndices q = some zs → a ∈ zs := by
  induction q with
  | nil => simp at h
  | cons x r ih =>
    intro zs hz
    cases x with
    | pr c d =>
      cases d with
      | none =>
        simp only [zeroIndices, Option.map_eq_some_iff] at hz
        obtain ⟨w, hw, rfl⟩ := hz
        rcases mem_cons.mp h with h' | h'
        · injection h' with h1 _; simp [h1]
        · exact mem_cons_of_mem _ (ih h' hw)
      | some d' =>
        simp only [zeroIndices] at hz
        rcases mem_cons.mp h with h' | h'
        · cases h'
        · exact ih h' hz
    | sg c => simp [zeroIndices] at hz
    | bad => simp [zeroIndices] at hz


/-! ### explicit forms of `combine` on well-shaped yields -/

theorem combine_eq0 (u v : Pairing (Option α)) : combine 0 u v = u ++ v := by simp [combine]

theorem combine_eq2 (u v : Pairing (Option α)) (s t : Option α) :
    combine 2 (u ++ [Item.sg s]) (v ++ [Item.sg t]) = u ++ v ++ [Item.pr s t] := by
  simp [combine, lastLab_snoc]

theorem combine_eq3 (u v : Pairing (Option α)) (s : Option α) :
    combine 3 (u ++ [Item.sg s]) v = u ++ v ++ [Item.sg s] := by simp [combine]

theorem combine_eq1A (u v : Pairing (Option α)) (t : Option α) :
    combine 1 (u ++ [Item.sg none]) (v ++ [Item.sg t]) = u ++ v ++ [Item.sg t] := by
  simp [combine, lastLab_snoc]

theorem combine_eq1B (u v : Pairing (Option α)) (s : α) (t zz : Option α) (hz : zeroIndices u = some [zz]) :
    combine 1 (u ++ [Item.sg (some s)]) (v ++ [Item.sg t]) =
      dropNonePairs u ++ v ++ [Item.pr (some s) t] ++ [Item.sg zz] := by
  simp [combine, lastLab_snoc, hz]

/-- in a yield of `pair_within (f ++ [None])` whose bare label is not `None`, `None` is paired once -/
theorem zero_facts (f : List (Option α)) (hnd : (f ++ [none]).Nodup) (q : Pairing (Option α)) (w : α)
    (g : Good (f ++ [none]) (q ++ [Item.sg (some w)])) (hq : allPairs q = true) :
    ∃ z, zeroIndices q = some [z] := by
  have hp := g.perm
  simp only [labelsOf_append, labelsOf] at hp
  have hn : (labelsOf q ++ [some w]).Nodup := hp.nodup_iff.mpr hnd
  have hqnd : (labelsOf q).Nodup := (List.nodup_append.mp hn).1
  have hmem : none ∈ labelsOf q := by
    have : none ∈ labelsOf q ++ [some w] := hp.symm.subset (by simp)
    simpa using this
  have hfirst : ∀ v, Item.pr none v ∉ q := fun v hv =>
    g.last none (by simp) v (List.mem_append_left _ hv)
  obtain ⟨z, hz1, _, _⟩ := zeroIndices_spec q hq hqnd hmem hfirst
  exact ⟨z, hz1⟩

/-! ### membership in the yields of `pair_between` -/

theorem pairBetweenAt_mem_pair (f1 f2 : List (Option α)) (hle : f1.length ≤ f2.length) (io i : Nat)
    (hi : i < f1.length) :
    Item.pr f1[i] (f2[(i + io) % f2.length]'(Nat.mod_lt _ (by omega))) ∈ pairBetweenAt f1 f2 io := by
  rw [pairBetweenAt_eq_rotL _ _ _ hle, rotL]
  apply mem_append_left
  rw [mem_iff_getElem]
  refine ⟨i, by simp; omega, ?_⟩
  simp [getElem_rotate]

theorem pairBetweenAt_lastLab (f1 f2 : List (Option α)) (hlen : f2.length = f1.length + 1) (io : Nat) :
    lastLab (pairBetweenAt f1 f2 io) =
      some (f2[(f1.length + io) % f2.length]'(Nat.mod_lt _ (by omega))) := by
  rw [pairBetweenAt_eq_rotL _ _ _ (by omega), rotL]
  have hl : ((f2.rotate io).drop f1.length).length = 1 := by simp; omega
  obtain ⟨x, hx⟩ := List.length_eq_one_iff.mp hl
  have hx' : x = (f2.rotate io)[f1.length]'(by simp; omega) := by
    have := congrArg (fun l => l[0]?) hx
    simp at this
    rw [getElem?_eq_getElem (by simp; omega)] at this
    injection this with this; exact this.symm
  rw [hx, map_cons, map_nil, lastLab_snoc, hx', getElem_rotate]

theorem pairBetweenAt_mem (f1 f2 : List (Option α)) (off io : Nat) (h1 : off ≤ io)
    (h2 : io < max f1.length f2.length) : pairBetweenAt f1 f2 io ∈ pairBetween f1 f2 off := by
  simp only [pairBetween, mem_map, mem_range'_1]
  exact ⟨io, ⟨h1, by omega⟩, rfl⟩


theorem rot_solve (n i j : Nat) (hi : i < n) (hj : j < n) :
    ∃ io, io < n ∧ (i + io) % n = j ∧ (io = 0 → j = i) := by
  by_cases h : i ≤ j
  · refine ⟨j - i, by omega, ?_, by omega⟩
    rw [mod_two_cases _ _ (by omega)]; split <;> omega
  · refine ⟨j + n - i, by omega, ?_, by omega⟩
    rw [mod_two_cases _ _ (by omega)]; split <;> omega

/-- every cross pair outside the skipped round occurs in the `pair_between` part -/
theorem cross_in_PB (f1 f2 : List (Option α)) (hle : f1.length ≤ f2.length) (off : Nat) (hoff : off ≤ 1)
    (i j : Nat) (hi : i < f1.length) (hj : j < f2.length) (hskip : ¬ (off = 1 ∧ j = i)) :
    ∃ p ∈ pairBetween f1 f2 off, Item.pr f1[i] f2[j] ∈ p := by
  obtain ⟨io, h1, h2, h3⟩ := rot_solve f2.length i j (by omega) hj
  refine ⟨pairBetweenAt f1 f2 io, pairBetweenAt_mem f1 f2 off io ?_ (by omega), ?_⟩
  · by_contra hc
    have : io = 0 := by omega
    exact hskip ⟨by omega, h3 this⟩
  · have := pairBetweenAt_mem_pair f1 f2 hle io i hi
    simpa [h2] using this

/-- bare labels of the `pair_between` part when the second fragment is longer by one -/
theorem single_in_PB (f1 f2 : List (Option α)) (hlen : f2.length = f1.length + 1) (off : Nat) (hoff : off ≤ 1)
    (j : Nat) (hj : j < f2.length) (hskip : ¬ (off = 1 ∧ j = f1.length)) :
    ∃ p ∈ pairBetween f1 f2 off, lastLab p = some f2[j] := by
  obtain ⟨io, h1, h2, h3⟩ := rot_solve f2.length f1.length j (by omega) hj
  refine ⟨pairBetweenAt f1 f2 io, pairBetweenAt_mem f1 f2 off io ?_ (by omega), ?_⟩
  · by_contra hc
    have : io = 0 := by omega
    exact hskip ⟨by omega, h3 this⟩
  · rw [pairBetweenAt_lastLab f1 f2 hlen io]
    simp [h2]


/-! ### the induction step, one lemma per residue of the length mod 4 -/

/-- what the induction hypothesis provides about the two recursive calls -/
structure StepHyp (A f2 : List (Option α)) (P1 P2 : List (Pairing (Option α))) : Prop where
  inv1 : ∀ p ∈ P1, Good A p
  inv2 : ∀ p ∈ P2, Good f2 p
  hlen : P1.length = P2.length
  s1A : A.length % 2 = 1 → ∀ a ∈ A, ∃ p ∈ P1, lastLab p = some a
  cA : ∀ a ∈ A, ∀ b ∈ A, a ≠ b → ∃ p ∈ P1, Item.pr a b ∈ p ∨ Item.pr b a ∈ p
  cB : ∀ a ∈ f2, ∀ b ∈ f2, a ≠ b → ∃ p ∈ P2, Item.pr a b ∈ p ∨ Item.pr b a ∈ p
  rel : A.length = f2.length → Forall₂ (PR (Rpos A f2)) P1 P2

def Covered (Y : List (Pairing (Option α))) (a b : Option α) : Prop :=
  ∃ p ∈ Y, Item.pr a b ∈ p ∨ Item.pr b a ∈ p

theorem Covered.symm {Y : List (Pairing (Option α))} {a b : Option α} (h : Covered Y a b) : Covered Y b a := by
  obtain ⟨p, hp, h⟩ := h; exact ⟨p, hp, h.symm⟩

/-- coverage of a list split into two fragments follows from the three kinds of pairs -/
theorem covered_of_cases {Y : List (Pairing (Option α))} {f1 f2 : List (Option α)}
    (h11 : ∀ a ∈ f1, ∀ b ∈ f1, a ≠ b → Covered Y a b)
    (h22 : ∀ a ∈ f2, ∀ b ∈ f2, a ≠ b → Covered Y a b)
    (h12 : ∀ a ∈ f1, ∀ b ∈ f2, Covered Y a b) :
    ∀ a ∈ f1 ++ f2, ∀ b ∈ f1 ++ f2, a ≠ b → Covered Y a b := by
  intro a ha b hb hab
  rcases mem_append.mp ha with ha | ha <;> rcases mem_append.mp hb with hb | hb
  · exact h11 a ha b hb hab
  · exact h12 a ha b hb
  · exact (h12 b hb a ha).symm
  · exact h22 a ha b hb hab

theorem mem_snoc_pr {q : Pairing (Option α)} {x a b : Option α}
    (h : Item.pr a b ∈ q ++ [Item.sg x]) : Item.pr a b ∈ q := by
  rcases mem_append.mp h with h | h
  · exact h
  · simp at h

theorem or_mem_snoc_pr {q : Pairing (Option α)} {x a b : Option α}
    (h : Item.pr a b ∈ q ++ [Item.sg x] ∨ Item.pr b a ∈ q ++ [Item.sg x]) :
    Item.pr a b ∈ q ∨ Item.pr b a ∈ q := h.imp mem_snoc_pr mem_snoc_pr

theorem step0 (f1 f2 : List (Option α)) (hle : f1.length ≤ f2.length)
    (e1 : f1.length % 2 = 0) (e2 : f2.length % 2 = 0)
    (P1 P2 : List (Pairing (Option α))) (H : StepHyp f1 f2 P1 P2) :
    ∀ a ∈ f1 ++ f2, ∀ b ∈ f1 ++ f2, a ≠ b →
      Covered (pairBetween f1 f2 (f2.length % 2) ++ zipWith (combine 0) P1 P2) a b := by
  apply covered_of_cases
  · intro a ha b hb hab
    obtain ⟨p1, hp1, h⟩ := H.cA a ha b hb hab
    obtain ⟨p2, _, hz, _⟩ := zip_at (r := 0) H.hlen hp1
    refine ⟨_, mem_append_right _ hz, ?_⟩
    rw [combine_eq0]; exact h.imp (mem_append_left _) (mem_append_left _)
  · intro a ha b hb hab
    obtain ⟨p2, hp2, h⟩ := H.cB a ha b hb hab
    obtain ⟨p1, _, hz⟩ := zip_at_right (r := 0) H.hlen hp2
    refine ⟨_, mem_append_right _ hz, ?_⟩
    rw [combine_eq0]; exact h.imp (mem_append_right _) (mem_append_right _)
  · intro a ha b hb
    obtain ⟨i, hi, rfl⟩ := getElem_of_mem ha
    obtain ⟨j, hj, rfl⟩ := getElem_of_mem hb
    obtain ⟨p, hp, h⟩ := cross_in_PB f1 f2 hle (f2.length % 2) (by omega) i j hi hj (by omega)
    exact ⟨p, mem_append_left _ hp, Or.inl h⟩

theorem step3 (f1 f2 : List (Option α)) (hlen : f2.length = f1.length + 1)
    (e1 : f1.length % 2 = 1)
    (P1 P2 : List (Pairing (Option α))) (H : StepHyp f1 f2 P1 P2) :
    (∀ a ∈ f1 ++ f2, ∃ p ∈ pairBetween f1 f2 (f2.length % 2) ++ zipWith (combine 3) P1 P2,
      lastLab p = some a) ∧
    ∀ a ∈ f1 ++ f2, ∀ b ∈ f1 ++ f2, a ≠ b →
      Covered (pairBetween f1 f2 (f2.length % 2) ++ zipWith (combine 3) P1 P2) a b := by
  have e2 : f2.length % 2 = 0 := by omega
  refine ⟨?_, ?_⟩
  · intro a ha
    rcases mem_append.mp ha with ha | ha
    · obtain ⟨p1, hp1, h⟩ := H.s1A e1 a ha
      obtain ⟨p2, _, hz, _⟩ := zip_at (r := 3) H.hlen hp1
      obtain ⟨q1, x, rfl, _⟩ := shape_odd (H.inv1 p1 hp1) e1
      rw [lastLab_snoc] at h; injection h with h; subst h
      refine ⟨_, mem_append_right _ hz, ?_⟩
      rw [combine_eq3, lastLab_snoc]
    · obtain ⟨j, hj, rfl⟩ := getElem_of_mem ha
      obtain ⟨p, hp, h⟩ := single_in_PB f1 f2 hlen (f2.length % 2) (by omega) j hj (by omega)
      exact ⟨p, mem_append_left _ hp, h⟩
  · apply covered_of_cases
    · intro a ha b hb hab
      obtain ⟨p1, hp1, h⟩ := H.cA a ha b hb hab
      obtain ⟨p2, _, hz, _⟩ := zip_at (r := 3) H.hlen hp1
      obtain ⟨q1, x, rfl, _⟩ := shape_odd (H.inv1 p1 hp1) e1
      refine ⟨_, mem_append_right _ hz, ?_⟩
      rw [combine_eq3]
      exact (or_mem_snoc_pr h).imp (fun m => mem_append_left _ (mem_append_left _ m))
        (fun m => mem_append_left _ (mem_append_left _ m))
    · intro a ha b hb hab
      obtain ⟨p2, hp2, h⟩ := H.cB a ha b hb hab
      obtain ⟨p1, hp1, hz⟩ := zip_at_right (r := 3) H.hlen hp2
      obtain ⟨q1, x, rfl, _⟩ := shape_odd (H.inv1 p1 hp1) e1
      refine ⟨_, mem_append_right _ hz, ?_⟩
      rw [combine_eq3]
      exact h.imp (fun m => mem_append_left _ (mem_append_right _ m))
        (fun m => mem_append_left _ (mem_append_right _ m))
    · intro a ha b hb
      obtain ⟨i, hi, rfl⟩ := getElem_of_mem ha
      obtain ⟨j, hj, rfl⟩ := getElem_of_mem hb
      obtain ⟨p, hp, h⟩ := cross_in_PB f1 f2 (by omega) (f2.length % 2) (by omega) i j hi hj (by omega)
      exact ⟨p, mem_append_left _ hp, Or.inl h⟩


theorem step2 (f1 f2 : List (Option α)) (hlen : f2.length = f1.length) (hnd1 : f1.Nodup)
    (e1 : f1.length % 2 = 1)
    (P1 P2 : List (Pairing (Option α))) (H : StepHyp f1 f2 P1 P2) :
    ∀ a ∈ f1 ++ f2, ∀ b ∈ f1 ++ f2, a ≠ b →
      Covered (pairBetween f1 f2 (f2.length % 2) ++ zipWith (combine 2) P1 P2) a b := by
  have e2 : f2.length % 2 = 1 := by omega
  apply covered_of_cases
  · intro a ha b hb hab
    obtain ⟨p1, hp1, h⟩ := H.cA a ha b hb hab
    obtain ⟨p2, hp2, hz, _⟩ := zip_at (r := 2) H.hlen hp1
    obtain ⟨q1, x, rfl, _⟩ := shape_odd (H.inv1 p1 hp1) e1
    obtain ⟨q2, y, rfl, _⟩ := shape_odd (H.inv2 p2 hp2) e2
    refine ⟨_, mem_append_right _ hz, ?_⟩
    rw [combine_eq2]
    exact (or_mem_snoc_pr h).imp (fun m => mem_append_left _ (mem_append_left _ m))
      (fun m => mem_append_left _ (mem_append_left _ m))
  · intro a ha b hb hab
    obtain ⟨p2, hp2, h⟩ := H.cB a ha b hb hab
    obtain ⟨p1, hp1, hz⟩ := zip_at_right (r := 2) H.hlen hp2
    obtain ⟨q1, x, rfl, _⟩ := shape_odd (H.inv1 p1 hp1) e1
    obtain ⟨q2, y, rfl, _⟩ := shape_odd (H.inv2 p2 hp2) e2
    refine ⟨_, mem_append_right _ hz, ?_⟩
    rw [combine_eq2]
    exact (or_mem_snoc_pr h).imp (fun m => mem_append_left _ (mem_append_right _ m))
      (fun m => mem_append_left _ (mem_append_right _ m))
  · intro a ha b hb
    obtain ⟨i, hi, rfl⟩ := getElem_of_mem ha
    obtain ⟨j, hj, rfl⟩ := getElem_of_mem hb
    by_cases hji : j = i
    · -- the round skipped by the offset: the two bare labels of the halves are aligned
      subst hji
      obtain ⟨p1, hp1, h⟩ := H.s1A e1 f1[j] ha
      obtain ⟨p2, hp2, hz, hrel⟩ := zip_at (r := 2) H.hlen hp1
      have hr := hrel _ (H.rel hlen.symm)
      obtain ⟨q1, x, rfl, _⟩ := shape_odd (H.inv1 p1 hp1) e1
      obtain ⟨q2, y, rfl, _⟩ := shape_odd (H.inv2 p2 hp2) e2
      rw [lastLab_snoc] at h; injection h with h; subst h
      have hy : y = f2[j] := Rpos_unique hnd1 hi hj (PR_snoc_sg hr).2
      subst hy
      refine ⟨_, mem_append_right _ hz, Or.inl ?_⟩
      rw [combine_eq2]; simp
    · obtain ⟨p, hp, h⟩ := cross_in_PB f1 f2 (by omega) (f2.length % 2) (by omega) i j hi hj (by omega)
      exact ⟨p, mem_append_left _ hp, Or.inl h⟩

theorem step1 [DecidableEq α] (f1 f2 : List (Option α)) (hlen : f2.length = f1.length + 1)
    (hndA : (f1 ++ [none]).Nodup) (hnone1 : none ∉ f1)
    (e1 : f1.length % 2 = 0)
    (P1 P2 : List (Pairing (Option α))) (H : StepHyp (f1 ++ [none]) f2 P1 P2) :
    (∀ a ∈ f1 ++ f2, ∃ p ∈ pairBetween f1 f2 (f2.length % 2) ++ zipWith (combine 1) P1 P2,
      lastLab p = some a) ∧
    ∀ a ∈ f1 ++ f2, ∀ b ∈ f1 ++ f2, a ≠ b →
      Covered (pairBetween f1 f2 (f2.length % 2) ++ zipWith (combine 1) P1 P2) a b := by
  have e2 : f2.length % 2 = 1 := by omega
  have eA : (f1 ++ [none]).length % 2 = 1 := by simp; omega
  have hlenA : (f1 ++ [none]).length = f2.length := by simp; omega
  -- the bare label of a yield of the padded half is `None` or a label of `f1`
  have hx1 : ∀ (q1 : Pairing (Option α)) (x1 : Option α), Good (f1 ++ [none]) (q1 ++ [Item.sg x1]) →
      Item.pr x1 none ∉ q1 ∧ (∀ c, Item.pr c none ∈ q1 → x1 ≠ none) := by
    intro q1 x1 g
    have hp := g.perm
    simp only [labelsOf_append, labelsOf] at hp
    have hn : (labelsOf q1 ++ [x1]).Nodup := hp.nodup_iff.mpr hndA
    refine ⟨?_, ?_⟩
    · intro hm
      exact (List.nodup_append.mp hn).2.2 _ (mem_labelsOf_of_pr hm).1 x1 (by simp) rfl
    · intro c hm e
      subst e
      exact (List.nodup_append.mp hn).2.2 _ (mem_labelsOf_of_pr hm).2 none (by simp) rfl
  refine ⟨?_, ?_⟩
  · intro a ha
    rcases mem_append.mp ha with ha | ha
    · -- `a` in the first half: it becomes bare in the round where the padded half pairs it with None
      have hane : a ≠ none := fun e => hnone1 (e ▸ ha)
      obtain ⟨p1, hp1, h⟩ := H.cA a (mem_append_left _ ha) none (by simp) hane
      obtain ⟨p2, hp2, hz, _⟩ := zip_at (r := 1) H.hlen hp1
      have g1 := H.inv1 p1 hp1
      obtain ⟨q1, x1, rfl, hq1⟩ := shape_odd g1 eA
      obtain ⟨q2, y, rfl, _⟩ := shape_odd (H.inv2 p2 hp2) e2
      have hmem : Item.pr a none ∈ q1 := by
        rcases h with h | h
        · exact mem_snoc_pr h
        · exact absurd h (g1.last none (by simp) a)
      have hx := (hx1 q1 x1 g1).2 a hmem
      cases x1 with
      | none => exact absurd rfl hx
      | some x =>
        obtain ⟨z, hz1⟩ := zero_facts f1 hndA q1 x g1 hq1
        have : a ∈ [z] := zeroIndices_mem hmem hz1
        simp at this; subst this
        refine ⟨_, mem_append_right _ hz, ?_⟩
        rw [combine_eq1B _ _ _ _ _ hz1, lastLab_snoc]
    · obtain ⟨j, hj, rfl⟩ := getElem_of_mem ha
      by_cases hjl : j = f1.length
      · -- the last label: bare when the padded half has None bare (aligned position)
        obtain ⟨p1, hp1, h⟩ := H.s1A eA none (by simp)
        obtain ⟨p2, hp2, hz, hrel⟩ := zip_at (r := 1) H.hlen hp1
        have hr := hrel _ (H.rel hlenA)
        obtain ⟨q1, x1, rfl, _⟩ := shape_odd (H.inv1 p1 hp1) eA
        obtain ⟨q2, y, rfl, _⟩ := shape_odd (H.inv2 p2 hp2) e2
        rw [lastLab_snoc] at h; injection h with h; subst h
        have hy : f2[f1.length]? = some y :=
          Rpos_unique' hndA (i := f1.length) (by simp) (PR_snoc_sg hr).2
        rw [getElem?_eq_getElem (by omega)] at hy
        injection hy with hy
        refine ⟨_, mem_append_right _ hz, ?_⟩
        rw [combine_eq1A, lastLab_snoc, ← hy]; simp [hjl]
      · obtain ⟨p, hp, h⟩ := single_in_PB f1 f2 hlen (f2.length % 2) (by omega) j hj (by omega)
        exact ⟨p, mem_append_left _ hp, h⟩
  · apply covered_of_cases
    · intro a ha b hb hab
      have hbne : b ≠ none := fun e => hnone1 (e ▸ hb)
      have hane : a ≠ none := fun e => hnone1 (e ▸ ha)
      obtain ⟨p1, hp1, h⟩ := H.cA a (mem_append_left _ ha) b (mem_append_left _ hb) hab
      obtain ⟨p2, hp2, hz, _⟩ := zip_at (r := 1) H.hlen hp1
      have g1 := H.inv1 p1 hp1
      obtain ⟨q1, x1, rfl, hq1⟩ := shape_odd g1 eA
      obtain ⟨q2, y, rfl, _⟩ := shape_odd (H.inv2 p2 hp2) e2
      have h' := or_mem_snoc_pr h
      clear h
      refine ⟨_, mem_append_right _ hz, ?_⟩
      cases x1 with
      | none =>
        rw [combine_eq1A]
        exact h'.imp (fun m => mem_append_left _ (mem_append_left _ m))
          (fun m => mem_append_left _ (mem_append_left _ m))
      | some x =>
        obtain ⟨z, hz1⟩ := zero_facts f1 hndA q1 x g1 hq1
        rw [combine_eq1B _ _ _ _ _ hz1]
        obtain ⟨a', rfl⟩ := Option.ne_none_iff_exists'.mp hane
        obtain ⟨b', rfl⟩ := Option.ne_none_iff_exists'.mp hbne
        exact h'.imp
          (fun m => mem_append_left _ (mem_append_left _ (mem_append_left _ (dnp_mem m))))
          (fun m => mem_append_left _ (mem_append_left _ (mem_append_left _ (dnp_mem m))))
    · intro a ha b hb hab
      obtain ⟨p2, hp2, h⟩ := H.cB a ha b hb hab
      obtain ⟨p1, hp1, hz⟩ := zip_at_right (r := 1) H.hlen hp2
      have g1 := H.inv1 p1 hp1
      obtain ⟨q1, x1, rfl, hq1⟩ := shape_odd g1 eA
      obtain ⟨q2, y, rfl, _⟩ := shape_odd (H.inv2 p2 hp2) e2
      have h' := or_mem_snoc_pr h
      clear h
      refine ⟨_, mem_append_right _ hz, ?_⟩
      cases x1 with
      | none =>
        rw [combine_eq1A]
        exact h'.imp (fun m => mem_append_left _ (mem_append_right _ m))
          (fun m => mem_append_left _ (mem_append_right _ m))
      | some x =>
        obtain ⟨z, hz1⟩ := zero_facts f1 hndA q1 x g1 hq1
        rw [combine_eq1B _ _ _ _ _ hz1]
        exact h'.imp
          (fun m => mem_append_left _ (mem_append_left _ (mem_append_right _ m)))
          (fun m => mem_append_left _ (mem_append_left _ (mem_append_right _ m)))
    · intro a ha b hb
      obtain ⟨i, hi, rfl⟩ := getElem_of_mem ha
      obtain ⟨j, hj, rfl⟩ := getElem_of_mem hb
      by_cases hji : j = i
      · subst hji
        have hane : f1[j] ≠ none := fun e => hnone1 (e ▸ ha)
        obtain ⟨p1, hp1, h⟩ := H.s1A eA f1[j] (mem_append_left _ ha)
        obtain ⟨p2, hp2, hz, hrel⟩ := zip_at (r := 1) H.hlen hp1
        have hr := hrel _ (H.rel hlenA)
        have g1 := H.inv1 p1 hp1
        obtain ⟨q1, x1, rfl, hq1⟩ := shape_odd g1 eA
        obtain ⟨q2, y, rfl, _⟩ := shape_odd (H.inv2 p2 hp2) e2
        rw [lastLab_snoc] at h; injection h with h; subst h
        have hy : f2[j]? = some y :=
          Rpos_unique' hndA (i := j) (by rw [List.getElem?_append_left hi, List.getElem?_eq_getElem hi]) (PR_snoc_sg hr).2
        rw [getElem?_eq_getElem hj] at hy
        injection hy with hy
        subst hy
        obtain ⟨x, hx⟩ := Option.ne_none_iff_exists'.mp hane
        rw [hx] at g1 hz ⊢
        obtain ⟨z, hz1⟩ := zero_facts f1 hndA q1 x g1 hq1
        refine ⟨_, mem_append_right _ hz, Or.inl ?_⟩
        rw [combine_eq1B _ _ _ _ _ hz1]; simp
      · obtain ⟨p, hp, h⟩ := cross_in_PB f1 f2 (by omega) (f2.length % 2) (by omega) i j hi hj (by omega)
        exact ⟨p, mem_append_left _ hp, Or.inl h⟩


/-! ### the induction -/

theorem cover_aux [DecidableEq α] : ∀ (fuel : Nat) (l : List (Option α)), l.length ≤ fuel → l.Nodup →
    none ∉ l.dropLast →
    (l.length % 2 = 1 → ∀ a ∈ l, ∃ p ∈ pairWithinAux fuel l, lastLab p = some a) ∧
    (∀ a ∈ l, ∀ b ∈ l, a ≠ b → Covered (pairWithinAux fuel l) a b) := by
  intro fuel
  induction fuel with
  | zero =>
    intro l hl _ _
    have e : l = [] := List.length_eq_zero_iff.mp (by omega)
    subst e; simp
  | succ fuel ih =>
    intro l hl hnd hnone
    by_cases h2 : 2 ≤ l.length
    · rw [pairWithinAux_succ fuel l h2]
      have F := splitFacts l h2 hnd hnone
      generalize l.take (l.length / 2) = f1 at *
      generalize l.drop (l.length / 2) = f2 at *
      have hsplit := F.split
      have ih2 := ih f2 (by rw [F.len2]; omega) F.nd2 F.none2
      have inv2 := pairWithinAux_inv fuel f2 (by rw [F.len2]; omega) F.nd2 F.none2
      by_cases hr1 : l.length % 4 = 1
      · simp only [hr1, if_true]
        have lA : (f1 ++ [none]).length ≤ fuel := by simp [F.len1]; omega
        have nA : none ∉ (f1 ++ [none]).dropLast := by simpa using F.none1
        have ih1 := ih (f1 ++ [none]) lA F.nd1' nA
        have inv1 := pairWithinAux_inv fuel (f1 ++ [none]) lA F.nd1' nA
        have hlen : f2.length = f1.length + 1 := by rw [F.len1, F.len2]; omega
        have H : StepHyp (f1 ++ [none]) f2 (pairWithinAux fuel (f1 ++ [none])) (pairWithinAux fuel f2) :=
          { inv1 := inv1.2, inv2 := inv2.2
            hlen := by rw [inv1.1, inv2.1]; simp [hlen]
            s1A := ih1.1, cA := ih1.2, cB := ih2.2
            rel := fun hl' => pairWithinAux_rel fuel _ _ _ lA (forall₂_Rpos _ _ hl') F.nd1' F.nd2 nA F.none2 }
        have := step1 f1 f2 hlen F.nd1' F.none1 (by rw [F.len1]; omega) _ _ H
        rw [hsplit]
        exact ⟨fun _ => this.1, this.2⟩
      · simp only [hr1, if_false]
        have l1 : f1.length ≤ fuel := by rw [F.len1]; omega
        have n1 : none ∉ f1.dropLast := fun h => F.none1 (List.dropLast_subset _ h)
        have ih1 := ih f1 l1 F.nd1 n1
        have inv1 := pairWithinAux_inv fuel f1 l1 F.nd1 n1
        have hcases : l.length % 4 = 0 ∨ l.length % 4 = 2 ∨ l.length % 4 = 3 := by omega
        have Hmk : rounds f1.length = rounds f2.length →
            StepHyp f1 f2 (pairWithinAux fuel f1) (pairWithinAux fuel f2) := fun hr =>
          { inv1 := inv1.2, inv2 := inv2.2
            hlen := by rw [inv1.1, inv2.1]; exact hr
            s1A := ih1.1, cA := ih1.2, cB := ih2.2
            rel := fun hl' => pairWithinAux_rel fuel _ _ _ l1 (forall₂_Rpos _ _ hl') F.nd1 F.nd2 n1 F.none2 }
        rcases hcases with e | e | e
        · rw [e, hsplit]
          have e1 : f1.length % 2 = 0 := by rw [F.len1]; omega
          have e2 : f2.length % 2 = 0 := by rw [F.len2]; omega
          have hl12 : f1.length = f2.length := by rw [F.len1, F.len2]; omega
          have H := Hmk (by rw [hl12])
          refine ⟨fun ho => ?_, step0 f1 f2 (by omega) e1 e2 _ _ H⟩
          simp at ho; omega
        · rw [e, hsplit]
          have e1 : f1.length % 2 = 1 := by rw [F.len1]; omega
          have hl12 : f2.length = f1.length := by rw [F.len1, F.len2]; omega
          have H := Hmk (by rw [hl12])
          refine ⟨fun ho => ?_, step2 f1 f2 hl12 F.nd1 e1 _ _ H⟩
          simp at ho; omega
        · rw [e, hsplit]
          have e1 : f1.length % 2 = 1 := by rw [F.len1]; omega
          have hl12 : f2.length = f1.length + 1 := by rw [F.len1, F.len2]; omega
          have H := Hmk (by simp [rounds, hl12]; omega)
          have := step3 f1 f2 hl12 e1 _ _ H
          exact ⟨fun _ => this.1, this.2⟩
    · match l with
      | [] => simp
      | [a] =>
        refine ⟨fun _ b hb => ?_, ?_⟩
        · simp only [mem_singleton] at hb; subst hb
          exact ⟨[Item.sg b], by simp [pairWithinAux], by simp [lastLab]⟩
        · intro x hx y hy hxy
          simp only [mem_singleton] at hx hy
          exact absurd (hx.trans hy.symm) hxy
      | a :: b :: t => simp at h2

/-- `pair_within` pairs every two distinct labels in some yield (all lengths) -/
theorem pairWithin_covers [DecidableEq α] (l : List (Option α)) (hnd : l.Nodup) (hnone : none ∉ l) :
    ∀ a ∈ l, ∀ b ∈ l, a ≠ b → ∃ p ∈ pairWithin l, Item.pr a b ∈ p ∨ Item.pr b a ∈ p :=
  (cover_aux l.length l (Nat.le_refl _) hnd (fun h => hnone (List.dropLast_subset _ h))).2

end
end OFV.Proofs.C18
