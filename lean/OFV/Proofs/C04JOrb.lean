/- Dual-basis jellium: the FermionOperator model as a double sum over orbitals; row sums of the pair potential. -/
import OFV.Proofs.C04JAlg

set_option linter.unusedSimpArgs false
set_option linter.unusedVariables false

namespace OFV
namespace Jel
open Model Model.C04J Spec Sem

/-- contribution of the ordered pair of orbitals `(p, q)` to the FermionOperator model:
`K(site q − site p) a†_p a_q` for equal spins, `P(site q − site p) n_p n_q` for `p ≠ q` -/
def hM (l : List Nat) (sl : Bool) (kin pot : List Nat → GQ) (m x p q : Nat) : GQ :=
  (if skipOf sl p q then 0 else kin (dl l sl q p) * termCoef .fermion [(p, 1), (q, 0)] [m] [x])
  + (if p == q then 0 else pot (dl l sl q p) * termCoef .fermion [(p, 1), (p, 0), (q, 1), (q, 0)] [m] [x])

theorem sum_double (N : Nat) (F : Nat → GQ) :
    ((List.range (2 * N)).map F).sum = ((List.range N).map fun t => F (2 * t) + F (2 * t + 1)).sum := by
  induction N with
  | zero => simp
  | succ N ih =>
    have : 2 * (N + 1) = 2 * N + 1 + 1 := by ring
    rw [this, sum_range_succJ, sum_range_succJ, ih, sum_range_succJ]; ring

/-- sums over grid points as sums over site numbers -/
theorem sum_points (l : List Nat) (F : List Nat → GQ) :
    ((allPoints l).map F).sum = ((List.range (prodL l)).map fun t => F (gi l t)).sum := by
  rw [← sum_allPoints l (fun t => F (gi l t))]
  congr 1; apply List.map_congr_left; intro x hx
  rw [gi_tf l x ((allPoints_mem l x).1 hx)]

theorem gi_VP' (l : List Nat) (t : Nat) (h : t < prodL l) : VP l (gi l t) :=
  gi_VP l t (pos_of_prodL_pos l (by omega))

/-- **the model as a sum over ordered pairs of orbitals** -/
theorem model_orbitals (l : List Nat) (sl : Bool) (kin pot : List Nat → GQ) (m x : Nat) :
    ((allPoints l).map fun s => ((allPoints l).map fun y => modelTerm l sl kin pot m x (subIdx l y s) s y).sum).sum
      = ((List.range (nqOf l sl)).map fun p => ((List.range (nqOf l sl)).map fun q => hM l sl kin pot m x p q).sum).sum := by
  rw [sum_points]
  have e : ∀ t, ((allPoints l).map fun y => modelTerm l sl kin pot m x (subIdx l y (gi l t)) (gi l t) y).sum
      = ((List.range (prodL l)).map fun u =>
          modelTerm l sl kin pot m x (subIdx l (gi l u) (gi l t)) (gi l t) (gi l u)).sum := by
    intro t; rw [sum_points]
  simp only [e]
  cases sl with
  | true =>
    simp only [nqOf, if_true]
    congr 1; apply List.map_congr_left; intro t ht
    congr 1; apply List.map_congr_left; intro u hu
    rw [List.mem_range] at ht hu
    unfold modelTerm hM
    simp only [spins, if_true, List.map_cons, List.map_nil, List.sum_cons, List.sum_nil, add_zero, orbitalId,
      tensorFactor_eq, tf_gi l t ht, tf_gi l u hu, skipOf, Bool.not_true, Bool.false_and, Bool.false_eq_true, if_false,
      dl, gridIndices_eq]
  | false =>
    simp only [nqOf, Bool.false_eq_true, if_false]
    rw [sum_double]
    congr 1; apply List.map_congr_left; intro t ht
    rw [sum_double, sum_double, ← sum_add_map]
    congr 1; apply List.map_congr_left; intro u hu
    rw [List.mem_range] at ht hu
    unfold modelTerm hM
    have d0 : ∀ a b : Nat, a < 2 → b < 2 → (2 * u + b) / 2 = u ∧ (2 * t + a) / 2 = t := by
      intro a b ha hb; constructor <;> omega
    have k00 : skipOf false (2 * t) (2 * u) = false := by simp [skipOf]
    have k01 : skipOf false (2 * t) (2 * u + 1) = true := by simp [skipOf]
    have k10 : skipOf false (2 * t + 1) (2 * u) = true := by simp [skipOf]
    have k11 : skipOf false (2 * t + 1) (2 * u + 1) = false := by simp [skipOf]; omega
    have g1 : (2 * u + 1) / 2 = u := by omega
    have g2 : (2 * t + 1) / 2 = t := by omega
    have g3 : 2 * u / 2 = u := by omega
    have g4 : 2 * t / 2 = t := by omega
    simp only [spins, Bool.false_eq_true, if_false, List.map_cons, List.map_nil, List.sum_cons, List.sum_nil, add_zero,
      orbitalId, tensorFactor_eq, tf_gi l t ht, tf_gi l u hu, k00, k01, k10, k11, if_true, dl, gridIndices_eq,
      g1, g2, g3, g4, Nat.mul_comm t 2, Nat.mul_comm u 2, zero_add]
    ring

/-- **rows of the pair potential sum to zero** (`Σ_δ P(δ) = 0`, a property of the momentum sums) -/
theorem pot_rows (l : List Nat) (sl : Bool) (pot : List Nat → GQ) (hsum : ((allPoints l).map pot).sum = 0)
    (a : Nat) (ha : a < nqOf l sl) :
    ((List.range (nqOf l sl)).map fun b => pot (dl l sl b a)).sum = 0 := by
  have core : ∀ s, VP l s → ((List.range (prodL l)).map fun u => pot (subIdx l (gi l u) s)).sum = 0 := by
    intro s hs
    rw [← sum_points l (fun y => pot (subIdx l y s)), ← shift_sum l s hs (fun b _ => pot b)]
    exact hsum
  cases sl with
  | true =>
    simp only [nqOf, if_true] at ha ⊢
    simp only [dl, gridIndices_eq, if_true]
    exact core _ (gi_VP' l a ha)
  | false =>
    simp only [nqOf, Bool.false_eq_true, if_false] at ha ⊢
    rw [sum_double]
    simp only [dl, gridIndices_eq, Bool.false_eq_true, if_false]
    have g1 : ∀ u, (2 * u + 1) / 2 = u := by intro u; omega
    have g3 : ∀ u, 2 * u / 2 = u := by intro u; omega
    simp only [g1, g3]
    rw [sum_add_map, core _ (gi_VP' l (a / 2) (by omega))]
    ring

end Jel
end OFV
