/-
C13 — `Grid.orbital_id` / `Grid.grid_indices` are mutually inverse (mixed-radix numerals).
-/
import OFV.Model.C13Grid
import Mathlib.Data.List.Basic
import Mathlib.Data.List.Forall2

set_option linter.unusedSimpArgs false
set_option linter.unusedVariables false

namespace OFV.C13
open OFV.Model.C13

theorem foldl_mul_init (l : List Nat) (a : Nat) : l.foldl (· * ·) a = a * l.foldl (· * ·) 1 := by
  induction l generalizing a with
  | nil => simp
  | cons x l ih => simp only [List.foldl_cons]; rw [ih (a * x), ih (1 * x)]; simp [Nat.mul_assoc]

theorem prodTake_zero (L : List Nat) : prodTake L 0 = 1 := by simp [prodTake]

theorem prodTake_cons_succ (l : Nat) (ls : List Nat) (d : Nat) : prodTake (l :: ls) (d + 1) = l * prodTake ls d := by
  simp only [prodTake, List.take_succ_cons, List.foldl_cons]
  rw [foldl_mul_init]; simp

theorem foldl_add_init (g : Nat × Nat → Nat) (xs : List (Nat × Nat)) (a : Nat) :
    xs.foldl (fun acc cd => acc + g cd) a = a + xs.foldl (fun acc cd => acc + g cd) 0 := by
  induction xs generalizing a with
  | nil => simp
  | cons x xs ih => simp only [List.foldl_cons]; rw [ih (a + g x), ih (0 + g x)]; omega

/-- the accumulating loop of `orbital_id` from dimension `k + 1` on, for lengths `l :: ls` -/
theorem tensorFactor_aux (l : Nat) (ls cs : List Nat) (k acc : Nat) :
    (cs.zipIdx (k + 1)).foldl (fun acc (cd : Nat × Nat) => acc + cd.1 * prodTake (l :: ls) cd.2) acc
      = acc + l * ((cs.zipIdx k).foldl (fun acc (cd : Nat × Nat) => acc + cd.1 * prodTake ls cd.2) 0) := by
  induction cs generalizing k acc with
  | nil => simp
  | cons c cs ih =>
    simp only [List.zipIdx_cons, List.foldl_cons]
    rw [ih (k + 1), prodTake_cons_succ,
      foldl_add_init (fun cd => cd.1 * prodTake ls cd.2) _ (0 + c * prodTake ls k)]
    simp only [Nat.mul_add, Nat.zero_add]
    rw [Nat.mul_left_comm]
    omega

/-- `orbital_id`'s tensor factor obeys the Horner recursion of a mixed-radix number -/
theorem tensorFactor_cons (l c : Nat) (ls cs : List Nat) :
    tensorFactor (l :: ls) (c :: cs) = c + l * tensorFactor ls cs := by
  unfold tensorFactor
  simp only [List.zipIdx_cons, List.foldl_cons]
  have := tensorFactor_aux l ls cs 0 (0 + c * prodTake (l :: ls) 0)
  simp only [Nat.zero_add] at this ⊢
  rw [this, prodTake_zero]; simp

theorem tensorFactor_nil (L : List Nat) : tensorFactor L [] = 0 := by simp [tensorFactor]

theorem gridIndices_cons (l : Nat) (ls : List Nat) (q : Nat) :
    gridIndices (l :: ls) q true = (q % l) :: gridIndices ls (q / l) true := by
  simp only [gridIndices, if_true, List.length_cons, List.range_succ_eq_map, List.map_cons, List.map_map]
  congr 1
  · rw [prodTake_cons_succ, prodTake_zero, prodTake_zero]; simp
  · apply List.map_congr_left
    intro d _
    simp only [Function.comp]
    rw [prodTake_cons_succ, prodTake_cons_succ, ← Nat.div_div_eq_div_mul, Nat.mod_mul_right_div_self]

theorem gridIndices_nil (q : Nat) : gridIndices [] q true = [] := by simp [gridIndices]

/-- **grid index bijection (1)**: `grid_indices(orbital_id(c)) = c` for coordinates inside the grid -/
theorem gridIndices_tensorFactor (L cs : List Nat) (h : List.Forall₂ (· < ·) cs L) :
    gridIndices L (tensorFactor L cs) true = cs := by
  induction h with
  | nil => simp [gridIndices_nil]
  | @cons c l cs ls hcl _ ih =>
    rw [tensorFactor_cons, gridIndices_cons]
    have h1 : (c + l * tensorFactor ls cs) % l = c := by
      rw [Nat.add_mul_mod_self_left, Nat.mod_eq_of_lt hcl]
    have h2 : (c + l * tensorFactor ls cs) / l = tensorFactor ls cs := by
      rw [Nat.add_mul_div_left _ _ (by omega : 0 < l), Nat.div_eq_of_lt hcl]; simp
    rw [h1, h2, ih]

/-- `numpy.prod(self.length)` -/
def numPoints (L : List Nat) : Nat := prodTake L L.length

theorem numPoints_cons (l : Nat) (ls : List Nat) : numPoints (l :: ls) = l * numPoints ls := by
  simp [numPoints, prodTake_cons_succ]

/-- **grid index bijection (2)**: `orbital_id(grid_indices(q)) = q` for `q < num_points`, and the
indices lie inside the grid -/
theorem tensorFactor_gridIndices (L : List Nat) (q : Nat) (h : q < numPoints L) :
    tensorFactor L (gridIndices L q true) = q ∧ List.Forall₂ (· < ·) (gridIndices L q true) L := by
  induction L generalizing q with
  | nil =>
    simp [numPoints, prodTake] at h
    subst h
    simp [gridIndices_nil, tensorFactor_nil]
  | cons l ls ih =>
    rw [numPoints_cons] at h
    have hl : 0 < l := by
      rcases Nat.eq_zero_or_pos l with rfl | h0
      · simp at h
      · exact h0
    have hq : q / l < numPoints ls := by
      rw [Nat.div_lt_iff_lt_mul hl, Nat.mul_comm]; exact h
    obtain ⟨h1, h2⟩ := ih (q / l) hq
    rw [gridIndices_cons, tensorFactor_cons, h1]
    exact ⟨Nat.mod_add_div q l, List.Forall₂.cons (Nat.mod_lt _ hl) h2⟩

theorem gridIndices_spinful (L : List Nat) (q : Nat) : gridIndices L q false = gridIndices L (q / 2) true := by
  simp [gridIndices]

/-- spinful orbitals: `orbital_id(c, σ) = 2·tensor_factor + σ`; `grid_indices` drops the spin bit,
which is recovered as `q % 2` (as `fourier_transform` does) -/
theorem gridIndices_orbitalId_spin (L cs : List Nat) (σ : Nat) (hσ : σ < 2) (h : List.Forall₂ (· < ·) cs L) :
    gridIndices L (orbitalId L cs (some σ)) false = cs ∧ orbitalId L cs (some σ) % 2 = σ := by
  simp only [orbitalId, gridIndices_spinful]
  have h1 : (2 * tensorFactor L cs + σ) / 2 = tensorFactor L cs := by omega
  have h2 : (2 * tensorFactor L cs + σ) % 2 = σ := by omega
  rw [h1, h2]
  exact ⟨gridIndices_tensorFactor L cs h, rfl⟩

end OFV.C13
