/-
C07 — the diagonal-Coulomb commutator in a ring interpretation: every helper of
`commutator_ordered_diagonal_coulomb_with_two_body_operator` adds `coef · [a, b]` to `prior_terms`, in
EVERY ring in which the ladder operators satisfy the canonical anticommutation relations (in
particular as endomorphisms of Fock space).  Uses the interpretation layer of OFV/Proofs/C03.lean.
-/
import OFV.Proofs.C03Main
import OFV.Proofs.C07DoubleComm
import OFV.Model.C07DC

namespace OFV
namespace Proofs
namespace C07R
open OFV.Model OFV.Model.C07 OFV.Proofs.C03

variable {A : Type} [Ring A]

/-- the canonical anticommutation relations for the interpretation `I` -/
structure CAR (I : Interp A) : Prop where
  mixed : ∀ x l : Factor, x.2 ≠ 0 → l.2 = 0 →
    I.g l * I.g x + I.g x * I.g l = if x.1 = l.1 then 1 else 0
  same : ∀ x l : Factor, x.2 = l.2 → x.1 ≠ l.1 → I.g l * I.g x + I.g x * I.g l = 0
  sq : ∀ x l : Factor, x.2 = l.2 → x.1 = l.1 → I.g l * I.g x = 0

theorem fock_CAR : CAR fockInterp := ⟨fock_car_mixed, fock_car_same, fock_car_sq⟩

theorem CAR.relations {I : Interp A} (h : CAR I) : Relations I .fermion :=
  relations_fermion I h.mixed h.same h.sq

section car
variable {I : Interp A} (h : CAR I)
include h

/-- creation operators anticommute (also `a†_p a†_p = 0`) -/
theorem anti_c (p r : Nat) : I.g (p, 1) * I.g (r, 1) + I.g (r, 1) * I.g (p, 1) = 0 := by
  by_cases hpr : p = r
  · subst hpr
    have := h.sq (p, 1) (p, 1) rfl rfl
    rw [this]; simp
  · have := h.same (r, 1) (p, 1) rfl (fun e => hpr e.symm)
    exact this

theorem anti_d (p r : Nat) : I.g (p, 0) * I.g (r, 0) + I.g (r, 0) * I.g (p, 0) = 0 := by
  by_cases hpr : p = r
  · subst hpr
    have := h.sq (p, 0) (p, 0) rfl rfl
    rw [this]; simp
  · have := h.same (r, 0) (p, 0) rfl (fun e => hpr e.symm)
    exact this

theorem mixed_dc (q r : Nat) : I.g (q, 0) * I.g (r, 1) + I.g (r, 1) * I.g (q, 0) = if r = q then 1 else 0 :=
  h.mixed (r, 1) (q, 0) (by simp) rfl

/-- `[a†_p a_q, a†_r] = δ_qr a†_p` -/
theorem comm_one_c (p q r : Nat) :
    I.g (p, 1) * I.g (q, 0) * I.g (r, 1) - I.g (r, 1) * (I.g (p, 1) * I.g (q, 0)) =
      (if r = q then 1 else 0) * I.g (p, 1) := by
  have h1 := mixed_dc h q r
  have h2 := anti_c h p r
  have e1 : I.g (q, 0) * I.g (r, 1) = (if r = q then 1 else 0) - I.g (r, 1) * I.g (q, 0) := by
    rw [← h1]; noncomm_ring
  have e2 : I.g (p, 1) * I.g (r, 1) = - (I.g (r, 1) * I.g (p, 1)) := by
    rw [eq_neg_iff_add_eq_zero]; exact h2
  rw [mul_assoc, e1, mul_sub, ← mul_assoc (I.g (p, 1)) (I.g (r, 1)), e2]
  split <;> noncomm_ring

/-- `[a†_p a_q, a_t] = -δ_pt a_q` -/
theorem comm_one_d (p q t : Nat) :
    I.g (p, 1) * I.g (q, 0) * I.g (t, 0) - I.g (t, 0) * (I.g (p, 1) * I.g (q, 0)) =
      - ((if p = t then 1 else 0) * I.g (q, 0)) := by
  have h1 := mixed_dc h t p
  have h2 := anti_d h q t
  have e1 : I.g (t, 0) * I.g (p, 1) = (if p = t then 1 else 0) - I.g (p, 1) * I.g (t, 0) := by
    rw [← h1]; noncomm_ring
  have e2 : I.g (q, 0) * I.g (t, 0) = - (I.g (t, 0) * I.g (q, 0)) := by
    rw [eq_neg_iff_add_eq_zero]; exact h2
  rw [mul_assoc (I.g (p, 1)), e2, ← mul_assoc (I.g (t, 0)), e1]
  split <;> noncomm_ring

end car

/-! ### one-body with two-body -/

section onetwo
variable {I : Interp A} (h : CAR I)
include h

/-- `[a†_p a_q, a†_r a†_s a_t a_u]`: the derivation rule with `comm_one_c`, `comm_one_d` -/
theorem comm_one_two (p q r s t u : Nat) :
    I.g (p, 1) * I.g (q, 0) * (I.g (r, 1) * (I.g (s, 1) * (I.g (t, 0) * I.g (u, 0)))) -
      I.g (r, 1) * (I.g (s, 1) * (I.g (t, 0) * I.g (u, 0))) * (I.g (p, 1) * I.g (q, 0)) =
    (if r = q then 1 else 0) * (I.g (p, 1) * (I.g (s, 1) * (I.g (t, 0) * I.g (u, 0)))) +
    (if s = q then 1 else 0) * (I.g (r, 1) * (I.g (p, 1) * (I.g (t, 0) * I.g (u, 0)))) -
    (if p = t then 1 else 0) * (I.g (r, 1) * (I.g (s, 1) * (I.g (q, 0) * I.g (u, 0)))) -
    (if p = u then 1 else 0) * (I.g (r, 1) * (I.g (s, 1) * (I.g (t, 0) * I.g (q, 0)))) := by
  have k1 := comm_one_c h p q r
  have k2 := comm_one_c h p q s
  have k3 := comm_one_d h p q t
  have k4 := comm_one_d h p q u
  have hL : I.g (p, 1) * I.g (q, 0) * (I.g (r, 1) * (I.g (s, 1) * (I.g (t, 0) * I.g (u, 0)))) -
      I.g (r, 1) * (I.g (s, 1) * (I.g (t, 0) * I.g (u, 0))) * (I.g (p, 1) * I.g (q, 0)) =
      (I.g (p, 1) * I.g (q, 0) * I.g (r, 1) - I.g (r, 1) * (I.g (p, 1) * I.g (q, 0))) * (I.g (s, 1) * (I.g (t, 0) * I.g (u, 0))) +
      I.g (r, 1) * ((I.g (p, 1) * I.g (q, 0) * I.g (s, 1) - I.g (s, 1) * (I.g (p, 1) * I.g (q, 0))) * (I.g (t, 0) * I.g (u, 0))) +
      I.g (r, 1) * (I.g (s, 1) * ((I.g (p, 1) * I.g (q, 0) * I.g (t, 0) - I.g (t, 0) * (I.g (p, 1) * I.g (q, 0))) * I.g (u, 0))) +
      I.g (r, 1) * (I.g (s, 1) * (I.g (t, 0) * (I.g (p, 1) * I.g (q, 0) * I.g (u, 0) - I.g (u, 0) * (I.g (p, 1) * I.g (q, 0))))) := by
    noncomm_ring
  rw [hL, k1, k2, k3, k4]
  split_ifs <;> noncomm_ring

end onetwo

/-! ### the Model of `_commutator_one_body_with_two_body` -/

/-- "normal order if necessary, add if the indices differ" on the creation pair -/
def blkC (prior : Op) (x y t u : Nat) (c : GQ) : Op :=
  if x < y then bump prior [(y, 1), (x, 1), (t, 0), (u, 0)] (c * (-1))
  else if x > y then bump prior [(x, 1), (y, 1), (t, 0), (u, 0)] c
  else prior

/-- the same on the annihilation pair -/
def blkD (prior : Op) (r s x y : Nat) (c : GQ) : Op :=
  if x < y then bump prior [(r, 1), (s, 1), (y, 0), (x, 0)] (c * (-1))
  else if x > y then bump prior [(r, 1), (s, 1), (x, 0), (y, 0)] c
  else prior

theorem evalOp_bump (I : Interp A) (d : Op) (k : Term) (c : GQ) :
    I.evalOp (bump d k c) = I.evalOp d + I.ι c * I.evalT k := I.evalOp_set_add d k c

theorem ι_mul_neg_one' (I : Interp A) (c : GQ) : I.ι (c * (-1)) = - I.ι c := by
  have : c * (-1) = -c := by apply GQ.ext <;> simp <;> grind
  rw [this, Proofs.C07D.ι_neg']

theorem evalT4 (I : Interp A) (a b c d : Factor) :
    I.evalT [a, b, c, d] = I.g a * (I.g b * (I.g c * I.g d)) := by
  simp [Interp.evalT]

theorem evalT2 (I : Interp A) (a b : Factor) : I.evalT [a, b] = I.g a * I.g b := by
  simp [Interp.evalT]

section blocks
variable {I : Interp A} (h : CAR I)
include h

theorem blkC_eval (prior : Op) (x y t u : Nat) (c : GQ) :
    I.evalOp (blkC prior x y t u c) = I.evalOp prior + I.ι c * I.evalT [(x, 1), (y, 1), (t, 0), (u, 0)] := by
  have ha := anti_c h x y
  have e : I.g (x, 1) * I.g (y, 1) = - (I.g (y, 1) * I.g (x, 1)) := by
    rw [eq_neg_iff_add_eq_zero]; exact ha
  have e' : ∀ Z : A, I.g (x, 1) * (I.g (y, 1) * Z) = - (I.g (y, 1) * (I.g (x, 1) * Z)) := by
    intro Z; rw [← mul_assoc, e, neg_mul, mul_assoc]
  unfold blkC
  split
  · rw [evalOp_bump, ι_mul_neg_one', evalT4, evalT4, e']
    noncomm_ring
  · split
    · rw [evalOp_bump]
    · have hxy : x = y := by omega
      subst hxy
      have hz : I.g (x, 1) * I.g (x, 1) = 0 := h.sq (x, 1) (x, 1) rfl rfl
      rw [evalT4, ← mul_assoc (I.g (x, 1)) (I.g (x, 1)), hz]
      noncomm_ring

theorem blkD_eval (prior : Op) (r s x y : Nat) (c : GQ) :
    I.evalOp (blkD prior r s x y c) = I.evalOp prior + I.ι c * I.evalT [(r, 1), (s, 1), (x, 0), (y, 0)] := by
  have ha := anti_d h x y
  have e : I.g (x, 0) * I.g (y, 0) = - (I.g (y, 0) * I.g (x, 0)) := by
    rw [eq_neg_iff_add_eq_zero]; exact ha
  unfold blkD
  split
  · rw [evalOp_bump, ι_mul_neg_one', evalT4, evalT4, e]
    noncomm_ring
  · split
    · rw [evalOp_bump]
    · have hxy : x = y := by omega
      subst hxy
      have hz : I.g (x, 0) * I.g (x, 0) = 0 := h.sq (x, 0) (x, 0) rfl rfl
      rw [evalT4, hz]
      noncomm_ring

end blocks

/-- first block of the helper (the one-body annihilation hits a two-body creation) -/
def blockCre (one two : Term) (coef : GQ) (prior : Op) : Op :=
  let oc := fIdx one 0
  let oa := fIdx one 1
  let tc := (fIdx two 0, fIdx two 1)
  if oa == tc.1 || oa == tc.2 then
    let inner := if oa == tc.1 then two.set 0 (oc, 1) else two.set 1 (oc, 1)
    let swap := fIdx inner 0 < fIdx inner 1
    let inner' := if swap then (inner.set 0 (inner.getD 1 (0, 0))).set 1 (inner.getD 0 (0, 0)) else inner
    let nc := if swap then coef * (-1) else coef
    if fIdx inner' 0 > fIdx inner' 1 then bump prior inner' nc else prior
  else prior

/-- second block (the one-body creation hits a two-body annihilation) -/
def blockAnn (one two : Term) (coef : GQ) (prior1 : Op) : Op :=
  let oc := fIdx one 0
  let oa := fIdx one 1
  let ta := (fIdx two 2, fIdx two 3)
  if oc == ta.1 || oc == ta.2 then
    let act := if oc == ta.1 then two.set 2 (oa, 0) else two.set 3 (oa, 0)
    let swap := fIdx act 2 < fIdx act 3
    let act' := if swap then (act.set 2 (act.getD 3 (0, 0))).set 3 (act.getD 2 (0, 0)) else act
    let nc := if swap then (-coef) * (-1) else -coef
    if fIdx act' 2 > fIdx act' 3 then bump prior1 act' nc else prior1
  else prior1

theorem dcOneTwo_split (a b : Term) (coef0 : GQ) (prior : Op) :
    dcOneTwo a b coef0 prior =
      (let aIsTwo := a.length == 4 && b.length == 2
       let one := if aIsTwo then b else a
       let two := if aIsTwo then a else b
       let coef := if aIsTwo then coef0 * (-1) else coef0
       if fIdx one 0 == fIdx one 1 && (fIdx two 0, fIdx two 1) == (fIdx two 2, fIdx two 3) then prior
       else blockAnn one two coef (blockCre one two coef prior)) := rfl

theorem blockCre_eq (p q r s t u : Nat) (coef : GQ) (prior : Op) :
    blockCre [(p, 1), (q, 0)] [(r, 1), (s, 1), (t, 0), (u, 0)] coef prior =
      if q = r then blkC prior p s t u coef else if q = s then blkC prior r p t u coef else prior := by
  by_cases h1 : q = r <;> by_cases h2 : q = s <;> simp [blockCre, fIdx, blkC, h1, h2] <;>
    split_ifs <;> first | rfl | omega | (simp_all; done) | (simp_all <;> omega)

theorem blockAnn_eq (p q r s t u : Nat) (coef : GQ) (prior : Op) :
    blockAnn [(p, 1), (q, 0)] [(r, 1), (s, 1), (t, 0), (u, 0)] coef prior =
      if p = t then blkD prior r s q u (-coef) else if p = u then blkD prior r s t q (-coef) else prior := by
  by_cases h1 : p = t <;> by_cases h2 : p = u <;> simp [blockAnn, fIdx, blkD, h1, h2] <;>
    split_ifs <;> first | rfl | omega | (simp_all; done) | (simp_all <;> omega)

/-- the helper orders its arguments itself: two-body first is the one-body-first call with the sign flipped -/
theorem dcOneTwo_swap (p q r s t u : Nat) (coef : GQ) (prior : Op) :
    dcOneTwo [(r, 1), (s, 1), (t, 0), (u, 0)] [(p, 1), (q, 0)] coef prior =
      dcOneTwo [(p, 1), (q, 0)] [(r, 1), (s, 1), (t, 0), (u, 0)] (coef * (-1)) prior := by
  rw [dcOneTwo_split, dcOneTwo_split]; rfl

section onetwoModel
variable {I : Interp A} (h : CAR I)
include h

/-- **one-body / two-body helper, one-body first**: adds `coef · [a, b]` -/
theorem dcOneTwo_eval (p q r s t u : Nat) (hrs : r ≠ s) (htu : t ≠ u) (coef : GQ) (prior : Op) :
    I.evalOp (dcOneTwo [(p, 1), (q, 0)] [(r, 1), (s, 1), (t, 0), (u, 0)] coef prior) =
      I.evalOp prior + I.ι coef *
        (I.evalT [(p, 1), (q, 0)] * I.evalT [(r, 1), (s, 1), (t, 0), (u, 0)] -
          I.evalT [(r, 1), (s, 1), (t, 0), (u, 0)] * I.evalT [(p, 1), (q, 0)]) := by
  have hid := comm_one_two h p q r s t u
  rw [evalT2, evalT4, hid, dcOneTwo_split]
  simp only [List.length_cons, List.length_nil, show ((0 + 1 + 1 == 4) = false) from rfl, Bool.false_and,
    Bool.false_eq_true, if_false]
  by_cases hnum : p = q ∧ r = t ∧ s = u
  · obtain ⟨rfl, rfl, rfl⟩ := hnum
    have hcond : (fIdx [(p, 1), (p, 0)] 0 == fIdx [(p, 1), (p, 0)] 1 &&
        (fIdx [(r, 1), (s, 1), (r, 0), (s, 0)] 0, fIdx [(r, 1), (s, 1), (r, 0), (s, 0)] 1) ==
          (fIdx [(r, 1), (s, 1), (r, 0), (s, 0)] 2, fIdx [(r, 1), (s, 1), (r, 0), (s, 0)] 3)) = true := by
      simp [fIdx]
    rw [hcond]
    simp only [if_true]
    simp only [show (r = p) = (p = r) from propext eq_comm, show (s = p) = (p = s) from propext eq_comm]
    by_cases e1 : p = r
    · subst e1
      have e2 : ¬ p = s := hrs
      simp only [e2, if_true, if_false, ↓reduceIte]; noncomm_ring
    · by_cases e2 : p = s
      · subst e2
        simp only [e1, if_true, if_false, ↓reduceIte]; noncomm_ring
      · simp only [e1, e2, if_true, if_false, ↓reduceIte]; noncomm_ring
  · have hcond : (fIdx [(p, 1), (q, 0)] 0 == fIdx [(p, 1), (q, 0)] 1 &&
        (fIdx [(r, 1), (s, 1), (t, 0), (u, 0)] 0, fIdx [(r, 1), (s, 1), (t, 0), (u, 0)] 1) ==
          (fIdx [(r, 1), (s, 1), (t, 0), (u, 0)] 2, fIdx [(r, 1), (s, 1), (t, 0), (u, 0)] 3)) = false := by
      simp [fIdx]
      intro h1 h2; exact fun h3 => hnum ⟨h1, h2, h3⟩
    rw [hcond]
    simp only [Bool.false_eq_true, if_false]
    rw [blockCre_eq, blockAnn_eq]
    have hneg : I.ι (-coef) = - I.ι coef := Proofs.C07D.ι_neg' I coef
    simp only [show (r = q) = (q = r) from propext eq_comm, show (s = q) = (q = s) from propext eq_comm]
    by_cases e1 : q = r <;> by_cases e2 : q = s <;> by_cases e3 : p = t <;> by_cases e4 : p = u <;>
      first
      | (exfalso; omega)
      | (simp only [e1, e2, e3, e4, hrs, htu, Ne.symm hrs, Ne.symm htu, if_true, if_false, ↓reduceIte, blkC_eval h, blkD_eval h, evalT4, hneg]
         noncomm_ring)

/-- **one-body / two-body helper, two-body first**: adds `coef · [a, b]` -/
theorem dcOneTwo_eval_swap (p q r s t u : Nat) (hrs : r ≠ s) (htu : t ≠ u) (coef : GQ) (prior : Op) :
    I.evalOp (dcOneTwo [(r, 1), (s, 1), (t, 0), (u, 0)] [(p, 1), (q, 0)] coef prior) =
      I.evalOp prior + I.ι coef *
        (I.evalT [(r, 1), (s, 1), (t, 0), (u, 0)] * I.evalT [(p, 1), (q, 0)] -
          I.evalT [(p, 1), (q, 0)] * I.evalT [(r, 1), (s, 1), (t, 0), (u, 0)]) := by
  rw [dcOneTwo_swap, dcOneTwo_eval h p q r s t u hrs htu, ι_mul_neg_one']
  noncomm_ring

end onetwoModel

/-! ### one-body with one-body -/

section oneone
variable {I : Interp A} (h : CAR I)
include h

/-- `[a†_p a_q, a†_k a_l] = δ_qk a†_p a_l - δ_pl a†_k a_q` -/
theorem comm_one_one (p q k l : Nat) :
    I.g (p, 1) * I.g (q, 0) * (I.g (k, 1) * I.g (l, 0)) - I.g (k, 1) * I.g (l, 0) * (I.g (p, 1) * I.g (q, 0)) =
      (if k = q then 1 else 0) * (I.g (p, 1) * I.g (l, 0)) -
        (if p = l then 1 else 0) * (I.g (k, 1) * I.g (q, 0)) := by
  have k1 := comm_one_c h p q k
  have k2 := comm_one_d h p q l
  have hL : I.g (p, 1) * I.g (q, 0) * (I.g (k, 1) * I.g (l, 0)) - I.g (k, 1) * I.g (l, 0) * (I.g (p, 1) * I.g (q, 0)) =
      (I.g (p, 1) * I.g (q, 0) * I.g (k, 1) - I.g (k, 1) * (I.g (p, 1) * I.g (q, 0))) * I.g (l, 0) +
        I.g (k, 1) * (I.g (p, 1) * I.g (q, 0) * I.g (l, 0) - I.g (l, 0) * (I.g (p, 1) * I.g (q, 0))) := by
    noncomm_ring
  rw [hL, k1, k2]
  split_ifs <;> noncomm_ring

/-- **one-body / one-body helper** in any ring with the anticommutation relations -/
theorem dcOneOne_eval (i j k l : Nat) (coef : GQ) (prior : Op) :
    I.evalOp (dcOneOne [(i, 1), (j, 0)] [(k, 1), (l, 0)] coef prior) =
      I.evalOp prior + I.ι coef *
        (I.evalT [(i, 1), (j, 0)] * I.evalT [(k, 1), (l, 0)] - I.evalT [(k, 1), (l, 0)] * I.evalT [(i, 1), (j, 0)]) := by
  have hneg : I.ι (-coef) = - I.ι coef := Proofs.C07D.ι_neg' I coef
  rw [evalT2, evalT2, comm_one_one h]
  by_cases e1 : i = l <;> by_cases e2 : k = j
  · subst e1; subst e2
    simp [dcOneOne, fIdx, evalOp_bump, evalT2, hneg]
    noncomm_ring
  · have e2' : ¬ j = k := fun e => e2 e.symm
    subst e1
    simp [dcOneOne, fIdx, evalOp_bump, evalT2, hneg, e2, e2']
  · subst e2
    simp [dcOneOne, fIdx, evalOp_bump, evalT2, e1]
  · have e2' : ¬ j = k := fun e => e2 e.symm
    simp [dcOneOne, fIdx, e1, e2, e2']

end oneone

end C07R
end Proofs
end OFV
