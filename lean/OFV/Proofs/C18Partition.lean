/- C18 — `partition_iterator`: every yield is a k-partition and every k-subset is perfectly split by
some yield (induction on k through the outer binary partition, with the iteration budget). -/
import OFV.Proofs.C18Binary
import OFV.Model.C18Qubit
import Mathlib.Data.List.Nodup
import Mathlib.Tactic.Ring

namespace OFV.Proofs.C18Part
open OFV.Model.C18 OFV.Spec.C18 OFV.Proofs.C18Binary List

/-! ### every yield is a partition -/

theorem binaryPartition_perm (l : List Nat) (numIter : Option Nat) (ys : List (List Nat × List Nat))
    (h : binaryPartition l numIter = some ys) : ∀ p ∈ ys, (p.1 ++ p.2).Perm l := by
  unfold binaryPartition at h
  by_cases h0 : numIter = some 0
  · simp only [h0, if_true] at h; injection h with h; subst h; simp
  · simp only [h0, if_false] at h
    by_cases h1 : l.length < 2
    · simp [h1] at h
    · simp only [h1, if_false] at h
      match l, h with
      | [a, b], h =>
        injection h with h; subst h
        intro p hp; simp only [mem_singleton] at hp; subst hp; simp
      | [], h => simp at h1
      | [a], h => simp at h1
      | a :: b :: c :: t, h =>
        injection h with h; subst h
        exact binaryLoop_perm _ _ _

theorem flatten_singletons (l : List Nat) : (l.map (fun q => [q])).flatten = l := by
  induction l with
  | nil => rfl
  | cons a r ih => simp [ih]

/-- the recursive branch of `partition_iterator` (outer binary partition with `m` iterations) -/
def recBranch (rec : List Nat → Nat → Option Nat → List (List (List Nat))) (l : List Nat) (k m : Nat) :
    List (List (List Nat)) :=
  ((binaryPartition l (some m)).getD []).zipIdx.flatMap (fun (pj : (List Nat × List Nat) × Nat) =>
    (List.range' 1 (k - 1)).flatMap (fun inner =>
      if inner > pj.1.1.length ∨ k - inner > pj.1.2.length then []
      else
        (rec pj.1.1 inner (some (m - 1 - pj.2))).flatMap (fun p1 =>
          (rec pj.1.2 (k - inner) (some (m - 1 - pj.2))).map (fun p2 => p1 ++ p2))))

theorem partitionIterAux_succ (fuel : Nat) (l : List Nat) (k : Nat) (numIter : Option Nat) :
    partitionIterAux (fuel + 1) l k numIter =
      if numIter = some 0 then []
      else if k = 1 then [[l]]
      else if k = 2 then ((binaryPartition l numIter).getD []).map (fun p => [p.1, p.2])
      else if k = l.length then [l.map (fun q => [q])]
      else if k > l.length then []
      else recBranch (partitionIterAux fuel) l k (match numIter with | some m => m | none => clog2 l.length) := by
  conv => lhs; unfold partitionIterAux
  rfl

theorem recBranch_partition (rec : List Nat → Nat → Option Nat → List (List (List Nat)))
    (hrec : ∀ l k it, ∀ parts ∈ rec l k it, parts.flatten.Perm l ∧ parts.length = k)
    (l : List Nat) (k m : Nat) : ∀ parts ∈ recBranch rec l k m, parts.flatten.Perm l ∧ parts.length = k := by
  intro parts h
  simp only [recBranch, mem_flatMap] at h
  obtain ⟨pj, hpj, inner, hinner, hrest⟩ := h
  by_cases hg : inner > pj.1.1.length ∨ k - inner > pj.1.2.length
  · simp [hg] at hrest
  · simp only [hg, if_false, mem_flatMap, mem_map] at hrest
    obtain ⟨p1, hp1, p2, hp2, rfl⟩ := hrest
    obtain ⟨a1, b1⟩ := hrec _ _ _ _ hp1
    obtain ⟨a2, b2⟩ := hrec _ _ _ _ hp2
    have hpm : pj.1 ∈ ((binaryPartition l (some m)).getD []) := by
      obtain ⟨⟨x, y⟩, j⟩ := pj
      have := (mem_zipIdx hpj).2.2
      show (x, y) ∈ _
      rw [this]; exact getElem_mem _
    have hperm : (pj.1.1 ++ pj.1.2).Perm l := by
      cases hb : binaryPartition l (some m) with
      | none => simp [hb] at hpm
      | some ys =>
        simp only [hb, Option.getD_some] at hpm
        exact binaryPartition_perm l _ ys hb _ hpm
    have hin : inner < k := by
      simp only [mem_range'_1] at hinner; omega
    refine ⟨?_, by simp [b1, b2]; omega⟩
    rw [flatten_append]
    exact (a1.append a2).trans hperm

theorem partitionIterAux_partition : ∀ (fuel : Nat) (l : List Nat) (k : Nat) (numIter : Option Nat),
    ∀ parts ∈ partitionIterAux fuel l k numIter, parts.flatten.Perm l ∧ parts.length = k := by
  intro fuel
  induction fuel with
  | zero => intro l k numIter parts h; simp [partitionIterAux] at h
  | succ fuel ih =>
    intro l k numIter parts h
    rw [partitionIterAux_succ] at h
    by_cases h0 : numIter = some 0
    · simp [h0] at h
    · simp only [h0, if_false] at h
      by_cases h1 : k = 1
      · simp only [h1, if_true, mem_singleton] at h; subst h; simp [h1]
      · simp only [h1, if_false] at h
        by_cases h2 : k = 2
        · simp only [h2, if_true, mem_map] at h
          obtain ⟨p, hp, rfl⟩ := h
          cases hb : binaryPartition l numIter with
          | none => simp [hb] at hp
          | some ys =>
            simp only [hb, Option.getD_some] at hp
            have := binaryPartition_perm l numIter ys hb p hp
            simp [h2, this]
        · simp only [h2, if_false] at h
          by_cases h3 : k = l.length
          · simp only [h3, if_true, mem_singleton] at h; subst h
            exact ⟨by rw [flatten_singletons], by simp [h3]⟩
          · simp only [h3, if_false] at h
            by_cases h4 : k > l.length
            · simp [h4] at h
            · simp only [h4, if_false] at h
              exact recBranch_partition _ ih l k _ parts h


/-! ### subsets given by positions -/

/-- the labels at the positions `idx` -/
def pick (l : List Nat) (idx : List Nat) : List Nat := idx.map (fun i => l.getD i 0)

/-- positions below `n` whose pairwise distance is at least `D` (listed increasingly) -/
structure Spread (n D : Nat) (idx : List Nat) : Prop where
  gap : idx.Pairwise (fun a b => a + D ≤ b)
  lt : ∀ i ∈ idx, i < n

theorem splitBy_append {p1s p2s : List (List Nat)} {S1 S2 : List Nat}
    (h1 : Spec.C18.splitBy p1s S1 = true) (h2 : Spec.C18.splitBy p2s S2 = true)
    (d1 : ∀ p ∈ p1s, ∀ x ∈ S2, x ∉ p) (d2 : ∀ p ∈ p2s, ∀ x ∈ S1, x ∉ p) :
    Spec.C18.splitBy (p1s ++ p2s) (S1 ++ S2) = true := by
  simp only [Spec.C18.splitBy, all_eq_true, beq_iff_eq, mem_append, filter_append, length_append] at *
  intro p hp
  rcases hp with hp | hp
  · have : S2.filter (fun x => p.contains x) = [] := by
      rw [filter_eq_nil_iff]; intro x hx; simpa using d1 p hp x hx
    rw [this, h1 p hp]; rfl
  · have : S1.filter (fun x => p.contains x) = [] := by
      rw [filter_eq_nil_iff]; intro x hx; simpa using d2 p hp x hx
    rw [this, h2 p hp]; rfl

theorem sorted_split (idx : List Nat) (h : idx.Pairwise (· < ·)) (c : Nat) :
    idx = idx.filter (· < c) ++ idx.filter (c ≤ ·) := by
  induction idx with
  | nil => rfl
  | cons x r ih =>
    have hr := pairwise_cons.mp h
    by_cases hx : x < c
    · have hx' : ¬ c ≤ x := by omega
      simp only [filter_cons, hx, hx', decide_true, decide_false, if_true, cons_append]
      simp only [Bool.false_eq_true, if_false]
      rw [← ih hr.2]
    · have e1 : r.filter (· < c) = [] := by
        rw [filter_eq_nil_iff]; intro y hy; have := hr.1 y hy; simp; omega
      have e2 : r.filter (c ≤ ·) = r := by
        rw [filter_eq_self]; intro y hy; have := hr.1 y hy; simp; omega
      have hx' : c ≤ x := by omega
      simp [filter_cons, hx, hx', e1, e2]

theorem Spread.lt_pairwise {n D : Nat} {idx : List Nat} (h : Spread n D idx) (hD : 1 ≤ D) :
    idx.Pairwise (· < ·) := h.gap.imp (fun hab => by omega)

theorem Spread.nodup {n D : Nat} {idx : List Nat} (h : Spread n D idx) (hD : 1 ≤ D) : idx.Nodup :=
  (h.lt_pairwise hD).imp (fun hab => by omega)

theorem Spread.length_le {n D : Nat} {idx : List Nat} (h : Spread n D idx) (hD : 1 ≤ D) : idx.length ≤ n := by
  have hsub : idx ⊆ range n := fun i hi => mem_range.mpr (h.lt i hi)
  have := (subperm_of_subset (h.nodup hD) hsub).length_le
  simpa using this

theorem pick_nodup (l : List Nat) (hnd : l.Nodup) {D : Nat} {idx : List Nat} (h : Spread l.length D idx)
    (hD : 1 ≤ D) : (pick l idx).Nodup := by
  unfold pick
  refine List.Nodup.map_on ?_ (h.nodup hD)
  intro a ha b hb hab
  have h1 := h.lt a ha; have h2 := h.lt b hb
  simp only [getD_eq_getElem?_getD, getElem?_eq_getElem h1, getElem?_eq_getElem h2, Option.getD_some] at hab
  exact (hnd.getElem_inj_iff).mp hab

theorem pick_sub (l : List Nat) {D : Nat} {idx : List Nat} (h : Spread l.length D idx) :
    ∀ x ∈ pick l idx, x ∈ l := by
  intro x hx
  simp only [pick, mem_map] at hx
  obtain ⟨i, hi, rfl⟩ := hx
  have := h.lt i hi
  simp only [getD_eq_getElem?_getD, getElem?_eq_getElem this, Option.getD_some]
  exact getElem_mem _


/-! ### the two cases of one outer step -/

theorem spread_span {n D : Nat} : ∀ (idx : List Nat), idx.Pairwise (fun a b => a + D ≤ b) →
    ∀ x, idx.head? = some x → ∀ y, idx.getLast? = some y → x + (idx.length - 1) * D ≤ y := by
  intro idx
  induction idx with
  | nil => intro _ x hx; simp at hx
  | cons a r ih =>
    intro h x hx y hy
    simp only [head?_cons, Option.some.injEq] at hx; subst hx
    cases r with
    | nil => simp at hy; subst hy; simp
    | cons b r' =>
      have hr := pairwise_cons.mp h
      have := ih hr.2 b rfl y (by simpa using hy)
      have hab := hr.1 b (by simp)
      simp only [length_cons] at this ⊢
      have e : (r'.length + 1 + 1 - 1) * D = (r'.length + 1 - 1) * D + D := by
        have : r'.length + 1 + 1 - 1 = (r'.length + 1 - 1) + 1 := by omega
        rw [this, Nat.add_mul]; simp
      rw [e]; omega

theorem spread_bound {n D : Nat} {idx : List Nat} (h : Spread n D idx) (hne : idx ≠ []) :
    (idx.length - 1) * D < n := by
  cases hh : idx.head? with
  | none => simp at hh; exact absurd hh hne
  | some x =>
    cases hl : idx.getLast? with
    | none => simp at hl; exact absurd hl hne
    | some y =>
      have := spread_span (n := n) idx h.gap x hh y hl
      have := h.lt y (mem_of_getLast? hl)
      omega

/-- the positions below / from `half` with their spreads and picks -/
theorem split_case (l : List Nat) (half D : Nat) (idx : List Nat) (hh : half ≤ l.length)
    (h : Spread l.length D idx) (hD : 1 ≤ D) :
    Spread (l.take half).length D (idx.filter (· < half)) ∧
    Spread (l.drop half).length D ((idx.filter (half ≤ ·)).map (· - half)) ∧
    pick l idx = pick (l.take half) (idx.filter (· < half)) ++
      pick (l.drop half) ((idx.filter (half ≤ ·)).map (· - half)) := by
  refine ⟨⟨h.gap.sublist filter_sublist, ?_⟩, ⟨?_, ?_⟩, ?_⟩
  · intro i hi
    simp only [mem_filter, decide_eq_true_eq] at hi
    simp; omega
  · rw [pairwise_map]
    refine (h.gap.sublist filter_sublist).imp_of_mem ?_
    intro a b ha hb hab
    simp only [mem_filter, decide_eq_true_eq] at ha hb
    omega
  · intro i hi
    simp only [mem_map, mem_filter, decide_eq_true_eq] at hi
    obtain ⟨a, ⟨ha1, ha2⟩, rfl⟩ := hi
    have := h.lt a ha1
    simp; omega
  · conv_lhs => rw [sorted_split idx (h.lt_pairwise hD) half]
    unfold pick
    rw [map_append, map_map]
    congr 1
    · apply map_congr_left
      intro i hi
      simp only [mem_filter, decide_eq_true_eq] at hi
      simp [getD_eq_getElem?_getD, getElem?_take, hi.2]
    · apply map_congr_left
      intro i hi
      simp only [mem_filter, decide_eq_true_eq] at hi
      simp only [Function.comp, getD_eq_getElem?_getD, getElem?_drop]
      congr 2; omega

/-- when no pair is split all positions move to the same side and their distances double -/
theorem unsplit_case (l : List Nat) (D : Nat) (idx : List Nat) (h : Spread l.length D idx)
    (hside : idx.filter (· < (l.length + 1) / 2) = [] ∨ idx.filter ((l.length + 1) / 2 ≤ ·) = []) :
    Spread l.length (2 * D) (idx.map (stepPos ((l.length + 1) / 2))) ∧
    pick (interleave (l.take ((l.length + 1) / 2)) (l.drop ((l.length + 1) / 2)))
      (idx.map (stepPos ((l.length + 1) / 2))) = pick l idx := by
  have hsame : ∀ a ∈ idx, ∀ b ∈ idx, (a < (l.length + 1) / 2 ↔ b < (l.length + 1) / 2) := by
    intro a ha b hb
    rcases hside with hs | hs
    · have h1 := filter_eq_nil_iff.mp hs a ha
      have h2 := filter_eq_nil_iff.mp hs b hb
      simp only [decide_eq_true_eq] at h1 h2
      exact ⟨fun x => absurd x h1, fun x => absurd x h2⟩
    · have h1 := filter_eq_nil_iff.mp hs a ha
      have h2 := filter_eq_nil_iff.mp hs b hb
      simp only [decide_eq_true_eq] at h1 h2
      exact ⟨fun _ => by omega, fun _ => by omega⟩
  refine ⟨⟨?_, ?_⟩, ?_⟩
  · rw [pairwise_map]
    refine h.gap.imp_of_mem ?_
    intro a b ha hb hab
    have := hsame a ha b hb
    unfold stepPos
    split <;> split <;> omega
  · intro i hi
    simp only [mem_map] at hi
    obtain ⟨a, ha, rfl⟩ := hi
    have := h.lt a ha
    unfold stepPos
    split <;> omega
  · unfold pick
    rw [map_map]
    apply map_congr_left
    intro i hi
    have := riffle_getElem? l i (h.lt i hi)
    simp only [Function.comp, getD_eq_getElem?_getD, this]


/-! ### the outer loop -/

abbrev Rec := List Nat → Nat → Option Nat → List (List (List Nat))

def PartProp (rec : Rec) : Prop :=
  ∀ l k it, ∀ parts ∈ rec l k it, parts.flatten.Perm l ∧ parts.length = k

/-- `rec` splits every spread `k`-subset (`k ≤ kmax`) within the iteration budget -/
def Covers (rec : Rec) (kmax : Nat) : Prop :=
  ∀ k, 1 ≤ k → k ≤ kmax → ∀ (l : List Nat), l.Nodup → ∀ it D, 1 ≤ it → 1 ≤ D → ∀ idx,
    Spread l.length D idx → idx.length = k → l.length ≤ D * 2 ^ it →
    ∃ parts ∈ rec l k (some it), Spec.C18.splitBy parts (pick l idx) = true

def innerFun (rec : Rec) (k m : Nat) (pj : (List Nat × List Nat) × Nat) : List (List (List Nat)) :=
  (List.range' 1 (k - 1)).flatMap (fun inner =>
    if inner > pj.1.1.length ∨ k - inner > pj.1.2.length then []
    else
      (rec pj.1.1 inner (some (m - 1 - pj.2))).flatMap (fun p1 =>
        (rec pj.1.2 (k - inner) (some (m - 1 - pj.2))).map (fun p2 => p1 ++ p2)))

theorem recBranch_eq (rec : Rec) (l : List Nat) (k m : Nat) :
    recBranch rec l k m = ((binaryPartition l (some m)).getD []).zipIdx.flatMap (innerFun rec k m) := rfl

theorem outer_loop (rec : Rec) (hpart : PartProp rec) (k : Nat) (hk : 3 ≤ k) (hcov : Covers rec (k - 1)) :
    ∀ (r : Nat) (l : List Nat) (j D : Nat) (idx : List Nat), l.Nodup → 1 ≤ D → Spread l.length D idx →
      idx.length = k → l.length ≤ D * 2 ^ r →
      ∃ parts ∈ ((binaryLoop ((l.length + 1) / 2) r l).zipIdx j).flatMap (innerFun rec k (j + r)),
        Spec.C18.splitBy parts (pick l idx) = true := by
  intro r
  induction r with
  | zero =>
    intro l j D idx _ hD hs hlen hn
    have hne : idx ≠ [] := by intro e; rw [e] at hlen; simp at hlen; omega
    have := spread_bound hs hne
    rw [hlen] at this
    have : 2 * D ≤ (k - 1) * D := Nat.mul_le_mul_right D (by omega)
    simp at hn; omega
  | succ r ih =>
    intro l j D idx hnd hD hs hlen hn
    obtain ⟨half, hhalf⟩ : ∃ half, half = (l.length + 1) / 2 := ⟨_, rfl⟩
    have hne : idx ≠ [] := by intro e; rw [e] at hlen; simp at hlen; omega
    have hb := spread_bound hs hne
    rw [hlen] at hb
    have h2D : 2 * D ≤ (k - 1) * D := Nat.mul_le_mul_right D (by omega)
    have hpow : D * 2 ^ (r + 1) = 2 * (D * 2 ^ r) := by rw [Nat.pow_succ]; ring
    simp only [binaryLoop, zipIdx_cons, flatMap_cons, mem_append]
    rw [← hhalf]
    by_cases hsplit : idx.filter (· < half) ≠ [] ∧ idx.filter (half ≤ ·) ≠ []
    · -- the subset is split by this partition: recurse into both halves with `r` iterations
      have hh : half ≤ l.length := by omega
      obtain ⟨s1, s2, hpick⟩ := split_case l half D idx hh hs hD
      obtain ⟨I1, hI1⟩ : ∃ I1, I1 = idx.filter (· < half) := ⟨_, rfl⟩
      obtain ⟨I2, hI2⟩ : ∃ I2, I2 = (idx.filter (half ≤ ·)).map (· - half) := ⟨_, rfl⟩
      rw [← hI1] at s1 hpick; rw [← hI2] at s2 hpick
      have ha1 : 1 ≤ I1.length := by
        rw [hI1]; exact length_pos_iff.mpr hsplit.1
      have ha2 : 1 ≤ I2.length := by
        rw [hI2, length_map]; exact length_pos_iff.mpr hsplit.2
      have hsum : I1.length + I2.length = k := by
        rw [← hlen, hI1, hI2, length_map]
        conv_rhs => rw [sorted_split idx (hs.lt_pairwise hD) half]
        rw [length_append]
      have hr1 : 1 ≤ r := by
        by_contra hc
        have : r = 0 := by omega
        subst this
        simp at hn; omega
      have hl1 : (l.take half).length = half := by simp; omega
      have hl2 : (l.drop half).length = l.length - half := by simp
      have hX : half ≤ D * 2 ^ r := by rw [hpow] at hn; omega
      obtain ⟨p1, hp1, sp1⟩ := hcov I1.length ha1 (by omega) (l.take half) (hnd.sublist (take_sublist _ _)) r D hr1 hD
        I1 s1 rfl (by rw [hl1]; exact hX)
      obtain ⟨p2, hp2, sp2⟩ := hcov I2.length ha2 (by omega) (l.drop half) (hnd.sublist (drop_sublist _ _)) r D hr1 hD
        I2 s2 rfl (by rw [hl2]; omega)
      refine ⟨p1 ++ p2, Or.inl ?_, ?_⟩
      · simp only [innerFun, mem_flatMap]
        refine ⟨I1.length, by simp only [mem_range'_1]; omega, ?_⟩
        have g1 : ¬ (I1.length > (l.take half).length ∨ k - I1.length > (l.drop half).length) := by
          have := s1.length_le hD; have := s2.length_le hD
          omega
        simp only [g1, if_false, mem_flatMap, mem_map]
        have e1 : j + (r + 1) - 1 - j = r := by omega
        have e2 : k - I1.length = I2.length := by omega
        rw [e1, e2]
        exact ⟨p1, hp1, p2, hp2, rfl⟩
      · rw [hpick]
        have hdisj := (nodup_append.mp ((take_append_drop half l).symm ▸ hnd)).2.2
        apply splitBy_append sp1 sp2
        · intro p hp x hx hxp
          have hx1 : x ∈ l.take half := (hpart _ _ _ _ hp1).1.subset (mem_flatten.mpr ⟨p, hp, hxp⟩)
          have hx2 : x ∈ l.drop half := pick_sub _ s2 x hx
          exact hdisj x hx1 x hx2 rfl
        · intro p hp x hx hxp
          have hx2 : x ∈ l.drop half := (hpart _ _ _ _ hp2).1.subset (mem_flatten.mpr ⟨p, hp, hxp⟩)
          have hx1 : x ∈ l.take half := pick_sub _ s1 x hx
          exact hdisj x hx1 x hx2 rfl
    · -- not split: continue with the riffled list and doubled distances
      have hside : idx.filter (· < half) = [] ∨ idx.filter (half ≤ ·) = [] := by
        by_contra hc
        exact hsplit ⟨fun e => hc (Or.inl e), fun e => hc (Or.inr e)⟩
      rw [hhalf] at hside
      obtain ⟨s', hp'⟩ := unsplit_case l D idx hs hside
      have hl' := riffle_length l
      rw [← hhalf] at s' hp' hl'
      have hnd' : (interleave (l.take half) (l.drop half)).Nodup :=
        (interleave_perm (l.take half) (l.drop half)).nodup_iff.mpr (by rw [take_append_drop]; exact hnd)
      generalize interleave (l.take half) (l.drop half) = l' at *
      have := ih l' (j + 1) (2 * D) (idx.map (stepPos half)) hnd' (by omega) (by rw [hl']; exact s')
        (by simp [hlen]) (by rw [hl', Nat.mul_assoc, ← hpow]; exact hn)
      rw [hl', ← hhalf, hp'] at this
      have e : j + 1 + r = j + (r + 1) := by omega
      rw [e] at this
      obtain ⟨parts, hmem, hsp⟩ := this
      exact ⟨parts, Or.inr hmem, hsp⟩


/-! ### the induction on the partition size -/

theorem binaryPartition_some (l : List Nat) (m : Nat) (hm : m ≠ 0) (h2 : 2 ≤ l.length) :
    ∃ ys, binaryPartition l (some m) = some ys ∧
      (l.length = 2 → ys = binaryLoop ((l.length + 1) / 2) 1 l) ∧
      (3 ≤ l.length → ys = binaryLoop ((l.length + 1) / 2) m l) := by
  unfold binaryPartition
  have h0 : ¬ (some m = some 0) := by intro e; injection e with e; exact hm e
  have h1 : ¬ l.length < 2 := by omega
  simp only [h0, if_false, h1]
  match l, h2 with
  | [a, b], _ => exact ⟨_, rfl, fun _ => by simp [binaryLoop], fun h => by simp at h⟩
  | a :: b :: c :: t, _ => exact ⟨_, rfl, fun h => by simp at h, fun _ => rfl⟩

theorem covers_mono {rec : Rec} {a b : Nat} (h : Covers rec b) (hab : a ≤ b) : Covers rec a :=
  fun k h1 h2 => h k h1 (by omega)

theorem covers_all : ∀ fuel, Covers (partitionIterAux fuel) fuel := by
  intro fuel
  induction fuel with
  | zero => intro k h1 h2; omega
  | succ fuel ih =>
    intro k hk1 hk2 l hnd it D hit hD idx hs hlen hn
    rw [partitionIterAux_succ]
    have h0 : ¬ (some it = some 0) := by intro e; injection e with e; omega
    simp only [h0, if_false]
    have hkn : k ≤ l.length := by rw [← hlen]; exact hs.length_le hD
    by_cases h1 : k = 1
    · simp only [h1, if_true]
      refine ⟨_, mem_singleton.mpr rfl, ?_⟩
      obtain ⟨i, rfl⟩ : ∃ i, idx = [i] := length_eq_one_iff.mp (by rw [hlen, h1])
      have hi := hs.lt i (by simp)
      simp [Spec.C18.splitBy, pick, getD_eq_getElem?_getD, getElem?_eq_getElem hi]
    · simp only [h1, if_false]
      by_cases h2 : k = 2
      · simp only [h2, if_true]
        obtain ⟨i, j, rfl⟩ : ∃ i j, idx = [i, j] := length_eq_two.mp (by rw [hlen, h2])
        have hgap : i + D ≤ j := (pairwise_cons.mp hs.gap).1 j (by simp)
        have hj := hs.lt j (by simp)
        have hi := hs.lt i (by simp)
        have hl2 : 2 ≤ l.length := by omega
        obtain ⟨ys, hys, e2, e3⟩ := binaryPartition_some l it (by omega) hl2
        simp only [hys, Option.getD_some]
        have hloop : ∃ kk, ys = binaryLoop ((l.length + 1) / 2) kk l ∧ l.length ≤ (j - i) * 2 ^ kk := by
          by_cases hl : l.length = 2
          · refine ⟨1, e2 hl, ?_⟩
            rw [hl]; have : 1 ≤ j - i := by omega
            simp; omega
          · refine ⟨it, e3 (by omega), le_trans hn ?_⟩
            exact Nat.mul_le_mul_right _ (by omega)
        obtain ⟨kk, hkk, hnk⟩ := hloop
        obtain ⟨p, hp, hsp⟩ := binaryLoop_splits kk l i j (by omega) hj hnk _ rfl (l.getD i 0) (l.getD j 0)
          (by simp [getD_eq_getElem?_getD, getElem?_eq_getElem hi])
          (by simp [getD_eq_getElem?_getD, getElem?_eq_getElem hj])
        refine ⟨[p.1, p.2], mem_map.mpr ⟨p, hkk ▸ hp, rfl⟩, ?_⟩
        have hpn : (p.1 ++ p.2).Nodup := (binaryLoop_perm kk _ l p hp).nodup_iff.mpr hnd
        have := splitBy_of_splitPair p _ _ hpn hsp
        simpa [pick] using this
      · simp only [h2, if_false]
        by_cases h3 : k = l.length
        · simp only [h3, if_true]
          refine ⟨_, mem_singleton.mpr rfl, ?_⟩
          -- all labels are picked
          have hperm : (pick l idx).Perm l := by
            apply (subperm_of_subset (pick_nodup l hnd hs hD) (pick_sub l hs)).perm_of_length_le
            simp [pick, hlen, h3]
          simp only [Spec.C18.splitBy, all_eq_true, mem_map, forall_exists_index, and_imp,
            forall_apply_eq_imp_iff₂, beq_iff_eq]
          intro q hq
          have hq' : q ∈ pick l idx := hperm.symm.subset hq
          have hcount : (pick l idx).count q = 1 := count_eq_one_of_mem (pick_nodup l hnd hs hD) hq'
          have : (pick l idx).filter (fun x => [q].contains x) = (pick l idx).filter (· == q) := by
            apply filter_congr; intro x _
            by_cases e : x = q <;> simp [e]
          rw [this, ← hcount, count_eq_length_filter]
        · simp only [h3, if_false]
          have h4 : ¬ k > l.length := by omega
          simp only [h4, if_false]
          have hk3 : 3 ≤ k := by omega
          have hl3 : 3 ≤ l.length := by omega
          obtain ⟨ys, hys, _, e3⟩ := binaryPartition_some l it (by omega) (by omega)
          rw [recBranch_eq, hys, Option.getD_some, e3 hl3]
          have := outer_loop (partitionIterAux fuel) (partitionIterAux_partition fuel) k hk3
            (covers_mono ih (by omega)) it l 0 D idx hnd hD hs hlen hn
          simpa using this


/-! ### the statement of the Spec -/

theorem mem_subsetsLen (k : Nat) : ∀ (l : List Nat) (sub : List Nat), sub ∈ subsetsLen k l →
    ∃ idx, Spread l.length 1 idx ∧ idx.length = k ∧ sub = pick l idx := by
  induction k with
  | zero =>
    intro l sub h
    cases l <;> simp [subsetsLen] at h <;> subst h <;> exact ⟨[], ⟨Pairwise.nil, by simp⟩, rfl, rfl⟩
  | succ k ih =>
    intro l
    induction l with
    | nil => intro sub h; simp [subsetsLen] at h
    | cons a r ihl =>
      intro sub h
      simp only [subsetsLen, mem_append, mem_map] at h
      rcases h with ⟨s', hs', rfl⟩ | h
      · obtain ⟨idx, hsp, hlen, rfl⟩ := ih r s' hs'
        refine ⟨0 :: idx.map (· + 1), ⟨?_, ?_⟩, by simp [hlen], ?_⟩
        · rw [pairwise_cons]
          refine ⟨by intro b hb; simp only [mem_map] at hb; obtain ⟨c, _, rfl⟩ := hb; omega, ?_⟩
          rw [pairwise_map]; exact hsp.gap.imp (fun h => by omega)
        · intro i hi
          simp only [mem_cons, mem_map] at hi
          rcases hi with rfl | ⟨c, hc, rfl⟩
          · simp
          · have := hsp.lt c hc; simp; omega
        · simp [pick, Function.comp]
      · obtain ⟨idx, hsp, hlen, rfl⟩ := ihl sub h
        refine ⟨idx.map (· + 1), ⟨?_, ?_⟩, by simp [hlen], ?_⟩
        · rw [pairwise_map]; exact hsp.gap.imp (fun h => by omega)
        · intro i hi
          simp only [mem_map] at hi
          obtain ⟨c, hc, rfl⟩ := hi
          have := hsp.lt c hc; simp; omega
        · simp [pick, Function.comp]

theorem one_le_clog2 (n : Nat) (h : 2 ≤ n) : 1 ≤ clog2 n := by
  unfold clog2; split <;> omega

theorem binaryPartition_none (l : List Nat) (h : 2 ≤ l.length) :
    binaryPartition l none = binaryPartition l (some (clog2 l.length)) := by
  unfold binaryPartition
  have h0 : ¬ (some (clog2 l.length) = some 0) := by
    intro e; injection e with e; have := one_le_clog2 _ h; omega
  simp only [reduceCtorEq, if_false, h0]

theorem partitionIterAux_none (fuel : Nat) (l : List Nat) (k : Nat) (h : 2 ≤ l.length) :
    partitionIterAux (fuel + 1) l k none = partitionIterAux (fuel + 1) l k (some (clog2 l.length)) := by
  rw [partitionIterAux_succ, partitionIterAux_succ]
  have h0 : ¬ (some (clog2 l.length) = some 0) := by
    intro e; injection e with e; have := one_le_clog2 _ h; omega
  simp only [reduceCtorEq, if_false, h0, binaryPartition_none l h]

/-- every spread `k`-subset (in particular every `k`-subset) is perfectly split by some yield of
`partition_iterator(qubit_list, k)` with the default number of iterations -/
theorem partitionIter_covers (l : List Nat) (hnd : l.Nodup) (k : Nat) (hk1 : 1 ≤ k) (idx : List Nat)
    (hsp : Spread l.length 1 idx) (hlen : idx.length = k) :
    ∃ parts ∈ partitionIter l k none, Spec.C18.splitBy parts (pick l idx) = true := by
  have hfuel : max k 1 = (k - 1) + 1 := by omega
  simp only [partitionIter]
  rw [hfuel]
  by_cases h2 : 2 ≤ l.length
  · rw [partitionIterAux_none _ l k h2]
    exact covers_all ((k - 1) + 1) k hk1 (by omega) l hnd (clog2 l.length) 1 (one_le_clog2 _ h2)
      (Nat.le_refl _) idx hsp hlen (by simpa using le_two_pow_clog2 l.length)
  · have hkn : k ≤ l.length := by rw [← hlen]; exact hsp.length_le (Nat.le_refl _)
    have hk : k = 1 := by omega
    subst hk
    rw [partitionIterAux_succ]
    simp only [reduceCtorEq, if_false, if_true]
    refine ⟨_, mem_singleton.mpr rfl, ?_⟩
    obtain ⟨i, rfl⟩ : ∃ i, idx = [i] := length_eq_one_iff.mp hlen
    have hi := hsp.lt i (by simp)
    simp [Spec.C18.splitBy, pick, getD_eq_getElem?_getD, getElem?_eq_getElem hi]

/-- `partition_iterator(qubit_list, k)` with the default number of iterations: every yield is a
`k`-partition and every `k`-subset is perfectly split by one of the yields -/
theorem partitionIter_spec (l : List Nat) (hnd : l.Nodup) (k : Nat) (hk1 : 1 ≤ k) (hkn : k ≤ l.length) :
    splitsAll l k (partitionIter l k none) = true := by
  simp only [splitsAll, Bool.and_eq_true, all_eq_true, any_eq_true]
  refine ⟨?_, ?_⟩
  · intro parts hp
    obtain ⟨a, b⟩ := partitionIterAux_partition _ _ _ _ parts hp
    simp [isPartitionOf, b, isPerm_iff.mpr a]
  · intro sub hsub
    obtain ⟨idx, hsp, hlen, rfl⟩ := mem_subsetsLen k l sub hsub
    exact partitionIter_covers l hnd k hk1 idx hsp hlen

end OFV.Proofs.C18Part
