/- C19 — QROM helpers: `power_two` is the 2-adic valuation; the double scans of QR2 / QI2 return a
minimiser of the searched grid. -/
import OFV.Model.C19
import OFV.Spec.C19
import Mathlib.Tactic.Ring
import Mathlib.Tactic.Linarith

namespace OFV.Proofs.C19Q
open OFV.Model.C19 List

/-! ### power_two -/

theorem powerTwoAux_spec : ∀ (fuel m c : Nat), 0 < m → m ≤ fuel →
    ∃ k, powerTwoAux fuel m c = c + k ∧ 2 ^ k ∣ m ∧ ¬ 2 ^ (k + 1) ∣ m := by
  intro fuel
  induction fuel with
  | zero => intro m c h1 h2; omega
  | succ fuel ih =>
    intro m c h1 h2
    unfold powerTwoAux
    by_cases hc : m > 0 ∧ m % 2 = 0
    · simp only [hc, and_self, if_true]
      obtain ⟨k, e1, e2, e3⟩ := ih (m / 2) (c + 1) (by omega) (by omega)
      refine ⟨k + 1, by rw [e1]; ring, ?_, ?_⟩
      · have hm : m = 2 * (m / 2) := by omega
        rw [hm, pow_succ, mul_comm]; exact Nat.mul_dvd_mul_left 2 e2
      · intro hd
        apply e3
        have hm : m = 2 * (m / 2) := by omega
        rw [hm, pow_succ (n := k + 1), mul_comm] at hd
        exact (Nat.mul_dvd_mul_iff_left (by norm_num)).mp hd
    · simp only [hc, if_false]
      refine ⟨0, rfl, by simp, ?_⟩
      intro hd
      have : m % 2 = 0 := Nat.mod_eq_zero_of_dvd (by simpa using hd)
      exact hc ⟨h1, this⟩

/-- `power_two(m)` is the exponent of the largest power of two dividing `m` (and `0` for `m = 0`) -/
theorem powerTwo_ok (m : Nat) : Spec.C19.powerTwoOk m (powerTwo m) = true := by
  unfold Spec.C19.powerTwoOk powerTwo
  by_cases h0 : m = 0
  · subst h0; simp [powerTwoAux]
  · simp only [h0, if_false]
    by_cases he : m % 2 = 0
    · simp only [he, if_true]
      obtain ⟨k, e1, e2, e3⟩ := powerTwoAux_spec m m 0 (by omega) (Nat.le_refl _)
      rw [e1]; simp only [zero_add, Bool.and_eq_true, beq_iff_eq, bne_iff_ne, ne_eq]
      exact ⟨Nat.mod_eq_zero_of_dvd e2, fun h => e3 (Nat.dvd_of_mod_eq_zero h)⟩
    · simp only [he, if_false]
      simp; omega

/-! ### first minimum of a scan -/

/-- one step of the scans of QR2 / QI2 over a list of candidates -/
def scanStep (v : Nat × Nat → Nat) (acc : Nat × Nat × Option Nat) (x : Nat × Nat) : Nat × Nat × Option Nat :=
  match acc.2.2 with
  | some best => if v x < best then (x.1, x.2, some (v x)) else acc
  | none => (x.1, x.2, some (v x))

/-- the accumulator holds a minimiser of the candidates seen so far -/
def ScanGood (v : Nat × Nat → Nat) (seen : List (Nat × Nat)) (acc : Nat × Nat × Option Nat) : Prop :=
  (seen = [] ∧ acc.2.2 = none) ∨
  (acc.2.2 = some (v (acc.1, acc.2.1)) ∧ (acc.1, acc.2.1) ∈ seen ∧ ∀ x ∈ seen, v (acc.1, acc.2.1) ≤ v x)

theorem scan_good (v : Nat × Nat → Nat) : ∀ (l seen : List (Nat × Nat)) (acc : Nat × Nat × Option Nat),
    ScanGood v seen acc → ScanGood v (seen ++ l) (l.foldl (scanStep v) acc) := by
  intro l
  induction l with
  | nil => intro seen acc h; simpa using h
  | cons x r ih =>
    intro seen acc h
    rw [foldl_cons]
    have : seen ++ x :: r = (seen ++ [x]) ++ r := by simp
    rw [this]
    apply ih
    unfold scanStep
    rcases h with ⟨h1, h2⟩ | ⟨h1, h2, h3⟩
    · subst h1; simp only [h2]
      right; exact ⟨rfl, by simp, by simp⟩
    · simp only [h1]
      by_cases hlt : v x < v (acc.1, acc.2.1)
      · simp only [hlt, if_true]
        right
        refine ⟨rfl, by simp, ?_⟩
        intro y hy
        rcases mem_append.mp hy with hy | hy
        · have := h3 y hy
          show v (x.1, x.2) ≤ v y
          rw [Prod.mk.eta]; omega
        · simp only [mem_singleton] at hy; subst hy
          show v (y.1, y.2) ≤ v y
          rw [Prod.mk.eta]
      · simp only [hlt, if_false]
        right
        refine ⟨h1, mem_append_left _ h2, ?_⟩
        intro y hy
        rcases mem_append.mp hy with hy | hy
        · exact h3 y hy
        · simp only [mem_singleton] at hy; subst hy; omega

/-- nested `for k1 ... for k2 ...` loops visit the grid in row order -/
theorem nested_eq (value : Nat → Nat → Nat) (l1 l2 : List Nat) (init : Nat × Nat × Option Nat) :
    l1.foldl (fun acc k1 =>
      l2.foldl (fun (acc : Nat × Nat × Option Nat) k2 =>
        let v := value k1 k2
        match acc.2.2 with
        | some best => if v < best then (k1, k2, some v) else acc
        | none => (k1, k2, some v)) acc) init =
    (l1.flatMap fun k1 => l2.map fun k2 => (k1, k2)).foldl (scanStep fun x => value x.1 x.2) init := by
  rw [foldl_flatMap]
  congr 1
  funext acc k1
  rw [foldl_map]
  rfl

theorem scan2_eq (value : Nat → Nat → Nat) :
    scan2 value = ((range' 1 16).flatMap fun k1 => (range' 1 16).map fun k2 => (k1, k2)).foldl
      (scanStep fun x => value x.1 x.2) (0, 0, none) := by
  unfold scan2
  exact nested_eq value _ _ _

/-- QR2 / QI2 return a point of the grid `1 ≤ k1, k2 ≤ 16` where the cost is minimal -/
theorem scan2_ok (value : Nat → Nat → Nat) :
    Spec.C19.grid2Ok value (2 ^ (scan2 value).1) (2 ^ (scan2 value).2.1) ((scan2 value).2.2.getD 0) = true := by
  have hg := scan_good (fun x => value x.1 x.2)
    ((range' 1 16).flatMap fun k1 => (range' 1 16).map fun k2 => (k1, k2)) [] (0, 0, none) (Or.inl ⟨rfl, rfl⟩)
  rw [nil_append, ← scan2_eq] at hg
  rcases hg with ⟨h1, _⟩ | ⟨h1, h2, h3⟩
  · exfalso
    have hm : (1, 1) ∈ ((range' 1 16).flatMap fun k1 => (range' 1 16).map fun k2 => (k1, k2)) := by
      simp only [mem_flatMap, mem_map, mem_range'_1]
      exact ⟨1, by omega, 1, by omega, rfl⟩
    rw [h1] at hm; simp at hm
  · simp only [Spec.C19.grid2Ok, Bool.and_eq_true, any_eq_true, all_eq_true, beq_iff_eq, decide_eq_true_eq]
    simp only [mem_flatMap, mem_map] at h2
    obtain ⟨k1, hk1, k2, hk2, e⟩ := h2
    injection e with e1 e2
    refine ⟨⟨k1, hk1, k2, hk2, ⟨by rw [e1], by rw [e2]⟩, ?_⟩, ?_⟩
    · rw [h1, ← e1, ← e2]; rfl
    · intro a ha b hb
      rw [h1]
      exact h3 (a, b) (by simp only [mem_flatMap, mem_map]; exact ⟨a, ha, b, hb, rfl⟩)

end OFV.Proofs.C19Q
