/-
Symplectic normal form of a Pauli string given as a list of factors (repetitions of a qubit allowed):
`σ_{q1}^{p1} ⋯ σ_{qk}^{pk} = i^{nfk} · X^{xl} · Z^{zl}` where `xl` / `zl` are the qubits carrying an X-part /
a Z-part (with multiplicity) and `nfk` counts the `Y`s (`Y = i X Z`) and twice the number of times a Z-part
has to cross an X-part on the same qubit standing to its right.  Two strings whose `xl`, `zl` agree modulo 2
pointwise and whose `nfk` differ by `d` modulo 4 act identically up to `i^d` on every basis state.
-/
import OFV.Proofs.C05Term

namespace OFV
namespace BK
open Model Model.C05 Spec Sem

def isX (p : Nat) : Bool := p == 1 || p == 2
def isZ (p : Nat) : Bool := p == 2 || p == 3

/-- qubits with an X-part (factors `X`, `Y`), with multiplicity, in order -/
def xl (t : List (Nat × Nat)) : List Nat := (t.filter fun f => isX f.2).map (·.1)
/-- qubits with a Z-part (factors `Y`, `Z`) -/
def zl (t : List (Nat × Nat)) : List Nat := (t.filter fun f => isZ f.2).map (·.1)

/-- the phase exponent of the normal form -/
def nfk : List (Nat × Nat) → Nat
  | [] => 0
  | f :: r => nfk r + (if f.2 = 2 then 1 else 0) + (if isZ f.2 then 2 * (xl r).count f.1 else 0)

theorem flipL_cons (e q : Nat) (L : List Nat) : flipL e (q :: L) = flipL e L ^^^ (1 <<< q) := rfl

/-- bit `k` after flipping a list of qubits (repetitions allowed) -/
theorem testBit_flipL' (e : Nat) (L : List Nat) (k : Nat) :
    (flipL e L).testBit k = (e.testBit k != decide (L.count k % 2 = 1)) := by
  induction L with
  | nil => simp [flipL]
  | cons x L ih =>
    rw [flipL_cons]
    by_cases hx : x = k
    · subst hx
      rw [testBit_xflip, ih, List.count_cons_self]
      by_cases h : List.count x L % 2 = 1
      · have : ¬ (List.count x L + 1) % 2 = 1 := by omega
        simp [h, this]
      · have : (List.count x L + 1) % 2 = 1 := by omega
        simp [h, this]
    · rw [testBit_xflip_ne _ _ _ hx, ih, List.count_cons_of_ne hx]

theorem xl_cons (f : Nat × Nat) (r : List (Nat × Nat)) : xl (f :: r) = if isX f.2 then f.1 :: xl r else xl r := by
  unfold xl; by_cases h : isX f.2 = true <;> simp [h]

theorem zl_cons (f : Nat × Nat) (r : List (Nat × Nat)) : zl (f :: r) = if isZ f.2 then f.1 :: zl r else zl r := by
  unfold zl; by_cases h : isZ f.2 = true <;> simp [h]

theorem xl_nil : xl [] = [] := rfl
theorem zl_nil : zl [] = [] := rfl
theorem nfk_nil : nfk [] = 0 := rfl

theorem xl_append (a b : List (Nat × Nat)) : xl (a ++ b) = xl a ++ xl b := by simp [xl]
theorem zl_append (a b : List (Nat × Nat)) : zl (a ++ b) = zl a ++ zl b := by simp [zl]

/-- **normal form**: phase and image of a basis state under a Pauli string -/
theorem nf_eval (t : List (Nat × Nat)) (e : Nat) :
    actPTerm t e = ((nfk t + 2 * cntL e (zl t)) % 4, flipL e (xl t)) := by
  induction t with
  | nil => simp [actPTerm_nil, nfk, zl, xl, cntL, flipL]
  | cons f t ih =>
    obtain ⟨q, p⟩ := f
    rw [actPTerm_cons, ih, xl_cons, zl_cons]
    simp only [stepP, nfk]
    have hb := testBit_flipL' e (xl t) q
    match p with
    | 0 => simp [isX, isZ, actP]
    | 1 => simp [isX, isZ, actP, flipL_cons]
    | 2 =>
      simp only [isX, isZ, actP, hb]
      simp only [show ((2 : Nat) == 1 || (2 : Nat) == 2) = true from rfl,
        show ((2 : Nat) == 2 || (2 : Nat) == 3) = true from rfl, if_true, cntL_cons, flipL_cons]
      by_cases h1 : e.testBit q = true <;> by_cases h2 : List.count q (xl t) % 2 = 1 <;>
        simp [h1, h2] <;> omega
    | 3 =>
      simp only [isX, isZ, actP, hb]
      simp only [show ((3 : Nat) == 1 || (3 : Nat) == 2) = false from rfl,
        show ((3 : Nat) == 2 || (3 : Nat) == 3) = true from rfl, if_true, cntL_cons]
      by_cases h1 : e.testBit q = true <;> by_cases h2 : List.count q (xl t) % 2 = 1 <;>
        simp [h1, h2] <;> omega
    | p + 4 => simp [isX, isZ, actP]

/-! ### the action only depends on the multiplicities modulo 2 -/

theorem flipL_congr (e : Nat) (L L' : List Nat) (h : ∀ q, L.count q % 2 = L'.count q % 2) :
    flipL e L = flipL e L' := by
  apply Nat.eq_of_testBit_eq
  intro k
  rw [testBit_flipL', testBit_flipL', h k]

theorem sum_range_single (N a c : Nat) (h : a < N) :
    ((List.range N).map fun q => if q = a then c else 0).sum = c := by
  induction N with
  | zero => omega
  | succ N ih =>
    rw [List.range_succ, List.map_append, List.sum_append]
    by_cases ha : a = N
    · subst ha
      have : ((List.range a).map fun q => if q = a then c else 0).sum = 0 := by
        apply List.sum_eq_zero
        intro x hx
        simp only [List.mem_map, List.mem_range] at hx
        obtain ⟨q, hq, rfl⟩ := hx
        have : ¬ q = a := by omega
        simp [this]
      simp [this]
    · have : ¬ N = a := fun h => ha h.symm
      rw [ih (by omega)]; simp [this]

theorem cntL_eq_sum (e N : Nat) (L : List Nat) (h : ∀ q ∈ L, q < N) :
    cntL e L = ((List.range N).map fun q => if e.testBit q then L.count q else 0).sum := by
  induction L with
  | nil => simp [cntL]
  | cons a L ih =>
    have ha : a < N := h a List.mem_cons_self
    rw [cntL_cons, ih (fun q hq => h q (List.mem_cons_of_mem _ hq))]
    have e1 : ((List.range N).map fun q => if e.testBit q then (a :: L).count q else 0).sum
        = ((List.range N).map fun q => (if e.testBit q then L.count q else 0)
            + (if q = a then (if e.testBit a then 1 else 0) else 0)).sum := by
      congr 1; apply List.map_congr_left; intro q _
      rw [List.count_cons]
      by_cases hq : q = a
      · subst hq; by_cases hb : e.testBit q <;> simp [hb]
      · have : ¬ a = q := fun h => hq h.symm
        by_cases hb : e.testBit q <;> simp [hb, hq, this]
    rw [e1, List.sum_map_add, sum_range_single N a _ ha]

theorem sum_mod_congr (l : List Nat) (f g : Nat → Nat) (h : ∀ q, f q % 2 = g q % 2) :
    (l.map f).sum % 2 = (l.map g).sum % 2 := by
  induction l with
  | nil => rfl
  | cons a l ih =>
    simp only [List.map_cons, List.sum_cons]
    have := h a
    omega

theorem cntL_parity_congr (e : Nat) (L L' : List Nat) (h : ∀ q, L.count q % 2 = L'.count q % 2) :
    cntL e L % 2 = cntL e L' % 2 := by
  let N := (L ++ L').foldr max 0 + 1
  have hN : ∀ q ∈ L ++ L', q < N := by
    intro q hq
    have : ∀ (M : List Nat), q ∈ M → q ≤ M.foldr max 0 := by
      intro M
      induction M with
      | nil => intro h; simp at h
      | cons a M ih =>
        intro h
        rcases List.mem_cons.1 h with rfl | h
        · simp
        · have := ih h; simp only [List.foldr_cons]; omega
    have := this _ hq
    omega
  rw [cntL_eq_sum e N L (fun q hq => hN q (List.mem_append_left _ hq)),
    cntL_eq_sum e N L' (fun q hq => hN q (List.mem_append_right _ hq))]
  apply sum_mod_congr
  intro q
  by_cases hb : e.testBit q <;> simp [hb, h q]

/-- two Pauli strings with the same X- and Z-supports modulo 2 and phases `d` apart act alike up to `i^d` -/
theorem same_action (t t' : List (Nat × Nat)) (d : Nat)
    (hx : ∀ q, (xl t).count q % 2 = (xl t').count q % 2)
    (hz : ∀ q, (zl t).count q % 2 = (zl t').count q % 2)
    (hk : nfk t % 4 = (nfk t' + d) % 4) (e : Nat) (W : Nat → GQ) :
    φW e W t = GQ.ipow d * φW e W t' := by
  unfold φW
  rw [nf_eval t, nf_eval t', flipL_congr e _ _ hx, ← mul_assoc, ipow_add]
  congr 1
  apply ipow_congr
  have := cntL_parity_congr e _ _ hz
  omega

/-! ### computing the normal form of concatenations and pads -/

/-- number of (Z-part in `L`, X-part in `M`) coincidences -/
def crossX (L M : List Nat) : Nat := (L.map fun q => M.count q).sum

theorem crossX_nil_left (M : List Nat) : crossX [] M = 0 := rfl
theorem crossX_cons_left (q : Nat) (L M : List Nat) : crossX (q :: L) M = M.count q + crossX L M := by
  simp [crossX]
theorem crossX_append_left (A B M : List Nat) : crossX (A ++ B) M = crossX A M + crossX B M := by
  simp [crossX]
theorem crossX_nil_right (L : List Nat) : crossX L [] = 0 := by
  simp [crossX]
theorem crossX_append_right (L A B : List Nat) : crossX L (A ++ B) = crossX L A + crossX L B := by
  induction L with
  | nil => rfl
  | cons q L ih => rw [crossX_cons_left, crossX_cons_left, crossX_cons_left, ih, List.count_append]; omega
theorem crossX_cons_right (L : List Nat) (x : Nat) (M : List Nat) :
    crossX L (x :: M) = L.count x + crossX L M := by
  induction L with
  | nil => simp [crossX]
  | cons q L ih =>
    rw [crossX_cons_left, crossX_cons_left, ih, List.count_cons, List.count_cons]
    by_cases h : x = q
    · subst h; simp; omega
    · have : ¬ q = x := fun h' => h h'.symm
      simp [h, this]; omega

theorem nfk_append (a b : List (Nat × Nat)) : nfk (a ++ b) = nfk a + nfk b + 2 * crossX (zl a) (xl b) := by
  induction a with
  | nil => simp [nfk, zl, crossX]
  | cons f a ih =>
    rw [List.cons_append, nfk, nfk, ih, zl_cons, xl_append, List.count_append]
    by_cases hz : isZ f.2 = true
    · simp only [hz, if_true, crossX_cons_left]; ring
    · simp only [hz, if_false, Bool.false_eq_true]; ring

theorem pad_nil (p : Nat) : pad p [] = [] := rfl
theorem pad_cons (p k : Nat) (L : List Nat) : pad p (k :: L) = (k, p) :: pad p L := rfl

theorem xl_pad1 (L : List Nat) : xl (pad 1 L) = L := by
  induction L with
  | nil => rfl
  | cons k L ih => rw [pad_cons, xl_cons, ih]; rfl
theorem xl_pad2 (L : List Nat) : xl (pad 2 L) = L := by
  induction L with
  | nil => rfl
  | cons k L ih => rw [pad_cons, xl_cons, ih]; rfl
theorem xl_pad3 (L : List Nat) : xl (pad 3 L) = [] := by
  induction L with
  | nil => rfl
  | cons k L ih => rw [pad_cons, xl_cons, ih]; rfl
theorem zl_pad1 (L : List Nat) : zl (pad 1 L) = [] := by
  induction L with
  | nil => rfl
  | cons k L ih => rw [pad_cons, zl_cons, ih]; rfl
theorem zl_pad2 (L : List Nat) : zl (pad 2 L) = L := by
  induction L with
  | nil => rfl
  | cons k L ih => rw [pad_cons, zl_cons, ih]; rfl
theorem zl_pad3 (L : List Nat) : zl (pad 3 L) = L := by
  induction L with
  | nil => rfl
  | cons k L ih => rw [pad_cons, zl_cons, ih]; rfl

theorem nfk_pad1 (L : List Nat) : nfk (pad 1 L) = 0 := by
  induction L with
  | nil => rfl
  | cons k L ih => rw [pad_cons, nfk, ih]; simp [isZ]
theorem nfk_pad3 (L : List Nat) : nfk (pad 3 L) = 0 := by
  induction L with
  | nil => rfl
  | cons k L ih => rw [pad_cons, nfk, ih, xl_pad3]; simp
theorem nfk_pad2_single (a : Nat) : nfk (pad 2 [a]) = 1 := by
  simp [pad, nfk, xl, isZ]

/-! ### multiplicities modulo 2 as Booleans -/

/-- `q` occurs an odd number of times -/
def cpar (q : Nat) (L : List Nat) : Bool := decide (L.count q % 2 = 1)

theorem cpar_nil (q : Nat) : cpar q [] = false := by simp [cpar]
theorem cpar_cons (q x : Nat) (L : List Nat) : cpar q (x :: L) = (decide (q = x) != cpar q L) := by
  unfold cpar
  rw [List.count_cons]
  by_cases h : q = x
  · subst h
    by_cases h2 : List.count q L % 2 = 1
    · have : ¬ (List.count q L + 1) % 2 = 1 := by omega
      simp [h2, this]
    · have : (List.count q L + 1) % 2 = 1 := by omega
      simp [h2, this]
  · have : ¬ x = q := fun h' => h h'.symm
    simp [h, this]
theorem cpar_append (q : Nat) (A B : List Nat) : cpar q (A ++ B) = (cpar q A != cpar q B) := by
  induction A with
  | nil => simp [cpar_nil]
  | cons x A ih => rw [List.cons_append, cpar_cons, cpar_cons, ih]; cases decide (q = x) <;> cases cpar q A <;> cases cpar q B <;> rfl
theorem cpar_sorted (q : Nat) (S : List Nat) (h : S.Pairwise (· < ·)) : cpar q S = decide (q ∈ S) := by
  unfold cpar
  by_cases hm : q ∈ S
  · rw [List.count_eq_one_of_mem (nodup_of_sorted h) hm]; simp [hm]
  · rw [List.count_eq_zero_of_not_mem hm]; simp [hm]

theorem count_mod_of_cpar (L L' : List Nat) (h : ∀ q, cpar q L = cpar q L') (q : Nat) :
    L.count q % 2 = L'.count q % 2 := by
  have := h q
  unfold cpar at this
  by_cases h1 : List.count q L % 2 = 1 <;> by_cases h2 : List.count q L' % 2 = 1 <;> simp [h1, h2] at this <;> omega

/-- `same_action` with the pointwise conditions as Boolean equations -/
theorem same_action' (t t' : List (Nat × Nat)) (d : Nat)
    (hx : ∀ q, cpar q (xl t) = cpar q (xl t'))
    (hz : ∀ q, cpar q (zl t) = cpar q (zl t'))
    (hk : nfk t % 4 = (nfk t' + d) % 4) (e : Nat) (W : Nat → GQ) :
    φW e W t = GQ.ipow d * φW e W t' :=
  same_action t t' d (count_mod_of_cpar _ _ hx) (count_mod_of_cpar _ _ hz) hk e W

end BK
end OFV
