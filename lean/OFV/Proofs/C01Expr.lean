/- C01: expression trees.  The Spec assigns to every expression tree over operators a linear map on
formal sums of basis states (`Spec.Expr.apply`); this file proves that map is linear, and that the
Model of the dunder methods (`+`, `-`, `*`, scalar `*`, `**`), evaluated bottom-up over the tree, yields a
dictionary denoting exactly that map — for every class whose `_simplify` is sound (`Sound`). -/
import OFV.Spec.Expr
import OFV.Model.Symbolic
import OFV.Proofs.C01Hom
import OFV.Proofs.GQRing
import Mathlib.Algebra.BigOperators.Group.List.Basic

namespace OFV
namespace ExprHom
open Spec Model

/-- pairing of a formal sum with a functional on basis states: `Σ_{(s,c) ∈ w} c · g s` -/
def pair (w : GV) (g : St → GQ) : GQ := (w.map fun e => e.2 * g e.1).sum

@[simp] theorem pair_nil (g : St → GQ) : pair [] g = 0 := rfl
@[simp] theorem pair_cons (e : St × GQ) (w : GV) (g : St → GQ) :
    pair (e :: w) g = e.2 * g e.1 + pair w g := by simp [pair]

theorem pair_addEntry (v : GV) (e : St) (c : GQ) (g : St → GQ) :
    pair (GV.addEntry v e c) g = pair v g + c * g e := by
  induction v with
  | nil => simp [GV.addEntry]
  | cons h r ih =>
    obtain ⟨e', c'⟩ := h
    simp only [GV.addEntry]
    split
    · rename_i h1; subst h1; simp only [pair_cons]; ring
    · simp only [pair_cons, ih]; ring

theorem pair_addAll (v w : GV) (g : St → GQ) : pair (GV.addAll v w) g = pair v g + pair w g := by
  unfold GV.addAll
  induction w generalizing v with
  | nil => simp
  | cons h r ih =>
    obtain ⟨e, c⟩ := h
    simp only [List.foldl_cons, pair_cons]
    rw [ih, pair_addEntry]; ring

theorem pair_scale (c : GQ) (v : GV) (g : St → GQ) : pair (GV.scale c v) g = c * pair v g := by
  induction v with
  | nil => simp [GV.scale]
  | cons h r ih =>
    obtain ⟨e, a⟩ := h
    simp only [GV.scale, List.map_cons, pair_cons] at ih ⊢
    rw [ih]; ring

theorem pair_applyLin (f : St → GV) (v : GV) (g : St → GQ) :
    pair (applyLin f v) g = (v.map fun p => p.2 * pair (f p.1) g).sum := by
  unfold applyLin
  suffices h : ∀ acc, pair (v.foldl (fun acc (p : St × GQ) => GV.addAll acc (GV.scale p.2 (f p.1))) acc) g
      = pair acc g + (v.map fun p => p.2 * pair (f p.1) g).sum by
    have := h []
    simpa using this
  induction v with
  | nil => intro acc; simp
  | cons p v ih =>
    intro acc
    simp only [List.foldl_cons, List.map_cons, List.sum_cons]
    rw [ih, pair_addAll, pair_scale]; ring

theorem sum_mul_left {α : Type} (c : GQ) (l : List α) (f : α → GQ) :
    (l.map fun i => c * f i).sum = c * (l.map f).sum := by
  induction l with
  | nil => simp
  | cons a l ih => simp only [List.map_cons, List.sum_cons, ih]; ring

theorem pair_eq_sum (w : GV) (g : St → GQ) : pair w g = (w.map fun p => p.2 * g p.1).sum := rfl

/-- **The Spec's interpretation of every expression tree is a linear map**: applying it to a formal sum
is the sum of its values on the basis states, for every algebra and every functional `g`. -/
theorem apply_linear (alg : Alg) (e : Expr) : ∀ (g : St → GQ) (v : GV),
    pair (e.apply alg v) g = (v.map fun p => p.2 * pair (e.apply alg [(p.1, 1)]) g).sum := by
  induction e with
  | leaf A =>
    intro g v
    simp only [Expr.apply, pair_applyLin]
    simp
  | add a b iha ihb =>
    intro g v
    simp only [Expr.apply, pair_addAll]
    rw [iha g v, ihb g v, ← List.sum_map_add]
    congr 1; apply List.map_congr_left; intro p _; ring
  | sub a b iha ihb =>
    intro g v
    simp only [Expr.apply, pair_addAll, pair_scale]
    rw [iha g v, ihb g v, ← sum_mul_left, ← List.sum_map_add]
    congr 1; apply List.map_congr_left; intro p _; ring
  | mul a b iha ihb =>
    intro g v
    simp only [Expr.apply]
    rw [iha g (b.apply alg v), ← pair_eq_sum (b.apply alg v) (fun s => pair (a.apply alg [(s, 1)]) g),
      ihb _ v]
    congr 1; apply List.map_congr_left; intro p _
    rw [iha g (b.apply alg [(p.1, 1)]),
      ← pair_eq_sum (b.apply alg [(p.1, 1)]) (fun s => pair (a.apply alg [(s, 1)]) g)]
  | smul c a iha =>
    intro g v
    simp only [Expr.apply, pair_scale]
    rw [iha g v, ← sum_mul_left]
    congr 1; apply List.map_congr_left; intro p _; ring
  | pow a k iha =>
    induction k with
    | zero =>
      intro g v
      simp only [Expr.apply, pair_cons, pair_nil]
      rw [pair_eq_sum]
      congr 1; apply List.map_congr_left; intro p _; ring
    | succ k ihk =>
      intro g v
      simp only [Expr.apply]
      rw [ihk g (a.apply alg v),
        ← pair_eq_sum (a.apply alg v) (fun s => pair ((Expr.pow a k).apply alg [(s, 1)]) g), iha _ v]
      congr 1; apply List.map_congr_left; intro p _
      rw [ihk g (a.apply alg [(p.1, 1)]),
        ← pair_eq_sum (a.apply alg [(p.1, 1)]) (fun s => pair ((Expr.pow a k).apply alg [(s, 1)]) g)]

/-! ### the Model's evaluation of an expression tree -/

/-- bottom-up evaluation with the Model of the dunder methods of `SymbolicOperator` -/
def evalM (tol : Rat) (cls : Cls) : Expr → Op
  | .leaf A => A
  | .add a b => iadd tol (evalM tol cls a) (evalM tol cls b)
  | .sub a b => isub tol (evalM tol cls a) (evalM tol cls b)
  | .mul a b => mulOp cls (evalM tol cls a) (evalM tol cls b)
  | .smul c a => smul c (evalM tol cls a)
  | .pow a k => powOp cls (evalM tol cls a) k

/-- the exact regime of a whole tree: every leaf key is admissible and every `+` / `-` node is exact
(no intermediate coefficient non-zero but below the deletion tolerance) -/
def Exact (tol : Rat) (cls : Cls) (valid : Term → Prop) : Expr → Prop
  | .leaf A => ∀ e ∈ A, valid e.1
  | .add a b => Exact tol cls valid a ∧ Exact tol cls valid b ∧
      ExactAdd tol (evalM tol cls a) (evalM tol cls b)
  | .sub a b => Exact tol cls valid a ∧ Exact tol cls valid b ∧
      ExactAdd tol (evalM tol cls a) ((evalM tol cls b).map fun e => (e.1, -e.2))
  | .mul a b => Exact tol cls valid a ∧ Exact tol cls valid b
  | .smul _ a => Exact tol cls valid a
  | .pow a _ => Exact tol cls valid a

/-- `Σ`-pairing of `τ|s⟩` with `g` -/
def termPair (alg : Alg) (s : St) (g : St → GQ) (t : Term) : GQ :=
  match actTerm alg t s with
  | none => 0
  | some (k, s') => k * g s'

theorem den_eq_sum (φ : Term → GQ) (A : Op) : den φ A = (A.map fun e => e.2 * φ e.1).sum := by
  induction A with
  | nil => rfl
  | cons e A ih => simp only [den_cons, List.map_cons, List.sum_cons, ih]

/-- `⟨g, A|s⟩⟩ = Σ_{(τ,c) ∈ A} c · ⟨g, τ|s⟩⟩` -/
theorem pair_applyOp (alg : Alg) (A : Op) (s : St) (g : St → GQ) :
    pair (applyOp alg A s) g = den (termPair alg s g) A := by
  unfold applyOp
  suffices h : ∀ acc : GV, pair (A.foldl (fun acc (tc : Term × GQ) => match actTerm alg tc.1 s with
      | none => acc
      | some (k, s') => GV.addEntry acc s' (tc.2 * k)) acc) g = pair acc g + den (termPair alg s g) A by
    have := h []
    simp only [pair_nil, zero_add] at this
    exact this
  induction A with
  | nil => intro acc; simp
  | cons e A ih =>
    intro acc
    simp only [List.foldl_cons, den_cons]
    rw [ih]
    unfold termPair
    cases hh : actTerm alg e.1 s with
    | none => simp
    | some ks =>
      obtain ⟨k, s'⟩ := ks
      simp only [pair_addEntry]; ring

/-- what a class and its algebra must satisfy for the tree theorem: the Spec action of a concatenation is
the composition of the actions, `_simplify` preserves the action up to its coefficient factor, and the
admissible terms are closed under what the product loop builds -/
structure Sound (alg : Alg) (cls : Cls) (valid : Term → Prop) (norm : St → St) : Prop where
  act_nil : ∀ s, actTerm alg [] s = some (1, norm s)
  act_norm : ∀ t s, actTerm alg t (norm s) = actTerm alg t s
  act_append : ∀ lt rt s, actTerm alg (lt ++ rt) s =
    match actTerm alg rt s with
    | none => none
    | some (k, s') => match actTerm alg lt s' with
      | none => none
      | some (k', s'') => some (k' * k, s'')
  valid_nil : valid []
  valid_append : ∀ lt rt, valid lt → valid rt → valid (lt ++ rt)
  valid_simplify : ∀ t, valid t → valid (simplify cls t).2
  simplify_sound : ∀ t, valid t → ∀ s,
    actTerm alg t s = (actTerm alg (simplify cls t).2 s).map fun p => ((simplify cls t).1 * p.1, p.2)

section keys
variable {P : Term → Prop}

theorem set_keys {d : Op} {k : Term} (v : GQ) (hd : ∀ e ∈ d, P e.1) (hk : P k) :
    ∀ e ∈ Dict.set d k v, P e.1 := by
  induction d with
  | nil => intro e he; simp [Dict.set] at he; subst he; exact hk
  | cons h r ih =>
    obtain ⟨k', v'⟩ := h
    simp only [Dict.set]
    split
    · rename_i hkk
      intro e he
      rcases List.mem_cons.mp he with rfl | he
      · exact hd (k', v') List.mem_cons_self
      · exact hd e (List.mem_cons_of_mem _ he)
    · intro e he
      rcases List.mem_cons.mp he with rfl | he
      · exact hd _ List.mem_cons_self
      · exact ih (fun e he => hd e (List.mem_cons_of_mem _ he)) e he

theorem erase_keys {d : Op} (k : Term) (hd : ∀ e ∈ d, P e.1) : ∀ e ∈ Dict.erase d k, P e.1 := by
  induction d with
  | nil => intro e he; simp [Dict.erase] at he
  | cons h r ih =>
    obtain ⟨k', v'⟩ := h
    simp only [Dict.erase]
    split
    · intro e he; exact hd e (List.mem_cons_of_mem _ he)
    · intro e he
      rcases List.mem_cons.mp he with rfl | he
      · exact hd _ List.mem_cons_self
      · exact ih (fun e he => hd e (List.mem_cons_of_mem _ he)) e he

theorem accum_keys {d : Op} {k : Term} (v : GQ) (hd : ∀ e ∈ d, P e.1) (hk : P k) :
    ∀ e ∈ accum d k v, P e.1 := by
  unfold accum; split <;> exact set_keys _ hd hk

theorem iadd_keys (tol : Rat) {A B : Op} (hA : ∀ e ∈ A, P e.1) (hB : ∀ e ∈ B, P e.1) :
    ∀ e ∈ iadd tol A B, P e.1 := by
  unfold iadd
  induction B generalizing A with
  | nil => exact hA
  | cons b B ih =>
    simp only [List.foldl_cons]
    apply ih _ (fun e he => hB e (List.mem_cons_of_mem _ he))
    split
    · exact erase_keys _ hA
    · exact set_keys _ hA (hB b List.mem_cons_self)

theorem map_neg_keys {B : Op} (hB : ∀ e ∈ B, P e.1) :
    ∀ e ∈ (B.map fun e => (e.1, -e.2)), P e.1 := by
  intro e he
  obtain ⟨e', he', rfl⟩ := List.mem_map.mp he
  exact hB e' he'

theorem smul_keys (c : GQ) {A : Op} (hA : ∀ e ∈ A, P e.1) : ∀ e ∈ smul c A, P e.1 := by
  intro e he
  obtain ⟨e', he', rfl⟩ := List.mem_map.mp he
  exact hA e' he'

theorem mulOp_keys (cls : Cls) {A B : Op}
    (h : ∀ l ∈ A, ∀ r ∈ B, P (simplify cls (l.1 ++ r.1)).2) : ∀ e ∈ mulOp cls A B, P e.1 := by
  unfold mulOp
  suffices hh : ∀ acc : Op, (∀ e ∈ acc, P e.1) → ∀ e ∈ A.foldl (fun acc (l : Term × GQ) =>
      B.foldl (fun acc2 (r : Term × GQ) =>
        accum acc2 (simplify cls (l.1 ++ r.1)).2 (l.2 * r.2 * (simplify cls (l.1 ++ r.1)).1)) acc) acc,
      P e.1 from hh [] (fun e he => by simp at he)
  induction A with
  | nil => intro acc hacc; exact hacc
  | cons l A ih =>
    intro acc hacc
    simp only [List.foldl_cons]
    apply ih (fun l' hl' r hr => h l' (List.mem_cons_of_mem _ hl') r hr)
    have hl : ∀ r ∈ B, P (simplify cls (l.1 ++ r.1)).2 := fun r hr => h l List.mem_cons_self r hr
    clear ih h
    induction B generalizing acc with
    | nil => exact hacc
    | cons r B ihB =>
      simp only [List.foldl_cons]
      apply ihB _ _ (fun r' hr' => hl r' (List.mem_cons_of_mem _ hr'))
      exact accum_keys _ hacc (hl r List.mem_cons_self)

end keys

section hom
variable {alg : Alg} {cls : Cls} {valid : Term → Prop} {norm : St → St}

theorem termPair_simplify (S : Sound alg cls valid norm) (t : Term) (ht : valid t) (s : St) (g : St → GQ) :
    (simplify cls t).1 * termPair alg s g (simplify cls t).2 = termPair alg s g t := by
  unfold termPair
  rw [S.simplify_sound t ht s]
  cases actTerm alg (simplify cls t).2 s with
  | none => simp
  | some p => obtain ⟨k, s'⟩ := p; simp only [Option.map_some]; ring

theorem termPair_append (S : Sound alg cls valid norm) (lt rt : Term) (s : St) (g : St → GQ) :
    termPair alg s g (lt ++ rt) = termPair alg s (fun s' => termPair alg s' g lt) rt := by
  unfold termPair
  rw [S.act_append]
  cases actTerm alg rt s with
  | none => rfl
  | some p =>
    obtain ⟨k, s'⟩ := p
    simp only
    cases actTerm alg lt s' with
    | none => simp
    | some q => obtain ⟨k', s''⟩ := q; simp only; ring

theorem termPair_norm (S : Sound alg cls valid norm) (g : St → GQ) (t : Term) (s : St) :
    termPair alg (norm s) g t = termPair alg s g t := by
  unfold termPair; rw [S.act_norm]

theorem termPair_den (A : Op) (rt : Term) (s : St) (g : St → GQ) :
    termPair alg s (fun s' => den (termPair alg s' g) A) rt =
      den (fun lt => termPair alg s (fun s' => termPair alg s' g lt) rt) A := by
  induction A with
  | nil => unfold termPair; cases actTerm alg rt s with
    | none => rfl
    | some p => obtain ⟨k, s'⟩ := p; simp
  | cons l A ih =>
    simp only [den_cons]
    rw [← ih]
    unfold termPair
    cases actTerm alg rt s with
    | none => simp
    | some p => obtain ⟨k, s'⟩ := p; simp only; ring

theorem bil_eq_sum (ψ : Term → Term → GQ) (A B : Op) :
    bil ψ A B = (A.map fun l => (B.map fun r => l.2 * r.2 * ψ l.1 r.1).sum).sum := by
  unfold bil
  induction A with
  | nil => rfl
  | cons l A ih =>
    simp only [List.foldr_cons, List.map_cons, List.sum_cons, ih]
    congr 1
    clear ih
    induction B with
    | nil => rfl
    | cons r B ihB => simp only [List.foldr_cons, List.map_cons, List.sum_cons, ihB]

theorem sum_swap {α β : Type} (a : List α) (b : List β) (f : α → β → GQ) :
    (a.map fun l => (b.map fun r => f l r).sum).sum = (b.map fun r => (a.map fun l => f l r).sum).sum := by
  induction a with
  | nil => simp
  | cons l a ih => simp [ih, List.sum_map_add]

theorem bil_swap (ψ : Term → Term → GQ) (A B : Op) :
    bil ψ A B = den (fun rt => den (fun lt => ψ lt rt) A) B := by
  rw [bil_eq_sum, sum_swap, den_eq_sum]
  congr 1; apply List.map_congr_left; intro r _
  rw [den_eq_sum, ← sum_mul_left]
  congr 1; apply List.map_congr_left; intro l _; ring

/-- **`(A·B)|s⟩ = A(B|s⟩)`** for the Model's product loop, for every class with a sound `_simplify` -/
theorem den_mulOp_sem (S : Sound alg cls valid norm) (A B : Op) (hA : ∀ e ∈ A, valid e.1)
    (hB : ∀ e ∈ B, valid e.1) (s : St) (g : St → GQ) :
    den (termPair alg s g) (mulOp cls A B) =
      den (termPair alg s (fun s' => den (termPair alg s' g) A)) B := by
  rw [den_mulOp,
    bil_congr _ (fun lt rt => termPair alg s (fun s' => termPair alg s' g lt) rt) A B
      (fun l hl r hr => by
        rw [termPair_simplify S _ (S.valid_append _ _ (hA l hl) (hB r hr)), termPair_append S]),
    bil_swap]
  congr 1; funext rt; rw [termPair_den]

theorem mul_step (S : Sound alg cls valid norm) (ea eb : Expr) (MA MB : Op)
    (hA : ∀ e ∈ MA, valid e.1) (hB : ∀ e ∈ MB, valid e.1)
    (HA : ∀ (s : St) (g : St → GQ), (∀ s, g (norm s) = g s) →
      pair (ea.apply alg [(s, 1)]) g = den (termPair alg s g) MA)
    (HB : ∀ (s : St) (g : St → GQ), (∀ s, g (norm s) = g s) →
      pair (eb.apply alg [(s, 1)]) g = den (termPair alg s g) MB)
    (s : St) (g : St → GQ) (hg : ∀ s, g (norm s) = g s) :
    pair (ea.apply alg (eb.apply alg [(s, 1)])) g = den (termPair alg s g) (mulOp cls MA MB) := by
  rw [apply_linear alg ea g (eb.apply alg [(s, 1)])]
  have hfun : (fun p : St × GQ => p.2 * pair (ea.apply alg [(p.1, 1)]) g) =
      fun p => p.2 * (fun s' => den (termPair alg s' g) MA) p.1 := by
    funext p; rw [HA p.1 g hg]
  rw [hfun, ← pair_eq_sum (eb.apply alg [(s, 1)]) (fun s' => den (termPair alg s' g) MA),
    HB s _ (fun s' => by
      show den (termPair alg (norm s') g) MA = den (termPair alg s' g) MA
      congr 1; funext t; exact termPair_norm S g t s'),
    den_mulOp_sem S MA MB hA hB]

/-- **Expression-tree homomorphism.**  For every class with a sound `_simplify`, every finite expression
tree `e` over `+`, `-`, `*`, scalar `*` and `**` whose leaves hold admissible keys, in the exact regime of its
`+`/`-` nodes: the dictionary the Model of the dunder methods computes bottom-up denotes exactly the linear
map the Spec assigns to the tree — on every basis state `s`, against every functional `g`. -/
theorem expr_hom (S : Sound alg cls valid norm) (tol : Rat) (e : Expr) :
    Exact tol cls valid e →
    (∀ k ∈ evalM tol cls e, valid k.1) ∧
    ∀ (s : St) (g : St → GQ), (∀ s, g (norm s) = g s) →
      pair (e.apply alg [(s, 1)]) g = den (termPair alg s g) (evalM tol cls e) := by
  induction e with
  | leaf A =>
    intro he
    refine ⟨he, fun s g _ => ?_⟩
    simp only [Expr.apply, evalM, pair_applyLin, List.map_cons, List.map_nil, List.sum_cons, List.sum_nil]
    rw [pair_applyOp]; ring
  | add a b iha ihb =>
    intro he
    obtain ⟨ha, hb, hx⟩ := he
    obtain ⟨ka, pa⟩ := iha ha
    obtain ⟨kb, pb⟩ := ihb hb
    refine ⟨iadd_keys tol ka kb, fun s g hg => ?_⟩
    simp only [Expr.apply, evalM, pair_addAll]
    rw [pa s g hg, pb s g hg, den_iadd tol _ _ _ hx]
  | sub a b iha ihb =>
    intro he
    obtain ⟨ha, hb, hx⟩ := he
    obtain ⟨ka, pa⟩ := iha ha
    obtain ⟨kb, pb⟩ := ihb hb
    refine ⟨?_, fun s g hg => ?_⟩
    · simp only [evalM]; rw [isub_eq_iadd_neg]; exact iadd_keys tol ka (map_neg_keys kb)
    · simp only [Expr.apply, evalM, pair_addAll, pair_scale]
      rw [pa s g hg, pb s g hg, isub_eq_iadd_neg, den_iadd tol _ _ _ hx, den_map_neg]; ring
  | mul a b iha ihb =>
    intro he
    obtain ⟨ha, hb⟩ := he
    obtain ⟨ka, pa⟩ := iha ha
    obtain ⟨kb, pb⟩ := ihb hb
    refine ⟨mulOp_keys cls (fun l hl r hr =>
      S.valid_simplify _ (S.valid_append _ _ (ka l hl) (kb r hr))), fun s g hg => ?_⟩
    simp only [Expr.apply, evalM]
    exact mul_step S a b _ _ ka kb pa pb s g hg
  | smul c a iha =>
    intro he
    obtain ⟨ka, pa⟩ := iha he
    refine ⟨smul_keys c ka, fun s g hg => ?_⟩
    simp only [Expr.apply, evalM, pair_scale]
    rw [pa s g hg, den_smul]
  | pow a k iha =>
    intro he
    obtain ⟨ka, pa⟩ := iha he
    induction k with
    | zero =>
      refine ⟨?_, fun s g hg => ?_⟩
      · intro e hm
        simp only [evalM, powOp, mk, List.mem_singleton] at hm
        subst hm
        exact S.valid_simplify _ S.valid_nil
      · simp only [Expr.apply, evalM, powOp, mk, pair_cons, pair_nil, den_cons, den_nil]
        have h1 := termPair_simplify S [] S.valid_nil s g
        have h2 : termPair alg s g [] = g s := by
          unfold termPair; rw [S.act_nil]; simp only; rw [hg]; ring
        rw [h2] at h1
        calc (1 : GQ) * g s + 0 = g s := by ring
          _ = (simplify cls []).1 * termPair alg s g (simplify cls []).2 := h1.symm
          _ = _ := by ring
    | succ k ihk =>
      obtain ⟨kk, pk⟩ := ihk he
      refine ⟨mulOp_keys cls (fun l hl r hr =>
        S.valid_simplify _ (S.valid_append _ _ (kk l hl) (ka r hr))), fun s g hg => ?_⟩
      simp only [Expr.apply, evalM, powOp]
      exact mul_step S (Expr.pow a k) a _ _ kk ka pk pa s g hg

end hom

end ExprHom
end OFV
