/- Lemmas about exponent vectors of the bosonic Spec (polynomial representation) and invariance
   of the boson / quadrature term action under the index sort.  Core Lean only. -/
import OFV.Spec.Boson
import OFV.Spec.Expr
import OFV.Proofs.GQAlgebra
import OFV.Proofs.C01Sort

namespace OFV
namespace Spec

theorem expGet_nil (i : Nat) : expGet [] i = 0 := by simp [expGet]
theorem expGet_cons_zero (a : Nat) (r : Mono) : expGet (a :: r) 0 = a := by simp [expGet]
theorem expGet_cons_succ (a : Nat) (r : Mono) (i : Nat) : expGet (a :: r) (i + 1) = expGet r i := by
  simp [expGet]

theorem trimZeros_eq_nil_iff (e : Mono) : trimZeros e = [] ↔ ∀ i, expGet e i = 0 := by
  induction e with
  | nil => simp [trimZeros, expGet_nil]
  | cons a r ih =>
    simp only [trimZeros]
    constructor
    · intro h
      split at h
      · rename_i hc
        intro i
        cases i with
        | zero => rw [expGet_cons_zero]; exact hc.2
        | succ i => rw [expGet_cons_succ]; exact ih.mp hc.1 i
      · cases h
    · intro h
      have h0 : a = 0 := by have := h 0; rwa [expGet_cons_zero] at this
      have hr : trimZeros r = [] := ih.mpr (fun i => by have := h (i + 1); rwa [expGet_cons_succ] at this)
      simp [h0, hr]

theorem expGet_trimZeros (e : Mono) (i : Nat) : expGet (trimZeros e) i = expGet e i := by
  induction e generalizing i with
  | nil => simp [trimZeros]
  | cons a r ih =>
    simp only [trimZeros]
    split
    · rename_i hc
      rw [expGet_nil]
      cases i with
      | zero => rw [expGet_cons_zero]; exact hc.2.symm
      | succ i => rw [expGet_cons_succ]; exact ((trimZeros_eq_nil_iff r).mp hc.1 i).symm
    · cases i with
      | zero => simp [expGet_cons_zero]
      | succ i => rw [expGet_cons_succ, expGet_cons_succ, ih]

/-- exponent vectors with the same exponents have the same canonical form -/
theorem trimZeros_ext (a b : Mono) (h : ∀ i, expGet a i = expGet b i) : trimZeros a = trimZeros b := by
  induction a generalizing b with
  | nil =>
    have : trimZeros b = [] := (trimZeros_eq_nil_iff b).mpr (fun i => by rw [← h i, expGet_nil])
    simp [trimZeros, this]
  | cons x a' ih =>
    cases b with
    | nil =>
      have : trimZeros (x :: a') = [] :=
        (trimZeros_eq_nil_iff _).mpr (fun i => by rw [h i, expGet_nil])
      rw [this]; rfl
    | cons y b' =>
      have hxy : x = y := by have := h 0; rwa [expGet_cons_zero, expGet_cons_zero] at this
      have ht : trimZeros a' = trimZeros b' :=
        ih b' (fun i => by have := h (i + 1); rwa [expGet_cons_succ, expGet_cons_succ] at this)
      simp only [trimZeros, hxy, ht]

theorem expGet_pad_set (e : Mono) (j v i : Nat) :
    expGet ((if j < e.length then e else e ++ List.replicate (j + 1 - e.length) 0).set j v) i =
      if i = j then v else expGet e i := by
  simp only [expGet, List.getD_eq_getElem?_getD, List.getElem?_set]
  by_cases hij : i = j
  · subst hij
    simp only [if_true]
    split
    · rename_i hlt; simp [hlt]
    · rename_i hlt
      simp only [List.length_append, List.length_replicate]
      have : i < e.length + (i + 1 - e.length) := by omega
      simp [this]
  · have hji : ¬ j = i := fun h => hij h.symm
    simp only [hji, hij, if_false]
    split
    · rfl
    · rename_i hlt
      rw [List.getElem?_append]
      split
      · rfl
      · rename_i hge
        have hnone : e[i]? = none := by
          apply List.getElem?_eq_none; omega
        rw [hnone]
        simp only [List.getElem?_replicate]
        split <;> rfl

theorem expGet_expSet (e : Mono) (j v i : Nat) :
    expGet (expSet e j v) i = if i = j then v else expGet e i := by
  simp only [expSet]
  rw [expGet_trimZeros, expGet_pad_set]

/-- extensionality for results of `expSet` (always canonical) -/
theorem expSet_ext (e e' : Mono) (j j' v v' : Nat)
    (h : ∀ i, expGet (expSet e j v) i = expGet (expSet e' j' v') i) : expSet e j v = expSet e' j' v' := by
  simp only [expSet] at h ⊢
  apply trimZeros_ext
  intro i
  have := h i
  rwa [expGet_trimZeros, expGet_trimZeros] at this

theorem expSet_comm (e : Mono) (j k v w : Nat) (hjk : j ≠ k) :
    expSet (expSet e k v) j w = expSet (expSet e j w) k v := by
  apply expSet_ext
  intro i
  simp only [expGet_expSet]
  by_cases h1 : i = j <;> by_cases h2 : i = k
  · omega
  · subst h1; simp [h2, hjk]
  · subst h2; simp [h1, Ne.symm hjk]
  · simp [h1, h2]


/-! ### local actions and the sort -/

/-- one factor applied to `some (coefficient, monomial)` — the body of `actTermWith` -/
def stepW (act : Nat → Nat → Mono → Option (GQ × Mono)) (f : Nat × Nat)
    (acc : Option (GQ × Mono)) : Option (GQ × Mono) :=
  match acc with
  | none => none
  | some (c, e') => match act f.1 f.2 e' with
    | none => none
    | some (c', e'') => some (c' * c, e'')

theorem actTermWith_eq (act : Nat → Nat → Mono → Option (GQ × Mono)) (t : List (Nat × Nat)) (e : Mono) :
    actTermWith act t e = t.foldr (stepW act) (some (1, e)) := rfl

/-- an action that reads and writes only the exponent of its own mode -/
def actL (g : Nat → Nat → Option (GQ × Nat)) (j a : Nat) (e : Mono) : Option (GQ × Mono) :=
  match g a (expGet e j) with
  | none => none
  | some (c, v) => some (c, expSet e j v)

def gB (a k : Nat) : Option (GQ × Nat) :=
  if a == 1 then some (1, k + 1) else if k = 0 then none else some (GQ.ofInt k, k - 1)

def gQuad (hbar : GQ) (a k : Nat) : Option (GQ × Nat) :=
  if a == 0 then some (1, k + 1) else if k = 0 then none else some ((-GQ.I) * hbar * GQ.ofInt k, k - 1)

theorem actB_local (j a : Nat) (e : Mono) : actB j a e = actL gB j a e := by
  simp only [actB, actL, gB, raiseX, lowerX]
  by_cases ha : (a == 1) = true
  · simp [ha]
  · simp only [ha]
    by_cases hk : expGet e j = 0 <;> simp [hk]

theorem actQuad_local (hbar : GQ) (j a : Nat) (e : Mono) : actQuad hbar j a e = actL (gQuad hbar) j a e := by
  simp only [actQuad, actL, gQuad, raiseX, lowerX]
  by_cases ha : (a == 0) = true
  · simp [ha]
  · simp only [ha]
    by_cases hk : expGet e j = 0 <;> simp [hk]

/-- local actions on different modes commute -/
theorem stepW_local_comm (g : Nat → Nat → Option (GQ × Nat)) (f h : Nat × Nat) (hne : f.1 ≠ h.1)
    (x : Option (GQ × Mono)) :
    stepW (actL g) f (stepW (actL g) h x) = stepW (actL g) h (stepW (actL g) f x) := by
  cases x with
  | none => rfl
  | some p =>
    obtain ⟨c, e⟩ := p
    simp only [stepW, actL]
    cases hh : g h.2 (expGet e h.1) with
    | none =>
      cases hf : g f.2 (expGet e f.1) with
      | none => rfl
      | some q =>
        obtain ⟨cf, vf⟩ := q
        simp only [expGet_expSet, Ne.symm hne, if_false, hh]
    | some q =>
      obtain ⟨ch, vh⟩ := q
      simp only [expGet_expSet, hne, if_false]
      cases hf : g f.2 (expGet e f.1) with
      | none => rfl
      | some q' =>
        obtain ⟨cf, vf⟩ := q'
        simp only [expGet_expSet, Ne.symm hne, if_false, hh]
        rw [expSet_comm e f.1 h.1 vh vf hne]
        congr 2
        rw [← GQ.mul_assoc', ← GQ.mul_assoc', GQ.mul_comm' cf ch]

/-- **the index sort of `BosonOperator._simplify` / `QuadOperator._simplify` never changes the
operator a term denotes** (polynomial representation; any term, any monomial). -/
theorem actB_sortF (t : List (Nat × Nat)) (e : Mono) :
    actTermWith actB (Model.sortF t) e = actTermWith actB t e := by
  have hact : actB = actL gB := by funext j a e; exact actB_local j a e
  rw [actTermWith_eq, actTermWith_eq, hact]
  exact Model.foldr_sortF (stepW (actL gB)) (fun f g x h => stepW_local_comm gB f g h x) t _

theorem actQuad_sortF (hbar : GQ) (t : List (Nat × Nat)) (e : Mono) :
    actTermWith (actQuad hbar) (Model.sortF t) e = actTermWith (actQuad hbar) t e := by
  have hact : actQuad hbar = actL (gQuad hbar) := by funext j a e; exact actQuad_local hbar j a e
  rw [actTermWith_eq, actTermWith_eq, hact]
  exact Model.foldr_sortF (stepW (actL (gQuad hbar)))
    (fun f g x h => stepW_local_comm (gQuad hbar) f g h x) t _

end Spec
end OFV
