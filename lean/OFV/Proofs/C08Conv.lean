/-
C08 helper lemmas: Majorana semantics as a linear functional, and the generator images of the
Majorana <-> fermion conversions.
-/
import OFV.Proofs.C08Arith

namespace OFV
namespace C08P
open Spec Spec.C08 Model Model.C08

def evalWM (w : List Nat → GQ) : List (List Nat × GQ) → GQ
  | [] => 0
  | (τ, c) :: r => c * w τ + evalWM w r

def termMelM (τ : List Nat) (t s : Nat) : GQ :=
  if (actMTerm τ s).2 = t then GQ.ipow (actMTerm τ s).1 else 0

theorem coeff_applyM_aux (A : List (List Nat × GQ)) (s t : Nat) (acc : SV) :
    SV.coeff (A.foldl (fun acc (x : List Nat × GQ) =>
      SV.addEntry acc (actMTerm x.1 s).2 (x.2 * GQ.ipow (actMTerm x.1 s).1)) acc) t
    = SV.coeff acc t + evalWM (fun τ => termMelM τ t s) A := by
  induction A generalizing acc with
  | nil => simp [evalWM]
  | cons e r ih =>
    obtain ⟨τ, c⟩ := e
    simp only [List.foldl_cons, evalWM]
    rw [ih, coeff_addEntry]
    by_cases h2 : (actMTerm τ s).2 = t
    · simp [termMelM, h2]; ring
    · simp [termMelM, h2]

theorem melM_eq_evalWM (A : List (List Nat × GQ)) (t s : Nat) :
    SV.coeff (applyM A s) t = evalWM (fun τ => termMelM τ t s) A := by
  have h := coeff_applyM_aux A s t []
  have h0 : SV.coeff ([] : SV) t = 0 := rfl
  rw [h0, zero_add] at h
  rw [← h]
  rfl

theorem notSmall_one : GQ.isSmall Generated.eqTolerance 1 = false := by decide +kernel
theorem notSmall_I : GQ.isSmall Generated.eqTolerance GQ.I = false := by decide +kernel

theorem majGen_even (j : Nat) :
    majoranaTermToFermion Generated.eqTolerance [2 * j] = [([(j, 0)], 1), ([(j, 1)], 1)] := by
  simp [majoranaTermToFermion, mk, simplify, Model.iadd, mulOp, accum, Dict.get?, Dict.getD, Dict.set,
    Dict.erase, notSmall_one]

theorem majGen_odd (j : Nat) :
    majoranaTermToFermion Generated.eqTolerance [2 * j + 1] = [([(j, 0)], -GQ.I), ([(j, 1)], GQ.I)] := by
  have h1 : (2 * j + 1) / 2 = j := by omega
  simp [majoranaTermToFermion, mk, simplify, Model.iadd, mulOp, accum, Dict.get?, Dict.getD, Dict.set,
    Dict.erase, notSmall_I, h1]

theorem ferGen (j a : Nat) :
    fermionTermToMajorana [(j, a)]
      = [([2 * j], half), ([2 * j + 1], if a ≠ 0 then -(half * GQ.I) else half * GQ.I)] := by
  by_cases ha : a = 0 <;>
  simp [fermionTermToMajorana, mmk, sortM, sortMFuel, mmul, mergeM, maccum, miadd, Dict.get?, Dict.set, ha,
    GQ.sgn]

end C08P
end OFV
