/- C09, binary_code_transform, part 4: the hypotheses of the term theorem follow from validity of
the code at the vector (decoder = occupations) and from `make_parity_list`. -/
import OFV.Proofs.C09Bct3

namespace OFV.C09
open OFV.Model OFV.Model.C09 OFV.Spec.C09
open OFV.Spec (countBelow)
open OFV.C10 (countBelow_succ)

/-- the prefix sums `make_parity_list` builds: `P_0 = 0`, `P_{j+1} = P_j + decoder[j]` -/
def prefixPoly (c : Code) : Nat → Poly
  | 0 => []
  | j + 1 => C09.iadd (prefixPoly c j) ((c.dec.getD j .int0).toPoly)

theorem makeParityList_go (c : Code) (k : Nat) :
    (List.range k).foldl (fun (acc : List Poly × Poly) i =>
        let nxt := C09.iadd acc.2 ((c.dec.getD i .int0).toPoly)
        (acc.1 ++ [nxt], nxt)) ([[]], [])
      = ((List.range (k + 1)).map (prefixPoly c), prefixPoly c k) := by
  induction k with
  | zero => rfl
  | succ k ih =>
    rw [List.range_succ, List.foldl_append, ih]
    simp only [List.foldl_cons, List.foldl_nil]
    rw [List.range_succ (n := k + 1), List.map_append]
    rfl

theorem makeParityList_eq (c : Code) : makeParityList c = (List.range (c.nm - 1 + 1)).map (prefixPoly c) := by
  unfold makeParityList
  rw [makeParityList_go]

theorem eval_prefixPoly (c : Code) (w : Nat → Bool) (s : Nat)
    (h : ∀ i, i < c.dec.length → evalPoly w ((c.dec.getD i .int0).toPoly) = s.testBit i) (j : Nat)
    (hj : j ≤ c.dec.length) : evalPoly w (prefixPoly c j) = (countBelow s j % 2 == 1) := by
  induction j with
  | zero => simp [prefixPoly, evalPoly_nil, countBelow]
  | succ k ih =>
    rw [prefixPoly, eval_iadd, ih (by omega), h k (by omega), countBelow_succ]
    generalize countBelow s k = X
    have := Nat.mod_two_eq_zero_or_one X
    cases s.testBit k <;> rcases this with hx | hx
    · simp [hx]
    · simp [hx]
    · have : (X + 1) % 2 = 1 := by omega
      simp [hx, this]
    · have : (X + 1) % 2 = 0 := by omega
      simp [hx, this]

theorem ne_prefixPoly (c : Code) (hne : ∀ e ∈ c.dec, ∀ t ∈ e.toPoly, t ≠ []) (j : Nat) :
    ∀ t ∈ prefixPoly c j, t ≠ [] := by
  induction j with
  | zero => intro t ht; cases ht
  | succ k ih =>
    intro t ht
    rcases mem_iadd _ _ t ht with h | h
    · exact ih t h
    · by_cases hk : k < c.dec.length
      · exact hne _ (getD_mem_of_lt c.dec k hk) t h
      · have : c.dec.getD k .int0 = .int0 := by
          simp [List.getD_eq_getElem?_getD, List.getElem?_eq_none (Nat.le_of_not_lt hk)]
        rw [this] at h; cases h

/-- For a code whose decoder components are polynomials without empty monomial and which is
valid at the 0/1 vector `v`: at the encoded state `wq` of `v` the decoder returns the occupations
of the Fock state `s` of `v`, and `make_parity_list` the parities. -/
theorem bctHyp_of_valid (c : Code) (v : List Nat) (wq s : Nat) (hsh : c.dec.length = c.nm)
    (hpoly : ∀ e ∈ c.dec, ∃ p, e = .poly p) (hne : ∀ e ∈ c.dec, ∀ t ∈ e.toPoly, t ≠ [])
    (hval : ValidOn c v) (hw : bitsOf wq = encFn c v) (hs : ∀ j, s.testBit j = (v.getD j 0 == 1)) :
    BctHyp c (makeParityList c) (bitsOf wq) s := by
  have hdec : ∀ i, i < c.dec.length → evalPoly (bitsOf wq) ((c.dec.getD i .int0).toPoly) = s.testBit i := by
    intro i hi
    have := hval i (by rw [← hsh]; exact hi)
    unfold decFn at this
    rw [hw, this, hs i]
  refine ⟨?_, ?_⟩
  · intro j p hp
    unfold decoderEntry at hp
    cases hj : c.dec[j]? with
    | none => simp [hj] at hp
    | some e =>
      cases e with
      | int0 => simp [hj] at hp
      | poly q =>
        simp only [hj, pure, Except.pure, Except.ok.injEq] at hp
        subst hp
        have hlt : j < c.dec.length := (List.getElem?_eq_some_iff.mp hj).1
        have hget : c.dec.getD j .int0 = .poly q := by simp [List.getD_eq_getElem?_getD, hj]
        have hmem : DEntry.poly q ∈ c.dec := List.mem_of_getElem? hj
        refine ⟨fun t ht => hne _ hmem t ht, ?_⟩
        have := hdec j hlt
        rw [hget] at this
        exact this
  · intro j pl hpl
    unfold parityEntry at hpl
    rw [makeParityList_eq] at hpl
    cases hj : ((List.range (c.nm - 1 + 1)).map (prefixPoly c))[j]? with
    | none => simp [hj] at hpl
    | some q =>
      simp only [hj, pure, Except.pure, Except.ok.injEq] at hpl
      subst hpl
      rw [List.getElem?_map] at hj
      have hlt : j < c.nm - 1 + 1 := by
        cases hr : (List.range (c.nm - 1 + 1))[j]? with
        | none => simp [hr] at hj
        | some y =>
          have := (List.getElem?_eq_some_iff.mp hr).1
          simpa using this
      rw [List.getElem?_range hlt] at hj
      simp only [Option.map_some, Option.some.injEq] at hj
      subst hj
      by_cases hle : j ≤ c.dec.length
      · exact ⟨ne_prefixPoly c hne j, eval_prefixPoly c (bitsOf wq) s hdec j hle⟩
      · -- only possible for the empty code (nm = 0, j = 0 is excluded by hle)
        exfalso; omega

end OFV.C09
