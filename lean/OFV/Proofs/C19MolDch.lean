/-
C19 — the molecular Hamiltonian of `get_one_norm_int` with Coulomb-type ("density-density") two-body integrals
(`g_pqrs = 0` unless `s = p` and `r = q`) is a DiagonalCoulombHamiltonian on the spin orbitals:
`T[(pσ),(qτ)] = δ_στ h_pq`, `V[(pσ),(qτ)] = ½ g_pqqp` off the diagonal.  Both operators have the same matrix elements.
-/
import OFV.Proofs.C19MolId
import OFV.Proofs.C19LambdaOracle

namespace OFV
namespace C19P
open Spec Spec.C19 Sem

/-! ### index bookkeeping -/

theorem sum_range_double (n : Nat) (F : Nat → GQ) :
    ∑ i ∈ Finset.range (2 * n), F i = ∑ p ∈ Finset.range n, ∑ σ ∈ Finset.range 2, F (2 * p + σ) := by
  induction n with
  | zero => simp
  | succ n ih =>
    rw [show 2 * (n + 1) = 2 * n + 1 + 1 by ring, Finset.sum_range_succ, Finset.sum_range_succ, ih,
      Finset.sum_range_succ (fun p => ∑ σ ∈ Finset.range 2, F (2 * p + σ))]
    simp only [Finset.sum_range_succ, Finset.sum_range_zero, zero_add, Nat.add_zero]
    ring

theorem mat_table (N : Nat) (f : Nat → Nat → Rat) (i j : Nat) (hi : i < N) (hj : j < N) :
    Model.C19.mat ((List.range N).map fun i => (List.range N).map fun j => f i j) i j = f i j := by
  unfold Model.C19.mat
  simp [List.getD_eq_getElem?_getD, List.getElem?_map, List.getElem?_range hi, List.getElem?_range hj]

theorem spin_idx (p σ : Nat) (hσ : σ < 2) : (2 * p + σ) % 2 = σ ∧ (2 * p + σ) / 2 = p := by
  constructor <;> omega

/-- `a†_i a†_i a_i a_i = 0` -/
theorem tC_iiii (i m x : Nat) : termCoef .fermion [(i, 1), (i, 1), (i, 0), (i, 0)] [m] [x] = 0 := by
  rw [tC_four]
  simp only [actF_ann, actF_cre]
  cases h4 : m.testBit i with
  | false => simp
  | true => simp [testBit_xflip, h4]

/-- `a†_i a†_j a_j a_i = a†_i a_i a†_j a_j` on basis states (`i ≠ j`) -/
theorem tC_coulomb (i j m x : Nat) (h : i ≠ j) :
    termCoef .fermion [(i, 1), (j, 1), (j, 0), (i, 0)] [m] [x]
      = termCoef .fermion [(i, 1), (i, 0), (j, 1), (j, 0)] [m] [x] := by
  rw [nn_fermion_qp i j m x h, nn_fermion]
  by_cases hx : m = x <;> cases m.testBit i <;> cases m.testBit j <;> simp [hx]

theorem gsum_delta (n p : Nat) (hp : p < n) (f : Nat → GQ) :
    ∑ r ∈ Finset.range n, (if p = r then f r else 0) = f p := sum_delta n p hp f

/-! ### the two operators have the same matrix elements -/

/-- matrix elements of `molOp` as plain sums -/
theorem den_molOp (n : Nat) (const : Rat) (h : List (List Rat)) (g : List (List (List (List Rat)))) (m x : Nat) :
    den .fermion (molOp n const h g) [m] [x]
      = rl' const * (if m = x then 1 else 0)
        + ∑ p ∈ Finset.range n, ∑ q ∈ Finset.range n, ∑ σ ∈ Finset.range 2,
            rl' (m2 h p q) * termCoef .fermion [(2 * p + σ, 1), (2 * q + σ, 0)] [m] [x]
        + ∑ p ∈ Finset.range n, ∑ q ∈ Finset.range n, ∑ r ∈ Finset.range n, ∑ s ∈ Finset.range n,
            ∑ σ ∈ Finset.range 2, ∑ τ ∈ Finset.range 2,
            rl' (m4 g p q r s / 2)
              * termCoef .fermion [(2 * p + σ, 1), (2 * q + τ, 1), (2 * r + τ, 0), (2 * s + σ, 0)] [m] [x] := by
  rw [den_eq_sum]
  unfold molOp
  simp only [List.map_append, List.sum_append, List.map_cons, List.map_nil, List.sum_cons, List.sum_nil, add_zero,
    sum_flatMap, List.map_map, list_sum_range_eq, tC_fermion_nil]
  rfl

theorem den_mol_eq_dch (n : Nat) (const : Rat) (h : List (List Rat)) (g : List (List (List (List Rat))))
    (hsupp : ∀ p q r s, ¬ (s = p ∧ r = q) → m4 g p q r s = 0) (m x : Nat) :
    den .fermion (molOp n const h g) [m] [x]
      = den .fermion (Spec.C04.dchOp (2 * n) (⟨const, 0⟩ : GQ) (flatReal (2 * n) (spinOne n h))
          (flatReal (2 * n) (spinCoulomb n g))) [m] [x] := by
  rw [den_molOp, den_dchOp]
  simp only [list_sum_range_eq]
  congr 1
  · congr 1
    -- one-body part
    rw [sum_range_double]
    apply Finset.sum_congr rfl
    intro p hp
    have hpn := Finset.mem_range.1 hp
    rw [Finset.sum_comm]
    apply Finset.sum_congr rfl
    intro σ hσ
    have hσ2 := Finset.mem_range.1 hσ
    rw [sum_range_double]
    apply Finset.sum_congr rfl
    intro q hq
    have hqn := Finset.mem_range.1 hq
    have : ∀ τ ∈ Finset.range 2,
        Model.C04.get1 (2 * n) (flatReal (2 * n) (spinOne n h)) (2 * p + σ) (2 * q + τ)
          * termCoef .fermion [(2 * p + σ, 1), (2 * q + τ, 0)] [m] [x]
        = if σ = τ then rl' (m2 h p q) * termCoef .fermion [(2 * p + σ, 1), (2 * q + τ, 0)] [m] [x] else 0 := by
      intro τ hτ
      have hτ2 := Finset.mem_range.1 hτ
      rw [C19Jw.get1_flatReal (2 * n) (spinOne n h) (2 * p + σ) (2 * q + τ) (by omega) (by omega)]
      unfold spinOne
      rw [mat_table (2 * n) _ _ _ (by omega) (by omega), (spin_idx p σ hσ2).1, (spin_idx p σ hσ2).2,
        (spin_idx q τ hτ2).1, (spin_idx q τ hτ2).2]
      by_cases e : σ = τ
      · rw [if_pos e, if_pos e]; rfl
      · rw [if_neg e, if_neg e]
        show (⟨0, 0⟩ : GQ) * _ = 0
        exact zero_mul _
    rw [Finset.sum_congr rfl this, gsum_delta 2 σ hσ2
      (fun τ => rl' (m2 h p q) * termCoef .fermion [(2 * p + σ, 1), (2 * q + τ, 0)] [m] [x])]
  · -- two-body part
    rw [sum_range_double]
    apply Finset.sum_congr rfl
    intro p hp
    have hpn := Finset.mem_range.1 hp
    -- collapse r and s on the left
    have hl : ∀ q ∈ Finset.range n, ∑ r ∈ Finset.range n, ∑ s ∈ Finset.range n,
          ∑ σ ∈ Finset.range 2, ∑ τ ∈ Finset.range 2,
          rl' (m4 g p q r s / 2)
            * termCoef .fermion [(2 * p + σ, 1), (2 * q + τ, 1), (2 * r + τ, 0), (2 * s + σ, 0)] [m] [x]
        = ∑ σ ∈ Finset.range 2, ∑ τ ∈ Finset.range 2,
          rl' (m4 g p q q p / 2)
            * termCoef .fermion [(2 * p + σ, 1), (2 * q + τ, 1), (2 * q + τ, 0), (2 * p + σ, 0)] [m] [x] := by
      intro q hq
      have hqn := Finset.mem_range.1 hq
      have inner : ∀ r ∈ Finset.range n, ∑ s ∈ Finset.range n,
            ∑ σ ∈ Finset.range 2, ∑ τ ∈ Finset.range 2,
            rl' (m4 g p q r s / 2)
              * termCoef .fermion [(2 * p + σ, 1), (2 * q + τ, 1), (2 * r + τ, 0), (2 * s + σ, 0)] [m] [x]
          = if q = r then ∑ σ ∈ Finset.range 2, ∑ τ ∈ Finset.range 2,
              rl' (m4 g p q r p / 2)
                * termCoef .fermion [(2 * p + σ, 1), (2 * q + τ, 1), (2 * r + τ, 0), (2 * p + σ, 0)] [m] [x] else 0 := by
        intro r _
        have : ∀ s ∈ Finset.range n, ∑ σ ∈ Finset.range 2, ∑ τ ∈ Finset.range 2,
              rl' (m4 g p q r s / 2)
                * termCoef .fermion [(2 * p + σ, 1), (2 * q + τ, 1), (2 * r + τ, 0), (2 * s + σ, 0)] [m] [x]
            = if p = s then (if q = r then ∑ σ ∈ Finset.range 2, ∑ τ ∈ Finset.range 2,
                rl' (m4 g p q r s / 2)
                  * termCoef .fermion [(2 * p + σ, 1), (2 * q + τ, 1), (2 * r + τ, 0), (2 * s + σ, 0)] [m] [x] else 0)
              else 0 := by
          intro s _
          by_cases e1 : p = s
          · by_cases e2 : q = r
            · rw [if_pos e1, if_pos e2]
            · rw [if_pos e1, if_neg e2, hsupp p q r s (fun hc => e2 hc.2.symm)]
              simp [rl']
              apply Finset.sum_eq_zero; intro σ _; apply Finset.sum_eq_zero; intro τ _
              show (⟨0, 0⟩ : GQ) * _ = 0
              exact zero_mul _
          · rw [if_neg e1, hsupp p q r s (fun hc => e1 hc.1.symm)]
            simp [rl']
            apply Finset.sum_eq_zero; intro σ _; apply Finset.sum_eq_zero; intro τ _
            show (⟨0, 0⟩ : GQ) * _ = 0
            exact zero_mul _
        rw [Finset.sum_congr rfl this, gsum_delta n p hpn (fun s => if q = r then ∑ σ ∈ Finset.range 2, ∑ τ ∈ Finset.range 2,
                rl' (m4 g p q r s / 2)
                  * termCoef .fermion [(2 * p + σ, 1), (2 * q + τ, 1), (2 * r + τ, 0), (2 * s + σ, 0)] [m] [x] else 0)]
      rw [Finset.sum_congr rfl inner, gsum_delta n q hqn (fun r => ∑ σ ∈ Finset.range 2, ∑ τ ∈ Finset.range 2,
              rl' (m4 g p q r p / 2)
                * termCoef .fermion [(2 * p + σ, 1), (2 * q + τ, 1), (2 * r + τ, 0), (2 * p + σ, 0)] [m] [x])]
    rw [Finset.sum_congr rfl hl]
    -- now p, q, σ, τ on the left and σ, (q, τ) on the right
    rw [Finset.sum_comm]
    apply Finset.sum_congr rfl
    intro σ hσ
    have hσ2 := Finset.mem_range.1 hσ
    rw [sum_range_double]
    apply Finset.sum_congr rfl
    intro q hq
    have hqn := Finset.mem_range.1 hq
    apply Finset.sum_congr rfl
    intro τ hτ
    have hτ2 := Finset.mem_range.1 hτ
    rw [C19Jw.get1_flatReal (2 * n) (spinCoulomb n g) (2 * p + σ) (2 * q + τ) (by omega) (by omega)]
    unfold spinCoulomb
    rw [mat_table (2 * n) _ _ _ (by omega) (by omega), (spin_idx p σ hσ2).2, (spin_idx q τ hτ2).2]
    by_cases e : 2 * p + σ = 2 * q + τ
    · rw [if_pos e]
      have e1 : p = q := by omega
      have e2 : σ = τ := by omega
      subst e1; subst e2
      rw [tC_iiii, mul_zero]
      show 0 = (⟨0, 0⟩ : GQ) * _
      exact (zero_mul _).symm
    · rw [if_neg e, tC_coulomb _ _ m x e]
      rfl

end C19P
end OFV
