/- C12: occupation-number states of modes satisfying the CAR are eigenvectors of `Σ ε_j b†_j b_j + c`
(any ring acting on any module; a vacuum annihilated by all `b_j`). -/
import OFV.Proofs.C17Car
import Mathlib.Algebra.Module.Defs
import Mathlib.Algebra.BigOperators.Group.List.Basic

namespace OFV
namespace Car

variable {R : Type} [Ring R] {V : Type} [AddCommGroup V] [Module R V]
variable {n : Nat} {ad a : Nat → R}

/-- `b†_{s1} b†_{s2} … b†_{sk} |vac⟩` -/
def fock (ad : Nat → R) (vac : V) (S : List Nat) : V := S.foldr (fun s w => ad s • w) vac

theorem annihilate_fock (h : CAR n ad a) (vac : V) (hvac : ∀ j, j < n → a j • vac = 0) :
    ∀ (S : List Nat), (∀ s ∈ S, s < n) → ∀ j, j < n → j ∉ S → a j • fock ad vac S = 0 := by
  intro S
  induction S with
  | nil => intro _ j hj _; exact hvac j hj
  | cons s S ih =>
    intro hS j hj hnot
    have hs : s < n := hS s List.mem_cons_self
    have hne : j ≠ s := fun e => hnot (e ▸ List.mem_cons_self)
    have hrest : j ∉ S := fun e => hnot (List.mem_cons_of_mem _ e)
    have ih' := ih (fun x hx => hS x (List.mem_cons_of_mem _ hx)) j hj hrest
    show a j • (ad s • fock ad vac S) = 0
    have e : a j * ad s = dl j s - ad s * a j := eq_sub_of_add_eq (h.ad j s hj hs)
    rw [← mul_smul, e, sub_smul, mul_smul, ih']
    simp [dl, hne]

/-- the number operator `b†_j b_j` has eigenvalue `1` on the Fock state if `j` is occupied and `0` otherwise -/
theorem number_fock (h : CAR n ad a) (vac : V) (hvac : ∀ j, j < n → a j • vac = 0) :
    ∀ (S : List Nat), S.Nodup → (∀ s ∈ S, s < n) → ∀ j, j < n →
      (ad j * a j) • fock ad vac S = if j ∈ S then fock ad vac S else 0 := by
  intro S
  induction S with
  | nil =>
    intro _ _ j hj
    show (ad j * a j) • vac = _
    rw [mul_smul, hvac j hj]; simp
  | cons s S ih =>
    intro hnd hS j hj
    have hs : s < n := hS s List.mem_cons_self
    have hSn : ∀ x ∈ S, x < n := fun x hx => hS x (List.mem_cons_of_mem _ hx)
    have hnd' := (List.nodup_cons.mp hnd)
    have ih' := ih hnd'.2 hSn j hj
    show (ad j * a j) • (ad s • fock ad vac S) = _
    have e : a j * ad s = dl j s - ad s * a j := eq_sub_of_add_eq (h.ad j s hj hs)
    have e2 : ad j * ad s = -(ad s * ad j) := eq_neg_of_add_eq_zero_left (h.dd j s hj hs)
    have key : (ad j * a j) * ad s = dl j s * ad j + ad s * (ad j * a j) := by
      have : (ad j * a j) * ad s = ad j * (a j * ad s) := by rw [mul_assoc]
      rw [this, e, mul_sub, ← mul_assoc, e2]
      rcases dl_cases (R := R) j s with hd | hd <;> rw [hd] <;> noncomm_ring
    rw [← mul_smul, key, add_smul, mul_smul (ad s), ih']
    by_cases hjs : j = s
    · subst hjs
      have hnot : j ∉ S := hnd'.1
      simp [dl, hnot, fock]
    · have hne : ¬ (j = s) := hjs
      by_cases hmem : j ∈ S
      · simp [dl, hne, hmem, fock]
      · simp [dl, hne, hmem, fock]

/-- `H = Σ_{j ∈ l} ε_j b†_j b_j + c` applied to a Fock state: eigenvalue `c + Σ_{j ∈ l ∩ S} ε_j` -/
theorem hamiltonian_fock (h : CAR n ad a) (vac : V) (hvac : ∀ j, j < n → a j • vac = 0) (ε : Nat → R) (c : R)
    (S : List Nat) (hnd : S.Nodup) (hS : ∀ s ∈ S, s < n) :
    ∀ (l : List Nat), (∀ j ∈ l, j < n) →
      ((l.map fun j => ε j * (ad j * a j)).sum + c) • fock ad vac S =
      ((l.map fun j => if j ∈ S then ε j else 0).sum + c) • fock ad vac S := by
  intro l
  induction l with
  | nil => intro _; simp
  | cons j l ih =>
    intro hl
    have hj := hl j List.mem_cons_self
    have ih' := ih (fun x hx => hl x (List.mem_cons_of_mem _ hx))
    have hn := number_fock h vac hvac S hnd hS j hj
    simp only [List.map_cons, List.sum_cons]
    rw [add_assoc, add_smul, ih', add_assoc, add_smul (if j ∈ S then ε j else 0)]
    congr 1
    rw [mul_smul, hn]
    by_cases hmem : j ∈ S <;> simp [hmem]

end Car
end OFV
