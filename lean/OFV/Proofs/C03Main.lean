/- C03 — assembled statements used by both C03 and C02 property files. -/
import OFV.Proofs.C03Fock
import OFV.Proofs.C03Valid
import OFV.Proofs.C03Canon3
import OFV.Proofs.C03Adjoint

namespace OFV
namespace Proofs
namespace C03
open Spec Model Model.C03

theorem normalOrdered_sound_fock (a : Op) :
    fockInterp.evalOp (normalOrdered 0 .fermion a) = fockInterp.evalOp a :=
  normalOrdered_sound fockInterp .fermion
    (relations_fermion fockInterp fock_car_mixed fock_car_same fock_car_sq) a

theorem normalOrdered_sound_melF (a : Op) (hv : ∀ e ∈ a, ∀ f ∈ e.1, f.2 < 2) (out s : Nat) :
    melF (normalOrdered 0 .fermion a) out s = melF a out s := by
  have hv' : ∀ e ∈ normalOrdered 0 .fermion a, ∀ f ∈ e.1, f.2 < 2 :=
    normalOrdered_valid 0 .fermion (fun f => f.2 < 2) (fun t ht => ht) a hv
  rw [← fock_evalOp_melF _ hv', ← fock_evalOp_melF _ hv, normalOrdered_sound_fock]

theorem normalOrdered_fermion_wellformed (tol : Rat) (a : Op) (hv : ∀ e ∈ a, ∀ f ∈ e.1, f.2 < 2) :
    Dict.WF (normalOrdered tol .fermion a) ∧
    (∀ e ∈ normalOrdered tol .fermion a, ∀ f ∈ e.1, f.2 < 2) ∧
    (∀ e ∈ normalOrdered tol .fermion a, Spec.C02.NormalOrderedF e.1) := by
  have hval := normalOrdered_valid tol .fermion (fun f => f.2 < 2) (fun t ht => ht) a hv
  refine ⟨wf_normalOrdered tol .fermion a, hval, ?_⟩
  intro e he
  have h := normalOrdered_norm tol .fermion (fun t => Proofs.C02.Adj (okK .fermion) t) (fun t ht => ht) a e he
  rw [← Proofs.C02.fermion_term_normal_iff e.1 (hval e he), Proofs.C02.loopBad_false_iff_adj]
  exact Proofs.C02.adj_mono _ _ (fun l r hlr => okK_fermion_not_bad l r hlr) e.1 h

theorem canonicity_fermion_iff (a b : Op) (va : ∀ e ∈ a, ∀ f ∈ e.1, f.2 < 2) (vb : ∀ e ∈ b, ∀ f ∈ e.1, f.2 < 2) :
    (∀ s out, melF a out s = melF b out s) ↔
      ∀ t, Dict.getD (normalOrdered 0 .fermion a) t 0 = Dict.getD (normalOrdered 0 .fermion b) t 0 := by
  obtain ⟨wa, va', na⟩ := normalOrdered_fermion_wellformed 0 a va
  obtain ⟨wb, vb', nb⟩ := normalOrdered_fermion_wellformed 0 b vb
  constructor
  · intro h
    apply canonicity_normal _ _ wa wb va' vb' na nb
    intro s out
    rw [normalOrdered_sound_melF a va, normalOrdered_sound_melF b vb, h]
  · intro h s out
    rw [← normalOrdered_sound_melF a va, ← normalOrdered_sound_melF b vb]
    exact melF_congr _ _ wa wb h out s

/-- a FermionOperator is Hermitian in the Spec iff its normal-ordered form and the normal-ordered
form of its `hermitian_conjugated` have the same coefficients -/
theorem hermitian_fermion_iff (a : Op) (wa : Dict.WF a) (hv : ∀ e ∈ a, ∀ f ∈ e.1, f.2 < 2) :
    (∀ s out, melF a out s = (melF a s out).conj) ↔
      ∀ t, Dict.getD (normalOrdered 0 .fermion a) t 0 =
        Dict.getD (normalOrdered 0 .fermion (Model.C02.hcFermion a)) t 0 := by
  rw [← canonicity_fermion_iff a (Model.C02.hcFermion a) hv (hcFermion_valid a wa hv)]
  constructor
  · intro h s out; rw [melF_hcFermion a wa hv, ← h]
  · intro h s out; rw [h s out, melF_hcFermion a wa hv]

end C03
end Proofs
end OFV
