/- C11: a square matrix with orthonormal rows whose strict upper triangle vanishes is diagonal with
unit-modulus diagonal. -/
import OFV.Model.C11
import OFV.Proofs.C11Unit

namespace OFV
namespace Model
namespace C11

/-- rows `i, i' < m` are orthonormal (inner products over the first `n` columns) -/
def RowsOrthonormal (M : Mat) (m n : Nat) : Prop :=
  ∀ i i', i < m → i' < m →
    rowDotRe M n i i' = (if i = i' then 1 else 0) ∧ rowDotIm M n i i' = 0

theorem RowsOrthonormal.of_sameGram {M M' : Mat} {m n : Nat} (h : RowsOrthonormal M m n)
    (hg : SameGram M M' m n) : RowsOrthonormal M' m n := by
  intro i i' hi hi'
  obtain ⟨g1, g2⟩ := hg i i' hi hi'
  obtain ⟨o1, o2⟩ := h i i' hi hi'
  exact ⟨g1.trans o1, g2.trans o2⟩

theorem rsum_single (j : Nat) (f : Nat → Rat) : ∀ n, j < n → (∀ x, x < n → x ≠ j → f x = 0) → rsum n f = f j := by
  intro n
  induction n with
  | zero => intro h; omega
  | succ n ih =>
    intro hj h
    simp only [rsum]
    by_cases e : j = n
    · subst e
      have : rsum j f = 0 := by
        clear ih hj
        have hz : ∀ k, k ≤ j → rsum k f = 0 := by
          intro k
          induction k with
          | zero => intro _; rfl
          | succ k ihk =>
            intro hk
            simp only [rsum]
            rw [ihk (by omega), h k (by omega) (by omega)]; simp
        exact hz j (Nat.le_refl j)
      rw [this]; simp
    · rw [ih (by omega) (fun x hx hxj => h x (by omega) hxj), h n (by omega) (fun e' => e e'.symm)]
      simp

theorem gq_zero_of_mul_conj_unit (z d : GQ) (hd : d.re * d.re + d.im * d.im = 1)
    (hre : (z * d.conj).re = 0) (him : (z * d.conj).im = 0) : z = 0 := by
  simp at hre him
  refine GQ.ext ?_ ?_
  · show z.re = 0
    linear_combination (d.re) * hre - (d.im) * him - (z.re) * hd
  · show z.im = 0
    linear_combination (d.im) * hre + (d.re) * him - (z.im) * hd

/-- `m × n` (`m ≤ n`), everything above the diagonal zero, orthonormal rows ⇒ `(D | 0)` with `|d_jj| = 1` -/
theorem diagonal_of_triangular_orthonormal (M : Mat) (m n : Nat) (hmn : m ≤ n)
    (hup : ∀ i j, i < m → i < j → j < n → M.get i j = 0) (ho : RowsOrthonormal M m n) :
    ∀ j, j < m → (∀ i, i < m → i ≠ j → M.get i j = 0) ∧
      (M.get j j).re * (M.get j j).re + (M.get j j).im * (M.get j j).im = 1 := by
  intro j
  induction j using Nat.strong_induction_on with
  | _ j ih =>
    intro hj
    have hjn : j < n := by omega
    -- row j is supported on column j
    have hrow : ∀ x, x < n → x ≠ j → M.get j x = 0 := by
      intro x hx hxj
      by_cases hlt : x < j
      · exact (ih x hlt (by omega)).1 j hj (fun e => hxj e.symm)
      · exact hup j x hj (by omega) hx
    have hnorm : (M.get j j).re * (M.get j j).re + (M.get j j).im * (M.get j j).im = 1 := by
      have h1 := (ho j j hj hj).1
      simp only [if_true] at h1
      unfold rowDotRe at h1
      rw [rsum_single j _ n hjn (fun x hx hxj => by rw [hrow x hx hxj]; simp)] at h1
      simpa using h1
    refine ⟨?_, hnorm⟩
    intro i hi hij
    by_cases hlt : i < j
    · exact hup i j hi hlt hjn
    · have hne : ¬ (i = j) := hij
      obtain ⟨h1, h2⟩ := ho i j hi hj
      simp only [hne, if_false] at h1
      unfold rowDotRe at h1
      unfold rowDotIm at h2
      rw [rsum_single j _ n hjn (fun x hx hxj => by rw [hrow x hx hxj]; simp)] at h1 h2
      exact gq_zero_of_mul_conj_unit _ _ hnorm h1 h2

end C11
end Model
end OFV
