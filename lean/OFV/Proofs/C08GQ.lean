/- `GQ` is a commutative ring (proved from the `Rat` field laws), so that `ring` applies to the
coefficient type the driver executes. -/
import OFV.Core.GQ
import Mathlib.Tactic.Ring
import Mathlib.Data.Rat.Defs

namespace OFV
namespace GQ

instance : Zero GQ := ⟨0⟩
instance : One GQ := ⟨1⟩

instance instCommRing : CommRing GQ where
  add := (· + ·)
  mul := (· * ·)
  neg := Neg.neg
  sub := (· - ·)
  zero := 0
  one := 1
  add_assoc a b c := by apply GQ.ext <;> simp <;> ring
  zero_add a := by apply GQ.ext <;> simp
  add_zero a := by apply GQ.ext <;> simp
  add_comm a b := by apply GQ.ext <;> simp <;> ring
  mul_assoc a b c := by apply GQ.ext <;> simp <;> ring
  one_mul a := by apply GQ.ext <;> simp
  mul_one a := by apply GQ.ext <;> simp
  left_distrib a b c := by apply GQ.ext <;> simp <;> ring
  right_distrib a b c := by apply GQ.ext <;> simp <;> ring
  mul_comm a b := by apply GQ.ext <;> simp <;> ring
  zero_mul a := by apply GQ.ext <;> simp
  mul_zero a := by apply GQ.ext <;> simp
  neg_add_cancel a := by apply GQ.ext <;> simp
  sub_eq_add_neg a b := by apply GQ.ext <;> simp <;> ring
  nsmul := nsmulRec
  zsmul := zsmulRec

end GQ
end OFV
