<<<<<<< HEAD
/- The `CommRing GQ` instance lives in the shared module `OFV.Proofs.GQRing`. -/
=======
/- the `CommRing GQ` instance lives in the shared module -/
>>>>>>> agentG
import OFV.Proofs.GQRing
