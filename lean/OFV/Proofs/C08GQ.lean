/- the `CommRing GQ` instance lives in the shared module -/
import OFV.Proofs.GQRing
