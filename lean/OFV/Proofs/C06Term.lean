/-
C06 — the term matrix assembled by `qubit_operator_sparse` (Kronecker chain: coefficient,
identity blocks for the gaps, the 2x2 Pauli matrices, trailing identity) is the matrix of the
Pauli string in the big-endian basis.  Core Lean only (uses the Pauli composition lemmas of
OFV/Proofs/C07Pauli.lean).
-/
import OFV.Proofs.C06Kron
import OFV.Proofs.C07Pauli

namespace OFV
namespace Proofs
namespace C06
open OFV.Spec OFV.Spec.C06 OFV.Model OFV.Model.C06
open OFV.Proofs.C07 (pcomp pfac actPTerm_append actPTerm_cons actPTerm_nil red_pfac red_actPTerm pcomp_pid_right)

/-! ### index arithmetic -/

theorem beIndex_split (m k s : Nat) :
    beIndex (m + k) s = beIndex m (s % 2 ^ m) * 2 ^ k + beIndex k (s / 2 ^ m) := by
  induction m generalizing s with
  | zero => simp [beIndex]
  | succ m ih =>
    have e : m + 1 + k = (m + k) + 1 := by omega
    rw [e]
    simp only [beIndex]
    rw [ih (s / 2)]
    have h1 : (s % 2 ^ (m + 1)).testBit 0 = s.testBit 0 := by
      rw [Nat.testBit_mod_two_pow]; simp
    have h2 : s % 2 ^ (m + 1) / 2 = s / 2 % 2 ^ m := by
      rw [Nat.pow_succ, Nat.mul_comm, Nat.mod_mul_right_div_self]
    have h3 : s / 2 / 2 ^ m = s / 2 ^ (m + 1) := by
      rw [Nat.div_div_eq_div_mul, Nat.pow_succ, Nat.mul_comm]
    rw [h1, h2, h3]
    split
    · rw [Nat.add_mul, ← Nat.pow_add, Nat.add_assoc]
    · rw [Nat.zero_add, Nat.zero_add]

theorem div_lt_of_lt_pow (s m g : Nat) (h : s < 2 ^ (m + g)) : s / 2 ^ m < 2 ^ g := by
  rw [Nat.div_lt_iff_lt_mul (Nat.pow_pos (by omega))]
  rw [Nat.pow_add, Nat.mul_comm] at h
  exact h

theorem eq_of_divmod {a b d : Nat} (h1 : a % d = b % d) (h2 : a / d = b / d) : a = b := by
  rw [← Nat.div_add_mod a d, ← Nat.div_add_mod b d, h1, h2]

/-! ### the identity block and the 2x2 matrices -/

theorem getL_identity (m r c : Nat) (hr : r < m) :
    getL ((List.range m).map fun i => (i, i, (1 : GQ))) r c = if r = c then 1 else 0 := by
  induction m with
  | zero => omega
  | succ m ih =>
    rw [List.range_succ, List.map_append, getL_append]
    by_cases hm : r = m
    · subst hm
      have hz : getL ((List.range r).map fun i => (i, i, (1 : GQ))) r c = 0 := by
        have : ∀ (l : List Nat), (∀ i ∈ l, i ≠ r) → getL (l.map fun i => (i, i, (1 : GQ))) r c = 0 := by
          intro l hl
          induction l with
          | nil => rfl
          | cons x l ih2 =>
            have hx := hl x (by simp)
            simp only [List.map_cons, getL, List.foldr_cons]
            have : ¬ (x = r ∧ x = c) := fun h => hx h.1
            simp only [this, if_false]
            exact ih2 (fun i hi => hl i (by simp [hi]))
        exact this _ (fun i hi => by have := List.mem_range.mp hi; omega)
      rw [hz, gq_zero_add]
      simp only [List.map_cons, List.map_nil, getL, List.foldr_cons, List.foldr_nil]
      by_cases hc : r = c
      · simp [hc, gq_add_zero]
      · simp [hc]
    · rw [ih (by omega)]
      simp only [List.map_cons, List.map_nil, getL, List.foldr_cons, List.foldr_nil]
      have : ¬ (m = r ∧ m = c) := fun h => hm h.1.symm
      simp only [this, if_false, gq_add_zero]

theorem get_identity (m r c : Nat) (hr : r < m) : (identity m).get r c = if r = c then 1 else 0 := by
  rw [get_eq_getL]; exact getL_identity m r c hr

theorem inRange_identity (m : Nat) : InRange (identity m) := by
  intro e he
  simp only [identity, List.mem_map, List.mem_range] at he
  obtain ⟨i, hi, rfl⟩ := he
  exact ⟨hi, hi⟩

theorem inRange_pauliMat (p : Nat) : InRange (pauliMat p) := by
  intro e he
  have h : p = 1 ∨ p = 2 ∨ p = 3 ∨ (p ≠ 1 ∧ p ≠ 2 ∧ p ≠ 3) := by omega
  rcases h with rfl | rfl | rfl | ⟨h1, h2, h3⟩
  · simp [pauliMat, Generated.C06.pauliEntries] at he; rcases he with rfl | rfl <;> simp [pauliMat]
  · simp [pauliMat, Generated.C06.pauliEntries] at he; rcases he with rfl | rfl <;> simp [pauliMat]
  · simp [pauliMat, Generated.C06.pauliEntries] at he; rcases he with rfl | rfl <;> simp [pauliMat]
  · have : Generated.C06.pauliEntries p = Generated.C06.pauliEntries 0 := by
      unfold Generated.C06.pauliEntries; split <;> simp_all
    simp [pauliMat, this, Generated.C06.pauliEntries] at he
    rcases he with rfl | rfl <;> simp [pauliMat]

/-! ### locality: factors on qubits `< m` only see and change the low `m` bits -/

theorem shl_mod_of_lt (j m : Nat) (h : j < m) : (1 <<< j) % 2 ^ m = 1 <<< j := by
  rw [Nat.one_shiftLeft]
  exact Nat.mod_eq_of_lt (Nat.pow_lt_pow_right (by omega) h)

theorem shl_div_of_lt (j m : Nat) (h : j < m) : (1 <<< j) / 2 ^ m = 0 := by
  rw [Nat.one_shiftLeft]
  exact Nat.div_eq_of_lt (Nat.pow_lt_pow_right (by omega) h)

theorem xor_div_two_pow (a b m : Nat) : (a ^^^ b) / 2 ^ m = a / 2 ^ m ^^^ b / 2 ^ m := by
  rw [← Nat.shiftRight_eq_div_pow, ← Nat.shiftRight_eq_div_pow, ← Nat.shiftRight_eq_div_pow,
    Nat.shiftRight_xor_distrib]

/-- one Pauli factor on qubit `j < m` -/
theorem actP_local (j p x m : Nat) (hj : j < m) :
    (actP j p x).1 = (actP j p (x % 2 ^ m)).1 ∧
    (actP j p x).2 % 2 ^ m = (actP j p (x % 2 ^ m)).2 ∧
    (actP j p x).2 / 2 ^ m = x / 2 ^ m ∧
    (actP j p (x % 2 ^ m)).2 < 2 ^ m := by
  have hb : (x % 2 ^ m).testBit j = x.testBit j := by
    rw [Nat.testBit_mod_two_pow]; simp [hj]
  have hlt : x % 2 ^ m < 2 ^ m := Nat.mod_lt _ (Nat.pow_pos (by omega))
  have hx1 : (x ^^^ 1 <<< j) % 2 ^ m = x % 2 ^ m ^^^ 1 <<< j := by
    rw [Nat.xor_mod_two_pow, shl_mod_of_lt j m hj]
  have hx2 : (x ^^^ 1 <<< j) / 2 ^ m = x / 2 ^ m := by
    rw [xor_div_two_pow, shl_div_of_lt j m hj, Nat.xor_zero]
  have hx3 : x % 2 ^ m ^^^ 1 <<< j < 2 ^ m := by
    apply Nat.xor_lt_two_pow hlt
    rw [Nat.one_shiftLeft]; exact Nat.pow_lt_pow_right (by omega) hj
  have hp : p = 1 ∨ p = 2 ∨ p = 3 ∨ (p ≠ 1 ∧ p ≠ 2 ∧ p ≠ 3) := by omega
  rcases hp with rfl | rfl | rfl | ⟨h1, h2, h3⟩
  · simp only [actP]; exact ⟨trivial, hx1, hx2, hx3⟩
  · simp only [actP, hb]; exact ⟨trivial, hx1, hx2, hx3⟩
  · simp only [actP, hb]; exact ⟨trivial, trivial, trivial, hlt⟩
  · rw [OFV.Proofs.C07.actP_other j p x h1 h2 h3, OFV.Proofs.C07.actP_other j p _ h1 h2 h3]
    exact ⟨rfl, rfl, rfl, hlt⟩

/-- a Pauli string on qubits `< m` -/
theorem actPTerm_local (d : List (Nat × Nat)) (m : Nat) (hd : ∀ f ∈ d, f.1 < m) (x : Nat) :
    (actPTerm d x).1 = (actPTerm d (x % 2 ^ m)).1 ∧
    (actPTerm d x).2 % 2 ^ m = (actPTerm d (x % 2 ^ m)).2 ∧
    (actPTerm d x).2 / 2 ^ m = x / 2 ^ m ∧
    (actPTerm d (x % 2 ^ m)).2 < 2 ^ m := by
  induction d with
  | nil =>
    simp only [actPTerm, List.foldr_nil]
    exact ⟨trivial, trivial, trivial, Nat.mod_lt _ (Nat.pow_pos (by omega))⟩
  | cons f d ih =>
    obtain ⟨i1, i2, i3, i4⟩ := ih (fun g hg => hd g (by simp [hg]))
    have hf := hd f (by simp)
    rw [actPTerm_cons]
    simp only [pcomp, pfac]
    obtain ⟨a1, a2, a3, a4⟩ := actP_local f.1 f.2 (actPTerm d x).2 m hf
    rw [i2] at a1 a2 a4
    rw [i3] at a3
    refine ⟨by rw [i1, a1], a2, a3, a4⟩

open OFV.Spec.C07 (ampP) in
/-- matrix elements of a Pauli string on qubits `< m`, on a larger register -/
theorem ampP_local (d : List (Nat × Nat)) (m : Nat) (hd : ∀ f ∈ d, f.1 < m) (S U : Nat) :
    ampP d S U = if S / 2 ^ m = U / 2 ^ m then ampP d (S % 2 ^ m) (U % 2 ^ m) else 0 := by
  obtain ⟨l1, l2, l3, l4⟩ := actPTerm_local d m hd S
  simp only [ampP]
  by_cases h : (actPTerm d S).2 = U
  · subst h
    simp [l1, l2, l3]
  · simp only [h, if_false]
    by_cases hq : S / 2 ^ m = U / 2 ^ m
    · have : ¬ (actPTerm d (S % 2 ^ m)).2 = U % 2 ^ m := by
        intro hm
        apply h
        exact eq_of_divmod (by rw [l2, hm]) (by rw [l3, hq])
      simp [hq, this]
    · simp [hq]

/-! ### phases -/

theorem ipow_mod (k : Nat) : GQ.ipow (k % 4) = GQ.ipow k := by
  simp [GQ.ipow, Nat.mod_mod]

theorem ipow_add_small : ∀ a < 4, ∀ b < 4, GQ.ipow ((a + b) % 4) = GQ.ipow a * GQ.ipow b := by
  decide +kernel

theorem ipow_add (a b : Nat) : GQ.ipow ((a + b) % 4) = GQ.ipow a * GQ.ipow b := by
  rw [← ipow_mod a, ← ipow_mod b, ← ipow_add_small (a % 4) (Nat.mod_lt _ (by omega)) (b % 4) (Nat.mod_lt _ (by omega))]
  congr 1; omega

/-! ### the extracted 2x2 matrices against the Spec action -/

theorem pauliMat_get (p b b' : Nat) (hp : 1 ≤ p ∧ p ≤ 3) (hb : b < 2) (hb' : b' < 2) :
    (pauliMat p).get b' b = (if (actP 0 p b).2 = b' then GQ.ipow (actP 0 p b).1 else 0) := by
  have h1 : p = 1 ∨ p = 2 ∨ p = 3 := by omega
  have h2 : b = 0 ∨ b = 1 := by omega
  have h3 : b' = 0 ∨ b' = 1 := by omega
  rcases h1 with rfl | rfl | rfl <;> rcases h2 with rfl | rfl <;> rcases h3 with rfl | rfl <;> decide +kernel

/-- a Pauli on the top qubit `m` of an `(m+1)`-qubit register -/
theorem actP_top (m p s : Nat) :
    (actP m p s).1 = (actP 0 p (s / 2 ^ m)).1 ∧
    (actP m p s).2 % 2 ^ m = s % 2 ^ m ∧
    (actP m p s).2 / 2 ^ m = (actP 0 p (s / 2 ^ m)).2 := by
  have hb : (s / 2 ^ m).testBit 0 = s.testBit m := by
    rw [Nat.testBit_div_two_pow]; simp
  have hx1 : (s ^^^ 1 <<< m) % 2 ^ m = s % 2 ^ m := by
    rw [Nat.xor_mod_two_pow, Nat.one_shiftLeft, Nat.mod_self, Nat.xor_zero]
  have hx2 : (s ^^^ 1 <<< m) / 2 ^ m = s / 2 ^ m ^^^ 1 <<< 0 := by
    rw [xor_div_two_pow, Nat.one_shiftLeft, Nat.div_self (Nat.pow_pos (by omega))]; rfl
  have hp : p = 1 ∨ p = 2 ∨ p = 3 ∨ (p ≠ 1 ∧ p ≠ 2 ∧ p ≠ 3) := by omega
  rcases hp with rfl | rfl | rfl | ⟨h1, h2, h3⟩
  · simp only [actP]; exact ⟨trivial, hx1, hx2⟩
  · simp only [actP, hb]; exact ⟨trivial, hx1, hx2⟩
  · simp only [actP, hb]; exact ⟨trivial, trivial, trivial⟩
  · rw [OFV.Proofs.C07.actP_other m p s h1 h2 h3, OFV.Proofs.C07.actP_other 0 p _ h1 h2 h3]
    exact ⟨rfl, rfl, rfl⟩

open OFV.Spec.C07 (ampP) in
/-- appending the factor on the next qubit multiplies the matrix element by the 2x2 entry -/
theorem ampP_snoc (d : List (Nat × Nat)) (m p : Nat) (hd : ∀ f ∈ d, f.1 < m) (s u : Nat) :
    ampP (d ++ [(m, p)]) s u = ampP d (s % 2 ^ m) (u % 2 ^ m) *
      (if (actP 0 p (s / 2 ^ m)).2 = u / 2 ^ m then GQ.ipow (actP 0 p (s / 2 ^ m)).1 else 0) := by
  obtain ⟨t1, t2, t3⟩ := actP_top m p s
  obtain ⟨l1, l2, l3, l4⟩ := actPTerm_local d m hd (actP m p s).2
  have hact : actPTerm (d ++ [(m, p)]) s =
      (((actP m p s).1 + (actPTerm d (actP m p s).2).1) % 4, (actPTerm d (actP m p s).2).2) := by
    rw [actPTerm_append, actPTerm_cons, actPTerm_nil, pcomp_pid_right _ (red_pfac _)]
    rfl
  simp only [ampP, hact]
  rw [t2] at l1 l2
  rw [t3] at l3
  by_cases hA : (actPTerm d (s % 2 ^ m)).2 = u % 2 ^ m
  · by_cases hB : (actP 0 p (s / 2 ^ m)).2 = u / 2 ^ m
    · have : (actPTerm d (actP m p s).2).2 = u := eq_of_divmod (by rw [l2, hA]) (by rw [l3, hB])
      simp only [this, hA, hB, if_true]
      rw [ipow_add, l1, t1, gq_mul_comm]
    · have : ¬ (actPTerm d (actP m p s).2).2 = u := by
        intro h; apply hB; rw [← l3, h]
      simp only [this, hB, if_false, gq_mul_zero]
  · have : ¬ (actPTerm d (actP m p s).2).2 = u := by
      intro h; apply hA; rw [← l2, h]
    simp only [this, hA, if_false, gq_zero_mul]

/-! ### the chain invariant of `qubit_operator_sparse` -/

open OFV.Spec.C07 (ampP) in
/-- after processing the factors `done` (all on qubits `< tf`): the partial chain is the
`2^tf × 2^tf` matrix of `c · done` in the big-endian basis of the first `tf` qubits -/
structure ChainInv (c : GQ) (ops : List Mat) (tf : Nat) (done : List (Nat × Nat)) : Prop where
  ne : ops ≠ []
  rows : (kronList ops).rows = 2 ^ tf
  cols : (kronList ops).cols = 2 ^ tf
  inr : InRange (kronList ops)
  lt : ∀ f ∈ done, f.1 < tf
  val : ∀ s u, s < 2 ^ tf → u < 2 ^ tf →
    (kronList ops).get (beIndex tf u) (beIndex tf s) = c * ampP done s u

open OFV.Spec.C07 (ampP) in
theorem chainInv_init (c : GQ) : ChainInv c [scalarMat c] 0 [] := by
  refine ⟨by simp, by simp [kronList, scalarMat], by simp [kronList, scalarMat], ?_, by simp, ?_⟩
  · intro e he
    simp only [kronList, List.foldl_nil, scalarMat] at he ⊢
    split at he
    · cases he
    · simp at he; subst he; simp
  · intro s u hs hu
    have hs0 : s = 0 := by simpa using hs
    have hu0 : u = 0 := by simpa using hu
    subst hs0; subst hu0
    simp only [kronList, List.foldl_nil, beIndex, ampP, actPTerm, List.foldr_nil, if_true]
    rw [get_eq_getL]
    simp only [scalarMat]
    by_cases hc : c = 0
    · subst hc; simp [getL, gq_zero_mul]
    · simp only [hc, if_false, getL, List.foldr_cons, List.foldr_nil, and_self, if_true, gq_add_zero]
      have : GQ.ipow 0 = 1 := rfl
      rw [this, gq_mul_one]

open OFV.Spec.C07 (ampP) in
/-- padding with an identity block on `g` further qubits -/
theorem chainInv_identity {c : GQ} {ops : List Mat} {tf : Nat} {done : List (Nat × Nat)}
    (h : ChainInv c ops tf done) (g : Nat) : ChainInv c (ops ++ [identity (2 ^ g)]) (tf + g) done := by
  have hk := kronList_append_single ops (identity (2 ^ g)) h.ne
  refine ⟨by simp, ?_, ?_, ?_, fun f hf => by have := h.lt f hf; omega, ?_⟩
  · rw [hk]; simp only [kron, identity, h.rows, Nat.pow_add]
  · rw [hk]; simp only [kron, identity, h.cols, Nat.pow_add]
  · rw [hk]; exact kron_inRange _ _ h.inr (inRange_identity _)
  · intro s u hs hu
    rw [hk, beIndex_split tf g u, beIndex_split tf g s]
    have hB : (identity (2 ^ g)).rows = 2 ^ g ∧ (identity (2 ^ g)).cols = 2 ^ g := ⟨rfl, rfl⟩
    have hu2 := beIndex_lt g (u / 2 ^ tf)
    have hs2 := beIndex_lt g (s / 2 ^ tf)
    have key := kron_get (kronList ops) (identity (2 ^ g)) (inRange_identity _)
      (beIndex tf (u % 2 ^ tf)) (beIndex g (u / 2 ^ tf)) (beIndex tf (s % 2 ^ tf)) (beIndex g (s / 2 ^ tf))
      (by rw [hB.1]; exact hu2) (by rw [hB.2]; exact hs2)
    rw [hB.1, hB.2] at key
    rw [key, h.val _ _ (Nat.mod_lt _ (Nat.pow_pos (by omega))) (Nat.mod_lt _ (Nat.pow_pos (by omega))),
      get_identity _ _ _ hu2, ampP_local done tf h.lt s u]
    by_cases hq : s / 2 ^ tf = u / 2 ^ tf
    · simp only [hq, if_true, gq_mul_one]
    · have : ¬ beIndex g (u / 2 ^ tf) = beIndex g (s / 2 ^ tf) := by
        intro he
        exact hq (beIndex_injective g _ _ (div_lt_of_lt_pow s tf g hs) (div_lt_of_lt_pow u tf g hu) he.symm)
      simp only [hq, this, if_false, gq_mul_zero]

theorem beIndex_one (b : Nat) (hb : b < 2) : beIndex 1 b = b := by
  have : b = 0 ∨ b = 1 := by omega
  rcases this with rfl | rfl <;> decide

open OFV.Spec.C07 (ampP) in
/-- the 2x2 Pauli matrix on the next qubit -/
theorem chainInv_pauli {c : GQ} {ops : List Mat} {tf : Nat} {done : List (Nat × Nat)}
    (h : ChainInv c ops tf done) (p : Nat) (hp : 1 ≤ p ∧ p ≤ 3) :
    ChainInv c (ops ++ [pauliMat p]) (tf + 1) (done ++ [(tf, p)]) := by
  have hk := kronList_append_single ops (pauliMat p) h.ne
  have hB := pauliMat_rows p
  refine ⟨by simp, ?_, ?_, ?_, ?_, ?_⟩
  · rw [hk]; simp only [kron, hB.1, h.rows, Nat.pow_succ]
  · rw [hk]; simp only [kron, hB.2, h.cols, Nat.pow_succ]
  · rw [hk]; exact kron_inRange _ _ h.inr (inRange_pauliMat _)
  · intro f hf
    rcases List.mem_append.mp hf with hf | hf
    · have := h.lt f hf; omega
    · simp at hf; subst hf; simp
  · intro s u hs hu
    have hsb := div_lt_of_lt_pow s tf 1 hs
    have hub := div_lt_of_lt_pow u tf 1 hu
    rw [hk, beIndex_split tf 1 u, beIndex_split tf 1 s, beIndex_one _ hsb, beIndex_one _ hub]
    have key := kron_get (kronList ops) (pauliMat p) (inRange_pauliMat _)
      (beIndex tf (u % 2 ^ tf)) (u / 2 ^ tf) (beIndex tf (s % 2 ^ tf)) (s / 2 ^ tf)
      (by rw [hB.1]; exact hub) (by rw [hB.2]; exact hsb)
    rw [hB.1, hB.2] at key
    rw [Nat.pow_one, key, h.val _ _ (Nat.mod_lt _ (Nat.pow_pos (by omega))) (Nat.mod_lt _ (Nat.pow_pos (by omega))),
      pauliMat_get p _ _ hp hsb hub, ampP_snoc done tf p h.lt s u, gq_mul_assoc]

/-- the loop over the factors of one Pauli string -/
theorem chain_fold (c : GQ) (rest : List (Nat × Nat)) : ∀ (ops : List Mat) (tf : Nat) (done : List (Nat × Nat)),
    ChainInv c ops tf done →
    (∀ f ∈ rest, tf ≤ f.1 ∧ 1 ≤ f.2 ∧ f.2 ≤ 3) → rest.Pairwise (fun f g => f.1 < g.1) →
    let st := rest.foldl (fun (acc : List Mat × Nat) f =>
      ((if f.1 > acc.2 then acc.1 ++ [identity (2 ^ (f.1 - acc.2))] else acc.1) ++ [pauliMat f.2], f.1 + 1)) (ops, tf)
    ChainInv c st.1 st.2 (done ++ rest) ∧ (st.2 = tf ∨ ∃ f ∈ rest, st.2 = f.1 + 1) := by
  induction rest with
  | nil => intro ops tf done h _ _; simpa using h
  | cons g rest ih =>
    intro ops tf done h hv hp
    have hg := hv g (by simp)
    have hpc := List.pairwise_cons.mp hp
    simp only [List.foldl_cons]
    have step : ChainInv c ((if g.1 > tf then ops ++ [identity (2 ^ (g.1 - tf))] else ops) ++ [pauliMat g.2])
        (g.1 + 1) (done ++ [g]) := by
      split
      · rename_i hgt
        have h1 := chainInv_identity h (g.1 - tf)
        have e : tf + (g.1 - tf) = g.1 := by omega
        rw [e] at h1
        exact chainInv_pauli h1 g.2 ⟨hg.2.1, hg.2.2⟩
      · rename_i hle
        have e : g.1 = tf := by omega
        have h2 := chainInv_pauli h g.2 ⟨hg.2.1, hg.2.2⟩
        rw [← e] at h2
        exact h2
    obtain ⟨i1, i2⟩ := ih _ (g.1 + 1) (done ++ [g]) step
      (fun f hf => by have := hpc.1 f hf; have := hv f (by simp [hf]); omega) hpc.2
    refine ⟨by simpa using i1, ?_⟩
    right
    rcases i2 with h' | ⟨f, hf, h'⟩
    · exact ⟨g, by simp, h'⟩
    · exact ⟨f, by simp [hf], h'⟩

open OFV.Spec.C07 (ampP) in
/-- **the term matrix of `qubit_operator_sparse` is the matrix of the Pauli string**: for every
register size `n` above the highest qubit, every coefficient and all basis states `s, u < 2^n`,
the entry at (row `beIndex n u`, column `beIndex n s`) of the Kronecker chain is `c · ⟨u| t |s⟩`. -/
theorem qubitTermFactors_get (n : Nat) (t : List (Nat × Nat)) (c : GQ)
    (hp : t.Pairwise (fun f g => f.1 < g.1)) (hv : ∀ f ∈ t, 1 ≤ f.2 ∧ f.2 ≤ 3) (hn : ∀ f ∈ t, f.1 < n)
    (s u : Nat) (hs : s < 2 ^ n) (hu : u < 2 ^ n) :
    (kronList (qubitTermFactors n t c)).get (beIndex n u) (beIndex n s) = c * ampP t s u := by
  have h := chain_fold c t [scalarMat c] 0 [] (chainInv_init c)
    (fun f hf => ⟨Nat.zero_le _, hv f hf⟩) hp
  unfold qubitTermFactors
  simp only at h ⊢
  generalize (t.foldl (fun (acc : List Mat × Nat) f =>
      ((if f.1 > acc.2 then acc.1 ++ [identity (2 ^ (f.1 - acc.2))] else acc.1) ++ [pauliMat f.2], f.1 + 1))
      ([scalarMat c], 0)) = st at h ⊢
  obtain ⟨ops, tf⟩ := st
  simp only [List.nil_append] at h ⊢
  obtain ⟨hinv, hlast⟩ := h
  have htf : tf ≤ n := by
    rcases hlast with h | ⟨f, hf, h⟩
    · omega
    · have := hn f hf; omega
  split
  · have h2 := chainInv_identity hinv (n - tf)
    have e : tf + (n - tf) = n := by omega
    rw [e] at h2
    exact h2.val s u hs hu
  · rename_i hnot
    have e : tf = n := by
      have : ¬ tf < n := fun h => hnot (Or.inl h)
      omega
    subst e
    exact hinv.val s u hs hu

end C06
end Proofs
end OFV
