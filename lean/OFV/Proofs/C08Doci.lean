/-
C08 helper lemmas for the DOCIHamiltonian Model: entries of tabulated arrays.
-/
import OFV.Model.C08Doci
import OFV.Proofs.C08Scatter

namespace OFV
namespace C08P
open Spec Spec.C08 Model Model.C08 Model.C08.Doci

theorem tget_tab (n : Nat) : ∀ (k : Nat) (f : List Nat → GQ) (idx : List Nat), idx.length = k →
    (∀ a ∈ idx, a < n) → tget idx (tab n k f) = some (f idx) := by
  intro k
  induction k with
  | zero => intro f idx h _; have : idx = [] := List.eq_nil_of_length_eq_zero h; subst this; rfl
  | succ k ih =>
    intro f idx h hn
    cases idx with
    | nil => simp at h
    | cons i r =>
      simp only [List.length_cons, Nat.add_right_cancel_iff] at h
      have hi : i < n := hn i (by simp)
      simp only [tab, tget, List.getElem?_map, List.getElem?_range hi, Option.map_some]
      exact ih (fun idx => f (i :: idx)) r h (fun a ha => hn a (by simp [ha]))

theorem Shaped_tab (n : Nat) : ∀ (k : Nat) (f : List Nat → GQ), Shaped n k (tab n k f) := by
  intro k
  induction k with
  | zero => intro f; simp [tab, Shaped]
  | succ k ih =>
    intro f
    simp only [tab, Shaped, List.length_map, List.length_range, true_and]
    intro t ht
    obtain ⟨i, _, rfl⟩ := List.mem_map.mp ht
    exact ih _

end C08P
end OFV
