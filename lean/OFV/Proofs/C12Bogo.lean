/- C12: the canonical constraints on the Bogoliubov matrix `W = (W1 W2)` make the new operators satisfy the CAR. -/
import OFV.Proofs.C17Car
import Mathlib.Algebra.Algebra.Defs
import Mathlib.Algebra.BigOperators.Group.Finset.Basic
import Mathlib.Algebra.BigOperators.Ring.Finset
import Mathlib.Algebra.BigOperators.GroupWithZero.Action
import Mathlib.Algebra.Module.BigOperators
import Mathlib.Tactic.Abel
import Mathlib.Tactic.Ring

namespace OFV
namespace Car

open Finset

variable {K : Type} [CommRing K] {R : Type} [Ring R] [Algebra K R]

theorem anticomm_sum (n : Nat) (x y : Nat → R) :
    (∑ k ∈ range n, x k) * (∑ l ∈ range n, y l) + (∑ l ∈ range n, y l) * (∑ k ∈ range n, x k) =
      ∑ k ∈ range n, ∑ l ∈ range n, (x k * y l + y l * x k) := by
  rw [sum_mul_sum, sum_mul_sum, sum_comm (f := fun l k => y l * x k)]
  simp only [← sum_add_distrib]

theorem anticomm_term (α β γ δ : K) (u v w z : R) :
    (α • u + β • v) * (γ • w + δ • z) + (γ • w + δ • z) * (α • u + β • v) =
      (α * γ) • (u * w + w * u) + (α * δ) • (u * z + z * u) + (β * γ) • (v * w + w * v) + (β * δ) • (v * z + z * v) := by
  simp only [add_mul, mul_add, Algebra.smul_mul_assoc, Algebra.mul_smul_comm, smul_smul, smul_add]
  rw [mul_comm γ α, mul_comm δ α, mul_comm γ β, mul_comm δ β]
  abel

theorem dl_smul_sum (n : Nat) (k : Nat) (hk : k < n) (f : Nat → K) :
    ∑ l ∈ range n, f l • (dl k l : R) = f k • (1 : R) := by
  have : ∀ l ∈ range n, f l • (dl k l : R) = if k = l then f l • (1 : R) else 0 := by
    intro l _; unfold dl; by_cases h : k = l <;> simp [h]
  rw [sum_congr rfl this, sum_ite_eq]
  simp [hk]

/-- new creation / annihilation operators
`b†_i = Σ_k (A_ik a†_k + B_ik a_k)`, `b_i = Σ_k (A'_ik a_k + B'_ik a†_k)` (for a Bogoliubov matrix `W = (W1 W2)`:
`A = W1`, `B = W2`, `A' = conj W1`, `B' = conj W2`) -/
def bdag (n : Nat) (A B : Nat → Nat → K) (ad a : Nat → R) (i : Nat) : R :=
  ∑ k ∈ range n, (A i k • ad k + B i k • a k)

def bann (n : Nat) (A' B' : Nat → Nat → K) (ad a : Nat → R) (i : Nat) : R :=
  ∑ k ∈ range n, (A' i k • a k + B' i k • ad k)

/-- **canonical constraints ⇒ CAR**: if `W1 W1† + W2 W2† = 1` and `W1 W2ᵀ + W2 W1ᵀ = 0` (and its conjugate), the new
operators satisfy the canonical anticommutation relations -/
theorem bogoliubov_car (n : Nat) (ad a : Nat → R) (hc : CAR n ad a) (A B A' B' : Nat → Nat → K)
    (h1 : ∀ i j, i < n → j < n → ∑ k ∈ range n, (A' i k * A j k + B' i k * B j k) = if i = j then 1 else 0)
    (h2 : ∀ i j, i < n → j < n → ∑ k ∈ range n, (A i k * B j k + B i k * A j k) = 0)
    (h2' : ∀ i j, i < n → j < n → ∑ k ∈ range n, (A' i k * B' j k + B' i k * A' j k) = 0) :
    CAR n (bdag n A B ad a) (bann n A' B' ad a) := by
  have aa : ∀ k ∈ range n, ∀ l ∈ range n, a k * a l + a l * a k = 0 :=
    fun k hk l hl => hc.aa k l (mem_range.mp hk) (mem_range.mp hl)
  have dd : ∀ k ∈ range n, ∀ l ∈ range n, ad k * ad l + ad l * ad k = 0 :=
    fun k hk l hl => hc.dd k l (mem_range.mp hk) (mem_range.mp hl)
  have adl : ∀ k ∈ range n, ∀ l ∈ range n, a k * ad l + ad l * a k = (dl k l : R) :=
    fun k hk l hl => hc.ad k l (mem_range.mp hk) (mem_range.mp hl)
  have dal : ∀ k ∈ range n, ∀ l ∈ range n, ad k * a l + a l * ad k = (dl k l : R) := by
    intro k hk l hl
    rw [add_comm, dl_comm]; exact hc.ad l k (mem_range.mp hl) (mem_range.mp hk)
  refine ⟨?_, ?_, ?_⟩
  · -- {b_i, b_j} = 0
    intro i j hi hj
    unfold bann
    rw [anticomm_sum]
    have : ∀ k ∈ range n, ∑ l ∈ range n, ((A' i k • a k + B' i k • ad k) * (A' j l • a l + B' j l • ad l)
        + (A' j l • a l + B' j l • ad l) * (A' i k • a k + B' i k • ad k)) =
        (A' i k * B' j k + B' i k * A' j k) • (1 : R) := by
      intro k hk
      have e : ∀ l ∈ range n, ((A' i k • a k + B' i k • ad k) * (A' j l • a l + B' j l • ad l)
          + (A' j l • a l + B' j l • ad l) * (A' i k • a k + B' i k • ad k)) =
          (A' i k * B' j l + B' i k * A' j l) • (dl k l : R) := by
        intro l hl
        rw [anticomm_term, aa k hk l hl, dd k hk l hl, adl k hk l hl, dal k hk l hl]
        simp only [smul_zero, add_zero, zero_add, add_smul]
      rw [sum_congr rfl e, dl_smul_sum n k (mem_range.mp hk)]
    rw [sum_congr rfl this, ← sum_smul, h2' i j hi hj, zero_smul]
  · -- {b†_i, b†_j} = 0
    intro i j hi hj
    unfold bdag
    rw [anticomm_sum]
    have : ∀ k ∈ range n, ∑ l ∈ range n, ((A i k • ad k + B i k • a k) * (A j l • ad l + B j l • a l)
        + (A j l • ad l + B j l • a l) * (A i k • ad k + B i k • a k)) =
        (A i k * B j k + B i k * A j k) • (1 : R) := by
      intro k hk
      have e : ∀ l ∈ range n, ((A i k • ad k + B i k • a k) * (A j l • ad l + B j l • a l)
          + (A j l • ad l + B j l • a l) * (A i k • ad k + B i k • a k)) =
          (A i k * B j l + B i k * A j l) • (dl k l : R) := by
        intro l hl
        rw [anticomm_term, aa k hk l hl, dd k hk l hl, adl k hk l hl, dal k hk l hl]
        simp only [smul_zero, add_zero, zero_add, add_smul]
      rw [sum_congr rfl e, dl_smul_sum n k (mem_range.mp hk)]
    rw [sum_congr rfl this, ← sum_smul, h2 i j hi hj, zero_smul]
  · -- {b_i, b†_j} = δ_ij
    intro i j hi hj
    unfold bann bdag
    rw [anticomm_sum]
    have : ∀ k ∈ range n, ∑ l ∈ range n, ((A' i k • a k + B' i k • ad k) * (A j l • ad l + B j l • a l)
        + (A j l • ad l + B j l • a l) * (A' i k • a k + B' i k • ad k)) =
        (A' i k * A j k + B' i k * B j k) • (1 : R) := by
      intro k hk
      have e : ∀ l ∈ range n, ((A' i k • a k + B' i k • ad k) * (A j l • ad l + B j l • a l)
          + (A j l • ad l + B j l • a l) * (A' i k • a k + B' i k • ad k)) =
          (A' i k * A j l + B' i k * B j l) • (dl k l : R) := by
        intro l hl
        rw [anticomm_term, aa k hk l hl, dd k hk l hl, adl k hk l hl, dal k hk l hl]
        simp only [smul_zero, add_zero, zero_add, add_smul]
      rw [sum_congr rfl e, dl_smul_sum n k (mem_range.mp hk)]
    rw [sum_congr rfl this, ← sum_smul, h1 i j hi hj]
    unfold dl
    by_cases e : i = j <;> simp [e]

/-- the anticommutator `{b_i, b†_j}` is the scalar `Σ_k (A'_ik A_jk + B'_ik B_jk)` — unconditionally -/
theorem bogoliubov_anticomm_value (n : Nat) (ad a : Nat → R) (hc : CAR n ad a) (A B A' B' : Nat → Nat → K) (i j : Nat) :
    bann n A' B' ad a i * bdag n A B ad a j + bdag n A B ad a j * bann n A' B' ad a i =
      (∑ k ∈ range n, (A' i k * A j k + B' i k * B j k)) • (1 : R) := by
  have aa : ∀ k ∈ range n, ∀ l ∈ range n, a k * a l + a l * a k = 0 :=
    fun k hk l hl => hc.aa k l (mem_range.mp hk) (mem_range.mp hl)
  have dd : ∀ k ∈ range n, ∀ l ∈ range n, ad k * ad l + ad l * ad k = 0 :=
    fun k hk l hl => hc.dd k l (mem_range.mp hk) (mem_range.mp hl)
  have adl : ∀ k ∈ range n, ∀ l ∈ range n, a k * ad l + ad l * a k = (dl k l : R) :=
    fun k hk l hl => hc.ad k l (mem_range.mp hk) (mem_range.mp hl)
  have dal : ∀ k ∈ range n, ∀ l ∈ range n, ad k * a l + a l * ad k = (dl k l : R) := by
    intro k hk l hl
    rw [add_comm, dl_comm]; exact hc.ad l k (mem_range.mp hl) (mem_range.mp hk)
  unfold bann bdag
  rw [anticomm_sum]
  have : ∀ k ∈ range n, ∑ l ∈ range n, ((A' i k • a k + B' i k • ad k) * (A j l • ad l + B j l • a l)
      + (A j l • ad l + B j l • a l) * (A' i k • a k + B' i k • ad k)) =
      (A' i k * A j k + B' i k * B j k) • (1 : R) := by
    intro k hk
    have e : ∀ l ∈ range n, ((A' i k • a k + B' i k • ad k) * (A j l • ad l + B j l • a l)
        + (A j l • ad l + B j l • a l) * (A' i k • a k + B' i k • ad k)) =
        (A' i k * A j l + B' i k * B j l) • (dl k l : R) := by
      intro l hl
      rw [anticomm_term, aa k hk l hl, dd k hk l hl, adl k hk l hl, dal k hk l hl]
      simp only [smul_zero, add_zero, zero_add, add_smul]
    rw [sum_congr rfl e, dl_smul_sum n k (mem_range.mp hk)]
  rw [sum_congr rfl this, ← sum_smul]

/-- **CAR ⇒ first canonical constraint** when scalars act faithfully on `1` (e.g. `R` a non-trivial algebra over a field) -/
theorem bogoliubov_constraint_of_car (n : Nat) (ad a : Nat → R) (hc : CAR n ad a) (A B A' B' : Nat → Nat → K)
    (hinj : ∀ x y : K, x • (1 : R) = y • (1 : R) → x = y)
    (hb : CAR n (bdag n A B ad a) (bann n A' B' ad a)) (i j : Nat) (hi : i < n) (hj : j < n) :
    ∑ k ∈ range n, (A' i k * A j k + B' i k * B j k) = if i = j then 1 else 0 := by
  have h1 := bogoliubov_anticomm_value n ad a hc A B A' B' i j
  rw [hb.ad i j hi hj] at h1
  apply hinj
  rw [← h1]
  unfold dl
  by_cases e : i = j <;> simp [e]

/-- the anticommutator `{b†_i, b†_j}` is the scalar `Σ_k (A_ik B_jk + B_ik A_jk)` — unconditionally -/
theorem bogoliubov_anticomm_value_dd (n : Nat) (ad a : Nat → R) (hc : CAR n ad a) (A B : Nat → Nat → K) (i j : Nat) :
    bdag n A B ad a i * bdag n A B ad a j + bdag n A B ad a j * bdag n A B ad a i =
      (∑ k ∈ range n, (A i k * B j k + B i k * A j k)) • (1 : R) := by
  have aa : ∀ k ∈ range n, ∀ l ∈ range n, a k * a l + a l * a k = 0 :=
    fun k hk l hl => hc.aa k l (mem_range.mp hk) (mem_range.mp hl)
  have dd : ∀ k ∈ range n, ∀ l ∈ range n, ad k * ad l + ad l * ad k = 0 :=
    fun k hk l hl => hc.dd k l (mem_range.mp hk) (mem_range.mp hl)
  have adl : ∀ k ∈ range n, ∀ l ∈ range n, a k * ad l + ad l * a k = (dl k l : R) :=
    fun k hk l hl => hc.ad k l (mem_range.mp hk) (mem_range.mp hl)
  have dal : ∀ k ∈ range n, ∀ l ∈ range n, ad k * a l + a l * ad k = (dl k l : R) := by
    intro k hk l hl
    rw [add_comm, dl_comm]; exact hc.ad l k (mem_range.mp hl) (mem_range.mp hk)
  unfold bdag
  rw [anticomm_sum]
  have : ∀ k ∈ range n, ∑ l ∈ range n, ((A i k • ad k + B i k • a k) * (A j l • ad l + B j l • a l)
      + (A j l • ad l + B j l • a l) * (A i k • ad k + B i k • a k)) =
      (A i k * B j k + B i k * A j k) • (1 : R) := by
    intro k hk
    have e : ∀ l ∈ range n, ((A i k • ad k + B i k • a k) * (A j l • ad l + B j l • a l)
        + (A j l • ad l + B j l • a l) * (A i k • ad k + B i k • a k)) =
        (A i k * B j l + B i k * A j l) • (dl k l : R) := by
      intro l hl
      rw [anticomm_term, aa k hk l hl, dd k hk l hl, adl k hk l hl, dal k hk l hl]
      simp only [smul_zero, add_zero, zero_add, add_smul]
    rw [sum_congr rfl e, dl_smul_sum n k (mem_range.mp hk)]
  rw [sum_congr rfl this, ← sum_smul]

/-- **CAR ⇒ second canonical constraint** (`W1 W2ᵀ + W2 W1ᵀ = 0`) when scalars act faithfully on `1` -/
theorem bogoliubov_constraint2_of_car (n : Nat) (ad a : Nat → R) (hc : CAR n ad a) (A B A' B' : Nat → Nat → K)
    (hinj : ∀ x y : K, x • (1 : R) = y • (1 : R) → x = y)
    (hb : CAR n (bdag n A B ad a) (bann n A' B' ad a)) (i j : Nat) (hi : i < n) (hj : j < n) :
    ∑ k ∈ range n, (A i k * B j k + B i k * A j k) = 0 := by
  have h1 := bogoliubov_anticomm_value_dd n ad a hc A B i j
  rw [hb.dd i j hi hj] at h1
  apply hinj
  rw [← h1, zero_smul]

end Car
end OFV
