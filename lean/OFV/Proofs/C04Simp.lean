/-
Soundness of `QubitOperator._simplify` (Model.simplifyQubit: stable sort by index, then merge
of equal indices through the extracted Pauli product table) against the Spec action `actPTerm`
on basis states, for every term whose action codes are Pauli codes (`< 4`).
-/
import OFV.Model.Symbolic
import OFV.Spec.Basic
import OFV.Proofs.Bits
import OFV.Proofs.C04GQ

namespace OFV
namespace Sem
open Spec Model Generated

/-! ### powers of `i` -/

theorem ipow_congr {a b : Nat} (h : a % 4 = b % 4) : GQ.ipow a = GQ.ipow b := by
  unfold GQ.ipow; rw [h]

theorem ipow_mod (a : Nat) : GQ.ipow (a % 4) = GQ.ipow a := ipow_congr (by omega)

theorem ipow_add (a b : Nat) : GQ.ipow a * GQ.ipow b = GQ.ipow (a + b) := by
  have h : (a + b) % 4 = (a % 4 + b % 4) % 4 := by omega
  rw [← ipow_mod a, ← ipow_mod b, ← ipow_mod (a + b), h]
  have ha : a % 4 < 4 := Nat.mod_lt _ (by decide)
  have hb : b % 4 < 4 := Nat.mod_lt _ (by decide)
  generalize a % 4 = u at *
  generalize b % 4 = v at *
  have : u = 0 ∨ u = 1 ∨ u = 2 ∨ u = 3 := by omega
  have : v = 0 ∨ v = 1 ∨ v = 2 ∨ v = 3 := by omega
  rcases ‹u = 0 ∨ _› with rfl | rfl | rfl | rfl <;> rcases ‹v = 0 ∨ _› with rfl | rfl | rfl | rfl <;>
    (apply GQ.ext <;> simp [GQ.ipow, GQ.I])

theorem ipow_zero : GQ.ipow 0 = 1 := rfl

/-! ### one step of `actPTerm` -/

/-- one factor applied to an accumulated (phase, state) -/
def stepP (f : Nat × Nat) (acc : Nat × Nat) : Nat × Nat :=
  let r := actP f.1 f.2 acc.2; ((acc.1 + r.1) % 4, r.2)

theorem actPTerm_cons (f : Nat × Nat) (t : List (Nat × Nat)) (s : Nat) :
    actPTerm (f :: t) s = stepP f (actPTerm t s) := rfl

theorem actPTerm_nil (s : Nat) : actPTerm [] s = (0, s) := rfl

theorem actPTerm_phase_mod (u : List (Nat × Nat)) (s : Nat) : (actPTerm u s).1 % 4 = (actPTerm u s).1 := by
  cases u with
  | nil => rfl
  | cons f r => simp [actPTerm_cons, stepP]

theorem actPTerm_append (t u : List (Nat × Nat)) (s : Nat) :
    actPTerm (t ++ u) s =
      (((actPTerm u s).1 + (actPTerm t (actPTerm u s).2).1) % 4, (actPTerm t (actPTerm u s).2).2) := by
  induction t with
  | nil =>
    have := actPTerm_phase_mod u s
    simp only [List.nil_append, actPTerm_nil, Nat.add_zero]
    ext <;> simp [this]
  | cons f r ih =>
    simp only [List.cons_append, actPTerm_cons, ih, stepP]
    ext <;> simp <;> omega

/-! ### Paulis on different qubits commute (phase and state) -/

theorem actP_state (j p s : Nat) : (actP j p s).2 = s ∨ (actP j p s).2 = s ^^^ (1 <<< j) := by
  unfold actP; split <;> simp

theorem actP_comm (j p k q s : Nat) (h : j ≠ k) :
    (actP k q (actP j p s).2).2 = (actP j p (actP k q s).2).2 ∧
    (actP j p s).1 + (actP k q (actP j p s).2).1 = (actP k q s).1 + (actP j p (actP k q s).2).1 := by
  have e1 := testBit_xflip_ne s j k h
  have e2 := testBit_xflip_ne s k j (Ne.symm h)
  have e3 := xflip_comm s j k
  unfold actP
  split <;> split <;> simp [e1, e2, e3] <;> omega

theorem stepP_comm (f g : Nat × Nat) (acc : Nat × Nat) (h : f.1 ≠ g.1) :
    stepP f (stepP g acc) = stepP g (stepP f acc) := by
  obtain ⟨h1, h2⟩ := actP_comm g.1 g.2 f.1 f.2 acc.2 (Ne.symm h)
  simp only [stepP]
  ext
  · simp only; omega
  · simp only; exact h1

theorem insertF_sound (f : Nat × Nat) (r : List (Nat × Nat)) (s : Nat) :
    actPTerm (insertF f r) s = actPTerm (f :: r) s := by
  induction r with
  | nil => rfl
  | cons g r ih =>
    simp only [insertF]
    split
    · rfl
    · rename_i hle
      rw [actPTerm_cons, ih, actPTerm_cons, actPTerm_cons, actPTerm_cons]
      exact stepP_comm g f _ (by omega)

theorem sortF_sound (t : List (Nat × Nat)) (s : Nat) : actPTerm (sortF t) s = actPTerm t s := by
  induction t with
  | nil => rfl
  | cons f r ih => rw [sortF, insertF_sound, actPTerm_cons, actPTerm_cons, ih]

/-! ### validity (Pauli codes) is preserved -/

def ValidQ (t : List (Nat × Nat)) : Prop := ∀ f ∈ t, f.2 < 4

theorem insertF_mem (f g : Nat × Nat) (r : List (Nat × Nat)) : g ∈ insertF f r ↔ g = f ∨ g ∈ r := by
  induction r with
  | nil => simp [insertF]
  | cons h r ih =>
    simp only [insertF]
    split
    · simp
    · simp [ih]; tauto

theorem sortF_mem (g : Nat × Nat) (t : List (Nat × Nat)) : g ∈ sortF t ↔ g ∈ t := by
  induction t with
  | nil => simp [sortF]
  | cons f r ih => simp [sortF, insertF_mem, ih]

theorem sortF_valid {t : List (Nat × Nat)} (h : ValidQ t) : ValidQ (sortF t) :=
  fun f hf => h f ((sortF_mem f t).1 hf)

theorem pauliProdK_lt (a b : Nat) : (pauliProdK a b).2 < 4 := by
  unfold pauliProdK; split <;> decide

/-! ### the table (re-proved here against the extracted table of this run) -/

theorem table_sound (a b : Nat) (ha : a < 4) (hb : b < 4) (j s : Nat) :
    (actP j a (actP j b s).2).2 = (actP j (pauliProdK a b).2 s).2 ∧
    ((actP j b s).1 + (actP j a (actP j b s).2).1) % 4
      = ((pauliProdK a b).1 + (actP j (pauliProdK a b).2 s).1) % 4 := by
  have h1 := xflip_xflip s j
  have h2 := testBit_xflip s j
  have : a = 0 ∨ a = 1 ∨ a = 2 ∨ a = 3 := by omega
  have : b = 0 ∨ b = 1 ∨ b = 2 ∨ b = 3 := by omega
  rcases ‹a = 0 ∨ _› with rfl | rfl | rfl | rfl <;> rcases ‹b = 0 ∨ _› with rfl | rfl | rfl | rfl <;>
    cases h : s.testBit j <;> simp [actP, pauliProdK, h, h1, h2]

theorem actP_ident (j s : Nat) : actP j 0 s = (0, s) := rfl

/-! ### the merge loop -/

theorem mergeQ_valid (l : Nat × Nat) (rest : List (Nat × Nat)) (hl : l.2 < 4) (hr : ValidQ rest) :
    ValidQ (mergeQ l rest).2 := by
  induction rest generalizing l with
  | nil =>
    simp only [mergeQ]
    split
    · intro f hf; simp at hf
    · intro f hf; simp at hf; subst hf; exact hl
  | cons r rest ih =>
    have hr' : ValidQ rest := fun f hf => hr f (List.mem_cons_of_mem _ hf)
    have hr0 : r.2 < 4 := hr r (List.mem_cons_self)
    simp only [mergeQ]
    split
    · exact ih (l.1, (pauliProd l.2 r.2).2) (pauliProdK_lt _ _) hr'
    · have := ih r hr0 hr'
      split
      · exact this
      · intro f hf
        rcases List.mem_cons.1 hf with rfl | hf
        · exact hl
        · exact this f hf

/-- the merged term acts like the input term, the returned coefficient being the collected phase -/
theorem mergeQ_sound (l : Nat × Nat) (rest : List (Nat × Nat)) (hl : l.2 < 4) (hr : ValidQ rest) (s : Nat) :
    (actPTerm (mergeQ l rest).2 s).2 = (actPTerm (l :: rest) s).2 ∧
    (mergeQ l rest).1 * GQ.ipow (actPTerm (mergeQ l rest).2 s).1 = GQ.ipow (actPTerm (l :: rest) s).1 := by
  induction rest generalizing l with
  | nil =>
    simp only [mergeQ]
    split
    · rename_i h0
      obtain ⟨j, p⟩ := l
      simp only at h0; subst h0
      simp [actPTerm_cons, actPTerm_nil, stepP, actP_ident, ipow_zero]
    · simp
  | cons r rest ih =>
    have hr' : ValidQ rest := fun f hf => hr f (List.mem_cons_of_mem _ hf)
    have hr0 : r.2 < 4 := hr r (List.mem_cons_self)
    simp only [mergeQ]
    split
    · rename_i heq
      obtain ⟨ih1, ih2⟩ := ih (l.1, (pauliProd l.2 r.2).2) (pauliProdK_lt _ _) hr'
      obtain ⟨t1, t2⟩ := table_sound l.2 r.2 hl hr0 l.1 (actPTerm rest s).2
      simp only [actPTerm_cons, stepP] at ih1 ih2 ⊢
      simp only [pauliProd] at ih1 ih2 ⊢
      rw [← heq]
      refine ⟨by rw [ih1, t1], ?_⟩
      rw [mul_assoc, ih2, ipow_add]
      apply ipow_congr
      omega
    · obtain ⟨ih1, ih2⟩ := ih r hr0 hr'
      split
      · rename_i h0
        obtain ⟨j, p⟩ := l
        simp only at h0; subst h0
        rw [actPTerm_cons (j, 0), stepP]
        simp only [actP_ident]
        refine ⟨ih1, ?_⟩
        rw [ih2]; apply ipow_congr; omega
      · rw [actPTerm_cons l, actPTerm_cons l (r :: rest)]
        simp only [stepP]
        rw [ih1]
        refine ⟨rfl, ?_⟩
        have e : (mergeQ r rest).1 * GQ.ipow (((actPTerm (mergeQ r rest).2 s).1 + (actP l.1 l.2 (actPTerm (r :: rest) s).2).1) % 4)
            = GQ.ipow (((actPTerm (r :: rest) s).1 + (actP l.1 l.2 (actPTerm (r :: rest) s).2).1) % 4) := by
          rw [ipow_mod, ipow_mod, ← ipow_add, ← ipow_add, ← mul_assoc, ih2]
        exact e

theorem simplifyQubit_valid {t : List (Nat × Nat)} (h : ValidQ t) : ValidQ (simplifyQubit t).2 := by
  unfold simplifyQubit
  have hs := sortF_valid h
  split
  · intro f hf; simp at hf
  · rename_i l rest heq
    rw [heq] at hs
    exact mergeQ_valid l rest (hs l List.mem_cons_self) (fun f hf => hs f (List.mem_cons_of_mem _ hf))

/-- `QubitOperator._simplify` is sound: for every Pauli term `t` and basis state `s`,
`coefficient * (simplified term)|s⟩ = t|s⟩`. -/
theorem simplifyQubit_sound {t : List (Nat × Nat)} (h : ValidQ t) (s : Nat) :
    (actPTerm (simplifyQubit t).2 s).2 = (actPTerm t s).2 ∧
    (simplifyQubit t).1 * GQ.ipow (actPTerm (simplifyQubit t).2 s).1 = GQ.ipow (actPTerm t s).1 := by
  unfold simplifyQubit
  have hs := sortF_valid h
  have hsnd := sortF_sound t s
  split
  · rename_i heq
    rw [heq] at hsnd
    rw [← hsnd]; simp
  · rename_i l rest heq
    rw [heq] at hs hsnd
    have := mergeQ_sound l rest (hs l List.mem_cons_self) (fun f hf => hs f (List.mem_cons_of_mem _ hf)) s
    rw [hsnd] at this
    exact this

end Sem
end OFV
