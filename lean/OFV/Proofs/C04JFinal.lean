/-
`jordan_wigner_dual_basis_jellium` denotes the dual-basis jellium FermionOperator (all grids, spinless and with
spin), hence equals `jordan_wigner` of it.
-/
import OFV.Proofs.C04JOrb

set_option linter.unusedSimpArgs false
set_option linter.unusedVariables false

namespace OFV
namespace Jel
open Model Model.C04J Spec Sem

theorem gridIndices_VP (l : List Nat) (sl : Bool) (p : Nat) (hp : p < nqOf l sl) : VP l (gridIndices l p sl) := by
  rw [gridIndices_eq]
  cases sl with
  | true => simp only [nqOf, if_true] at hp ⊢; exact gi_VP' l p hp
  | false => simp only [nqOf, Bool.false_eq_true, if_false] at hp ⊢; exact gi_VP' l (p / 2) (by omega)

theorem natCast_double (n : Nat) : (⟨((2 * n : Nat) : Rat), 0⟩ : GQ) = ⟨(n : Rat), 0⟩ + ⟨(n : Rat), 0⟩ := by
  apply GQ.ext <;> simp <;> push_cast <;> ring

theorem idc_eq (l : List Nat) (sl : Bool) (kin pot : List Nat → GQ) :
    idcOf l sl kin pot
      = (⟨(nqOf l sl : Nat), 0⟩ : GQ) * kin (origin l) * C04.half
        - (⟨(nqOf l sl : Nat), 0⟩ : GQ) * pot (origin l) * C04.half * C04.half := by
  unfold idcOf nqOf
  cases sl with
  | true => simp only [if_true]; ring
  | false =>
    simp only [Bool.false_eq_true, if_false, natCast_double]
    linear_combination (-((⟨(prodL l : Rat), 0⟩ : GQ) * kin (origin l))
      + (⟨(prodL l : Rat), 0⟩ : GQ) * pot (origin l) * C04.half) * half_add_half

theorem skip_symm (sl : Bool) (p q : Nat) : skipOf sl p q = skipOf sl q p := by
  unfold skipOf; rw [Nat.add_comm]

theorem skip_self (sl : Bool) (p : Nat) : skipOf sl p p = false := by
  unfold skipOf
  have : (p + p) % 2 = 0 := by omega
  simp [this]

/-- **`jordan_wigner_dual_basis_jellium` has the matrix elements of the dual-basis jellium FermionOperator**:
every grid (any dimension, any lengths), spinless or with spin, with or without the Madelung constant; `K`, `P`
even functions of the displacement, `Σ_δ P(δ) = 0`; both runs exact -/
theorem jellium_direct_eq_model (tol : Rat) (l : List Nat) (sl : Bool) (kin pot : List Nat → GQ) (const : Option GQ)
    (hevenK : ∀ u v, VP l u → VP l v → kin (subIdx l u v) = kin (subIdx l v u))
    (hevenP : ∀ u v, VP l u → VP l v → pot (subIdx l u v) = pot (subIdx l v u))
    (hsum : ((allPoints l).map pot).sum = 0)
    (hokD : jwJelliumDirectOk tol l sl kin pot const = true)
    (hokM : dualBasisModelOk tol l sl kin pot const = true) (m x : Nat) :
    den .qubit (jwJelliumDirect tol l sl kin pot const) [m] [x]
      = den .fermion (dualBasisModel tol l sl kin pot const) [m] [x] := by
  rw [direct_den tol l sl kin pot const hokD, model_den tol l sl kin pot const hokM, model_orbitals,
    sum_squareJ (hM l sl kin pot m x) (nqOf l sl), sum_upper_lower]
  set N := nqOf l sl with hN
  set d : GQ := if m = x then 1 else 0 with hd
  let nn : Nat → GQ := fun q => if m.testBit q then 1 else 0
  let W : Nat → Nat → GQ := fun a b => pot (dl l sl b a)
  have hVP : ∀ p, p < N → VP l (gridIndices l p sl) := fun p hp => gridIndices_VP l sl p hp
  -- closed forms of the strings and monomials
  have tz : ∀ q, termCoef .qubit [(q, 3)] [m] [x] = d * (1 - (nn q + nn q)) := by
    intro q; rw [tC_z]; simp only [hd, nn]
    by_cases h : m = x <;> cases m.testBit q <;> simp [h] <;> ring
  have tzz : ∀ p q, termCoef .qubit [(p, 3), (q, 3)] [m] [x] = d * ((1 - (nn p + nn p)) * (1 - (nn q + nn q))) := by
    intro p q; rw [tC_zz]; simp only [hd, nn]
    by_cases h : m = x <;> cases m.testBit p <;> cases m.testBit q <;> simp [h] <;> ring
  have tn : ∀ p, termCoef .fermion [(p, 1), (p, 0)] [m] [x] = nn p * d := by
    intro p; rw [n_fermion]; simp only [hd, nn]
    cases m.testBit p <;> simp
  have tnn : ∀ p q, termCoef .fermion [(p, 1), (p, 0), (q, 1), (q, 0)] [m] [x] = nn p * nn q * d := by
    intro p q; rw [nn_fermion]; simp only [hd, nn]
    cases m.testBit p <;> cases m.testBit q <;> simp
  have t0 : termCoef .qubit [] [m] [x] = d := tC_nil m x
  have t0f : termCoef .fermion [] [m] [x] = d := tcF_nil m x
  -- the diagonal of the model
  have hdiagM : ∀ p ∈ List.range N, hM l sl kin pot m x p p = kin (origin l) * (nn p * d) := by
    intro p hp
    rw [List.mem_range] at hp
    unfold hM
    have : (p == p) = true := by simp
    simp only [skip_self, Bool.false_eq_true, if_false, this, if_true, add_zero, dl, sub_self l _ (hVP p hp), tn]
  -- the two triangles of the model
  have hoffM : ∀ a ∈ List.range N, ∀ b ∈ List.range a,
      hM l sl kin pot m x a b + hM l sl kin pot m x b a
        = (if skipOf sl b a then 0 else kin (dl l sl b a) *
            (termCoef .fermion [(b, 1), (a, 0)] [m] [x] + termCoef .fermion [(a, 1), (b, 0)] [m] [x]))
          + (W a b + W a b) * (nn a * nn b * d) := by
    intro a ha b hb
    rw [List.mem_range] at ha hb
    have hab : (a == b) = false := by simp; omega
    have hba : (b == a) = false := by simp; omega
    have eK : kin (dl l sl a b) = kin (dl l sl b a) := hevenK _ _ (hVP a ha) (hVP b (by omega))
    have eP : pot (dl l sl a b) = pot (dl l sl b a) := hevenP _ _ (hVP a ha) (hVP b (by omega))
    unfold hM
    simp only [hab, hba, Bool.false_eq_true, if_false, tnn, skip_symm sl a b, eK, eP, W]
    by_cases hk : skipOf sl b a = true
    · simp only [hk, if_true]; ring
    · simp only [hk, if_false, Bool.false_eq_true]; ring
  have eM1 : ((List.range N).map fun p => hM l sl kin pot m x p p).sum
      = ((List.range N).map fun p => kin (origin l) * nn p).sum * d := by
    rw [← sum_mul_rightJ]; congr 1; apply List.map_congr_left; intro p hp
    rw [hdiagM p hp]; ring
  have eM2 : ((List.range N).map fun a => ((List.range a).map fun b =>
        hM l sl kin pot m x a b + hM l sl kin pot m x b a).sum).sum
      = ((List.range N).map fun a => ((List.range a).map fun b =>
          (if skipOf sl b a then 0 else kin (dl l sl b a) *
            (termCoef .fermion [(b, 1), (a, 0)] [m] [x] + termCoef .fermion [(a, 1), (b, 0)] [m] [x]))).sum).sum
        + ((List.range N).map fun a => ((List.range a).map fun b => (W a b + W a b) * (nn a * nn b)).sum).sum * d := by
    rw [← sum_mul_rightJ, ← sum_add_map]
    congr 1; apply List.map_congr_left; intro a ha
    rw [← sum_mul_rightJ, ← sum_add_map]
    congr 1; apply List.map_congr_left; intro b hb
    rw [hoffM a ha b hb]; ring
  -- the direct form: split hopping and diagonal parts
  have eD2 : ((List.range N).map fun a => ((List.range a).map fun b =>
        pot (dl l sl b a) * C04.half * termCoef .qubit [(b, 3), (a, 3)] [m] [x]
          + (if skipOf sl b a then 0 else kin (dl l sl b a) *
              (termCoef .fermion [(b, 1), (a, 0)] [m] [x] + termCoef .fermion [(a, 1), (b, 0)] [m] [x]))).sum).sum
      = ((List.range N).map fun a => ((List.range a).map fun b =>
          W a b * C04.half * ((1 - (nn b + nn b)) * (1 - (nn a + nn a)))).sum).sum * d
        + ((List.range N).map fun a => ((List.range a).map fun b =>
          (if skipOf sl b a then 0 else kin (dl l sl b a) *
            (termCoef .fermion [(b, 1), (a, 0)] [m] [x] + termCoef .fermion [(a, 1), (b, 0)] [m] [x]))).sum).sum := by
    rw [← sum_mul_rightJ, ← sum_add_map]
    congr 1; apply List.map_congr_left; intro a _
    rw [← sum_mul_rightJ, ← sum_add_map]
    congr 1; apply List.map_congr_left; intro b _
    rw [tzz]; simp only [W]; ring
  have eD1 : ((List.range N).map fun q => zcOf l kin pot * termCoef .qubit [(q, 3)] [m] [x]).sum
      = ((List.range N).map fun q => (pot (origin l) * C04.half - kin (origin l) * C04.half) * (1 - (nn q + nn q))).sum * d := by
    rw [← sum_mul_rightJ]; congr 1; apply List.map_congr_left; intro q _
    rw [tz]; unfold zcOf; ring
  -- the diagonal identity
  have hD := diag_identity N W (kin (origin l)) (pot (origin l)) nn
    (fun a b ha hb => by simp only [W]; exact hevenP _ _ (hVP b hb) (hVP a ha))
    (fun a ha => by simp only [W, dl, sub_self l _ (hVP a ha)])
    (fun a ha => pot_rows l sl pot hsum a ha)
  rw [eM1, eM2, eD1, eD2, t0, t0f, idc_eq]
  linear_combination d * hD

/-! ### the model is a FermionOperator of creation / annihilation factors (what `jw_exact` needs) -/

def KeysP (P : List (Nat × Nat) → Prop) (A : Model.Op) : Prop := ∀ tc ∈ A, P tc.1

theorem set_keys {P : List (Nat × Nat) → Prop} {d : Model.Op} {k : List (Nat × Nat)} (v : GQ) (hd : KeysP P d)
    (hk : P k) : KeysP P (Dict.set d k v) := by
  induction d with
  | nil => intro tc h; simp [Dict.set] at h; subst h; exact hk
  | cons e r ih =>
    obtain ⟨k', v'⟩ := e
    have hr : KeysP P r := fun tc h => hd tc (List.mem_cons_of_mem _ h)
    have he : P k' := hd (k', v') List.mem_cons_self
    simp only [Dict.set]
    split
    · intro tc h
      rcases List.mem_cons.1 h with rfl | h
      · exact he
      · exact hr tc h
    · intro tc h
      rcases List.mem_cons.1 h with rfl | h
      · exact he
      · exact ih hr tc h

theorem erase_keys {P : List (Nat × Nat) → Prop} {d : Model.Op} (k : List (Nat × Nat)) (hd : KeysP P d) :
    KeysP P (Dict.erase d k) := by
  induction d with
  | nil => exact hd
  | cons e r ih =>
    obtain ⟨k', v'⟩ := e
    have hr : KeysP P r := fun tc h => hd tc (List.mem_cons_of_mem _ h)
    simp only [Dict.erase]
    split
    · exact hr
    · intro tc h
      rcases List.mem_cons.1 h with rfl | h
      · exact hd _ List.mem_cons_self
      · exact ih hr tc h

theorem iadd_keys {P : List (Nat × Nat) → Prop} (tol : Rat) {a b : Model.Op} (ha : KeysP P a) (hb : KeysP P b) :
    KeysP P (iadd tol a b) := by
  induction b generalizing a with
  | nil => exact ha
  | cons tc b ih =>
    simp only [iadd, List.foldl_cons] at ih ⊢
    apply ih _ (fun x h => hb x (List.mem_cons_of_mem _ h))
    split
    · exact erase_keys _ ha
    · exact set_keys _ ha (hb tc List.mem_cons_self)

theorem fold_keys {P : List (Nat × Nat) → Prop} (tol : Rat) (imgs : List Model.Op) (acc : Model.Op)
    (hacc : KeysP P acc) (h : ∀ img ∈ imgs, KeysP P img) :
    KeysP P (imgs.foldl (fun acc img => iadd tol acc img) acc) := by
  induction imgs generalizing acc with
  | nil => exact hacc
  | cons img imgs ih =>
    simp only [List.foldl_cons]
    exact ih _ (iadd_keys tol hacc (h img List.mem_cons_self)) (fun i hi => h i (List.mem_cons_of_mem _ hi))

def Ladder (t : List (Nat × Nat)) : Prop := ∀ f ∈ t, f.2 ≤ 1

theorem modelImgs_ladder (l : List Nat) (sl : Bool) (kin pot : List Nat → GQ) (b s : List Nat) :
    ∀ img ∈ modelImgs l sl kin pot b s, KeysP Ladder img := by
  intro img himg
  unfold modelImgs at himg
  simp only [List.mem_append, List.mem_map, List.mem_flatMap] at himg
  rcases himg with ⟨σ, _, rfl⟩ | ⟨sa, _, sb, _, h⟩
  · intro tc htc
    simp only [mk, simplify, List.mem_singleton] at htc
    subst htc
    intro f hf
    simp only [List.mem_cons, List.not_mem_nil, or_false] at hf
    rcases hf with rfl | rfl <;> simp
  · split at h
    · simp at h
    · simp only [List.mem_singleton] at h
      subst h
      intro tc htc
      simp only [mk, simplify, List.mem_singleton] at htc
      subst htc
      intro f hf
      simp only [List.mem_cons, List.not_mem_nil, or_false] at hf
      rcases hf with rfl | rfl | rfl | rfl <;> simp

theorem model_ladder (tol : Rat) (l : List Nat) (sl : Bool) (kin pot : List Nat → GQ) (const : Option GQ) :
    ∀ tc ∈ dualBasisModel tol l sl kin pot const, ∀ f ∈ tc.1, f.2 ≤ 1 := by
  have hnil : KeysP Ladder ([] : Model.Op) := fun tc h => by simp at h
  have hall : ∀ img ∈ modelAll l sl kin pot, KeysP Ladder img := by
    intro img himg
    unfold modelAll at himg
    simp only [List.mem_flatMap] at himg
    obtain ⟨b, _, s, _, h⟩ := himg
    exact modelImgs_ladder l sl kin pot b s img h
  have hcore := fold_keys tol (modelAll l sl kin pot) [] hnil hall
  unfold dualBasisModel
  simp only
  rw [model_fold]
  cases const with
  | none => exact hcore
  | some c =>
    apply iadd_keys tol hcore
    intro tc htc
    simp only [mk, simplify, List.mem_singleton] at htc
    subst htc
    intro f hf
    simp at hf

end Jel
end OFV
