/- Helper lemmas for C11: partial square roots and the 2×2 identities of `givens_matrix_elements`. -/
import OFV.Model.C11
import Mathlib.Tactic.Ring
import Mathlib.Tactic.FieldSimp
import Mathlib.Tactic.Linarith
import Mathlib.Tactic.LinearCombination
import Mathlib.Data.Rat.Defs
import Mathlib.Algebra.Order.Field.Rat

namespace OFV
namespace Model
namespace C11

theorem qsqrt_sound {q r : Rat} (h : qsqrt q = some r) : r * r = q ∧ 0 ≤ r := by
  unfold qsqrt at h
  split at h
  · simp at h
  · rename_i hq
    simp only at h
    split at h
    · rename_i hab
      obtain ⟨ha, hb⟩ := hab
      injection h with h
      subst h
      have hq0 : 0 ≤ q.num := Rat.num_nonneg.mpr (not_lt.mp hq)
      constructor
      · rw [Rat.mkRat_mul_mkRat]
        have h1 : ((isqrt q.num.toNat : Nat) : Int) * (isqrt q.num.toNat : Nat) = q.num := by
          rw [← Int.natCast_mul, ha, Int.toNat_of_nonneg hq0]
        rw [h1, hb, Rat.mkRat_self]
      · rw [Rat.mkRat_eq_div]
        exact div_nonneg (by exact_mod_cast Int.natCast_nonneg _) (by exact_mod_cast Nat.zero_le _)
    · simp at h

theorem sq_eq_of_nonneg {x y : Rat} (hx : 0 ≤ x) (hy : 0 ≤ y) (h : x * x = y * y) : x = y := by
  have h1 : (x - y) * (x + y) = 0 := by linear_combination h
  rcases mul_eq_zero.mp h1 with h2 | h2
  · linarith
  · have : x = 0 := by linarith
    have : y = 0 := by linarith
    linarith

/-- what the three branches of `cosSinPhase` guarantee (in the exact regime) -/
structure CSP (a b : GQ) (c s : Rat) (ph : GQ) : Prop where
  c0 : 0 ≤ c
  s0 : 0 ≤ s
  unit : c * c + s * s = 1
  phn : ph.re * ph.re + ph.im * ph.im = 1
  /-- the relation all four matrix forms rest on: `cos · a = phase · sin · b` -/
  rel_re : c * a.re = (ph.re * s) * b.re - (ph.im * s) * b.im
  rel_im : c * a.im = (ph.re * s) * b.im + (ph.im * s) * b.re
  s_zero : s = 0 → ph = 1
  c_zero : c = 0 → ph = 1
  real : a.im = 0 → b.im = 0 → ph.im = 0

theorem small_iff (tol : Rat) (x : GQ) : small tol x = true ↔ x.normSq < tol * tol := by
  simp [small]

theorem cosSinPhase_spec {tol : Rat} {a b : GQ} {c s : Rat} {ph : GQ} (htol : 0 < tol)
    (hexa : small tol a = true → a = 0) (hexb : small tol b = true → b = 0)
    (h : cosSinPhase tol a b = .ok (c, s, ph)) : CSP a b c s ph := by
  unfold cosSinPhase at h
  split at h
  · rename_i ha
    have := hexa ha; subst this
    injection h with h; injection h with h1 h; injection h with h2 h3
    subst h1 h2 h3
    constructor <;> simp <;> rfl
  · rename_i ha
    split at h
    · rename_i hb
      have := hexb hb; subst this
      injection h with h; injection h with h1 h; injection h with h2 h3
      subst h1 h2 h3
      constructor <;> simp <;> rfl
    · rename_i hb
      -- generic branch
      cases haa : gabs a with
      | none => simp [haa, orIrr, irr, bind, Except.bind] at h
      | some aa =>
        cases hab : gabs b with
        | none => simp [haa, hab, orIrr, irr, bind, Except.bind] at h
        | some ab =>
          cases hden : qsqrt (aa * aa + ab * ab) with
          | none => simp [haa, hab, hden, orIrr, irr, bind, Except.bind] at h
          | some den =>
            simp only [haa, hab, hden, orIrr, bind, Except.bind] at h
            injection h with h; injection h with h1 h; injection h with h2 h3
            obtain ⟨haa2, haa0⟩ := qsqrt_sound haa
            obtain ⟨hab2, hab0⟩ := qsqrt_sound hab
            obtain ⟨hden2, hden0⟩ := qsqrt_sound hden
            have tt : 0 < tol * tol := mul_pos htol htol
            have hna : tol * tol ≤ a.normSq := by
              have := (small_iff tol a).not.mp ha; exact not_lt.mp this
            have hnb : tol * tol ≤ b.normSq := by
              have := (small_iff tol b).not.mp hb; exact not_lt.mp this
            have haapos : 0 < aa := by
              rcases lt_or_eq_of_le haa0 with h' | h'
              · exact h'
              · rw [← h'] at haa2; simp at haa2; linarith
            have habpos : 0 < ab := by
              rcases lt_or_eq_of_le hab0 with h' | h'
              · exact h'
              · rw [← h'] at hab2; simp at hab2; linarith
            have hdenpos : 0 < den := by
              rcases lt_or_eq_of_le hden0 with h' | h'
              · exact h'
              · rw [← h'] at hden2; simp at hden2; nlinarith
            have ea : aa * aa = a.re * a.re + a.im * a.im := haa2
            have eb : ab * ab = b.re * b.re + b.im * b.im := hab2
            subst h1 h2 h3
            have hane : aa ≠ 0 := ne_of_gt haapos
            have hbne : ab ≠ 0 := ne_of_gt habpos
            have hdne : den ≠ 0 := ne_of_gt hdenpos
            refine ⟨div_nonneg hab0 hden0, div_nonneg haa0 hden0, ?_, ?_, ?_, ?_, ?_, ?_, ?_⟩
            · field_simp; linear_combination -hden2
            · simp [GQ.smul, GQ.conj]; field_simp; linear_combination (-(ab*ab)) * ea + (-(a.re*a.re + a.im*a.im)) * eb
            · simp [GQ.smul, GQ.conj]; field_simp; linear_combination (a.re) * eb
            · simp [GQ.smul, GQ.conj]; field_simp; linear_combination (a.im) * eb
            · intro h0; exfalso
              have : aa = 0 := by
                rcases div_eq_zero_iff.mp h0 with h' | h'
                · exact h'
                · exact absurd h' hdne
              exact hane this
            · intro h0; exfalso
              have : ab = 0 := by
                rcases div_eq_zero_iff.mp h0 with h' | h'
                · exact h'
                · exact absurd h' hdne
              exact hbne this
            · intro h1 h2; simp [GQ.smul, GQ.conj, h1, h2]

@[simp] theorem ofRat_re (r : Rat) : (GQ.ofRat r).re = r := rfl
@[simp] theorem ofRat_im (r : Rat) : (GQ.ofRat r).im = 0 := rfl
@[simp] theorem conj_re (z : GQ) : z.conj.re = z.re := rfl
@[simp] theorem conj_im (z : GQ) : z.conj.im = -z.im := rfl

/-- `G G† = 1` -/
def G2.Unitary (G : G2) : Prop :=
  G.g00 * G.g00.conj + G.g01 * G.g01.conj = 1 ∧ G.g10 * G.g10.conj + G.g11 * G.g11.conj = 1 ∧
  G.g00 * G.g10.conj + G.g01 * G.g11.conj = 0

/-- the promised zero: `which='right'`: second component of `G (a, b)ᵀ`; `which='left'`: first -/
def G2.Zeroes (G : G2) (right : Bool) (a b : GQ) : Prop :=
  if right then G.g10 * a + G.g11 * b = 0 else G.g00 * a + G.g01 * b = 0

/-- the four entries agree (the signed-zero flag is not an entry) -/
def G2.SameEntries (G H : G2) : Prop := G.g00 = H.g00 ∧ G.g01 = H.g01 ∧ G.g10 = H.g10 ∧ G.g11 = H.g11

theorem ph_real_sq {a b : GQ} {c s : Rat} {ph : GQ} (h : CSP a b c s ph) (h0 : ph.im = 0) :
    ph.im = 0 ∧ ph.re * ph.re = 1 := by
  have := h.phn
  rw [h0] at this
  exact ⟨h0, by linarith⟩

theorem assemble_unitary {a b : GQ} {c s : Rat} {ph : GQ} (h : CSP a b c s ph) (right real : Bool)
    (hreal : real = true → ph.im = 0) : (assemble right real c s ph).Unitary := by
  have hu := h.unit
  have hp := h.phn
  cases right <;> cases real <;> simp only [assemble, G2.Unitary, Bool.not_true, Bool.not_false, if_true, if_false,
    Bool.false_eq_true]
  · refine ⟨GQ.ext ?_ ?_, GQ.ext ?_ ?_, GQ.ext ?_ ?_⟩ <;> simp <;> first | ring1 | linear_combination hu + (s*s) * hp | linear_combination hu + (c*c) * hp | linear_combination (-(c*s)) * hp | linear_combination (c*s) * hp
  · obtain ⟨hi, hr⟩ := ph_real_sq h (hreal rfl)
    refine ⟨GQ.ext ?_ ?_, GQ.ext ?_ ?_, GQ.ext ?_ ?_⟩ <;> simp [hi] <;> first | ring1 | linear_combination hu + (s*s) * hr | linear_combination hu + (c*c) * hr | linear_combination (-(c*s)) * hr | linear_combination (c*s) * hr
  · refine ⟨GQ.ext ?_ ?_, GQ.ext ?_ ?_, GQ.ext ?_ ?_⟩ <;> simp <;> first | ring1 | linear_combination hu + (s*s) * hp | linear_combination hu + (c*c) * hp | linear_combination (-(c*s)) * hp | linear_combination (c*s) * hp
  · obtain ⟨hi, hr⟩ := ph_real_sq h (hreal rfl)
    refine ⟨GQ.ext ?_ ?_, GQ.ext ?_ ?_, GQ.ext ?_ ?_⟩ <;> simp [hi] <;> first | ring1 | linear_combination hu + (s*s) * hr | linear_combination hu + (c*c) * hr | linear_combination (-(c*s)) * hr | linear_combination (c*s) * hr

theorem assemble_zeroes {a b : GQ} {c s : Rat} {ph : GQ} (h : CSP a b c s ph) (right real : Bool)
    (hreal : real = true → ph.im = 0) : (assemble right real c s ph).Zeroes right a b := by
  have hu := h.unit
  have hp := h.phn
  have r1 := h.rel_re
  have r2 := h.rel_im
  cases right <;> cases real <;> simp only [assemble, G2.Zeroes, Bool.not_true, Bool.not_false, if_true, if_false,
    Bool.false_eq_true]
  · refine GQ.ext ?_ ?_ <;> simp <;> first | linear_combination r1 | linear_combination r2
  · refine GQ.ext ?_ ?_ <;> simp <;> first | linear_combination r1 | linear_combination r2
  · refine GQ.ext ?_ ?_ <;> simp <;> first | linear_combination r1 | linear_combination r2
  · obtain ⟨hi, hr⟩ := ph_real_sq h (hreal rfl)
    rw [hi] at r1 r2
    refine GQ.ext ?_ ?_ <;> simp [hi]
    · linear_combination (-ph.re) * r1 + (-(s * b.re)) * hr
    · linear_combination (-ph.re) * r2 + (-(s * b.im)) * hr

theorem params_inv {G : G2} {s' c' : Rat} {e : GQ} (h : params G = .ok (s', c', e)) :
    s' = G.g10.re ∧ c' * c' = 1 - s' * s' ∧ 0 ≤ c' ∧
    ((G.g11 = 0 ∧ e = if G.negZero11 then (-1 : GQ) else 1) ∨
     (G.g11 ≠ 0 ∧ ∃ r : Rat, r * r = G.g11.normSq ∧ 0 ≤ r ∧ e = GQ.smul (1 / r) G.g11)) := by
  unfold params at h
  cases hc : qsqrt (1 - G.g10.re * G.g10.re) with
  | none => simp [hc, orIrr, irr, bind, Except.bind] at h
  | some cc =>
    obtain ⟨hc2, hc0⟩ := qsqrt_sound hc
    by_cases h0 : G.g11 = 0
    · simp only [hc, orIrr, bind, Except.bind, h0, if_true] at h
      injection h with h; injection h with h1 h; injection h with h2 h3
      subst h1 h2
      exact ⟨rfl, hc2, hc0, Or.inl ⟨h0, h3.symm⟩⟩
    · cases hr : gabs G.g11 with
      | none => simp [hc, hr, h0, orIrr, irr, bind, Except.bind] at h
      | some r =>
        obtain ⟨hr2, hr0⟩ := qsqrt_sound hr
        simp only [hc, hr, orIrr, bind, Except.bind, h0, if_false] at h
        injection h with h; injection h with h1 h; injection h with h2 h3
        subst h1 h2
        exact ⟨rfl, hc2, hc0, Or.inr ⟨h0, r, hr2, hr0, h3.symm⟩⟩

theorem unit_mul_normSq {ph : GQ} (hp : ph.re * ph.re + ph.im * ph.im = 1) (x : Rat) :
    (ph * GQ.ofRat x).normSq = x * x := by
  simp [GQ.normSq]; linear_combination (x * x) * hp

theorem neg_normSq (z : GQ) : (-z).normSq = z.normSq := by simp [GQ.normSq]

theorem smul_inv_unit (ph : GQ) {x : Rat} (hx : x ≠ 0) : GQ.smul (1 / x) (ph * GQ.ofRat x) = ph := by
  refine GQ.ext ?_ ?_ <;> simp [GQ.smul] <;> field_simp

theorem smul_inv_neg_unit (ph : GQ) {x : Rat} (hx : x ≠ 0) : GQ.smul (1 / x) (-(ph * GQ.ofRat x)) = -ph := by
  refine GQ.ext ?_ ?_ <;> simp [GQ.smul] <;> field_simp

theorem smul_inv_ofRat {x : Rat} (hx : x ≠ 0) : GQ.smul (1 / x) (GQ.ofRat x) = 1 := by
  refine GQ.ext ?_ ?_ <;> simp [GQ.smul] <;> field_simp

theorem ofRat_normSq (x : Rat) : (GQ.ofRat x).normSq = x * x := by simp [GQ.normSq]

theorem normSq_zero_of_eq_zero {z : GQ} (h : z = 0) : z.normSq = 0 := by subst h; simp [GQ.normSq]

theorem sq_zero {x : Rat} (h : x * x = 0) : x = 0 := by
  rcases mul_eq_zero.mp h with h | h <;> exact h

theorem one_mul_gq (z : GQ) : (1 : GQ) * z = z := by refine GQ.ext ?_ ?_ <;> simp
theorem neg_one_mul_gq (z : GQ) : (-1 : GQ) * z = -z := by refine GQ.ext ?_ ?_ <;> simp
theorem neg_neg_gq (z : GQ) : -(-z) = z := by refine GQ.ext ?_ ?_ <;> simp
theorem ofRat_zero : GQ.ofRat 0 = 0 := rfl
theorem mul_zero_gq (z : GQ) : z * 0 = 0 := by refine GQ.ext ?_ ?_ <;> simp
theorem neg_zero_gq : -(0 : GQ) = 0 := by refine GQ.ext ?_ ?_ <;> simp
theorem real_mul_ofRat {ph : GQ} (hi : ph.im = 0) (x : Rat) : ph * GQ.ofRat x = GQ.ofRat (ph.re * x) := by
  refine GQ.ext ?_ ?_ <;> simp [hi]
theorem neg_ofRat (x : Rat) : -(GQ.ofRat x) = GQ.ofRat (-x) := by refine GQ.ext ?_ ?_ <;> simp

/-- `(θ, φ)` — as `(sin θ, cos θ, e^{iφ})` — reproduce the matrix in all four forms and all three
branches, including `sine = 0` in the complex `which='right'` form where it rests on `angle(-0.0) = π` -/
theorem params_assemble {a b : GQ} {c s : Rat} {ph : GQ} (h : CSP a b c s ph) (right real : Bool)
    (hreal : real = true → ph.im = 0) {s' c' : Rat} {e : GQ}
    (hp : params (assemble right real c s ph) = .ok (s', c', e)) :
    (rotationOf s' c' e).SameEntries (assemble right real c s ph) := by
  have hu := h.unit
  have hn := h.phn
  obtain ⟨hs', hc2, hc0, he⟩ := params_inv hp
  cases right <;> cases real <;> simp only [assemble, Bool.not_true, Bool.not_false, if_true, if_false,
    Bool.false_eq_true] at hs' hc2 hc0 he ⊢ <;> simp only [G2.SameEntries, rotationOf]
  · -- left, complex : [[c, -ph s], [s, ph c]]
    have hs : s' = s := by simpa using hs'
    subst hs
    have hc : c' = c := sq_eq_of_nonneg hc0 h.c0 (by linear_combination hc2 - hu)
    subst hc
    rcases he with ⟨h0, he⟩ | ⟨h0, r, hr2, hr0, he⟩
    · have : c' = 0 := sq_zero (by rw [← unit_mul_normSq hn c', normSq_zero_of_eq_zero h0])
      have hph := h.c_zero this
      try simp at he
      subst he hph
      simp [one_mul_gq]
    · have hc_ne : c' ≠ 0 := by
        intro hc; apply h0; rw [hc, ofRat_zero, mul_zero_gq]
      have : r = c' := sq_eq_of_nonneg hr0 h.c0 (by rw [hr2, unit_mul_normSq hn])
      subst this
      rw [smul_inv_unit ph hc_ne] at he
      subst he
      exact ⟨rfl, rfl, rfl, rfl⟩
  · -- left, real : [[c, -ph s], [ph s, c]]
    obtain ⟨hi, hr⟩ := ph_real_sq h (hreal rfl)
    have hs : s' = ph.re * s := by simpa [hi] using hs'
    have hc : c' = c := sq_eq_of_nonneg hc0 h.c0 (by rw [hs] at hc2; linear_combination hc2 - hu - (s * s) * hr)
    subst hc
    have he1 : e = 1 := by
      rcases he with ⟨h0, he⟩ | ⟨h0, r, hr2, hr0, he⟩
      · simpa using he
      · have hc_ne : c' ≠ 0 := by intro hc; apply h0; rw [hc]; rfl
        have : r = c' := sq_eq_of_nonneg hr0 h.c0 (by rw [hr2, ofRat_normSq])
        subst this
        rw [smul_inv_ofRat hc_ne] at he; exact he
    subst he1 hs
    rw [real_mul_ofRat hi]
    simp [one_mul_gq]
  · -- right, complex : [[s, ph c], [c, -ph s]]
    have hs : s' = c := by simpa using hs'
    subst hs
    have hc : c' = s := sq_eq_of_nonneg hc0 h.s0 (by linear_combination hc2 - hu)
    subst hc
    rcases he with ⟨h0, he⟩ | ⟨h0, r, hr2, hr0, he⟩
    · have h0' : (ph * GQ.ofRat c').normSq = 0 := by
        rw [← neg_normSq]; exact normSq_zero_of_eq_zero h0
      have hz : c' = 0 := sq_zero (by rw [← unit_mul_normSq hn c', h0'])
      have hph := h.s_zero hz
      subst hz hph
      simp at he
      subst he
      simp [one_mul_gq, neg_one_mul_gq, neg_neg_gq, ofRat_zero, mul_zero_gq, neg_zero_gq]
    · have hc_ne : c' ≠ 0 := by
        intro hc; apply h0; rw [hc, ofRat_zero, mul_zero_gq, neg_zero_gq]
      have : r = c' := sq_eq_of_nonneg hr0 h.s0 (by rw [hr2, neg_normSq, unit_mul_normSq hn])
      subst this
      rw [smul_inv_neg_unit ph hc_ne] at he
      subst he
      refine ⟨rfl, ?_, rfl, ?_⟩
      · refine GQ.ext ?_ ?_ <;> simp
      · refine GQ.ext ?_ ?_ <;> simp
  · -- right, real : [[s, ph c], [-ph c, s]]
    obtain ⟨hi, hr⟩ := ph_real_sq h (hreal rfl)
    have hs : s' = -(ph.re * c) := by simpa [hi] using hs'
    have hc : c' = s := sq_eq_of_nonneg hc0 h.s0 (by rw [hs] at hc2; linear_combination hc2 - hu - (c * c) * hr)
    subst hc
    have he1 : e = 1 := by
      rcases he with ⟨h0, he⟩ | ⟨h0, r, hr2, hr0, he⟩
      · simpa using he
      · have hc_ne : c' ≠ 0 := by intro hc; apply h0; rw [hc]; rfl
        have : r = c' := sq_eq_of_nonneg hr0 h.s0 (by rw [hr2, ofRat_normSq])
        subst this
        rw [smul_inv_ofRat hc_ne] at he; exact he
    subst he1 hs
    rw [real_mul_ofRat hi]
    simp [one_mul_gq, neg_ofRat]

/-- unfolding `givens_matrix_elements` in the exact regime of the real / complex decision: the matrix is assembled from
`(cosine, sine, phase)` itself (`numpy.real(phase) = phase` when the decision is "real") -/
theorem givensElems_inv {tol : Rat} {a b : GQ} {right : Bool} {G : G2} (hreal : RealExact tol a b)
    (h : givensElems tol a b right = .ok G) :
    ∃ c s ph, cosSinPhase tol a b = .ok (c, s, ph) ∧ (realPhase tol ph = true → ph.im = 0) ∧
      G = assemble right (realPhase tol ph) c s ph := by
  unfold givensElems at h
  cases hC : cosSinPhase tol a b with
  | error e => simp [hC, bind, Except.bind] at h
  | ok t =>
    obtain ⟨c, s, ph⟩ := t
    simp only [hC, bind, Except.bind] at h
    injection h with h
    have hr := hreal c s ph hC
    refine ⟨c, s, ph, rfl, hr, ?_⟩
    rw [← h]
    by_cases hp : realPhase tol ph = true
    · have : GQ.ofRat ph.re = ph := GQ.ext rfl (by simp [hr hp])
      simp [hp, this]
    · simp [hp]

/-- the executable test decides the exact regime of the real / complex decision -/
theorem realExactB_sound {tol : Rat} {a b : GQ} (h : realExactB tol a b = true) : RealExact tol a b := by
  intro c s ph hC hp
  unfold realExactB at h
  rw [hC] at h
  simp only [Bool.or_eq_true, Bool.not_eq_true', decide_eq_true_eq] at h
  rcases h with h | h
  · rw [hp] at h; exact absurd h (by simp)
  · exact h

end C11
end Model
end OFV
