/-
C06 — `LinearQubitOperator._matvec` in matrix form, for the whole operator: entry `beIndex n u` of the
result is `Σ_s ⟨u|A|s⟩ x[beIndex n s]` with `⟨u|A|s⟩ = Σ_terms c · ⟨u|t|s⟩` — the same matrix elements as
`qubit_sparse_sound`.  Uses that a Pauli string permutes the basis states (`padj_term`).  Core Lean only.
-/
import OFV.Proofs.C06Matvec
import OFV.Proofs.C06JW
import OFV.Proofs.C06Expect
import OFV.Proofs.C07Pauli

namespace OFV
namespace Proofs
namespace C06
open OFV.Spec OFV.Spec.C06 OFV.Model OFV.Model.C06
open OFV.Spec.C07 (ampP)
open OFV.Proofs.C07 (padj_term)

/-- one Pauli string: row `u` of the result is the matrix row applied to `x` -/
theorem matvecTerm_matrix (n : Nat) (t : List (Nat × Nat)) (x : Vec)
    (hp : t.Pairwise (fun f g => f.1 < g.1)) (hv : ∀ f ∈ t, f.1 < n ∧ 1 ≤ f.2 ∧ f.2 ≤ 3)
    (hx : x.length = 2 ^ n) (u : Nat) (hu : u < 2 ^ n) :
    (matvecTerm t x).getD (beIndex n u) 0 = sumN (2 ^ n) (fun s => ampP t s u * x.getD (beIndex n s) 0) := by
  have hrev : ∀ f ∈ t.reverse, f.1 < n := fun f hf => (hv f (List.mem_reverse.mp hf)).1
  have hsu : (actPTerm t.reverse u).2 < 2 ^ n := by
    have := (actPTerm_local t.reverse n hrev u).2.2.2
    rwa [Nat.mod_eq_of_lt hu] at this
  have hback : (actPTerm t (actPTerm t.reverse u).2).2 = u := by
    have := padj_term t.reverse u
    rw [List.reverse_reverse] at this
    rw [this]
  have hinj : ∀ s, (actPTerm t s).2 = u → s = (actPTerm t.reverse u).2 := by
    intro s hs
    have := padj_term t s
    rw [hs] at this
    rw [this]
  rw [sumN_single (2 ^ n) (actPTerm t.reverse u).2 _ hsu (fun s _ hne => by
    have : ¬ (actPTerm t s).2 = u := fun h => hne (hinj s h)
    simp only [ampP, this, if_false, GQ.zero_mul'])]
  have h := (matvecTerm_sound n t x hp hv hx).2 (actPTerm t.reverse u).2
  rw [hback] at h
  rw [h]
  simp only [ampP, hback, if_true]

theorem fold_mul_right (a : Op) (A : Term → GQ) (y : GQ) : ∀ i0 : GQ,
    a.foldl (fun acc (e : Term × GQ) => acc + e.2 * (A e.1 * y)) (i0 * y) =
      (a.foldl (fun acc (e : Term × GQ) => acc + e.2 * A e.1) i0) * y := by
  induction a with
  | nil => intro i0; rfl
  | cons e r ih =>
    intro i0
    simp only [List.foldl_cons]
    rw [← ih]
    congr 1
    rw [GQ.add_mul', GQ.mul_assoc']

theorem fold_sumN (a : Op) (N : Nat) (g : Term → Nat → GQ) : ∀ h0 : Nat → GQ,
    a.foldl (fun acc (e : Term × GQ) => acc + e.2 * sumN N (g e.1)) (sumN N h0) =
      sumN N (fun s => a.foldl (fun acc (e : Term × GQ) => acc + e.2 * g e.1 s) (h0 s)) := by
  induction a with
  | nil => intro h0; rfl
  | cons e r ih =>
    intro h0
    simp only [List.foldl_cons]
    rw [sumN_mul_left, ← sumN_add, ih]

/-- **`matvec_sound`, whole operator, matrix form** -/
theorem matvec_matrix (n : Nat) (a : Op) (x : Vec) (hx : x.length = 2 ^ n)
    (ha : ∀ e ∈ a, e.1.Pairwise (fun f g => f.1 < g.1) ∧ ∀ f ∈ e.1, f.1 < n ∧ 1 ≤ f.2 ∧ f.2 ≤ 3)
    (u : Nat) (hu : u < 2 ^ n) :
    (matvec a x).getD (beIndex n u) 0 =
      sumN (2 ^ n) (fun s =>
        (a.foldl (fun acc (e : Term × GQ) => acc + e.2 * ampP e.1 s u) 0) * x.getD (beIndex n s) 0) := by
  have h := (matvec_fold n x hx a ha (x.map fun _ => 0) (by simp [hx]) (beIndex n u)).2
  have hz : (x.map fun _ => (0 : GQ)).getD (beIndex n u) 0 = 0 := by
    simp only [List.getD_eq_getElem?_getD, List.getElem?_map]
    cases x[beIndex n u]? <;> rfl
  rw [hz] at h
  have hm : matvec a x = a.foldl (fun ret (e : Term × GQ) => vadd ret (vscale e.2 (matvecTerm e.1 x))) (x.map fun _ => 0) := rfl
  rw [hm, h]
  have hterm : a.foldl (fun acc (e : Term × GQ) => acc + e.2 * (matvecTerm e.1 x).getD (beIndex n u) 0) 0 =
      a.foldl (fun acc (e : Term × GQ) => acc + e.2 * sumN (2 ^ n) (fun s => ampP e.1 s u * x.getD (beIndex n s) 0)) 0 := by
    have : ∀ (l : Op), (∀ e ∈ l, e ∈ a) → ∀ i0 : GQ,
        l.foldl (fun acc (e : Term × GQ) => acc + e.2 * (matvecTerm e.1 x).getD (beIndex n u) 0) i0 =
        l.foldl (fun acc (e : Term × GQ) => acc + e.2 * sumN (2 ^ n) (fun s => ampP e.1 s u * x.getD (beIndex n s) 0)) i0 := by
      intro l
      induction l with
      | nil => intro _ i0; rfl
      | cons e r ih =>
        intro hl i0
        simp only [List.foldl_cons]
        rw [matvecTerm_matrix n e.1 x (ha e (hl e (by simp))).1 (ha e (hl e (by simp))).2 hx u hu]
        exact ih (fun e' he' => hl e' (by simp [he'])) _
    exact this a (fun e he => he) 0
  rw [hterm]
  have key := fold_sumN a (2 ^ n) (fun t s => ampP t s u * x.getD (beIndex n s) 0) (fun _ => 0)
  rw [sumN_zero (2 ^ n) (fun _ => (0 : GQ)) (fun _ _ => rfl)] at key
  rw [key]
  apply sumN_congr
  intro s _
  have := fold_mul_right a (fun t => ampP t s u) (x.getD (beIndex n s) 0) 0
  rw [GQ.zero_mul'] at this
  exact this

end C06
end Proofs
end OFV
