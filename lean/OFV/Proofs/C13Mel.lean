/-
C13 — the Spec matrix-element functional: `n_i n_j = n_j n_i` on `Spec.actFTerm` (via SpecCAR), which discharges the
symmetry hypothesis of the spinless hubbard_sound theorem.
-/
import OFV.Proofs.SpecCAR
import OFV.Proofs.C13Sound
set_option linter.unusedSimpArgs false
set_option linter.unusedVariables false
namespace OFV.C13
open OFV.Model OFV.Model.C13 OFV.Spec OFV.GQ

theorem negF_negF_stepF (f : Nat × Nat) (x : Option (Nat × Nat)) : negF (negF (stepF f x)) = stepF f x := by
  cases x with
  | none => rfl
  | some p =>
    obtain ⟨k, s⟩ := p
    simp only [stepF]
    cases h : actF f.1 f.2 s with
    | none => rfl
    | some q =>
      obtain ⟨k', s'⟩ := q
      simp only [negF]
      congr 2
      omega

theorem stepF_negF (f : Nat × Nat) (x : Option (Nat × Nat)) : stepF f (negF x) = negF (stepF f x) := by
  cases x with
  | none => rfl
  | some p =>
    obtain ⟨k, s⟩ := p
    simp only [negF, stepF]
    cases h : actF f.1 f.2 s with
    | none => rfl
    | some q =>
      obtain ⟨k', s'⟩ := q
      simp only [negF]
      congr 2
      omega

/-- `n_i n_j = n_j n_i` in the Spec: the two terms act identically on every basis state -/
theorem actFTerm_nn_comm (i j s : Nat) (hij : i ≠ j) :
    actFTerm [(i, 1), (i, 0), (j, 1), (j, 0)] s = actFTerm [(j, 1), (j, 0), (i, 1), (i, 0)] s := by
  simp only [actFTerm_eq, List.foldr_cons, List.foldr_nil]
  generalize (some (0, s) : Option (Nat × Nat)) = x
  rw [car_anticomm i j 0 1 hij, stepF_negF, car_anticomm i j 1 1 hij, negF_negF_stepF,
    car_anticomm i j 0 0 hij, stepF_negF, stepF_negF, car_anticomm i j 1 0 hij, stepF_negF, negF_negF_stepF]

/-- the matrix-element functional of the Spec: `φ_{s,t}(τ) = ⟨t| τ |s⟩` -/
def mel (s t : Nat) (τ : Term) : GQ :=
  match actFTerm τ s with
  | some (k, s') => if s' = t then GQ.sgn k else 0
  | none => 0

theorem mel_nn_comm (s t i j : Nat) :
    mel s t [(i, 1), (i, 0), (j, 1), (j, 0)] = mel s t [(j, 1), (j, 0), (i, 1), (i, 0)] := by
  by_cases hij : i = j
  · rw [hij]
  · unfold mel; rw [actFTerm_nn_comm i j s hij]

/-- **hubbard_sound against the Spec** (spinless `fermi_hubbard`, every lattice size): every matrix element
`⟨t| H |s⟩` of the Model's output, computed with the Spec action of the ladder operators, equals the matrix element of
the docstring Hamiltonian summed over the Spec edge set -/
theorem spinless_hubbard_sound_mel (tol : Rat) (s t : Nat) (a : HubbardArgs) (hphs : a.phs = false)
    (hex : ExactSum tol [] ((List.range (a.x * a.y)).flatMap (spinlessPieces tol a)))
    (ht : a.t.conj = a.t) (hreg : GQ.isSmall tol (-a.t) = true → -a.t = 0) :
    den (mel s t) (spinlessFermiHubbard tol a) =
      gsumL ((Spec.C13.edges Spec.C13.adjNN a.x a.y a.periodic).map fun e =>
        (-a.t) * mel s t [(e.1, 1), (e.2, 0)] + (-a.t) * mel s t [(e.2, 1), (e.1, 0)] +
          a.u * mel s t [(e.1, 1), (e.1, 0), (e.2, 1), (e.2, 0)]) +
      gsumL ((List.range (a.x * a.y)).map fun i => (-a.mu) * mel s t [(i, 1), (i, 0)]) :=
  spinless_hubbard_sound' tol (mel s t) a hphs hex ht hreg (mel_nn_comm s t)

end OFV.C13
