/- The `CommRing GQ` instance lives in the shared module `OFV.Proofs.GQRing`. -/
import OFV.Proofs.GQRing
