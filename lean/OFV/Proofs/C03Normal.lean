/-
C03 — the result of the bubble sort is sorted: every term produced by `noTerm` satisfies the
adjacent-pair order the loop enforces (`okK`); for fermions this is `is_normal_ordered`.
Also: a term that is already in order is returned unchanged (fixed point).
-/
import OFV.Proofs.C02Pred
import OFV.Model.C03

namespace OFV
namespace Proofs
namespace C03
open Model Model.C03
open Proofs.C02 (Adj)

/-- the pair `(left, right)` needs no action in the loop -/
def okK (k : Kind) (l x : Factor) : Prop :=
  ¬ (k.high x.2 = true ∧ k.high l.2 = false) ∧
  (x.2 = l.2 → ¬ (x.1 > l.1) ∧ (k.isFermion = true → x.1 ≠ l.1))

/-- sortedness of the reversed prefix -/
abbrev AdjR (k : Kind) (revP : Term) : Prop := Adj (fun a b => okK k b a) revP

theorem adj_tail {α : Type} {R : α → α → Prop} {a : α} {r : List α} (h : Adj R (a :: r)) : Adj R r := by
  cases r with
  | nil => trivial
  | cons b r => exact h.2

theorem adj_cons {α : Type} {R : α → α → Prop} {a : α} {r : List α}
    (h1 : ∀ b, r.head? = some b → R a b) (h2 : Adj R r) : Adj R (a :: r) := by
  cases r with
  | nil => trivial
  | cons b r => exact ⟨h1 b rfl, h2⟩

theorem adj_head {α : Type} {R : α → α → Prop} {a b : α} {r : List α} (h : Adj R (a :: b :: r)) : R a b := h.1

/-- gluing a reversed sorted prefix onto a sorted list -/
theorem adj_reverse_append {α : Type} (R : α → α → Prop) :
    ∀ (revP : List α) (y : α) (q : List α), Adj (fun a b => R b a) revP →
      (∀ l, revP.head? = some l → R l y) → Adj R (y :: q) → Adj R (revP.reverse ++ y :: q) := by
  intro revP
  induction revP with
  | nil => intro y q _ _ h; simpa using h
  | cons l r ih =>
    intro y q hr hh hq
    have : (l :: r).reverse ++ y :: q = r.reverse ++ l :: y :: q := by simp
    rw [this]
    apply ih l (y :: q) (adj_tail hr)
    · intro l' hl'
      cases r with
      | nil => simp at hl'
      | cons l2 r2 =>
        simp at hl'; subst hl'
        exact hr.1
    · exact ⟨hh l rfl, hq⟩

theorem adj_flip_reverse {α : Type} (R : α → α → Prop) (t : List α) (h : Adj R t) :
    Adj (fun a b => R b a) t.reverse := by
  cases t with
  | nil => simp [Adj]
  | cons a r =>
    rw [List.reverse_cons]
    apply adj_reverse_append (fun a b => R b a) r a []
    · exact adj_tail h
    · intro l hl
      cases r with
      | nil => simp at hl
      | cons b r2 => simp at hl; subst hl; exact adj_head h
    · trivial

/-- all keys of a dictionary satisfy `P` -/
def AllKeys (P : Term → Prop) (a : Op) : Prop := ∀ e ∈ a, P e.1

theorem allKeys_set (P : Term → Prop) (a : Op) (k : Term) (v : GQ) (ha : AllKeys P a) (hk : P k) :
    AllKeys P (Dict.set a k v) := by
  induction a with
  | nil => intro e he; simp [Dict.set] at he; subst he; exact hk
  | cons e r ih =>
    obtain ⟨k', v'⟩ := e
    have hr : AllKeys P r := fun e he => ha e (List.mem_cons_of_mem _ he)
    unfold Dict.set
    split_ifs with h
    · intro e he
      rcases List.mem_cons.1 he with rfl | he
      · exact ha (k', v') (by simp)
      · exact hr e he
    · intro e he
      rcases List.mem_cons.1 he with rfl | he
      · exact ha (k', v') (by simp)
      · exact ih hr e he

theorem allKeys_erase (P : Term → Prop) (a : Op) (k : Term) (ha : AllKeys P a) :
    AllKeys P (Dict.erase a k) := by
  induction a with
  | nil => intro e he; simp [Dict.erase] at he
  | cons e r ih =>
    obtain ⟨k', v'⟩ := e
    have hr : AllKeys P r := fun e he => ha e (List.mem_cons_of_mem _ he)
    unfold Dict.erase
    split_ifs with h
    · exact hr
    · intro e he
      rcases List.mem_cons.1 he with rfl | he
      · exact ha (k', v') (by simp)
      · exact ih hr e he

theorem allKeys_iadd (P : Term → Prop) (tol : Rat) (a b : Op) (ha : AllKeys P a) (hb : AllKeys P b) :
    AllKeys P (iadd tol a b) := by
  unfold iadd
  induction b generalizing a with
  | nil => simpa using ha
  | cons e r ih =>
    obtain ⟨t, c⟩ := e
    rw [List.foldl_cons]
    apply ih
    · simp only
      split_ifs
      · exact allKeys_erase P a t ha
      · exact allKeys_set P a t _ ha (hb (t, c) (by simp))
    · exact fun e he => hb e (List.mem_cons_of_mem _ he)

section inner
variable (tol : Rat) (k : Kind) (rec : Term → GQ → Op) (P : Term → Prop)

def StepNorm (k : Kind) (P : Term → Prop) : Step → Prop
  | .cont pre _ acc => Adj (okK k) pre ∧ AllKeys P acc
  | .ret acc => AllKeys P acc

/-- once the whole prefix is in order nothing moves any more -/
theorem inner_settled :
    ∀ (revP : Term) (x : Factor) (passed S : Term) (c : GQ) (acc : Op), AdjR k revP →
      (∀ l, revP.head? = some l → okK k l x) →
      inner tol k rec revP x passed S c acc = .cont (revP.reverse ++ x :: passed) c acc := by
  intro revP
  induction revP with
  | nil => intro x passed S c acc _ _; simp [inner]
  | cons l r ih =>
    intro x passed S c acc hr hh
    obtain ⟨h1, h2⟩ := hh l rfl
    unfold inner
    have c1 : (k.high x.2 && !k.high l.2) = false := by
      cases hx : k.high x.2 <;> cases hl : k.high l.2 <;> simp_all
    simp only [c1, Bool.false_eq_true, if_false]
    have next : inner tol k rec r l (x :: passed) S c acc = .cont ((l :: r).reverse ++ x :: passed) c acc := by
      rw [ih l (x :: passed) S c acc (adj_tail hr)]
      · simp
      · intro l' hl'
        cases r with
        | nil => simp at hl'
        | cons l2 r2 => simp at hl'; subst hl'; exact hr.1
    by_cases ht : x.2 = l.2
    · obtain ⟨h3, h4⟩ := h2 ht
      have c2 : (k.isFermion && x.1 == l.1) = false := by
        cases hf : k.isFermion
        · simp
        · simpa using h4 hf
      simp only [ht, if_true, c2, Bool.false_eq_true, if_false, h3]
      exact next
    · simp only [ht, if_false]
      exact next

theorem inner_norm (hrec : ∀ t c, AllKeys P (rec t c)) :
    ∀ (revP : Term) (x : Factor) (passed S : Term) (c : GQ) (acc : Op), AdjR k revP →
      Adj (okK k) (x :: passed) →
      (∀ l p, revP.head? = some l → passed.head? = some p → okK k l p) →
      AllKeys P acc →
      StepNorm k P (inner tol k rec revP x passed S c acc) := by
  intro revP
  induction revP with
  | nil =>
    intro x passed S c acc _ hx _ ha
    simp only [inner, StepNorm]
    exact ⟨hx, ha⟩
  | cons l r ih =>
    intro x passed S c acc hr hx hj ha
    have hr' : AdjR k r := adj_tail hr
    have hjr : ∀ l', r.head? = some l' → okK k l' l := by
      intro l' hl'
      cases r with
      | nil => simp at hl'
      | cons l2 r2 => simp at hl'; subst hl'; exact hr.1
    -- after a swap: x left of l
    have swapped : ∀ (c' : GQ) (acc' : Op), okK k x l → AllKeys P acc' →
        StepNorm k P (inner tol k rec r x (l :: passed) S c' acc') := by
      intro c' acc' hxl ha'
      apply ih x (l :: passed) S c' acc' hr' _ _ ha'
      · refine ⟨hxl, ?_⟩
        exact adj_cons (fun p hp => hj l p rfl hp) (adj_tail hx)
      · intro l' p hl' hp
        simp at hp; subst hp
        exact hjr l' hl'
    -- no swap: the prefix is in order, nothing moves any more
    have settled : okK k l x → StepNorm k P (inner tol k rec r l (x :: passed) S c acc) := by
      intro hlx
      rw [inner_settled tol k rec r l (x :: passed) S c acc hr' hjr]
      refine ⟨?_, ha⟩
      exact adj_reverse_append (okK k) r l (x :: passed) hr' hjr ⟨hlx, hx⟩
    unfold inner
    by_cases h1 : (k.high x.2 && !k.high l.2) = true
    · simp only [h1, if_true]
      have hx1 : k.high x.2 = true := by cases hh : k.high x.2 <;> simp [hh] at h1 ⊢
      have hl1 : k.high l.2 = false := by cases hh : k.high l.2 <;> simp [hh, hx1] at h1 ⊢
      have hxl : okK k x l := by
        refine ⟨fun h => by simp [hx1] at h, fun h => ?_⟩
        rw [h] at hl1; rw [hl1] at hx1; cases hx1
      apply swapped _ _ hxl
      split_ifs
      · exact allKeys_iadd P tol _ _ ha (hrec _ _)
      · exact ha
    · simp only [h1, Bool.false_eq_true, if_false]
      have nh : ¬ (k.high x.2 = true ∧ k.high l.2 = false) := by
        intro ⟨a, b⟩; simp [a, b] at h1
      by_cases ht : x.2 = l.2
      · simp only [ht, if_true]
        by_cases h3 : (k.isFermion && x.1 == l.1) = true
        · simp only [h3, if_true, StepNorm]; exact ha
        · simp only [h3, Bool.false_eq_true, if_false]
          by_cases h4 : x.1 > l.1
          · simp only [h4, if_true]
            apply swapped _ _ _ ha
            refine ⟨fun ⟨a, b⟩ => ?_, fun _ => ⟨by omega, fun _ => by omega⟩⟩
            rw [ht] at b; rw [b] at a; cases a
          · simp only [h4, if_false]
            apply settled
            refine ⟨nh, fun _ => ⟨h4, fun hf => ?_⟩⟩
            intro he
            simp [hf, he] at h3
      · simp only [ht, if_false]
        exact settled ⟨nh, fun h => absurd h ht⟩

end inner

section outer
variable (tol : Rat) (k : Kind) (rec : Term → GQ → Op) (P : Term → Prop)

theorem outer_norm (hrec : ∀ t c, AllKeys P (rec t c))
    (hfin : ∀ t, Adj (okK k) t → P (simplify k.cls t).2) :
    ∀ (rest done : Term) (c : GQ) (acc : Op), Adj (okK k) done → AllKeys P acc →
      AllKeys P (outer tol k rec done rest c acc) := by
  intro rest
  induction rest with
  | nil =>
    intro done c acc hd ha
    unfold outer
    apply allKeys_iadd P tol _ _ ha
    intro e he
    simp only [mk, List.mem_singleton] at he
    subst he
    exact hfin done hd
  | cons x S ih =>
    intro done c acc hd ha
    have hs := inner_norm tol k rec P hrec done.reverse x [] S c acc
      (adj_flip_reverse (okK k) done hd) trivial (by intro l p _ hp; simp at hp) ha
    unfold outer
    cases hstep : inner tol k rec done.reverse x [] S c acc with
    | ret acc' => rw [hstep] at hs; exact hs
    | cont pre c' acc' =>
      rw [hstep] at hs
      exact ih pre c' acc' hs.1 hs.2

theorem noTermFuel_norm (hfin : ∀ t, Adj (okK k) t → P (simplify k.cls t).2) :
    ∀ (fuel : Nat) (t : Term) (c : GQ), AllKeys P (noTermFuel tol k fuel t c) := by
  intro fuel
  induction fuel with
  | zero => intro t c e he; simp [noTermFuel] at he
  | succ fuel ih =>
    intro t c
    unfold noTermFuel
    exact outer_norm tol k _ P ih hfin t [] c [] trivial (fun e he => by simp at he)

theorem normalOrdered_norm (hfin : ∀ t, Adj (okK k) t → P (simplify k.cls t).2) (a : Op) :
    AllKeys P (normalOrdered tol k a) := by
  unfold normalOrdered
  have : ∀ (acc : Op), AllKeys P acc →
      AllKeys P (a.foldl (fun acc x => iadd tol acc (noTerm tol k x.1 x.2)) acc) := by
    induction a with
    | nil => intro acc h; simpa using h
    | cons e r ih =>
      intro acc h
      rw [List.foldl_cons]
      exact ih _ (allKeys_iadd P tol _ _ h (noTermFuel_norm tol k P hfin _ _ _))
  exact this [] (fun e he => by simp at he)

/-- a term that is already in order: the loops do nothing -/
theorem outer_fixed :
    ∀ (rest revDone : Term) (c : GQ) (acc : Op), AdjR k revDone →
      (∀ l x, revDone.head? = some l → rest.head? = some x → okK k l x) → Adj (okK k) rest →
      outer tol k rec revDone.reverse rest c acc = iadd tol acc (mk k.cls (revDone.reverse ++ rest) c) := by
  intro rest
  induction rest with
  | nil => intro revDone c acc _ _ _; simp [outer]
  | cons x S ih =>
    intro revDone c acc hr hj hs
    unfold outer
    rw [List.reverse_reverse, inner_settled tol k rec revDone x [] S c acc hr (fun l hl => hj l x hl rfl)]
    simp only
    have e : revDone.reverse ++ [x] = (x :: revDone).reverse := by simp
    rw [e, ih (x :: revDone) c acc (adj_cons (fun b hb => hj b x hb rfl) hr) _ (adj_tail hs)]
    · simp
    · intro l y hl hy
      simp at hl; subst hl
      cases S with
      | nil => simp at hy
      | cons y' S' => simp at hy; subst hy; exact hs.1

end outer

theorem okK_fermion_not_bad (l r : Factor) (h : okK .fermion l r) :
    Model.C02.fermionBadPair l r = false := by
  obtain ⟨h1, h2⟩ := h
  unfold Model.C02.fermionBadPair
  simp only [Kind.high, Kind.isFermion] at h1 h2
  rw [Bool.or_eq_false_iff]
  constructor
  · cases hr : (r.2 != 0) <;> cases hl : (l.2 == 0) <;> simp_all
  · by_cases ht : r.2 = l.2
    · obtain ⟨a, b⟩ := h2 ht
      have : r.1 < l.1 := by have := b trivial; omega
      simp [ht]; omega
    · simp [ht]

theorem not_bad_okK_fermion (l r : Factor) (h : Model.C02.fermionBadPair l r = false) : okK .fermion l r := by
  unfold Model.C02.fermionBadPair at h
  rw [Bool.or_eq_false_iff] at h
  obtain ⟨h1, h2⟩ := h
  refine ⟨?_, ?_⟩
  · simp only [Kind.high]
    intro ⟨a, b⟩
    simp_all
  · intro ht
    simp [ht] at h2
    exact ⟨by omega, fun _ => by omega⟩

end C03
end Proofs
end OFV
