/- C03 — canonicity for fermions, part 3: applied to the results of `normalOrdered`. -/
import OFV.Proofs.C03Canon2
import OFV.Proofs.C03Valid
import OFV.Proofs.C03Normal

namespace OFV
namespace Proofs
namespace C03
open Spec Model Model.C03

section wf
variable {κ α : Type} [DecidableEq κ]

theorem keys_set (d : List (κ × α)) (k : κ) (v : α) :
    Dict.keys (Dict.set d k v) = if k ∈ Dict.keys d then Dict.keys d else Dict.keys d ++ [k] := by
  induction d with
  | nil => simp [Dict.set, Dict.keys]
  | cons e r ih =>
    obtain ⟨k', v'⟩ := e
    by_cases h : k' = k
    · subst h; simp [Dict.set, Dict.keys]
    · have h' : ¬ k = k' := fun e => h e.symm
      simp only [Dict.set, h, if_false, Dict.keys, List.map_cons, List.mem_cons, h', false_or] at ih ⊢
      by_cases hk : k ∈ List.map (fun x => x.1) r
      · simp only [hk, if_true] at ih ⊢; rw [ih]
      · simp only [hk, if_false] at ih ⊢; rw [ih]; simp

theorem wf_set (d : List (κ × α)) (k : κ) (v : α) (h : Dict.WF d) : Dict.WF (Dict.set d k v) := by
  unfold Dict.WF at *
  rw [keys_set]
  split_ifs with hk
  · exact h
  · exact List.Nodup.append h (List.nodup_singleton k) (by
      intro x hx hx'; simp at hx'; subst hx'; exact hk hx)

theorem keys_erase_sublist (d : List (κ × α)) (k : κ) : (Dict.keys (Dict.erase d k)).Sublist (Dict.keys d) := by
  induction d with
  | nil => simp [Dict.erase, Dict.keys]
  | cons e r ih =>
    obtain ⟨k', v'⟩ := e
    by_cases h : k' = k
    · simp [Dict.erase, Dict.keys, h]
    · simp only [Dict.erase, h, if_false, Dict.keys, List.map_cons]
      exact List.Sublist.cons_cons _ ih

theorem wf_erase (d : List (κ × α)) (k : κ) (h : Dict.WF d) : Dict.WF (Dict.erase d k) := by
  unfold Dict.WF at *
  exact List.Nodup.sublist (keys_erase_sublist d k) h

end wf

theorem wf_iadd (tol : Rat) (a b : Op) (h : Dict.WF a) : Dict.WF (iadd tol a b) := by
  unfold iadd
  induction b generalizing a with
  | nil => simpa using h
  | cons e r ih =>
    rw [List.foldl_cons]
    apply ih
    obtain ⟨t, c⟩ := e
    simp only
    split_ifs
    · exact wf_erase a t h
    · exact wf_set a t _ h

theorem wf_normalOrdered (tol : Rat) (k : Kind) (a : Op) : Dict.WF (normalOrdered tol k a) := by
  unfold normalOrdered
  have : ∀ (acc : Op), Dict.WF acc →
      Dict.WF (a.foldl (fun acc x => iadd tol acc (noTerm tol k x.1 x.2)) acc) := by
    induction a with
    | nil => intro acc h; simpa using h
    | cons e r ih => intro acc h; rw [List.foldl_cons]; exact ih _ (wf_iadd tol _ _ h)
  exact this [] (by simp [Dict.WF, Dict.keys])

/-- the matrix elements of a WF dictionary depend only on its coefficient function -/
theorem melF_congr (X Y : Op) (wx : Dict.WF X) (wy : Dict.WF Y)
    (h : ∀ t, Dict.getD X t 0 = Dict.getD Y t 0) (out s : Nat) : melF X out s = melF Y out s := by
  classical
  let L : List Term := Dict.keys X ++ (Dict.keys Y).filter (fun t => t ∉ Dict.keys X)
  have hLn : L.Nodup := by
    apply List.Nodup.append wx (List.Nodup.filter _ wy)
    intro t ht1 ht2
    have := (List.mem_filter.1 ht2).2
    simp at this
    exact this ht1
  have hLX : ∀ e ∈ X, e.1 ∈ L := fun e he => List.mem_append_left _ (List.mem_map.2 ⟨e, he, rfl⟩)
  have hLY : ∀ e ∈ Y, e.1 ∈ L := by
    intro e he
    have hk : e.1 ∈ Dict.keys Y := List.mem_map.2 ⟨e, he, rfl⟩
    by_cases hA : e.1 ∈ Dict.keys X
    · exact List.mem_append_left _ hA
    · exact List.mem_append_right _ (List.mem_filter.2 ⟨hk, by simpa using hA⟩)
  rw [melF_eq_sum, melF_eq_sum]
  have cX : (X.map (contrib s out)) = X.map (fun e => e.2 * mel1 s out e.1) :=
    List.map_congr_left (fun e _ => contrib_eq s out e)
  have cY : (Y.map (contrib s out)) = Y.map (fun e => e.2 * mel1 s out e.1) :=
    List.map_congr_left (fun e _ => contrib_eq s out e)
  rw [cX, cY, ← sum_getD X wx L hLn hLX, ← sum_getD Y wy L hLn hLY]
  congr 1
  apply List.map_congr_left
  intro t _
  rw [h t]

end C03
end Proofs
end OFV
