/- C19 — `preprocess_lcu_coefficients_for_reversible_sampling`: discretisation + alias table. -/
import OFV.Proofs.C19Discretize

namespace OFV.Proofs.C19L
open OFV.Model.C19 OFV.Proofs.C19 OFV.Proofs.C19D List

theorem preprocess_ok (coeffs : List ℚ) (eps : ℚ) (hne : coeffs ≠ []) (hpos : ∀ p ∈ coeffs, 0 ≤ p)
    (htot : 0 < coeffs.sum) (heps : 0 < eps) :
    ∃ alt keep mu, preprocessLCU coeffs eps = .ok (alt, keep, mu) ∧
      Spec.C19.lcuOk coeffs eps alt keep mu = true := by
  obtain ⟨numers, denom, mu, h1, h2⟩ := discretize_ok coeffs eps hne hpos htot heps
  simp only [Spec.C19.discretizeOk, Bool.and_eq_true, beq_iff_eq, all_eq_true, decide_eq_true_eq,
    rsum_eq_sum] at h2
  obtain ⟨⟨⟨⟨hlen, hden⟩, hsum⟩, hnn⟩, herr⟩ := h2
  have hn : coeffs.length ≠ 0 := fun e => hne (length_eq_zero_iff.mp e)
  have hnumne : numers ≠ [] := fun e => hn (by rw [← hlen, e]; rfl)
  have hdiv : Spec.C19.isum numers / (numers.length : ℤ) = (2 ^ mu : ℕ) := by
    rw [hsum, hden, hlen]; push_cast
    rw [Int.mul_ediv_cancel_left]; exact_mod_cast hn
  have hmul : Spec.C19.isum numers = (numers.length : ℤ) * (Spec.C19.isum numers / (numers.length : ℤ)) := by
    rw [hdiv, hsum, hden, hlen]; push_cast; ring
  obtain ⟨alt, keep, h3, h4⟩ := roulette_ok numers hnumne hnn hmul
  refine ⟨alt, keep, mu, ?_, ?_⟩
  · simp [preprocessLCU, h1, h3]
  · have hdiv' : Spec.C19.isum numers / (coeffs.length : ℤ) = (2 ^ mu : ℕ) := by rw [← hlen]; exact hdiv
    simp only [Spec.C19.aliasOk, Bool.and_eq_true, beq_iff_eq, all_eq_true, decide_eq_true_eq,
      mem_range, hlen, hdiv'] at h4
    obtain ⟨⟨⟨⟨ha, hk⟩, hab⟩, hkb⟩, hdist⟩ := h4
    simp only [Spec.C19.lcuOk, Bool.and_eq_true, beq_iff_eq, all_eq_true, decide_eq_true_eq,
      mem_range, rsum_eq_sum]
    refine ⟨⟨⟨⟨ha, hk⟩, hab⟩, ?_⟩, ?_⟩
    · intro k hk'; have := hkb k hk'; push_cast at this ⊢; exact this
    · intro k hk'
      have hd := hdist k hk'
      have hz : (numers.getD k 0, coeffs.getD k 0) ∈ numers.zip coeffs := by
        rw [mem_iff_getElem]
        refine ⟨k, by simp [hlen]; exact hk', ?_⟩
        simp [getD_eq_getElem?_getD, getElem?_eq_getElem, hk', hlen]
      have he := herr _ hz
      simp only at he
      have : ((Spec.C19.twoStageWeight ((2 ^ mu : ℕ) : ℤ) alt keep k : ℤ) : ℚ) / ((coeffs.length : ℚ) * (((2 ^ mu : ℕ) : ℤ) : ℚ))
          = (numers.getD k 0 : ℚ) / (denom : ℚ) := by
        rw [hd, hden]; push_cast; ring
      have e2 : ((2 : ℤ) ^ mu) = (((2 ^ mu : ℕ) : ℤ)) := by push_cast; rfl
      rw [e2, this]; exact he

end OFV.Proofs.C19L
