/-
Fermionic side of the interaction-operator theorem: adjacent ladder operators on different modes anticommute
(any position, any types), the monomials of the Bravyi-Kitaev loops in normal order, encoded actions as
fermionic matrix elements.
-/
import OFV.Proofs.C05Iop5

set_option linter.unusedSimpArgs false
set_option linter.unusedVariables false

namespace OFV
namespace BK
open Model Model.C05 Spec Sem

def bumpO (o : Option (Nat × Nat)) : Option (Nat × Nat) :=
  match o with
  | none => none
  | some (k, m) => some ((k + 1) % 2, m)

/-- two ladder operators (creation or annihilation) on different modes anticommute on basis states -/
theorem two_swap (p q a b m : Nat) (h : p ≠ q) :
    (match actF q b m with
      | none => (none : Option (Nat × Nat))
      | some (k2, m2) => match actF p a m2 with
        | none => none
        | some (k1, m1) => some ((k2 + k1) % 2, m1))
    = bumpO (match actF p a m with
      | none => none
      | some (k2, m2) => match actF q b m2 with
        | none => none
        | some (k1, m1) => some ((k2 + k1) % 2, m1)) := by
  have b1 : (m ^^^ (1 <<< q)).testBit p = m.testBit p := testBit_xflip_ne m q p (Ne.symm h)
  have b2 : (m ^^^ (1 <<< p)).testBit q = m.testBit q := testBit_xflip_ne m p q h
  have e1 := cb_xflip_parity m q p (Ne.symm h)
  have e2 := cb_xflip_parity m p q h
  unfold actF bumpO
  by_cases hq : ((b == 1) == m.testBit q) = true <;> by_cases hp : ((a == 1) == m.testBit p) = true <;>
    simp only [hq, hp, b1, b2, if_true, if_false, Bool.false_eq_true]
  rw [xflip_comm m q p]
  congr 2
  by_cases hlt : p < q
  · have : ¬ q < p := by omega
    simp only [hlt, this, if_true, if_false] at e1 e2; omega
  · have : q < p := by omega
    simp only [hlt, this, if_true, if_false] at e1 e2; omega

/-- one step of `actFTerm` -/
def stepF (f : Nat × Nat) (acc : Option (Nat × Nat)) : Option (Nat × Nat) :=
  match acc with
  | none => none
  | some (k, s') => match actF f.1 f.2 s' with
    | none => none
    | some (k', s'') => some ((k + k') % 2, s'')

theorem actFTerm_cons (f : Nat × Nat) (t : List (Nat × Nat)) (m : Nat) :
    actFTerm (f :: t) m = stepF f (actFTerm t m) := rfl

theorem stepF_bump (f : Nat × Nat) (o : Option (Nat × Nat)) : stepF f (bumpO o) = bumpO (stepF f o) := by
  cases o with
  | none => rfl
  | some km =>
    obtain ⟨k, m⟩ := km
    simp only [bumpO, stepF]
    cases actF f.1 f.2 m with
    | none => rfl
    | some km2 => obtain ⟨k2, m2⟩ := km2; simp only; congr 2; omega

theorem stepF_swap (g1 g2 : Nat × Nat) (h : g1.1 ≠ g2.1) (o : Option (Nat × Nat)) :
    stepF g1 (stepF g2 o) = bumpO (stepF g2 (stepF g1 o)) := by
  cases o with
  | none => rfl
  | some km =>
    obtain ⟨k, m⟩ := km
    have := two_swap g1.1 g2.1 g1.2 g2.2 m h
    simp only [stepF]
    unfold bumpO at this ⊢
    cases h2 : actF g2.1 g2.2 m with
    | none =>
      simp only [h2] at this ⊢
      cases h1 : actF g1.1 g1.2 m with
      | none => rfl
      | some km1 =>
        obtain ⟨k1, m1⟩ := km1
        simp only [h1] at this ⊢
        cases h3 : actF g2.1 g2.2 m1 with
        | none => rfl
        | some km3 => obtain ⟨k3, m3⟩ := km3; simp [h3] at this
    | some km2 =>
      obtain ⟨k2, m2⟩ := km2
      simp only [h2] at this ⊢
      cases h1 : actF g1.1 g1.2 m with
      | none =>
        simp only [h1] at this ⊢
        cases h3 : actF g1.1 g1.2 m2 with
        | none => rfl
        | some km3 => obtain ⟨k3, m3⟩ := km3; simp [h3] at this
      | some km1 =>
        obtain ⟨k1, m1⟩ := km1
        simp only [h1] at this ⊢
        cases h3 : actF g1.1 g1.2 m2 with
        | none =>
          simp only [h3] at this ⊢
          cases h4 : actF g2.1 g2.2 m1 with
          | none => rfl
          | some km4 => obtain ⟨k4, m4⟩ := km4; simp [h4] at this
        | some km3 =>
          obtain ⟨k3, m3⟩ := km3
          simp only [h3] at this ⊢
          cases h4 : actF g2.1 g2.2 m1 with
          | none => simp [h4] at this
          | some km4 =>
            obtain ⟨k4, m4⟩ := km4
            simp only [h4, Option.some.injEq, Prod.mk.injEq] at this ⊢
            obtain ⟨e1, e2⟩ := this
            exact ⟨by omega, e2⟩

/-- **adjacent ladder operators on different modes anticommute anywhere inside a monomial** -/
theorem actFTerm_swap (pre post : List (Nat × Nat)) (g1 g2 : Nat × Nat) (h : g1.1 ≠ g2.1) (m : Nat) :
    actFTerm (pre ++ g1 :: g2 :: post) m = bumpO (actFTerm (pre ++ g2 :: g1 :: post) m) := by
  induction pre with
  | nil =>
    simp only [List.nil_append, actFTerm_cons]
    exact stepF_swap g1 g2 h _
  | cons f pre ih =>
    simp only [List.cons_append, actFTerm_cons, ih, stepF_bump]

theorem tC_swap (pre post : List (Nat × Nat)) (g1 g2 : Nat × Nat) (h : g1.1 ≠ g2.1) (m x : Nat) :
    termCoef .fermion (pre ++ g1 :: g2 :: post) [m] [x] = -termCoef .fermion (pre ++ g2 :: g1 :: post) [m] [x] := by
  rw [termCoef_fermion, termCoef_fermion, actFTerm_swap pre post g1 g2 h]
  cases actFTerm (pre ++ g2 :: g1 :: post) m with
  | none => simp [bumpO]
  | some km =>
    obtain ⟨k, m'⟩ := km
    simp only [bumpO]
    split
    · rw [show (k + 1) % 2 = (k + 1) % 2 from rfl, ← sgn_succ]; apply sgn_congr; omega
    · simp

/-- encoded action against "target = `enc s'`" is the fermionic matrix element -/
theorem encActS_tC (n : Nat) (t : List (Nat × Nat)) (ht : ValidT n t) (s s' : Nat) :
    encActS n t s (Vx n (Spec.C05.enc .bk n s')) = termCoef .fermion t [s] [s'] := by
  unfold encActS
  rw [actTermS_actBK n t ht s, termCoef_fermion]
  cases actFTerm t s with
  | none => rfl
  | some km =>
    obtain ⟨k, s''⟩ := km
    simp only [Vx, δ]
    by_cases h : s'' = s'
    · subst h; simp
    · have : ¬ Spec.C05.enc .bk n s'' = Spec.C05.enc .bk n s' := fun he => h (enc_injective n _ _ he)
      simp [h, this]

end BK
end OFV
