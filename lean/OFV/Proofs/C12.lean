/- Helper lemmas for C12 (energies: list arithmetic). -/
import OFV.Model.C12
import OFV.Spec.C12
import Mathlib.Tactic.Linarith
import Mathlib.Tactic.Ring
import Mathlib.Algebra.Order.Field.Rat

namespace OFV
namespace Model
namespace C12
open Spec.C12

/-- sum of the negative entries (`groundEnergy` without the constant) -/
def negSum (es : List Rat) : Rat := (es.filter (· < 0)).sum

theorem negSum_cons (e : Rat) (es : List Rat) :
    negSum (e :: es) = (if e < 0 then e else 0) + negSum es := by
  unfold negSum
  by_cases h : e < 0 <;> simp [List.filter, h]

theorem negSum_le_subsetSum : ∀ (es : List Rat) (x : Rat), x ∈ subsetSums es → negSum es ≤ x := by
  intro es
  induction es with
  | nil => intro x hx; simp [subsetSums] at hx; subst hx; simp [negSum]
  | cons e es ih =>
    intro x hx
    rw [negSum_cons]
    simp only [subsetSums, List.mem_append, List.mem_map] at hx
    rcases hx with hx | ⟨y, hy, rfl⟩
    · have := ih x hx
      by_cases h : e < 0 <;> simp [h] <;> linarith
    · have := ih y hy
      by_cases h : e < 0 <;> simp [h] <;> linarith

theorem negSum_mem_subsetSums : ∀ (es : List Rat), negSum es ∈ subsetSums es := by
  intro es
  induction es with
  | nil => simp [subsetSums, negSum]
  | cons e es ih =>
    rw [negSum_cons]
    simp only [subsetSums, List.mem_append, List.mem_map]
    by_cases h : e < 0
    · right; exact ⟨negSum es, ih, by simp [h]; ring⟩
    · left; simpa [h] using ih

/-- subset sums are exactly the sums of sublists -/
theorem mem_subsetSums : ∀ (es : List Rat) (x : Rat),
    x ∈ subsetSums es ↔ ∃ S : List Rat, List.Sublist S es ∧ x = S.sum := by
  intro es
  induction es with
  | nil =>
    intro x
    simp [subsetSums]
  | cons e es ih =>
    intro x
    simp only [subsetSums, List.mem_append, List.mem_map]
    constructor
    · rintro (hx | ⟨y, hy, rfl⟩)
      · obtain ⟨S, hS, rfl⟩ := (ih x).1 hx
        exact ⟨S, List.Sublist.cons _ hS, rfl⟩
      · obtain ⟨S, hS, rfl⟩ := (ih y).1 hy
        exact ⟨e :: S, List.Sublist.cons_cons _ hS, by simp; ring⟩
    · rintro ⟨S, hS, rfl⟩
      cases hS with
      | cons _ h => left; exact (ih _).2 ⟨S, h, rfl⟩
      | cons_cons _ h =>
        rename_i S'
        right; exact ⟨S'.sum, (ih _).2 ⟨S', h, rfl⟩, by simp; ring⟩

theorem listMin_le : ∀ (l : List Rat) (x : Rat), x ∈ l → listMin l ≤ x := by
  intro l
  induction l with
  | nil => intro x hx; simp at hx
  | cons a t ih =>
    intro x hx
    cases t with
    | nil => simp at hx; subst hx; simp [listMin]
    | cons b t' =>
      simp only [listMin]
      rcases List.mem_cons.mp hx with rfl | hx
      · split <;> linarith
      · have := ih x hx
        split <;> linarith

theorem listMin_mem : ∀ (l : List Rat), l ≠ [] → listMin l ∈ l := by
  intro l
  induction l with
  | nil => intro h; exact absurd rfl h
  | cons a t ih =>
    intro _
    cases t with
    | nil => simp [listMin]
    | cons b t' =>
      simp only [listMin]
      split
      · exact List.mem_cons_self
      · exact List.mem_cons_of_mem _ (ih (by simp))

theorem filter_lt_pos {b e : Rat} {es : List Rat} (h : e < b) :
    (e :: es).filter (· < b) = e :: es.filter (· < b) := by simp [List.filter, h]

theorem filter_lt_neg {b e : Rat} {es : List Rat} (h : ¬ e < b) :
    (e :: es).filter (· < b) = es.filter (· < b) := by simp [List.filter, h]

/-- `whereLt` lists the positions of the entries below the bound: mapping back gives the filter -/
theorem whereLt_map (b : Rat) : ∀ (es pre : List Rat),
    ((whereLt b es pre.length).map fun j => (pre ++ es).getD j 0) = es.filter (· < b) := by
  intro es
  induction es with
  | nil => intro pre; simp [whereLt]
  | cons e es ih =>
    intro pre
    have h1 : pre ++ e :: es = (pre ++ [e]) ++ es := by simp
    have h2 : (pre ++ [e]).length = pre.length + 1 := by simp
    have ih' := ih (pre ++ [e])
    rw [h2, ← h1] at ih'
    unfold whereLt
    by_cases h : e < b
    · simp only [h, if_true, List.map_cons, filter_lt_pos h]
      rw [ih']
      congr 1
      simp [List.getD_eq_getElem?_getD]
    · simp only [h, if_false]
      rw [ih', filter_lt_neg h]

theorem whereLt_mem (b : Rat) : ∀ (es : List Rat) (off j : Nat),
    j ∈ whereLt b es off ↔ off ≤ j ∧ j < off + es.length ∧ es.getD (j - off) 0 < b := by
  intro es
  induction es with
  | nil => intro off j; simp [whereLt]; omega
  | cons e es ih =>
    intro off j
    unfold whereLt
    by_cases h : e < b
    · simp only [h, if_true, List.mem_cons, ih, List.length_cons]
      constructor
      · rintro (rfl | ⟨h1, h2, h3⟩)
        · exact ⟨Nat.le_refl _, by omega, by simpa using h⟩
        · refine ⟨by omega, by omega, ?_⟩
          have : j - off = (j - (off + 1)) + 1 := by omega
          rw [this]; simpa using h3
      · rintro ⟨h1, h2, h3⟩
        by_cases hj : j = off
        · left; exact hj
        · right
          refine ⟨by omega, by omega, ?_⟩
          have : j - off = (j - (off + 1)) + 1 := by omega
          rw [this] at h3; simpa using h3
    · simp only [h, if_false, ih, List.length_cons]
      constructor
      · rintro ⟨h1, h2, h3⟩
        refine ⟨by omega, by omega, ?_⟩
        have : j - off = (j - (off + 1)) + 1 := by omega
        rw [this]; simpa using h3
      · rintro ⟨h1, h2, h3⟩
        have hj : j ≠ off := by
          intro hj; subst hj; simp at h3; exact h h3
        refine ⟨by omega, by omega, ?_⟩
        have : j - off = (j - (off + 1)) + 1 := by omega
        rw [this] at h3; simpa using h3

theorem filter_sum_bounds (tol : Rat) (htol : 0 ≤ tol) : ∀ es : List Rat,
    negSum es ≤ (es.filter (· < -tol)).sum ∧ (es.filter (· < -tol)).sum ≤ negSum es + tol * es.length := by
  intro es
  induction es with
  | nil => simp [negSum]
  | cons e es ih =>
    rw [negSum_cons]
    obtain ⟨h1, h2⟩ := ih
    have hl : ((e :: es).length : Rat) = (es.length : Rat) + 1 := by simp
    rw [hl]
    by_cases ha : e < -tol
    · have hb : e < 0 := by linarith
      rw [filter_lt_pos ha]
      simp only [hb, if_true, List.sum_cons]
      constructor <;> nlinarith
    · rw [filter_lt_neg ha]
      by_cases hb : e < 0
      · simp only [hb, if_true]
        constructor <;> nlinarith
      · simp only [hb, if_false]
        constructor <;> nlinarith

theorem filter_sum_exact (tol : Rat) : ∀ es : List Rat, (∀ e ∈ es, e < 0 → e < -tol) → 0 ≤ tol →
    (es.filter (· < -tol)).sum = negSum es := by
  intro es
  induction es with
  | nil => intro _ _; simp [negSum]
  | cons e es ih =>
    intro h htol
    rw [negSum_cons]
    have ih' := ih (fun x hx => h x (List.mem_cons_of_mem _ hx)) htol
    by_cases hb : e < 0
    · have ha := h e List.mem_cons_self hb
      rw [filter_lt_pos ha]
      simp [hb, ih']
    · have ha : ¬ e < -tol := by intro h'; apply hb; linarith
      rw [filter_lt_neg ha]
      simp [hb, ih']

end C12
end Model
end OFV
