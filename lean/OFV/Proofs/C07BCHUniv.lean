/-
C07 — from the free nilpotent algebra of the Spec (dense word-coefficient lists) to EVERY ℚ-algebra:
the evaluation `X ↦ x`, `Y ↦ y` is additive and multiplicative on the list representation, so an
identity checked by `Spec.BCH.check k` holds for all `x`, `y` whose words of length `> k` vanish.
-/
import OFV.Spec.C07BCH
import Mathlib.Algebra.Algebra.Basic
import Mathlib.Algebra.Ring.Rat
import Mathlib.Algebra.BigOperators.Intervals
import Mathlib.Algebra.BigOperators.GroupWithZero.Action
import Mathlib.Tactic.NoncommRing
import Mathlib.Tactic.Linarith
import Mathlib.Tactic.Ring
import Mathlib.Data.Nat.Factorial.Basic

namespace OFV
namespace Proofs
namespace C07U

open OFV.Spec.BCH

variable {A : Type} [Ring A] [Algebra ℚ A] (x y : A)

/-- the generator a letter stands for -/
def gen (g : Bool) : A := if g then y else x

/-- a word as a product in `A` -/
def wordEval : List Bool → A
  | [] => 1
  | g :: r => gen x y g * wordEval r

/-- evaluation of a homogeneous element of degree `d`: the first half of the list are the words that
start with `X`, the second half those that start with `Y` -/
def evalH : Nat → Hom → A
  | 0, h => (h.getD 0 0 : ℚ) • (1 : A)
  | d + 1, h => x * evalH d (h.take (2 ^ d)) + y * evalH d (h.drop (2 ^ d))

theorem evalH_nil (d : Nat) : evalH x y d [] = 0 := by
  induction d with
  | zero => simp [evalH]
  | succ d ih => simp [evalH, ih]

theorem zipAdd_eq (a b : Hom) (h : a.length = b.length) : zipAdd a b = List.zipWith (· + ·) a b := by
  induction a generalizing b with
  | nil => cases b <;> simp_all [zipAdd]
  | cons a r ih =>
    cases b with
    | nil => simp at h
    | cons b s => simp [zipAdd, ih s (by simpa using h)]

theorem zipAdd_length (a b : Hom) (h : a.length = b.length) : (zipAdd a b).length = a.length := by
  rw [zipAdd_eq a b h]; simp [h]

theorem evalH_zipAdd (d : Nat) : ∀ (a b : Hom), a.length = 2 ^ d → b.length = 2 ^ d →
    evalH x y d (zipAdd a b) = evalH x y d a + evalH x y d b := by
  induction d with
  | zero =>
    intro a b ha hb
    match a, b, ha, hb with
    | [a0], [b0], _, _ => simp [evalH, zipAdd, add_smul]
  | succ d ih =>
    intro a b ha hb
    rw [zipAdd_eq a b (by rw [ha, hb])]
    simp only [evalH, List.take_zipWith, List.drop_zipWith]
    have h2 : 2 ^ (d + 1) = 2 ^ d + 2 ^ d := by rw [pow_succ]; omega
    have l1 : (a.take (2 ^ d)).length = 2 ^ d := by rw [List.length_take, ha, h2]; omega
    have l2 : (b.take (2 ^ d)).length = 2 ^ d := by rw [List.length_take, hb, h2]; omega
    have l3 : (a.drop (2 ^ d)).length = 2 ^ d := by rw [List.length_drop, ha, h2]; omega
    have l4 : (b.drop (2 ^ d)).length = 2 ^ d := by rw [List.length_drop, hb, h2]; omega
    rw [← zipAdd_eq _ _ (by rw [l1, l2]), ← zipAdd_eq _ _ (by rw [l3, l4]), ih _ _ l1 l2, ih _ _ l3 l4]
    noncomm_ring

theorem evalH_hscale (c : ℚ) (d : Nat) : ∀ (a : Hom), evalH x y d (hscale c a) = c • evalH x y d a := by
  induction d with
  | zero =>
    intro a
    cases a with
    | nil => simp [evalH, hscale]
    | cons a0 r => simp [evalH, hscale, mul_smul]
  | succ d ih =>
    intro a
    have e1 : (hscale c a).take (2 ^ d) = hscale c (a.take (2 ^ d)) := by simp [hscale, List.map_take]
    have e2 : (hscale c a).drop (2 ^ d) = hscale c (a.drop (2 ^ d)) := by simp [hscale, List.map_drop]
    simp only [evalH, e1, e2, ih, smul_add, mul_smul_comm]

theorem hmul_length (u v : Hom) : (hmul u v).length = u.length * v.length := by
  induction u with
  | nil => simp [hmul]
  | cons a r ih =>
    simp only [hmul, List.flatMap_cons, List.length_append, List.length_map, List.length_cons] at ih ⊢
    rw [ih]; ring

theorem hmul_append (u1 u2 v : Hom) : hmul (u1 ++ u2) v = hmul u1 v ++ hmul u2 v := by
  simp [hmul, List.flatMap_append]

/-- the list product is the product in `A` -/
theorem evalH_hmul (e : Nat) (v : Hom) (hv : v.length = 2 ^ e) (d : Nat) : ∀ (u : Hom), u.length = 2 ^ d →
    evalH x y (d + e) (hmul u v) = evalH x y d u * evalH x y e v := by
  induction d with
  | zero =>
    intro u hu
    match u, hu with
    | [a], _ =>
      have : hmul [a] v = hscale a v := by simp [hmul, hscale]
      rw [this, Nat.zero_add, evalH_hscale]
      simp [evalH]
  | succ d ih =>
    intro u hu
    have h2 : 2 ^ (d + 1) = 2 ^ d + 2 ^ d := by rw [pow_succ]; omega
    have l1 : (u.take (2 ^ d)).length = 2 ^ d := by rw [List.length_take, hu, h2]; omega
    have l3 : (u.drop (2 ^ d)).length = 2 ^ d := by rw [List.length_drop, hu, h2]; omega
    have hsplit : u = u.take (2 ^ d) ++ u.drop (2 ^ d) := (List.take_append_drop _ _).symm
    have hlen : (hmul (u.take (2 ^ d)) v).length = 2 ^ (d + e) := by
      rw [hmul_length, l1, hv, pow_add]
    have hde : d + 1 + e = (d + e) + 1 := by omega
    rw [hde]
    conv_lhs => rw [hsplit, hmul_append]
    simp only [evalH]
    rw [← hlen, List.take_left', List.drop_left', ih _ l1, ih _ l3]
    · noncomm_ring
    · rfl
    · rfl

/-! ### generators, nested commutators -/

def genH (g : Bool) : Hom := if g then [0, 1] else [1, 0]

theorem evalH_genH (g : Bool) : evalH x y 1 (genH g) = gen x y g := by
  cases g <;> simp [evalH, genH, gen]

theorem appendGen_eq (g : Bool) (w : Hom) : appendGen g w = hmul w (genH g) := by
  cases g <;> simp [appendGen, hmul, genH]

theorem prependGen_length (g : Bool) (w : Hom) : (prependGen g w).length = 2 * w.length := by
  cases g <;> simp [prependGen] <;> omega

theorem evalH_prependGen (g : Bool) (d : Nat) (w : Hom) (hw : w.length = 2 ^ d) :
    evalH x y (d + 1) (prependGen g w) = gen x y g * evalH x y d w := by
  have hz : ∀ n : Nat, evalH x y d (List.replicate n (0 : ℚ)) = 0 := by
    intro n
    have : List.replicate n (0 : ℚ) = hscale 0 (List.replicate n (0 : ℚ)) := by simp [hscale]
    rw [this, evalH_hscale, zero_smul]
  have hm : w.map (fun _ => (0 : ℚ)) = List.replicate (2 ^ d) 0 := by
    rw [← hw]; simp
  cases g
  · simp only [prependGen, Bool.false_eq_true, if_false, evalH, gen]
    rw [← hw, List.take_left', List.drop_left', hm, hz, mul_zero, add_zero] <;> rfl
  · simp only [prependGen, if_true, evalH, gen]
    have hl : (w.map fun _ => (0 : ℚ)).length = 2 ^ d := by simp [hw]
    rw [← hl, List.take_left', List.drop_left', hm, hz, mul_zero, zero_add] <;> rfl

theorem evalH_appendGen (g : Bool) (d : Nat) (w : Hom) (hw : w.length = 2 ^ d) :
    evalH x y (d + 1) (appendGen g w) = evalH x y d w * gen x y g := by
  rw [appendGen_eq, evalH_hmul x y 1 (genH g) (by cases g <;> rfl) d w hw, evalH_genH]

theorem bracketGen_length (g : Bool) (d : Nat) (w : Hom) (hw : w.length = 2 ^ d) :
    (bracketGen g w).length = 2 ^ (d + 1) := by
  unfold bracketGen
  have h1 : (prependGen g w).length = 2 ^ (d + 1) := by rw [prependGen_length, hw, pow_succ]; ring
  have h2 : (hscale (-1) (appendGen g w)).length = 2 ^ (d + 1) := by
    rw [appendGen_eq]; simp only [hscale, List.length_map, hmul_length, hw]
    cases g <;> simp [genH, pow_succ]
  rw [zipAdd_length _ _ (by rw [h1, h2]), h1]

theorem evalH_bracketGen (g : Bool) (d : Nat) (w : Hom) (hw : w.length = 2 ^ d) :
    evalH x y (d + 1) (bracketGen g w) = gen x y g * evalH x y d w - evalH x y d w * gen x y g := by
  unfold bracketGen
  have h1 : (prependGen g w).length = 2 ^ (d + 1) := by rw [prependGen_length, hw, pow_succ]; ring
  have h2 : (hscale (-1) (appendGen g w)).length = 2 ^ (d + 1) := by
    rw [appendGen_eq]; simp only [hscale, List.length_map, hmul_length, hw]
    cases g <;> simp [genH, pow_succ]
  rw [evalH_zipAdd x y (d + 1) _ _ h1 h2, evalH_prependGen x y g d w hw, evalH_hscale,
    evalH_appendGen x y g d w hw]
  simp [sub_eq_add_neg]

/-- Dynkin-style nested commutator in `A` -/
def nestedA : List Bool → A
  | [] => 1
  | [g] => gen x y g
  | g :: r => gen x y g * nestedA r - nestedA r * gen x y g

theorem nested_length : ∀ (w : List Bool), (nested w).length = 2 ^ w.length
  | [] => rfl
  | [g] => by cases g <;> rfl
  | g :: g' :: r => by
    have ih := nested_length (g' :: r)
    simp only [nested]
    rw [bracketGen_length g _ _ ih]; rfl

theorem evalH_nested : ∀ (w : List Bool), evalH x y w.length (nested w) = nestedA x y w
  | [] => by simp [evalH, nested, nestedA]
  | [g] => by
    have := evalH_genH x y g
    cases g <;> simpa [nested, nestedA, genH] using this
  | g :: g' :: r => by
    have ih := evalH_nested (g' :: r)
    have hl := nested_length (g' :: r)
    simp only [nested, nestedA, List.length_cons] at ih hl ⊢
    rw [evalH_bracketGen x y g _ _ hl, ih]

/-! ### nilpotency -/

/-- every word of more than `k` letters vanishes -/
def Nil (k : Nat) : Prop := ∀ w : List Bool, k < w.length → wordEval x y w = 0

theorem wordEval_append (p q : List Bool) : wordEval x y (p ++ q) = wordEval x y p * wordEval x y q := by
  induction p with
  | nil => simp [wordEval]
  | cons g r ih => simp [wordEval, ih, mul_assoc]

/-- a prefix followed by a homogeneous element of too high total degree is zero -/
theorem evalH_vanish (k : Nat) (hn : Nil x y k) (d : Nat) : ∀ (p : List Bool) (h : Hom), k < p.length + d →
    wordEval x y p * evalH x y d h = 0 := by
  induction d with
  | zero =>
    intro p h hk
    simp only [evalH, mul_smul_comm, mul_one]
    rw [hn p (by omega), smul_zero]
  | succ d ih =>
    intro p h hk
    simp only [evalH, mul_add, ← mul_assoc]
    have e1 : wordEval x y p * x = wordEval x y (p ++ [false]) := by
      rw [wordEval_append]; simp [wordEval, gen]
    have e2 : wordEval x y p * y = wordEval x y (p ++ [true]) := by
      rw [wordEval_append]; simp [wordEval, gen]
    rw [e1, e2, ih _ _ (by simp; omega), ih _ _ (by simp; omega), add_zero]

theorem evalH_high (k : Nat) (hn : Nil x y k) (d : Nat) (hd : k < d) (h : Hom) : evalH x y d h = 0 := by
  have := evalH_vanish x y k hn d [] h (by simpa using hd)
  simpa [wordEval] using this

theorem evalH_mul_high (k : Nat) (hn : Nil x y k) (d e : Nat) (hd : k < d + e) (u v : Hom)
    (hu : u.length = 2 ^ d) (hv : v.length = 2 ^ e) : evalH x y d u * evalH x y e v = 0 := by
  rw [← evalH_hmul x y e v hv d u hu]
  exact evalH_high x y k hn _ hd _

/-! ### graded elements -/

/-- well-formed graded element of the algebra truncated above degree `k` -/
def WFG (k : Nat) (g : Graded) : Prop := g.length = k + 1 ∧ ∀ d, d ≤ k → (g.getD d []).length = 2 ^ d

/-- evaluation of a graded element -/
def evalG (k : Nat) (g : Graded) : A := ∑ d ∈ Finset.range (k + 1), evalH x y d (g.getD d [])

theorem getD_map_range (k : Nat) (f : Nat → Hom) (d : Nat) (hd : d ≤ k) :
    ((List.range (k + 1)).map f).getD d [] = f d := by
  rw [List.getD_eq_getElem?_getD, List.getElem?_map, List.getElem?_range (by omega)]
  rfl

theorem evalH_replicate (d n : Nat) : evalH x y d (List.replicate n (0 : ℚ)) = 0 := by
  have : List.replicate n (0 : ℚ) = hscale 0 (List.replicate n (0 : ℚ)) := by simp [hscale]
  rw [this, evalH_hscale, zero_smul]

theorem gadd_length : ∀ (a b : Graded), a.length = b.length → (gadd a b).length = a.length
  | [], [], _ => rfl
  | _ :: r, _ :: s, h => by simp [gadd, gadd_length r s (by simpa using h)]

theorem gadd_getD : ∀ (a b : Graded), a.length = b.length → ∀ d, d < a.length →
    (gadd a b).getD d [] = zipAdd (a.getD d []) (b.getD d [])
  | [], [], _, d, hd => by simp at hd
  | u :: r, v :: s, h, 0, _ => by simp [gadd]
  | u :: r, v :: s, h, d + 1, hd => by
    simp only [gadd, List.getD_cons_succ]
    exact gadd_getD r s (by simpa using h) d (by simpa using hd)

theorem wfg_gadd (k : Nat) (a b : Graded) (ha : WFG k a) (hb : WFG k b) : WFG k (gadd a b) := by
  refine ⟨by rw [gadd_length a b (by rw [ha.1, hb.1]), ha.1], fun d hd => ?_⟩
  rw [gadd_getD a b (by rw [ha.1, hb.1]) d (by rw [ha.1]; omega),
    zipAdd_length _ _ (by rw [ha.2 d hd, hb.2 d hd]), ha.2 d hd]

theorem evalG_gadd (k : Nat) (a b : Graded) (ha : WFG k a) (hb : WFG k b) :
    evalG x y k (gadd a b) = evalG x y k a + evalG x y k b := by
  unfold evalG
  rw [← Finset.sum_add_distrib]
  apply Finset.sum_congr rfl
  intro d hd
  have hd' : d ≤ k := by simpa [Finset.mem_range, Nat.lt_succ_iff] using hd
  rw [gadd_getD a b (by rw [ha.1, hb.1]) d (by rw [ha.1]; omega),
    evalH_zipAdd x y d _ _ (ha.2 d hd') (hb.2 d hd')]

theorem gscale_getD (c : ℚ) (a : Graded) (d : Nat) : (gscale c a).getD d [] = hscale c (a.getD d []) := by
  unfold gscale
  rw [List.getD_eq_getElem?_getD, List.getD_eq_getElem?_getD, List.getElem?_map]
  cases a[d]? <;> simp [hscale]

theorem wfg_gscale (k : Nat) (c : ℚ) (a : Graded) (ha : WFG k a) : WFG k (gscale c a) := by
  refine ⟨by simp [gscale, ha.1], fun d hd => ?_⟩
  rw [gscale_getD]; simp only [hscale, List.length_map]; exact ha.2 d hd

theorem evalG_gscale (k : Nat) (c : ℚ) (a : Graded) : evalG x y k (gscale c a) = c • evalG x y k a := by
  unfold evalG
  rw [Finset.smul_sum]
  apply Finset.sum_congr rfl
  intro d _
  rw [gscale_getD, evalH_hscale]

theorem wfg_ginj (k d : Nat) (h : Hom) (hh : h.length = 2 ^ d) : WFG k (ginj k d h) := by
  refine ⟨by simp [ginj], fun e he => ?_⟩
  unfold ginj
  rw [getD_map_range k _ e he]
  split
  · subst_vars; exact hh
  · simp

theorem evalG_ginj (k d : Nat) (hd : d ≤ k) (h : Hom) : evalG x y k (ginj k d h) = evalH x y d h := by
  unfold evalG
  rw [Finset.sum_eq_single d]
  · unfold ginj; rw [getD_map_range k _ d hd, if_pos rfl]
  · intro e he hne
    have he' : e ≤ k := by simpa [Finset.mem_range, Nat.lt_succ_iff] using he
    unfold ginj; rw [getD_map_range k _ e he', if_neg hne, evalH_replicate]
  · intro hnot
    exact absurd (Finset.mem_range.mpr (by omega)) hnot

theorem wfg_gzero (k : Nat) : WFG k (gzero k) := by
  refine ⟨by simp [gzero], fun e he => ?_⟩
  unfold gzero
  rw [getD_map_range k _ e he]; simp

theorem evalG_gzero (k : Nat) : evalG x y k (gzero k) = 0 := by
  unfold evalG
  apply Finset.sum_eq_zero
  intro e he
  have he' : e ≤ k := by simpa [Finset.mem_range, Nat.lt_succ_iff] using he
  unfold gzero; rw [getD_map_range k _ e he', evalH_replicate]

/-! ### the truncated product -/

theorem list_sum_range (f : Nat → A) (n : Nat) : ((List.range n).map f).sum = ∑ i ∈ Finset.range n, f i := by
  induction n with
  | zero => simp
  | succ n ih => rw [List.range_succ, List.map_append, List.sum_append, ih, Finset.sum_range_succ]; simp

theorem gmul_fold (k : Nat) (a b : Graded) (ha : WFG k a) (hb : WFG k b) (d : Nat) (hd : d ≤ k) :
    ∀ (l : List Nat), (∀ i ∈ l, i ≤ d) → ∀ (acc : Hom), acc.length = 2 ^ d →
      (l.foldl (fun acc i => zipAdd acc (hmul (a.getD i []) (b.getD (d - i) []))) acc).length = 2 ^ d ∧
      evalH x y d (l.foldl (fun acc i => zipAdd acc (hmul (a.getD i []) (b.getD (d - i) []))) acc) =
        evalH x y d acc + (l.map fun i => evalH x y i (a.getD i []) * evalH x y (d - i) (b.getD (d - i) [])).sum := by
  intro l
  induction l with
  | nil => intro _ acc hacc; simp [hacc]
  | cons i l ih =>
    intro hl acc hacc
    have hi : i ≤ d := hl i (by simp)
    have la := ha.2 i (by omega)
    have lb := hb.2 (d - i) (by omega)
    have lm : (hmul (a.getD i []) (b.getD (d - i) [])).length = 2 ^ d := by
      rw [hmul_length, la, lb, ← pow_add]; congr 1; omega
    have lz : (zipAdd acc (hmul (a.getD i []) (b.getD (d - i) []))).length = 2 ^ d := by
      rw [zipAdd_length _ _ (by rw [hacc, lm]), hacc]
    obtain ⟨h1, h2⟩ := ih (fun j hj => hl j (by simp [hj])) _ lz
    refine ⟨by simpa using h1, ?_⟩
    simp only [List.foldl_cons, List.map_cons, List.sum_cons]
    rw [h2, evalH_zipAdd x y d _ _ hacc lm]
    have hm := evalH_hmul x y (d - i) _ lb i _ la
    have hid : i + (d - i) = d := by omega
    rw [hid] at hm
    rw [hm, add_assoc]

theorem gmul_getD (k : Nat) (a b : Graded) (d : Nat) (hd : d ≤ k) :
    (gmul k a b).getD d [] =
      (List.range (d + 1)).foldl (fun acc i => zipAdd acc (hmul (a.getD i []) (b.getD (d - i) [])))
        (List.replicate (2 ^ d) 0) := by
  unfold gmul
  rw [getD_map_range k _ d hd]

theorem wfg_gmul (k : Nat) (a b : Graded) (ha : WFG k a) (hb : WFG k b) : WFG k (gmul k a b) := by
  refine ⟨by simp [gmul], fun d hd => ?_⟩
  rw [gmul_getD k a b d hd]
  exact (gmul_fold (A := ℚ) 0 0 k a b ha hb d hd (List.range (d + 1)) (fun i hi => by
    have := List.mem_range.mp hi; omega) _ (by simp)).1

theorem evalH_gmul (k : Nat) (a b : Graded) (ha : WFG k a) (hb : WFG k b) (d : Nat) (hd : d ≤ k) :
    evalH x y d ((gmul k a b).getD d []) =
      ∑ i ∈ Finset.range (d + 1), evalH x y i (a.getD i []) * evalH x y (d - i) (b.getD (d - i) []) := by
  rw [gmul_getD k a b d hd,
    (gmul_fold x y k a b ha hb d hd (List.range (d + 1)) (fun i hi => by
      have := List.mem_range.mp hi; omega) _ (by simp)).2, evalH_replicate, zero_add, list_sum_range]

/-- multiplicativity: the truncated product evaluates to the product in `A` when the words longer than
`k` vanish -/
theorem evalG_gmul (k : Nat) (hn : Nil x y k) (a b : Graded) (ha : WFG k a) (hb : WFG k b) :
    evalG x y k (gmul k a b) = evalG x y k a * evalG x y k b := by
  unfold evalG
  have e1 : ∑ d ∈ Finset.range (k + 1), evalH x y d ((gmul k a b).getD d []) =
      ∑ d ∈ Finset.range (k + 1), ∑ i ∈ Finset.range (d + 1),
        evalH x y i (a.getD i []) * evalH x y (d - i) (b.getD (d - i) []) := by
    apply Finset.sum_congr rfl
    intro d hd
    exact evalH_gmul x y k a b ha hb d (by simpa [Finset.mem_range, Nat.lt_succ_iff] using hd)
  rw [e1, Finset.sum_comm' (t' := Finset.range (k + 1)) (s' := fun i => Finset.Ico i (k + 1))
    (by intro d i; simp only [Finset.mem_range, Finset.mem_Ico]; omega)]
  rw [Finset.sum_mul]
  apply Finset.sum_congr rfl
  intro i hi
  have hi' : i ≤ k := by simpa [Finset.mem_range, Nat.lt_succ_iff] using hi
  rw [Finset.sum_Ico_eq_sum_range, Finset.mul_sum]
  have hsub : Finset.range (k + 1 - i) ⊆ Finset.range (k + 1) := by
    intro j hj; simp only [Finset.mem_range] at hj ⊢; omega
  rw [← Finset.sum_subset hsub]
  · apply Finset.sum_congr rfl
    intro j _
    rw [Nat.add_sub_cancel_left]
  · intro j hj hnot
    simp only [Finset.mem_range] at hj hnot
    exact evalH_mul_high x y k hn i j (by omega) _ _ (ha.2 i hi') (hb.2 j (by omega))

/-! ### the truncated exponential -/

/-- `Σ_{j ≤ k} z^j / j!` -/
def expT (k : Nat) (z : A) : A := ∑ j ∈ Finset.range (k + 1), (1 / factR j : ℚ) • z ^ j

theorem wfg_gone (k : Nat) : WFG k (gone k) := wfg_ginj k 0 [1] rfl

theorem evalG_gone (k : Nat) : evalG x y k (gone k) = 1 := by
  unfold gone; rw [evalG_ginj x y k 0 (by omega)]; simp [evalH]

def expStep (k : Nat) (z : Graded) (st : Graded × Graded) (m : Nat) : Graded × Graded :=
  (gmul k st.1 z, gadd st.2 (gscale (1 / factR (m + 1)) (gmul k st.1 z)))

theorem gexp_eq (k : Nat) (z : Graded) : gexp k z = ((List.range k).foldl (expStep k z) (gone k, gone k)).2 := rfl

theorem gexp_inv (k : Nat) (hn : Nil x y k) (z : Graded) (hz : WFG k z) (m : Nat) :
    WFG k ((List.range m).foldl (expStep k z) (gone k, gone k)).1 ∧
    WFG k ((List.range m).foldl (expStep k z) (gone k, gone k)).2 ∧
    evalG x y k ((List.range m).foldl (expStep k z) (gone k, gone k)).1 = evalG x y k z ^ m ∧
    evalG x y k ((List.range m).foldl (expStep k z) (gone k, gone k)).2 =
      ∑ j ∈ Finset.range (m + 1), (1 / factR j : ℚ) • evalG x y k z ^ j := by
  induction m with
  | zero =>
    refine ⟨wfg_gone k, wfg_gone k, ?_, ?_⟩
    · simp [evalG_gone]
    · simp [evalG_gone, factR]
  | succ m ih =>
    obtain ⟨w1, w2, e1, e2⟩ := ih
    rw [List.range_succ, List.foldl_append]
    simp only [List.foldl_cons, List.foldl_nil, expStep]
    have wp := wfg_gmul k _ z w1 hz
    refine ⟨wp, wfg_gadd k _ _ w2 (wfg_gscale k _ _ wp), ?_, ?_⟩
    · rw [evalG_gmul x y k hn _ _ w1 hz, e1, pow_succ]
    · rw [evalG_gadd x y k _ _ w2 (wfg_gscale k _ _ wp), evalG_gscale, evalG_gmul x y k hn _ _ w1 hz, e1, e2,
        Finset.sum_range_succ _ (m + 1), pow_succ]

theorem wfg_gexp (k : Nat) (hn : Nil x y k) (z : Graded) (hz : WFG k z) : WFG k (gexp k z) :=
  (gexp_inv x y k hn z hz k).2.1

theorem evalG_gexp (k : Nat) (hn : Nil x y k) (z : Graded) (hz : WFG k z) :
    evalG x y k (gexp k z) = expT k (evalG x y k z) :=
  (gexp_inv x y k hn z hz k).2.2.2

/-! ### the BCH polynomial and the generators -/

theorem bchPoly_inv (k : Nat) (hn : Nil x y k) (terms : List (List Bool × Rat)) : ∀ (acc : Graded), WFG k acc →
    WFG k (terms.foldl (fun acc tc =>
      if tc.1.length ≤ k then gadd acc (ginj k tc.1.length (hscale tc.2 (nested tc.1))) else acc) acc) ∧
    evalG x y k (terms.foldl (fun acc tc =>
      if tc.1.length ≤ k then gadd acc (ginj k tc.1.length (hscale tc.2 (nested tc.1))) else acc) acc) =
      evalG x y k acc + (terms.map fun tc => (tc.2 : ℚ) • nestedA x y tc.1).sum := by
  induction terms with
  | nil => intro acc hacc; simp [hacc]
  | cons tc r ih =>
    intro acc hacc
    simp only [List.foldl_cons, List.map_cons, List.sum_cons]
    by_cases hl : tc.1.length ≤ k
    · rw [if_pos hl]
      have hlen : (hscale tc.2 (nested tc.1)).length = 2 ^ tc.1.length := by
        simp [hscale, nested_length]
      have wi := wfg_ginj k tc.1.length _ hlen
      obtain ⟨h1, h2⟩ := ih _ (wfg_gadd k _ _ hacc wi)
      refine ⟨h1, ?_⟩
      rw [h2, evalG_gadd x y k _ _ hacc wi, evalG_ginj x y k _ hl, evalH_hscale, evalH_nested, add_assoc]
    · rw [if_neg hl]
      obtain ⟨h1, h2⟩ := ih _ hacc
      refine ⟨h1, ?_⟩
      have hz : nestedA x y tc.1 = 0 := by
        rw [← evalH_nested]; exact evalH_high x y k hn _ (by omega) _
      rw [h2, hz, smul_zero, zero_add]

theorem evalG_bchPoly (k : Nat) (hn : Nil x y k) (terms : List (List Bool × Rat)) :
    WFG k (bchPoly k terms) ∧
    evalG x y k (bchPoly k terms) = (terms.map fun tc => (tc.2 : ℚ) • nestedA x y tc.1).sum := by
  obtain ⟨h1, h2⟩ := bchPoly_inv x y k hn terms (gzero k) (wfg_gzero k)
  exact ⟨h1, by rw [bchPoly] ; rw [h2, evalG_gzero, zero_add]⟩

theorem evalG_gen (k : Nat) (hn : Nil x y k) (g : Bool) :
    WFG k (ginj k 1 (genH g)) ∧ evalG x y k (ginj k 1 (genH g)) = gen x y g := by
  refine ⟨wfg_ginj k 1 _ (by cases g <;> rfl), ?_⟩
  by_cases hk : 1 ≤ k
  · rw [evalG_ginj x y k 1 hk, evalH_genH]
  · have hk0 : k = 0 := by omega
    subst hk0
    have hz : gen x y g = 0 := by
      have := hn [g] (by simp)
      simpa [wordEval] using this
    rw [hz]
    unfold evalG
    simp only [Nat.zero_add, Finset.range_one, Finset.sum_singleton]
    unfold ginj
    simp [evalH]

/-- **universal property**: an identity `exp(Σ c_w [w]) = exp X · exp Y` checked on the word-coefficient
lists holds for all `x`, `y` of every ℚ-algebra whose words of more than `k` letters vanish -/
theorem check_universal (k : Nat) (terms : List (List Bool × Rat)) (hc : check k terms = true)
    (he : expXexpY k = gmul k (gexp k (ginj k 1 (genH false))) (gexp k (ginj k 1 (genH true))))
    (hn : Nil x y k) :
    expT k ((terms.map fun tc => (tc.2 : ℚ) • nestedA x y tc.1).sum) = expT k x * expT k y := by
  have heq : gexp k (bchPoly k terms) = expXexpY k := by
    unfold check at hc; exact eq_of_beq hc
  obtain ⟨wb, eb⟩ := evalG_bchPoly x y k hn terms
  obtain ⟨wx, ex⟩ := evalG_gen x y k hn false
  obtain ⟨wy, ey⟩ := evalG_gen x y k hn true
  have h1 := evalG_gexp x y k hn _ wb
  rw [heq, he, evalG_gmul x y k hn _ _ (wfg_gexp x y k hn _ wx) (wfg_gexp x y k hn _ wy),
    evalG_gexp x y k hn _ wx, evalG_gexp x y k hn _ wy, ex, ey, eb] at h1
  simpa [gen] using h1.symm

/-! ### presentation: factorials and list products -/

theorem factR_eq (n : Nat) : factR n = (n.factorial : ℚ) := by
  induction n with
  | zero => simp [factR]
  | succ n ih => rw [factR, ih, Nat.factorial_succ]; push_cast; ring

theorem wordEval_eq (w : List Bool) : wordEval x y w = (w.map fun g => if g then y else x).prod := by
  induction w with
  | nil => simp [wordEval]
  | cons g r ih => simp [wordEval, gen, ih]

theorem expT_eq (k : Nat) (z : A) : expT k z = ∑ j ∈ Finset.range (k + 1), ((j.factorial : ℚ)⁻¹) • z ^ j := by
  unfold expT
  apply Finset.sum_congr rfl
  intro j _
  rw [factR_eq, one_div]

end C07U
end Proofs
end OFV
