/-
C07 — the diagonal-Coulomb commutator, two-body part, in any ring with the canonical
anticommutation relations: number-operator calculus, `_add_three_body_term`,
`_commutator_two_body_diagonal_with_two_body`.
-/
import OFV.Proofs.C07DCRing

namespace OFV
namespace Proofs
namespace C07R

open OFV.Model OFV.Model.C07 OFV.Proofs.C03

variable {A : Type} [Ring A]

/-- both orientations of an index comparison, as rewritable propositions -/
theorem eqcases (x k : Nat) :
    ((x = k) = True ∧ (k = x) = True ∧ x = k) ∨ ((x = k) = False ∧ (k = x) = False ∧ x ≠ k) := by
  by_cases e : x = k
  · exact Or.inl ⟨eq_true e, eq_true e.symm, e⟩
  · exact Or.inr ⟨eq_false e, eq_false (fun e' => e e'.symm), e⟩

/-- the weight of a two-body term under `n_x` -/
def nu (x k l m n : Nat) : Int :=
  (if x = k then 1 else 0) + (if x = l then 1 else 0) - (if x = m then 1 else 0) - (if x = n then 1 else 0)

/-- the case analysis of `_commutator_two_body_diagonal_with_two_body` against the number calculus;
`T`, `Wi`, `Wj` are arbitrary ring elements here -/
theorem two_two_combine (T Wi Wj : A) (i j k l m n : Nat) (hij : j < i) (hkl : l < k) (hmn : n < m)
    (hne : ¬ (i = k ∧ j = l ∧ i = m ∧ j = n)) :
    - (nu j k l m n • (if i = k then T else if i = l then T else if i = m then 0 else if i = n then 0 else Wi) +
        nu i k l m n • ((if j = k then T else if j = l then T else if j = m then 0 else if j = n then 0 else Wj) -
          nu j k l m n • T)) =
      (if i = k ∧ j = l then -T else if i = m ∧ j = n then T
       else if i = m ∨ i = n then (if (j = k ∨ j = l) ∨ (i = k ∨ i = l) then 0 else Wj)
       else if j = m ∨ j = n then (if (i = k ∨ i = l) ∨ (j = k ∨ j = l) then 0 else Wi)
       else if i = k ∨ i = l then -Wj else if j = k ∨ j = l then -Wi else 0) := by
  unfold nu
  rcases eqcases i k with ⟨a1, -, a⟩ | ⟨a1, -, a⟩ <;> rcases eqcases i l with ⟨b1, -, b⟩ | ⟨b1, -, b⟩ <;>
    (try (exfalso; omega)) <;>
    rcases eqcases i m with ⟨c1, -, c⟩ | ⟨c1, -, c⟩ <;> rcases eqcases i n with ⟨d1, -, d⟩ | ⟨d1, -, d⟩ <;>
    (try (exfalso; omega)) <;>
    rcases eqcases j k with ⟨e1, -, e⟩ | ⟨e1, -, e⟩ <;> rcases eqcases j l with ⟨f1, -, f⟩ | ⟨f1, -, f⟩ <;>
    (try (exfalso; omega)) <;>
    rcases eqcases j m with ⟨g1, -, g⟩ | ⟨g1, -, g⟩ <;> rcases eqcases j n with ⟨h1, -, h'⟩ | ⟨h1, -, h'⟩ <;>
    (try (exfalso; omega)) <;>
    (simp only [a1, b1, c1, d1, e1, f1, g1, h1, if_true, if_false, and_self, and_true, true_and, and_false, false_and,
      or_self, or_true, true_or, or_false, false_or]
     simp)

section num
variable {I : Interp A} (h : CAR I)
include h

theorem cc_swap (a b : Nat) (Z : A) : I.g (a, 1) * (I.g (b, 1) * Z) = - (I.g (b, 1) * (I.g (a, 1) * Z)) := by
  have e : I.g (a, 1) * I.g (b, 1) = - (I.g (b, 1) * I.g (a, 1)) := by
    rw [eq_neg_iff_add_eq_zero]; exact anti_c h a b
  rw [← mul_assoc, e, neg_mul, mul_assoc]

theorem dd_swap0 (a b : Nat) : I.g (a, 0) * I.g (b, 0) = - (I.g (b, 0) * I.g (a, 0)) := by
  rw [eq_neg_iff_add_eq_zero]; exact anti_d h a b

theorem dd_swap (a b : Nat) (Z : A) : I.g (a, 0) * (I.g (b, 0) * Z) = - (I.g (b, 0) * (I.g (a, 0) * Z)) := by
  rw [← mul_assoc, dd_swap0 h a b, neg_mul, mul_assoc]

theorem dc_swap0 (a b : Nat) (hab : a ≠ b) : I.g (a, 0) * I.g (b, 1) = - (I.g (b, 1) * I.g (a, 0)) := by
  rw [eq_neg_iff_add_eq_zero]
  have := mixed_dc h a b
  rw [if_neg (fun e => hab e.symm)] at this
  exact this

theorem dc_swap (a b : Nat) (hab : a ≠ b) (Z : A) :
    I.g (a, 0) * (I.g (b, 1) * Z) = - (I.g (b, 1) * (I.g (a, 0) * Z)) := by
  rw [← mul_assoc, dc_swap0 h a b hab, neg_mul, mul_assoc]

theorem cd_swap (a b : Nat) (hab : a ≠ b) (Z : A) :
    I.g (b, 1) * (I.g (a, 0) * Z) = - (I.g (a, 0) * (I.g (b, 1) * Z)) := by
  rw [dc_swap h a b hab, neg_neg]

theorem cc_zero (x : Nat) (Z : A) : I.g (x, 1) * (I.g (x, 1) * Z) = 0 := by
  rw [← mul_assoc, h.sq (x, 1) (x, 1) rfl rfl, zero_mul]

theorem dd_zero0 (x : Nat) : I.g (x, 0) * I.g (x, 0) = 0 := h.sq (x, 0) (x, 0) rfl rfl

theorem dd_zero (x : Nat) (Z : A) : I.g (x, 0) * (I.g (x, 0) * Z) = 0 := by
  rw [← mul_assoc, dd_zero0 h, zero_mul]

/-- `n_x a†_x = a†_x` -/
theorem num_c (x : Nat) (Z : A) : I.g (x, 1) * I.g (x, 0) * (I.g (x, 1) * Z) = I.g (x, 1) * Z := by
  have h1 := mixed_dc h x x
  rw [if_pos rfl] at h1
  have e : I.g (x, 0) * I.g (x, 1) = 1 - I.g (x, 1) * I.g (x, 0) := by rw [← h1]; noncomm_ring
  rw [mul_assoc, ← mul_assoc (I.g (x, 0)), e, sub_mul, mul_sub, one_mul, mul_assoc (I.g (x, 1)) (I.g (x, 0)),
    cc_zero h, sub_zero]

/-- `n_x a_x = 0` -/
theorem num_d (x : Nat) (Z : A) : I.g (x, 1) * I.g (x, 0) * (I.g (x, 0) * Z) = 0 := by
  rw [mul_assoc, dd_zero h, mul_zero]

theorem num_d0 (x : Nat) : I.g (x, 1) * I.g (x, 0) * I.g (x, 0) = 0 := by
  rw [mul_assoc, dd_zero0 h, mul_zero]

/-- the number operator commutes with the ladder operators of the other modes -/
theorem num_comm_c (x y : Nat) (hxy : x ≠ y) (Z : A) :
    I.g (x, 1) * I.g (x, 0) * (I.g (y, 1) * Z) = I.g (y, 1) * (I.g (x, 1) * I.g (x, 0) * Z) := by
  rw [mul_assoc, dc_swap h x y hxy, mul_neg, cc_swap h, neg_neg, mul_assoc]

theorem num_comm_d (x y : Nat) (hxy : x ≠ y) (Z : A) :
    I.g (x, 1) * I.g (x, 0) * (I.g (y, 0) * Z) = I.g (y, 0) * (I.g (x, 1) * I.g (x, 0) * Z) := by
  rw [mul_assoc, dd_swap h, mul_neg, cd_swap h y x (fun e => hxy e.symm), neg_neg, mul_assoc]

/-- the three-body monomial `a†_x a†_k a†_l a_x a_m a_n` -/
def W (I : Interp A) (x k l m n : Nat) : A :=
  I.g (x, 1) * (I.g (k, 1) * (I.g (l, 1) * (I.g (x, 0) * (I.g (m, 0) * I.g (n, 0)))))

/-- `n_x · a†_k a†_l a_m a_n` in closed form -/
theorem num_left (x k l m n : Nat) (hkl : k ≠ l) :
    I.g (x, 1) * I.g (x, 0) * (I.g (k, 1) * (I.g (l, 1) * (I.g (m, 0) * I.g (n, 0)))) =
      if x = k then I.g (k, 1) * (I.g (l, 1) * (I.g (m, 0) * I.g (n, 0)))
      else if x = l then I.g (k, 1) * (I.g (l, 1) * (I.g (m, 0) * I.g (n, 0)))
      else if x = m then 0 else if x = n then 0 else W I x k l m n := by
  by_cases e1 : x = k
  · subst e1; rw [if_pos rfl, num_c h]
  rw [if_neg e1]
  by_cases e2 : x = l
  · subst e2; rw [if_pos rfl, num_comm_c h x k e1, num_c h]
  rw [if_neg e2, num_comm_c h x k e1, num_comm_c h x l e2]
  by_cases e3 : x = m
  · subst e3; rw [if_pos rfl, num_d h, mul_zero, mul_zero]
  rw [if_neg e3]
  by_cases e4 : x = n
  · subst e4; rw [if_pos rfl, num_comm_d h x m e3, num_d0 h, mul_zero, mul_zero, mul_zero]
  rw [if_neg e4]
  unfold W
  rw [← num_comm_c h x l e2, ← num_comm_c h x k e1, mul_assoc, dc_swap h x k e1, dc_swap h x l e2]
  simp only [mul_neg, neg_neg]

/-- `[n_x, a†_k a†_l a_m a_n] = ν_x · a†_k a†_l a_m a_n` -/
theorem comm_num (x k l m n : Nat) (hkl : k ≠ l) (hmn : m ≠ n) :
    I.g (x, 1) * I.g (x, 0) * (I.g (k, 1) * (I.g (l, 1) * (I.g (m, 0) * I.g (n, 0)))) -
      I.g (k, 1) * (I.g (l, 1) * (I.g (m, 0) * I.g (n, 0))) * (I.g (x, 1) * I.g (x, 0)) =
      nu x k l m n • (I.g (k, 1) * (I.g (l, 1) * (I.g (m, 0) * I.g (n, 0)))) := by
  rw [comm_one_two h x x k l m n]
  unfold nu
  rcases eqcases x k with ⟨a1, a2, a⟩ | ⟨a1, a2, a⟩ <;> rcases eqcases x l with ⟨b1, b2, b⟩ | ⟨b1, b2, b⟩ <;>
    rcases eqcases x m with ⟨c1, c2, c⟩ | ⟨c1, c2, c⟩ <;> rcases eqcases x n with ⟨d1, d2, d⟩ | ⟨d1, d2, d⟩ <;>
    first
    | (exfalso; omega)
    | (simp only [a1, a2, b1, b2, c1, c2, d1, d2, if_true, if_false]
       subst_vars
       simp)

/-- `a†_i a†_j a_i a_j = - n_i n_j` for `i ≠ j` -/
theorem diag_eq (i j : Nat) (hij : i ≠ j) :
    I.g (i, 1) * (I.g (j, 1) * (I.g (i, 0) * I.g (j, 0))) =
      - (I.g (i, 1) * I.g (i, 0) * (I.g (j, 1) * I.g (j, 0))) := by
  rw [cd_swap h i j hij, mul_neg, mul_assoc]

/-- the commutator of a diagonal Coulomb term with a two-body term through the number calculus -/
theorem comm_two_two_raw (i j k l m n : Nat) (hij : i ≠ j) (hkl : k ≠ l) (hmn : m ≠ n) (T : A)
    (hT : T = I.g (k, 1) * (I.g (l, 1) * (I.g (m, 0) * I.g (n, 0)))) :
    I.g (i, 1) * (I.g (j, 1) * (I.g (i, 0) * I.g (j, 0))) * T - T * (I.g (i, 1) * (I.g (j, 1) * (I.g (i, 0) * I.g (j, 0)))) =
      - (nu j k l m n • (I.g (i, 1) * I.g (i, 0) * T) +
          nu i k l m n • (I.g (j, 1) * I.g (j, 0) * T - nu j k l m n • T)) := by
  have ci := comm_num h i k l m n hkl hmn
  have cj := comm_num h j k l m n hkl hmn
  rw [← hT] at ci cj
  rw [diag_eq h i j hij]
  have e : - (I.g (i, 1) * I.g (i, 0) * (I.g (j, 1) * I.g (j, 0))) * T -
      T * - (I.g (i, 1) * I.g (i, 0) * (I.g (j, 1) * I.g (j, 0))) =
      - (I.g (i, 1) * I.g (i, 0) * (I.g (j, 1) * I.g (j, 0) * T - T * (I.g (j, 1) * I.g (j, 0))) +
          (I.g (i, 1) * I.g (i, 0) * T - T * (I.g (i, 1) * I.g (i, 0))) * (I.g (j, 1) * I.g (j, 0))) := by
    noncomm_ring
  have hTj : T * (I.g (j, 1) * I.g (j, 0)) = I.g (j, 1) * I.g (j, 0) * T - nu j k l m n • T := by
    rw [← cj]; noncomm_ring
  rw [e, cj, ci, mul_smul_comm, smul_mul_assoc, hTj]

end num

theorem evalT6 (I : Interp A) (a b c d e f : Factor) :
    I.evalT [a, b, c, d, e, f] = I.g a * (I.g b * (I.g c * (I.g d * (I.g e * I.g f)))) := by
  simp [Interp.evalT]

section three
variable {I : Interp A} (h : CAR I)
include h

/-- **`_add_three_body_term`**: adds `coef · a†_x a†_k a†_l a_x a_m a_n`, whatever the order of the indices -/
theorem addThreeBody_eval (x k l m n : Nat) (coef : GQ) (prior : Op) :
    I.evalOp (addThreeBody [(k, 1), (l, 1), (m, 0), (n, 0)] coef x prior) =
      I.evalOp prior + I.ι coef * W I x k l m n := by
  have cck : ∀ Z : A, I.g (k, 1) * (I.g (x, 1) * Z) = - (I.g (x, 1) * (I.g (k, 1) * Z)) := cc_swap h k x
  have ccl : ∀ Z : A, I.g (l, 1) * (I.g (x, 1) * Z) = - (I.g (x, 1) * (I.g (l, 1) * Z)) := cc_swap h l x
  have ddm : ∀ Z : A, I.g (m, 0) * (I.g (x, 0) * Z) = - (I.g (x, 0) * (I.g (m, 0) * Z)) := dd_swap h m x
  have ddn : I.g (n, 0) * I.g (x, 0) = - (I.g (x, 0) * I.g (n, 0)) := dd_swap0 h n x
  unfold W
  simp only [addThreeBody, fIdx, List.take, List.drop, List.cons_append, List.nil_append, List.getD_cons_zero,
    List.getD_cons_succ, List.set_cons_zero, List.set_cons_succ]
  split_ifs <;>
    simp only [List.getD_cons_zero, List.getD_cons_succ, List.set_cons_zero, List.set_cons_succ] at * <;>
    (try split_ifs) <;>
    (try simp only [List.getD_cons_zero, List.getD_cons_succ, List.set_cons_zero, List.set_cons_succ] at *) <;>
    simp only [evalOp_bump, ι_mul_neg_one'] <;>
    simp only [evalT6, cck, ccl, ddm, ddn, mul_neg, neg_mul, neg_neg]

end three

/-- the branch structure of `_commutator_two_body_diagonal_with_two_body` on concrete terms -/
theorem dcTwoTwo_eq (i j k l m n : Nat) (coef : GQ) (prior : Op) :
    dcTwoTwo [(i, 1), (j, 1), (i, 0), (j, 0)] [(k, 1), (l, 1), (m, 0), (n, 0)] coef prior =
      (if i = k ∧ j = l then bump prior [(k, 1), (l, 1), (m, 0), (n, 0)] (-coef)
       else if i = m ∧ j = n then bump prior [(k, 1), (l, 1), (m, 0), (n, 0)] coef
       else if i = m ∨ i = n then
         (if (j = k ∨ j = l) ∨ (i = k ∨ i = l) then prior
          else addThreeBody [(k, 1), (l, 1), (m, 0), (n, 0)] coef j prior)
       else if j = m ∨ j = n then
         (if (i = k ∨ i = l) ∨ (j = k ∨ j = l) then prior
          else addThreeBody [(k, 1), (l, 1), (m, 0), (n, 0)] coef i prior)
       else if i = k ∨ i = l then addThreeBody [(k, 1), (l, 1), (m, 0), (n, 0)] (-coef) j prior
       else if j = k ∨ j = l then addThreeBody [(k, 1), (l, 1), (m, 0), (n, 0)] (-coef) i prior
       else prior) := by
  simp [dcTwoTwo, fIdx]

section twotwo
variable {I : Interp A} (h : CAR I)
include h

/-- **`_commutator_two_body_diagonal_with_two_body`**: for a normal-ordered diagonal Coulomb term
`i^ j^ i j` and a different normal-ordered two-body term the helper adds `coef · [D, T]` -/
theorem dcTwoTwo_eval (i j k l m n : Nat) (hij : j < i) (hkl : l < k) (hmn : n < m)
    (hne : ¬ (i = k ∧ j = l ∧ i = m ∧ j = n)) (coef : GQ) (prior : Op) :
    I.evalOp (dcTwoTwo [(i, 1), (j, 1), (i, 0), (j, 0)] [(k, 1), (l, 1), (m, 0), (n, 0)] coef prior) =
      I.evalOp prior + I.ι coef *
        (I.evalT [(i, 1), (j, 1), (i, 0), (j, 0)] * I.evalT [(k, 1), (l, 1), (m, 0), (n, 0)] -
          I.evalT [(k, 1), (l, 1), (m, 0), (n, 0)] * I.evalT [(i, 1), (j, 1), (i, 0), (j, 0)]) := by
  have hneg : I.ι (-coef) = - I.ι coef := Proofs.C07D.ι_neg' I coef
  have hkl' : k ≠ l := by omega
  rw [dcTwoTwo_eq, evalT4, evalT4,
    comm_two_two_raw h i j k l m n (by omega) hkl' (by omega) _ rfl,
    num_left h i k l m n hkl', num_left h j k l m n hkl',
    two_two_combine _ (W I i k l m n) (W I j k l m n) i j k l m n hij hkl hmn hne]
  split_ifs <;> (try simp only [evalOp_bump, addThreeBody_eval h, evalT4, hneg]) <;> noncomm_ring

end twotwo

end C07R
end Proofs
end OFV
