/- C14 — the Slater basis-change circuit inherits adjacency / parallelism from the C11 schedule. -/
import OFV.Model.C14Prim
import OFV.Proofs.C11

namespace OFV.C14
open OFV.Model.C14 OFV.Model

theorem mem_slaterLayerPairs (n k a b : Nat) :
    (a, b) ∈ slaterLayerPairs n k ↔ ∃ i, (i, b) ∈ C11.squareLayer n k ∧ a = b - 1 := by
  unfold slaterLayerPairs
  simp only [List.mem_map, Prod.mk.injEq, Prod.exists]
  constructor
  · rintro ⟨i, j, h, h1, h2⟩; subst h2; exact ⟨i, h, h1.symm⟩
  · rintro ⟨i, h, h1⟩; exact ⟨i, b, h, h1.symm, rfl⟩

theorem slaterLayerPairs_adjacent (n k a b : Nat) (h : (a, b) ∈ slaterLayerPairs n k) :
    b = a + 1 ∧ b < n := by
  obtain ⟨i, hi, ha⟩ := (mem_slaterLayerPairs n k a b).mp h
  rw [C11.mem_squareLayer] at hi
  omega

theorem slaterLayerPairs_disjoint (n k a b a' b' : Nat) (h : (a, b) ∈ slaterLayerPairs n k)
    (h' : (a', b') ∈ slaterLayerPairs n k) (hne : (a, b) ≠ (a', b')) : b + 2 ≤ b' ∨ b' + 2 ≤ b := by
  obtain ⟨i, hi, ha⟩ := (mem_slaterLayerPairs n k a b).mp h
  obtain ⟨i', hi', ha'⟩ := (mem_slaterLayerPairs n k a' b').mp h'
  rw [C11.mem_squareLayer] at hi hi'
  have : b ≠ b' := by
    intro hb; apply hne; subst hb; rw [ha, ha']
  omega

end OFV.C14
