/- C10: get_number_preserving_sparse_operator: the accumulation of the entries of all terms into the sparse
matrix, and the whole function against the Spec matrix elements between the basis determinants. -/
import OFV.Proofs.C10Filter
import OFV.Proofs.C03Fock

namespace OFV.C10
open OFV.Model OFV.Model.C10 OFV.Spec OFV.Spec.C10
open OFV.Proofs.C03 (contrib melF_eq_sum)

/-! ### dictionary accumulation -/

theorem dict_getD_set {κ : Type} [DecidableEq κ] (d : List (κ × GQ)) (k k' : κ) (v : GQ) :
    Dict.getD (Dict.set d k v) k' 0 = if k = k' then v else Dict.getD d k' 0 := by
  induction d with
  | nil =>
    by_cases h : k = k' <;> simp [Dict.set, Dict.getD, Dict.get?, h]
  | cons e r ih =>
    obtain ⟨a, b⟩ := e
    unfold Dict.getD at ih ⊢
    by_cases h1 : a = k
    · subst h1
      by_cases h2 : a = k' <;> simp [Dict.set, Dict.get?, h2]
    · by_cases h2 : a = k'
      · subst h2
        have h3 : ¬ k = a := fun e => h1 e.symm
        simp [Dict.set, Dict.get?, h1, h3]
      · simp only [Dict.set, h1, if_false, Dict.get?, h2]
        exact ih

theorem getD_addEntry (m : SparseM) (k k' : Nat × Nat) (c : GQ) :
    Dict.getD (addEntry m k c) k' 0 = Dict.getD m k' 0 + (if k = k' then c else 0) := by
  unfold addEntry
  rw [dict_getD_set]
  by_cases h : k = k'
  · subst h; simp
  · simp [h]

theorem getD_fold_addEntry {β : Type} (es : List β) (key : β → Nat × Nat) (val : β → GQ) (acc : SparseM) (k : Nat × Nat) :
    Dict.getD (es.foldl (fun acc e => addEntry acc (key e) (val e)) acc) k 0 =
      Dict.getD acc k 0 + (es.map fun e => if key e = k then val e else 0).sum := by
  induction es generalizing acc with
  | nil => simp
  | cons e r ih =>
    rw [List.foldl_cons, ih, getD_addEntry, List.map_cons, List.sum_cons, add_assoc]

theorem sum_indicator_range (n a : Nat) (c : GQ) :
    ((List.range n).map fun i => if i = a then c else 0).sum = if a < n then c else 0 := by
  induction n with
  | zero => simp
  | succ k ih =>
    rw [List.range_succ, List.map_append, List.sum_append, ih]
    by_cases h1 : a < k
    · have : ¬ k = a := by omega
      simp [h1, this, show a < k + 1 by omega]
    · by_cases h2 : k = a
      · subst h2; simp
      · simp [h1, h2, show ¬ a < k + 1 by omega]

theorem sum_filterMap {β γ : Type} (g : β → Option γ) (F : γ → GQ) (L : List β) :
    ((L.filterMap g).map F).sum = (L.map fun s => (g s).elim 0 F).sum := by
  induction L with
  | nil => rfl
  | cons s r ih =>
    rw [List.filterMap_cons]
    cases h : g s with
    | none => simp [h, ih]
    | some e => simp [h, ih]

theorem sum_filter {β : Type} (p : β → Bool) (F : β → GQ) (L : List β) :
    ((L.filter p).map F).sum = (L.map fun s => if p s then F s else 0).sum := by
  induction L with
  | nil => rfl
  | cons s r ih =>
    rw [List.filter_cons]
    by_cases h : p s = true
    · simp [h, ih]
    · simp [h, ih]

/-! ### the lookup of one basis determinant -/

/-- the body of the loop of `_build_term_op_` for the basis determinant number `s` -/
def lookupEntry (t : Term) (states : List Det) (s : Nat) : Option (Nat × Nat × Nat) :=
  let d := states.getD s []
  let r := applyTermDet t d
  let enc := encodeDet r.2
  let pos := searchsorted (states.map encodeDet) enc (argsort (states.map encodeDet))
  if pos ≥ states.length then none else
  let target := (argsort (states.map encodeDet)).getD pos 0
  if (states.map encodeDet).getD target 0 == enc then some (target, s, r.1) else none

theorem buildTermOp_eq (t : Term) (states : List Det) :
    buildTermOp t states (states.map encodeDet) (argsort (states.map encodeDet)) =
      if (termPlan t).delta != 0 then .error .valueError else
        .ok (((List.range states.length).filter fun s => passes t (states.getD s [])).filterMap (lookupEntry t states)) := rfl

theorem lookupEntry_found (t : Term) (states : List Det) (n : Nat) (hnd : states.Nodup)
    (hlen : ∀ d ∈ states, d.length = n) (s r : Nat) (hr : r < states.length)
    (htg : states.getD r [] = (applyTermDet t (states.getD s [])).2) :
    lookupEntry t states s = some (r, s, (applyTermDet t (states.getD s [])).1) := by
  have hk := nodup_encodings states n hnd hlen
  have hkl : (states.map encodeDet).length = states.length := List.length_map _
  obtain ⟨_, l2⟩ := lookup_sound' (states.map encodeDet) hk (encodeDet (applyTermDet t (states.getD s [])).2)
  have hkt : (states.map encodeDet).getD r 0 = encodeDet (applyTermDet t (states.getD s [])).2 := by
    rw [getD_map_encode states r hr, htg]
  obtain ⟨hp, htar⟩ := l2 r (by rw [hkl]; exact hr) hkt
  rw [hkl] at hp
  unfold lookupEntry
  dsimp only
  rw [if_neg (by omega), htar, hkt]
  simp

theorem lookupEntry_some (t : Term) (states : List Det) (n : Nat) (hnd : states.Nodup)
    (hlen : ∀ d ∈ states, d.length = n) (s : Nat) (hs : s < states.length) (e : Nat × Nat × Nat)
    (h : lookupEntry t states s = some e) :
    e.2.1 = s ∧ e.1 < states.length ∧ states.getD e.1 [] = (applyTermDet t (states.getD s [])).2 := by
  have hk := nodup_encodings states n hnd hlen
  have hkl : (states.map encodeDet).length = states.length := List.length_map _
  have hd : states.getD s [] ∈ states := by
    rw [List.getD_eq_getElem?_getD, List.getElem?_eq_getElem hs]; exact List.getElem_mem hs
  unfold lookupEntry at h
  dsimp only at h
  split at h
  · cases h
  · rename_i hpos
    split at h
    · rename_i heq
      simp only [Option.some.injEq] at h
      subst h
      have hpos' : searchsorted (states.map encodeDet) (encodeDet (applyTermDet t (states.getD s [])).2)
          (argsort (states.map encodeDet)) < (states.map encodeDet).length := by rw [hkl]; omega
      have heq' := beq_iff_eq.mp heq
      obtain ⟨l1, l2⟩ := lookup_sound' (states.map encodeDet) hk (encodeDet (applyTermDet t (states.getD s [])).2)
      have hmem := l1.mp ⟨hpos', heq'⟩
      obtain ⟨t', ht', hkt⟩ := List.getElem_of_mem hmem
      have hkt' : (states.map encodeDet).getD t' 0 = encodeDet (applyTermDet t (states.getD s [])).2 := by
        rw [List.getD_eq_getElem?_getD, List.getElem?_eq_getElem ht']; exact hkt
      obtain ⟨_, htar⟩ := l2 t' ht' hkt'
      have ht'' : t' < states.length := by rw [← hkl]; exact ht'
      refine ⟨rfl, by rw [htar]; exact ht'', ?_⟩
      show states.getD ((argsort (states.map encodeDet)).getD _ 0) [] = _
      rw [htar]
      rw [getD_map_encode states t' ht''] at hkt'
      have hdt : states.getD t' [] ∈ states := by
        rw [List.getD_eq_getElem?_getD, List.getElem?_eq_getElem ht'']; exact List.getElem_mem ht''
      exact encodeDet_inj _ _ (by rw [hlen _ hdt, applyTermDet_length, hlen _ hd]) hkt'
    · cases h

/-! ### determinants and masks -/

theorem agree_unique_mask (d : Det) (m m' : Nat) (h : Agree d m) (h' : Agree d m') : m = m' :=
  Nat.eq_of_testBit_eq fun j => by rw [h j, h' j]

theorem agree_unique_det (d d' : Det) (m : Nat) (h : Agree d m) (h' : Agree d' m) (hl : d.length = d'.length) : d = d' := by
  apply List.ext_getElem hl
  intro j h1 h2
  have e1 : d.getD j false = d[j] := by rw [List.getD_eq_getElem?_getD, List.getElem?_eq_getElem h1]; rfl
  have e2 : d'.getD j false = d'[j] := by rw [List.getD_eq_getElem?_getD, List.getElem?_eq_getElem h2]; rfl
  rw [← e1, ← e2, ← h j, ← h' j]

theorem getD_mem (states : List Det) (i : Nat) (h : i < states.length) : states.getD i [] ∈ states := by
  rw [List.getD_eq_getElem?_getD, List.getElem?_eq_getElem h]; exact List.getElem_mem h

theorem index_unique (states : List Det) (hnd : states.Nodup) (r c : Nat) (hr : r < states.length) (hc : c < states.length)
    (h : states.getD r [] = states.getD c []) : r = c := by
  rw [List.getD_eq_getElem?_getD, List.getD_eq_getElem?_getD, List.getElem?_eq_getElem hr, List.getElem?_eq_getElem hc] at h
  exact (List.Nodup.getElem_inj_iff hnd).mp (by simpa using h)

theorem sgn_congr (a b : Nat) (h : a % 2 = b % 2) : GQ.sgn a = GQ.sgn b := by
  unfold GQ.sgn; rw [h]

/-- the entries of one normal-ordered term, accumulated at the position `(r, c)`, are the Spec contribution of the
term to `⟨r| · |c⟩` -/
theorem term_entries_sum (cr an : List Nat) (hc : cr.Nodup) (ha : an.Nodup) (coef : GQ)
    (states : List Det) (n : Nat) (hnd : states.Nodup) (hlen : ∀ d ∈ states, d.length = n)
    (hlt : ∀ f ∈ noTerm cr an, f.1 < n)
    (ms : Nat → Nat) (hms : ∀ i, i < states.length → Agree (states.getD i []) (ms i))
    (r c : Nat) (hr : r < states.length) (hcl : c < states.length) :
    ((((List.range states.length).filter fun s => passes (noTerm cr an) (states.getD s [])).filterMap
        (lookupEntry (noTerm cr an) states)).map
      fun e => if (e.1, e.2.1) = (r, c) then coef * GQ.sgn e.2.2 else 0).sum =
      contrib (ms c) (ms r) (noTerm cr an, coef) := by
  rw [sum_filterMap, sum_filter]
  have hpoint : ∀ s ∈ List.range states.length,
      (if passes (noTerm cr an) (states.getD s []) = true then
        (lookupEntry (noTerm cr an) states s).elim 0
          (fun e => if (e.1, e.2.1) = (r, c) then coef * GQ.sgn e.2.2 else 0) else 0) =
      if s = c then contrib (ms c) (ms r) (noTerm cr an, coef) else 0 := by
    intro s hs
    have hs' : s < states.length := List.mem_range.mp hs
    by_cases hsc : s = c
    · subst hsc
      rw [if_pos rfl]
      have hags := hms s hs'
      have hpf := passes_iff_action cr an hc ha (states.getD s []) (ms s) hags
      unfold contrib
      cases hact : actFTerm (noTerm cr an) (ms s) with
      | none =>
        have : passes (noTerm cr an) (states.getD s []) = false := by
          cases hp : passes (noTerm cr an) (states.getD s []) with
          | false => rfl
          | true => have := hpf.mp hp; rw [hact] at this; simp at this
        rw [this]; rfl
      | some km =>
        obtain ⟨k', m'⟩ := km
        have hp : passes (noTerm cr an) (states.getD s []) = true := hpf.mpr (by rw [hact]; rfl)
        obtain ⟨hk, hagt⟩ := applyTermDet_sound (noTerm cr an) (states.getD s []) (ms s) hags
          (by rw [hlen _ (getD_mem states s hs')]; exact hlt) k' m' hact
        rw [if_pos hp]
        simp only
        by_cases hm : m' = ms r
        · have htg : states.getD r [] = (applyTermDet (noTerm cr an) (states.getD s [])).2 :=
            agree_unique_det _ _ m' (by rw [hm]; exact hms r hr) hagt
              (by rw [hlen _ (getD_mem states r hr), applyTermDet_length, hlen _ (getD_mem states s hs')])
          rw [lookupEntry_found (noTerm cr an) states n hnd hlen s r hr htg]
          simp only [Option.elim, if_pos hm, if_true]
          rw [sgn_congr _ _ hk]
        · rw [if_neg hm]
          cases hl : lookupEntry (noTerm cr an) states s with
          | none => rfl
          | some e =>
            obtain ⟨_, he1, he2⟩ := lookupEntry_some (noTerm cr an) states n hnd hlen s hs' e hl
            have : ¬ (e.1, e.2.1) = (r, s) := by
              intro heq
              have h1 : e.1 = r := (Prod.mk.injEq _ _ _ _ ▸ heq).1
              apply hm
              rw [h1] at he2
              exact agree_unique_mask _ m' (ms r) (by rw [he2]; exact hagt) (hms r hr)
            simp only [Option.elim, this, if_false]
    · rw [if_neg hsc]
      split
      · cases hl : lookupEntry (noTerm cr an) states s with
        | none => rfl
        | some e =>
          obtain ⟨he0, _, _⟩ := lookupEntry_some (noTerm cr an) states n hnd hlen s hs' e hl
          have : ¬ (e.1, e.2.1) = (r, c) := by
            intro heq
            have h2 : e.2.1 = c := (Prod.mk.injEq _ _ _ _ ▸ heq).2
            exact hsc (he0.symm.trans h2)
          simp only [Option.elim, this, if_false]
      · rfl
  rw [List.map_congr_left hpoint, sum_indicator_range, if_pos hcl]

/-! ### the loop over the terms -/

/-- the body of the loop over the terms of the normal-ordered operator -/
def npsStep (states : List Det) (acc : SparseM) (tc : Term × GQ) : Except Err SparseM :=
  if tc.1.isEmpty then
    pure ((List.range states.length).foldl (fun acc i => addEntry acc (i, i) tc.2) acc)
  else do
    let es ← buildTermOp tc.1 states (states.map encodeDet) (argsort (states.map encodeDet))
    pure (es.foldl (fun acc e => addEntry acc (e.1, e.2.1) (tc.2 * GQ.sgn e.2.2)) acc)

/-- a term as `normal_ordered` produces it: creation operators on distinct modes, then annihilation operators on
distinct modes, all modes `< n` -/
def NormalTerm (n : Nat) (t : Term) : Prop :=
  ∃ cr an, t = noTerm cr an ∧ cr.Nodup ∧ an.Nodup ∧ ∀ f ∈ t, f.1 < n

theorem same_index_iff_same_mask (states : List Det) (n : Nat) (hnd : states.Nodup) (hlen : ∀ d ∈ states, d.length = n)
    (ms : Nat → Nat) (hms : ∀ i, i < states.length → Agree (states.getD i []) (ms i))
    (r c : Nat) (hr : r < states.length) (hc : c < states.length) : ms c = ms r ↔ r = c := by
  constructor
  · intro h
    apply index_unique states hnd r c hr hc
    exact agree_unique_det _ _ (ms r) (hms r hr) (by rw [← h]; exact hms c hc)
      (by rw [hlen _ (getD_mem states r hr), hlen _ (getD_mem states c hc)])
  · intro h; rw [h]

theorem npsStep_sound (states : List Det) (n : Nat) (hnd : states.Nodup) (hlen : ∀ d ∈ states, d.length = n)
    (ms : Nat → Nat) (hms : ∀ i, i < states.length → Agree (states.getD i []) (ms i))
    (tc : Term × GQ) (hno : NormalTerm n tc.1) (acc M : SparseM) (h : npsStep states acc tc = .ok M)
    (r c : Nat) (hr : r < states.length) (hc : c < states.length) :
    Dict.getD M (r, c) 0 = Dict.getD acc (r, c) 0 + contrib (ms c) (ms r) tc := by
  unfold npsStep at h
  obtain ⟨t, coef⟩ := tc
  split at h
  · rename_i hemp
    have ht : t = [] := List.isEmpty_iff.mp hemp
    simp only [pure, Except.pure, Except.ok.injEq] at h
    subst h
    subst ht
    rw [getD_fold_addEntry (List.range states.length) (fun i => (i, i)) (fun _ => coef)]
    congr 1
    have hcontrib : contrib (ms c) (ms r) (([] : Term), coef) = if ms c = ms r then coef else 0 := by
      unfold contrib
      have : actFTerm [] (ms c) = some (0, ms c) := rfl
      rw [this]
      simp [OFV.Proofs.C03.sgn_zero]
    rw [hcontrib]
    by_cases hrc : r = c
    · subst hrc
      have : ((List.range states.length).map fun i => if (i, i) = (r, r) then coef else 0) =
          (List.range states.length).map fun i => if i = r then coef else 0 := by
        apply List.map_congr_left; intro i _
        by_cases hi : i = r <;> simp [hi]
      rw [this, sum_indicator_range, if_pos hr]; simp
    · have : ((List.range states.length).map fun i => if (i, i) = (r, c) then coef else 0) =
          (List.range states.length).map fun i => if i = states.length then coef else 0 := by
        apply List.map_congr_left; intro i hi
        have h1 : ¬ (i, i) = (r, c) := by
          intro e; simp only [Prod.mk.injEq] at e; exact hrc (e.1.symm.trans e.2)
        have h2 : ¬ i = states.length := by have := List.mem_range.mp hi; omega
        simp [h1, h2]
      rw [this, sum_indicator_range, if_neg (by omega)]
      have hne : ¬ ms c = ms r := fun e => hrc ((same_index_iff_same_mask states n hnd hlen ms hms r c hr hc).mp e)
      rw [if_neg hne]
  · obtain ⟨cr, an, htn, hcn, han, hlt⟩ := hno
    simp only at htn hlt
    subst htn
    rw [buildTermOp_eq] at h
    split at h
    · simp [bind, Except.bind] at h
    · simp only [bind, Except.bind, pure, Except.pure, Except.ok.injEq] at h
      subst h
      rw [getD_fold_addEntry _ (fun (e : Nat × Nat × Nat) => (e.1, e.2.1)) (fun (e : Nat × Nat × Nat) => coef * GQ.sgn e.2.2)]
      congr 1
      exact term_entries_sum cr an hcn han coef states n hnd hlen hlt ms hms r c hr hc

theorem nps_fold_sound (states : List Det) (n : Nat) (hnd : states.Nodup) (hlen : ∀ d ∈ states, d.length = n)
    (ms : Nat → Nat) (hms : ∀ i, i < states.length → Agree (states.getD i []) (ms i))
    (opNO : Op) (hno : ∀ tc ∈ opNO, NormalTerm n tc.1) (acc M : SparseM)
    (h : opNO.foldlM (npsStep states) acc = .ok M)
    (r c : Nat) (hr : r < states.length) (hc : c < states.length) :
    Dict.getD M (r, c) 0 = Dict.getD acc (r, c) 0 + (opNO.map (contrib (ms c) (ms r))).sum := by
  induction opNO generalizing acc with
  | nil =>
    simp only [List.foldlM_nil, pure, Except.pure, Except.ok.injEq] at h
    subst h; simp
  | cons tc rest ih =>
    rw [List.foldlM_cons] at h
    cases h1 : npsStep states acc tc with
    | error e => simp [h1, bind, Except.bind] at h
    | ok acc1 =>
      simp only [h1, bind, Except.bind] at h
      rw [ih (fun tc' h' => hno tc' (List.mem_cons_of_mem _ h')) acc1 h,
        npsStep_sound states n hnd hlen ms hms tc (hno tc (by simp)) acc acc1 h1 r c hr hc]
      simp [add_assoc]

/-! ### the whole function -/

/-- the reference determinant and the excitation level the function uses -/
def npsRef (n ne : Nat) (ref : Option Det) : Det := ref.getD ((List.range n).map fun i => decide (i < ne))

theorem nps_unfold (opNO : Op) (n ne : Nat) (spin : Bool) (ref : Option Det) (level : Option Nat) :
    numberPreservingSparse opNO n ne spin ref level =
      (do let m ← opNO.foldlM (npsStep (iterateBasis (npsRef n ne ref) (level.getD ne) spin)) []
          pure (iterateBasis (npsRef n ne ref) (level.getD ne) spin, m)) := rfl

theorem iterateBasis_nodup_length (ref : Det) (level : Nat) (spin : Bool) :
    (iterateBasis ref level spin).Nodup ∧ ∀ d ∈ iterateBasis ref level spin, d.length = ref.length := by
  cases spin with
  | false =>
    obtain ⟨h1, h2⟩ := iterateBasis_nospin ref level
    exact ⟨h1, fun d hd => ((h2 d).mp hd).1⟩
  | true =>
    obtain ⟨h1, h2⟩ := iterateBasis_spin ref level
    exact ⟨h1, fun d hd => ((h2 d).mp hd).1⟩

/-- **number_preserving_sparse_operator_sound**: the matrix is the compression of the (normal-ordered) operator to
the basis of determinants: entry `(r, c)` is the Spec matrix element between the basis states of the determinants
number `r` and `c` -/
theorem nps_sound (opNO : Op) (n ne : Nat) (spin : Bool) (ref : Option Det) (level : Option Nat)
    (states : List Det) (M : SparseM) (h : numberPreservingSparse opNO n ne spin ref level = .ok (states, M))
    (hno : ∀ tc ∈ opNO, NormalTerm (npsRef n ne ref).length tc.1)
    (ms : Nat → Nat) (hms : ∀ i, i < states.length → Agree (states.getD i []) (ms i))
    (r c : Nat) (hr : r < states.length) (hc : c < states.length) :
    states = iterateBasis (npsRef n ne ref) (level.getD ne) spin ∧
      Dict.getD M (r, c) 0 = melF opNO (ms r) (ms c) := by
  rw [nps_unfold] at h
  cases h1 : opNO.foldlM (npsStep (iterateBasis (npsRef n ne ref) (level.getD ne) spin)) [] with
  | error e => simp [h1, bind, Except.bind] at h
  | ok m =>
    simp only [h1, bind, Except.bind, pure, Except.pure, Except.ok.injEq, Prod.mk.injEq] at h
    obtain ⟨hst, hm⟩ := h
    subst hm
    refine ⟨hst.symm, ?_⟩
    obtain ⟨hnd, hlen⟩ := iterateBasis_nodup_length (npsRef n ne ref) (level.getD ne) spin
    rw [hst] at hnd hlen h1
    have := nps_fold_sound states (npsRef n ne ref).length hnd hlen ms hms opNO hno [] m h1 r c hr hc
    rw [this, melF_eq_sum]
    simp [Dict.getD, Dict.get?]

end OFV.C10
