/- C18 — relational (parametricity) lemmas: `pair_within` treats two label lists of the same
length position by position.  Used to align the bare labels of the two halves. -/
import OFV.Proofs.C18PairWithin
import Mathlib.Data.List.Forall2

namespace OFV.Proofs.C18
open OFV.Model.C18 OFV.Spec.C18 List

section
variable {β γ : Type}

/-- two pairing elements have the same constructor and related labels -/
inductive IR (R : β → γ → Prop) : Item β → Item γ → Prop
  | pr {a b a' b'} : R a a' → R b b' → IR R (.pr a b) (.pr a' b')
  | sg {a a'} : R a a' → IR R (.sg a) (.sg a')
  | bad : IR R .bad .bad

abbrev PR (R : β → γ → Prop) := Forall₂ (IR R)

theorem forall₂_append' {S : β → γ → Prop} {a b : List β} {a' b' : List γ}
    (h1 : Forall₂ S a a') (h2 : Forall₂ S b b') : Forall₂ S (a ++ b) (a' ++ b') :=
  List.rel_append h1 h2

theorem forall₂_snoc {S : β → γ → Prop} {q : List β} {q' : List γ} {a : β} {a' : γ}
    (h : Forall₂ S (q ++ [a]) (q' ++ [a'])) : Forall₂ S q q' ∧ S a a' := by
  have := forall₂_reverse_iff.mpr h
  simp only [reverse_append, reverse_cons, reverse_nil, nil_append, singleton_append,
    forall₂_cons] at this
  exact ⟨forall₂_reverse_iff.mp this.2, this.1⟩

theorem forall₂_zipWith {δ ε ζ η : Type} {S1 : β → γ → Prop} {S2 : δ → ε → Prop} {T : ζ → η → Prop}
    {f : β → δ → ζ} {g : γ → ε → η} {a : List β} {a' : List γ} {b : List δ} {b' : List ε}
    (h1 : Forall₂ S1 a a') (h2 : Forall₂ S2 b b')
    (hf : ∀ x x' y y', S1 x x' → S2 y y' → x ∈ a → x' ∈ a' → y ∈ b → y' ∈ b' → T (f x y) (g x' y')) :
    Forall₂ T (zipWith f a b) (zipWith g a' b') := by
  induction h1 generalizing b b' with
  | nil => simp
  | @cons x x' l l' hx _ ih =>
    cases h2 with
    | nil => simp
    | @cons y y' m m' hy hm =>
      simp only [zipWith_cons_cons, forall₂_cons]
      refine ⟨hf x x' y y' hx hy (by simp) (by simp) (by simp) (by simp), ?_⟩
      apply ih hm
      intro u u' v v' hu hv m1 m2 m3 m4
      exact hf u u' v v' hu hv (mem_cons_of_mem _ m1) (mem_cons_of_mem _ m2) (mem_cons_of_mem _ m3)
        (mem_cons_of_mem _ m4)

theorem forall₂_rotate {S : β → γ → Prop} {l : List β} {l' : List γ} (h : Forall₂ S l l') (n : Nat) :
    Forall₂ S (l.rotate n) (l'.rotate n) := by
  rw [rotate_eq_drop_append_take_mod, rotate_eq_drop_append_take_mod, h.length_eq]
  exact forall₂_append' (forall₂_drop _ h) (forall₂_take _ h)

theorem forall₂_map_sg {R : β → γ → Prop} {l : List β} {l' : List γ} (h : Forall₂ R l l') :
    PR R (l.map Item.sg) (l'.map Item.sg) := by
  induction h with
  | nil => simp
  | cons hx _ ih => exact Forall₂.cons (IR.sg hx) ih

theorem rotL_rel {R : β → γ → Prop} {f r : List β} {f' r' : List γ}
    (hf : Forall₂ R f f') (hr : Forall₂ R r r') : PR R (rotL f r) (rotL f' r') := by
  unfold rotL
  refine forall₂_append' ?_ ?_
  · exact forall₂_zipWith hf hr (fun x x' y y' hx hy _ _ _ _ => IR.pr hx hy)
  · rw [hf.length_eq]; exact forall₂_map_sg (forall₂_drop _ hr)

end

section
variable {α : Type}

theorem pairBetweenAt_rel {R : Option α → Option α → Prop} {f1 f2 f1' f2' : List (Option α)}
    (h1 : Forall₂ R f1 f1') (h2 : Forall₂ R f2 f2') (hle : f1.length ≤ f2.length) (io : Nat) :
    PR R (pairBetweenAt f1 f2 io) (pairBetweenAt f1' f2' io) := by
  rw [pairBetweenAt_eq_rotL _ _ _ hle,
    pairBetweenAt_eq_rotL _ _ _ (by rw [← h1.length_eq, ← h2.length_eq]; exact hle)]
  exact rotL_rel h1 (forall₂_rotate h2 io)

theorem pairBetween_rel {R : Option α → Option α → Prop} {f1 f2 f1' f2' : List (Option α)}
    (h1 : Forall₂ R f1 f1') (h2 : Forall₂ R f2 f2') (hle : f1.length ≤ f2.length) (off : Nat) :
    Forall₂ (PR R) (pairBetween f1 f2 off) (pairBetween f1' f2' off) := by
  have key : ∀ rg : List Nat, Forall₂ (PR R) (rg.map (pairBetweenAt f1 f2)) (rg.map (pairBetweenAt f1' f2')) := by
    intro rg
    induction rg with
    | nil => simp
    | cons io rg ih => exact Forall₂.cons (pairBetweenAt_rel h1 h2 hle io) ih
  simp only [pairBetween]
  rw [← h1.length_eq, ← h2.length_eq]
  exact key _


/-! ### `combine` on related pairings -/

def NoneResp (R₁ : Option α → Option α → Prop) : Prop := ∀ x y, R₁ x y → (x = none ↔ y = none)

theorem dnp_rel {R₁ : Option α → Option α → Prop} (hN : NoneResp R₁) {q q' : Pairing (Option α)}
    (h : PR R₁ q q') : PR R₁ (dropNonePairs q) (dropNonePairs q') := by
  induction h with
  | nil => exact Forall₂.nil
  | @cons it it' r r' hit _ ih =>
    cases hit with
    | @pr a b a' b' ha hb =>
      cases b with
      | none =>
        have : b' = none := (hN _ _ hb).mp rfl
        subst this; simpa [dropNonePairs] using ih
      | some b0 =>
        cases b' with
        | none => exact absurd ((hN _ _ hb).mpr rfl) (by simp)
        | some b0' => exact Forall₂.cons (IR.pr ha hb) ih
    | sg ha => exact Forall₂.cons (IR.sg ha) ih
    | bad => exact Forall₂.cons IR.bad ih

theorem zeroIndices_rel {R₁ : Option α → Option α → Prop} (hN : NoneResp R₁) {q q' : Pairing (Option α)}
    (h : PR R₁ q q') : ∀ {zs zs' : List (Option α)}, zeroIndices q = some zs → zeroIndices q' = some zs' →
      Forall₂ R₁ zs zs' := by
  induction h with
  | nil => intro zs zs' h1 h2; simp [zeroIndices] at h1 h2; subst h1 h2; exact Forall₂.nil
  | @cons it it' r r' hit _ ih =>
    intro zs zs' h1 h2
    cases hit with
    | @pr a b a' b' ha hb =>
      cases b with
      | none =>
        have : b' = none := (hN _ _ hb).mp rfl
        subst this
        simp only [zeroIndices, Option.map_eq_some_iff] at h1 h2
        obtain ⟨w, hw, rfl⟩ := h1
        obtain ⟨w', hw', rfl⟩ := h2
        exact Forall₂.cons ha (ih hw hw')
      | some b0 =>
        cases b' with
        | none => exact absurd ((hN _ _ hb).mpr rfl) (by simp)
        | some b0' => simp only [zeroIndices] at h1 h2; exact ih h1 h2
    | sg ha => simp [zeroIndices] at h1
    | bad => simp [zeroIndices] at h1

theorem PR_upgrade {R₁ R : Option α → Option α → Prop} (hup : ∀ x y, R₁ x y → x ≠ none → R x y)
    {p p' : Pairing (Option α)} (h : PR R₁ p p') (hn : none ∉ labelsOf p) : PR R p p' := by
  induction h with
  | nil => exact Forall₂.nil
  | @cons it it' r r' hit _ ih =>
    cases hit with
    | @pr a b a' b' ha hb =>
      simp only [labelsOf, mem_cons, not_or] at hn
      exact Forall₂.cons (IR.pr (hup _ _ ha (Ne.symm hn.1)) (hup _ _ hb (Ne.symm hn.2.1))) (ih hn.2.2)
    | sg ha =>
      simp only [labelsOf, mem_cons, not_or] at hn
      exact Forall₂.cons (IR.sg (hup _ _ ha (Ne.symm hn.1))) (ih hn.2)
    | bad => exact Forall₂.cons IR.bad (ih (by simpa [labelsOf] using hn))

theorem PR_snoc_sg {R : Option α → Option α → Prop} {q q' : Pairing (Option α)} {x x' : Option α}
    (h : PR R (q ++ [Item.sg x]) (q' ++ [Item.sg x'])) : PR R q q' ∧ R x x' := by
  obtain ⟨a, b⟩ := forall₂_snoc h
  cases b with
  | sg hx => exact ⟨a, hx⟩

theorem combine_rel2 {R : Option α → Option α → Prop} {q1 q1' q2 q2' : Pairing (Option α)}
    {x x' y y' : Option α}
    (h1 : PR R (q1 ++ [Item.sg x]) (q1' ++ [Item.sg x'])) (h2 : PR R (q2 ++ [Item.sg y]) (q2' ++ [Item.sg y'])) :
    PR R (combine 2 (q1 ++ [Item.sg x]) (q2 ++ [Item.sg y])) (combine 2 (q1' ++ [Item.sg x']) (q2' ++ [Item.sg y'])) := by
  obtain ⟨a1, b1⟩ := PR_snoc_sg h1
  obtain ⟨a2, b2⟩ := PR_snoc_sg h2
  have hc : ∀ (u v : Pairing (Option α)) (s t : Option α),
      combine 2 (u ++ [Item.sg s]) (v ++ [Item.sg t]) = u ++ v ++ [Item.pr s t] := by
    intro u v s t; simp [combine, lastLab_snoc]
  rw [hc, hc]
  exact forall₂_append' (forall₂_append' a1 a2) (Forall₂.cons (IR.pr b1 b2) Forall₂.nil)

theorem combine_rel3 {R : Option α → Option α → Prop} {q1 q1' p2 p2' : Pairing (Option α)}
    {x x' : Option α}
    (h1 : PR R (q1 ++ [Item.sg x]) (q1' ++ [Item.sg x'])) (h2 : PR R p2 p2') :
    PR R (combine 3 (q1 ++ [Item.sg x]) p2) (combine 3 (q1' ++ [Item.sg x']) p2') := by
  obtain ⟨a1, b1⟩ := PR_snoc_sg h1
  have hc : ∀ (u v : Pairing (Option α)) (s : Option α),
      combine 3 (u ++ [Item.sg s]) v = u ++ v ++ [Item.sg s] := by
    intro u v s; simp [combine]
  rw [hc, hc]
  exact forall₂_append' (forall₂_append' a1 h2) (Forall₂.cons (IR.sg b1) Forall₂.nil)


theorem combine_rel1 {R₁ R : Option α → Option α → Prop} (hN : NoneResp R₁)
    (hup : ∀ x y, R₁ x y → x ≠ none → R x y)
    {f1 f1' : List (Option α)} (hnd : (f1 ++ [none]).Nodup) (hnd' : (f1' ++ [none]).Nodup)
    {q1 q1' q2 q2' : Pairing (Option α)} {x1 x1' y y' : Option α}
    (g1 : Good (f1 ++ [none]) (q1 ++ [Item.sg x1])) (g1' : Good (f1' ++ [none]) (q1' ++ [Item.sg x1']))
    (hq1 : allPairs q1 = true) (hq1' : allPairs q1' = true)
    (h1 : PR R₁ (q1 ++ [Item.sg x1]) (q1' ++ [Item.sg x1']))
    (h2 : PR R (q2 ++ [Item.sg y]) (q2' ++ [Item.sg y'])) :
    PR R (combine 1 (q1 ++ [Item.sg x1]) (q2 ++ [Item.sg y]))
      (combine 1 (q1' ++ [Item.sg x1']) (q2' ++ [Item.sg y'])) := by
  obtain ⟨a1, b1⟩ := PR_snoc_sg h1
  obtain ⟨a2, b2⟩ := PR_snoc_sg h2
  have hp1 := g1.perm; have hp1' := g1'.perm
  simp only [labelsOf_append, labelsOf] at hp1 hp1'
  have hn1 : (labelsOf q1 ++ [x1]).Nodup := hp1.nodup_iff.mpr hnd
  have hn1' : (labelsOf q1' ++ [x1']).Nodup := hp1'.nodup_iff.mpr hnd'
  have hlast : ∀ f : List (Option α), (f ++ [none]).getLast? = some (none : Option α) := by intro f; simp
  cases x1 with
  | none =>
    have e : x1' = none := (hN _ _ b1).mp rfl
    subst e
    have hc : ∀ (u v : Pairing (Option α)) (t : Option α),
        combine 1 (u ++ [Item.sg none]) (v ++ [Item.sg t]) = u ++ v ++ [Item.sg t] := by
      intro u v t; simp [combine, lastLab_snoc]
    rw [hc, hc]
    have hfree : none ∉ labelsOf q1 := by
      intro hm
      have := (List.nodup_append.mp hn1).2.2 _ hm none (by simp)
      exact this rfl
    exact forall₂_append' (forall₂_append' (PR_upgrade hup a1 hfree) a2)
      (Forall₂.cons (IR.sg b2) Forall₂.nil)
  | some x =>
    cases x1' with
    | none => exact absurd ((hN _ _ b1).mpr rfl) (by simp)
    | some x' =>
      have facts : ∀ (f : List (Option α)) (q : Pairing (Option α)) (w : α),
          Good (f ++ [none]) (q ++ [Item.sg (some w)]) → allPairs q = true →
          (labelsOf q ++ [some w]).Perm (f ++ [none]) → (labelsOf q ++ [some w]).Nodup →
          ∃ z, zeroIndices q = some [z] ∧ z ≠ none ∧ none ∉ labelsOf (dropNonePairs q) := by
        intro f q w g hq hp hn
        have hqnd : (labelsOf q).Nodup := (List.nodup_append.mp hn).1
        have hmem : none ∈ labelsOf q := by
          have : none ∈ labelsOf q ++ [some w] := hp.symm.subset (by simp)
          simpa using this
        have hfirst : ∀ v, Item.pr none v ∉ q := fun v hv =>
          g.last none (hlast f) v (List.mem_append_left _ hv)
        obtain ⟨z, hz1, hz2, _⟩ := zeroIndices_spec q hq hqnd hmem hfirst
        have hnd2 : (z :: none :: labelsOf (dropNonePairs q)).Nodup := hz2.nodup_iff.mp hqnd
        refine ⟨z, hz1, ?_, ?_⟩
        · intro e; subst e; simp at hnd2
        · intro hm
          have := (List.nodup_cons.mp (List.nodup_cons.mp hnd2).2).1
          exact this hm
      obtain ⟨z, hz1, hzne, hfree⟩ := facts f1 q1 x g1 hq1 hp1 hn1
      obtain ⟨z', hz1', _, _⟩ := facts f1' q1' x' g1' hq1' hp1' hn1'
      have hc : ∀ (u v : Pairing (Option α)) (s : α) (t zz : Option α), zeroIndices u = some [zz] →
          combine 1 (u ++ [Item.sg (some s)]) (v ++ [Item.sg t]) =
            dropNonePairs u ++ v ++ [Item.pr (some s) t] ++ [Item.sg zz] := by
        intro u v s t zz hz; simp [combine, lastLab_snoc, hz]
      rw [hc _ _ _ _ _ hz1, hc _ _ _ _ _ hz1']
      have hzz : R₁ z z' := by
        have := zeroIndices_rel hN a1 hz1 hz1'
        exact (forall₂_cons.mp this).1
      refine forall₂_append' (forall₂_append' (forall₂_append' ?_ a2) ?_) ?_
      · exact PR_upgrade hup (dnp_rel hN a1) hfree
      · exact Forall₂.cons (IR.pr (hup _ _ b1 (by simp)) b2) Forall₂.nil
      · exact Forall₂.cons (IR.sg (hup _ _ hzz hzne)) Forall₂.nil


/-! ### `pair_within` on two related lists -/

theorem pairWithinAux_succ (fuel : Nat) (l : List (Option α)) (h : 2 ≤ l.length) :
    pairWithinAux (fuel + 1) l =
      pairBetween (l.take (l.length / 2)) (l.drop (l.length / 2)) ((l.drop (l.length / 2)).length % 2) ++
        List.zipWith (combine (l.length % 4))
          (pairWithinAux fuel
            (if l.length % 4 = 1 then l.take (l.length / 2) ++ [none] else l.take (l.length / 2)))
          (pairWithinAux fuel (l.drop (l.length / 2))) := by
  match l, h with
  | a :: b :: t, _ => simp only [pairWithinAux]

structure SplitFacts (l f1 f2 : List (Option α)) : Prop where
  split : l = f1 ++ f2
  len1 : f1.length = l.length / 2
  len2 : f2.length = l.length - l.length / 2
  ne : f2 ≠ []
  nd : (f1 ++ f2).Nodup
  nd1 : f1.Nodup
  nd2 : f2.Nodup
  none1 : none ∉ f1
  none2 : none ∉ f2.dropLast
  nd1' : (f1 ++ [none]).Nodup

theorem splitFacts (l : List (Option α)) (h2 : 2 ≤ l.length) (hnd : l.Nodup) (hnone : none ∉ l.dropLast) :
    SplitFacts l (l.take (l.length / 2)) (l.drop (l.length / 2)) := by
  have hsplit : l = l.take (l.length / 2) ++ l.drop (l.length / 2) := (List.take_append_drop _ l).symm
  have hlen1 : (l.take (l.length / 2)).length = l.length / 2 := by rw [List.length_take]; omega
  have hlen2 : (l.drop (l.length / 2)).length = l.length - l.length / 2 := by rw [List.length_drop]
  have hne : l.drop (l.length / 2) ≠ [] := by
    intro e; rw [e] at hlen2; simp at hlen2; omega
  have hnd' : (l.take (l.length / 2) ++ l.drop (l.length / 2)).Nodup := by rw [← hsplit]; exact hnd
  have hnone' : none ∉ l.take (l.length / 2) ∧ none ∉ (l.drop (l.length / 2)).dropLast := by
    have : none ∉ (l.take (l.length / 2) ++ l.drop (l.length / 2)).dropLast := by rw [← hsplit]; exact hnone
    rw [List.dropLast_append_of_ne_nil hne] at this
    exact ⟨fun h => this (List.mem_append_left _ h), fun h => this (List.mem_append_right _ h)⟩
  refine ⟨hsplit, hlen1, hlen2, hne, hnd', (List.nodup_append.mp hnd').1, (List.nodup_append.mp hnd').2.1,
    hnone'.1, hnone'.2, ?_⟩
  refine List.nodup_append.mpr ⟨(List.nodup_append.mp hnd').1, by simp, ?_⟩
  intro a ha b hb; simp at hb; subst hb; exact fun e => hnone'.1 (e ▸ ha)

/-- `pair_within` is parametric: on two lists related position by position (neither inspects more
than the `None`-ness of the labels it padded itself) the yields are related position by position. -/
theorem pairWithinAux_rel [DecidableEq α] : ∀ (fuel : Nat) (R : Option α → Option α → Prop)
    (l l' : List (Option α)), l.length ≤ fuel → Forall₂ R l l' → l.Nodup → l'.Nodup →
    none ∉ l.dropLast → none ∉ l'.dropLast →
    Forall₂ (PR R) (pairWithinAux fuel l) (pairWithinAux fuel l') := by
  intro fuel
  induction fuel with
  | zero =>
    intro R l l' hl hR _ _ _ _
    have e : l = [] := List.length_eq_zero_iff.mp (by omega)
    subst e; cases hR; simp [pairWithinAux]
  | succ fuel ih =>
    intro R l l' hl hR hnd hnd' hnone hnone'
    have hlen := hR.length_eq
    by_cases h2 : 2 ≤ l.length
    · have h2' : 2 ≤ l'.length := by omega
      rw [pairWithinAux_succ fuel l h2, pairWithinAux_succ fuel l' h2', ← hlen]
      have F := splitFacts l h2 hnd hnone
      have F' := splitFacts l' h2' hnd' hnone'
      rw [← hlen] at F'
      have hR1 : Forall₂ R (l.take (l.length / 2)) (l'.take (l.length / 2)) := forall₂_take _ hR
      have hR2 : Forall₂ R (l.drop (l.length / 2)) (l'.drop (l.length / 2)) := forall₂_drop _ hR
      generalize l.take (l.length / 2) = f1 at *
      generalize l.drop (l.length / 2) = f2 at *
      generalize l'.take (l.length / 2) = f1' at *
      generalize l'.drop (l.length / 2) = f2' at *
      have e2 : f2'.length = f2.length := by rw [F.len2, F'.len2, hlen]
      have e1 : f1'.length = f1.length := by rw [F.len1, F'.len1, hlen]
      rw [e2]
      have hle : f1.length ≤ f2.length := by rw [F.len1, F.len2]; omega
      have ih2 := ih R f2 f2' (by rw [F.len2]; omega) hR2 F.nd2 F'.nd2 F.none2 F'.none2
      have inv2 := pairWithinAux_inv fuel f2 (by rw [F.len2]; omega) F.nd2 F.none2
      have inv2' := pairWithinAux_inv fuel f2' (by rw [F'.len2]; omega) F'.nd2 F'.none2
      refine forall₂_append' (pairBetween_rel hR1 hR2 hle _) ?_
      by_cases hr1 : l.length % 4 = 1
      · simp only [hr1, if_true]
        let R₁ : Option α → Option α → Prop :=
          fun x y => (R x y ∧ x ≠ none ∧ y ≠ none) ∨ (x = none ∧ y = none)
        have hN : NoneResp R₁ := by
          intro x y h
          rcases h with ⟨_, a, b⟩ | ⟨a, b⟩
          · exact ⟨fun e => absurd e a, fun e => absurd e b⟩
          · exact ⟨fun _ => b, fun _ => a⟩
        have hup : ∀ x y, R₁ x y → x ≠ none → R x y := by
          intro x y h hx
          rcases h with ⟨a, _, _⟩ | ⟨a, _⟩
          · exact a
          · exact absurd a hx
        have hR1' : Forall₂ R₁ (f1 ++ [none]) (f1' ++ [none]) := by
          refine forall₂_append' ?_ (Forall₂.cons (Or.inr ⟨rfl, rfl⟩) Forall₂.nil)
          have key : ∀ {a : List (Option α)} {a' : List (Option α)}, Forall₂ R a a' → none ∉ a → none ∉ a' →
              Forall₂ R₁ a a' := by
            intro a a' h
            induction h with
            | nil => intro _ _; exact Forall₂.nil
            | @cons x x' r r' hx _ ihh =>
              intro n1 n2
              simp only [mem_cons, not_or] at n1 n2
              exact Forall₂.cons (Or.inl ⟨hx, Ne.symm n1.1, Ne.symm n2.1⟩) (ihh n1.2 n2.2)
          exact key hR1 F.none1 F'.none1
        have ih1 := ih R₁ (f1 ++ [none]) (f1' ++ [none]) (by simp [F.len1]; omega) hR1' F.nd1' F'.nd1'
          (by simpa using F.none1) (by simpa using F'.none1)
        have inv1 := pairWithinAux_inv fuel (f1 ++ [none]) (by simp [F.len1]; omega) F.nd1'
          (by simpa using F.none1)
        have inv1' := pairWithinAux_inv fuel (f1' ++ [none]) (by simp [F'.len1]; omega) F'.nd1'
          (by simpa using F'.none1)
        refine forall₂_zipWith ih1 ih2 ?_
        intro p1 p1' p2 p2' hp1 hp2 m1 m1' m2 m2'
        have g1 := inv1.2 p1 m1
        have g1' := inv1'.2 p1' m1'
        have g2 := inv2.2 p2 m2
        have g2' := inv2'.2 p2' m2'
        have o1 : (f1 ++ [none]).length % 2 = 1 := by simp [F.len1]; omega
        have o1' : (f1' ++ [none]).length % 2 = 1 := by simp [F'.len1]; omega
        have o2 : f2.length % 2 = 1 := by rw [F.len2]; omega
        have o2' : f2'.length % 2 = 1 := by rw [F'.len2]; omega
        obtain ⟨q1, x1, rfl, hq1⟩ := shape_odd g1 o1
        obtain ⟨q1', x1', rfl, hq1'⟩ := shape_odd g1' o1'
        obtain ⟨q2, y, rfl, hq2⟩ := shape_odd g2 o2
        obtain ⟨q2', y', rfl, hq2'⟩ := shape_odd g2' o2'
        exact combine_rel1 hN hup F.nd1' F'.nd1' g1 g1' hq1 hq1' hp1 hp2
      · simp only [hr1, if_false]
        have ih1 := ih R f1 f1' (by rw [F.len1]; omega) hR1 F.nd1 F'.nd1
          (fun h => F.none1 (List.dropLast_subset _ h)) (fun h => F'.none1 (List.dropLast_subset _ h))
        have inv1 := pairWithinAux_inv fuel f1 (by rw [F.len1]; omega) F.nd1
          (fun h => F.none1 (List.dropLast_subset _ h))
        have inv1' := pairWithinAux_inv fuel f1' (by rw [F'.len1]; omega) F'.nd1
          (fun h => F'.none1 (List.dropLast_subset _ h))
        refine forall₂_zipWith ih1 ih2 ?_
        intro p1 p1' p2 p2' hp1 hp2 m1 m1' m2 m2'
        have g1 := inv1.2 p1 m1
        have g1' := inv1'.2 p1' m1'
        have g2 := inv2.2 p2 m2
        have g2' := inv2'.2 p2' m2'
        have hcases : l.length % 4 = 0 ∨ l.length % 4 = 2 ∨ l.length % 4 = 3 := by omega
        rcases hcases with e | e | e
        · rw [e]
          have hc : ∀ u v : Pairing (Option α), combine 0 u v = u ++ v := by intro u v; simp [combine]
          rw [hc, hc]; exact forall₂_append' hp1 hp2
        · rw [e]
          obtain ⟨q1, x1, rfl, _⟩ := shape_odd g1 (by rw [F.len1]; omega)
          obtain ⟨q1', x1', rfl, _⟩ := shape_odd g1' (by rw [F'.len1]; omega)
          obtain ⟨q2, y, rfl, _⟩ := shape_odd g2 (by rw [F.len2]; omega)
          obtain ⟨q2', y', rfl, _⟩ := shape_odd g2' (by rw [F'.len2]; omega)
          exact combine_rel2 hp1 hp2
        · rw [e]
          obtain ⟨q1, x1, rfl, _⟩ := shape_odd g1 (by rw [F.len1]; omega)
          obtain ⟨q1', x1', rfl, _⟩ := shape_odd g1' (by rw [F'.len1]; omega)
          exact combine_rel3 hp1 hp2
    · -- lengths 0 and 1
      match l, l', hR with
      | [], [], _ => simp [pairWithinAux]
      | [a], [a'], hR =>
        simp only [pairWithinAux]
        exact Forall₂.cons (Forall₂.cons (IR.sg (forall₂_cons.mp hR).1) Forall₂.nil) Forall₂.nil
      | a :: b :: t, _, _ => simp at h2

end
end OFV.Proofs.C18
