/-
C02 — Majorana strings are linearly independent in the Spec; consequently the general path of
`MajoranaOperator.commutes_with` (`self * other == other * self`) decides, in the exact regime,
whether the two products have the same Spec matrix elements.
-/
import OFV.Proofs.C02MajInd
import OFV.Proofs.C02MajEq
import OFV.Proofs.C03Canon3
import OFV.Proofs.C03Fock

namespace OFV
namespace Proofs
namespace C02
open Finset Spec Model Model.C02

/-- `⟨t| A |s⟩` for a MajoranaOperator dictionary (Spec.applyM) -/
def melM (A : MOp) (t s : Nat) : GQ := SV.coeff (applyM A s) t

theorem melM_eq_sum (A : MOp) (t s : Nat) :
    melM A t s = (A.map (fun e => e.2 * melA actMTerm e.1 s t)).sum := by
  unfold melM applyM
  have : ∀ (acc : SV), SV.coeff (A.foldl (fun acc (x : List Nat × GQ) =>
        let r := actMTerm x.1 s; SV.addEntry acc r.2 (x.2 * GQ.ipow r.1)) acc) t =
      SV.coeff acc t + (A.map (fun e => e.2 * melA actMTerm e.1 s t)).sum := by
    induction A with
    | nil => intro acc; simp
    | cons e r ih =>
      intro acc
      rw [List.foldl_cons, ih, List.map_cons, List.sum_cons, ← add_assoc]
      congr 1
      simp only [C03.coeff_addEntry]
      unfold melA
      by_cases h : (actMTerm e.1 s).2 = t <;> simp [h]
  have h0 := this []
  simp only [SV.coeff, Dict.getD, Dict.get?, Option.getD_none, zero_add] at h0 ⊢
  exact h0

/-- a Majorana dictionary as the class keeps it: distinct keys, strictly increasing index lists
on `n` modes -/
def MajGood (n : Nat) (A : MOp) : Prop :=
  Dict.WF A ∧ ∀ e ∈ A, e.1.Pairwise (· < ·) ∧ ∀ m ∈ e.1, m < 2 * n

/-- **Majorana strings are linearly independent** -/
theorem maj_independent (D : MOp) (n : Nat) (hg : MajGood n D)
    (hz : ∀ s t, s < 2 ^ n → melM D t s = 0) : ∀ e ∈ D, e.2 = 0 := by
  apply independent_of_orthogonal actMTerm n D hg.1
  · intro e he e' he' hne
    exact maj_canonical_orthogonal e.1 e'.1 n (hg.2 e he).1 (hg.2 e' he').1 (hg.2 e he).2 (hg.2 e' he').2 hne
  · intro s t hs
    rw [← melM_eq_sum]; exact hz s t hs

section generic
variable {κ : Type} [DecidableEq κ]

theorem sum_getD_gen (A : List (κ × GQ)) (hwf : Dict.WF A) (L : List κ) (hn : L.Nodup)
    (hsub : ∀ e ∈ A, e.1 ∈ L) (m : κ → GQ) :
    (L.map (fun t => Dict.getD A t 0 * m t)).sum = (A.map (fun e => e.2 * m e.1)).sum := by
  induction A with
  | nil => simp [Dict.getD, Dict.get?]
  | cons e r ih =>
    obtain ⟨t0, c0⟩ := e
    have hw : t0 ∉ Dict.keys r ∧ Dict.WF r := by simpa [Dict.WF, Dict.keys] using hwf
    have hr0 : Dict.getD r t0 0 = 0 := by
      unfold Dict.getD; rw [(get?_eq_none_iff r t0).2 hw.1]; rfl
    have hpt : ∀ t, Dict.getD ((t0, c0) :: r) t 0 = (if t0 = t then c0 else 0) + Dict.getD r t 0 := by
      intro t
      by_cases h : t0 = t
      · subst h; simp [Dict.getD, Dict.get?] at hr0 ⊢; rw [hr0]
      · simp [Dict.getD, Dict.get?, h]
    have : (L.map (fun t => Dict.getD ((t0, c0) :: r) t 0 * m t)) =
        L.map (fun t => (if t0 = t then c0 else 0) * m t + Dict.getD r t 0 * m t) := by
      apply List.map_congr_left; intro t _; rw [hpt, add_mul]
    have hind : (L.map (fun t => (if t0 = t then c0 else 0) * m t)).sum = c0 * m t0 := by
      rw [C03.sum_map_eq_single L hn _ t0 (hsub (t0, c0) (by simp))]
      · simp
      · intro x _ hx
        have : ¬ t0 = x := fun e => hx e.symm
        simp [this]
    rw [this, List.sum_map_add, hind, ih hw.2 (fun e he => hsub e (List.mem_cons_of_mem _ he)),
      List.map_cons, List.sum_cons]

/-- from linear independence to uniqueness of coefficients: two dictionaries with the same
`Σ c · m(key)` for every test functional of a family have the same coefficient function -/
theorem coeff_eq_of_independent (Good : κ → Prop) (F : Type) (m : F → κ → GQ)
    (hind : ∀ D : List (κ × GQ), Dict.WF D → (∀ e ∈ D, Good e.1) →
      (∀ f, (D.map (fun e => e.2 * m f e.1)).sum = 0) → ∀ e ∈ D, e.2 = 0)
    (A B : List (κ × GQ)) (wa : Dict.WF A) (wb : Dict.WF B)
    (ga : ∀ e ∈ A, Good e.1) (gb : ∀ e ∈ B, Good e.1)
    (h : ∀ f, (A.map (fun e => e.2 * m f e.1)).sum = (B.map (fun e => e.2 * m f e.1)).sum) :
    ∀ k, Dict.getD A k 0 = Dict.getD B k 0 := by
  classical
  let Lk : List κ := Dict.keys A ++ (Dict.keys B).filter (fun t => t ∉ Dict.keys A)
  have hLn : Lk.Nodup := by
    apply List.Nodup.append wa (List.Nodup.filter _ wb)
    intro t ht1 ht2
    have := (List.mem_filter.1 ht2).2
    simp at this
    exact this ht1
  have hLA : ∀ e ∈ A, e.1 ∈ Lk := fun e he => List.mem_append_left _ (List.mem_map.2 ⟨e, he, rfl⟩)
  have hLB : ∀ e ∈ B, e.1 ∈ Lk := by
    intro e he
    have hk : e.1 ∈ Dict.keys B := List.mem_map.2 ⟨e, he, rfl⟩
    by_cases hA : e.1 ∈ Dict.keys A
    · exact List.mem_append_left _ hA
    · exact List.mem_append_right _ (List.mem_filter.2 ⟨hk, by simpa using hA⟩)
  have hLmem : ∀ t ∈ Lk, (∃ e ∈ A, e.1 = t) ∨ (∃ e ∈ B, e.1 = t) := by
    intro t ht
    rcases List.mem_append.1 ht with h1 | h1
    · left; obtain ⟨e, he, rfl⟩ := List.mem_map.1 h1; exact ⟨e, he, rfl⟩
    · right; obtain ⟨e, he, rfl⟩ := List.mem_map.1 (List.mem_filter.1 h1).1; exact ⟨e, he, rfl⟩
  let D : List (κ × GQ) := Lk.map (fun t => (t, Dict.getD A t 0 - Dict.getD B t 0))
  have hDk : Dict.keys D = Lk := by
    show (Lk.map _).map _ = Lk
    rw [List.map_map]; simp [Function.comp_def]
  have hDwf : Dict.WF D := by unfold Dict.WF; rw [hDk]; exact hLn
  have hDg : ∀ e ∈ D, Good e.1 := by
    intro e he
    obtain ⟨t, ht, rfl⟩ := List.mem_map.1 he
    rcases hLmem t ht with ⟨a, ha, hae⟩ | ⟨b, hb, hbe⟩
    · rw [← hae]; exact ga a ha
    · rw [← hbe]; exact gb b hb
  have hDz : ∀ f, (D.map (fun e => e.2 * m f e.1)).sum = 0 := by
    intro f
    have e1 : (D.map (fun e => e.2 * m f e.1)) =
        Lk.map (fun t => Dict.getD A t 0 * m f t + (-(Dict.getD B t 0 * m f t))) := by
      show (Lk.map _).map _ = _
      rw [List.map_map]
      apply List.map_congr_left
      intro t _
      simp only [Function.comp_def]
      ring
    rw [e1, List.sum_map_add, sum_getD_gen A wa Lk hLn hLA]
    have e2 : (Lk.map (fun t => -(Dict.getD B t 0 * m f t))).sum =
        -((Lk.map (fun t => Dict.getD B t 0 * m f t)).sum) := by
      generalize Lk = l
      induction l with
      | nil => simp
      | cons x r ih => simp only [List.map_cons, List.sum_cons, ih]; ring
    rw [e2, sum_getD_gen B wb Lk hLn hLB, h f]; ring
  have hzero := hind D hDwf hDg hDz
  intro t
  by_cases ht : t ∈ Lk
  · have : ((t, Dict.getD A t 0 - Dict.getD B t 0) : κ × GQ) ∈ D := List.mem_map.2 ⟨t, ht, rfl⟩
    have := hzero _ this
    simp only at this
    exact sub_eq_zero.1 this
  · have hA : t ∉ Dict.keys A := fun h' => ht (List.mem_append_left _ h')
    have hB : t ∉ Dict.keys B := fun h' => ht (List.mem_append_right _ (List.mem_filter.2 ⟨h', by simpa using hA⟩))
    unfold Dict.getD
    rw [(get?_eq_none_iff A t).2 hA, (get?_eq_none_iff B t).2 hB]

/-- conversely the sums only depend on the coefficient function -/
theorem sum_congr_of_coeff (m : κ → GQ) (A B : List (κ × GQ)) (wa : Dict.WF A) (wb : Dict.WF B)
    (h : ∀ k, Dict.getD A k 0 = Dict.getD B k 0) :
    (A.map (fun e => e.2 * m e.1)).sum = (B.map (fun e => e.2 * m e.1)).sum := by
  classical
  let Lk : List κ := Dict.keys A ++ (Dict.keys B).filter (fun t => t ∉ Dict.keys A)
  have hLn : Lk.Nodup := by
    apply List.Nodup.append wa (List.Nodup.filter _ wb)
    intro t ht1 ht2
    have := (List.mem_filter.1 ht2).2
    simp at this
    exact this ht1
  have hLA : ∀ e ∈ A, e.1 ∈ Lk := fun e he => List.mem_append_left _ (List.mem_map.2 ⟨e, he, rfl⟩)
  have hLB : ∀ e ∈ B, e.1 ∈ Lk := by
    intro e he
    have hk : e.1 ∈ Dict.keys B := List.mem_map.2 ⟨e, he, rfl⟩
    by_cases hA : e.1 ∈ Dict.keys A
    · exact List.mem_append_left _ hA
    · exact List.mem_append_right _ (List.mem_filter.2 ⟨hk, by simpa using hA⟩)
  rw [← sum_getD_gen A wa Lk hLn hLA, ← sum_getD_gen B wb Lk hLn hLB]
  congr 1
  apply List.map_congr_left
  intro t _
  rw [h t]

end generic

/-! ### the product dictionaries are well formed -/

theorem allkeys_set_gen {κ : Type} [DecidableEq κ] (P : κ → Prop) (d : List (κ × GQ)) (k : κ) (v : GQ)
    (hd : ∀ e ∈ d, P e.1) (hk : P k) : ∀ e ∈ Dict.set d k v, P e.1 := by
  induction d with
  | nil => intro e he; simp [Dict.set] at he; subst he; exact hk
  | cons x r ih =>
    obtain ⟨k', v'⟩ := x
    have hr : ∀ e ∈ r, P e.1 := fun e he => hd e (List.mem_cons_of_mem _ he)
    unfold Dict.set
    split_ifs with h
    · intro e he
      rcases List.mem_cons.1 he with rfl | he
      · exact hd (k', v') (by simp)
      · exact hr e he
    · intro e he
      rcases List.mem_cons.1 he with rfl | he
      · exact hd (k', v') (by simp)
      · exact ih hr e he

theorem maccum_good (P : MTerm → Prop) (d : MOp) (k : MTerm) (c : GQ) (wd : Dict.WF d)
    (hd : ∀ e ∈ d, P e.1) (hk : P k) : Dict.WF (maccum d k c) ∧ ∀ e ∈ maccum d k c, P e.1 := by
  unfold maccum
  cases Dict.get? d k with
  | none => exact ⟨C03.wf_set d k _ wd, allkeys_set_gen P d k _ hd hk⟩
  | some v => exact ⟨C03.wf_set d k _ wd, allkeys_set_gen P d k _ hd hk⟩

theorem mmul_good (n : Nat) (a b : MOp)
    (sa : ∀ e ∈ a, e.1.Pairwise (· < ·) ∧ ∀ m ∈ e.1, m < 2 * n)
    (sb : ∀ e ∈ b, e.1.Pairwise (· < ·) ∧ ∀ m ∈ e.1, m < 2 * n) : MajGood n (mmul a b) := by
  unfold mmul MajGood
  let P : MTerm → Prop := fun t => t.Pairwise (· < ·) ∧ ∀ m ∈ t, m < 2 * n
  have inner : ∀ (lt : MTerm) (lc : GQ), P lt → ∀ (l : MOp), (∀ e ∈ l, P e.1) → ∀ (acc : MOp),
      Dict.WF acc → (∀ e ∈ acc, P e.1) →
      Dict.WF (l.foldl (fun acc2 (x : MTerm × GQ) =>
        maccum acc2 (mergeM lt x.1).1 (lc * x.2 * GQ.sgn (mergeM lt x.1).2)) acc) ∧
      ∀ e ∈ (l.foldl (fun acc2 (x : MTerm × GQ) =>
        maccum acc2 (mergeM lt x.1).1 (lc * x.2 * GQ.sgn (mergeM lt x.1).2)) acc), P e.1 := by
    intro lt lc hlt l
    induction l with
    | nil => intro _ acc w h; exact ⟨w, h⟩
    | cons x r ih =>
      intro hl acc w h
      rw [List.foldl_cons]
      have hx := hl x (by simp)
      have hk : P (mergeM lt x.1).1 :=
        ⟨mergeM_strict lt x.1 hlt.1 hx.1, fun m hm => by
          rcases mergeM_mem lt x.1 m hm with h1 | h1
          · exact hlt.2 m h1
          · exact hx.2 m h1⟩
      obtain ⟨w', h'⟩ := maccum_good P acc _ (lc * x.2 * GQ.sgn (mergeM lt x.1).2) w h hk
      exact ih (fun e he => hl e (List.mem_cons_of_mem _ he)) _ w' h'
  have outer : ∀ (l : MOp), (∀ e ∈ l, P e.1) → ∀ (acc : MOp), Dict.WF acc → (∀ e ∈ acc, P e.1) →
      Dict.WF (l.foldl (fun acc (x : MTerm × GQ) => b.foldl (fun acc2 (y : MTerm × GQ) =>
        maccum acc2 (mergeM x.1 y.1).1 (x.2 * y.2 * GQ.sgn (mergeM x.1 y.1).2)) acc) acc) ∧
      ∀ e ∈ (l.foldl (fun acc (x : MTerm × GQ) => b.foldl (fun acc2 (y : MTerm × GQ) =>
        maccum acc2 (mergeM x.1 y.1).1 (x.2 * y.2 * GQ.sgn (mergeM x.1 y.1).2)) acc) acc), P e.1 := by
    intro l
    induction l with
    | nil => intro _ acc w h; exact ⟨w, h⟩
    | cons x r ih =>
      intro hl acc w h
      rw [List.foldl_cons]
      obtain ⟨w', h'⟩ := inner x.1 x.2 (hl x (by simp)) b sb acc w h
      exact ih (fun e he => hl e (List.mem_cons_of_mem _ he)) _ w' h'
  exact outer a sa [] (by simp [Dict.WF, Dict.keys]) (fun e he => by simp at he)

/-! ### the general path of `commutes_with` -/

theorem majCoefClose_of_eq (atol rtol : Rat) (ha : 0 ≤ atol) (X Y : MOp) (t : MTerm)
    (h : Dict.getD X t 0 = Dict.getD Y t 0) :
    Spec.C02.majCoefClose atol rtol (Dict.get? X t) (Dict.get? Y t) = true := by
  unfold Dict.getD at h
  have habs0 : Spec.C02.absLe 0 atol = true := by
    unfold Spec.C02.absLe
    rw [decide_eq_true_eq]
    exact ⟨ha, by simp [Spec.C02.nsq]; exact mul_self_nonneg atol⟩
  have hself : ∀ x : GQ, Spec.C02.majClose atol rtol x x = true := by
    intro x
    rw [majClose_iff]
    left
    unfold npIsclose
    rw [sqrtLeAffine_iff, sub_self_normSq]
    left
    have := normSq_nonneg x
    nlinarith [mul_self_nonneg atol, mul_self_nonneg rtol]
  cases hx : Dict.get? X t <;> cases hy : Dict.get? Y t <;> simp only [hx, hy, Option.getD] at h <;>
    simp only [Spec.C02.majCoefClose]
  · rw [← h]; exact habs0
  · rw [h]; exact habs0
  · rw [h]; exact hself _

/-- **`self * other == other * self` decides commutation in the Spec (exact regime)**: if close
coefficients of the two product dictionaries are equal (`hexact`: decidable on the instance; true
for dyadic inputs whose products stay on a lattice coarser than the numpy tolerances), the coded
test is true iff `A·B` and `B·A` have the same Spec matrix elements on all `2^n` basis states. -/
theorem commutes_general_iff (atol rtol : Rat) (ha : 0 ≤ atol) (n : Nat) (a b : MOp)
    (sa : ∀ e ∈ a, e.1.Pairwise (· < ·) ∧ ∀ m ∈ e.1, m < 2 * n)
    (sb : ∀ e ∈ b, e.1.Pairwise (· < ·) ∧ ∀ m ∈ e.1, m < 2 * n)
    (hexact : ∀ t, Spec.C02.majCoefClose atol rtol (Dict.get? (mmul a b) t) (Dict.get? (mmul b a) t) = true →
      Dict.getD (mmul a b) t 0 = Dict.getD (mmul b a) t 0) :
    majEq atol rtol (mmul a b) (mmul b a) = true ↔
      ∀ s t, s < 2 ^ n → melM (mmul a b) t s = melM (mmul b a) t s := by
  have gab := mmul_good n a b sa sb
  have gba := mmul_good n b a sb sa
  have hstmt : majEq atol rtol (mmul a b) (mmul b a) = true ↔ Spec.C02.MajEq atol rtol (mmul a b) (mmul b a) := by
    unfold majEq
    rw [majEqWith_iff atol rtol _ _ _ (List.Perm.refl _)]
    unfold Spec.C02.MajEq
    constructor <;> intro hh t
    · exact (majTermClose_iff atol rtol ha _ _ t).1 (hh t)
    · exact (majTermClose_iff atol rtol ha _ _ t).2 (hh t)
  rw [hstmt]
  constructor
  · intro h s t _
    rw [melM_eq_sum, melM_eq_sum]
    exact sum_congr_of_coeff (fun k => melA actMTerm k s t) _ _ gab.1 gba.1 (fun k => hexact k (h k))
  · intro h t
    apply majCoefClose_of_eq atol rtol ha
    have := coeff_eq_of_independent (fun k : MTerm => k.Pairwise (· < ·) ∧ ∀ m ∈ k, m < 2 * n)
      ({p : Nat × Nat // p.1 < 2 ^ n}) (fun f k => melA actMTerm k f.1.1 f.1.2)
      (fun D wD gD hz => maj_independent D n ⟨wD, gD⟩ (fun s t hs => by
        rw [melM_eq_sum]; exact hz ⟨(s, t), hs⟩))
      (mmul a b) (mmul b a) gab.1 gba.1 gab.2 gba.2
      (fun f => by
        have := h f.1.1 f.1.2 f.2
        rw [melM_eq_sum, melM_eq_sum] at this
        exact this)
    exact this t

/-- the decidable exact-regime test the driver evaluates implies the hypothesis `hexact` -/
theorem hexact_of_majExactB (atol rtol : Rat) (ha : 0 ≤ atol) (X Y : MOp) (h : majExactB atol rtol X Y = true) :
    ∀ t, Spec.C02.majCoefClose atol rtol (Dict.get? X t) (Dict.get? Y t) = true →
      Dict.getD X t 0 = Dict.getD Y t 0 := by
  intro t hc
  unfold majExactB at h
  rw [List.all_eq_true] at h
  by_cases hm : t ∈ Dict.keys X ++ Dict.keys Y
  · have := h t hm
    have hcl : majTermClose atol rtol X Y t = true := (majTermClose_iff atol rtol ha X Y t).2 hc
    simpa [hcl] using this
  · have hx : t ∉ Dict.keys X := fun e => hm (List.mem_append_left _ e)
    have hy : t ∉ Dict.keys Y := fun e => hm (List.mem_append_right _ e)
    unfold Dict.getD
    rw [(get?_eq_none_iff X t).2 hx, (get?_eq_none_iff Y t).2 hy]

/-- full-strength form: under the decidable per-input test, the general path decides commutation -/
theorem commutes_general_iff_exactB (atol rtol : Rat) (ha : 0 ≤ atol) (n : Nat) (a b : MOp)
    (sa : ∀ e ∈ a, e.1.Pairwise (· < ·) ∧ ∀ m ∈ e.1, m < 2 * n)
    (sb : ∀ e ∈ b, e.1.Pairwise (· < ·) ∧ ∀ m ∈ e.1, m < 2 * n)
    (hx : majExactB atol rtol (mmul a b) (mmul b a) = true) :
    majEq atol rtol (mmul a b) (mmul b a) = true ↔
      ∀ s t, s < 2 ^ n → melM (mmul a b) t s = melM (mmul b a) t s :=
  commutes_general_iff atol rtol ha n a b sa sb (hexact_of_majExactB atol rtol ha _ _ hx)

end C02
end Proofs
end OFV
