/-
C07 — `bch_expand` with any number of operators, in a ℚ-algebra with a multiplicative filtration
`F 1 ⊇ F 2 ⊇ …`, `F i · F j ⊆ F (i + j)`, `F (k + 1) = 0`: the recursive halving of
`_bch_expand_multiple_terms` yields `z ∈ F 1` with `exp z = exp x_0 ⋯ exp x_{n-1}`.
-/
import OFV.Proofs.C07BCHUniv
import OFV.Proofs.C07BCH
import Mathlib.Algebra.Module.Submodule.Basic

namespace OFV
namespace Proofs
namespace C07U

open OFV.Spec.BCH OFV.Model.C07

variable {A : Type} [Ring A] [Algebra ℚ A]

/-- a multiplicative filtration that dies above degree `k` -/
structure Filt (k : Nat) (A : Type) [Ring A] [Algebra ℚ A] where
  F : Nat → Submodule ℚ A
  anti : ∀ i, F (i + 1) ≤ F i
  mul : ∀ i j a b, a ∈ F i → b ∈ F j → a * b ∈ F (i + j)
  top : ∀ a ∈ F (k + 1), a = 0

namespace Filt
variable {k : Nat} (Φ : Filt k A)

theorem mono {i j : Nat} (h : i ≤ j) : Φ.F j ≤ Φ.F i := by
  induction h with
  | refl => exact le_refl _
  | step _ ih => exact le_trans (Φ.anti _) ih

theorem gen_mem {x y : A} (hx : x ∈ Φ.F 1) (hy : y ∈ Φ.F 1) (g : Bool) : gen x y g ∈ Φ.F 1 := by
  cases g <;> simpa [gen]

theorem word_mem {x y : A} (hx : x ∈ Φ.F 1) (hy : y ∈ Φ.F 1) :
    ∀ (w : List Bool), w ≠ [] → wordEval x y w ∈ Φ.F w.length
  | [], h => absurd rfl h
  | [g], _ => by simpa [wordEval] using Φ.gen_mem hx hy g
  | g :: g' :: r, _ => by
    have ih := word_mem hx hy (g' :: r) (by simp)
    have := Φ.mul 1 _ _ _ (Φ.gen_mem hx hy g) ih
    simp only [wordEval, List.length_cons] at this ⊢
    rw [Nat.add_comm] at this
    exact this

theorem nil {x y : A} (hx : x ∈ Φ.F 1) (hy : y ∈ Φ.F 1) : Nil x y k := by
  intro w hw
  have hne : w ≠ [] := by intro e; subst e; simp at hw
  exact Φ.top _ (Φ.mono (show k + 1 ≤ w.length by omega) (Φ.word_mem hx hy w hne))

theorem nested_mem {x y : A} (hx : x ∈ Φ.F 1) (hy : y ∈ Φ.F 1) :
    ∀ (w : List Bool), w ≠ [] → nestedA x y w ∈ Φ.F 1
  | [], h => absurd rfl h
  | [g], _ => by simpa [nestedA] using Φ.gen_mem hx hy g
  | g :: g' :: r, _ => by
    have ih := nested_mem hx hy (g' :: r) (by simp)
    have h1 := Φ.mono (show 1 ≤ 1 + 1 by omega) (Φ.mul 1 1 _ _ (Φ.gen_mem hx hy g) ih)
    have h2 := Φ.mono (show 1 ≤ 1 + 1 by omega) (Φ.mul 1 1 _ _ ih (Φ.gen_mem hx hy g))
    simp only [nestedA]
    exact Submodule.sub_mem _ h1 h2

end Filt

/-! ### the words of the table are non-empty -/

theorem binStrings_length : ∀ (i : Nat) (s : List Bool), s ∈ binStrings i → s.length = i
  | 0, s, h => by simp [binStrings] at h; simp [h]
  | i + 1, s, h => by
    simp only [binStrings, List.mem_flatMap] at h
    obtain ⟨t, ht, hs⟩ := h
    have := binStrings_length i t ht
    simp at hs
    rcases hs with rfl | rfl <;> simp [this]

theorem table_nonempty (k : Nat) : ∀ tc ∈ generateNestedCommutator k, tc.1 ≠ [] := by
  intro tc htc
  unfold generateNestedCommutator at htc
  simp only [List.mem_map, List.mem_flatMap, List.mem_range] at htc
  obtain ⟨t, ⟨i0, _, ht⟩, rfl⟩ := htc
  have hl : t.length = i0 + 1 := by
    split at ht
    · exact binStrings_length _ _ (List.mem_of_mem_filter ht)
    · exact binStrings_length _ _ ht
  intro e
  simp only at e
  rw [e] at hl
  simp at hl

/-! ### two operators, then any number -/

/-- the value `_bch_expand_two_terms(x, y, order=k)` denotes -/
def bch2 (k : Nat) (x y : A) : A := ((generateNestedCommutator k).map fun tc => (tc.2 : ℚ) • nestedA x y tc.1).sum

theorem bch2_mem {k : Nat} (Φ : Filt k A) {x y : A} (hx : x ∈ Φ.F 1) (hy : y ∈ Φ.F 1) : bch2 k x y ∈ Φ.F 1 := by
  unfold bch2
  apply list_sum_mem
  intro a ha
  simp only [List.mem_map] at ha
  obtain ⟨tc, htc, rfl⟩ := ha
  exact Submodule.smul_mem _ _ (Φ.nested_mem hx hy tc.1 (table_nonempty k tc htc))

/-- the recursive evaluation of `_bch_expand_multiple_terms` along its bracketing tree -/
def bchTree (k : Nat) (xs : Nat → A) : BTree → A
  | .leaf i => xs i
  | .node l r => bch2 k (bchTree k xs l) (bchTree k xs r)

theorem bchTree_sound {k : Nat} (Φ : Filt k A)
    (h2 : ∀ x y : A, Nil x y k → expT k (bch2 k x y) = expT k x * expT k y) (xs : Nat → A) :
    ∀ (t : BTree), (∀ i ∈ OFV.Proofs.C07.leaves t, xs i ∈ Φ.F 1) →
      bchTree k xs t ∈ Φ.F 1 ∧
      expT k (bchTree k xs t) = ((OFV.Proofs.C07.leaves t).map fun i => expT k (xs i)).prod
  | .leaf i, h => by
    refine ⟨h i (by simp [OFV.Proofs.C07.leaves]), ?_⟩
    simp [bchTree, OFV.Proofs.C07.leaves]
  | .node l r, h => by
    obtain ⟨ml, el⟩ := bchTree_sound Φ h2 xs l (fun i hi => h i (by simp [OFV.Proofs.C07.leaves, hi]))
    obtain ⟨mr, er⟩ := bchTree_sound Φ h2 xs r (fun i hi => h i (by simp [OFV.Proofs.C07.leaves, hi]))
    refine ⟨bch2_mem Φ ml mr, ?_⟩
    simp only [bchTree, OFV.Proofs.C07.leaves, List.map_append, List.prod_append]
    rw [h2 _ _ (Φ.nil ml mr), el, er]

end C07U
end Proofs
end OFV
