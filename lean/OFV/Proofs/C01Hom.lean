/- Operator-level (dictionary) semantics of the Model: the denotation of an operator under a
   term functional `φ` is `Σ c · φ τ`; accumulation, scalar multiplication, addition and the
   product loop are (bi)linear for every `φ`.  Core Lean only. -/
import OFV.Model.Symbolic
import OFV.Proofs.GQAlgebra

set_option linter.unusedSectionVars false

namespace OFV
namespace Model
open GQ

section generic
variable {κ : Type} [DecidableEq κ]

/-- `⟦A⟧_φ = Σ_{(τ,c) ∈ A} c · φ τ`; with `φ τ = ⟨t|τ|s⟩` this is the matrix element of `A`. -/
def den (φ : κ → GQ) (A : List (κ × GQ)) : GQ := A.foldr (fun e acc => e.2 * φ e.1 + acc) 0

@[simp] theorem den_nil (φ : κ → GQ) : den φ [] = 0 := rfl
@[simp] theorem den_cons (φ : κ → GQ) (e : κ × GQ) (A : List (κ × GQ)) :
    den φ (e :: A) = e.2 * φ e.1 + den φ A := rfl

theorem den_append (φ : κ → GQ) (A B : List (κ × GQ)) : den φ (A ++ B) = den φ A + den φ B := by
  induction A with
  | nil => simp [zero_add']
  | cons e A ih => simp [ih, add_assoc']

theorem den_set_absent (φ : κ → GQ) (d : List (κ × GQ)) (k : κ) (c : GQ) (h : Dict.get? d k = none) :
    den φ (Dict.set d k c) = den φ d + c * φ k := by
  induction d with
  | nil => simp [Dict.set, add_zero', zero_add']
  | cons e d ih =>
    obtain ⟨k', v⟩ := e
    simp only [Dict.get?] at h
    split at h
    · cases h
    · rename_i hne
      simp only [Dict.set, hne, if_false, den_cons, ih h, add_assoc']

theorem den_set_present (φ : κ → GQ) (d : List (κ × GQ)) (k : κ) (v w : GQ) (h : Dict.get? d k = some v) :
    den φ (Dict.set d k w) + v * φ k = den φ d + w * φ k := by
  induction d with
  | nil => simp [Dict.get?] at h
  | cons e d ih =>
    obtain ⟨k', v'⟩ := e
    simp only [Dict.get?] at h
    split at h
    · rename_i heq
      cases h; subst heq
      simp only [Dict.set, if_true, den_cons]
      rw [add_assoc', add_comm' (den φ d), ← add_assoc', add_comm' (w * φ k'), add_assoc', add_assoc']
      rw [add_comm' (w * φ k')]
    · rename_i hne
      simp only [Dict.set, hne, if_false, den_cons, add_assoc', ih h]

/-- generic `result[k] += c` -/
def gaccum (d : List (κ × GQ)) (k : κ) (c : GQ) : List (κ × GQ) :=
  match Dict.get? d k with
  | some v => Dict.set d k (v + c)
  | none => Dict.set d k c

theorem add_right_cancel' (x y z : GQ) (h : x + z = y + z) : x = y := by
  have := congrArg (· + -z) h
  simp only [add_assoc', add_neg_cancel', add_zero'] at this
  exact this

/-- `result[k] += c` adds `c · φ k` to the denotation. -/
theorem den_gaccum (φ : κ → GQ) (d : List (κ × GQ)) (k : κ) (c : GQ) :
    den φ (gaccum d k c) = den φ d + c * φ k := by
  unfold gaccum
  cases h : Dict.get? d k with
  | none => exact den_set_absent φ d k c h
  | some v =>
    have := den_set_present φ d k v (v + c) h
    rw [add_mul'] at this
    have e : den φ (Dict.set d k (v + c)) + v * φ k = (den φ d + c * φ k) + v * φ k := by
      rw [this, add_assoc', add_comm' (v * φ k)]
    exact add_right_cancel' _ _ _ e

theorem den_map_smul (φ : κ → GQ) (c : GQ) (A : List (κ × GQ)) :
    den φ (A.map fun e => (e.1, e.2 * c)) = c * den φ A := by
  induction A with
  | nil => simp [mul_zero']
  | cons e A ih =>
    simp only [List.map_cons, den_cons] at ih ⊢
    rw [ih, mul_add', ← mul_assoc', mul_comm' c e.2]

/-- generic double loop with accumulation is the bilinear extension of `(key, factor)` -/
theorem den_double_loop (φ : κ → GQ) (pr : κ → κ → κ × GQ) (A B : List (κ × GQ)) (acc0 : List (κ × GQ)) :
    den φ (A.foldl (fun acc (l : κ × GQ) =>
        B.foldl (fun acc2 (r : κ × GQ) =>
          gaccum acc2 (pr l.1 r.1).1 (l.2 * r.2 * (pr l.1 r.1).2)) acc) acc0) =
      den φ acc0 + A.foldr (fun l acc' => B.foldr (fun r acc2 =>
          l.2 * r.2 * ((pr l.1 r.1).2 * φ (pr l.1 r.1).1) + acc2) 0 + acc') 0 := by
  have inner : ∀ (l : κ × GQ) (B : List (κ × GQ)) (acc : List (κ × GQ)),
      den φ (B.foldl (fun acc2 (r : κ × GQ) =>
          gaccum acc2 (pr l.1 r.1).1 (l.2 * r.2 * (pr l.1 r.1).2)) acc) =
        den φ acc + B.foldr (fun r acc2 =>
          l.2 * r.2 * ((pr l.1 r.1).2 * φ (pr l.1 r.1).1) + acc2) 0 := by
    intro l B
    induction B with
    | nil => intro acc; simp [add_zero']
    | cons e B ih =>
      intro acc
      simp only [List.foldl_cons, List.foldr_cons]
      rw [ih, den_gaccum]
      simp only [add_assoc', mul_assoc']
  induction A generalizing acc0 with
  | nil => simp [add_zero']
  | cons l A ih =>
    simp only [List.foldl_cons, List.foldr_cons]
    rw [ih, inner, add_assoc']

end generic

theorem accum_eq (d : Op) (k : Term) (c : GQ) : accum d k c = gaccum d k c := rfl
theorem maccum_eq (d : MOp) (k : MTerm) (c : GQ) : maccum d k c = gaccum d k c := rfl

theorem den_accum (φ : Term → GQ) (d : Op) (k : Term) (c : GQ) :
    den φ (accum d k c) = den φ d + c * φ k := den_gaccum φ d k c

theorem den_smul (φ : Term → GQ) (c : GQ) (A : Op) : den φ (smul c A) = c * den φ A := by
  induction A with
  | nil => simp [smul, mul_zero']
  | cons e A ih =>
    simp only [smul, List.map_cons, den_cons] at ih ⊢
    rw [ih, mul_add', ← mul_assoc', mul_comm' c e.2]

/-- the bilinear extension of a term-pair functional -/
def bil (ψ : Term → Term → GQ) (A B : Op) : GQ :=
  A.foldr (fun l acc => B.foldr (fun r acc2 => l.2 * r.2 * ψ l.1 r.1 + acc2) 0 + acc) 0

theorem den_inner (cls : Cls) (φ : Term → GQ) (lt : Term) (lc : GQ) (B acc : Op) :
    den φ (B.foldl (fun acc2 (e : Term × GQ) =>
        accum acc2 (simplify cls (lt ++ e.1)).2 (lc * e.2 * (simplify cls (lt ++ e.1)).1)) acc) =
      den φ acc + B.foldr (fun r acc2 =>
        lc * r.2 * ((simplify cls (lt ++ r.1)).1 * φ (simplify cls (lt ++ r.1)).2) + acc2) 0 := by
  induction B generalizing acc with
  | nil => simp [add_zero']
  | cons e B ih =>
    simp only [List.foldl_cons, List.foldr_cons]
    rw [ih, den_accum]
    simp only [add_assoc', mul_assoc']

/-- **the product loop of `__imul__` is the bilinear extension of the term product** -/
theorem den_mulOp (cls : Cls) (φ : Term → GQ) (A B : Op) :
    den φ (mulOp cls A B) =
      bil (fun lt rt => (simplify cls (lt ++ rt)).1 * φ (simplify cls (lt ++ rt)).2) A B := by
  unfold mulOp bil
  have gen : ∀ acc : Op,
      den φ (A.foldl (fun acc (l : Term × GQ) =>
        B.foldl (fun acc2 (r : Term × GQ) =>
          accum acc2 (simplify cls (l.1 ++ r.1)).2 (l.2 * r.2 * (simplify cls (l.1 ++ r.1)).1)) acc) acc) =
      den φ acc + A.foldr (fun l acc' => B.foldr (fun r acc2 =>
          l.2 * r.2 * ((simplify cls (l.1 ++ r.1)).1 * φ (simplify cls (l.1 ++ r.1)).2) + acc2) 0 + acc') 0 := by
    induction A with
    | nil => intro acc; simp [add_zero']
    | cons l A ih =>
      intro acc
      simp only [List.foldl_cons, List.foldr_cons]
      rw [ih, den_inner, add_assoc']
  have := gen []
  simpa [zero_add'] using this


theorem den_erase_present {κ : Type} [DecidableEq κ] (φ : κ → GQ) (d : List (κ × GQ)) (k : κ) (v : GQ) (h : Dict.get? d k = some v) :
    den φ (Dict.erase d k) + v * φ k = den φ d := by
  induction d with
  | nil => simp [Dict.get?] at h
  | cons e d ih =>
    obtain ⟨k', v'⟩ := e
    simp only [Dict.get?] at h
    split at h
    · rename_i heq; cases h; subst heq
      simp only [Dict.erase, if_true, den_cons, add_comm']
    · rename_i hne
      simp only [Dict.erase, hne, if_false, den_cons, add_assoc', ih h]

theorem erase_absent {κ : Type} [DecidableEq κ] (d : List (κ × GQ)) (k : κ) (h : Dict.get? d k = none) : Dict.erase d k = d := by
  induction d with
  | nil => rfl
  | cons e d ih =>
    obtain ⟨k', v'⟩ := e
    simp only [Dict.get?] at h
    split at h
    · cases h
    · rename_i hne; simp only [Dict.erase, hne, if_false, ih h]

/-- one step of `__iadd__` / `__isub__` (`self[t] = self.get(t, 0) + c`, deleted when small):
in the exact regime (the sum is small only when it is 0) it adds `c · φ t`. -/
theorem den_iadd_step (tol : Rat) (φ : Term → GQ) (acc : Op) (t : Term) (c : GQ)
    (hreg : GQ.isSmall tol (Dict.getD acc t 0 + c) = true → Dict.getD acc t 0 + c = 0) :
    den φ (if GQ.isSmall tol (Dict.getD acc t 0 + c) then Dict.erase acc t
           else Dict.set acc t (Dict.getD acc t 0 + c)) = den φ acc + c * φ t := by
  by_cases hs : GQ.isSmall tol (Dict.getD acc t 0 + c) = true
  · have hz := hreg hs
    rw [if_pos hs]
    cases hg : Dict.get? acc t with
    | none =>
      simp only [Dict.getD, hg, Option.getD, zero_add'] at hz
      rw [erase_absent acc t hg, hz, zero_mul', add_zero']
    | some v0 =>
      simp only [Dict.getD, hg, Option.getD] at hz
      have := den_erase_present φ acc t v0 hg
      apply add_right_cancel' _ _ (v0 * φ t)
      rw [this, add_assoc', ← add_mul', add_comm' c v0, hz, zero_mul', add_zero']
  · rw [if_neg hs]
    cases hg : Dict.get? acc t with
    | none =>
      simp only [Dict.getD, hg, Option.getD, zero_add']
      exact den_set_absent φ acc t c hg
    | some v0 =>
      simp only [Dict.getD, hg, Option.getD]
      have := den_set_present φ acc t v0 (v0 + c) hg
      apply add_right_cancel' _ _ (v0 * φ t)
      rw [this, add_mul', add_assoc', add_comm' (c * φ t)]

/-- the exact regime of one `+=`: every intermediate sum is either 0 or not small -/
def ExactAdd (tol : Rat) : Op → Op → Prop
  | _, [] => True
  | a, (t, c) :: b =>
    (GQ.isSmall tol (Dict.getD a t 0 + c) = true → Dict.getD a t 0 + c = 0) ∧
    ExactAdd tol (if GQ.isSmall tol (Dict.getD a t 0 + c) then Dict.erase a t
                  else Dict.set a t (Dict.getD a t 0 + c)) b

/-- **`⟦A += B⟧ = ⟦A⟧ + ⟦B⟧`** in the exact regime, for every term functional `φ`. -/
theorem den_iadd (tol : Rat) (φ : Term → GQ) (A B : Op) (h : ExactAdd tol A B) :
    den φ (iadd tol A B) = den φ A + den φ B := by
  unfold iadd
  induction B generalizing A with
  | nil => simp [add_zero']
  | cons e B ih =>
    obtain ⟨t, c⟩ := e
    obtain ⟨h1, h2⟩ := h
    simp only [List.foldl_cons, den_cons]
    rw [ih _ h2, den_iadd_step tol φ A t c h1, add_assoc']


theorem bil_congr (ψ ψ' : Term → Term → GQ) (A B : Op)
    (h : ∀ l ∈ A, ∀ r ∈ B, ψ l.1 r.1 = ψ' l.1 r.1) : bil ψ A B = bil ψ' A B := by
  unfold bil
  induction A with
  | nil => rfl
  | cons l A ih =>
    simp only [List.foldr_cons]
    rw [ih (fun l' hl' r hr => h l' (List.mem_cons_of_mem _ hl') r hr)]
    congr 1
    have hl : ∀ r ∈ B, ψ l.1 r.1 = ψ' l.1 r.1 := fun r hr => h l (List.mem_cons_self) r hr
    clear ih h
    induction B with
    | nil => rfl
    | cons r B ihB =>
      simp only [List.foldr_cons]
      rw [ihB (fun r' hr' => hl r' (List.mem_cons_of_mem _ hr')), hl r (List.mem_cons_self)]

theorem isub_eq_iadd_neg (tol : Rat) (A B : Op) :
    isub tol A B = iadd tol A (B.map fun e => (e.1, -e.2)) := by
  unfold isub iadd
  induction B generalizing A with
  | nil => rfl
  | cons e B ih =>
    simp only [List.map_cons, List.foldl_cons]
    rw [ih]
    simp only [sub_eq_add_neg']

theorem den_map_neg (φ : Term → GQ) (B : Op) :
    den φ (B.map fun e => (e.1, -e.2)) = -(den φ B) := by
  induction B with
  | nil => apply GQ.ext <;> simp
  | cons e B ih =>
    simp only [List.map_cons, den_cons, ih, neg_mul']
    apply GQ.ext <;> simp <;> grind


/-- **Majorana products**: `MajoranaOperator.__mul__` is the bilinear extension of the signed merge -/
theorem den_mmul (φ : MTerm → GQ) (A B : MOp) :
    den φ (mmul A B) = A.foldr (fun l acc' => B.foldr (fun r acc2 =>
        l.2 * r.2 * (GQ.sgn (mergeM l.1 r.1).2 * φ (mergeM l.1 r.1).1) + acc2) 0 + acc') 0 := by
  have := den_double_loop φ (fun l r => ((mergeM l r).1, GQ.sgn (mergeM l r).2)) A B []
  simp only [den_nil, zero_add'] at this
  exact this

theorem den_miadd (φ : MTerm → GQ) (A B : MOp) : den φ (miadd A B) = den φ A + den φ B := by
  unfold miadd
  induction B generalizing A with
  | nil => simp [add_zero']
  | cons e B ih =>
    simp only [List.foldl_cons, den_cons]
    rw [ih, maccum_eq, den_gaccum, add_assoc']

end Model
end OFV
