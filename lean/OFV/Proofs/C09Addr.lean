/- C09: weight_one_binary_addressing_code(e) is valid on the 2^e weight-one vectors. -/
import OFV.Proofs.C09IntMul

namespace OFV.C09
open OFV.Model.C09 OFV.Spec.C09

theorem addressFactor_spec (e a i : Nat) :
    ∃ p, addressFactor e a i = .ok p ∧ ∀ w, evalPoly w p = (w i == a.testBit (e - 1 - i)) := by
  unfold addressFactor
  by_cases hb : a.testBit (e - 1 - i)
  · refine ⟨[[some i]], ?_, ?_⟩
    · simp only [hb, if_true]
      unfold ofString
      have h1 : [[Tok.var i], [Tok.const 1], [Tok.const 1]].mapM parseString = .ok [[some i], [none], [none]] := by
        simp [List.mapM_cons, parseString_var, parseString, parseStrGo, canonTerm, idx, sortU, insU, bind, Except.bind, pure, Except.pure]
      rw [h1]
      simp [bind, Except.bind, pure, Except.pure, checkTerms, sumRule, canonTerm_single, canonTerm, idx, sortU, insU]
    · intro w; simp [evalPoly_cons, evalPoly_nil, hb]
  · refine ⟨[[some i], [none]], ?_, ?_⟩
    · simp only [hb, Bool.false_eq_true, if_false]
      unfold ofString
      have h1 : [[Tok.var i], [Tok.const 1], [Tok.const 0]].mapM parseString = .ok [[some i], [none], []] := by
        simp [List.mapM_cons, parseString_var, parseString, parseStrGo, canonTerm, idx, sortU, insU, bind, Except.bind, pure, Except.pure]
      rw [h1]
      simp [bind, Except.bind, pure, Except.pure, checkTerms, sumRule, canonTerm_single, canonTerm, idx, sortU, insU]
    · intro w
      have : a.testBit (e - 1 - i) = false := by simpa using hb
      simp [evalPoly_cons, evalPoly_nil, this]

theorem binaryAddress_go (e a : Nat) (l : List Nat) (acc : Poly) :
    ∃ p, l.foldlM (fun acc i => do
        let f ← addressFactor e a i
        pure (imul acc f)) acc = .ok p ∧
      ∀ w, evalPoly w p = (evalPoly w acc && l.all fun i => w i == a.testBit (e - 1 - i)) := by
  induction l generalizing acc with
  | nil => exact ⟨acc, rfl, by intro w; simp⟩
  | cons i r ih =>
    obtain ⟨f, hf, hfe⟩ := addressFactor_spec e a i
    obtain ⟨p, hp, hpe⟩ := ih (imul acc f)
    refine ⟨p, ?_, ?_⟩
    · rw [List.foldlM_cons, hf]
      simpa [bind, Except.bind, pure, Except.pure] using hp
    · intro w
      rw [hpe w, eval_imul, hfe w, List.all_cons, Bool.and_assoc]

theorem binaryAddress_spec (e a : Nat) :
    ∃ p, binaryAddress e a = .ok p ∧
      ∀ w, evalPoly w p = (List.range e).all fun i => w i == a.testBit (e - 1 - i) := by
  unfold binaryAddress
  have h1 : ofString [[Tok.const 1]] = .ok [[none]] := by rfl
  obtain ⟨p, hp, hpe⟩ := binaryAddress_go e a (List.range e) [[none]]
  refine ⟨p, ?_, ?_⟩
  · rw [h1]; simpa [bind, Except.bind] using hp
  · intro w; rw [hpe w]; simp [evalPoly_cons, evalPoly_nil]

theorem mapM_spec {α β : Type} (f : α → Except Err β) (P : α → β → Prop) (l : List α)
    (h : ∀ x, ∃ y, f x = .ok y ∧ P x y) :
    ∃ ys, l.mapM f = .ok ys ∧ ys.length = l.length ∧ ∀ i (h1 : i < l.length) (h2 : i < ys.length), P l[i] ys[i] := by
  induction l with
  | nil => exact ⟨[], rfl, rfl, by intro i h1; simp at h1⟩
  | cons x r ih =>
    obtain ⟨y, hy, hP⟩ := h x
    obtain ⟨ys, hys, hl, hall⟩ := ih
    refine ⟨y :: ys, ?_, by simp [hl], ?_⟩
    · rw [List.mapM_cons, hy, hys]; rfl
    · intro i h1 h2
      cases i with
      | zero => simpa using hP
      | succ k => simpa using hall k (by simpa using h1) (by simpa using h2)

/-- the unit occupation vector `e_a` on `n` modes -/
def unitVec (n a : Nat) : List Nat := (List.range n).map fun j => if a = j then 1 else 0

theorem eq_of_bits (e a j : Nat) (ha : a < 2 ^ e) (hj : j < 2 ^ e)
    (h : ∀ i, i < e → a.testBit (e - 1 - i) = j.testBit (e - 1 - i)) : a = j := by
  apply Nat.eq_of_testBit_eq
  intro p
  by_cases hp : p < e
  · have := h (e - 1 - p) (by omega)
    have e1 : e - 1 - (e - 1 - p) = p := by omega
    rw [e1] at this; exact this
  · have hge : e ≤ p := Nat.le_of_not_lt hp
    rw [Nat.testBit_lt_two_pow (Nat.lt_of_lt_of_le ha (Nat.pow_le_pow_right (by omega) hge)),
      Nat.testBit_lt_two_pow (Nat.lt_of_lt_of_le hj (Nat.pow_le_pow_right (by omega) hge))]

theorem w1ba_valid' (e : Nat) (c : Code) (hc : weightOneBinaryAddressingCode e = .ok c) (a : Nat)
    (ha : a < 2 ^ e) : ValidOn c (unitVec (2 ^ e) a) := by
  unfold weightOneBinaryAddressingCode at hc
  obtain ⟨dec, hdec, hdl, hdspec⟩ := mapM_spec (binaryAddress e)
    (fun j p => ∀ w, evalPoly w p = (List.range e).all fun i => w i == j.testBit (e - 1 - i))
    (List.range (2 ^ e)) (fun j => binaryAddress_spec e j)
  simp only [hdec, bind, Except.bind] at hc
  obtain ⟨rfl, _, _⟩ := mk'_ok _ _ _ _ _ hc
  -- bits of the encoding
  have henc : ∀ q, q < e →
      encFn ⟨transpose e ((List.range (2 ^ e)).map (addressBits e)), dec.map .poly, e, 2 ^ e⟩ (unitVec (2 ^ e) a) q
        = a.testBit (e - 1 - q) := by
    intro q hq
    rw [encFn_eq _ _ _ (by simp [transpose]; exact hq)]
    have hrow : (transpose e ((List.range (2 ^ e)).map (addressBits e))).getD q []
        = (List.range (2 ^ e)).map fun b => if b.testBit (e - 1 - q) then 1 else 0 := by
      simp only [transpose, List.getD_eq_getElem?_getD, List.getElem?_map, List.getElem?_range hq,
        Option.map_some, Option.getD_some, List.map_map]
      apply List.map_congr_left
      intro b _
      simp [Function.comp, addressBits, List.getD_eq_getElem?_getD, hq]
    show (dot ((transpose e ((List.range (2 ^ e)).map (addressBits e))).getD q []) (unitVec (2 ^ e) a) % 2 == 1) = _
    rw [hrow, dot_comm]
    unfold unitVec
    rw [dot_unit, if_pos ha, getD_map_range _ _ a ha]
    by_cases hb : a.testBit (e - 1 - q) <;> simp [hb]
  intro j hj
  have hj' : j < 2 ^ e := hj
  show decFn (dec.map .poly) _ j = _
  rw [decFn_map_poly]
  have hjd : j < dec.length := by rw [hdl]; simpa using hj'
  have hget : dec.getD j [] = dec[j] := by simp [List.getD_eq_getElem?_getD, hjd]
  have hspec := hdspec j (by simpa using hj') hjd
  simp only [List.getElem_range] at hspec
  rw [hget, hspec]
  have hv : (unitVec (2 ^ e) a).getD j 0 = if a = j then 1 else 0 := by
    unfold unitVec; rw [getD_map_range _ _ j hj']
  rw [hv]
  by_cases haj : a = j
  · subst haj
    simp only [if_true]
    rw [List.all_eq_true.mpr]
    · rfl
    · intro i hi
      rw [henc i (List.mem_range.mp hi)]; simp
  · simp only [haj, if_false]
    have : ((List.range e).all fun i =>
        encFn ⟨transpose e ((List.range (2 ^ e)).map (addressBits e)), dec.map .poly, e, 2 ^ e⟩
          (unitVec (2 ^ e) a) i == j.testBit (e - 1 - i)) = false := by
      apply Bool.eq_false_iff.mpr
      intro hall
      apply haj
      apply eq_of_bits e a j ha hj'
      intro i hi
      have := List.all_eq_true.mp hall i (List.mem_range.mpr hi)
      rw [henc i hi] at this
      simpa using this
    rw [this]; rfl

end OFV.C09
