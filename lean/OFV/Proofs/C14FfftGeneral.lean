/-
C14 — `ffft` for ARBITRARY sizes: the operations emitted for any factor list act on one-particle coefficient
vectors as the discrete Fourier transform (generalised Cooley–Tukey), given that the prime-size blocks
(`bogoliubov_transform` with `fft_matrix(p)`) act as DFTs — which is their specification (C11 / oracle).
-/
import OFV.Proofs.C14FfftAction
import OFV.Proofs.C14Ffft

namespace OFV.C14
open OFV.Model.C14 Finset

variable {R : Type} [CommRing R]

/-! ### arithmetic of `i = x·ny + y` -/

theorem split_mod (ny x y : Nat) (hy : y < ny) : (x * ny + y) % ny = y := by
  rw [Nat.add_comm, Nat.add_mul_mod_self_right, Nat.mod_eq_of_lt hy]

theorem split_div (ny x y : Nat) (hy : y < ny) : (x * ny + y) / ny = x := by
  have hpos : 0 < ny := by omega
  rw [Nat.add_comm, Nat.add_mul_div_right _ _ hpos, Nat.div_eq_of_lt hy, Nat.zero_add]

theorem split_lt (ny nx x y : Nat) (hy : y < ny) (hx : x < nx) : x * ny + y < ny * nx := by
  have : (x + 1) * ny ≤ nx * ny := Nat.mul_le_mul_right ny hx
  have h2 : x * ny + y < (x + 1) * ny := by rw [Nat.add_mul, Nat.one_mul]; omega
  calc x * ny + y < (x + 1) * ny := h2
    _ ≤ nx * ny := this
    _ = ny * nx := Nat.mul_comm _ _

theorem div_lt_of_lt_mul' (ny nx i : Nat) (hi : i < ny * nx) : i / ny < nx := by
  rcases Nat.eq_zero_or_pos ny with h | h
  · subst h; simp at hi
  · exact (Nat.div_lt_iff_lt_mul h).mpr (by rw [Nat.mul_comm]; exact hi)

/-! ### the general shuffle `i ↦ (i % ny)·nx + i / ny` -/

def gshuffle (ny nx : Nat) : List Nat := (List.range (ny * nx)).map fun i => (i % ny) * nx + i / ny

theorem gshuffle_length (ny nx : Nat) : (gshuffle ny nx).length = ny * nx := by simp [gshuffle]

theorem gshuffle_getD (ny nx i : Nat) (hi : i < ny * nx) : (gshuffle ny nx).getD i 0 = (i % ny) * nx + i / ny := by
  simp [gshuffle, List.getD_eq_getElem?_getD, List.getElem?_map, List.getElem?_range hi]

theorem gshuffle_getElem (ny nx i : Nat) (hi : i < (gshuffle ny nx).length) :
    (gshuffle ny nx)[i] = (i % ny) * nx + i / ny := by
  simp [gshuffle]

theorem gshuffle_nodup (ny nx : Nat) : (gshuffle ny nx).Nodup := by
  unfold gshuffle
  apply List.Nodup.map_on _ List.nodup_range
  intro a ha b hb h
  rw [List.mem_range] at ha hb
  have hny : 0 < ny := by
    rcases Nat.eq_zero_or_pos ny with h0 | h0
    · subst h0; simp at ha
    · exact h0
  have ha' := div_lt_of_lt_mul' ny nx a ha
  have hb' := div_lt_of_lt_mul' ny nx b hb
  have hnx : 0 < nx := Nat.lt_of_le_of_lt (Nat.zero_le _) ha'
  -- divide and reduce modulo nx
  have h1 : ((a % ny) * nx + a / ny) / nx = a % ny := by
    rw [Nat.add_comm, Nat.add_mul_div_right _ _ hnx, Nat.div_eq_of_lt ha', Nat.zero_add]
  have h2 : ((b % ny) * nx + b / ny) / nx = b % ny := by
    rw [Nat.add_comm, Nat.add_mul_div_right _ _ hnx, Nat.div_eq_of_lt hb', Nat.zero_add]
  have h3 : ((a % ny) * nx + a / ny) % nx = a / ny := by
    rw [Nat.add_comm, Nat.add_mul_mod_self_right, Nat.mod_eq_of_lt ha']
  have h4 : ((b % ny) * nx + b / ny) % nx = b / ny := by
    rw [Nat.add_comm, Nat.add_mul_mod_self_right, Nat.mod_eq_of_lt hb']
  have e1 : a % ny = b % ny := by rw [← h1, ← h2, h]
  have e2 : a / ny = b / ny := by rw [← h3, ← h4, h]
  rw [← Nat.div_add_mod a ny, ← Nat.div_add_mod b ny, e1, e2]

theorem gshuffle_idxOf (ny nx y x' : Nat) (hy : y < ny) (hx : x' < nx) :
    (gshuffle ny nx).idxOf (y * nx + x') = x' * ny + y := by
  have hlt : x' * ny + y < (gshuffle ny nx).length := by rw [gshuffle_length]; exact split_lt ny nx x' y hy hx
  have := (gshuffle_nodup ny nx).idxOf_getElem (x' * ny + y) hlt
  rw [gshuffle_getElem, split_mod ny x' y hy, split_div ny x' y hy] at this
  exact this

/-! ### normal form of the recursion -/

/-- the size-`ny` transform at the end of the recursion: `F0` for 2, a prime block otherwise -/
def smallOp (ny s : Nat) : FfftOp := if ny == 2 then FfftOp.f0 s else FfftOp.prime s ny

/-- twiddles of block `x`, then its size-`ny` transform -/
def tailBlock (start ny nx x : Nat) : List FfftOp :=
  ((List.range (ny - 1)).map fun y' => FfftOp.twiddle (x * (y' + 1)) (ny * nx) (start + ny * x + y' + 1))
    ++ [smallOp ny (start + ny * x)]

theorem ffftRec_single (start n p : Nat) : ffftRec start n [p] = [smallOp p start] := by
  by_cases h : p = 2 <;> simp [ffftRec, smallOp, h]

theorem ffftRec_cons (start ny nx f : Nat) (fx : List Nat) (hny : 0 < ny) :
    ffftRec start (ny * nx) (ny :: f :: fx) =
      [FfftOp.perm start (gshuffle ny nx) false]
        ++ (List.range ny).flatMap (fun y => ffftRec (start + nx * y) nx (f :: fx))
        ++ [FfftOp.perm start (gshuffle ny nx) true]
        ++ (List.range nx).flatMap (tailBlock start ny nx)
        ++ [FfftOp.perm start (gshuffle ny nx) false] := by
  rw [ffftRec]
  · simp only [Nat.mul_div_cancel_left nx hny, gshuffle]
    have ht : (fun x => List.map (fun y' => FfftOp.twiddle (x * (y' + 1)) (ny * nx) (start + ny * x + y' + 1))
          (List.range (ny - 1)) ++ if (ny == 2) = true then [FfftOp.f0 (start + ny * x)]
            else [FfftOp.prime (start + ny * x) ny]) = tailBlock start ny nx := by
      funext x
      by_cases h : ny = 2 <;> simp [tailBlock, smallOp, h]
    simp only [ht]
  · intro h; cases h

/-! ### single operations -/

theorem gpermF_outside (O : CoefOps R) (N start ny nx : Nat) (v : Nat → R) (i : Nat)
    (h : i < start ∨ start + ny * nx ≤ i) :
    applyFfftOp O N v (.perm start (gshuffle ny nx) false) i = v i := by
  simp only [applyFfftOp, gshuffle_length]
  rw [if_neg (by omega)]

theorem gpermF_inside (O : CoefOps R) (N start ny nx : Nat) (v : Nat → R) (y x' : Nat) (hy : y < ny) (hx : x' < nx) :
    applyFfftOp O N v (.perm start (gshuffle ny nx) false) (start + (y * nx + x')) = v (start + (x' * ny + y)) := by
  simp only [applyFfftOp, gshuffle_length]
  have hlt : y * nx + x' < ny * nx := by
    have := split_lt nx ny y x' hx hy
    rw [Nat.mul_comm nx ny] at this; exact this
  rw [if_pos (by omega)]
  have : start + (y * nx + x') - start = y * nx + x' := by omega
  rw [this, gshuffle_idxOf ny nx y x' hy hx]

theorem gpermI_outside (O : CoefOps R) (N start ny nx : Nat) (v : Nat → R) (i : Nat)
    (h : i < start ∨ start + ny * nx ≤ i) :
    applyFfftOp O N v (.perm start (gshuffle ny nx) true) i = v i := by
  simp only [applyFfftOp, gshuffle_length]
  rw [if_neg (by omega)]

theorem gpermI_inside (O : CoefOps R) (N start ny nx : Nat) (v : Nat → R) (y kx : Nat) (hy : y < ny) (hx : kx < nx) :
    applyFfftOp O N v (.perm start (gshuffle ny nx) true) (start + (kx * ny + y)) = v (start + (y * nx + kx)) := by
  simp only [applyFfftOp, gshuffle_length]
  have hlt := split_lt ny nx kx y hy hx
  rw [if_pos (by omega)]
  have : start + (kx * ny + y) - start = kx * ny + y := by omega
  rw [this, gshuffle_getD ny nx _ hlt, split_mod ny kx y hy, split_div ny kx y hy]

/-! ### blocks processed one after the other -/

theorem blk_lt (sz b c k : Nat) (hb : b < c) (hk : k < sz) : sz * b + k < sz * c := by
  have : sz * (b + 1) ≤ sz * c := Nat.mul_le_mul_left sz hb
  rw [Nat.mul_add, Nat.mul_one] at this
  omega

/-- `v'` is `v` with block `b` (`start + sz·b … + sz − 1`) replaced by `G` of that block -/
def BlockMap (sz start b : Nat) (G : (Nat → R) → Nat → R) (v v' : Nat → R) : Prop :=
  (∀ i, (i < start + sz * b ∨ start + sz * b + sz ≤ i) → v' i = v i) ∧
  ∀ k, k < sz → v' (start + sz * b + k) = G (fun j => v (start + sz * b + j)) k

theorem blocks_seq (O : CoefOps R) (N sz start : Nat) (A : Nat → List FfftOp) (G : Nat → (Nat → R) → Nat → R)
    (hloc : ∀ b f g, (∀ j, j < sz → f j = g j) → G b f = G b g)
    (hA : ∀ b v0, BlockMap sz start b (G b) v0 (runFfft O N (A b) v0)) (v : Nat → R) :
    ∀ c,
      (∀ i, (i < start ∨ start + sz * c ≤ i) → runFfft O N ((List.range c).flatMap A) v i = v i) ∧
      ∀ b, b < c → ∀ k, k < sz →
        runFfft O N ((List.range c).flatMap A) v (start + sz * b + k) = G b (fun j => v (start + sz * b + j)) k := by
  intro c
  induction c with
  | zero => simp [runFfft]
  | succ c ih =>
    obtain ⟨io, ib⟩ := ih
    simp only [List.range_succ, List.flatMap_append, List.flatMap_cons, List.flatMap_nil, List.append_nil]
    rw [runFfft_append]
    generalize runFfft O N ((List.range c).flatMap A) v = v1 at *
    obtain ⟨ho, hb⟩ := hA c v1
    have hstep : sz * (c + 1) = sz * c + sz := by rw [Nat.mul_add, Nat.mul_one]
    constructor
    · intro i hi
      rw [ho i (by omega), io i (by omega)]
    · intro b hbc k hk
      by_cases hbe : b = c
      · subst hbe
        rw [hb k hk]
        apply congrFun
        apply hloc
        intro j hj
        exact io _ (by omega)
      · have hlt : b < c := by omega
        have := blk_lt sz b c k hlt hk
        rw [ho _ (by omega), ib b hlt k hk]

/-! ### small transforms, twiddles -/

theorem foldl_add_sum (g : Nat → R) (p : Nat) :
    (List.range p).foldl (fun acc j => acc + g j) 0 = ∑ j ∈ range p, g j := by
  induction p with
  | zero => simp
  | succ p ih => rw [List.range_succ, List.foldl_append, ih, sum_range_succ]; simp

/-- the discrete Fourier transform of a window with root `u` -/
def dftG (u : R) (sz : Nat) (f : Nat → R) (k : Nat) : R := ∑ j ∈ range sz, u ^ (k * j) * f j

theorem dftG_local (u : R) (sz : Nat) (f g : Nat → R) (h : ∀ j, j < sz → f j = g j) : dftG u sz f = dftG u sz g := by
  funext k
  unfold dftG
  apply sum_congr rfl
  intro j hj
  rw [h j (mem_range.mp hj)]

theorem smallOp_block (w : R) (N ny s : Nat) (h2 : ny = 2 → w ^ (N / 2) = -1) (v : Nat → R) :
    (∀ i, (i < s ∨ s + ny ≤ i) → applyFfftOp (ringOps w) N v (smallOp ny s) i = v i) ∧
    ∀ k, k < ny → applyFfftOp (ringOps w) N v (smallOp ny s) (s + k) = dftG (w ^ (N / ny)) ny (fun j => v (s + j)) k := by
  by_cases h : ny = 2
  · subst h
    have hw := h2 rfl
    simp only [smallOp, beq_self_eq_true, if_true, applyFfftOp, ringOps, dftG]
    constructor
    · intro i hi
      have n1 : i ≠ s := by omega
      have n2 : i ≠ s + 1 := by omega
      simp [n1, n2]
    · intro k hk
      have hk' : k = 0 ∨ k = 1 := by omega
      rcases hk' with rfl | rfl
      · simp [sum_range_succ]
      · simp [sum_range_succ, hw]; ring
  · have hs : smallOp ny s = FfftOp.prime s ny := by simp [smallOp, h]
    rw [hs]
    simp only [applyFfftOp, ringOps, dftG]
    constructor
    · intro i hi
      rw [if_neg (by omega)]
    · intro k hk
      rw [if_pos (by omega), foldl_add_sum]
      apply sum_congr rfl
      intro j _
      have : s + k - s = k := by omega
      rw [this, ← pow_mul]
      congr 2
      ring

theorem twiddles_run (w : R) (N n s x : Nat) (v : Nat → R) :
    ∀ c, (∀ i, (i ≤ s ∨ s + c < i) →
        runFfft (ringOps w) N ((List.range c).map fun y' => FfftOp.twiddle (x * (y' + 1)) n (s + y' + 1)) v i = v i) ∧
      ∀ y, 1 ≤ y → y ≤ c →
        runFfft (ringOps w) N ((List.range c).map fun y' => FfftOp.twiddle (x * (y' + 1)) n (s + y' + 1)) v (s + y)
          = w ^ (x * y * (N / n)) * v (s + y) := by
  intro c
  induction c with
  | zero => constructor <;> intros <;> first | rfl | omega
  | succ c ih =>
    obtain ⟨io, iy⟩ := ih
    simp only [List.range_succ, List.map_append, List.map_cons, List.map_nil]
    rw [runFfft_append]
    generalize runFfft (ringOps w) N ((List.range c).map fun y' => FfftOp.twiddle (x * (y' + 1)) n (s + y' + 1)) v = v1 at *
    simp only [runFfft, List.foldl_cons, List.foldl_nil, applyFfftOp, ringOps]
    constructor
    · intro i hi
      have : i ≠ s + c + 1 := by omega
      rw [if_neg this]
      exact io i (by omega)
    · intro y h1 hy
      by_cases hyc : y = c + 1
      · subst hyc
        rw [if_pos (by ring), io _ (by omega)]
        congr 1
      · have : s + y ≠ s + c + 1 := by omega
        rw [if_neg this]
        exact iy y h1 (by omega)

/-! ### the tail layer: twiddles and the size-`ny` transform of block `x` -/

def tailG (w : R) (N ny nx x : Nat) (f : Nat → R) (k : Nat) : R :=
  dftG (w ^ (N / ny)) ny (fun y => w ^ (x * y * (N / (ny * nx))) * f y) k

theorem tailG_local (w : R) (N ny nx x : Nat) (f g : Nat → R) (h : ∀ j, j < ny → f j = g j) :
    tailG w N ny nx x f = tailG w N ny nx x g := by
  unfold tailG
  apply dftG_local
  intro j hj
  rw [h j hj]

theorem tailBlock_map (w : R) (N start ny nx x : Nat) (hny : 0 < ny) (h2 : ny = 2 → w ^ (N / 2) = -1)
    (v : Nat → R) :
    BlockMap ny start x (tailG w N ny nx x) v (runFfft (ringOps w) N (tailBlock start ny nx x) v) := by
  unfold tailBlock
  rw [runFfft_append]
  obtain ⟨tw0, ty⟩ := twiddles_run w N (ny * nx) (start + ny * x) x v (ny - 1)
  generalize runFfft (ringOps w) N ((List.range (ny - 1)).map fun y' =>
    FfftOp.twiddle (x * (y' + 1)) (ny * nx) (start + ny * x + y' + 1)) v = v1 at *
  obtain ⟨so, sk⟩ := smallOp_block w N ny (start + ny * x) h2 v1
  simp only [runFfft, List.foldl_cons, List.foldl_nil]
  constructor
  · intro i hi
    rw [so i (by omega), tw0 i (by omega)]
  · intro k hk
    rw [sk k hk]
    unfold tailG
    apply congrFun
    apply dftG_local
    intro y hy
    rcases Nat.eq_zero_or_pos y with h0 | hpos
    · subst h0
      simp only [Nat.add_zero, Nat.mul_zero, Nat.zero_mul, pow_zero, one_mul]
      exact tw0 _ (by omega)
    · exact ty y hpos (by omega)

/-! ### sums -/

theorem sum_range_add' (f : Nat → R) (a b : Nat) :
    ∑ j ∈ range (a + b), f j = ∑ j ∈ range a, f j + ∑ j ∈ range b, f (a + j) := by
  induction b with
  | zero => simp
  | succ b ih => rw [← Nat.add_assoc, sum_range_succ, ih, sum_range_succ]; ring

theorem sum_range_mul (f : Nat → R) (ny nx : Nat) :
    ∑ j ∈ range (ny * nx), f j = ∑ x ∈ range nx, ∑ y ∈ range ny, f (x * ny + y) := by
  induction nx with
  | zero => simp
  | succ nx ih =>
    rw [Nat.mul_add, Nat.mul_one, sum_range_add', ih, sum_range_succ]
    congr 1
    apply sum_congr rfl
    intro y _
    rw [Nat.mul_comm]

/-! ### the general Cooley–Tukey step -/

theorem isDFT_iff_blockMap (u : R) (sz start b : Nat) (v v' : Nat → R) :
    IsDFT u sz (start + sz * b) v v' ↔ BlockMap sz start b (dftG u sz) v v' := by
  unfold IsDFT BlockMap dftG
  rfl

theorem gdft_step (w : R) (N q ny nx start : Nat) (hN : N = q * (ny * nx)) (hw : w ^ N = 1)
    (hny : 0 < ny) (hnx : 0 < nx) (h2 : ny = 2 → w ^ (N / 2) = -1) (v : Nat → R) (A : Nat → List FfftOp)
    (ih : ∀ y v0, IsDFT (w ^ (N / nx)) nx (start + nx * y) v0 (runFfft (ringOps w) N (A y) v0)) :
    IsDFT (w ^ (N / (ny * nx))) (ny * nx) start v
      (runFfft (ringOps w) N
        ([FfftOp.perm start (gshuffle ny nx) false] ++ (List.range ny).flatMap A
          ++ [FfftOp.perm start (gshuffle ny nx) true] ++ (List.range nx).flatMap (tailBlock start ny nx)
          ++ [FfftOp.perm start (gshuffle ny nx) false]) v) := by
  have hn : 0 < ny * nx := Nat.mul_pos hny hnx
  have hq : N / (ny * nx) = q := by rw [hN, Nat.mul_div_cancel _ hn]
  have hqy : N / ny = q * nx := by
    rw [hN, show q * (ny * nx) = (q * nx) * ny by ring, Nat.mul_div_cancel _ hny]
  have hqx : N / nx = q * ny := by
    rw [hN, show q * (ny * nx) = (q * ny) * nx by ring, Nat.mul_div_cancel _ hnx]
  set u := w ^ q with hu
  have hun : u ^ (ny * nx) = 1 := by rw [hu, ← pow_mul, ← hN, hw]
  have huy : w ^ (N / ny) = u ^ nx := by rw [hqy, pow_mul]
  have hux : w ^ (N / nx) = u ^ ny := by rw [hqx, pow_mul]
  rw [hq]
  simp only [runFfft_append]
  set v1 := runFfft (ringOps w) N [FfftOp.perm start (gshuffle ny nx) false] v with hv1
  set v3 := runFfft (ringOps w) N ((List.range ny).flatMap A) v1 with hv3
  set v4 := runFfft (ringOps w) N [FfftOp.perm start (gshuffle ny nx) true] v3 with hv4
  set v5 := runFfft (ringOps w) N ((List.range nx).flatMap (tailBlock start ny nx)) v4 with hv5
  have e1 : ∀ i, v1 i = applyFfftOp (ringOps w) N v (.perm start (gshuffle ny nx) false) i := by
    intro i; simp [hv1, runFfft]
  have e4 : ∀ i, v4 i = applyFfftOp (ringOps w) N v3 (.perm start (gshuffle ny nx) true) i := by
    intro i; simp [hv4, runFfft]
  -- the ny sub-transforms
  obtain ⟨o3, b3⟩ := blocks_seq (ringOps w) N nx start A (fun _ => dftG (u ^ ny) nx)
    (fun _ f g h => dftG_local _ _ f g h)
    (fun y v0 => by rw [← isDFT_iff_blockMap, ← hux]; exact ih y v0) v1 ny
  rw [← hv3] at o3 b3
  -- the nx tail blocks
  obtain ⟨o5, b5⟩ := blocks_seq (ringOps w) N ny start (tailBlock start ny nx) (fun x => tailG w N ny nx x)
    (fun x f g h => tailG_local w N ny nx x f g h)
    (fun x v0 => tailBlock_map w N start ny nx x hny h2 v0) v4 nx
  rw [← hv5] at o5 b5
  constructor
  · intro i hi
    simp only [runFfft, List.foldl_cons, List.foldl_nil]
    rw [gpermF_outside _ _ _ _ _ _ _ hi, o5 i hi, e4, gpermI_outside _ _ _ _ _ _ _ hi,
      o3 i (by rw [Nat.mul_comm nx ny]; exact hi), e1, gpermF_outside _ _ _ _ _ _ _ hi]
  · intro k hk
    have hky : k / nx < ny := div_lt_of_lt_mul' nx ny k (by rw [Nat.mul_comm]; exact hk)
    have hkx : k % nx < nx := Nat.mod_lt _ hnx
    have hk' : k = (k / nx) * nx + k % nx := by rw [Nat.mul_comm]; exact (Nat.div_add_mod k nx).symm
    generalize k / nx = ky at *
    generalize k % nx = kx at *
    subst hk'
    simp only [runFfft, List.foldl_cons, List.foldl_nil]
    rw [gpermF_inside _ _ _ _ _ _ ky kx hky hkx]
    rw [show start + (kx * ny + ky) = start + ny * kx + ky by ring, b5 kx hkx ky hky]
    unfold tailG dftG
    rw [sum_range_mul, sum_comm]
    apply sum_congr rfl
    intro y hy
    rw [mem_range] at hy
    -- the entry of v4 is a transformed block entry of v3
    have h4 : v4 (start + ny * kx + y) = ∑ x' ∈ range nx, (u ^ ny) ^ (kx * x') * v (start + (x' * ny + y)) := by
      rw [e4, show start + ny * kx + y = start + (kx * ny + y) by ring, gpermI_inside _ _ _ _ _ _ y kx hy hkx,
        show start + (y * nx + kx) = start + nx * y + kx by ring, b3 y hy kx hkx]
      unfold dftG
      apply sum_congr rfl
      intro x' hx'
      rw [mem_range] at hx'
      beta_reduce
      rw [e1, show start + nx * y + x' = start + (y * nx + x') by ring, gpermF_inside _ _ _ _ _ _ y x' hy hx']
    beta_reduce
    rw [h4, hq, huy, mul_sum, mul_sum]
    apply sum_congr rfl
    intro x' _
    have hexp : (ky * nx + kx) * (x' * ny + y) = nx * (ky * y) + kx * y + ny * (kx * x') + (ny * nx) * (ky * x') := by
      ring
    rw [hexp, pow_add, pow_add, pow_add, pow_mul u (ny * nx), hun, one_pow, mul_one,
      ← pow_mul, ← pow_mul, ← pow_mul]
    have e5 : w ^ (kx * y * q) = (w ^ q) ^ (kx * y) := by rw [← pow_mul]; congr 1; ring
    rw [e5]
    simp only [hu]
    ring

/-! ### every factor list -/

theorem listProd_cons (a : Nat) (l : List Nat) : listProd (a :: l) = a * listProd l := by simp [listProd]

theorem listProd_pos : ∀ (l : List Nat), (∀ p ∈ l, 0 < p) → 0 < listProd l
  | [], _ => by simp [listProd]
  | a :: l, h => by
    rw [listProd_cons]
    exact Nat.mul_pos (h a List.mem_cons_self) (listProd_pos l fun p hp => h p (List.mem_cons_of_mem _ hp))

theorem ffftRec_isDFT (w : R) (N : Nat) (hw : w ^ N = 1) (h2 : 2 ∣ N → w ^ (N / 2) = -1) :
    ∀ (fs : List Nat) (start : Nat) (v : Nat → R), (∀ p ∈ fs, 0 < p) → listProd fs ∣ N →
      IsDFT (w ^ (N / listProd fs)) (listProd fs) start v
        (runFfft (ringOps w) N (ffftRec start (listProd fs) fs) v)
  | [], start, v, _, _ => by
    refine ⟨fun i _ => by simp [ffftRec, runFfft], ?_⟩
    intro k hk
    simp only [listProd, List.foldr_nil] at hk ⊢
    have : k = 0 := by omega
    subst this
    simp [ffftRec, runFfft]
  | [p], start, v, hpos, hdvd => by
    have hp : listProd [p] = p := by simp [listProd]
    rw [hp] at hdvd ⊢
    rw [ffftRec_single]
    have h2' : p = 2 → w ^ (N / 2) = -1 := fun h => h2 (h ▸ hdvd)
    obtain ⟨a, b⟩ := smallOp_block w N p start h2' v
    exact ⟨fun i hi => by simpa [runFfft] using a i hi, fun k hk => by simpa [runFfft, dftG] using b k hk⟩
  | ny :: f :: fx, start, v, hpos, hdvd => by
    have hny : 0 < ny := hpos ny List.mem_cons_self
    have hpos' : ∀ p ∈ f :: fx, 0 < p := fun p hp => hpos p (List.mem_cons_of_mem _ hp)
    have hnx : 0 < listProd (f :: fx) := listProd_pos _ hpos'
    rw [listProd_cons] at hdvd ⊢
    generalize hnxd : listProd (f :: fx) = nx at *
    obtain ⟨q, hq⟩ := hdvd
    have hN : N = q * (ny * nx) := by rw [hq]; ring
    have h2' : ny = 2 → w ^ (N / 2) = -1 := fun h => h2 ⟨q * nx, by rw [hN, h]; ring⟩
    have hdx : nx ∣ N := ⟨q * ny, by rw [hN]; ring⟩
    rw [ffftRec_cons start ny nx f fx hny]
    apply gdft_step w N q ny nx start hN hw hny hnx h2' v (fun y => ffftRec (start + nx * y) nx (f :: fx))
    intro y v0
    have := ffftRec_isDFT w N hw h2 (f :: fx) (start + nx * y) v0 hpos' (by rw [hnxd]; exact hdx)
    rw [hnxd] at this
    exact this

theorem primeFactors_pos : ∀ (fuel n : Nat), ∀ p ∈ primeFactors n fuel, 0 < p
  | 0, n => by simp [primeFactors]
  | fuel + 1, n => by
    intro p hp
    unfold primeFactors at hp
    by_cases hn : n < 2
    · simp [hn] at hp
    · rw [if_neg hn] at hp
      simp only [List.mem_cons] at hp
      rcases hp with rfl | hp
      · exact Nat.lt_of_lt_of_le (by norm_num) (smallestFactor_spec n n 2 (Nat.le_refl 2) (by omega)).2
      · exact primeFactors_pos fuel _ p hp

theorem pow_mod_of_pow_eq_one {R : Type} [CommRing R] (w : R) (n m : Nat) (hw : w ^ n = 1) : w ^ (m % n) = w ^ m := by
  conv_rhs => rw [← Nat.div_add_mod m n, pow_add, pow_mul, hw, one_pow, one_mul]


end OFV.C14
