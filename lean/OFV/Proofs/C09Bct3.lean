/- C09, binary_code_transform, part 3: one term of the Hamiltonian acts on the encoded basis
state as the Spec fermionic term acts on the occupation state (tolerance-free Model). -/
import OFV.Proofs.C09Bct2

namespace OFV.C09
open OFV.Model OFV.Model.C09 OFV.Spec.C09
open OFV.Spec (actF actFTerm countBelow)
open OFV.Sem (den ValidOp ValidQ)
open OFV.C10 (specStep actFTerm_eq_foldl)

theorem inv_fold (c : Code) (plist : List Poly) (w : Nat → Bool) (s : Nat) (hyp : BctHyp c plist w s)
    (r : List (Nat × Nat)) (hr : ∀ f ∈ r, f.2 ≤ 1) (st st' : TermState) (σ : Option (Nat × Nat))
    (hinv : Inv w s st σ) (h : r.foldlM (bctFactor 0 c plist) st = .ok st') :
    Inv w s st' (r.foldl specStep σ) ∧ st'.seen = st.seen ++ r.map (·.1) ∧
      st'.changed = (r.map (·.1)).foldl addAt st.changed := by
  induction r generalizing st σ with
  | nil =>
    simp only [List.foldlM_nil, pure, Except.pure, Except.ok.injEq] at h
    subst h; exact ⟨hinv, by simp, rfl⟩
  | cons f rest ih =>
    rw [List.foldlM_cons] at h
    cases h1 : bctFactor 0 c plist st f with
    | error e => simp [h1, bind, Except.bind] at h
    | ok st1 =>
      simp only [h1, bind, Except.bind] at h
      have hstep := inv_step c plist w s hyp st st1 σ f (hr f (by simp)) hinv h1
      have hshape : st1.seen = st.seen ++ [f.1] ∧ st1.changed = addAt st.changed f.1 := by
        unfold bctFactor at h1
        cases a1 : decoderEntry c f.1 with
        | error e => simp [a1, bind, Except.bind] at h1
        | ok p =>
          cases a2 : extractor 0 p with
          | error e => simp [a1, a2, bind, Except.bind] at h1
          | ok ex =>
            cases a3 : parityEntry plist f.1 with
            | error e => simp [a1, a2, a3, bind, Except.bind] at h1
            | ok pl =>
              simp only [a1, a2, a3, bind, Except.bind, pure, Except.pure, Except.ok.injEq] at h1
              subst h1; exact ⟨rfl, rfl⟩
      obtain ⟨i1, i2, i3⟩ := ih (fun g hg => hr g (List.mem_cons_of_mem _ hg)) st1 (specStep σ f) hstep h
      refine ⟨by rw [List.foldl_cons]; exact i1, ?_, ?_⟩
      · rw [i2, hshape.1]; simp
      · rw [i3, hshape.2]; simp

theorem sgn_combine (k p : Nat) (e : Bool) (h : k % 2 = (p + b2n e) % 2) : GQ.sgn p * sgnB e = GQ.sgn k := by
  rw [sgn_mod p, sgn_mod k]
  have hp := Nat.mod_two_eq_zero_or_one p
  cases e
  · have h' : k % 2 = p % 2 := by simpa [b2n] using h
    rcases hp with hp | hp
    · have hk : k % 2 = 0 := by omega
      simp only [hp, hk, if_true]; exact GQ.ext (by simp [sgnB]) (by simp [sgnB])
    · have hk : k % 2 = 1 := by omega
      simp only [hp, hk, if_false, Nat.one_ne_zero]; exact GQ.ext (by simp [sgnB]) (by simp [sgnB])
  · have h' : k % 2 = (p + 1) % 2 := by simpa [b2n] using h
    rcases hp with hp | hp
    · have hk : k % 2 = 1 := by omega
      simp only [hp, hk, if_true, if_false, Nat.one_ne_zero]; exact GQ.ext (by simp [sgnB]) (by simp [sgnB])
    · have hk : k % 2 = 0 := by omega
      simp only [hp, hk, if_true, if_false, Nat.one_ne_zero]; exact GQ.ext (by simp [sgnB]) (by simp [sgnB])

theorem smul_valid (x : GQ) (u : Op) (h : ValidOp u) : ValidOp (smul x u) := by
  intro tc htc
  simp only [smul, List.mem_map] at htc
  obtain ⟨y, hy, rfl⟩ := htc
  exact h y hy

theorem diag_parityFinish (w : Nat → Bool) (t1 : Op) (q : QV) (h1 : ZIop t1) (hq : ZIqv q) :
    diag w (parityFinish t1 q) = diag w t1 * diagQV w q ∧ ZIop (parityFinish t1 q) := by
  cases q with
  | num x =>
    refine ⟨?_, zi_smul x t1 h1⟩
    show diag w (smul x t1) = _
    rw [diag_smul, gq_mul_comm]; rfl
  | op o => exact diag_mulOp w t1 o h1 hq

/-- **One term of `binary_code_transform`** (tolerance-free Model).  Let `wq` be a qubit basis
state whose decoding through `code.decoder` is the occupation state `s` (and whose parity list
gives the parities of `s`): then for a product `t` of ladder operators with coefficient `coef`,
`⟨x| coef · update · transformed |wq⟩` is `0` when the Spec action `t|s⟩` vanishes, and otherwise
`coef · (-1)^k` at the single state `x = wq ⊕ M`, where `(-1)^k|s'⟩ = t|s⟩` in the Spec, `s'` is `s`
with the modes of `t` flipped and `M` is the qubit mask of `A · (flip counts) mod 2`. -/
theorem bct_term_sound' (c : Code) (plist : List Poly) (wq s : Nat) (hyp : BctHyp c plist (bitsOf wq) s)
    (t : Term) (ht : ∀ f ∈ t, f.2 ≤ 1) (coef : GQ) (R : Op) (h : bctTerm 0 c plist t coef = .ok R) (x : Nat) :
    den .qubit R [wq] [x] =
      match actFTerm t s with
      | none => 0
      | some (k, s') =>
        if x = wq ^^^ updMask (encode c ((t.reverse.map (·.1)).foldl addAt (zeros c.nm))) then coef * GQ.sgn k else 0 := by
  unfold bctTerm at h
  cases h1 : t.reverse.foldlM (bctFactor 0 c plist) ⟨[], 0, [], zeros c.nm, [([], 1)]⟩ with
  | error e => simp [h1, bind, Except.bind] at h
  | ok st =>
    cases h2 : extractor 0 st.parityTerm with
    | error e => simp [h1, h2, bind, Except.bind] at h
    | ok q =>
      simp only [h1, h2, bind, Except.bind, pure, Except.pure, Except.ok.injEq] at h
      subst h
      let w := bitsOf wq
      have hinv0 : Inv w s ⟨[], 0, [], zeros c.nm, [([], 1)]⟩ (some (0, s)) := by
        refine ⟨zi_const 1, (by intro t ht; cases ht), (by intro h; cases h), ?_⟩
        intro k s' hs
        simp only [Option.some.injEq, Prod.mk.injEq] at hs
        obtain ⟨rfl, rfl⟩ := hs
        exact ⟨diag_const w 1, rfl, rfl⟩
      obtain ⟨hinv, hseen, hchanged⟩ := inv_fold c plist w s hyp t.reverse
        (fun f hf => ht f (List.mem_reverse.mp hf)) _ st _ hinv0 h1
      rw [← actFTerm_eq_foldl] at hinv
      simp only [List.nil_append] at hseen
      obtain ⟨q1, q2⟩ := extractor_diag w st.parityTerm hinv.ne q h2
      obtain ⟨t1d, t1z⟩ := diag_mulOp w st.transformed [([], GQ.sgn st.parity)] hinv.zi (zi_const _)
      obtain ⟨t2d, t2z⟩ := diag_parityFinish w _ q t1z q2
      have hflip : FlipOp (updateOp (encode c st.changed)) (updMask (encode c st.changed)) :=
        flipOp_update (encode c st.changed)
      rw [den_mul_diag _ _ (smul_valid coef _ hflip.1) t2z wq x, Sem.den_smul, hflip.2 wq x, t2d, t1d, diag_const, q1,
        hchanged]
      cases hσ : actFTerm t s with
      | none =>
        simp only
        rw [hinv.dead hσ]
        exact GQ.ext (by simp) (by simp)
      | some ks =>
        obtain ⟨k, s'⟩ := ks
        simp only
        obtain ⟨a1, _, a3⟩ := hinv.alive k s' hσ
        rw [a1, gq_one_mul, sgn_combine k st.parity _ a3]
        split
        · exact GQ.ext (by simp; ring) (by simp; ring)
        · exact GQ.ext (by simp) (by simp)

end OFV.C09
