/-
C07 — the hopping shortcut of `double_commutator`: for hopping operators sharing exactly one mode,
`[t (i^ k + k^ i), w (k^ j + j^ k)] = t w (i^ j - j^ i)` as operators on Fock space (all matrix
elements), by the canonical anticommutation relations of the Spec.  Core Lean only.
-/
import OFV.Proofs.C07Dual
import OFV.Proofs.C07Ops
import OFV.Model.C07NormalOrder

namespace OFV
namespace Proofs
namespace C07F
open OFV.Spec OFV.Model OFV.Model.C07 OFV.GQ

/-- matrix element `⟨u| f |s⟩` of a partial signed map, as a coefficient -/
def ampG (f : FMap) (s u : Nat) : GQ :=
  match f s with
  | none => 0
  | some (k, s') => if s' = u then GQ.sgn k else 0

theorem sgn_succ (k : Nat) (hk : k < 2) : GQ.sgn ((k + 1) % 2) = -GQ.sgn k := by
  have : k = 0 ∨ k = 1 := by omega
  rcases this with rfl | rfl <;> decide +kernel

theorem ampG_fneg_one (f : FMap) (hf : Red f) (s u : Nat) : ampG (fneg 1 f) s u = -ampG f s u := by
  simp only [ampG, fneg]
  cases h : f s with
  | none => apply GQ.ext <;> simp
  | some r =>
    obtain ⟨k, s'⟩ := r
    simp only
    by_cases hu : s' = u
    · simp only [hu, if_true]; exact sgn_succ k (hf s k s' h)
    · simp only [hu, if_false]; apply GQ.ext <;> simp

theorem ampG_fzero (s u : Nat) : ampG fzero s u = 0 := rfl

/-- `a_k a_k†`: the projector on "mode k empty" -/
def projEmpty (k : Nat) : FMap := fcomp (ffac (k, 0)) (ffac (k, 1))
/-- `a_k† a_k`: the projector on "mode k occupied" -/
def projFull (k : Nat) : FMap := fcomp (ffac (k, 1)) (ffac (k, 0))

theorem projEmpty_apply (k s : Nat) : projEmpty k s = if s.testBit k then none else some (0, s) := by
  have h1 := testBit_xflip s k
  have h2 := xflip_xflip s k
  have hc := countBelow_xflip_ge s k k (Nat.le_refl _)
  simp only [projEmpty, fcomp, ffac, actF]
  cases hb : s.testBit k <;> simp [hb, h1, h2, hc]
  omega

theorem projFull_apply (k s : Nat) : projFull k s = if s.testBit k then some (0, s) else none := by
  have h1 := testBit_xflip s k
  have h2 := xflip_xflip s k
  have hc := countBelow_xflip_ge s k k (Nat.le_refl _)
  simp only [projFull, fcomp, ffac, actF]
  cases hb : s.testBit k <;> simp [hb, h1, h2, hc]
  omega

/-- `a_k a_k† + a_k† a_k = 1`, composed with any map -/
theorem proj_sum (k : Nat) (X : FMap) (hX : Red X) (s u : Nat) :
    ampG (fcomp (projEmpty k) X) s u + ampG (fcomp (projFull k) X) s u = ampG X s u := by
  simp only [ampG, fcomp]
  cases h : X s with
  | none => simp [add_zero']
  | some r =>
    obtain ⟨κ, w⟩ := r
    have hκ := hX s κ w h
    have e : κ % 2 = κ := by omega
    simp only [projEmpty_apply, projFull_apply]
    cases hb : w.testBit k <;> simp [hb, e, add_zero', zero_add']

/-! ### reordering ladder operators -/

theorem swap3 (a b : Nat × Nat) (R : FMap) (h : a.1 ≠ b.1) :
    fcomp (ffac a) (fcomp (ffac b) R) = fneg 1 (fcomp (ffac b) (fcomp (ffac a) R)) := by
  obtain ⟨i, x⟩ := a
  obtain ⟨j, y⟩ := b
  rw [← fcomp_assoc, ffac_swap i x j y h, fneg_fcomp_left, fcomp_assoc]

theorem actFTerm_two (a b : Nat × Nat) : actFTerm [a, b] = fcomp (ffac a) (ffac b) := by
  rw [actFTerm_cons, actFTerm_cons, actFTerm_nil, fcomp_fid_right _ (red_ffac b)]

theorem actFTerm_four (a b c d : Nat × Nat) :
    actFTerm [a, b, c, d] = fcomp (ffac a) (fcomp (ffac b) (fcomp (ffac c) (ffac d))) := by
  rw [actFTerm_cons, actFTerm_cons, actFTerm_two]

theorem fneg_two (f : FMap) (hf : Red f) : fneg 1 (fneg 1 f) = f := by
  rw [fneg_fneg]; exact fneg_even 2 f hf rfl

/-- `a_i† a_k a_k† a_j = (a_k a_k†) a_i† a_j` for `i ≠ k` -/
theorem hop_prod_left (i k j : Nat) (hik : i ≠ k) :
    actFTerm [(i, 1), (k, 0), (k, 1), (j, 0)] = fcomp (projEmpty k) (actFTerm [(i, 1), (j, 0)]) := by
  rw [actFTerm_four, actFTerm_two, swap3 (i, 1) (k, 0) _ hik, swap3 (i, 1) (k, 1) _ hik, fneg_fcomp_right,
    fneg_two _ (red_fcomp _ _), projEmpty, fcomp_assoc]

/-- `a_k† a_j a_i† a_k = -(a_k† a_k) a_i† a_j` for distinct `i, j, k` -/
theorem hop_prod_right (i k j : Nat) (hik : i ≠ k) (hjk : j ≠ k) (hij : i ≠ j) :
    actFTerm [(k, 1), (j, 0), (i, 1), (k, 0)] =
      fneg 1 (fcomp (projFull k) (actFTerm [(i, 1), (j, 0)])) := by
  rw [actFTerm_four, actFTerm_two]
  -- a_i† a_k = - a_k a_i†
  rw [ffac_swap i 1 k 0 hik, fneg_fcomp_right, fneg_fcomp_right]
  -- a_j a_k (…) = - a_k a_j (…)
  rw [swap3 (j, 0) (k, 0) _ hjk, fneg_fcomp_right, fneg_fneg]
  -- a_j a_i† = - a_i† a_j
  rw [ffac_swap j 0 i 1 (Ne.symm hij), fneg_fcomp_right, fneg_fcomp_right, fneg_fneg, projFull, fcomp_assoc]
  exact fneg_congr _ _ _ (by decide)

/-! ### the four term pairs of `[i^ k + k^ i, k^ j + j^ k]` -/

/-- `⟨u| τ |s⟩` as a coefficient -/
def phiF (s u : Nat) (τ : Term) : GQ := ampG (actFTerm τ) s u

theorem phiF_zero_of_net (s u : Nat) (τ : Term) (m : Nat) (h : 2 ≤ net m τ ∨ net m τ ≤ -2) : phiF s u τ = 0 := by
  unfold phiF; rw [actFTerm_zero_of_net τ m h]; rfl

/-- `[i^ k, k^ j] = i^ j` -/
theorem pair_ik_kj (i k j s u : Nat) (hik : i ≠ k) (hjk : j ≠ k) (hij : i ≠ j) :
    phiF s u ([(i, 1), (k, 0)] ++ [(k, 1), (j, 0)]) + -(phiF s u ([(k, 1), (j, 0)] ++ [(i, 1), (k, 0)])) =
      phiF s u [(i, 1), (j, 0)] := by
  simp only [phiF, List.cons_append, List.nil_append]
  rw [hop_prod_left i k j hik, hop_prod_right i k j hik hjk hij, ampG_fneg_one _ (red_fcomp _ _)]
  have := proj_sum k (actFTerm [(i, 1), (j, 0)]) (red_actFTerm _) s u
  rw [← this]
  apply GQ.ext <;> simp

/-- `[i^ k, j^ k] = 0` and `[k^ i, k^ j] = 0`: mode `k` would be emptied / filled twice -/
theorem pair_zero_ann (i k j s u : Nat) (hik : i ≠ k) (hjk : j ≠ k) :
    phiF s u ([(i, 1), (k, 0)] ++ [(j, 1), (k, 0)]) = 0 ∧ phiF s u ([(j, 1), (k, 0)] ++ [(i, 1), (k, 0)]) = 0 := by
  constructor <;> apply phiF_zero_of_net _ _ _ k <;> right <;> simp [net, hik, hjk]

theorem pair_zero_cre (i k j s u : Nat) (hik : i ≠ k) (hjk : j ≠ k) :
    phiF s u ([(k, 1), (i, 0)] ++ [(k, 1), (j, 0)]) = 0 ∧ phiF s u ([(k, 1), (j, 0)] ++ [(k, 1), (i, 0)]) = 0 := by
  constructor <;> apply phiF_zero_of_net _ _ _ k <;> left <;> simp [net, hik, hjk]

/-- hopping operators `t (i^ k + k^ i)` -/
def hopOp (i k : Nat) (t : GQ) : Op := [([(i, 1), (k, 0)], t), ([(k, 1), (i, 0)], t)]

/-- **the shortcut equals the commutator**: for distinct modes `i, k, j` every matrix element of
`commutator(t (i^ k + k^ i), w (k^ j + j^ k))` equals that of `t w (i^ j) - t w (j^ i)` -/
theorem hop_commutator (tol : Rat) (i k j : Nat) (t w : GQ) (hik : i ≠ k) (hjk : j ≠ k) (hij : i ≠ j) (s u : Nat)
    (h : ExactAdd tol (mulOp .fermion (hopOp i k t) (hopOp k j w))
      ((mulOp .fermion (hopOp k j w) (hopOp i k t)).map fun e => (e.1, -e.2))) :
    den (phiF s u) (commutator tol .fermion (hopOp i k t) (hopOp k j w)) =
      t * w * phiF s u [(i, 1), (j, 0)] + -(t * w) * phiF s u [(j, 1), (i, 0)] := by
  rw [OFV.Proofs.C07.den_commutator tol .fermion _ _ _ h]
  have e1 := pair_ik_kj i k j s u hik hjk hij
  have e2 := pair_ik_kj j k i s u hjk hik (Ne.symm hij)
  obtain ⟨z1, z2⟩ := pair_zero_ann i k j s u hik hjk
  obtain ⟨z3, z4⟩ := pair_zero_cre i k j s u hik hjk
  simp only [bil, hopOp, OFV.Proofs.C07.prodF, simplify, List.foldr_cons, List.foldr_nil]
  simp only [z1, z2, z3, z4]
  rw [← e1, ← e2]
  apply GQ.ext <;> simp <;> grind

/-- the operator the shortcut builds: `FermionOperator(i^ j, c) + FermionOperator(j^ i, -c)` -/
def hopC23 (tol : Rat) (i j : Nat) (c : GQ) : Op :=
  iadd tol (mk .fermion [(i, 1), (j, 0)] c) (mk .fermion [(j, 1), (i, 0)] (-c))

theorem den_hopC23 (tol : Rat) (φ : Term → GQ) (i j : Nat) (c : GQ)
    (h : ExactAdd tol (mk .fermion [(i, 1), (j, 0)] c) (mk .fermion [(j, 1), (i, 0)] (-c))) :
    den φ (hopC23 tol i j c) = c * φ [(i, 1), (j, 0)] + -c * φ [(j, 1), (i, 0)] := by
  unfold hopC23
  rw [den_iadd tol φ _ _ h]
  simp only [Model.mk, simplify, den_cons, den_nil]
  apply GQ.ext <;> simp <;> grind

/-- what `double_commutator(op1, op2, op3, indices2, indices3, True, True)` computes when the index
sets `{i, k}` and `{k, j}` share exactly `k` (any listing order of the sets) -/
theorem doubleCommutatorHopping_shared (tol : Rat) (a : Op) (i k j : Nat) (t w : GQ)
    (hik : i ≠ k) (hjk : j ≠ k) (hij : i ≠ j) (i2 i3 : List Nat)
    (h2 : i2 = [i, k] ∨ i2 = [k, i]) (h3 : i3 = [k, j] ∨ i3 = [j, k]) :
    doubleCommutatorHopping tol a (hopOp i k t) (hopOp k j w) i2 i3 =
      normalOrdered tol (commutator tol .fermion a (hopC23 tol i j (t * w))) := by
  have hki : ¬ k = i := fun e => hik e.symm
  have hkj : ¬ k = j := fun e => hjk e.symm
  have hji : ¬ j = i := fun e => hij e.symm
  have b1 : (i != k) = true := by simp [hik]
  have b2 : (j != k) = true := by simp [hjk]
  rcases h2 with rfl | rfl <;> rcases h3 with rfl | rfl <;>
    simp [doubleCommutatorHopping, hopOp, hopC23, List.filter, hik, hjk, hij, hki, hkj, hji, b1, b2]

/-- no shared mode: the shortcut returns the zero operator -/
theorem doubleCommutatorHopping_disjoint (tol : Rat) (a b c : Op) (i k j l : Nat)
    (h1 : i ≠ j) (h2 : i ≠ l) (h3 : k ≠ j) (h4 : k ≠ l) :
    doubleCommutatorHopping tol a b c [i, k] [j, l] = [] := by
  simp [doubleCommutatorHopping, List.filter, h1, h2, h3, h4]

/-- … and the commutator of hopping operators on disjoint mode sets really denotes 0 -/
theorem hop_commutator_disjoint (tol : Rat) (i k j l : Nat) (t w : GQ)
    (h1 : i ≠ j) (h2 : i ≠ l) (h3 : k ≠ j) (h4 : k ≠ l) (s u : Nat)
    (h : ExactAdd tol (mulOp .fermion (hopOp i k t) (hopOp j l w))
      ((mulOp .fermion (hopOp j l w) (hopOp i k t)).map fun e => (e.1, -e.2))) :
    den (phiF s u) (commutator tol .fermion (hopOp i k t) (hopOp j l w)) = 0 := by
  apply OFV.Proofs.C07.den_commutator_zero tol .fermion _ _ _ h
  intro x hx y hy
  simp only [hopOp, List.mem_cons, List.not_mem_nil, or_false] at hx hy
  have hc : actFTerm (x.1 ++ y.1) = actFTerm (y.1 ++ x.1) := by
    apply term_comm_disjoint_even
    · apply disjoint_of_lists
      rcases hx with rfl | rfl <;> rcases hy with rfl | rfl <;> simp <;> omega
    · left; rcases hx with rfl | rfl <;> simp
  simp only [OFV.Proofs.C07.prodF, simplify, phiF, hc]

/-- both modes shared: the shortcut returns zero, and `[t (i^ k + k^ i), w (i^ k + k^ i)]` denotes 0 -/
theorem hop_commutator_same (tol : Rat) (φ : Term → GQ) (i k : Nat) (t w : GQ) (B : Op)
    (hB : B = hopOp i k w ∨ B = hopOp k i w)
    (h : ExactAdd tol (mulOp .fermion (hopOp i k t) B) ((mulOp .fermion B (hopOp i k t)).map fun e => (e.1, -e.2))) :
    den φ (commutator tol .fermion (hopOp i k t) B) = 0 := by
  rw [OFV.Proofs.C07.den_commutator tol .fermion _ _ _ h]
  rcases hB with rfl | rfl <;>
    · simp only [bil, hopOp, OFV.Proofs.C07.prodF, simplify, List.foldr_cons, List.foldr_nil]
      apply GQ.ext <;> simp <;> grind

end C07F
end Proofs
end OFV
