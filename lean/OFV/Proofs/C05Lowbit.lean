/-
The Fenwick bit tricks of bravyi_kitaev.py, arithmetically: `index & (index - 1)` removes the largest
power of two dividing `index` (`lowbitW`), and the facts about `lowbitW` that make the parity /
occupation / update loops walk the Fenwick tree.
-/
import OFV.Model.C05
import OFV.Spec.C05

namespace OFV
namespace BK
open Model.C05

/-- largest power of two dividing `i` (0 for `i = 0`) -/
def lowbitW (i : Nat) : Nat :=
  if h : i = 0 then 0 else if i % 2 = 1 then 1 else 2 * lowbitW (i / 2)
termination_by i
decreasing_by omega

theorem lowbitW_zero : lowbitW 0 = 0 := by rw [lowbitW]; simp

theorem lowbitW_odd {i : Nat} (h : i % 2 = 1) : lowbitW i = 1 := by
  rw [lowbitW]; have : i ≠ 0 := by omega
  simp [this, h]

theorem lowbitW_even {i : Nat} (h0 : 0 < i) (h : i % 2 = 0) : lowbitW i = 2 * lowbitW (i / 2) := by
  rw [lowbitW]; have : i ≠ 0 := by omega
  simp [this, h]

theorem lowbitW_pos : ∀ i, 0 < i → 0 < lowbitW i ∧ lowbitW i ≤ i := by
  intro i
  induction i using Nat.strongRecOn with
  | _ i ih =>
    intro h0
    by_cases h : i % 2 = 1
    · rw [lowbitW_odd h]; omega
    · have h2 : i % 2 = 0 := by omega
      rw [lowbitW_even h0 h2]
      have := ih (i / 2) (by omega) (by omega)
      omega

/-- `index & (index - 1) = index - lowbit(index)` -/
theorem clearLow_eq : ∀ i, clearLow i = i - lowbitW i := by
  intro i
  induction i using Nat.strongRecOn with
  | _ i ih =>
    by_cases h0 : i = 0
    · subst h0; simp [clearLow, lowbitW_zero]
    have hpos : 0 < i := by omega
    have hx2 : (i &&& (i - 1)) % 2 = 0 := by
      have := @Nat.and_mod_two_eq_one i (i - 1)
      by_cases hh : (i &&& (i - 1)) % 2 = 1
      · have := this.1 hh; omega
      · omega
    have hdiv : (i &&& (i - 1)) / 2 = (i / 2) &&& ((i - 1) / 2) := Nat.and_div_two
    have hx : i &&& (i - 1) = 2 * ((i / 2) &&& ((i - 1) / 2)) := by omega
    unfold clearLow
    by_cases h : i % 2 = 1
    · rw [lowbitW_odd h, hx]
      have : (i - 1) / 2 = i / 2 := by omega
      rw [this, Nat.and_self]; omega
    · have h2 : i % 2 = 0 := by omega
      rw [lowbitW_even hpos h2, hx]
      have e : (i - 1) / 2 = i / 2 - 1 := by omega
      have ih' := ih (i / 2) (by omega)
      unfold clearLow at ih'
      rw [e, ih']
      have := lowbitW_pos (i / 2) (by omega)
      omega

theorem lowbit_eq (i : Nat) (h : 0 < i) : lowbit i = lowbitW i := by
  unfold lowbit; rw [clearLow_eq]; have := lowbitW_pos i h; omega

theorem clearLow_lt {i : Nat} (h : 0 < i) : clearLow i < i := by
  rw [clearLow_eq]; have := lowbitW_pos i h; omega

/-- (b) strictly between `K` and its Fenwick parent `K + lowbit K` the low bit is that of the offset -/
theorem lowbitW_add : ∀ r K, 0 < r → r < lowbitW K → lowbitW (K + r) = lowbitW r := by
  intro r
  induction r using Nat.strongRecOn with
  | _ r ih =>
    intro K hr hlt
    have hK : 0 < K := by
      by_cases h : K = 0
      · subst h; rw [lowbitW_zero] at hlt; omega
      · omega
    have hKeven : K % 2 = 0 := by
      by_cases h : K % 2 = 1
      · rw [lowbitW_odd h] at hlt; omega
      · omega
    have hKl := lowbitW_even hK hKeven
    by_cases h : r % 2 = 1
    · rw [lowbitW_odd h, lowbitW_odd (by omega)]
    · have h2 : r % 2 = 0 := by omega
      rw [lowbitW_even hr h2, lowbitW_even (by omega) (by omega)]
      have : (K + r) / 2 = K / 2 + r / 2 := by omega
      rw [this, ih (r / 2) (by omega) (K / 2) (by omega) (by omega)]

/-- (a) the Fenwick parent has a strictly larger block -/
theorem lowbitW_parent : ∀ i, 0 < i → 2 * lowbitW i ≤ lowbitW (i + lowbitW i) := by
  intro i
  induction i using Nat.strongRecOn with
  | _ i ih =>
    intro h0
    by_cases h : i % 2 = 1
    · rw [lowbitW_odd h, lowbitW_even (by omega) (by omega)]
      have := lowbitW_pos ((i + 1) / 2) (by omega)
      omega
    · have h2 : i % 2 = 0 := by omega
      have hl := lowbitW_even h0 h2
      have hp := lowbitW_pos (i / 2) (by omega)
      rw [hl, lowbitW_even (i := i + 2 * lowbitW (i / 2)) (by omega) (by omega)]
      have : (i + 2 * lowbitW (i / 2)) / 2 = i / 2 + lowbitW (i / 2) := by omega
      rw [this]
      have := ih (i / 2) (by omega) (by omega)
      omega

/-- removing the low bit leaves 0 or a number with a strictly larger low bit -/
theorem lowbitW_clear : ∀ i, 0 < i → i = lowbitW i ∨ 2 * lowbitW i ≤ lowbitW (i - lowbitW i) := by
  intro i
  induction i using Nat.strongRecOn with
  | _ i ih =>
    intro h0
    by_cases h : i % 2 = 1
    · rw [lowbitW_odd h]
      by_cases h1 : i = 1
      · left; exact h1
      · right
        rw [lowbitW_even (by omega) (by omega)]
        have := lowbitW_pos ((i - 1) / 2) (by omega)
        omega
    · have h2 : i % 2 = 0 := by omega
      have hl := lowbitW_even h0 h2
      have hp := lowbitW_pos (i / 2) (by omega)
      rcases ih (i / 2) (by omega) (by omega) with h3 | h3
      · left; omega
      · right
        rw [hl]
        by_cases hz : i - 2 * lowbitW (i / 2) = 0
        · exfalso
          have : i / 2 - lowbitW (i / 2) = 0 := by omega
          rw [this, lowbitW_zero] at h3; omega
        · rw [lowbitW_even (i := i - 2 * lowbitW (i / 2)) (by omega) (by omega)]
          have : (i - 2 * lowbitW (i / 2)) / 2 = i / 2 - lowbitW (i / 2) := by omega
          rw [this]; omega

/-- laminarity used by the occupation loop: below `K` and above `K`'s block start, blocks stay inside -/
theorem clearLow_ge (K idx : Nat) (h1 : clearLow K < idx) (h2 : idx < K) : clearLow K ≤ clearLow idx := by
  have hK : 0 < K := by omega
  have hKl := lowbitW_pos K hK
  rw [clearLow_eq] at h1 ⊢
  rw [clearLow_eq idx]
  rcases lowbitW_clear K hK with h | h
  · -- K is a power of two: block starts at 0
    omega
  · have hr : idx = (K - lowbitW K) + (idx - (K - lowbitW K)) := by omega
    have ha : 0 < idx - (K - lowbitW K) := by omega
    have hlt : idx - (K - lowbitW K) < lowbitW (K - lowbitW K) := by omega
    have := lowbitW_add (idx - (K - lowbitW K)) (K - lowbitW K) ha hlt
    rw [← hr] at this
    have hp := lowbitW_pos (idx - (K - lowbitW K)) ha
    omega

/-- the arithmetic `lowbit` of the Spec is the same function -/
theorem spec_lowbitF : ∀ fuel i, i ≤ fuel → 0 < i → Spec.C05.lowbitF fuel i = lowbitW i := by
  intro fuel
  induction fuel with
  | zero => intro i h h0; omega
  | succ f ih =>
    intro i h h0
    simp only [Spec.C05.lowbitF]
    by_cases h1 : i % 2 = 1
    · simp [h1, lowbitW_odd h1]
    · have h2 : i % 2 = 0 := by omega
      have hne : i ≠ 0 := by omega
      simp only [h1, if_false, hne]
      rw [ih (i / 2) (by omega) (by omega), lowbitW_even h0 h2]

theorem spec_lowbit (i : Nat) (h : 0 < i) : Spec.C05.lowbit i = lowbitW i :=
  spec_lowbitF i i (Nat.le_refl _) h

/-- the block start the code computes with `&` is the Spec's `loBK` -/
theorem clearLow_succ_eq_loBK (k : Nat) : clearLow (k + 1) = Spec.C05.loBK k := by
  rw [clearLow_eq, Spec.C05.loBK, spec_lowbit (k + 1) (by omega)]

end BK
end OFV
