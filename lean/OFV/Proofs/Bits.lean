/- Shared bit-mask lemmas for the Spec actions (core Lean only). -/
import OFV.Spec.Basic

namespace OFV
namespace Spec

theorem xflip_xflip (s j : Nat) : (s ^^^ (1 <<< j)) ^^^ (1 <<< j) = s := by
  rw [Nat.xor_assoc, Nat.xor_self, Nat.xor_zero]

theorem testBit_xflip (s j : Nat) : (s ^^^ (1 <<< j)).testBit j = !s.testBit j := by
  simp [Nat.testBit_xor, Nat.one_shiftLeft, Nat.testBit_two_pow_self]

theorem testBit_xflip_ne (s j k : Nat) (h : j ≠ k) :
    (s ^^^ (1 <<< j)).testBit k = s.testBit k := by
  simp [Nat.testBit_xor, Nat.one_shiftLeft, Nat.testBit_two_pow, h]

theorem xflip_comm (s j k : Nat) : (s ^^^ (1 <<< j)) ^^^ (1 <<< k) = (s ^^^ (1 <<< k)) ^^^ (1 <<< j) := by
  rw [Nat.xor_assoc, Nat.xor_assoc, Nat.xor_comm (1 <<< j)]

end Spec
end OFV
