/- `bravyi_kitaev(MajoranaOperator)`: term level. -/
import OFV.Proofs.C05Term

namespace OFV
namespace BK
open Model Model.C05 Spec Sem

theorem bkMajFactor_unfold (n m : Nat) :
    bkMajFactor n m = if m % 2 != 0 then mk .qubit (T2 n (m / 2)) 1 else mk .qubit (T1 n (m / 2)) 1 := rfl

def imgMaj (n : Nat) (f : Nat × Nat) : Model.Op := if f.1 / 2 < n then bkMajFactor n f.1 else []

/-- encoded action of `γ_m` (`m / 2 < n`) -/
def actBKMaj (n : Nat) (f : Nat × Nat) (s : Nat) : Option (GQ × Nat) :=
  if f.1 / 2 < n then some (GQ.ipow (actM f.1 s).1, (actM f.1 s).2) else none

theorem imgMaj_valid (n : Nat) (f : Nat × Nat) : ValidOp (imgMaj n f) := by
  unfold imgMaj; split
  · rw [bkMajFactor_unfold]; split
    · exact mk_valid _ (T2_valid n _) _
    · exact mk_valid _ (T1_valid n _) _
  · exact validOp_nil

theorem imgMaj_sum (n : Nat) (f : Nat × Nat) (s : Nat) (W : Nat → GQ) :
    ((imgMaj n f).map fun r => r.2 * GQ.ipow (actPTerm r.1 (Spec.C05.enc .bk n s)).1
        * W (actPTerm r.1 (Spec.C05.enc .bk n s)).2).sum
      = match actBKMaj n f s with
        | none => 0
        | some (c, s') => c * W (Spec.C05.enc .bk n s') := by
  obtain ⟨m, a⟩ := f
  by_cases hf : m / 2 < n
  · simp only [imgMaj, actBKMaj, hf, if_true]
    rw [sumφ_φW, bkMajFactor_unfold]
    have hp := paritySet_parity n s (m / 2) hf
    have hz := zset_parity n s (m / 2) hf
    by_cases hm : m % 2 = 0
    · have e1 : (m % 2 != 0) = false := by simp [hm]
      have e2 : (m % 2 == 0) = true := by simp [hm]
      simp only [e1, Bool.false_eq_true, if_false]
      rw [sumφ_mk _ _ _ (T1_valid n _), one_mul]
      unfold φW
      rw [show T1 n (m / 2) = pad 1 (insertS (m / 2) (updateSet (m / 2) n)) ++ pad 3 (paritySet (m / 2)) from rfl,
        act_t1 n s (m / 2) hf]
      simp only [actM, e2, if_true]
      congr 1
      apply ipow_congr; omega
    · have hm1 : m % 2 = 1 := by omega
      have e1 : (m % 2 != 0) = true := by simp [hm1]
      have e2 : (m % 2 == 0) = false := by simp [hm1]
      simp only [e1, if_true]
      rw [sumφ_mk _ _ _ (T2_valid n _), one_mul]
      unfold φW
      rw [show T2 n (m / 2) = [(m / 2, 2)] ++ pad 1 (diff (insertS (m / 2) (updateSet (m / 2) n)) [m / 2])
        ++ pad 3 (diff (symDiff (paritySet (m / 2)) (occupationSet (m / 2))) [m / 2]) from rfl,
        act_t2 n s (m / 2) hf]
      simp only [actM, e2, Bool.false_eq_true, if_false]
      congr 1
      apply ipow_congr
      by_cases he : (Spec.C05.enc .bk n s).testBit (m / 2) = true <;> by_cases hs : s.testBit (m / 2) = true <;>
        simp only [he, hs, if_true, if_false, Bool.false_eq_true] at hz ⊢ <;> omega
  · simp [imgMaj, actBKMaj, hf]

theorem bkMajTerm_eq_fold (n : Nat) (t : List Nat) (ht : ∀ m ∈ t, m / 2 < n) (w : Model.Op) :
    t.foldl (fun w m => mulOp .qubit w (bkMajFactor n m)) w
      = (t.map fun m => (m, 0)).foldl (fun w f => mulOp .qubit w (imgMaj n f)) w := by
  induction t generalizing w with
  | nil => rfl
  | cons m t ih =>
    have hm := ht m List.mem_cons_self
    simp only [List.foldl_cons, List.map_cons]
    rw [ih (fun g hg => ht g (List.mem_cons_of_mem _ hg))]
    simp [imgMaj, hm]

theorem actTermS_actBKMaj (n : Nat) (t : List Nat) (ht : ∀ m ∈ t, m / 2 < n) (s : Nat) :
    actTermS (actBKMaj n) (t.map fun m => (m, 0)) s = some (GQ.ipow (actMTerm t s).1, (actMTerm t s).2) := by
  induction t with
  | nil => simp [actTermS, actMTerm, GQ.ipow]
  | cons m t ih =>
    have hm := ht m List.mem_cons_self
    have ih' := ih (fun g hg => ht g (List.mem_cons_of_mem _ hg))
    simp only [actTermS, actMTerm, List.map_cons, List.foldr_cons] at ih' ⊢
    rw [ih']
    simp only [actBKMaj, hm, if_true]
    rw [ipow_add, ipow_mod]

theorem bkMajTerm_den (n : Nat) (t : List Nat) (ht : ∀ m ∈ t, m / 2 < n) (c : GQ) (s x : Nat) :
    den .qubit (bkMajTerm n t c) [Spec.C05.enc .bk n s] [x]
      = if Spec.C05.enc .bk n (actMTerm t s).2 = x then c * GQ.ipow (actMTerm t s).1 else 0 := by
  unfold bkMajTerm
  have key := foldl_mulOp_sound_emb (Spec.C05.enc .bk n) (imgMaj n) (actBKMaj n) (imgMaj_valid n)
      (fun f s W => by
        have := imgMaj_sum n f s W
        cases h : actBKMaj n f s with
        | none => rw [h] at this; simpa using this
        | some cs => obtain ⟨c', s'⟩ := cs; rw [h] at this; simpa using this)
      (t.map fun m => (m, 0)) _ (mk_const_valid c) s x
  rw [bkMajTerm_eq_fold n t ht, key, actTermS_actBKMaj n t ht s]
  simp only [den_mk_const]
  split <;> simp [mul_comm]

end BK
end OFV
