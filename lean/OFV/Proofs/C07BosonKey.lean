/-
C07 — `hermitian_conjugated(BosonOperator)`: the key map `t ↦ sorted(reverse-and-flip(t))` is injective
on the terms a BosonOperator stores (index-sorted ladder words), so the plain assignment
`terms[key] = conj(c)` never overwrites and the result is the term-by-term image.  Core Lean only.
-/
import OFV.Proofs.C07Fermi
import OFV.Proofs.C07Ops

namespace OFV
namespace Proofs
namespace C07K
open OFV.Model OFV.Model.C07
open OFV.Proofs.C07F (Ladder hcTermF_involutive foldl_set_fresh)

/-- the factors on mode `j`, in order -/
def onMode (j : Nat) (t : Term) : Term := t.filter fun g => g.1 == j

theorem onMode_insertF (j : Nat) (f : Factor) (l : Term) :
    onMode j (insertF f l) = if f.1 = j then f :: onMode j l else onMode j l := by
  induction l with
  | nil => by_cases h : f.1 = j <;> simp [insertF, onMode, h]
  | cons g r ih =>
    simp only [insertF]
    by_cases hle : f.1 ≤ g.1
    · simp only [hle, if_true]
      by_cases h : f.1 = j <;> simp [onMode, List.filter_cons, h]
    · simp only [hle, if_false]
      have hgf : g.1 < f.1 := by omega
      unfold onMode at ih ⊢
      rw [List.filter_cons, ih]
      by_cases h : f.1 = j
      · have hg : ¬ g.1 = j := by omega
        simp [h, hg, List.filter_cons]
      · simp [h, List.filter_cons]

/-- the sort is stable: it does not change the sub-word on any mode -/
theorem onMode_sortF (j : Nat) (t : Term) : onMode j (sortF t) = onMode j t := by
  induction t with
  | nil => rfl
  | cons f r ih =>
    simp only [sortF]
    rw [onMode_insertF, ih]
    by_cases h : f.1 = j <;> simp [onMode, List.filter_cons, h]

theorem onMode_hcTermF (j : Nat) (t : Term) : onMode j (hcTermF t) = hcTermF (onMode j t) := by
  simp only [onMode, hcTermF, List.filter_map, List.filter_reverse]
  congr 1

/-- an index-sorted word is determined by its sub-words on the single modes -/
theorem sorted_ext : ∀ (l1 l2 : Term), l1.Pairwise (fun a b => a.1 ≤ b.1) → l2.Pairwise (fun a b => a.1 ≤ b.1) →
    (∀ j, onMode j l1 = onMode j l2) → l1 = l2
  | [], [], _, _, _ => rfl
  | [], g :: r, _, _, h => by
    have := h g.1
    simp [onMode, List.filter_cons] at this
  | f :: r, [], _, _, h => by
    have := h f.1
    simp [onMode, List.filter_cons] at this
  | f :: r1, g :: r2, h1, h2, h => by
    have h1' := List.pairwise_cons.mp h1
    have h2' := List.pairwise_cons.mp h2
    have hfg : f.1 = g.1 := by
      rcases Nat.lt_trichotomy f.1 g.1 with hlt | heq | hgt
      · exfalso
        have := h f.1
        have hz : onMode f.1 (g :: r2) = [] := by
          simp only [onMode, List.filter_eq_nil_iff]
          intro a ha
          rcases List.mem_cons.mp ha with rfl | ha
          · simp; omega
          · have := h2'.1 a ha; simp; omega
        rw [hz] at this
        simp [onMode, List.filter_cons] at this
      · exact heq
      · exfalso
        have := h g.1
        have hz : onMode g.1 (f :: r1) = [] := by
          simp only [onMode, List.filter_eq_nil_iff]
          intro a ha
          rcases List.mem_cons.mp ha with rfl | ha
          · simp; omega
          · have := h1'.1 a ha; simp; omega
        rw [hz] at this
        simp [onMode, List.filter_cons] at this
    have hhead := h f.1
    simp only [onMode, List.filter_cons, beq_self_eq_true, if_true, hfg] at hhead
    simp only [← hfg, beq_self_eq_true, if_true] at hhead
    have hfg' : f = g := (List.cons.inj hhead).1
    subst hfg'
    have htail : ∀ j, onMode j r1 = onMode j r2 := by
      intro j
      have := h j
      simp only [onMode, List.filter_cons] at this
      by_cases hj : (f.1 == j) = true
      · simp only [hj, if_true] at this
        exact (List.cons.inj this).2
      · simp only [hj, if_false] at this
        exact this
    rw [sorted_ext r1 r2 h1'.2 h2'.2 htail]

theorem ladder_onMode (j : Nat) (t : Term) (h : Ladder t) : Ladder (onMode j t) :=
  fun f hf => h f ((List.mem_filter.mp hf).1)

/-- **the key map of `hermitian_conjugated(BosonOperator)` is injective** on index-sorted ladder words -/
theorem key_injective (t1 t2 : Term) (s1 : t1.Pairwise (fun a b => a.1 ≤ b.1)) (s2 : t2.Pairwise (fun a b => a.1 ≤ b.1))
    (l1 : Ladder t1) (l2 : Ladder t2) (h : sortF (hcTermF t1) = sortF (hcTermF t2)) : t1 = t2 := by
  apply sorted_ext t1 t2 s1 s2
  intro j
  have := congrArg (onMode j) h
  rw [onMode_sortF, onMode_sortF, onMode_hcTermF, onMode_hcTermF] at this
  have := congrArg hcTermF this
  rwa [hcTermF_involutive _ (ladder_onMode j t1 l1), hcTermF_involutive _ (ladder_onMode j t2 l2)] at this

/-- dictionary level: no overwriting, the result is the term-by-term image, in order -/
theorem hcBoson_terms (A : Op) (hk : (Dict.keys A).Nodup)
    (hs : ∀ e ∈ A, e.1.Pairwise (fun a b => a.1 ≤ b.1)) (hl : ∀ e ∈ A, Ladder e.1) :
    hcBoson A = A.map (fun e => (sortF (hcTermF e.1), e.2.conj)) := by
  unfold hcBoson
  have := foldl_set_fresh (κ := Term) (α := GQ) (fun t => sortF (hcTermF t)) GQ.conj A [] (by
    simp only [Dict.keys, List.map_nil, List.nil_append, List.map_map]
    rw [List.Nodup, List.pairwise_map]
    have hk' : A.Pairwise (fun a b => a.1 ≠ b.1) := by
      have := hk; rw [List.Nodup, Dict.keys, List.pairwise_map] at this; exact this
    refine hk'.imp_of_mem ?_
    intro a b ha hb hne heq
    exact hne (key_injective a.1 b.1 (hs a ha) (hs b hb) (hl a ha) (hl b hb) heq))
  simpa using this

end C07K
end Proofs
end OFV
