/-
C07 — the bracketing of `_bch_expand_multiple_terms`: every operator is used exactly once,
in the given order.  Core Lean only.
-/
import OFV.Model.C07BCH

namespace OFV
namespace Proofs
namespace C07
open OFV.Model.C07

/-- the operator indices at the leaves, left to right -/
def leaves : BTree → List Nat
  | .leaf i => [i]
  | .node l r => leaves l ++ leaves r

theorem splitTree_leaves (fuel : Nat) : ∀ (lo n : Nat), 1 ≤ n → n ≤ fuel →
    leaves (splitTree fuel lo n) = List.range' lo n := by
  induction fuel with
  | zero => intro lo n h1 h2; omega
  | succ fuel ih =>
    intro lo n h1 h2
    simp only [splitTree]
    by_cases hn : n ≤ 1
    · have : n = 1 := by omega
      subst this
      simp [leaves, List.range']
    · simp only [hn, if_false, leaves]
      have ha : 1 ≤ n / 2 := by omega
      have hb : 1 ≤ n - n / 2 := by omega
      rw [ih lo (n / 2) ha (by omega), ih (lo + n / 2) (n - n / 2) hb (by omega)]
      have : n = n / 2 + (n - n / 2) := by omega
      conv => rhs; rw [this]
      rw [List.range'_append_1]

end C07
end Proofs
end OFV
