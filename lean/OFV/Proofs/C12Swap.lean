/- Helper lemmas for C12: the elementary step of the permutation passes of
`antisymmetric_canonical_form` is a simultaneous transposition of rows and columns. Core only. -/
import OFV.Model.C12

namespace OFV
namespace Model
namespace C12

/-- the transposition `(a b)` -/
def tr (a b x : Nat) : Nat := if x = a then b else if x = b then a else x

theorem tr_tr (a b x : Nat) : tr a b (tr a b x) = x := by
  unfold tr; split <;> split <;> (try split) <;> omega

theorem getD_set_list {α} (l : List α) (i j : Nat) (v d : α) :
    (l.set i v).getD j d = if i = j ∧ i < l.length then v else l.getD j d := by
  simp only [List.getD_eq_getElem?_getD, List.getElem?_set]
  by_cases h : i = j
  · subst h
    by_cases h2 : i < l.length <;> simp [h2]
  · simp [h]

/-- `swapList`-style double `set` = reindexing by the transposition, inside the list -/
theorem swap_getD {α} (l : List α) (a b x : Nat) (d : α) (ha : a < l.length) (hb : b < l.length) :
    ((l.set a (l.getD b d)).set b (l.getD a d)).getD x d = l.getD (tr a b x) d := by
  rw [getD_set_list, getD_set_list]
  simp only [List.length_set]
  unfold tr
  by_cases h1 : x = a
  · by_cases h2 : x = b
    · subst h1; subst h2; simp [hb]
    · subst h1
      have : ¬ (b = x ∧ b < l.length) := by intro h; exact h2 h.1.symm
      simp [this, ha]
  · by_cases h2 : x = b
    · subst h2; simp [hb, h1]
    · have e1 : ¬ (b = x ∧ b < l.length) := by intro h; exact h2 h.1.symm
      have e2 : ¬ (a = x ∧ a < l.length) := by intro h; exact h1 h.1.symm
      simp [e1, e2, h1, h2]

/-- a `p × p` matrix -/
def Square (M : RMat) (p : Nat) : Prop := M.length = p ∧ ∀ row ∈ M, row.length = p

theorem swapRows_get (M : RMat) (a b i j : Nat) (ha : a < M.length) (hb : b < M.length) :
    (swapRows M a b).get i j = M.get (tr a b i) j := by
  unfold swapRows RMat.get
  rw [swap_getD M a b i [] ha hb]

theorem swapCols_get (M : RMat) (p a b i j : Nat) (hM : Square M p) (ha : a < p) (hb : b < p) :
    (swapCols M a b).get i j = M.get i (tr a b j) := by
  unfold swapCols RMat.get
  by_cases hi : i < M.length
  · have hrow : (M.getD i []).length = p := by
      apply hM.2
      rw [List.getD_eq_getElem?_getD, List.getElem?_eq_getElem hi]
      simp
    have h2 : M.getD i [] = M[i] := by
      rw [List.getD_eq_getElem?_getD, List.getElem?_eq_getElem hi]; simp
    have hmap : (List.map (fun row => (row.set a (row.getD b 0)).set b (row.getD a 0)) M).getD i [] =
        (M[i].set a (M[i].getD b 0)).set b (M[i].getD a 0) := by
      simp [List.getD_eq_getElem?_getD, List.getElem?_map, List.getElem?_eq_getElem hi]
    rw [hmap]
    rw [h2] at hrow ⊢
    exact swap_getD M[i] a b j 0 (by omega) (by omega)
  · have h1 : (List.map (fun row => (row.set a (row.getD b 0)).set b (row.getD a 0)) M).getD i [] = [] := by
      rw [List.getD_eq_getElem?_getD, List.getElem?_eq_none (by simpa using Nat.le_of_not_lt hi)]; rfl
    have h2 : M.getD i [] = [] := by
      rw [List.getD_eq_getElem?_getD, List.getElem?_eq_none (Nat.le_of_not_lt hi)]; rfl
    rw [h1, h2]; simp

theorem swapRows_square (M : RMat) (p a b : Nat) (hM : Square M p) (ha : a < p) (hb : b < p) :
    Square (swapRows M a b) p := by
  unfold swapRows Square
  refine ⟨by simp [hM.1], ?_⟩
  intro row hrow
  have hsub : ∀ r ∈ (M.set a (M.getD b [])).set b (M.getD a []), r ∈ M ∨ r = M.getD b [] ∨ r = M.getD a [] := by
    intro r hr
    rcases List.mem_or_eq_of_mem_set hr with h | h
    · rcases List.mem_or_eq_of_mem_set h with h' | h'
      · left; exact h'
      · right; left; exact h'
    · right; right; exact h
  have hget : ∀ x, x < p → (M.getD x []) ∈ M := by
    intro x hx
    rw [List.getD_eq_getElem?_getD, List.getElem?_eq_getElem (by rw [hM.1]; exact hx)]
    simp
  rcases hsub row hrow with h | h | h
  · exact hM.2 row h
  · rw [h]; exact hM.2 _ (hget b hb)
  · rw [h]; exact hM.2 _ (hget a ha)

theorem swapCols_square (M : RMat) (p a b : Nat) (hM : Square M p) : Square (swapCols M a b) p := by
  unfold swapCols Square
  refine ⟨by simp [hM.1], ?_⟩
  intro row hrow
  obtain ⟨r, hr, rfl⟩ := List.mem_map.mp hrow
  simp [hM.2 r hr]

/-- `s'` is `s` with rows and columns of `canonical` and the columns of `orthogonal` reindexed by one
and the same permutation `π` of the indices (given with its inverse `σ`) -/
def Reindexed (s s' : CO) (p : Nat) : Prop :=
  Square s'.canonical p ∧ Square s'.orthogonal p ∧
  ∃ π σ : Nat → Nat, (∀ x, σ (π x) = x ∧ π (σ x) = x) ∧
    ∀ i j, s'.canonical.get i j = s.canonical.get (π i) (π j) ∧ s'.orthogonal.get i j = s.orthogonal.get i (π j)

theorem Reindexed.refl (s : CO) (p : Nat) (hC : Square s.canonical p) (hO : Square s.orthogonal p) :
    Reindexed s s p :=
  ⟨hC, hO, id, id, fun _ => ⟨rfl, rfl⟩, fun _ _ => ⟨rfl, rfl⟩⟩

theorem conjSwap_entries (s : CO) (p a b : Nat) (ha : a < p) (hb : b < p)
    (hC : Square s.canonical p) (hO : Square s.orthogonal p) :
    Square (conjSwap s a b).canonical p ∧ Square (conjSwap s a b).orthogonal p ∧
    ∀ i j, (conjSwap s a b).canonical.get i j = s.canonical.get (tr a b i) (tr a b j) ∧
           (conjSwap s a b).orthogonal.get i j = s.orthogonal.get i (tr a b j) := by
  have hR := swapRows_square s.canonical p a b hC ha hb
  refine ⟨swapCols_square _ p a b hR, swapCols_square _ p a b hO, ?_⟩
  intro i j
  constructor
  · show (swapCols (swapRows s.canonical a b) a b).get i j = _
    rw [swapCols_get _ p a b i j hR ha hb, swapRows_get _ a b _ _ (by rw [hC.1]; exact ha) (by rw [hC.1]; exact hb)]
  · show (swapCols s.orthogonal a b).get i j = _
    rw [swapCols_get _ p a b i j hO ha hb]

theorem Reindexed.step {s s' : CO} {p : Nat} (h : Reindexed s s' p) (a b : Nat) (ha : a < p) (hb : b < p) :
    Reindexed s (conjSwap s' a b) p := by
  obtain ⟨hC, hO, π, σ, hinv, hent⟩ := h
  obtain ⟨hC', hO', hent'⟩ := conjSwap_entries s' p a b ha hb hC hO
  refine ⟨hC', hO', fun x => π (tr a b x), fun x => tr a b (σ x), ?_, ?_⟩
  · intro x
    exact ⟨by simp only [(hinv _).1, tr_tr], by simp only [tr_tr, (hinv _).2]⟩
  · intro i j
    rw [(hent' i j).1, (hent' i j).2, (hent _ _).1, (hent _ _).2]
    exact ⟨rfl, rfl⟩

theorem pass1_reindexed (atol : Rat) (p : Nat) (s0 : CO) : ∀ (l : List Nat) (s : CO),
    (∀ i ∈ l, i + 1 < p) → Reindexed s0 s p → Reindexed s0 (pass1 atol s l) p := by
  intro l
  induction l with
  | nil => intro s _ h; exact h
  | cons i is ih =>
    intro s hl h
    unfold pass1
    have hi := hl i List.mem_cons_self
    apply ih _ (fun x hx => hl x (List.mem_cons_of_mem _ hx))
    split
    · exact h.step _ _ (by omega) (by omega)
    · exact h

theorem pass2_reindexed (n : Nat) (s0 : CO) : ∀ (l : List Nat) (s : CO),
    (∀ i ∈ l, 1 ≤ i ∧ i < n) → Reindexed s0 s (2 * n) → Reindexed s0 (pass2 n s l) (2 * n) := by
  intro l
  induction l with
  | nil => intro s _ h; exact h
  | cons i is ih =>
    intro s hl h
    unfold pass2
    have hi := hl i List.mem_cons_self
    apply ih _ (fun x hx => hl x (List.mem_cons_of_mem _ hx))
    have h1 := h.step i (n + i - 1) (by omega) (by omega)
    split
    · exact h1.step _ _ (by omega) (by omega)
    · exact h1

theorem pass3_reindexed (n : Nat) (s0 : CO) : ∀ (l : List Nat) (s : CO),
    (∀ i ∈ l, i < n) → Reindexed s0 s (2 * n) → Reindexed s0 (pass3 n s l) (2 * n) := by
  intro l
  induction l with
  | nil => intro s _ h; exact h
  | cons i is ih =>
    intro s hl h
    unfold pass3
    have hi := hl i List.mem_cons_self
    apply ih _ (fun x hx => hl x (List.mem_cons_of_mem _ hx))
    split
    · exact h.step _ _ (by omega) (by omega)
    · exact h

theorem tr_comm_disjoint (a b c d x : Nat) (h1 : a ≠ c) (h2 : a ≠ d) (h3 : b ≠ c) (h4 : b ≠ d) :
    tr a b (tr c d x) = tr c d (tr a b x) := by
  unfold tr
  repeat' split
  all_goals omega

theorem argminAux_bound : ∀ (xs : List Rat) (idx : Nat) (cur : Rat) (best : Nat),
    best < idx → argminAux xs idx cur best < idx + xs.length := by
  intro xs
  induction xs with
  | nil => intro idx cur best h; simpa [argminAux] using h
  | cons x xs ih =>
    intro idx cur best h
    unfold argminAux
    split
    · have := ih (idx + 1) x idx (by omega); simp only [List.length_cons]; omega
    · have := ih (idx + 1) cur best (by omega); simp only [List.length_cons]; omega

theorem argmin_lt (l : List Rat) (h : l ≠ []) : argmin l < l.length := by
  cases l with
  | nil => exact absurd rfl h
  | cons x xs =>
    unfold argmin
    have := argminAux_bound xs 1 x 0 (by omega)
    simp only [List.length_cons]; omega

theorem swapList_length (l : List Rat) (i j : Nat) : (swapList l i j).length = l.length := by
  simp [swapList]

/-- one step of the insertion-sort pass (the literal six-swap sequence) reindexes by the product of the two
disjoint transpositions `(i am)` and `(n+i n+am)` -/
theorem pass4_step {s0 s : CO} {n : Nat} (h : Reindexed s0 s (2 * n)) (i am : Nat) (hi : i < n) (ham : am < n) :
    Reindexed s0
      ⟨swapCols (swapRows (swapCols (swapRows s.canonical i am) (n + i) (n + am)) (n + i) (n + am)) i am,
       swapCols (swapCols s.orthogonal (n + i) (n + am)) i am⟩ (2 * n) := by
  obtain ⟨hC, hO, π, σ, hinv, hent⟩ := h
  have p1 : i < 2 * n := by omega
  have p2 : am < 2 * n := by omega
  have p3 : n + i < 2 * n := by omega
  have p4 : n + am < 2 * n := by omega
  have c1 := swapRows_square s.canonical (2 * n) i am hC p1 p2
  have c2 := swapCols_square _ (2 * n) (n + i) (n + am) c1
  have c3 := swapRows_square _ (2 * n) (n + i) (n + am) c2 p3 p4
  have c4 := swapCols_square _ (2 * n) i am c3
  have o1 := swapCols_square s.orthogonal (2 * n) (n + i) (n + am) hO
  have o2 := swapCols_square _ (2 * n) i am o1
  refine ⟨c4, o2, fun x => π (tr i am (tr (n + i) (n + am) x)), fun x => tr (n + i) (n + am) (tr i am (σ x)), ?_, ?_⟩
  · intro x
    exact ⟨by simp only [(hinv _).1, tr_tr], by simp only [tr_tr, (hinv _).2]⟩
  · intro x y
    constructor
    · show (swapCols (swapRows (swapCols (swapRows s.canonical i am) (n + i) (n + am)) (n + i) (n + am)) i am).get x y = _
      rw [swapCols_get _ (2 * n) i am x y c3 p1 p2,
          swapRows_get _ (n + i) (n + am) x _ (by rw [c2.1]; exact p3) (by rw [c2.1]; exact p4),
          swapCols_get _ (2 * n) (n + i) (n + am) _ _ c1 p3 p4,
          swapRows_get _ i am _ _ (by rw [hC.1]; exact p1) (by rw [hC.1]; exact p2),
          (hent _ _).1]
      rw [tr_comm_disjoint (n + i) (n + am) i am y (by omega) (by omega) (by omega) (by omega)]
    · show (swapCols (swapCols s.orthogonal (n + i) (n + am)) i am).get x y = _
      rw [swapCols_get _ (2 * n) i am x y o1 p1 p2, swapCols_get _ (2 * n) (n + i) (n + am) _ _ hO p3 p4, (hent _ _).2]
      rw [tr_comm_disjoint (n + i) (n + am) i am y (by omega) (by omega) (by omega) (by omega)]

theorem pass4_reindexed (n : Nat) (s0 : CO) : ∀ (l : List Nat) (s : CO) (diag : List Rat),
    (∀ i ∈ l, i < n) → diag.length = n → Reindexed s0 s (2 * n) → Reindexed s0 (pass4 n s diag l) (2 * n) := by
  intro l
  induction l with
  | nil => intro s diag _ _ h; exact h
  | cons i is ih =>
    intro s diag hl hd h
    unfold pass4
    have hi := hl i List.mem_cons_self
    have hne : diag.drop i ≠ [] := by
      intro h0
      have := congrArg List.length h0
      simp at this; omega
    have ham : argmin (diag.drop i) + i < n := by
      have := argmin_lt (diag.drop i) hne
      simp at this; omega
    simp only
    split
    · apply ih _ _ (fun x hx => hl x (List.mem_cons_of_mem _ hx)) (by rw [swapList_length]; exact hd)
      exact pass4_step h i _ hi ham
    · exact ih _ _ (fun x hx => hl x (List.mem_cons_of_mem _ hx)) hd h

theorem mem_oddRange (b i : Nat) : i ∈ oddRange b → 1 ≤ i ∧ i < b := by
  unfold oddRange
  simp only [List.mem_map, List.mem_range]
  rintro ⟨t, ht, rfl⟩
  omega

end C12
end Model
end OFV
