/- C10: the spin operators of special_operators.py as operators (tolerance-free Model, every number of sites):
S^x = (S^+ + S^-)/2, S^y = (S^+ - S^-)/(2i), S^2 = S^- S^+ + S^z (S^z + 1) as compositions of the Spec actions. -/
import OFV.Proofs.C10Expect
import OFV.Proofs.C04Sum
import OFV.Proofs.C04Rev3
import OFV.Proofs.C19JwNorm

namespace OFV.C10
open OFV.Model OFV.Model.C10 OFV.Spec OFV.Spec.C10
open OFV.Sem (den den_nil den_cons den_iadd termCoef sumF den_mulOpF_sumF)

theorem isSmall0 (c : GQ) : GQ.isSmall 0 c = false := by
  simp only [GQ.isSmall, GQ.normSq]
  apply decide_eq_false
  intro h
  have h1 : 0 ≤ c.re * c.re := mul_self_nonneg _
  have h2 : 0 ≤ c.im * c.im := mul_self_nonneg _
  simp at h
  linarith

theorem iaddOk0 (a b : Op) : C04.iaddOk 0 a b = true := by
  unfold C04.iaddOk
  suffices H : ∀ (a : Op) (ok : Bool), (b.foldl (C04.iaddStep 0) (a, ok)).2 = ok from H a true
  induction b with
  | nil => intro a ok; rfl
  | cons tc r ih =>
    intro a ok
    obtain ⟨t, c⟩ := tc
    rw [List.foldl_cons, OFV.Sem.iaddStep_big 0 a ok t c (isSmall0 _), ih]

theorem den_mk_f (t : Term) (c : GQ) (m x : Nat) :
    den .fermion (mk .fermion t c) [m] [x] = c * termCoef .fermion t [m] [x] := by
  simp only [mk, simplify, den_cons, den_nil, add_zero, mul_one]

theorem den_iadd0 (a b : Op) (s x : List Nat) :
    den .fermion (Model.iadd 0 a b) s x = den .fermion a s x + den .fermion b s x :=
  den_iadd .fermion 0 a b s x (iaddOk0 a b)

/-- a loop `acc += mk t_i c_i` -/
theorem den_fold_mk1 (l : List Nat) (T : Nat → Term) (C : Nat → GQ) (acc : Op) (m x : Nat) :
    den .fermion (l.foldl (fun acc i => Model.iadd 0 acc (mk .fermion (T i) (C i))) acc) [m] [x] =
      den .fermion acc [m] [x] + (l.map fun i => C i * termCoef .fermion (T i) [m] [x]).sum := by
  induction l generalizing acc with
  | nil => simp
  | cons i r ih =>
    rw [List.foldl_cons, ih, den_iadd0, den_mk_f, List.map_cons, List.sum_cons, add_assoc]

/-- a loop `acc += mk t_i c_i; acc += mk t'_i c'_i` -/
theorem den_fold_mk2 (l : List Nat) (T T' : Nat → Term) (C C' : Nat → GQ) (acc : Op) (m x : Nat) :
    den .fermion (l.foldl (fun acc i =>
        Model.iadd 0 (Model.iadd 0 acc (mk .fermion (T i) (C i))) (mk .fermion (T' i) (C' i))) acc) [m] [x] =
      den .fermion acc [m] [x] + (l.map fun i => C i * termCoef .fermion (T i) [m] [x]).sum
        + (l.map fun i => C' i * termCoef .fermion (T' i) [m] [x]).sum := by
  induction l generalizing acc with
  | nil => simp
  | cons i r ih =>
    rw [List.foldl_cons, ih, den_iadd0, den_iadd0, den_mk_f, den_mk_f]
    simp only [List.map_cons, List.sum_cons]
    ring

theorem sum_mul_left (l : List Nat) (c : GQ) (F : Nat → GQ) :
    (l.map fun i => c * F i).sum = c * (l.map F).sum := by
  induction l with
  | nil => simp
  | cons i r ih => simp only [List.map_cons, List.sum_cons, ih]; ring

/-- `S^x = (S^+ + S^-) / 2` as operators -/
theorem den_sx (sites m x : Nat) :
    den .fermion (sx 0 sites) [m] [x] =
      half * den .fermion (sPlus 0 sites) [m] [x] + half * den .fermion (sMinus 0 sites) [m] [x] := by
  unfold sx sPlus sMinus
  rw [den_fold_mk2, den_fold_mk1, den_fold_mk1, den_nil]
  rw [sum_mul_left _ half (fun i => termCoef .fermion [(upIndex i, 1), (downIndex i, 0)] [m] [x]),
    sum_mul_left _ half (fun i => termCoef .fermion [(downIndex i, 1), (upIndex i, 0)] [m] [x])]
  simp

/-- `S^y = (S^+ - S^-) / (2i) = -(i/2) S^+ + (i/2) S^-` as operators -/
theorem den_sy (sites m x : Nat) :
    den .fermion (sy 0 sites) [m] [x] =
      (-(half * GQ.I)) * den .fermion (sPlus 0 sites) [m] [x] + (half * GQ.I) * den .fermion (sMinus 0 sites) [m] [x] := by
  unfold sy sPlus sMinus
  rw [den_fold_mk2, den_fold_mk1, den_fold_mk1, den_nil]
  rw [sum_mul_left _ (-(half * GQ.I)) (fun i => termCoef .fermion [(upIndex i, 1), (downIndex i, 0)] [m] [x]),
    sum_mul_left _ (half * GQ.I) (fun i => termCoef .fermion [(downIndex i, 1), (upIndex i, 0)] [m] [x])]
  simp

/-- `S^2 = S^- S^+ + S^z (S^z + 1)`: the Model operator is this composition (`sumF b m W`: apply the terms of `b` to
`|m⟩` and weight the images with `W`, i.e. the right factor acts first) -/
theorem den_sSquared (sites m x : Nat) :
    den .fermion (sSquared 0 sites) [m] [x] =
      sumF (sPlus 0 sites) m (fun y => den .fermion (sMinus 0 sites) [y] [x]) +
      sumF (Model.iadd 0 (sz 0 sites) (mk .fermion [] 1)) m (fun y => den .fermion (sz 0 sites) [y] [x]) := by
  unfold sSquared
  rw [den_iadd0, den_mulOpF_sumF, den_mulOpF_sumF]

/-- a loop `acc += mk t_i c_i` from the empty operator denotes the listed sum of terms -/
theorem den_fold_mk1_list (l : List Nat) (T : Nat → Term) (C : Nat → GQ) (m x : Nat) :
    den .fermion (l.foldl (fun acc i => Model.iadd 0 acc (mk .fermion (T i) (C i))) []) [m] [x] =
      den .fermion (l.map fun i => (T i, C i)) [m] [x] := by
  rw [den_fold_mk1, den_nil, OFV.Sem.den_eq_sum, List.map_map, zero_add]
  rfl

theorem melF_den (A : Op) (t s : Nat) : melF A t s = den .fermion A [s] [t] := OFV.C19P.melF_eq_den A s t

/-- `s_plus_operator(n) = Σ_i a†_{up i} a_{down i}` and `s_minus_operator(n) = Σ_i a†_{down i} a_{up i}` in the Spec -/
theorem ladder_formulas (sites t s : Nat) :
    melF (sPlus 0 sites) t s =
      melF ((List.range sites).map fun i => ([(upIndex i, 1), (downIndex i, 0)], (1 : GQ))) t s ∧
    melF (sMinus 0 sites) t s =
      melF ((List.range sites).map fun i => ([(downIndex i, 1), (upIndex i, 0)], (1 : GQ))) t s := by
  simp only [melF_den]
  exact ⟨den_fold_mk1_list _ _ _ s t, den_fold_mk1_list _ _ _ s t⟩

end OFV.C10
