/- C09, binary_code_transform: the summation over the terms of the Hamiltonian and `compress()`
(tolerance-free Model), and the whole transform against the Spec matrix element. -/
import OFV.Proofs.C09Enc
import OFV.Proofs.C09Bct4
import OFV.Proofs.C04Sum
import OFV.Proofs.C03Fock

namespace OFV.C09
open OFV.Model OFV.Model.C09 OFV.Spec.C09
open OFV.Spec (actF actFTerm countBelow melF)
open OFV.Sem (den den_nil den_cons den_iadd)
open OFV.Proofs.C03 (contrib melF_eq_sum)

/-! ### `+=` and `compress()` without tolerance -/

theorem iaddOk_zero (a b : Op) : C04.iaddOk 0 a b = true := by
  unfold C04.iaddOk
  suffices H : ∀ (a : Op) (ok : Bool), (b.foldl (C04.iaddStep 0) (a, ok)).2 = ok from H a true
  induction b with
  | nil => intro a ok; rfl
  | cons tc r ih =>
    intro a ok
    obtain ⟨t, c⟩ := tc
    rw [List.foldl_cons, OFV.Sem.iaddStep_big 0 a ok t c (isSmall_zero _), ih]

theorem gq_eq_zero_of_normSq (c : GQ) (h : ¬ (0 : Rat) < c.normSq) : c = 0 := by
  unfold GQ.normSq at h
  have h1 : 0 ≤ c.re * c.re := mul_self_nonneg _
  have h2 : 0 ≤ c.im * c.im := mul_self_nonneg _
  have e1 : c.re * c.re = 0 := by linarith
  have e2 : c.im * c.im = 0 := by linarith
  have r0 : c.re = 0 := by simpa using e1
  have i0 : c.im = 0 := by simpa using e2
  exact GQ.ext r0 i0

theorem compress0_coef (c : GQ) :
    (let c1 := if (if c.im < 0 then -c.im else c.im) ≤ 0 then (⟨c.re, 0⟩ : GQ) else c
     if (if c1.re < 0 then -c1.re else c1.re) ≤ 0 then (⟨0, c1.im⟩ : GQ) else c1) = c := by
  have him : (if (if c.im < 0 then -c.im else c.im) ≤ 0 then (⟨c.re, 0⟩ : GQ) else c) = c := by
    by_cases h1 : c.im < 0
    · have h2 : ¬ (-c.im ≤ 0) := by linarith
      simp only [h1, if_true, h2, if_false]
    · by_cases h2 : c.im ≤ 0
      · have : c.im = 0 := by linarith
        simp only [h1, if_false, h2, if_true]
        exact GQ.ext rfl this.symm
      · simp only [h1, if_false, h2]
  simp only [him]
  by_cases h1 : c.re < 0
  · have h2 : ¬ (-c.re ≤ 0) := by linarith
    simp only [h1, if_true, h2, if_false]
  · by_cases h2 : c.re ≤ 0
    · have : c.re = 0 := by linarith
      simp only [h1, if_false, h2, if_true]
      exact GQ.ext this.symm rfl
    · simp only [h1, if_false, h2]

theorem compress0_eq (o : Op) :
    compress 0 o = o.filterMap fun tc => if (0 : Rat) < tc.2.normSq then some tc else none := by
  unfold compress
  congr 1
  funext tc
  obtain ⟨t, c⟩ := tc
  have hc := compress0_coef c
  simp only at hc
  simp only [hc, Rat.mul_zero]

theorem den_compress_zero (alg : OFV.Spec.Alg) (o : Op) (s x : List Nat) :
    den alg (compress 0 o) s x = den alg o s x := by
  rw [compress0_eq]
  induction o with
  | nil => rfl
  | cons e r ih =>
    obtain ⟨t, c⟩ := e
    rw [List.filterMap_cons]
    by_cases hn : (0 : Rat) < c.normSq
    · simp only [hn, if_true]
      rw [den_cons, den_cons, ih]
    · simp only [hn, if_false]
      rw [den_cons, ih, gq_eq_zero_of_normSq c hn]
      simp

/-! ### the loop over the terms -/

theorem bct_fold_den (c : Code) (plist : List Poly) (F : Term × GQ → GQ) (s x : List Nat) (h : Op)
    (hF : ∀ tc ∈ h, ∀ img, bctTerm 0 c plist tc.1 tc.2 = .ok img → den .qubit img s x = F tc)
    (acc r : Op)
    (hr : h.foldlM (fun (acc : Op) (tc : Term × GQ) => do
      let t ← bctTerm 0 c plist tc.1 tc.2
      pure (Model.iadd 0 acc t)) acc = .ok r) :
    den .qubit r s x = den .qubit acc s x + (h.map F).sum := by
  induction h generalizing acc with
  | nil =>
    simp only [List.foldlM_nil, pure, Except.pure, Except.ok.injEq] at hr
    subst hr; simp
  | cons tc rest ih =>
    rw [List.foldlM_cons] at hr
    cases h1 : bctTerm 0 c plist tc.1 tc.2 with
    | error e => simp [h1, bind, Except.bind] at hr
    | ok img =>
      simp only [h1, bind, Except.bind, pure, Except.pure] at hr
      rw [ih (fun tc' h' => hF tc' (List.mem_cons_of_mem _ h')) _ hr,
        den_iadd .qubit 0 acc img s x (iaddOk_zero acc img), hF tc (by simp) img h1]
      simp [add_assoc]

/-- `binary_code_transform` is the sum of its terms: `compress()` and the `+=` of the loop change nothing
without tolerance -/
theorem bct_den_sum (c : Code) (h R : Op) (F : Term × GQ → GQ) (s x : List Nat)
    (hF : ∀ tc ∈ h, ∀ img, bctTerm 0 c (makeParityList c) tc.1 tc.2 = .ok img → den .qubit img s x = F tc)
    (hR : binaryCodeTransform 0 h c = .ok R) : den .qubit R s x = (h.map F).sum := by
  unfold binaryCodeTransform at hR
  simp only [bind, Except.bind, pure, Except.pure] at hR
  split at hR
  · cases hR
  · rename_i r hr
    simp only [Except.ok.injEq] at hR
    subst hR
    rw [den_compress_zero, bct_fold_den c (makeParityList c) F s x h hF [] r hr, den_nil]
    simp

/-! ### the whole transform between encoded states -/

theorem getD_zero_of_length_le (u : List Nat) (j : Nat) (h : u.length ≤ j) : u.getD j 0 = 0 := by
  rw [List.getD_eq_getElem?_getD, List.getElem?_eq_none h]; rfl

/-- **binary_code_transform_sound**: for a code that decodes what it encodes on a set `dom` of occupation
vectors and a Hamiltonian whose terms map `dom` to itself, the transformed operator has between the
encoded states the matrix elements of the Hamiltonian between the Fock states (Spec `melF`). -/
theorem bct_sound_encoded (c : Code) (h R : Op) (dom : List Nat → Prop)
    (hsh : c.dec.length = c.nm) (hpoly : ∀ e ∈ c.dec, ∃ p, e = .poly p) (hne : ∀ e ∈ c.dec, ∀ t ∈ e.toPoly, t ≠ [])
    (hdom : ∀ v, dom v → v.length = c.nm ∧ (∀ x ∈ v, x ≤ 1) ∧ ValidOn c v)
    (hwf : ∀ tc ∈ h, ∀ f ∈ tc.1, f.2 ≤ 1 ∧ f.1 < c.nm)
    (v u : List Nat) (hv : dom v) (hu : dom u) (wq xq s out : Nat)
    (hw : bitsOf wq = encFn c v) (hx : bitsOf xq = encFn c u)
    (hs : ∀ j, s.testBit j = (v.getD j 0 == 1)) (ho : ∀ j, out.testBit j = (u.getD j 0 == 1))
    (hpres : ∀ tc ∈ h, ∀ k s', actFTerm tc.1 s = some (k, s') → dom (occList s' c.nm))
    (hR : binaryCodeTransform 0 h c = .ok R) :
    den .qubit R [wq] [xq] = melF h out s := by
  obtain ⟨hvl, hv01, hvv⟩ := hdom v hv
  obtain ⟨hul, hu01, huv⟩ := hdom u hu
  rw [melF_eq_sum]
  apply bct_den_sum c h R (contrib s out) [wq] [xq] ?_ hR
  intro tc htc img himg
  have hyp := bctHyp_of_valid c v wq s hsh hpoly hne hvv hw hs
  have hterm := bct_term_sound' c (makeParityList c) wq s hyp tc.1 (fun f hf => (hwf tc htc f hf).1) tc.2 img himg xq
  unfold contrib
  cases hact : actFTerm tc.1 s with
  | none => rw [hact] at hterm; exact hterm
  | some ks =>
    obtain ⟨k, s'⟩ := ks
    rw [hact] at hterm
    simp only at hterm ⊢
    rw [hterm]
    have hid := encoding_identity_occ c v wq s tc.1 k s' hvl hv01 (fun f hf => (hwf tc htc f hf).2) hw hs hact
    obtain ⟨hil, hi01, hiv⟩ := hdom _ (hpres tc htc k s' hact)
    have hbnd := image_bits_bounded v c.nm s tc.1 k s' hvl hs (fun f hf => (hwf tc htc f hf).2) hact
    by_cases e : s' = out
    · subst e
      have hocc : occList s' c.nm = u := by
        apply List.ext_getElem (by rw [occList_length, hul])
        intro j h1 h2
        have hj : j < c.nm := by simpa [occList_length] using h1
        have g := occList_getD s' c.nm j
        rw [ho j] at g
        have e1 : (occList s' c.nm).getD j 0 = (occList s' c.nm)[j] := by
          rw [List.getD_eq_getElem?_getD, List.getElem?_eq_getElem h1]; rfl
        have e2 : u.getD j 0 = u[j] := by
          rw [List.getD_eq_getElem?_getD, List.getElem?_eq_getElem h2]; rfl
        rw [e1, e2] at g
        have b1 := occList_le s' c.nm _ (List.getElem_mem h1)
        have b2 := hu01 _ (List.getElem_mem h2)
        generalize (occList s' c.nm)[j] = a at *
        generalize u[j] = b at *
        have ha : a = 0 ∨ a = 1 := by omega
        have hb : b = 0 ∨ b = 1 := by omega
        rcases ha with ha | ha <;> rcases hb with hb | hb <;> subst ha <;> subst hb <;> simp [hj] at g ⊢
      have : xq = wq ^^^ updMask (encode c ((tc.1.reverse.map (·.1)).foldl addAt (zeros c.nm))) := by
        apply Nat.eq_of_testBit_eq
        intro i
        have hb : bitsOf xq = bitsOf (wq ^^^ updMask (encode c ((tc.1.reverse.map (·.1)).foldl addAt (zeros c.nm)))) := by
          rw [hx, hid, hocc]
        exact congrFun hb i
      rw [if_pos this, if_pos rfl]
    · have : xq ≠ wq ^^^ updMask (encode c ((tc.1.reverse.map (·.1)).foldl addAt (zeros c.nm))) := by
        intro heq
        apply e
        have henc : encFn c u = encFn c (occList s' c.nm) := by rw [← hx, heq, hid]
        apply Nat.eq_of_testBit_eq
        intro i
        by_cases hi : i < c.nm
        · have a1 := huv i hi
          have a2 := hiv i hi
          rw [henc, a2, occList_getD] at a1
          rw [ho i, ← a1]; simp [hi]
        · rw [hbnd i (by omega), ho i, getD_zero_of_length_le u i (by omega)]; rfl
      rw [if_neg this, if_neg e]

end OFV.C09
