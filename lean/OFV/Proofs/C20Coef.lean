/-
C20 — the coefficient contract `CoefOK` for integer coefficients.
-/
import OFV.Proofs.C20Files
set_option linter.unusedSimpArgs false
set_option linter.unusedVariables false
namespace OFV.C20
open OFV.Model OFV.Model.C20

/-- `str(z)` / `format(z)` of a Python int -/
def intStr (z : Int) : Str := if z < 0 then '-' :: natStr z.natAbs else natStr z.natAbs

theorem intStr_chars (z : Int) : ∀ c ∈ intStr z, c = '-' ∨ isDigit c = true := by
  intro c hc
  unfold intStr at hc
  split at hc
  · rcases List.mem_cons.1 hc with h | h
    · exact Or.inl h
    · exact Or.inr (natStr_all_digits _ c h)
  · exact Or.inr (natStr_all_digits _ c hc)

theorem digit_props {c : Char} (h : isDigit c = true) :
    isSpace c = false ∧ c ≠ '[' ∧ c ≠ ':' ∧ c ≠ '+' ∧ c ≠ 'j' ∧ c ≠ '-' := by
  refine ⟨isSpace_of_isDigit h, ?_, ?_, ?_, ?_, ?_⟩ <;> (intro hh; subst hh; revert h; decide)

/-- **the coefficient contract for integer coefficients reduces to one fact about Python's `float`**: the text
`str(z)` the printer produces has no white space, bracket, colon or leading `+`, is neither empty nor `-`, contains no
`j`, so the coefficient parser hands exactly this text to `float`; if `float(str(z)) = z` (the table entry), `CoefOK` holds -/
theorem coefOK_int (nt : NumTables) (z : Int) (h : lookup nt.pyFloat (intStr z) = some (intGQ z)) :
    CoefOK nt (intStr z) (intGQ z) where
  nospace := by
    intro c hc
    rcases intStr_chars z c hc with rfl | hd
    · decide
    · exact (digit_props hd).1
  nobracket := by
    intro c hc
    rcases intStr_chars z c hc with rfl | hd
    · decide
    · exact (digit_props hd).2.1
  noplus := by
    intro hh
    have hmem : '+' ∈ intStr z := by
      cases hs : intStr z with
      | nil => rw [hs] at hh; simp at hh
      | cons c r => rw [hs] at hh; simp at hh; rw [hh]; simp
    rcases intStr_chars z '+' hmem with h1 | h1
    · exact absurd h1 (by decide)
    · exact absurd h1 (by decide)
  nocolon := by
    intro c hc
    rcases intStr_chars z c hc with rfl | hd
    · decide
    · exact (digit_props hd).2.2.1
  parses := by
    have hne : intStr z ≠ [] := by
      unfold intStr; split <;> simp [natStr_ne_nil]
    have hminus : intStr z ≠ ['-'] := by
      unfold intStr; split
      · intro hh; simp at hh; exact natStr_ne_nil _ hh
      · intro hh
        have := natStr_all_digits z.natAbs '-' (by rw [hh]; simp)
        revert this; decide
    have hj : (intStr z).contains 'j' = false := by
      rw [Bool.eq_false_iff]
      intro hc
      have hmem : 'j' ∈ intStr z := by simpa using hc
      rcases intStr_chars z 'j' hmem with h1 | h1
      · exact absurd h1 (by decide)
      · exact absurd h1 (by decide)
    unfold parseClean coefRequestClean
    simp only [hne, hminus, if_false, hj, Bool.false_eq_true]
    exact h


theorem floatIntModel_intStr (z : Int) : floatIntModel (intStr z) = some (intGQ z) := by
  have hall : ∀ n, (natStr n).all isDigit = true := by
    intro n; rw [List.all_eq_true]; exact natStr_all_digits n
  unfold intStr
  split
  · next hneg =>
    simp only [floatIntModel, natStr_ne_nil, ne_eq, not_false_eq_true, hall, and_self, if_true, parseNat_natStr]
    congr 2
    omega
  · next hpos =>
    cases hn : natStr z.natAbs with
    | nil => exact absurd hn (natStr_ne_nil _)
    | cons c r =>
      have hc : c ≠ '-' := by
        intro hh; subst hh
        have := natStr_all_digits z.natAbs '-' (by rw [hn]; simp)
        revert this; decide
      have : floatIntModel (c :: r) = if (c :: r) ≠ [] ∧ (c :: r).all isDigit = true then some (intGQ (parseNat (c :: r))) else none := by
        unfold floatIntModel
        split
        · next r' heq => simp only [List.cons.injEq] at heq; exact absurd heq.1 hc
        · rfl
      rw [this, ← hn]
      simp only [natStr_ne_nil, ne_eq, not_false_eq_true, hall, and_self, if_true, parseNat_natStr]
      congr 2
      omega

theorem lookup_of_agree (t : List (Str × GQ)) (s : Str) (v : GQ) (hmem : ∃ w, (s, w) ∈ t)
    (hagree : ∀ e ∈ t, e.1 = s → e.2 = v) : lookup t s = some v := by
  unfold lookup
  obtain ⟨w, hw⟩ := hmem
  cases hf : t.find? (fun e => e.1 = s) with
  | none =>
    have := List.find?_eq_none.1 hf (s, w) hw
    simp at this
  | some e =>
    have h1 := List.mem_of_find?_eq_some hf
    have h2 := List.find?_some hf
    simp only [decide_eq_true_eq] at h2
    simp [hagree e h1 h2]

/-- **`CoefOK` discharged for integer coefficients** up to the agreement of the supplied `float` table with the exact
integer model on the integer literals it contains -/
theorem coefOK_int_of_model (nt : NumTables) (z : Int) (hmem : ∃ w, (intStr z, w) ∈ nt.pyFloat)
    (hagree : ∀ e ∈ nt.pyFloat, ∀ v, floatIntModel e.1 = some v → e.2 = v) :
    CoefOK nt (intStr z) (intGQ z) :=
  coefOK_int nt z (lookup_of_agree _ _ _ hmem (fun e he hs => hagree e he _ (by rw [hs]; exact floatIntModel_intStr z)))


end OFV.C20
