/- C19 — `_discretize_probability_distribution` over the rationals: the numerators sum to the
denominator and are within epsilon of the normalised probabilities. -/
import OFV.Model.C19
import OFV.Spec.C19
import OFV.Proofs.C19Roulette
import Mathlib.Data.Rat.Floor
import Mathlib.Tactic.Linarith
import Mathlib.Tactic.Ring
import Mathlib.Tactic.Positivity
import Mathlib.Tactic.FieldSimp
import Mathlib.Algebra.BigOperators.Group.List.Basic

namespace OFV.Proofs.C19D
open OFV.Model.C19 List

theorem ceil_eq (x : ℚ) : x.ceil = ⌈x⌉ := by
  symm
  rw [Int.ceil_eq_iff]
  exact ⟨by have := Rat.ceil_lt (x := x); linarith, Rat.le_ceil⟩

theorem floor_eq (x : ℚ) : x.floor = ⌊x⌋ := rfl

/-- rounding half up stays within one half -/
theorem round_bounds (x : ℚ) : (roundHalfUp x : ℚ) ≤ x + 1 / 2 ∧ x - 1 / 2 < roundHalfUp x := by
  unfold roundHalfUp
  rw [floor_eq]
  constructor
  · exact Int.floor_le _
  · have := Int.lt_floor_add_one (x + 1 / 2); linarith

theorem round_mono {x y : ℚ} (h : x ≤ y) : roundHalfUp x ≤ roundHalfUp y := by
  unfold roundHalfUp
  rw [floor_eq, floor_eq]
  exact Int.floor_mono (by linarith)

theorem round_int (z : ℤ) : roundHalfUp (z : ℚ) = z := by
  unfold roundHalfUp
  rw [floor_eq]
  have : ⌊(z : ℚ) + 1 / 2⌋ = z := by
    rw [Int.floor_eq_iff]; constructor <;> norm_num
  exact this

/-- the differences of the rounded partial sums, as a recursion on the list -/
def D (f : ℚ → ℤ) : ℚ → List ℚ → List ℤ
  | _, [] => []
  | t, v :: r => (f (t + v) - f t) :: D f (t + v) r

theorem differences_partialSums (f : ℚ → ℤ) : ∀ (l : List ℚ) (t : ℚ),
    differences ((partialSumsFrom t l).map f) = D f t l := by
  intro l
  induction l with
  | nil => intro t; simp [partialSumsFrom, differences, D]
  | cons v r ih =>
    intro t
    cases r with
    | nil => simp [partialSumsFrom, differences, D]
    | cons v' r' =>
      have := ih (t + v)
      simp only [partialSumsFrom, map_cons, differences, D] at this ⊢
      rw [this]

theorem last_partialSums : ∀ (l : List ℚ) (t d : ℚ), (partialSumsFrom t l).getLastD d = t + l.sum := by
  intro l
  induction l with
  | nil => intro t d; simp [partialSumsFrom]
  | cons v r ih =>
    intro t d
    simp only [partialSumsFrom, getLastD_cons, ih (t + v) t, sum_cons]
    ring

theorem D_length (f : ℚ → ℤ) : ∀ (l : List ℚ) (t : ℚ), (D f t l).length = l.length := by
  intro l; induction l with
  | nil => intro t; rfl
  | cons v r ih => intro t; simp [D, ih]

theorem D_sum (f : ℚ → ℤ) : ∀ (l : List ℚ) (t : ℚ), (D f t l).sum = f (t + l.sum) - f t := by
  intro l; induction l with
  | nil => intro t; simp [D]
  | cons v r ih => intro t; simp only [D, sum_cons, ih]; rw [show t + v + r.sum = t + (v + r.sum) by ring]; ring

/-- every entry of `D` is `f (t' + p) - f t'` for the corresponding input `p` and some running total -/
theorem D_forall (f : ℚ → ℤ) (P : ℤ → ℚ → Prop) (hP : ∀ t p, P (f (t + p) - f t) p) :
    ∀ (l : List ℚ) (t : ℚ), ∀ e ∈ (D f t l).zip l, P e.1 e.2 := by
  intro l; induction l with
  | nil => intro t e he; simp [D] at he
  | cons v r ih =>
    intro t e he
    simp only [D, zip_cons_cons, mem_cons] at he
    rcases he with rfl | he
    · exact hP t v
    · exact ih (t + v) e he


theorem D_nonneg (f : ℚ → ℤ) (hf : ∀ x y, x ≤ y → f x ≤ f y) :
    ∀ (l : List ℚ) (t : ℚ), (∀ p ∈ l, 0 ≤ p) → ∀ d ∈ D f t l, 0 ≤ d := by
  intro l; induction l with
  | nil => intro t _ d hd; simp [D] at hd
  | cons v r ih =>
    intro t hp d hd
    simp only [D, mem_cons] at hd
    rcases hd with rfl | hd
    · have := hf t (t + v) (by have := hp v (by simp); linarith); omega
    · exact ih (t + v) (fun p hp' => hp p (mem_cons_of_mem _ hp')) d hd

theorem le_two_pow_clog2 (q : Nat) : q ≤ 2 ^ clog2 q := by
  unfold clog2
  split
  · rename_i h; have : 0 < 2 ^ 0 := by simp
    omega
  · have := Nat.lt_log2_self (n := q - 1)
    omega

/-- the number of sub-bits is large enough: `eps * n * 2^mu ≥ 1` -/
theorem subBitPrecision_spec (eps : ℚ) (n : Nat) (h : 0 < eps * n) :
    1 ≤ eps * n * (2 ^ subBitPrecision eps n : ℕ) := by
  unfold subBitPrecision
  simp only
  split
  · rename_i h1; simpa using h1
  · rename_i h1
    have hx : eps * n < 1 := lt_of_not_ge h1
    have hq : (1 : ℚ) / (eps * n) ≤ ((1 / (eps * n)).ceil.toNat : ℕ) := by
      have h0 : (0 : ℤ) ≤ (1 / (eps * n)).ceil := by
        rw [ceil_eq]; exact Int.ceil_nonneg (by positivity)
      have : (((1 / (eps * n)).ceil.toNat : ℕ) : ℚ) = ((1 / (eps * n)).ceil : ℚ) := by
        rw [← Int.cast_natCast, Int.toNat_of_nonneg h0]
      rw [this]; exact Rat.le_ceil
    have h2 := le_two_pow_clog2 (1 / (eps * n)).ceil.toNat
    have h3 : ((1 / (eps * n)).ceil.toNat : ℚ) ≤ (2 ^ clog2 (1 / (eps * n)).ceil.toNat : ℕ) := by
      exact_mod_cast h2
    have h4 : 1 / (eps * n) ≤ (2 ^ clog2 (1 / (eps * n)).ceil.toNat : ℕ) := le_trans hq h3
    rw [div_le_iff₀ h] at h4
    linarith

/-- the number of sub-bits is minimal: one bit less is not enough (or there are none) -/
theorem subBitPrecision_minimal (eps : ℚ) (n : Nat) (h : 0 < eps * n) :
    subBitPrecision eps n = 0 ∨ eps * n * (2 ^ (subBitPrecision eps n - 1) : ℕ) < 1 := by
  unfold subBitPrecision
  simp only
  split
  · exact Or.inl rfl
  · rename_i h1
    right
    have hx : eps * n < 1 := lt_of_not_ge h1
    have hinv : (1 : ℚ) < 1 / (eps * n) := by
      rw [lt_div_iff₀ h]; linarith
    have hc0 : (0 : ℤ) ≤ (1 / (eps * n)).ceil := by
      rw [ceil_eq]; exact Int.ceil_nonneg (by positivity)
    have hq2 : 2 ≤ (1 / (eps * n)).ceil.toNat := by
      have : (1 : ℤ) < (1 / (eps * n)).ceil := by
        rw [ceil_eq]; exact Int.lt_ceil.mpr (by exact_mod_cast hinv)
      omega
    have hqlt : (((1 / (eps * n)).ceil.toNat : ℕ) : ℚ) < 1 / (eps * n) + 1 := by
      have : (((1 / (eps * n)).ceil.toNat : ℕ) : ℚ) = ((1 / (eps * n)).ceil : ℚ) := by
        rw [← Int.cast_natCast, Int.toNat_of_nonneg hc0]
      rw [this]; exact Rat.ceil_lt
    unfold clog2
    have hne : ¬ (1 / (eps * n)).ceil.toNat ≤ 1 := by omega
    simp only [hne, if_false, Nat.add_sub_cancel]
    have hlog := Nat.log2_self_le (n := (1 / (eps * n)).ceil.toNat - 1) (by omega)
    have hcast : ((2 ^ Nat.log2 ((1 / (eps * n)).ceil.toNat - 1) : ℕ) : ℚ) ≤
        (((1 / (eps * n)).ceil.toNat - 1 : ℕ) : ℚ) := by exact_mod_cast hlog
    have hsub : ((((1 / (eps * n)).ceil.toNat - 1 : ℕ)) : ℚ) = (((1 / (eps * n)).ceil.toNat : ℕ) : ℚ) - 1 := by
      rw [Nat.cast_sub (by omega)]; simp
    have hlt : ((2 ^ Nat.log2 ((1 / (eps * n)).ceil.toNat - 1) : ℕ) : ℚ) < 1 / (eps * n) := by
      rw [hsub] at hcast; linarith
    rw [lt_div_iff₀ h] at hlt
    linarith

theorem rsum_eq_sum (l : List ℚ) : Spec.C19.rsum l = l.sum := by
  unfold Spec.C19.rsum
  have : ∀ (l : List ℚ) (a : ℚ), l.foldl (· + ·) a = a + l.sum := by
    intro l
    induction l with
    | nil => intro a; simp
    | cons x r ih => intro a; rw [foldl_cons, ih, sum_cons]; ring
  rw [this]; simp

theorem rabs_le (x e : ℚ) (h1 : -e ≤ x) (h2 : x ≤ e) : Spec.C19.rabs x ≤ e := by
  unfold Spec.C19.rabs; split <;> linarith

/-- `_discretize_probability_distribution` meets its statement for every non-negative list with positive
sum and every `epsilon > 0` (rational arithmetic) -/
theorem discretize_ok (probs : List ℚ) (eps : ℚ) (hne : probs ≠ []) (hpos : ∀ p ∈ probs, 0 ≤ p)
    (htot : 0 < probs.sum) (heps : 0 < eps) :
    ∃ numers denom mu, discretize probs eps = some (numers, denom, mu) ∧
      Spec.C19.discretizeOk probs eps numers denom mu = true := by
  have hn : probs.length ≠ 0 := fun e => hne (length_eq_zero_iff.mp e)
  have hlast : (Model.C19.partialSums probs).getLastD 0 = probs.sum := by
    rw [Model.C19.partialSums, last_partialSums]; simp
  obtain ⟨mu, hmu⟩ : ∃ mu, mu = subBitPrecision eps probs.length := ⟨_, rfl⟩
  obtain ⟨B, hB⟩ : ∃ B : ℕ, B = 2 ^ mu * probs.length := ⟨_, rfl⟩
  obtain ⟨f, hf⟩ : ∃ f : ℚ → ℤ, f = fun c => roundHalfUp (c / probs.sum * (B : ℚ)) := ⟨_, rfl⟩
  have hBpos : (0 : ℚ) < B := by
    rw [hB]; push_cast; positivity
  have hepsB : 1 ≤ eps * B := by
    have := subBitPrecision_spec eps probs.length (by positivity)
    rw [← hmu] at this
    rw [hB]; push_cast at this ⊢; linarith
  have hmono : ∀ x y, x ≤ y → f x ≤ f y := by
    intro x y h; rw [hf]; apply round_mono
    have : x / probs.sum ≤ y / probs.sum := div_le_div_of_nonneg_right h (le_of_lt htot)
    exact mul_le_mul_of_nonneg_right this (le_of_lt hBpos)
  refine ⟨D f 0 probs, B, mu, ?_, ?_⟩
  · unfold discretize
    have hc : ¬ (probs.length = 0 ∨ eps ≤ 0) := by
      intro h; rcases h with h | h
      · exact hn h
      · linarith
    simp only [hc, if_false, hlast, ← hmu, ← hB]
    have ht : ¬ probs.sum = 0 := ne_of_gt htot
    simp only [ht, if_false]
    rw [Model.C19.partialSums, ← hf, differences_partialSums]
  · simp only [Spec.C19.discretizeOk, Bool.and_eq_true, beq_iff_eq, all_eq_true, decide_eq_true_eq,
      rsum_eq_sum, OFV.Proofs.C19.isum_eq_sum]
    refine ⟨⟨⟨⟨D_length f probs 0, by rw [hB]; ring⟩, ?_⟩, ?_⟩, ?_⟩
    · rw [D_sum, hf]
      simp only [zero_add, zero_div, zero_mul]
      rw [div_self (ne_of_gt htot), one_mul]
      have h1 : roundHalfUp (B : ℚ) = B := by exact_mod_cast round_int (B : ℤ)
      have h0 : roundHalfUp (0 : ℚ) = 0 := by exact_mod_cast round_int 0
      rw [h1, h0]; simp
    · exact D_nonneg f hmono probs 0 hpos
    · apply D_forall f (fun d p => Spec.C19.rabs ((d : ℚ) / (B : ℚ) - p / probs.sum) ≤ eps)
      intro t p
      have b1 := round_bounds ((t + p) / probs.sum * B)
      have b2 := round_bounds (t / probs.sum * B)
      have hd : ((f (t + p) - f t : ℤ) : ℚ) = (roundHalfUp ((t + p) / probs.sum * B) : ℚ) -
          (roundHalfUp (t / probs.sum * B) : ℚ) := by rw [hf]; push_cast; ring
      have hdiff : (t + p) / probs.sum * B - t / probs.sum * B = p / probs.sum * B := by ring
      have hinv : 1 / (B : ℚ) ≤ eps := by
        rw [div_le_iff₀ hBpos]; linarith
      have key : ((f (t + p) - f t : ℤ) : ℚ) / B - p / probs.sum =
          (((f (t + p) - f t : ℤ) : ℚ) - p / probs.sum * B) / B := by
        field_simp
      apply rabs_le
      · rw [key, hd, le_div_iff₀ hBpos]
        have : -eps * B ≤ -1 := by linarith
        nlinarith [b1.1, b1.2, b2.1, b2.2]
      · rw [key, hd, div_le_iff₀ hBpos]
        nlinarith [b1.1, b1.2, b2.1, b2.2]

end OFV.Proofs.C19D
