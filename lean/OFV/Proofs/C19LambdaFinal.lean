/-
C19 — `lambda_norm` = 1-norm of the non-identity coefficients of the Jordan-Wigner image of a real symmetric
DiagonalCoulombHamiltonian (two Model functions: `Model.C19.lambdaNorm` and `Model.C04.jwDCH`).
-/
import OFV.Proofs.C19LambdaSpec
import OFV.Spec.C19

namespace OFV
namespace C19Jw
open Model Model.C04 Model.C19

theorem lamA_sum (n : Nat) (T V : List (List Rat))
    (symT : ∀ p q, p < n → q < n → mat T q p = mat T p q) (symV : ∀ p q, p < n → q < n → mat V q p = mat V p q) :
    ((List.range n).map fun p => ((List.range n).map fun q => lamA T V p q).sum).sum
      = ((pairs n).map fun ab => rabs (1 / 2 * mat V ab.1 ab.2)).sum
        + (((pairs n).map fun ab => rabs (1 / 2 * mat T ab.1 ab.2)).sum
          + ((pairs n).map fun ab => rabs (1 / 2 * mat T ab.1 ab.2)).sum) := by
  rw [rsum_pairs_split, rsum_zero_map _ _ (fun p _ => by simp [lamA]), zero_add, ← rsum_add_map, ← rsum_add_map]
  unfold pairs
  apply congrArg
  apply List.map_congr_left
  intro ab hab
  obtain ⟨a, b⟩ := ab
  obtain ⟨hlt, hbn⟩ := Sem.combs2_range_lt n a b hab
  have han : a < n := by omega
  simp only
  unfold lamA
  rw [if_neg (show ¬ a = b by omega), if_neg (show ¬ b = a by omega), symT a b han hbn, symV a b han hbn, rabs_half, rabs_half]
  ring

theorem lamD_sum (n : Nat) (T V : List (List Rat))
    (symV : ∀ p q, p < n → q < n → mat V q p = mat V p q) (j : Nat) :
    -(((List.range n).map fun p => ((List.range n).map fun q => lamD T V p q j).sum).sum) = zc n T V j := by
  rw [rsum_pairs_split, neg_add, ← rsum_neg_map, ← rsum_neg_map]
  unfold zc pairs
  congr 1
  · apply congrArg
    apply List.map_congr_left
    intro p _
    unfold lamD
    simp only [if_true]
    by_cases h : p = j
    · subst h; simp; ring
    · have : ¬ j = p := fun e => h e.symm
      simp [h, this]
  · apply congrArg
    apply List.map_congr_left
    intro ab hab
    obtain ⟨a, b⟩ := ab
    obtain ⟨hlt, hbn⟩ := Sem.combs2_range_lt n a b hab
    have han : a < n := by omega
    simp only
    unfold lamD
    rw [if_neg (show ¬ a = b by omega), if_neg (show ¬ b = a by omega), symV a b han hbn]
    by_cases h1 : a = j
    · subst h1
      have : ¬ b = a := by omega
      have : ¬ a = b := by omega
      simp [*]; ring
    · by_cases h2 : b = j
      · subst h2
        have : ¬ b = a := by omega
        simp [*]; ring
      · have : ¬ j = a := fun e => h1 e.symm
        have : ¬ j = b := fun e => h2 e.symm
        simp [*]

/-- **`lambda_norm` is the 1-norm of the non-identity Jordan-Wigner coefficients.**  For every `n`, every real
symmetric `T` (`one_body`) and `V` (`two_body`) — given to `jwDCH` as the row-major tensors `one`, `two` — and every
constant, the Model of `lambda_norm` equals the sum of `|c|` over the non-identity Pauli strings of the Model of
`jordan_wigner(DiagonalCoulombHamiltonian)`, on every exact run of the latter (`jwDCHOk`, the hypothesis of
`C04.jw_dch_sound`, which ties `jwDCH` to the Spec operator `const + Σ T_pq a†_p a_q + Σ V_pq n_p n_q`). -/
theorem lambdaNorm_eq_pauliNorm (tol : Rat) (n : Nat) (const : GQ) (one two : List GQ) (T V : List (List Rat))
    (hn : T.length = n)
    (hT : ∀ p q, p < n → q < n → get1 n one p q = rl (mat T p q))
    (hV : ∀ p q, p < n → q < n → get1 n two p q = rl (mat V p q))
    (symT : ∀ p q, p < n → q < n → mat T q p = mat T p q)
    (symV : ∀ p q, p < n → q < n → mat V q p = mat V p q)
    (hok : jwDCHOk tol n const one two = true) :
    lambdaNorm T V = pauliNormNonId (jwDCH tol n const one two) := by
  rw [pauliNorm_jwDCH tol n const one two T V hT hV hok, lambdaNorm_closed, hn, lamA_sum n T V symT symV, add_comm]
  congr 1
  apply congrArg
  apply List.map_congr_left
  intro j _
  rw [lamD_sum n T V symV j]

theorem get1_flatReal (n : Nat) (M : List (List Rat)) (p q : Nat) (hp : p < n) (hq : q < n) :
    get1 n (Spec.C19.flatReal n M) p q = rl (mat M p q) := by
  have hlt : p * n + q < n * n := by nlinarith
  have e1 : (p * n + q) / n = p := by
    rw [Nat.add_comm, Nat.add_mul_div_right _ _ (by omega), Nat.div_eq_of_lt hq, Nat.zero_add]
  have e2 : (p * n + q) % n = q := by
    rw [Nat.add_comm, Nat.add_mul_mod_self_right, Nat.mod_eq_of_lt hq]
  unfold get1 Spec.C19.flatReal
  simp only [List.getD_eq_getElem?_getD, List.getElem?_map, List.getElem?_range hlt, Option.map_some, Option.getD_some,
    e1, e2]
  rfl

theorem pauliNormNonId_eq (A : Model.Op) : pauliNormNonId A = Spec.C19.pauliListNorm A false := by
  unfold pauliNormNonId Spec.C19.pauliListNorm
  congr 1
  apply List.map_congr_left
  intro tc _
  by_cases h : tc.1 = [] <;> simp [h, Model.C19.rabs, Spec.C19.rabs]


end C19Jw
end OFV
