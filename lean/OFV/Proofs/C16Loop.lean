/-
C16 helper lemmas: the loop of `_reduce_terms` preserves the action on every state stabilized by
all stabilizers.
-/
import OFV.Proofs.C16Pauli
import Mathlib.Tactic.Linarith
import Mathlib.Algebra.Order.Field.Rat

namespace OFV
namespace C16P
open Spec Model Model.C16

local notation "Op" => Model.Op
local notation "Term" => Model.Term

theorem mapM_forall2 {α β : Type} (f : α → Except Err β) :
    ∀ (l : List α) (l' : List β), l.mapM f = .ok l' → List.Forall₂ (fun a b => f a = .ok b) l l' := by
  intro l
  induction l with
  | nil => intro l' h; simp [List.mapM_nil, pure, Except.pure] at h; subst h; exact List.Forall₂.nil
  | cons a r ih =>
    intro l' h
    rw [List.mapM_cons] at h
    cases hfa : f a with
    | error e => simp [hfa, bind, Except.bind] at h
    | ok b =>
      cases hr : r.mapM f with
      | error e => simp [hfa, hr, bind, Except.bind] at h
      | ok bs =>
        simp [hfa, hr, bind, Except.bind, pure, Except.pure] at h
        subst h
        exact List.Forall₂.cons hfa (ih bs hr)

theorem applyFix_spec (tol : Rat) (pos fop other : Nat) (stab0 : Op) (terms rest nt up : List Op)
    (h : applyFix tol pos fop other stab0 terms rest = .ok (nt, up)) :
    List.Forall₂ (fun a b => fixSingleTerm a pos fop other stab0 = .ok b) terms nt ∧
    List.Forall₂ (fun a b => fixSingleTerm a pos fop other stab0 = .ok b) rest up := by
  unfold applyFix at h
  cases h1 : terms.mapM (fun t => fixSingleTerm t pos fop other stab0) with
  | error e => simp [h1, bind, Except.bind] at h
  | ok a =>
    cases h2 : rest.mapM (fun s => fixSingleTerm s pos fop other stab0) with
    | error e => simp [h1, h2, bind, Except.bind] at h
    | ok b =>
      simp only [h1, h2, bind, Except.bind] at h
      cases h3 : checkLinearity b with
      | error e => simp [h3] at h
      | ok _ =>
        cases h4 : checkCommuting tol b with
        | error e => simp [h3, h4] at h
        | ok _ =>
          simp [h3, h4] at h
          obtain ⟨rfl, rfl⟩ := h
          exact ⟨mapM_forall2 _ _ _ h1, mapM_forall2 _ _ _ h2⟩

theorem loopStep_spec (tol : Rat) (manual : Bool) (i : Nat) (st st' : LoopState)
    (h : loopStep tol manual i st = .ok st') :
    (st.terms = [] ∧ st.stabs.tail = [] ∧ st'.terms = [] ∧ st'.stabs = []) ∨
    ∃ stab0 pos fop other, st.stabs = stab0 :: st.stabs.tail ∧
      applyFix tol pos fop other stab0 st.terms st.stabs.tail = .ok (st'.terms, st'.stabs) := by
  unfold loopStep at h
  cases hs : st.stabs with
  | nil => simp [hs, bind, Except.bind] at h
  | cons stab0 rest =>
    simp only [hs, bind, Except.bind, List.tail_cons] at h
    cases hf : firstEntry stab0 with
    | error e => simp [hf] at h
    | ok ent =>
      simp only [hf] at h
      repeat' split at h
      all_goals first
        | (cases h; done)
        | (injection h with h'; subst h'; left; simp_all [List.isEmpty_iff]; done)
        | (injection h with h'; subst h'; right
           rename_i heq
           exact ⟨stab0, _, _, _, rfl, heq⟩)

/-! ### sums of operators -/

noncomputable def sumEv (L : List Op) : Module.End GQ QS := (L.map evOp).sum

theorem sumEv_singletons (A : Op) : sumEv (A.map fun e => [e]) = evOp A := by
  induction A with
  | nil => simp [sumEv, evOp_nil]
  | cons e r ih =>
    simp only [sumEv, List.map_cons, List.sum_cons] at ih ⊢
    rw [ih, evOp_cons e r, evOp_cons e [], evOp_nil, add_zero]

theorem isSmall_zero (v : GQ) : GQ.isSmall 0 v = false := by
  have h1 := mul_self_nonneg v.re
  have h2 := mul_self_nonneg v.im
  simp only [GQ.isSmall, GQ.normSq, mul_zero, decide_eq_false_iff_not, not_lt]
  linarith

theorem exactAdd_zero : ∀ (b a : Op), ExactAdd 0 a b := by
  intro b
  induction b with
  | nil => intro a; trivial
  | cons e r ih =>
    intro a
    obtain ⟨t, c⟩ := e
    exact ⟨by simp [isSmall_zero], ih _⟩

theorem fold_iadd_zero (L : List Op) (acc : Op) :
    evOp (L.foldl (fun o t => Model.iadd 0 o t) acc) = evOp acc + sumEv L := by
  induction L generalizing acc with
  | nil => simp [sumEv]
  | cons t r ih =>
    simp only [List.foldl_cons, sumEv, List.map_cons, List.sum_cons] at ih ⊢
    rw [ih, evOp_iadd 0 _ _ (exactAdd_zero t acc), add_assoc]

theorem fold_iadd_valid (tol : Rat) (L : List Op) (acc : Op) (ha : Sem.ValidOp acc) (hL : ∀ t ∈ L, Sem.ValidOp t) :
    Sem.ValidOp (L.foldl (fun o t => Model.iadd tol o t) acc) := by
  induction L generalizing acc with
  | nil => exact ha
  | cons t r ih =>
    simp only [List.foldl_cons]
    exact ih _ (iadd_valid tol _ _ ha (hL t (by simp))) (fun x hx => hL x (by simp [hx]))

theorem fix_valid (term stab r : Op) (pos f o : Nat) (ht : Sem.ValidOp term) (hs : Sem.ValidOp stab)
    (h : fixSingleTerm term pos f o stab = .ok r) : Sem.ValidOp r := by
  cases term with
  | nil => simp [fixSingleTerm, firstEntry] at h; cases h
  | cons e t =>
    simp only [fixSingleTerm, firstEntry] at h
    have h' : (if (e.1.contains (pos, f) || e.1.contains (pos, o)) = true then
        (Except.ok (mulOp .qubit (e :: t) stab) : Except Err Op) else .ok (e :: t)) = .ok r := h
    split at h'
    · cases h'; exact Sem.mulOp_valid ht hs
    · cases h'; exact ht

theorem fix_equiv (term stab r : Op) (pos f o : Nat) (ht : Sem.ValidOp term) (hs : Sem.ValidOp stab)
    (h : fixSingleTerm term pos f o stab = .ok r) (ψ : QS) (hψ : evOp stab ψ = ψ) :
    evOp r ψ = evOp term ψ := by
  cases term with
  | nil => simp [fixSingleTerm, firstEntry] at h; cases h
  | cons e t =>
    simp only [fixSingleTerm, firstEntry] at h
    have h' : (if (e.1.contains (pos, f) || e.1.contains (pos, o)) = true then
        (Except.ok (mulOp .qubit (e :: t) stab) : Except Err Op) else .ok (e :: t)) = .ok r := h
    split at h'
    · cases h'
      rw [evOp_mulOp _ _ ht hs, Module.End.mul_apply, hψ]
    · cases h'; rfl

/-- a list of operators pushed through `fix_single_term` keeps validity and its action on `ψ` -/
theorem forall2_fix (stab : Op) (pos f o : Nat) (hs : Sem.ValidOp stab) (ψ : QS) (hψ : evOp stab ψ = ψ) :
    ∀ (L L' : List Op), List.Forall₂ (fun a b => fixSingleTerm a pos f o stab = .ok b) L L' →
    (∀ t ∈ L, Sem.ValidOp t) →
    (∀ t ∈ L', Sem.ValidOp t) ∧ sumEv L' ψ = sumEv L ψ ∧
    ((∀ t ∈ L, evOp t ψ = ψ) → ∀ t ∈ L', evOp t ψ = ψ) := by
  intro L L' h
  induction h with
  | nil => intro _; simp [sumEv]
  | @cons a b l l' hab _ ih =>
    intro hv
    have hva := hv a (by simp)
    obtain ⟨h1, h2, h3⟩ := ih (fun t ht => hv t (by simp [ht]))
    have hb := fix_valid a stab b pos f o hva hs hab
    have he := fix_equiv a stab b pos f o hva hs hab ψ hψ
    refine ⟨?_, ?_, ?_⟩
    · intro t ht
      rcases List.mem_cons.mp ht with rfl | ht
      · exact hb
      · exact h1 t ht
    · simp only [sumEv, List.map_cons, List.sum_cons, LinearMap.add_apply] at h2 ⊢
      rw [he, h2]
    · intro hst t ht
      rcases List.mem_cons.mp ht with rfl | ht
      · rw [he]; exact hst a (by simp)
      · exact h3 (fun x hx => hst x (by simp [hx])) t ht

/-! ### the executable exact-regime predicates -/

theorem exactAddB_sound (tol : Rat) : ∀ (b a : Op), exactAddB tol a b = true → ExactAdd tol a b := by
  intro b
  induction b with
  | nil => intro a _; trivial
  | cons e r ih =>
    intro a h
    obtain ⟨t, c⟩ := e
    simp only [exactAddB, Bool.and_eq_true, Bool.or_eq_true, Bool.not_eq_true', decide_eq_true_eq] at h
    refine ⟨?_, ih _ h.2⟩
    intro hs
    rcases h.1 with h1 | h1
    · rw [h1] at hs; cases hs
    · exact h1

theorem evOp_fold_iadd (tol : Rat) (L : List Op) (acc : Op) (h : exactSumB tol acc L = true) :
    evOp (L.foldl (fun o t => Model.iadd tol o t) acc) = evOp acc + sumEv L := by
  induction L generalizing acc with
  | nil => simp [sumEv]
  | cons t r ih =>
    simp only [exactSumB, Bool.and_eq_true] at h
    simp only [List.foldl_cons, sumEv, List.map_cons, List.sum_cons] at ih ⊢
    rw [ih _ h.2, evOp_iadd tol _ _ (exactAddB_sound tol t acc h.1), add_assoc]

theorem exactAddB_zero : ∀ (b a : Op), exactAddB 0 a b = true := by
  intro b
  induction b with
  | nil => intro a; rfl
  | cons e r ih =>
    intro a
    obtain ⟨t, c⟩ := e
    simp [exactAddB, isSmall_zero, ih]

theorem exactSumB_zero : ∀ (L : List Op) (acc : Op), exactSumB 0 acc L = true := by
  intro L
  induction L with
  | nil => intro acc; rfl
  | cons t r ih => intro acc; simp [exactSumB, exactAddB_zero, ih]

/-! ### the loop of `_reduce_terms` -/

theorem reduceTerms_eq (tol : Rat) (terms : Op) (stabs : List Op) (manual : Bool) (fixed : List Nat) :
    reduceTerms tol terms stabs manual fixed
      = (do
          let r ← (List.range stabs.length).foldlM (redBodyX tol manual)
            ((terms, ⟨[], stabs, if manual then fixed else [], none, false⟩), true)
          .ok (r.1.1, r.1.2.fixed, r.1.2.stale, r.2)) := rfl

def Inv (ψ : QS) (T : Module.End GQ QS) (acc : Op × LoopState) : Prop :=
  Sem.ValidOp acc.1 ∧ (∀ s ∈ acc.2.stabs, Sem.ValidOp s ∧ evOp s ψ = ψ) ∧ evOp acc.1 ψ = T ψ

theorem singletons_valid (A : Op) (h : Sem.ValidOp A) : ∀ t ∈ A.map (fun e => [e]), Sem.ValidOp t := by
  intro t ht
  obtain ⟨e, he, rfl⟩ := List.mem_map.mp ht
  intro x hx
  simp only [List.mem_singleton] at hx
  rw [hx]
  exact h e he

theorem redBody_inv (tol : Rat) (manual : Bool) (i : Nat) (ψ : QS) (T : Module.End GQ QS)
    (acc acc' : Op × LoopState) (h : redBody tol manual acc i = .ok acc')
    (hex : exactSumB tol [] acc'.2.terms = true) (hI : Inv ψ T acc) : Inv ψ T acc' := by
  obtain ⟨hv, hst, hev⟩ := hI
  unfold redBody at h
  cases hl : loopStep tol manual i { acc.2 with terms := acc.1.map fun e => [e] } with
  | error e => simp [hl, bind, Except.bind] at h
  | ok st' =>
    simp only [hl, bind, Except.bind, Except.ok.injEq] at h
    subst h
    simp only at hex
    rcases loopStep_spec tol manual i _ st' hl with ⟨h1, _, h3, h4⟩ | ⟨stab0, pos, fop, other, hs, hap⟩
    · simp only at h1
      have ha : acc.1 = [] := by simpa using h1
      refine ⟨?_, ?_, ?_⟩
      · simp only [h3, List.foldl_nil]; exact Sem.validOp_nil
      · simp only [h4]; intro s hs; simp at hs
      · simp only [h3, List.foldl_nil]
        rw [← hev, ha]
    · simp only at hs hap
      obtain ⟨f1, f2⟩ := applyFix_spec tol pos fop other stab0 _ _ _ _ hap
      have hs0 := hst stab0 (by rw [hs]; simp)
      have r1 := forall2_fix stab0 pos fop other hs0.1 ψ hs0.2 _ _ f1 (singletons_valid acc.1 hv)
      have r2 := forall2_fix stab0 pos fop other hs0.1 ψ hs0.2 _ _ f2
        (fun t ht => (hst t (by rw [hs]; simp [ht])).1)
      refine ⟨?_, ?_, ?_⟩
      · exact fold_iadd_valid tol _ _ Sem.validOp_nil r1.1
      · intro s hsm
        exact ⟨r2.1 s hsm, r2.2.2 (fun t ht => (hst t (by rw [hs]; simp [ht])).2) s hsm⟩
      · simp only
        rw [evOp_fold_iadd tol _ _ hex, evOp_nil, zero_add, r1.2.1, sumEv_singletons, hev]

/-- the invariant through the whole loop, provided the exactness flag comes out `true` -/
theorem foldlM_inv (tol : Rat) (manual : Bool) (ψ : QS) (T : Module.End GQ QS) :
    ∀ (l : List Nat) (acc r : Op × LoopState) (b b' : Bool),
    l.foldlM (redBodyX tol manual) (acc, b) = .ok (r, b') →
    b' = true → b = true ∧ (Inv ψ T acc → Inv ψ T r) := by
  intro l
  induction l with
  | nil =>
    intro acc r b b' h hb
    simp only [List.foldlM_nil, pure, Except.pure, Except.ok.injEq, Prod.mk.injEq] at h
    obtain ⟨rfl, rfl⟩ := h
    exact ⟨hb, id⟩
  | cons i l ih =>
    intro acc r b b' h hb
    rw [List.foldlM_cons] at h
    cases hbody : redBody tol manual acc i with
    | error e => simp [redBodyX, hbody, bind, Except.bind] at h
    | ok acc' =>
      simp only [redBodyX, hbody, bind, Except.bind] at h
      obtain ⟨h1, h2⟩ := ih acc' r (b && exactSumB tol [] acc'.2.terms) b' h hb
      simp only [Bool.and_eq_true] at h1
      exact ⟨h1.1, fun hI => h2 (redBody_inv tol manual i ψ T acc acc' hbody h1.2 hI)⟩

end C16P
end OFV
