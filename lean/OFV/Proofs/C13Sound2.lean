/-
C13 — operator-level soundness of the spinful `fermi_hubbard` Model.
-/
import OFV.Proofs.C13Sound
set_option linter.unusedSimpArgs false
set_option linter.unusedVariables false
namespace OFV.C13
open OFV.Model OFV.Model.C13 OFV.Spec.C13 OFV.GQ

/-- the operators `_spinful_fermi_hubbard_model` adds for one site, in order -/
def spinfulPieces (tol : Rat) (a : HubbardArgs) (site : Nat) : List Op :=
  (siteBonds a.x a.y a.periodic site).flatMap (fun b =>
    [hoppingTerm tol .fermion (2 * b.1) (2 * b.2) (-a.t), hoppingTerm tol .fermion (2 * b.1 + 1) (2 * b.2 + 1) (-a.t)])
  ++ [coulombTerm tol .fermion (2 * site) (2 * site + 1) a.u a.phs, numberOp .fermion (2 * site) (-a.mu - a.h),
      numberOp .fermion (2 * site + 1) (-a.mu + a.h)]

theorem spinful_eq_sumOps (tol : Rat) (a : HubbardArgs) :
    spinfulFermiHubbard tol a =
      sumOps tol ((List.range (a.x * a.y)).flatMap (spinfulPieces tol a)) [] := by
  unfold spinfulFermiHubbard sumOps
  rw [List.foldl_flatMap]
  congr 1
  funext H site
  unfold spinfulPieces siteBonds
  cases h1 : (siteNeighbors site a.x a.y a.periodic).1 <;> cases h2 : (siteNeighbors site a.x a.y a.periodic).2 <;>
    simp [List.foldl_append, h1, h2]

def spinBondDen (tol : Rat) (φ : Term → GQ) (a : HubbardArgs) (b : Nat × Nat) : GQ :=
  den φ (hoppingTerm tol .fermion (2 * b.1) (2 * b.2) (-a.t)) +
  den φ (hoppingTerm tol .fermion (2 * b.1 + 1) (2 * b.2 + 1) (-a.t))

def spinSiteDen (tol : Rat) (φ : Term → GQ) (a : HubbardArgs) (s : Nat) : GQ :=
  den φ (coulombTerm tol .fermion (2 * s) (2 * s + 1) a.u a.phs) +
  (den φ (numberOp .fermion (2 * s) (-a.mu - a.h)) + den φ (numberOp .fermion (2 * s + 1) (-a.mu + a.h)))

theorem spinful_den_bonds (tol : Rat) (φ : Term → GQ) (a : HubbardArgs)
    (hex : ExactSum tol [] ((List.range (a.x * a.y)).flatMap (spinfulPieces tol a))) :
    den φ (spinfulFermiHubbard tol a) =
      gsumL ((bonds a.x a.y a.periodic).map (spinBondDen tol φ a)) +
      gsumL ((List.range (a.x * a.y)).map (spinSiteDen tol φ a)) := by
  rw [spinful_eq_sumOps, den_sumOps tol φ _ _ hex, den_nil, zero_add', List.map_flatMap, gsumL_flatMap]
  have hsite : ∀ s, gsumL ((spinfulPieces tol a s).map (den φ)) =
      gsumL ((siteBonds a.x a.y a.periodic s).map (spinBondDen tol φ a)) + spinSiteDen tol φ a s := by
    intro s
    unfold spinfulPieces
    rw [List.map_append, gsumL_append, List.map_flatMap, gsumL_flatMap]
    simp [gsumL, add_zero']
    rfl
  simp only [hsite]
  rw [gsumL_map_add]
  congr 1
  unfold bonds
  rw [List.map_flatMap, gsumL_flatMap]

/-- **hubbard_sound (spinful `fermi_hubbard`, every lattice size, both boundary conditions, any particle-hole flag,
any magnetic field; real hopping amplitude)**: in the exact regime the Model's output denotes, for EVERY term functional
`φ`, `-t Σ_{⟨i,j⟩ ∈ Spec edges} Σ_σ (a†_{iσ} a_{jσ} + a†_{jσ} a_{iσ})` plus the on-site terms
`U n_{i↑} n_{i↓}` (with the particle-hole shift if requested), `(-μ-h) n_{i↑}`, `(-μ+h) n_{i↓}` of every site -/
theorem spinful_hubbard_sound' (tol : Rat) (φ : Term → GQ) (a : HubbardArgs)
    (hex : ExactSum tol [] ((List.range (a.x * a.y)).flatMap (spinfulPieces tol a)))
    (ht : a.t.conj = a.t) (hreg : GQ.isSmall tol (-a.t) = true → -a.t = 0) :
    den φ (spinfulFermiHubbard tol a) =
      gsumL ((edges adjNN a.x a.y a.periodic).map fun e =>
        ((-a.t) * φ [(2 * e.1, 1), (2 * e.2, 0)] + (-a.t) * φ [(2 * e.2, 1), (2 * e.1, 0)]) +
        ((-a.t) * φ [(2 * e.1 + 1, 1), (2 * e.2 + 1, 0)] + (-a.t) * φ [(2 * e.2 + 1, 1), (2 * e.1 + 1, 0)])) +
      gsumL ((List.range (a.x * a.y)).map (spinSiteDen tol φ a)) := by
  have hc : (-a.t).conj = -a.t := by rw [conj_neg', ht]
  have hreg' : GQ.isSmall tol (-a.t).conj = true → (-a.t).conj = 0 := by rw [hc]; exact hreg
  have hbond : ∀ i j, i ≠ j → spinBondDen tol φ a (i, j) =
      ((-a.t) * φ [(2 * i, 1), (2 * j, 0)] + (-a.t) * φ [(2 * j, 1), (2 * i, 0)]) +
      ((-a.t) * φ [(2 * i + 1, 1), (2 * j + 1, 0)] + (-a.t) * φ [(2 * j + 1, 1), (2 * i + 1, 0)]) := by
    intro i j hij
    simp only [spinBondDen, den_hopping tol φ (2 * i) (2 * j) (-a.t) (by omega) hreg',
      den_hopping tol φ (2 * i + 1) (2 * j + 1) (-a.t) (by omega) hreg', hc]
  have hsym : ∀ i j, spinBondDen tol φ a (i, j) = spinBondDen tol φ a (j, i) := by
    intro i j
    by_cases hij : i = j
    · rw [hij]
    · rw [hbond i j hij, hbond j i (Ne.symm hij), add_comm' ((-a.t) * φ [(2 * i, 1), (2 * j, 0)]),
        add_comm' ((-a.t) * φ [(2 * i + 1, 1), (2 * j + 1, 0)])]
  rw [spinful_den_bonds tol φ a hex]
  congr 1
  have hnorm : ∀ b, spinBondDen tol φ a (norm b) = spinBondDen tol φ a b := by
    intro b
    unfold norm
    split
    · rfl
    · exact hsym b.2 b.1
  have h1 : (bonds a.x a.y a.periodic).map (spinBondDen tol φ a) =
      ((bonds a.x a.y a.periodic).map norm).map (spinBondDen tol φ a) := by
    rw [List.map_map]; exact List.map_congr_left (fun b _ => (hnorm b).symm)
  rw [h1, gsumL_perm ((bonds_perm_edges a.x a.y a.periodic).map _)]
  congr 1
  apply List.map_congr_left
  intro e he
  have hlt : e.1 < e.2 := by
    simp only [edges, List.mem_filter, mem_pairs] at he
    exact he.1.1
  exact hbond e.1 e.2 (Nat.ne_of_lt hlt)

/-- the on-site part without the particle-hole shift, explicitly -/
theorem spinSiteDen_explicit (tol : Rat) (φ : Term → GQ) (a : HubbardArgs) (hphs : a.phs = false) (s : Nat) :
    spinSiteDen tol φ a s =
      a.u * φ [(2 * s, 1), (2 * s, 0), (2 * s + 1, 1), (2 * s + 1, 0)] +
      ((-a.mu - a.h) * φ [(2 * s, 1), (2 * s, 0)] + (-a.mu + a.h) * φ [(2 * s + 1, 1), (2 * s + 1, 0)]) := by
  simp only [spinSiteDen, hphs, den_coulomb, den_numberOp]

end OFV.C13
