/- C18 — helper lemmas for `pair_within`: the invariant of every yield. -/
import OFV.Proofs.C18PairBetween

namespace OFV.Proofs.C18
open OFV.Model.C18 OFV.Spec.C18

section
variable {β : Type}

def allPairs : Pairing β → Bool
  | [] => true
  | .pr _ _ :: r => allPairs r
  | _ => false

theorem allPairs_append (p q : Pairing β) : allPairs (p ++ q) = (allPairs p && allPairs q) := by
  induction p with
  | nil => rfl
  | cons x r ih => cases x <;> simp [allPairs, ih]

theorem allPairs_wellFormed (p : Pairing β) (h : allPairs p = true) : wellFormed p = true := by
  induction p with
  | nil => rfl
  | cons x r ih => cases x <;> simp_all [allPairs, wellFormed]

theorem allPairs_singles (p : Pairing β) (h : allPairs p = true) : singles p = 0 := by
  induction p with
  | nil => rfl
  | cons x r ih => cases x <;> simp_all [allPairs, singles]

theorem allPairs_zipWith (f r : List β) : allPairs (List.zipWith Item.pr f r) = true := by
  induction f generalizing r with
  | nil => rfl
  | cons x f ih => cases r with
    | nil => rfl
    | cons y r => simpa [allPairs] using ih r

theorem lastLab_snoc (q : Pairing β) (x : β) : lastLab (q ++ [Item.sg x]) = some x := by
  simp [lastLab]

theorem mem_labelsOf_of_pr {p : Pairing β} {a b : β} (h : Item.pr a b ∈ p) :
    a ∈ labelsOf p ∧ b ∈ labelsOf p := by
  induction p with
  | nil => simp at h
  | cons x r ih =>
    rcases List.mem_cons.mp h with rfl | h
    · simp [labelsOf]
    · have := ih h
      cases x <;> simp [labelsOf, this]

end

section
variable {α : Type}

/-- the shape of a yield of `pair_within`: pairs, then one bare label iff the length is odd -/
def Shape (odd : Bool) (p : Pairing (Option α)) : Prop :=
  if odd then ∃ q x, p = q ++ [Item.sg x] ∧ allPairs q = true else allPairs p = true

/-- invariant of the yields of `pair_within labels` -/
structure Good (l : List (Option α)) (p : Pairing (Option α)) : Prop where
  perm : (labelsOf p).Perm l
  shape : Shape (decide (l.length % 2 = 1)) p
  last : ∀ z, l.getLast? = some z → ∀ y, Item.pr z y ∉ p

theorem Shape.wellFormed {odd : Bool} {p : Pairing (Option α)} (h : Shape odd p) : wellFormed p = true := by
  unfold Shape at h
  cases odd with
  | false => exact allPairs_wellFormed p (by simpa using h)
  | true =>
    have h' : ∃ q x, p = q ++ [Item.sg x] ∧ allPairs q = true := by simpa using h
    obtain ⟨q, x, rfl, hq⟩ := h'
    simp [wellFormed_append, allPairs_wellFormed q hq, Spec.C18.wellFormed]

theorem Shape.singles {odd : Bool} {p : Pairing (Option α)} (h : Shape odd p) :
    singles p = if odd then 1 else 0 := by
  unfold Shape at h
  cases odd with
  | false => simpa using allPairs_singles p (by simpa using h)
  | true =>
    have h' : ∃ q x, p = q ++ [Item.sg x] ∧ allPairs q = true := by simpa using h
    obtain ⟨q, x, rfl, hq⟩ := h'
    simp [singles_append, allPairs_singles q hq, Spec.C18.singles]

/-! ### the `None` bookkeeping of the `len % 4 == 1` branch -/

theorem zeroIndices_none_free (q : Pairing (Option α)) (hq : allPairs q = true)
    (hn : none ∉ labelsOf q) : zeroIndices q = some [] ∧ dropNonePairs q = q := by
  induction q with
  | nil => simp [zeroIndices, dropNonePairs]
  | cons x r ih =>
    cases x with
    | pr a b =>
      have hr : allPairs r = true := by simpa [allPairs] using hq
      have hb : b ≠ none := fun e => hn (by simp [labelsOf, e])
      have hn' : none ∉ labelsOf r := fun e => hn (by simp [labelsOf, e])
      obtain ⟨i1, i2⟩ := ih hr hn'
      cases b with
      | none => exact absurd rfl hb
      | some b' => simp [zeroIndices, dropNonePairs, i1, i2]
    | sg a => simp [allPairs] at hq
    | bad => simp [allPairs] at hq

theorem dropNonePairs_sub (q : Pairing (Option α)) : ∀ it ∈ dropNonePairs q, it ∈ q := by
  induction q with
  | nil => simp [dropNonePairs]
  | cons x r ih =>
    intro it hit
    cases x with
    | pr a b =>
      cases b with
      | none => simp only [dropNonePairs] at hit; exact List.mem_cons_of_mem _ (ih it hit)
      | some b' =>
        simp only [dropNonePairs] at hit
        rcases List.mem_cons.mp hit with rfl | h
        · simp
        · exact List.mem_cons_of_mem _ (ih it h)
    | sg a =>
      simp only [dropNonePairs] at hit
      rcases List.mem_cons.mp hit with rfl | h
      · simp
      · exact List.mem_cons_of_mem _ (ih it h)
    | bad =>
      simp only [dropNonePairs] at hit
      rcases List.mem_cons.mp hit with rfl | h
      · simp
      · exact List.mem_cons_of_mem _ (ih it h)

/-- if `None` occurs (once, never as a first component) in an all-pairs pairing then the Python
unpacking `(zero_index,) = [...]` succeeds, and removing the pair `(z, None)` removes exactly `z, None` -/
theorem zeroIndices_spec (q : Pairing (Option α)) (hq : allPairs q = true)
    (hnd : (labelsOf q).Nodup) (hmem : none ∈ labelsOf q) (hfirst : ∀ y, Item.pr none y ∉ q) :
    ∃ z, zeroIndices q = some [z] ∧ (labelsOf q).Perm (z :: none :: labelsOf (dropNonePairs q)) ∧
      allPairs (dropNonePairs q) = true := by
  induction q with
  | nil => simp [labelsOf] at hmem
  | cons x r ih =>
    cases x with
    | pr a b =>
      have hr : allPairs r = true := by simpa [allPairs] using hq
      have hnd' : (labelsOf r).Nodup := by
        have : (a :: b :: labelsOf r).Nodup := by simpa [labelsOf] using hnd
        exact (List.nodup_cons.mp (List.nodup_cons.mp this).2).2
      have ha : a ≠ none := fun e => hfirst b (by simp [e])
      cases b with
      | none =>
        have hn' : none ∉ labelsOf r := by
          have : (a :: none :: labelsOf r).Nodup := by simpa [labelsOf] using hnd
          exact (List.nodup_cons.mp (List.nodup_cons.mp this).2).1
        obtain ⟨i1, i2⟩ := zeroIndices_none_free r hr hn'
        exact ⟨a, by simp [zeroIndices, i1], by simp [dropNonePairs, i2, labelsOf],
          by simp [dropNonePairs, i2, hr]⟩
      | some b' =>
        have hmem' : none ∈ labelsOf r := by
          simp only [labelsOf, List.mem_cons] at hmem
          rcases hmem with e | e | e
          · exact absurd e.symm ha
          · simp at e
          · exact e
        have hfirst' : ∀ y, Item.pr none y ∉ r := fun y hy => hfirst y (List.mem_cons_of_mem _ hy)
        obtain ⟨z, h1, h2, h3⟩ := ih hr hnd' hmem' hfirst'
        refine ⟨z, by simp [zeroIndices, h1], ?_, by simp [dropNonePairs, allPairs, h3]⟩
        simp only [labelsOf, dropNonePairs]
        have : (a :: some b' :: labelsOf r).Perm (a :: some b' :: z :: none :: labelsOf (dropNonePairs r)) :=
          (h2.cons _).cons _
        refine this.trans ?_
        -- move `z, none` to the front
        have e1 : (a :: some b' :: z :: none :: labelsOf (dropNonePairs r)).Perm
            (z :: a :: some b' :: none :: labelsOf (dropNonePairs r)) :=
          ((List.Perm.swap z (some b') _).cons a).trans (List.Perm.swap z a _)
        have e2 : (a :: some b' :: none :: labelsOf (dropNonePairs r)).Perm
            (none :: a :: some b' :: labelsOf (dropNonePairs r)) :=
          ((List.Perm.swap none (some b') _).cons a).trans (List.Perm.swap none a _)
        exact e1.trans (e2.cons z)
    | sg a => simp [allPairs] at hq
    | bad => simp [allPairs] at hq


/-! ### `combine` keeps the invariant (one lemma per residue of the length mod 4) -/

theorem notin_of_perm {p : Pairing (Option α)} {l : List (Option α)} (hp : (labelsOf p).Perm l)
    {w y : Option α} (hw : w ∉ l) : Item.pr w y ∉ p :=
  fun h => hw (hp.subset (mem_labelsOf_of_pr h).1)

theorem getLast?_append_ne {f1 f2 : List (Option α)} (h : f2 ≠ []) :
    (f1 ++ f2).getLast? = f2.getLast? := by
  cases f2 with
  | nil => exact absurd rfl h
  | cons a r =>
    rw [List.getLast?_append]
    cases hh : (a :: r).getLast? with
    | none => simp at hh
    | some v => simp

theorem shape_odd {l : List (Option α)} {p : Pairing (Option α)} (h : Good l p) (ho : l.length % 2 = 1) :
    ∃ q x, p = q ++ [Item.sg x] ∧ allPairs q = true := by
  have := h.shape; simpa [Shape, ho] using this

theorem shape_even {l : List (Option α)} {p : Pairing (Option α)} (h : Good l p) (ho : l.length % 2 = 0) :
    allPairs p = true := by
  have := h.shape
  have hne : ¬ l.length % 2 = 1 := by omega
  simpa [Shape, hne] using this

theorem last_in_f2 {f1 f2 : List (Option α)} (hnd : (f1 ++ f2).Nodup) {z : Option α}
    (hz : f2.getLast? = some z) : z ∈ f2 ∧ z ∉ f1 := by
  have hm : z ∈ f2 := List.mem_of_getLast? hz
  exact ⟨hm, fun h1 => (List.nodup_append.mp hnd).2.2 _ h1 _ hm rfl⟩

theorem combine_good0 (f1 f2 : List (Option α)) (hnd : (f1 ++ f2).Nodup) (hf2 : f2 ≠ [])
    (e1 : f1.length % 2 = 0) (e2 : f2.length % 2 = 0) (p1 p2 : Pairing (Option α))
    (h1 : Good f1 p1) (h2 : Good f2 p2) : Good (f1 ++ f2) (p1 ++ p2) := by
  refine ⟨?_, ?_, ?_⟩
  · rw [labelsOf_append]; exact h1.perm.append h2.perm
  · have : ¬ (f1.length + f2.length) % 2 = 1 := by omega
    simp [Shape, this, allPairs_append, shape_even h1 e1, shape_even h2 e2]
  · intro z hz y hy
    rw [getLast?_append_ne hf2] at hz
    obtain ⟨_, hz1⟩ := last_in_f2 hnd hz
    rcases List.mem_append.mp hy with h | h
    · exact notin_of_perm h1.perm hz1 h
    · exact h2.last z hz y h

theorem combine_good2 (f1 f2 : List (Option α)) (hnd : (f1 ++ f2).Nodup) (hf2 : f2 ≠ [])
    (e1 : f1.length % 2 = 1) (e2 : f2.length % 2 = 1) (p1 p2 : Pairing (Option α))
    (h1 : Good f1 p1) (h2 : Good f2 p2) : Good (f1 ++ f2) (combine 2 p1 p2) := by
  obtain ⟨q1, x, rfl, hq1⟩ := shape_odd h1 e1
  obtain ⟨q2, y, rfl, hq2⟩ := shape_odd h2 e2
  have hc : combine 2 (q1 ++ [Item.sg x]) (q2 ++ [Item.sg y]) = q1 ++ q2 ++ [Item.pr x y] := by
    simp [combine, lastLab_snoc]
  rw [hc]
  have hp1 := h1.perm; have hp2 := h2.perm
  simp only [labelsOf_append, labelsOf] at hp1 hp2
  refine ⟨?_, ?_, ?_⟩
  · simp only [labelsOf_append, labelsOf]
    refine List.Perm.trans ?_ (hp1.append hp2)
    simp only [List.append_assoc]
    refine List.Perm.append_left _ ?_
    -- labelsOf q2 ++ [x, y] ~ [x] ++ (labelsOf q2 ++ [y])
    simpa using (List.perm_middle (a := x) (l₁ := labelsOf q2) (l₂ := [y])).symm
  · have : ¬ (f1.length + f2.length) % 2 = 1 := by omega
    simp [Shape, this, allPairs_append, hq1, hq2, allPairs]
  · intro z hz w hw
    rw [getLast?_append_ne hf2] at hz
    obtain ⟨_, hz1⟩ := last_in_f2 hnd hz
    simp only [List.mem_append, List.mem_singleton] at hw
    rcases hw with (h | h) | h
    · exact notin_of_perm h1.perm hz1 (List.mem_append_left _ h)
    · exact h2.last z hz w (List.mem_append_left _ h)
    · have : z = x := by injection h
      subst this
      exact hz1 (h1.perm.subset (by simp [labelsOf_append, labelsOf]))

theorem combine_good3 (f1 f2 : List (Option α)) (hnd : (f1 ++ f2).Nodup) (hf2 : f2 ≠ [])
    (e1 : f1.length % 2 = 1) (e2 : f2.length % 2 = 0) (p1 p2 : Pairing (Option α))
    (h1 : Good f1 p1) (h2 : Good f2 p2) : Good (f1 ++ f2) (combine 3 p1 p2) := by
  obtain ⟨q1, x, rfl, hq1⟩ := shape_odd h1 e1
  have hq2 := shape_even h2 e2
  have hc : combine 3 (q1 ++ [Item.sg x]) p2 = q1 ++ p2 ++ [Item.sg x] := by
    simp [combine]
  rw [hc]
  have hp1 := h1.perm; have hp2 := h2.perm
  simp only [labelsOf_append, labelsOf] at hp1
  refine ⟨?_, ?_, ?_⟩
  · simp only [labelsOf_append, labelsOf]
    refine List.Perm.trans ?_ (hp1.append hp2)
    simp only [List.append_assoc]
    refine List.Perm.append_left _ ?_
    exact List.perm_append_comm
  · have : (f1.length + f2.length) % 2 = 1 := by omega
    simp only [Shape, List.length_append, this, decide_true, if_true]
    exact ⟨q1 ++ p2, x, rfl, by simp [allPairs_append, hq1, hq2]⟩
  · intro z hz w hw
    rw [getLast?_append_ne hf2] at hz
    obtain ⟨_, hz1⟩ := last_in_f2 hnd hz
    simp only [List.mem_append, List.mem_singleton] at hw
    rcases hw with (h | h) | h
    · exact notin_of_perm h1.perm hz1 (List.mem_append_left _ h)
    · exact h2.last z hz w h
    · cases h


theorem combine_good1 [DecidableEq α] (f1 f2 : List (Option α)) (hnd : (f1 ++ f2).Nodup) (hf2 : f2 ≠ [])
    (hnone : none ∉ f1)
    (e1 : f1.length % 2 = 0) (e2 : f2.length % 2 = 1) (p1 p2 : Pairing (Option α))
    (h1 : Good (f1 ++ [none]) p1) (h2 : Good f2 p2) : Good (f1 ++ f2) (combine 1 p1 p2) := by
  have e1' : (f1 ++ [none]).length % 2 = 1 := by simp; omega
  obtain ⟨q1, x1, rfl, hq1⟩ := shape_odd h1 e1'
  obtain ⟨q2, y, rfl, hq2⟩ := shape_odd h2 e2
  have hp1 := h1.perm; have hp2 := h2.perm
  simp only [labelsOf_append, labelsOf] at hp1 hp2
  have hodd : (f1.length + f2.length) % 2 = 1 := by omega
  have hf1nd : (f1 ++ [none]).Nodup := by
    refine List.nodup_append.mpr ⟨(List.nodup_append.mp hnd).1, by simp, ?_⟩
    intro a ha b hb; simp at hb; subst hb; exact fun e => hnone (e ▸ ha)
  have hlastnone : (f1 ++ [none]).getLast? = some (none : Option α) := by simp
  cases x1 with
  | none =>
    have hc : combine 1 (q1 ++ [Item.sg none]) (q2 ++ [Item.sg y]) = q1 ++ q2 ++ [Item.sg y] := by
      simp [combine, lastLab_snoc]
    rw [hc]
    have hq1p : (labelsOf q1).Perm f1 := (List.perm_append_right_iff _).mp hp1
    refine ⟨?_, ?_, ?_⟩
    · simp only [labelsOf_append, labelsOf, List.append_assoc]
      exact hq1p.append (by simpa using hp2)
    · simp only [Shape, List.length_append, hodd, decide_true, if_true]
      exact ⟨q1 ++ q2, y, rfl, by simp [allPairs_append, hq1, hq2]⟩
    · intro z hz w hw
      rw [getLast?_append_ne hf2] at hz
      obtain ⟨_, hz1⟩ := last_in_f2 hnd hz
      simp only [List.mem_append, List.mem_singleton] at hw
      rcases hw with (h | h) | h
      · exact notin_of_perm hq1p hz1 h
      · exact h2.last z hz w (List.mem_append_left _ h)
      · cases h
  | some x =>
    have hq1nd : (labelsOf q1).Nodup := by
      have : (labelsOf q1 ++ [some x]).Nodup := hp1.nodup_iff.mpr hf1nd
      exact (List.nodup_append.mp this).1
    have hmem : none ∈ labelsOf q1 := by
      have : none ∈ labelsOf q1 ++ [some x] := hp1.symm.subset (by simp)
      simpa using this
    have hfirst : ∀ w, Item.pr none w ∉ q1 := fun w hw =>
      h1.last none hlastnone w (List.mem_append_left _ hw)
    obtain ⟨z, hz1, hz2, hz3⟩ := zeroIndices_spec q1 hq1 hq1nd hmem hfirst
    have hc : combine 1 (q1 ++ [Item.sg (some x)]) (q2 ++ [Item.sg y]) =
        dropNonePairs q1 ++ q2 ++ [Item.pr (some x) y] ++ [Item.sg z] := by
      simp [combine, lastLab_snoc, hz1]
    rw [hc]
    -- z :: D ++ [some x] ~ f1
    have hf1 : (z :: (labelsOf (dropNonePairs q1) ++ [some x])).Perm f1 := by
      have a1 : (labelsOf q1 ++ [some x]).Perm (z :: none :: labelsOf (dropNonePairs q1) ++ [some x]) :=
        hz2.append_right _
      have a2 : (z :: none :: labelsOf (dropNonePairs q1) ++ [some x]).Perm (f1 ++ [none]) :=
        a1.symm.trans hp1
      have a3 : (none :: z :: (labelsOf (dropNonePairs q1) ++ [some x])).Perm (none :: f1) := by
        refine (List.Perm.swap z none _).trans (a2.trans ?_)
        exact List.perm_append_comm
      exact a3.cons_inv
    refine ⟨?_, ?_, ?_⟩
    · simp only [labelsOf_append, labelsOf, List.append_assoc]
      refine List.Perm.trans ?_ (hf1.append hp2)
      -- D ++ (Q2 ++ ([some x, y] ++ [z])) ~ (z :: (D ++ [some x])) ++ (Q2 ++ [y])
      rw [List.perm_iff_count]
      intro a
      simp only [List.count_append, List.count_cons, List.count_nil, List.cons_append, List.nil_append]
      omega
    · simp only [Shape, List.length_append, hodd, decide_true, if_true]
      exact ⟨dropNonePairs q1 ++ q2 ++ [Item.pr (some x) y], z, rfl,
        by simp [allPairs_append, hz3, hq2, allPairs]⟩
    · intro w hw v hv
      rw [getLast?_append_ne hf2] at hw
      obtain ⟨hw2, hw1⟩ := last_in_f2 hnd hw
      -- `w` is not a first component inside `q1`
      have hq1w : ∀ v, Item.pr w v ∉ q1 := by
        intro v hv
        have : w ∈ f1 ++ [none] := hp1.subset (List.mem_append_left _ (mem_labelsOf_of_pr hv).1)
        rcases List.mem_append.mp this with h | h
        · exact hw1 h
        · simp at h; subst h; exact hfirst v hv
      simp only [List.mem_append, List.mem_singleton] at hv
      rcases hv with ((h | h) | h) | h
      · exact hq1w v (dropNonePairs_sub q1 _ h)
      · exact h2.last w hw v (List.mem_append_left _ h)
      · have : w = some x := by injection h
        subst this
        have : some x ∈ f1 ++ [none] := hp1.subset (by simp)
        rcases List.mem_append.mp this with h | h
        · exact hw1 h
        · simp at h
      · cases h


/-! ### the yields of the `pair_between` part -/

theorem mem_zipWith_pr {f r : List (Option α)} {a b : Option α}
    (h : Item.pr a b ∈ List.zipWith Item.pr f r) : a ∈ f := by
  induction f generalizing r with
  | nil => simp at h
  | cons x f ih =>
    cases r with
    | nil => simp at h
    | cons y r =>
      simp only [List.zipWith_cons_cons, List.mem_cons] at h
      rcases h with h | h
      · injection h with h1 _; simp [h1]
      · exact List.mem_cons_of_mem _ (ih h)

theorem pairBetweenAt_good (f1 f2 : List (Option α)) (hnd : (f1 ++ f2).Nodup) (hf2 : f2 ≠ [])
    (h1 : f1.length ≤ f2.length) (h2 : f2.length ≤ f1.length + 1) (io : Nat) :
    Good (f1 ++ f2) (pairBetweenAt f1 f2 io) := by
  refine ⟨(pairBetweenAt_matching f1 f2 io).2.1, ?_, ?_⟩
  · rw [pairBetweenAt_eq_rotL _ _ _ h1, rotL]
    by_cases e : f2.length = f1.length
    · have hd : (f2.rotate io).drop f1.length = [] := by
        apply List.drop_eq_nil_of_le; simp [e]
      have : ¬ (f1.length + f2.length) % 2 = 1 := by omega
      simp [Shape, hd, this, allPairs_zipWith]
    · have hl : ((f2.rotate io).drop f1.length).length = 1 := by simp; omega
      obtain ⟨x, hx⟩ := List.length_eq_one_iff.mp hl
      have : (f1.length + f2.length) % 2 = 1 := by omega
      simp only [Shape, List.length_append, this, decide_true, if_true, hx, List.map_cons, List.map_nil]
      exact ⟨_, x, rfl, allPairs_zipWith _ _⟩
  · intro z hz y hy
    rw [getLast?_append_ne hf2] at hz
    obtain ⟨_, hz1⟩ := last_in_f2 hnd hz
    rw [pairBetweenAt_eq_rotL _ _ _ h1, rotL] at hy
    rcases List.mem_append.mp hy with h | h
    · exact hz1 (mem_zipWith_pr h)
    · obtain ⟨x, _, hx⟩ := List.mem_map.mp h
      cases hx

theorem mem_zipWith_exists {β γ δ : Type} {f : β → γ → δ} {l1 : List β} {l2 : List γ} {c : δ}
    (h : c ∈ List.zipWith f l1 l2) : ∃ a b, a ∈ l1 ∧ b ∈ l2 ∧ c = f a b := by
  induction l1 generalizing l2 with
  | nil => simp at h
  | cons x l1 ih =>
    cases l2 with
    | nil => simp at h
    | cons y l2 =>
      simp only [List.zipWith_cons_cons, List.mem_cons] at h
      rcases h with h | h
      · exact ⟨x, y, by simp, by simp, h⟩
      · obtain ⟨a, b, ha, hb, e⟩ := ih h
        exact ⟨a, b, List.mem_cons_of_mem _ ha, List.mem_cons_of_mem _ hb, e⟩

theorem rounds_eq (n : Nat) : rounds n = n - 1 + n % 2 := rfl

/-- invariant of `pair_within`: number of yields and shape of every yield, for every list length -/
theorem pairWithinAux_inv [DecidableEq α] : ∀ (fuel : Nat) (l : List (Option α)), l.length ≤ fuel →
    l.Nodup → none ∉ l.dropLast →
    (pairWithinAux fuel l).length = rounds l.length ∧ ∀ p ∈ pairWithinAux fuel l, Good l p := by
  intro fuel
  induction fuel with
  | zero =>
    intro l hl _ _
    have : l = [] := List.length_eq_zero_iff.mp (by omega)
    subst this; simp [pairWithinAux, rounds]
  | succ fuel ih =>
    intro l hl hnd hnone
    match l, hl, hnd, hnone with
    | [], _, _, _ => simp [pairWithinAux, rounds]
    | [a], _, _, _ =>
      refine ⟨by simp [pairWithinAux, rounds], ?_⟩
      intro p hp
      simp only [pairWithinAux, List.mem_singleton] at hp
      subst hp
      exact ⟨by simp [labelsOf], by simp only [Shape, List.length_singleton, decide_true, if_true]; exact ⟨[], a, rfl, rfl⟩, by simp⟩
    | a :: b :: t, hl, hnd, hnone =>
      generalize hL : a :: b :: t = l at *
      have hn2 : 2 ≤ l.length := by rw [← hL]; simp
      obtain ⟨n, hn⟩ : ∃ n, n = l.length := ⟨_, rfl⟩
      obtain ⟨f1, hf1⟩ : ∃ f1, f1 = l.take (n / 2) := ⟨_, rfl⟩
      obtain ⟨f2, hf2⟩ : ∃ f2, f2 = l.drop (n / 2) := ⟨_, rfl⟩
      rw [← hn] at hn2 hl
      have hsplit : l = f1 ++ f2 := by rw [hf1, hf2]; exact (List.take_append_drop (n / 2) l).symm
      have hlen1 : f1.length = n / 2 := by rw [hf1, List.length_take]; omega
      have hlen2 : f2.length = n - n / 2 := by rw [hf2, List.length_drop, hn]
      have hf2ne : f2 ≠ [] := by
        intro e; rw [e] at hlen2; simp at hlen2; omega
      have hnd' : (f1 ++ f2).Nodup := hsplit ▸ hnd
      have hnone' : none ∉ f1 ∧ none ∉ f2.dropLast := by
        have : none ∉ (f1 ++ f2).dropLast := hsplit ▸ hnone
        rw [List.dropLast_append_of_ne_nil hf2ne] at this
        exact ⟨fun h => this (List.mem_append_left _ h), fun h => this (List.mem_append_right _ h)⟩
      have hf1nd : f1.Nodup := (List.nodup_append.mp hnd').1
      have hf2nd : f2.Nodup := (List.nodup_append.mp hnd').2.1
      have hunf : pairWithinAux (fuel + 1) l =
          pairBetween f1 f2 (f2.length % 2) ++
            List.zipWith (combine (n % 4))
              (pairWithinAux fuel (if n % 4 = 1 then f1 ++ [none] else f1)) (pairWithinAux fuel f2) := by
        rw [← hL]; simp only [pairWithinAux]; rw [hL, ← hn, ← hf1, ← hf2]
      have ih2 := ih f2 (by omega) hf2nd hnone'.2
      have hpb : ∀ p ∈ pairBetween f1 f2 (f2.length % 2), Good l p := by
        intro p hp
        simp only [pairBetween, List.mem_map] at hp
        obtain ⟨io, _, rfl⟩ := hp
        rw [hsplit]
        exact pairBetweenAt_good f1 f2 hnd' hf2ne (by omega) (by omega) io
      have hpblen : (pairBetween f1 f2 (f2.length % 2)).length = f2.length - f2.length % 2 := by
        simp [pairBetween]; omega
      rw [hunf]
      by_cases hr1 : n % 4 = 1
      · -- length 4q+1: the first fragment is padded with None
        have hf1'nd : (f1 ++ [none]).Nodup := by
          refine List.nodup_append.mpr ⟨hf1nd, by simp, ?_⟩
          intro a ha b hb; simp at hb; subst hb; exact fun e => hnone'.1 (e ▸ ha)
        have ih1 := ih (f1 ++ [none]) (by simp; omega) hf1'nd (by simpa using hnone'.1)
        simp only [hr1, if_true] at ih1 ⊢
        refine ⟨?_, ?_⟩
        · rw [List.length_append, hpblen, List.length_zipWith, ih1.1, ih2.1]
          simp [rounds, hlen1, hlen2]; omega
        · intro p hp
          rcases List.mem_append.mp hp with h | h
          · exact hpb p h
          · obtain ⟨p1, p2, hp1, hp2, rfl⟩ := mem_zipWith_exists h
            rw [hsplit]
            exact combine_good1 f1 f2 hnd' hf2ne hnone'.1 (by omega) (by omega) p1 p2
              (ih1.2 p1 hp1) (ih2.2 p2 hp2)
      · have ih1 := ih f1 (by omega) hf1nd (fun h => hnone'.1 (List.dropLast_subset _ h))
        simp only [hr1, if_false] at ih1 ⊢
        refine ⟨?_, ?_⟩
        · rw [List.length_append, hpblen, List.length_zipWith, ih1.1, ih2.1]
          simp [rounds, hlen1, hlen2]; omega
        · intro p hp
          rcases List.mem_append.mp hp with h | h
          · exact hpb p h
          · obtain ⟨p1, p2, hp1, hp2, rfl⟩ := mem_zipWith_exists h
            rw [hsplit]
            have hcases : n % 4 = 0 ∨ n % 4 = 2 ∨ n % 4 = 3 := by omega
            rcases hcases with e | e | e
            · rw [e]
              have : combine 0 p1 p2 = p1 ++ p2 := by simp [combine]
              rw [this]
              exact combine_good0 f1 f2 hnd' hf2ne (by omega) (by omega) p1 p2 (ih1.2 p1 hp1) (ih2.2 p2 hp2)
            · rw [e]
              exact combine_good2 f1 f2 hnd' hf2ne (by omega) (by omega) p1 p2 (ih1.2 p1 hp1) (ih2.2 p2 hp2)
            · rw [e]
              exact combine_good3 f1 f2 hnd' hf2ne (by omega) (by omega) p1 p2 (ih1.2 p1 hp1) (ih2.2 p2 hp2)

end
end OFV.Proofs.C18
