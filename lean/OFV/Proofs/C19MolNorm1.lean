/-
C19 — `get_one_norm_int_woconst` for Coulomb-type two-body integrals (`g_pqrs = 0` unless `s = p`, `r = q`), in
normal form.
-/
import OFV.Proofs.C19LambdaMath
import OFV.Proofs.C19MolId

namespace OFV
namespace C19Jw
open Model.C19
open Spec.C19 (m2 m4)

/-- the common normal form of both norms; `J p q = g_pqqp` -/
def coulombNF (n : Nat) (h : List (List Rat)) (g : List (List (List (List Rat)))) : Rat :=
  ∑ p ∈ Finset.range n, ∑ q ∈ Finset.range n, (if p = q then 0 else rabs (m2 h p q))
  + ∑ p ∈ Finset.range n, rabs (m2 h p p + ∑ q ∈ Finset.range n, m4 g p q q p - (1 / 2) * m4 g p p p p)
  + ((1 / 2) * ∑ p ∈ Finset.range n, ∑ q ∈ Finset.range n, rabs (m4 g p q q p)
      - (1 / 4) * ∑ p ∈ Finset.range n, rabs (m4 g p p p p))

theorem rabs0 : rabs 0 = 0 := by simp [rabs]

theorem rabs_sub_comm (a b : Rat) : rabs (a - b) = rabs (b - a) := by
  rw [show a - b = -(b - a) by ring, rabs_neg]

variable (n : Nat) (h : List (List Rat)) (g : List (List (List (List Rat))))
variable (hsupp : ∀ p q r s, ¬ (s = p ∧ r = q) → m4 g p q r s = 0)
include hsupp

theorem htilde_coulomb (p q : Nat) (hp : p < n) :
    htildepq h g n p q
      = m2 h p q + (if p = q then ∑ r ∈ Finset.range n, m4 g p r r p - (1 / 2) * m4 g p p p p else 0) := by
  unfold htildepq
  rw [C19P.sumRange_eq]
  congr 1
  by_cases e : p = q
  · subst e
    rw [if_pos rfl, Finset.sum_sub_distrib]
    congr 1
    have : ∀ r ∈ Finset.range n, (1 / 2 : Rat) * t4 g p r p r = if p = r then (1 / 2) * m4 g p r p r else 0 := by
      intro r _
      by_cases e : p = r
      · rw [if_pos e]; rfl
      · rw [if_neg e]
        have : t4 g p r p r = 0 := hsupp p r p r (fun hc => e hc.1.symm)
        rw [this, mul_zero]
    rw [Finset.sum_congr rfl this, rdelta n p hp (fun r => (1 / 2) * m4 g p r p r)]
  · rw [if_neg e]
    apply Finset.sum_eq_zero
    intro r _
    have h1 : t4 g p r r q = 0 := hsupp p r r q (fun hc => e hc.1.symm)
    have h2 : t4 g p r q r = 0 := hsupp p r q r (fun hc => e (by rw [← hc.1, hc.2]))
    rw [h1, h2]; ring

/-- `Σ_rs |g_pqrs| = |g_pqqp|` -/
theorem abs_sum_coulomb (p q : Nat) (hp : p < n) (hq : q < n) :
    ∑ r ∈ Finset.range n, ∑ s ∈ Finset.range n, rabs (t4 g p q r s) = rabs (m4 g p q q p) := by
  have : ∀ r ∈ Finset.range n, ∑ s ∈ Finset.range n, rabs (t4 g p q r s)
      = if q = r then rabs (m4 g p q r p) else 0 := by
    intro r _
    have inner : ∀ s ∈ Finset.range n, rabs (t4 g p q r s)
        = if p = s then (if q = r then rabs (m4 g p q r s) else 0) else 0 := by
      intro s _
      by_cases e1 : p = s
      · by_cases e2 : q = r
        · rw [if_pos e1, if_pos e2]; rfl
        · rw [if_pos e1, if_neg e2]
          have : t4 g p q r s = 0 := hsupp p q r s (fun hc => e2 hc.2.symm)
          rw [this, rabs0]
      · rw [if_neg e1]
        have : t4 g p q r s = 0 := hsupp p q r s (fun hc => e1 hc.1.symm)
        rw [this, rabs0]
    rw [Finset.sum_congr rfl inner, rdelta n p hp (fun s => if q = r then rabs (m4 g p q r s) else 0)]
  rw [Finset.sum_congr rfl this, rdelta n q hq (fun r => rabs (m4 g p q r p))]

/-- `Σ_rs |g_pqrs − g_pqsr| = 2 |g_pqqp|` for `p ≠ q`, and `0` for `p = q` -/
theorem anti_sum_coulomb (p q : Nat) (hp : p < n) (hq : q < n) :
    ∑ r ∈ Finset.range n, ∑ s ∈ Finset.range n, rabs (t4 g p q r s - t4 g p q s r)
      = if p = q then 0 else 2 * rabs (m4 g p q q p) := by
  by_cases e : p = q
  · subst e
    rw [if_pos rfl]
    apply Finset.sum_eq_zero
    intro r _
    apply Finset.sum_eq_zero
    intro s _
    by_cases hrs : r = s
    · subst hrs; simp [rabs0]
    · have h1 : t4 g p p r s = 0 := hsupp p p r s (fun hc => hrs (by rw [hc.2, hc.1]))
      have h2 : t4 g p p s r = 0 := hsupp p p s r (fun hc => hrs (by rw [hc.2, hc.1]))
      rw [h1, h2]; simp [rabs0]
  · rw [if_neg e]
    have hterm : ∀ r s, rabs (t4 g p q r s - t4 g p q s r)
        = (if q = r then (if p = s then rabs (m4 g p q r s) else 0) else 0)
          + (if p = r then (if q = s then rabs (m4 g p q s r) else 0) else 0) := by
      intro r s
      by_cases c1 : s = p ∧ r = q
      · obtain ⟨rfl, rfl⟩ := c1
        have h2 : t4 g s r s r = 0 := hsupp s r s r (fun hc => e hc.1.symm)
        have : ¬ s = r := e
        rw [h2, sub_zero, if_pos rfl, if_pos rfl, if_neg this, add_zero]; rfl
      · have h1 : t4 g p q r s = 0 := hsupp p q r s c1
        have z1 : (if q = r then (if p = s then rabs (m4 g p q r s) else 0) else 0) = 0 := by
          by_cases a : q = r
          · rw [if_pos a, if_neg (fun b => c1 ⟨b.symm, a.symm⟩)]
          · rw [if_neg a]
        rw [h1, zero_sub, rabs_neg, z1, zero_add]
        by_cases c2 : r = p ∧ s = q
        · obtain ⟨rfl, rfl⟩ := c2
          rw [if_pos rfl, if_pos rfl]; rfl
        · have h2 : t4 g p q s r = 0 := hsupp p q s r c2
          rw [h2, rabs0]
          by_cases a : p = r
          · rw [if_pos a, if_neg (fun b => c2 ⟨a.symm, b.symm⟩)]
          · rw [if_neg a]
    rw [Finset.sum_congr rfl (fun r _ => Finset.sum_congr rfl (fun s _ => hterm r s))]
    simp only [Finset.sum_add_distrib]
    have s1 : ∑ r ∈ Finset.range n, ∑ s ∈ Finset.range n,
          (if q = r then (if p = s then rabs (m4 g p q r s) else 0) else 0) = rabs (m4 g p q q p) := by
      have : ∀ r ∈ Finset.range n, ∑ s ∈ Finset.range n,
            (if q = r then (if p = s then rabs (m4 g p q r s) else 0) else 0)
          = if q = r then rabs (m4 g p q r p) else 0 := by
        intro r _
        by_cases a : q = r
        · simp only [if_pos a]
          exact rdelta n p hp (fun s => rabs (m4 g p q r s))
        · simp [if_neg a]
      rw [Finset.sum_congr rfl this, rdelta n q hq (fun r => rabs (m4 g p q r p))]
    have s2 : ∑ r ∈ Finset.range n, ∑ s ∈ Finset.range n,
          (if p = r then (if q = s then rabs (m4 g p q s r) else 0) else 0) = rabs (m4 g p q q p) := by
      have : ∀ r ∈ Finset.range n, ∑ s ∈ Finset.range n,
            (if p = r then (if q = s then rabs (m4 g p q s r) else 0) else 0)
          = if p = r then rabs (m4 g p q q r) else 0 := by
        intro r _
        by_cases a : p = r
        · simp only [if_pos a]
          exact rdelta n q hq (fun s => rabs (m4 g p q s r))
        · simp [if_neg a]
      rw [Finset.sum_congr rfl this, rdelta n p hp (fun r => rabs (m4 g p q q r))]
    rw [s1, s2]; ring

/-- **`get_one_norm_int_woconst` for Coulomb-type integrals, in normal form** -/
theorem oneNormWoConst_coulomb (hn : h.length = n) : oneNormWoConst h g = coulombNF n h g := by
  unfold oneNormWoConst coulombNF
  simp only [hn, C19P.sumRange_eq]
  -- the h-tilde part
  have e1 : ∑ p ∈ Finset.range n, ∑ q ∈ Finset.range n, rabs (htildepq h g n p q)
      = ∑ p ∈ Finset.range n, ∑ q ∈ Finset.range n, (if p = q then 0 else rabs (m2 h p q))
        + ∑ p ∈ Finset.range n, rabs (m2 h p p + ∑ q ∈ Finset.range n, m4 g p q q p - (1 / 2) * m4 g p p p p) := by
    rw [← Finset.sum_add_distrib]
    apply Finset.sum_congr rfl
    intro p hp
    have hpn := Finset.mem_range.1 hp
    have : ∀ q ∈ Finset.range n, rabs (htildepq h g n p q)
        = (if p = q then 0 else rabs (m2 h p q))
          + (if p = q then rabs (m2 h p q + (∑ r ∈ Finset.range n, m4 g p r r p - (1 / 2) * m4 g p p p p)) else 0) := by
      intro q _
      rw [htilde_coulomb n h g hsupp p q hpn]
      by_cases e : p = q
      · simp [e]
      · simp [e]
    rw [Finset.sum_congr rfl this, Finset.sum_add_distrib,
      rdelta n p hpn (fun q => rabs (m2 h p q + (∑ r ∈ Finset.range n, m4 g p r r p - (1 / 2) * m4 g p p p p)))]
    congr 2
    ring
  have e2 : ∑ p ∈ Finset.range n, ∑ q ∈ Finset.range n, ∑ r ∈ Finset.range n, ∑ s ∈ Finset.range n,
        rabs (t4 g p q r s - t4 g p q s r)
      = 2 * ∑ p ∈ Finset.range n, ∑ q ∈ Finset.range n, rabs (m4 g p q q p)
        - 2 * ∑ p ∈ Finset.range n, rabs (m4 g p p p p) := by
    have : ∀ p ∈ Finset.range n, ∑ q ∈ Finset.range n, ∑ r ∈ Finset.range n, ∑ s ∈ Finset.range n,
          rabs (t4 g p q r s - t4 g p q s r)
        = 2 * ∑ q ∈ Finset.range n, rabs (m4 g p q q p) - 2 * rabs (m4 g p p p p) := by
      intro p hp
      have hpn := Finset.mem_range.1 hp
      have inner : ∀ q ∈ Finset.range n, ∑ r ∈ Finset.range n, ∑ s ∈ Finset.range n,
            rabs (t4 g p q r s - t4 g p q s r)
          = 2 * rabs (m4 g p q q p) - (if p = q then 2 * rabs (m4 g p q q p) else 0) := by
        intro q hq
        rw [anti_sum_coulomb n g hsupp p q hpn (Finset.mem_range.1 hq)]
        by_cases e : p = q <;> simp [e]
      rw [Finset.sum_congr rfl inner, Finset.sum_sub_distrib, rdelta n p hpn (fun q => 2 * rabs (m4 g p q q p)),
        Finset.mul_sum]
    rw [Finset.sum_congr rfl this, Finset.sum_sub_distrib, Finset.mul_sum, Finset.mul_sum]
  have e3 : ∑ p ∈ Finset.range n, ∑ q ∈ Finset.range n, ∑ r ∈ Finset.range n, ∑ s ∈ Finset.range n,
        rabs (t4 g p q r s)
      = ∑ p ∈ Finset.range n, ∑ q ∈ Finset.range n, rabs (m4 g p q q p) := by
    apply Finset.sum_congr rfl
    intro p hp
    apply Finset.sum_congr rfl
    intro q hq
    exact abs_sum_coulomb n g hsupp p q (Finset.mem_range.1 hp) (Finset.mem_range.1 hq)
  rw [e1, e2, e3]
  ring

end C19Jw
end OFV
