/- C09: decoders as Boolean functions; double_decoding / shift_decoder; linear decoders. -/
import OFV.Proofs.C09WF

namespace OFV.C09
open OFV.Model.C09 OFV.Spec.C09

/-- the function a decoder denotes: component `k` under the qubit assignment `w`
(components beyond the length, and the `int` 0 component, denote 0) -/
def decFn (d : List DEntry) (w : Nat → Bool) (k : Nat) : Bool :=
  evalPoly w ((d.getD k .int0).toPoly)

theorem decFn_cons_zero (e : DEntry) (d : List DEntry) (w : Nat → Bool) :
    decFn (e :: d) w 0 = evalPoly w e.toPoly := by simp [decFn]

theorem decFn_cons_succ (e : DEntry) (d : List DEntry) (w : Nat → Bool) (k : Nat) :
    decFn (e :: d) w (k + 1) = decFn d w k := by simp [decFn]

theorem decFn_nil (w : Nat → Bool) (k : Nat) : decFn [] w k = false := by simp [decFn, DEntry.toPoly, evalPoly_nil]

/-! ### double_decoding -/

theorem eval_ddTerm_go (d2 : List DEntry) (w : Nat → Bool) (l : List Nat) (acc t : Poly)
    (h : l.foldlM (fun (tmp : Poly) f =>
      match (d2[f]? : Option DEntry) with
      | none => Except.error Err.indexError
      | some (DEntry.poly q) => Except.ok (imul tmp q)
      | some DEntry.int0 => Except.ok (imulInt tmp 0)) acc = .ok t) :
    evalPoly w t = (evalPoly w acc && l.all (decFn d2 w)) := by
  induction l generalizing acc with
  | nil =>
    simp only [List.foldlM_nil, pure, Except.pure] at h
    cases h; simp
  | cons f r ih =>
    rw [List.foldlM_cons] at h
    cases hf : (d2[f]? : Option DEntry) with
    | none => simp [hf, bind, Except.bind] at h
    | some e =>
      have hget : d2.getD f .int0 = e := by simp [List.getD_eq_getElem?_getD, hf]
      cases e with
      | poly q =>
        simp only [hf, bind, Except.bind] at h
        rw [ih _ h, eval_imul]
        simp [decFn, hf, DEntry.toPoly, Bool.and_assoc]
      | int0 =>
        simp only [hf, bind, Except.bind] at h
        rw [ih _ h]
        have h1 : imulInt acc 0 = [] := by simp [imulInt]
        have h2 : decFn d2 w f = false := by simp [decFn, hf, DEntry.toPoly, evalPoly_nil]
        rw [h1, List.all_cons, h2]
        simp [evalPoly_nil]

theorem eval_ddTerm (d2 : List DEntry) (w : Nat → Bool) (s : Mono) (t : Poly) (h : ddTerm d2 s = .ok t) :
    evalPoly w t = evalMono (decFn d2 w) s := by
  unfold ddTerm at h
  rw [eval_ddTerm_go d2 w _ _ _ h, evalMono_idx]
  simp [evalPoly_cons, evalPoly_nil]

theorem eval_ddEntry_go (d2 : List DEntry) (w : Nat → Bool) (p : Poly) (acc r : DEntry)
    (h : p.foldlM (fun (acc : DEntry) summand => do
        let t ← ddTerm d2 summand
        pure (DEntry.poly (iadd t acc.toPoly))) acc = .ok r) :
    evalPoly w r.toPoly = xor (evalPoly w acc.toPoly) (evalPoly (decFn d2 w) p) := by
  induction p generalizing acc with
  | nil =>
    simp only [List.foldlM_nil, pure, Except.pure] at h
    cases h; simp [evalPoly_nil]
  | cons s rest ih =>
    rw [List.foldlM_cons] at h
    cases ht : ddTerm d2 s with
    | error e => simp [ht, bind, Except.bind] at h
    | ok t =>
      simp only [ht, bind, Except.bind, pure, Except.pure] at h
      rw [ih _ h, evalPoly_cons]
      have hp : (DEntry.poly (iadd t acc.toPoly)).toPoly = iadd t acc.toPoly := rfl
      rw [hp, eval_iadd, eval_ddTerm d2 w s t ht]
      generalize evalPoly w acc.toPoly = a
      cases evalMono (decFn d2 w) s <;> cases a <;>
        cases evalPoly (decFn d2 w) rest <;> rfl

/-- `double_decoding(d1, d2)` denotes the composition `w ↦ d1(d2(w))`, component by component -/
theorem eval_doubleDecoding (d1 d2 dd : List DEntry) (w : Nat → Bool)
    (h : doubleDecoding d1 d2 = .ok dd) (i : Nat) :
    decFn dd w i = evalPoly (decFn d2 w) ((d1.getD i .int0).toPoly) := by
  unfold doubleDecoding at h
  induction d1 generalizing dd i with
  | nil =>
    simp only [List.mapM_nil, pure, Except.pure] at h
    cases h
    simp [decFn, DEntry.toPoly, evalPoly_nil]
  | cons e rest ih =>
    rw [List.mapM_cons] at h
    cases e with
    | int0 => simp [bind, Except.bind] at h
    | poly p =>
      simp only [bind, Except.bind] at h
      split at h
      · cases h
      · next r hr =>
        split at h
        · cases h
        · next rs hrs =>
          simp only [pure, Except.pure] at h
          cases h
          cases i with
          | zero =>
            rw [decFn_cons_zero]
            have := eval_ddEntry_go d2 w p (.poly []) r hr
            simpa [DEntry.toPoly, evalPoly_nil] using this
          | succ k =>
            rw [decFn_cons_succ, ih rs hrs k]
            simp

theorem length_doubleDecoding (d1 d2 dd : List DEntry) (h : doubleDecoding d1 d2 = .ok dd) :
    dd.length = d1.length := by
  unfold doubleDecoding at h
  induction d1 generalizing dd with
  | nil => simp only [List.mapM_nil, pure, Except.pure] at h; cases h; rfl
  | cons e rest ih =>
    rw [List.mapM_cons] at h
    simp only [bind, Except.bind] at h
    split at h
    · cases h
    · split at h
      · cases h
      · next rs hrs =>
        simp only [pure, Except.pure] at h
        cases h
        simp [ih rs hrs]

/-! ### shift_decoder -/

theorem eval_shiftDecoder (d sd : List DEntry) (c : Nat) (w : Nat → Bool)
    (h : shiftDecoder d c = .ok sd) (i : Nat) :
    decFn sd w i = decFn d (fun q => w (q + c)) i := by
  unfold shiftDecoder at h
  induction d generalizing sd i with
  | nil =>
    simp only [List.mapM_nil, pure, Except.pure] at h
    cases h; rfl
  | cons e rest ih =>
    rw [List.mapM_cons] at h
    cases e with
    | int0 => simp [bind, Except.bind] at h
    | poly p =>
      simp only [bind, Except.bind] at h
      split at h
      · cases h
      · next rs hrs =>
        simp only [pure, Except.pure] at h
        cases h
        cases i with
        | zero => simp [decFn_cons_zero, DEntry.toPoly, eval_shift']
        | succ k => rw [decFn_cons_succ, decFn_cons_succ, ih rs hrs k]

end OFV.C09
