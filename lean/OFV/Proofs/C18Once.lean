/- C18 — `pair_within` schedules every unordered pair of labels EXACTLY once: the yields are `n - 1 + n % 2` perfect
matchings with `⌊n/2⌋` pairs each, i.e. `n (n - 1) / 2` pair slots in total, and every pair occurs at least once. -/
import OFV.Proofs.C18Cover
import Mathlib.Algebra.BigOperators.Group.List.Basic
import Mathlib.Tactic.Ring
import Mathlib.Tactic.Linarith

namespace OFV.Proofs.C18Once
open OFV.Model.C18 OFV.Spec.C18 List

section
variable {β : Type} [DecidableEq β]

/-- number of pair items -/
def npairs : Pairing β → Nat
  | [] => 0
  | .pr _ _ :: r => npairs r + 1
  | _ :: r => npairs r

theorem labelsOf_length (p : Pairing β) : (labelsOf p).length = 2 * npairs p + singles p := by
  induction p with
  | nil => rfl
  | cons it r ih =>
    cases it <;> simp [labelsOf, npairs, singles, ih] <;> omega

theorem nsum_add_map {α : Type} (l : List α) (f g : α → Nat) :
    (l.map fun a => f a + g a).sum = (l.map f).sum + (l.map g).sum := by
  induction l with
  | nil => simp
  | cons a l ih => simp [ih]; omega

theorem nsum_swap {α γ : Type} (a : List α) (b : List γ) (f : α → γ → Nat) :
    (a.map fun x => (b.map fun y => f x y).sum).sum = (b.map fun y => (a.map fun x => f x y).sum).sum := by
  induction a with
  | nil => simp
  | cons x a ih => simp [ih, nsum_add_map]

theorem nsum_const_zero {α : Type} (l : List α) (f : α → Nat) (h : ∀ a ∈ l, f a = 0) : (l.map f).sum = 0 := by
  induction l with
  | nil => simp
  | cons a l ih =>
    simp only [map_cons, sum_cons, h a mem_cons_self, Nat.zero_add]
    exact ih (fun b hb => h b (mem_cons_of_mem _ hb))

theorem nsum_zero_mem (l : List Nat) (h : l.sum = 0) : ∀ x ∈ l, x = 0 := by
  induction l with
  | nil => intro x hx; simp at hx
  | cons y l ih =>
    simp only [sum_cons] at h
    intro x hx
    rcases mem_cons.1 hx with rfl | hx
    · omega
    · exact ih (by omega) x hx

theorem mem_le_nsum (l : List Nat) (x : Nat) (hx : x ∈ l) : x ≤ l.sum := by
  induction l with
  | nil => simp at hx
  | cons y l ih =>
    simp only [sum_cons]
    rcases mem_cons.1 hx with rfl | hx
    · omega
    · have := ih hx; omega

theorem nsum_const {α : Type} (l : List α) (c : Nat) : (l.map fun _ => c).sum = l.length * c := by
  induction l with
  | nil => simp
  | cons a l ih => simp only [map_cons, sum_cons, ih, length_cons]; ring

/-- `Σ_{a ∈ l} [x = a] f a = f x` for `x` in a duplicate-free list -/
theorem nsum_delta (l : List β) (hnd : l.Nodup) (x : β) (hx : x ∈ l) (f : β → Nat) :
    (l.map fun a => if x = a then f a else 0).sum = f x := by
  induction l with
  | nil => simp at hx
  | cons y l ih =>
    rw [nodup_cons] at hnd
    simp only [map_cons, sum_cons]
    rcases mem_cons.1 hx with rfl | h
    · rw [if_pos rfl, nsum_const_zero, Nat.add_zero]
      intro b hb
      rw [if_neg]
      intro e; subst e; exact hnd.1 hb
    · rw [if_neg (by intro e; subst e; exact hnd.1 h), Nat.zero_add]
      exact ih hnd.2 h

theorem nsum_delta_none (l : List β) (x : β) (hx : x ∉ l) (f : β → Nat) :
    (l.map fun a => if x = a then f a else 0).sum = 0 := by
  apply nsum_const_zero
  intro a ha
  rw [if_neg]
  intro e; subst e; exact hx ha

/-- ordered pair slots of a pairing whose labels lie in a duplicate-free list -/
theorem ordered_count (labels : List β) (hnd : labels.Nodup) (p : Pairing β) (hsub : ∀ x ∈ labelsOf p, x ∈ labels) :
    (labels.map fun a => (labels.map fun b => p.count (.pr a b)).sum).sum = npairs p := by
  induction p with
  | nil => simp [npairs]
  | cons it r ih =>
    have hr : ∀ x ∈ labelsOf r, x ∈ labels := by
      intro x hx
      apply hsub
      cases it <;> simp [labelsOf, hx]
    have hcount : ∀ a b, (it :: r).count (.pr a b) = (if it = .pr a b then 1 else 0) + r.count (.pr a b) := by
      intro a b
      rw [count_cons]
      by_cases e : it = .pr a b
      · simp [e]; omega
      · have : ¬ (it == Item.pr a b) = true := by simpa using e
        simp [e, this]
    simp only [hcount, nsum_add_map, ih hr]
    cases it with
    | pr x y =>
      have hx : x ∈ labels := hsub x (by simp [labelsOf])
      have hy : y ∈ labels := hsub y (by simp [labelsOf])
      have e1 : ∀ a, (labels.map fun b => if Item.pr x y = Item.pr a b then 1 else 0).sum = if x = a then 1 else 0 := by
        intro a
        by_cases ha : x = a
        · subst ha
          rw [if_pos rfl]
          have : (labels.map fun b => if Item.pr x y = Item.pr x b then 1 else 0)
              = labels.map fun b => if y = b then (fun _ => 1) b else 0 := by
            apply map_congr_left; intro b _; simp
          rw [this, nsum_delta labels hnd y hy (fun _ => 1)]
        · rw [if_neg ha]
          apply nsum_const_zero
          intro b _
          simp [ha]
      simp only [e1]
      rw [nsum_delta labels hnd x hx (fun _ => 1)]
      simp [npairs]; omega
    | sg x =>
      rw [nsum_const_zero _ _ (fun a _ => nsum_const_zero _ _ (fun b _ => by simp))]
      simp [npairs]
    | bad =>
      rw [nsum_const_zero _ _ (fun a _ => nsum_const_zero _ _ (fun b _ => by simp))]
      simp [npairs]

theorem ordered_count' (labels : List β) (hnd : labels.Nodup) (p : Pairing β) (hsub : ∀ x ∈ labelsOf p, x ∈ labels) :
    (labels.map fun a => (labels.map fun b => p.count (.pr b a)).sum).sum = npairs p := by
  rw [nsum_swap]
  exact ordered_count labels hnd p hsub

/-- a pairing without a repeated label has no item `(a, a)` -/
theorem count_diag (p : Pairing β) (hnd : (labelsOf p).Nodup) (a : β) : p.count (.pr a a) = 0 := by
  induction p with
  | nil => rfl
  | cons it r ih =>
    rw [count_cons]
    cases it with
    | pr x y =>
      simp only [labelsOf, nodup_cons, mem_cons, not_or] at hnd
      rw [ih hnd.2.2]
      have : ¬ (Item.pr x y == Item.pr a a) = true := by
        simp only [beq_iff_eq, Item.pr.injEq]
        rintro ⟨rfl, rfl⟩
        exact hnd.1.1 rfl
      simp [this]
    | sg x =>
      simp only [labelsOf, nodup_cons] at hnd
      rw [ih hnd.2]; simp
    | bad =>
      simp only [labelsOf] at hnd
      rw [ih hnd]; simp

/-- number of ordered pairs of different elements -/
theorem off_diag_count (labels : List β) (hnd : labels.Nodup) :
    (labels.map fun a => (labels.map fun b => if a = b then 0 else 1).sum).sum = labels.length * (labels.length - 1) := by
  have h1 : ∀ a ∈ labels, (labels.map fun b => if a = b then 0 else 1).sum = labels.length - 1 := by
    intro a ha
    have e : ∀ b, (if a = b then 0 else 1) + (if a = b then (fun _ => 1) b else 0) = 1 := by
      intro b; by_cases h : a = b <;> simp [h]
    have hs := nsum_add_map labels (fun b => if a = b then 0 else 1) (fun b => if a = b then (fun _ => 1) b else 0)
    rw [nsum_delta labels hnd a ha (fun _ => 1)] at hs
    have : (labels.map fun b => (if a = b then 0 else 1) + (if a = b then (fun _ => 1) b else 0)).sum = labels.length := by
      rw [show (labels.map fun b => (if a = b then 0 else 1) + (if a = b then (fun _ => 1) b else 0))
        = labels.map fun _ => 1 from map_congr_left (fun b _ => e b)]
      simp
    omega
  rw [show (labels.map fun a => (labels.map fun b => if a = b then 0 else 1).sum)
    = labels.map fun _ => labels.length - 1 from map_congr_left h1]
  simp

/-- pigeonhole: if every off-diagonal entry is at least 1 and the total is the number of off-diagonal positions, every
off-diagonal entry is exactly 1 -/
theorem all_one (labels : List β) (F : β → β → Nat)
    (hge : ∀ a ∈ labels, ∀ b ∈ labels, a ≠ b → 1 ≤ F a b)
    (htot : (labels.map fun a => (labels.map fun b => if a = b then 0 else F a b).sum).sum
      = (labels.map fun a => (labels.map fun b => if a = b then 0 else 1).sum).sum) :
    ∀ a ∈ labels, ∀ b ∈ labels, a ≠ b → F a b = 1 := by
  -- Σ (F - 1) = 0 over the off-diagonal positions
  have hsplit : ∀ a ∈ labels, ∀ b ∈ labels, (if a = b then 0 else F a b)
      = (if a = b then 0 else 1) + (if a = b then 0 else F a b - 1) := by
    intro a ha b hb
    by_cases e : a = b
    · simp [e]
    · have := hge a ha b hb e
      simp [e]; omega
  have h1 : (labels.map fun a => (labels.map fun b => if a = b then 0 else F a b).sum).sum
      = (labels.map fun a => (labels.map fun b => if a = b then 0 else 1).sum).sum
        + (labels.map fun a => (labels.map fun b => if a = b then 0 else F a b - 1).sum).sum := by
    rw [← nsum_add_map]
    apply congrArg
    apply map_congr_left
    intro a ha
    rw [← nsum_add_map]
    apply congrArg
    apply map_congr_left
    intro b hb
    exact hsplit a ha b hb
  have hz : (labels.map fun a => (labels.map fun b => if a = b then 0 else F a b - 1).sum).sum = 0 := by omega
  intro a ha b hb hab
  have h2 : (labels.map fun b => if a = b then 0 else F a b - 1).sum = 0 := by
    exact nsum_zero_mem _ hz _ (mem_map.2 ⟨a, ha, rfl⟩)
  have h3 : (if a = b then 0 else F a b - 1) = 0 := by
    exact nsum_zero_mem _ h2 _ (mem_map.2 ⟨b, hb, rfl⟩)
  rw [if_neg hab] at h3
  have := hge a ha b hb hab
  omega

end

/-- **`pair_within` schedules every pair exactly once** -/
theorem pairWithin_once (labels : List L) (hnd : labels.Nodup) (hnone : none ∉ labels)
    (hlen : (pairWithin labels).length = labels.length - 1 + labels.length % 2)
    (hmatch : ∀ p ∈ pairWithin labels, wellFormed p = true ∧ (labelsOf p).Perm labels ∧ singles p = labels.length % 2)
    (hcov : ∀ a ∈ labels, ∀ b ∈ labels, a ≠ b → ∃ p ∈ pairWithin labels, Item.pr a b ∈ p ∨ Item.pr b a ∈ p) :
    ∀ a ∈ labels, ∀ b ∈ labels, a ≠ b → pairCount (pairWithin labels) a b = 1 := by
  apply all_one labels (fun a b => pairCount (pairWithin labels) a b)
  · intro a ha b hb hab
    obtain ⟨p, hp, h⟩ := hcov a ha b hb hab
    show 1 ≤ pairCount (pairWithin labels) a b
    unfold pairCount
    have hle : p.count (.pr a b) + p.count (.pr b a) ≤ ((pairWithin labels).map fun p => p.count (.pr a b) + p.count (.pr b a)).sum :=
      mem_le_nsum _ _ (mem_map.2 ⟨p, hp, rfl⟩)
    have : 1 ≤ p.count (.pr a b) + p.count (.pr b a) := by
      rcases h with h | h
      · have := count_pos_iff.2 h; omega
      · have := count_pos_iff.2 h; omega
    exact le_trans this hle
  · -- total number of ordered pair slots
    rw [off_diag_count labels hnd]
    have hdiag : ∀ a ∈ labels, ∀ b ∈ labels, (if a = b then 0 else pairCount (pairWithin labels) a b)
        = pairCount (pairWithin labels) a b := by
      intro a _ b _
      by_cases e : a = b
      · subst e
        rw [if_pos rfl]
        unfold pairCount
        symm
        apply nsum_const_zero
        intro p hp
        have hp' := (hmatch p hp).2.1
        rw [count_diag p (hp'.nodup_iff.2 hnd) a]
      · rw [if_neg e]
    rw [show (labels.map fun a => (labels.map fun b => if a = b then 0 else pairCount (pairWithin labels) a b).sum)
      = labels.map fun a => (labels.map fun b => pairCount (pairWithin labels) a b).sum from
        map_congr_left (fun a ha => congrArg _ (map_congr_left (fun b hb => hdiag a ha b hb)))]
    unfold pairCount
    -- move the sum over the yields outside
    have hsw : (labels.map fun a => (labels.map fun b =>
          ((pairWithin labels).map fun p => p.count (.pr a b) + p.count (.pr b a)).sum).sum).sum
        = ((pairWithin labels).map fun p =>
            (labels.map fun a => (labels.map fun b => p.count (.pr a b)).sum).sum
            + (labels.map fun a => (labels.map fun b => p.count (.pr b a)).sum).sum).sum := by
      rw [show (labels.map fun a => (labels.map fun b =>
            ((pairWithin labels).map fun p => p.count (.pr a b) + p.count (.pr b a)).sum).sum)
          = labels.map fun a => ((pairWithin labels).map fun p =>
              (labels.map fun b => p.count (.pr a b) + p.count (.pr b a)).sum).sum from
          map_congr_left (fun a _ => nsum_swap labels (pairWithin labels) _)]
      rw [nsum_swap]
      apply congrArg
      apply map_congr_left
      intro p _
      rw [← nsum_add_map]
      apply congrArg
      apply map_congr_left
      intro a _
      rw [nsum_add_map]
    rw [hsw]
    have hp : ∀ p ∈ pairWithin labels,
        (labels.map fun a => (labels.map fun b => p.count (.pr a b)).sum).sum
          + (labels.map fun a => (labels.map fun b => p.count (.pr b a)).sum).sum = 2 * (labels.length / 2) := by
      intro p hp
      obtain ⟨_, hperm, hs⟩ := hmatch p hp
      have hsub : ∀ x ∈ labelsOf p, x ∈ labels := fun x hx => hperm.subset hx
      rw [ordered_count labels hnd p hsub, ordered_count' labels hnd p hsub]
      have hl := labelsOf_length p
      rw [hperm.length_eq, hs] at hl
      omega
    rw [show ((pairWithin labels).map fun p =>
            (labels.map fun a => (labels.map fun b => p.count (.pr a b)).sum).sum
            + (labels.map fun a => (labels.map fun b => p.count (.pr b a)).sum).sum)
        = (pairWithin labels).map fun _ => 2 * (labels.length / 2) from map_congr_left hp]
    rw [nsum_const, hlen]
    -- (n - 1 + n % 2) * (2 * (n / 2)) = n * (n - 1)
    rcases Nat.even_or_odd' labels.length with ⟨k, hk | hk⟩
    · rw [hk]
      cases k with
      | zero => simp
      | succ k =>
        have e1 : 2 * (k + 1) % 2 = 0 := by omega
        have e2 : 2 * (k + 1) / 2 = k + 1 := by omega
        rw [e1, e2]
        have : 2 * (k + 1) - 1 = 2 * k + 1 := by omega
        rw [this]; ring
    · rw [hk]
      have e1 : (2 * k + 1) % 2 = 1 := by omega
      have e2 : (2 * k + 1) / 2 = k := by omega
      rw [e1, e2]
      have : 2 * k + 1 - 1 = 2 * k := by omega
      rw [this]
      try ring

end OFV.Proofs.C18Once
