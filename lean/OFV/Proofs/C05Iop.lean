/-
`_bravyi_kitaev_interaction_operator`: the nested loops as a list of `+=` operands plus the pending strings.
-/
import OFV.Proofs.C05SrlAll

set_option linter.unusedSimpArgs false
set_option linter.unusedVariables false

namespace OFV
namespace BK
open Model Model.C05 Spec Sem

theorem foldl_flatMap' {α β γ : Type} (l : List α) (f : α → List β) (g : γ → β → γ) (init : γ) :
    (l.flatMap f).foldl g init = l.foldl (fun acc a => (f a).foldl g acc) init := by
  induction l generalizing init with
  | nil => rfl
  | cons a l ih => simp [List.flatMap_cons, List.foldl_append, ih]

theorem foldl_congr' {α γ : Type} (l : List α) (g h : γ → α → γ) (e : ∀ acc a, g acc a = h acc a) (init : γ) :
    l.foldl g init = l.foldl h init := by
  have : g = h := by funext acc a; exact e acc a
  rw [this]

/-! ### the first pass: Hamiltonian part, pending strings, constant -/

theorem srl_lengths (i j : Nat) (c : GQ) (n : Nat) : (srl i j c n).2.1.length = (srl i j c n).2.2.length := by
  unfold srl
  simp only
  generalize srlTag i j n = k
  match k with
  | 0 => simp [srlBody]
  | 1 => simp only [srlBody]; split <;> rfl
  | 2 => simp only [srlBody]; split <;> rfl
  | 3 => simp [srlBody]
  | 4 => simp only [srlBody]; split <;> rfl
  | 5 => simp [srlBody]
  | 6 => simp [srlBody]
  | 7 => simp only [srlBody]; split <;> rfl
  | 8 => simp [srlBody]
  | 9 => simp [srlBody]
  | 10 => simp [srlBody]
  | k + 11 => simp [srlBody]

theorem zip_map_fst {α β : Type} (a : List α) (b : List β) (h : a.length = b.length) :
    (a.zip b).map (·.1) = a := by
  induction a generalizing b with
  | nil => simp
  | cons x a ih =>
    cases b with
    | nil => simp at h
    | cons y b => simp at h; simp [ih b h]

theorem zip_map_snd {α β : Type} (a : List α) (b : List β) (h : a.length = b.length) :
    (a.zip b).map (·.2) = b := by
  induction a generalizing b with
  | nil => cases b with
    | nil => rfl
    | cons y b => simp at h
  | cons x a ih =>
    cases b with
    | nil => simp at h
    | cons y b => simp at h; simp [ih b h]

/-- constant contributed by the pair `(i, j)` -/
def constIJ (T2 : Nat → Nat → Nat → Nat → GQ) (i j : Nat) : GQ :=
  let coef := twoBodyCoef T2 i j j i * ⟨mkRat 1 4, 0⟩
  if coef != 0 then coef else 0

theorem iopInner_spec (nq : Nat) (T1 : Nat → Nat → GQ) (T2 : Nat → Nat → Nat → Nat → GQ) (i : Nat) (s : C05.St) (j : Nat) :
    iopInner nq T1 T2 i s j
      = ⟨s.ham, s.ops ++ (pendIJ nq T1 T2 i j).map (·.1), s.coefs ++ (pendIJ nq T1 T2 i j).map (·.2),
          s.const + constIJ T2 i j⟩ := by
  unfold iopInner pendIJ constIJ
  have l1 := srl_lengths i j (T1 i j) nq
  have l2 := srl_lengths j i (T1 i j).conj nq
  by_cases h1 : (T1 i j != 0) = true <;> by_cases h2 : (twoBodyCoef T2 i j j i * ⟨mkRat 1 4, 0⟩ != 0) = true <;>
    simp only [h1, h2, if_true, if_false, Bool.false_eq_true, List.map_append, List.append_nil, List.map_nil,
      zip_map_fst _ _ l1, zip_map_fst _ _ l2, zip_map_snd _ _ l1, zip_map_snd _ _ l2, List.map_cons, add_zero,
      List.append_assoc, List.nil_append]

theorem iopInner_fold (nq : Nat) (T1 : Nat → Nat → GQ) (T2 : Nat → Nat → Nat → Nat → GQ) (i : Nat) (L : List Nat)
    (s : C05.St) :
    L.foldl (iopInner nq T1 T2 i) s
      = ⟨s.ham, s.ops ++ (L.flatMap (pendIJ nq T1 T2 i)).map (·.1),
          s.coefs ++ (L.flatMap (pendIJ nq T1 T2 i)).map (·.2), s.const + (L.map (constIJ T2 i)).sum⟩ := by
  induction L generalizing s with
  | nil => simp
  | cons j L ih =>
    rw [List.foldl_cons, ih, iopInner_spec]
    simp only [List.flatMap_cons, List.map_append, List.append_assoc, List.map_cons, List.sum_cons, add_assoc]

theorem iopOuter_fold (tol : Rat) (nq : Nat) (T1 : Nat → Nat → GQ) (T2 : Nat → Nat → Nat → Nat → GQ) (L : List Nat)
    (s : C05.St) :
    L.foldl (iopOuter tol nq T1 T2) s
      = ⟨(L.flatMap fun i => if T1 i i != 0 then [srlOp tol i i (T1 i i) nq] else []).foldl
            (fun acc img => iadd tol acc img) s.ham,
          s.ops ++ (L.flatMap fun i => (List.range i).flatMap (pendIJ nq T1 T2 i)).map (·.1),
          s.coefs ++ (L.flatMap fun i => (List.range i).flatMap (pendIJ nq T1 T2 i)).map (·.2),
          s.const + (L.map fun i => ((List.range i).map (constIJ T2 i)).sum).sum⟩ := by
  induction L generalizing s with
  | nil => simp
  | cons i L ih =>
    rw [List.foldl_cons, ih]
    unfold iopOuter
    rw [iopInner_fold]
    by_cases h : (T1 i i != 0) = true <;>
      simp only [h, if_true, if_false, Bool.false_eq_true, List.flatMap_cons, List.foldl_append, List.foldl_cons,
        List.foldl_nil, List.map_append, List.append_assoc, List.map_cons, List.sum_cons, add_assoc, List.nil_append]

/-! ### cases C and D as folds over operand lists -/

theorem iopStepC_eq (tol : Rat) (nq : Nat) (T2 : Nat → Nat → Nat → Nat → GQ) (i j : Nat) (ham : Model.Op) (k : Nat) :
    iopStepC tol nq T2 i j ham k
      = (if i != j && i != k then
          (if twoBodyCoef T2 i j k i != 0 then
            [mulOp .qubit (srlOp tol i i 1 nq) (excitationOp tol j k (twoBodyCoef T2 i j k i) nq)] else [])
        else []).foldl (fun acc img => iadd tol acc img) ham := by
  unfold iopStepC excitationOp
  by_cases h1 : (i != j && i != k) = true <;> by_cases h2 : (twoBodyCoef T2 i j k i != 0) = true <;>
    simp only [h1, h2, if_true, if_false, Bool.false_eq_true, List.foldl_cons, List.foldl_nil]

theorem iopStepD_eq (tol : Rat) (nq : Nat) (T2 : Nat → Nat → Nat → Nat → GQ) (i j k : Nat) (ham : Model.Op) (l : Nat) :
    iopStepD tol nq T2 i j k ham l
      = ((if -(twoBodyCoef T2 i j k l) != 0 then [hermitianOneBodyProduct tol i j k l (-(twoBodyCoef T2 i j k l)) nq] else [])
        ++ (if -(twoBodyCoef T2 i k j l) != 0 then [hermitianOneBodyProduct tol i k j l (-(twoBodyCoef T2 i k j l)) nq] else [])
        ++ (if -(twoBodyCoef T2 i l j k) != 0 then [hermitianOneBodyProduct tol i l j k (-(twoBodyCoef T2 i l j k)) nq] else [])).foldl
          (fun acc img => iadd tol acc img) ham := by
  unfold iopStepD
  by_cases h1 : (-(twoBodyCoef T2 i j k l) != 0) = true <;> by_cases h2 : (-(twoBodyCoef T2 i k j l) != 0) = true <;>
    by_cases h3 : (-(twoBodyCoef T2 i l j k) != 0) = true <;>
    simp only [h1, h2, h3, if_true, if_false, Bool.false_eq_true, List.foldl_cons, List.foldl_nil, List.foldl_append,
      List.nil_append, List.append_nil, List.cons_append]

theorem foldA_eq (tol : Rat) (N nq : Nat) (T1 : Nat → Nat → GQ) (init : Model.Op) :
    ((List.range N).flatMap fun i => if T1 i i != 0 then [srlOp tol i i (T1 i i) nq] else []).foldl
        (fun acc img => iadd tol acc img) init
      = (iopA tol N nq T1).foldl (fun acc img => iadd tol acc img) init := rfl

theorem foldC_eq (tol : Rat) (N nq : Nat) (T2 : Nat → Nat → Nat → Nat → GQ) (init : Model.Op) :
    (List.range N).foldl (fun ham i =>
      (List.range N).foldl (fun ham j =>
        (List.range j).foldl (iopStepC tol nq T2 i j) ham) ham) init
      = (iopC tol N nq T2).foldl (fun acc img => iadd tol acc img) init := by
  unfold iopC
  rw [foldl_flatMap']
  apply foldl_congr'; intro acc i
  rw [foldl_flatMap']
  apply foldl_congr'; intro acc j
  rw [foldl_flatMap']
  apply foldl_congr'; intro acc k
  exact iopStepC_eq tol nq T2 i j acc k

theorem foldD_eq (tol : Rat) (N nq : Nat) (T2 : Nat → Nat → Nat → Nat → GQ) (init : Model.Op) :
    (List.range N).foldl (fun ham i =>
      (List.range i).foldl (fun ham j =>
        (List.range j).foldl (fun ham k =>
          (List.range k).foldl (iopStepD tol nq T2 i j k) ham) ham) ham) init
      = (iopD tol N nq T2).foldl (fun acc img => iadd tol acc img) init := by
  unfold iopD
  rw [foldl_flatMap']
  apply foldl_congr'; intro acc i
  rw [foldl_flatMap']
  apply foldl_congr'; intro acc j
  rw [foldl_flatMap']
  apply foldl_congr'; intro acc k
  rw [foldl_flatMap']
  apply foldl_congr'; intro acc l
  exact iopStepD_eq tol nq T2 i j k acc l

/-- the constant after the first pass -/
def constB (N : Nat) (const : GQ) (T2 : Nat → Nat → Nat → Nat → GQ) : GQ :=
  const + ((List.range N).map fun i => ((List.range i).map (constIJ T2 i)).sum).sum

/-- **`_bravyi_kitaev_interaction_operator` as one sum**: the Hamiltonian is the `+=`-fold over the operands of
cases A, C, D (program order) plus `_qubit_operator_creation` of the pending strings and the constant -/
theorem bkInteractionOp_unfold (tol : Rat) (N nq : Nat) (const : GQ) (one two : List GQ) :
    bkInteractionOp tol N nq const one two
      = iadd tol ((iopA tol N nq (get1 N one) ++ iopC tol N nq (get2 N two) ++ iopD tol N nq (get2 N two)).foldl
            (fun acc img => iadd tol acc img) [])
          (qubitOperatorCreation tol ((iopPend N nq (get1 N one) (get2 N two)).map (·.1) ++ [[]])
            ((iopPend N nq (get1 N one) (get2 N two)).map (·.2) ++ [constB N const (get2 N two)])) := by
  unfold bkInteractionOp
  simp only
  rw [iopOuter_fold]
  simp only [List.nil_append]
  rw [foldA_eq, foldC_eq, foldD_eq, List.foldl_append, List.foldl_append]
  rfl

end BK
end OFV
