/-
C06 — the scipy glue `expectation` / `variance` on the Model's sparse matrices: dense formulas
`⟨ψ|M|ψ⟩ = Σ_r conj ψ_r Σ_c M[r,c] ψ_c`, `Tr(ρ M)`, consistency of the two branches on pure states and
the Hermitian-only identity `⟨ψ|M²|ψ⟩ = ⟨Mψ|Mψ⟩`.  Core Lean only.
-/
import OFV.Proofs.C06JW
import OFV.Proofs.GQAlgebra
import OFV.Model.C06Expect

namespace OFV
namespace Proofs
namespace C06
open OFV.Spec OFV.Spec.C06 OFV.Model OFV.Model.C06

theorem sumN_mul_left (N : Nat) (c : GQ) (f : Nat → GQ) : c * sumN N f = sumN N (fun k => c * f k) := by
  induction N with
  | zero => simp [sumN, GQ.mul_zero']
  | succ N ih => rw [sumN_succ, sumN_succ, GQ.mul_add', ih]

theorem sumN_mul_right (N : Nat) (c : GQ) (f : Nat → GQ) : sumN N f * c = sumN N (fun k => f k * c) := by
  rw [GQ.mul_comm', sumN_mul_left]
  exact sumN_congr N _ _ (fun k _ => GQ.mul_comm' _ _)

theorem sumN_comm (N K : Nat) (f : Nat → Nat → GQ) :
    sumN N (fun i => sumN K (fun k => f i k)) = sumN K (fun k => sumN N (fun i => f i k)) := by
  induction N with
  | zero =>
    rw [show sumN 0 (fun i => sumN K (fun k => f i k)) = 0 from rfl]
    exact (sumN_zero K _ (fun k _ => rfl)).symm
  | succ N ih =>
    rw [sumN_succ, ih, ← sumN_add]
    exact sumN_congr K _ _ (fun k _ => (sumN_succ N _).symm)

/-- a left fold that adds `f i` is the range sum -/
theorem foldl_range_sum (N : Nat) (f : Nat → GQ) :
    (List.range N).foldl (fun acc i => acc + f i) 0 = sumN N f := by
  induction N with
  | zero => rfl
  | succ N ih => rw [List.range_succ, List.foldl_append, ih, sumN_succ]; rfl

theorem vdotc_eq (a b : Vec) : vdotc a b = sumN a.length (fun i => GQ.conj (a.getD i 0) * b.getD i 0) :=
  foldl_range_sum _ _

theorem traceMat_eq (M : Mat) : traceMat M = sumN M.rows (fun i => M.get i i) := foldl_range_sum _ _

/-- one row of `operator * state` -/
theorem rowFold_eq (es : List (Nat × Nat × GQ)) (cols : Nat) (hc : ∀ e ∈ es, e.2.1 < cols) (r : Nat) (x : Vec) :
    ∀ init : GQ, es.foldl (fun acc e => if e.1 = r then acc + e.2.2 * x.getD e.2.1 0 else acc) init =
      init + sumN cols (fun c => getL es r c * x.getD c 0) := by
  induction es with
  | nil =>
    intro init
    simp only [List.foldl_nil]
    rw [sumN_zero cols _ (fun k _ => by simp [getL, GQ.zero_mul']), GQ.add_zero']
  | cons e rest ih =>
    intro init
    have hrest : ∀ e' ∈ rest, e'.2.1 < cols := fun e' he' => hc e' (by simp [he'])
    have he : e.2.1 < cols := hc e (by simp)
    simp only [List.foldl_cons]
    rw [ih hrest]
    have hsplit : sumN cols (fun c => getL (e :: rest) r c * x.getD c 0) =
        sumN cols (fun c => (if e.2.1 = c then (if e.1 = r then e.2.2 else 0) else 0) * x.getD c 0) +
          sumN cols (fun c => getL rest r c * x.getD c 0) := by
      rw [← sumN_add]
      apply sumN_congr
      intro c _
      simp only [getL, List.foldr_cons]
      by_cases h1 : e.1 = r <;> by_cases h2 : e.2.1 = c <;>
        simp [h1, h2, GQ.add_mul', GQ.zero_mul', GQ.zero_add']
    rw [hsplit, sumN_indicator cols e.2.1 _ _ he]
    by_cases h1 : e.1 = r
    · simp only [h1, if_true]
      rw [GQ.add_assoc']
    · simp only [h1, if_false, GQ.zero_mul', GQ.zero_add']

theorem sparseMatvec_getD (M : Mat) (hM : InRange M) (x : Vec) (r : Nat) (hr : r < M.rows) :
    (sparseMatvec M x).getD r 0 = sumN M.cols (fun c => M.get r c * x.getD c 0) := by
  unfold sparseMatvec
  rw [List.getD_eq_getElem?_getD, List.getElem?_map, List.getElem?_range hr]
  simp only [Option.map_some, Option.getD_some]
  rw [rowFold_eq M.entries M.cols (fun e he => (hM e he).2) r x 0, GQ.zero_add']
  exact sumN_congr _ _ _ (fun c _ => by rw [get_eq_getL])

theorem sparseMatvec_length (M : Mat) (x : Vec) : (sparseMatvec M x).length = M.rows := by
  simp [sparseMatvec]

/-- **`expectation(M, ψ) = ⟨ψ|M|ψ⟩`** for a state vector -/
theorem expectationVec_eq (M : Mat) (hM : InRange M) (psi : Vec) (hl : psi.length = M.rows) :
    expectationVec M psi =
      sumN M.rows (fun r => GQ.conj (psi.getD r 0) * sumN M.cols (fun c => M.get r c * psi.getD c 0)) := by
  unfold expectationVec
  rw [vdotc_eq, hl]
  exact sumN_congr _ _ _ (fun r hr => by rw [sparseMatvec_getD M hM psi r hr])

/-- **`expectation(M, ρ) = Tr(ρ M)`** for a density matrix -/
theorem expectationDensity_eq (M rho : Mat) (hR : InRange rho) :
    expectationDensity M rho = sumN rho.rows (fun i => sumN rho.cols (fun k => rho.get i k * M.get k i)) := by
  unfold expectationDensity
  rw [traceMat_eq]
  exact sumN_congr _ _ _ (fun i _ => matMul_get rho M hR i i)

/-- the two branches agree on a pure state `ρ = |ψ⟩⟨ψ|` -/
theorem expectation_pure (M rho : Mat) (hM : InRange M) (hR : InRange rho) (psi : Vec) (n : Nat)
    (hm : M.rows = n ∧ M.cols = n) (hr : rho.rows = n ∧ rho.cols = n) (hl : psi.length = n)
    (hrho : ∀ i k, i < n → k < n → rho.get i k = psi.getD i 0 * GQ.conj (psi.getD k 0)) :
    expectationDensity M rho = expectationVec M psi := by
  rw [expectationDensity_eq M rho hR, expectationVec_eq M hM psi (by rw [hl, hm.1]), hr.1, hr.2, hm.1, hm.2,
    sumN_comm]
  apply sumN_congr
  intro k hk
  rw [sumN_mul_left]
  apply sumN_congr
  intro i hi
  rw [hrho i k hi hk]
  apply GQ.ext <;> simp <;> grind

/-! ### the Hermitian-only shortcut `⟨ψ|M²|ψ⟩ = ⟨Mψ|Mψ⟩` -/

theorem conj_add (a b : GQ) : GQ.conj (a + b) = GQ.conj a + GQ.conj b := by
  apply GQ.ext <;> simp [GQ.conj] <;> grind

theorem conj_mul (a b : GQ) : GQ.conj (a * b) = GQ.conj a * GQ.conj b := by
  apply GQ.ext <;> simp [GQ.conj] <;> grind

theorem conj_sumN (N : Nat) (f : Nat → GQ) : GQ.conj (sumN N f) = sumN N (fun k => GQ.conj (f k)) := by
  induction N with
  | zero => apply GQ.ext <;> simp [sumN, GQ.conj]
  | succ N ih => rw [sumN_succ, sumN_succ, conj_add, ih]

theorem inRange_matMul (A B : Mat) (hA : InRange A) (hB : InRange B) : InRange (matMul A B) := by
  intro e he
  simp only [matMul, List.mem_flatMap, List.mem_map, List.mem_filter] at he
  obtain ⟨a, ha, b, ⟨hb, _⟩, rfl⟩ := he
  exact ⟨(hA a ha).1, (hB b hb).2⟩

/-- for a Hermitian matrix the second moment is the squared norm of `Mψ` — the identity a
"fast path" `vdot(Mψ, Mψ)` in `variance` would rely on; it fails for non-Hermitian operators -/
theorem second_moment_hermitian (M : Mat) (hM : InRange M) (n : Nat) (hm : M.rows = n ∧ M.cols = n)
    (psi : Vec) (hl : psi.length = n) (hH : ∀ r c, r < n → c < n → M.get r c = GQ.conj (M.get c r)) :
    expectationVec (matMul M M) psi = vdotc (sparseMatvec M psi) (sparseMatvec M psi) := by
  have hMM := inRange_matMul M M hM hM
  have hrows : (matMul M M).rows = n := hm.1
  have hcols : (matMul M M).cols = n := hm.2
  rw [expectationVec_eq (matMul M M) hMM psi (by rw [hl, hrows]), hrows, hcols, vdotc_eq, sparseMatvec_length, hm.1]
  -- both sides are Σ_r Σ_k conj ψ_r · M[r,k] · (Mψ)_k
  have hL : ∀ r, r < n →
      GQ.conj (psi.getD r 0) * sumN n (fun c => (matMul M M).get r c * psi.getD c 0) =
        sumN n (fun k => GQ.conj (psi.getD r 0) * (M.get r k * sumN n (fun c => M.get k c * psi.getD c 0))) := by
    intro r _
    rw [← sumN_mul_left]
    congr 1
    have e1 : ∀ c, c < n → (matMul M M).get r c * psi.getD c 0 =
        sumN n (fun k => M.get r k * (M.get k c * psi.getD c 0)) := by
      intro c _
      rw [matMul_get M M hM, hm.2, sumN_mul_right]
      exact sumN_congr _ _ _ (fun k _ => GQ.mul_assoc' _ _ _)
    rw [sumN_congr n _ _ e1, sumN_comm]
    exact sumN_congr _ _ _ (fun k _ => (sumN_mul_left _ _ _).symm)
  have hR : ∀ k, k < n →
      GQ.conj ((sparseMatvec M psi).getD k 0) * (sparseMatvec M psi).getD k 0 =
        sumN n (fun r => GQ.conj (psi.getD r 0) * (M.get r k * sumN n (fun c => M.get k c * psi.getD c 0))) := by
    intro k hk
    rw [sparseMatvec_getD M hM psi k (by rw [hm.1]; exact hk), hm.2, conj_sumN, sumN_mul_right]
    apply sumN_congr
    intro r hr
    rw [conj_mul, ← hH r k hr hk]
    apply GQ.ext <;> simp <;> grind
  rw [sumN_congr n _ _ hL, sumN_congr n _ _ hR, sumN_comm]

/-! ### `is_hermitian` on sparse matrices -/

theorem getL_zero_of_absent (es : List (Nat × Nat × GQ)) (r c : Nat) (h : ∀ e ∈ es, ¬ (e.1 = r ∧ e.2.1 = c)) :
    getL es r c = 0 := by
  induction es with
  | nil => rfl
  | cons e rest ih =>
    simp only [getL, List.foldr_cons]
    rw [if_neg (h e (by simp))]
    exact ih (fun e' he' => h e' (by simp [he']))

theorem normSq_zero : GQ.normSq 0 = 0 := by simp [GQ.normSq] <;> grind

theorem conj_zero : GQ.conj 0 = 0 := by apply GQ.ext <;> simp [GQ.conj]

theorem gq_sub_self (a : GQ) : a - a = 0 := by apply GQ.ext <;> simp <;> grind

/-- `is_hermitian(M)` says `True` exactly when every entry of `M - M†` is smaller than the tolerance -/
theorem isHermitianMat_iff (tol : Rat) (htol : 0 < tol) (M : Mat) :
    isHermitianMat tol M = true ↔
      ∀ r c, GQ.normSq (M.get r c - GQ.conj (M.get c r)) < tol * tol := by
  unfold isHermitianMat
  rw [List.all_eq_true]
  constructor
  · intro h r c
    by_cases hp : (r, c) ∈ M.entries.flatMap fun e => [(e.1, e.2.1), (e.2.1, e.1)]
    · have := h (r, c) hp
      simpa [GQ.isSmall] using this
    · have h1 : M.get r c = 0 := by
        rw [get_eq_getL]
        apply getL_zero_of_absent
        intro e he hrc
        apply hp
        simp only [List.mem_flatMap]
        exact ⟨e, he, by simp [hrc.1, hrc.2]⟩
      have h2 : M.get c r = 0 := by
        rw [get_eq_getL]
        apply getL_zero_of_absent
        intro e he hrc
        apply hp
        simp only [List.mem_flatMap]
        exact ⟨e, he, by simp [hrc.1, hrc.2]⟩
      rw [h1, h2, conj_zero, gq_sub_self, normSq_zero]
      exact Rat.mul_pos htol htol
  · intro h p _
    have := h p.1 p.2
    simpa [GQ.isSmall] using this

/-- exactly Hermitian matrices pass; when every non-zero entry of `M - M†` is at least the tolerance
(exact regime) only they pass -/
theorem isHermitianMat_exact (tol : Rat) (htol : 0 < tol) (M : Mat)
    (hgap : ∀ r c, M.get r c ≠ GQ.conj (M.get c r) → tol * tol ≤ GQ.normSq (M.get r c - GQ.conj (M.get c r))) :
    isHermitianMat tol M = true ↔ ∀ r c, M.get r c = GQ.conj (M.get c r) := by
  rw [isHermitianMat_iff tol htol]
  constructor
  · intro h r c
    by_cases he : M.get r c = GQ.conj (M.get c r)
    · exact he
    · exact absurd (h r c) (by have := hgap r c he; exact Rat.not_lt.mpr this)
  · intro h r c
    rw [h r c, gq_sub_self, normSq_zero]
    exact Rat.mul_pos htol htol

end C06
end Proofs
end OFV
