/- C09: diagonal (Z / identity) qubit operators of the Symbolic Model: their value on a basis
state is multiplicative under `mulOp .qubit` and additive under tolerance-free `+=` / `-=`. -/
import OFV.Proofs.C09Addr
import Mathlib.Tactic.Ring
import Mathlib.Tactic.Positivity
import Mathlib.Data.Rat.Defs

namespace OFV.C09
open OFV.Model OFV.Model.C09 OFV.Spec

/-! ### GQ is a commutative ring (the identities used here) -/

theorem gq_mul_comm (a b : GQ) : a * b = b * a := GQ.ext (by simp; ring) (by simp; ring)
theorem gq_mul_assoc (a b c : GQ) : a * b * c = a * (b * c) := GQ.ext (by simp; ring) (by simp; ring)
theorem gq_add_comm (a b : GQ) : a + b = b + a := GQ.ext (by simp; ring) (by simp; ring)
theorem gq_add_assoc' (a b c : GQ) : a + b + c = a + (b + c) := GQ.ext (by simp; ring) (by simp; ring)
theorem gq_left_distrib (a b c : GQ) : a * (b + c) = a * b + a * c := GQ.ext (by simp; ring) (by simp; ring)
theorem gq_right_distrib (a b c : GQ) : (a + b) * c = a * c + b * c := GQ.ext (by simp; ring) (by simp; ring)
theorem gq_one_mul (a : GQ) : 1 * a = a := GQ.ext (by simp) (by simp)
theorem gq_mul_one' (a : GQ) : a * 1 = a := GQ.ext (by simp) (by simp)
theorem gq_zero_add' (a : GQ) : 0 + a = a := GQ.ext (by simp) (by simp)
theorem gq_add_zero' (a : GQ) : a + 0 = a := GQ.ext (by simp) (by simp)
theorem gq_zero_mul (a : GQ) : 0 * a = 0 := GQ.ext (by simp) (by simp)
theorem gq_mul_zero (a : GQ) : a * 0 = 0 := GQ.ext (by simp) (by simp)
theorem gq_sub_eq (a b : GQ) : a - b = a + (-1) * b := GQ.ext (by simp; ring) (by simp; ring)

/-- `(-1)^b` -/
def sgnB (b : Bool) : GQ := if b then -1 else 1

theorem sgnB_xor (a b : Bool) : sgnB (xor a b) = sgnB a * sgnB b := by
  cases a <;> cases b <;> exact GQ.ext (by simp [sgnB]) (by simp [sgnB])

/-! ### Z / identity strings -/

/-- diagonal value of one factor on the basis state with bits `w` -/
def chiF (w : Nat → Bool) (f : Factor) : GQ := if f.2 = 3 then sgnB (w f.1) else 1

/-- diagonal value of a string of Z / identity factors -/
def chi (w : Nat → Bool) (t : Term) : GQ := t.foldr (fun f acc => chiF w f * acc) 1

/-- only identity (0) and Z (3) actions -/
def ZI (t : Term) : Prop := ∀ f ∈ t, f.2 = 0 ∨ f.2 = 3

theorem chi_nil (w : Nat → Bool) : chi w [] = 1 := rfl
theorem chi_cons (w : Nat → Bool) (f : Factor) (t : Term) : chi w (f :: t) = chiF w f * chi w t := rfl

theorem chi_append (w : Nat → Bool) (a b : Term) : chi w (a ++ b) = chi w a * chi w b := by
  induction a with
  | nil => rw [List.nil_append, chi_nil, gq_one_mul]
  | cons f r ih => rw [List.cons_append, chi_cons, chi_cons, ih, gq_mul_assoc]

theorem chi_insertF (w : Nat → Bool) (f : Factor) (t : Term) : chi w (insertF f t) = chi w (f :: t) := by
  induction t with
  | nil => rfl
  | cons g r ih =>
    unfold insertF
    split
    · rfl
    · rw [chi_cons, ih, chi_cons, chi_cons, chi_cons, ← gq_mul_assoc, ← gq_mul_assoc, gq_mul_comm (chiF w g)]

theorem chi_sortF (w : Nat → Bool) (t : Term) : chi w (sortF t) = chi w t := by
  induction t with
  | nil => rfl
  | cons f r ih => show chi w (insertF f (sortF r)) = _; rw [chi_insertF, chi_cons, chi_cons, ih]

theorem zi_insertF (f : Factor) (t : Term) (hf : f.2 = 0 ∨ f.2 = 3) (ht : ZI t) : ZI (insertF f t) := by
  induction t with
  | nil => intro g hg; simp [insertF] at hg; subst hg; exact hf
  | cons g r ih =>
    unfold insertF
    split
    · intro x hx
      rcases List.mem_cons.mp hx with rfl | hx
      · exact hf
      · exact ht x hx
    · intro x hx
      rcases List.mem_cons.mp hx with rfl | hx
      · exact ht x (by simp)
      · exact ih (fun y hy => ht y (List.mem_cons_of_mem _ hy)) x hx

theorem zi_sortF (t : Term) (ht : ZI t) : ZI (sortF t) := by
  induction t with
  | nil => exact ht
  | cons f r ih =>
    exact zi_insertF f _ (ht f (by simp)) (ih (fun y hy => ht y (List.mem_cons_of_mem _ hy)))

/-- the extracted Pauli table on {I, Z}: `I·I = I`, `I·Z = Z·I = Z`, `Z·Z = I`, coefficient 1 -/
theorem pauliProd_ZI :
    Generated.pauliProd 0 0 = (1, 0) ∧ Generated.pauliProd 0 3 = (1, 3) ∧
    Generated.pauliProd 3 0 = (1, 3) ∧ Generated.pauliProd 3 3 = (1, 0) := by
  refine ⟨rfl, rfl, rfl, rfl⟩

theorem mergeQ_ZI (w : Nat → Bool) (l : Factor) (rest : Term) (hl : l.2 = 0 ∨ l.2 = 3) (hr : ZI rest) :
    (mergeQ l rest).1 = 1 ∧ ZI (mergeQ l rest).2 ∧ chi w (mergeQ l rest).2 = chi w (l :: rest) := by
  induction rest generalizing l with
  | nil =>
    unfold mergeQ
    refine ⟨rfl, ?_, ?_⟩
    · split
      · intro f hf; cases hf
      · intro f hf; simp at hf; subst hf; exact hl
    · split
      · next h0 => simp [chi, chiF, h0, gq_mul_one']
      · rfl
  | cons r rs ih =>
    have hr2 : r.2 = 0 ∨ r.2 = 3 := hr r (by simp)
    have hrs : ZI rs := fun y hy => hr y (List.mem_cons_of_mem _ hy)
    unfold mergeQ
    split
    · next heq =>
      -- same qubit: multiply the two Pauli actions
      obtain ⟨p00, p03, p30, p33⟩ := pauliProd_ZI
      have hprod : (Generated.pauliProd l.2 r.2).1 = 1 ∧
          ((Generated.pauliProd l.2 r.2).2 = 0 ∨ (Generated.pauliProd l.2 r.2).2 = 3) ∧
          chiF w (l.1, (Generated.pauliProd l.2 r.2).2) = chiF w l * chiF w r := by
        have hsq : sgnB (w l.1) * sgnB (w l.1) = 1 := by
          cases w l.1 <;> exact GQ.ext (by simp [sgnB]) (by simp [sgnB])
        rcases hl with h1 | h1 <;> rcases hr2 with h2 | h2
        · rw [h1, h2, p00]; simp [chiF, h1, h2, gq_mul_one']
        · rw [h1, h2, p03]; simp [chiF, h1, h2, gq_one_mul, heq]
        · rw [h1, h2, p30]; simp [chiF, h1, h2, gq_mul_one']
        · rw [h1, h2, p33]; simp [chiF, h1, h2, ← heq, hsq]
      obtain ⟨ih1, ih2, ih3⟩ := ih (l.1, (Generated.pauliProd l.2 r.2).2) hprod.2.1 hrs
      refine ⟨?_, ih2, ?_⟩
      · show (Generated.pauliProd l.2 r.2).1 * _ = 1
        rw [hprod.1, ih1, gq_mul_one']
      · show chi w (mergeQ _ rs).2 = _
        rw [ih3, chi_cons, chi_cons, chi_cons, hprod.2.2, gq_mul_assoc]
    · obtain ⟨ih1, ih2, ih3⟩ := ih r hr2 hrs
      refine ⟨ih1, ?_, ?_⟩
      · show ZI (if l.2 = 0 then (mergeQ r rs).2 else l :: (mergeQ r rs).2)
        split
        · exact ih2
        · intro f hf
          rcases List.mem_cons.mp hf with rfl | hf
          · exact hl
          · exact ih2 f hf
      · show chi w (if l.2 = 0 then (mergeQ r rs).2 else l :: (mergeQ r rs).2) = _
        split
        · next h0 => rw [ih3, chi_cons w l]; simp [chiF, h0, gq_one_mul]
        · rw [chi_cons, ih3, chi_cons w l]

theorem simplifyQubit_ZI (w : Nat → Bool) (t : Term) (ht : ZI t) :
    (simplifyQubit t).1 = 1 ∧ ZI (simplifyQubit t).2 ∧ chi w (simplifyQubit t).2 = chi w t := by
  unfold simplifyQubit
  have hs := zi_sortF t ht
  have hc := chi_sortF w t
  cases hsort : sortF t with
  | nil =>
    rw [hsort] at hc
    refine ⟨rfl, ?_, ?_⟩
    · show ZI []
      intro f hf; cases hf
    · show chi w [] = _
      exact hc
  | cons l rest =>
    rw [hsort] at hs hc
    obtain ⟨h1, h2, h3⟩ := mergeQ_ZI w l rest (hs l (by simp)) (fun y hy => hs y (List.mem_cons_of_mem _ hy))
    refine ⟨h1, h2, ?_⟩
    show chi w (mergeQ l rest).2 = _
    rw [h3, hc]

end OFV.C09
