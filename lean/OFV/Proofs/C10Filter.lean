/- C10: the occupied / unoccupied pre-filter of `_build_term_op_` passes exactly the basis states on which a
normal-ordered term (creation operators with distinct modes, then annihilation operators with distinct modes)
does not vanish. -/
import OFV.Proofs.C10Entries

namespace OFV.C10
open OFV.Model OFV.Model.C10 OFV.Spec OFV.Spec.C10

theorem nodup_rev {l : List Nat} (h : l.Nodup) : l.reverse.Nodup := by
  unfold List.Nodup at h ⊢
  rw [List.pairwise_reverse]
  exact h.imp fun hab => fun e => hab e.symm

def xflips (m : Nat) (l : List Nat) : Nat := l.foldl (fun a i => a ^^^ (1 <<< i)) m

theorem testBit_xflips (m : Nat) (l : List Nat) (hnd : l.Nodup) (j : Nat) :
    (xflips m l).testBit j = if j ∈ l then !m.testBit j else m.testBit j := by
  unfold xflips
  induction l generalizing m with
  | nil => simp
  | cons i r ih =>
    rw [List.nodup_cons] at hnd
    rw [List.foldl_cons, ih _ hnd.2]
    by_cases hji : j = i
    · subst hji
      simp [hnd.1, testBit_xflip]
    · have hij : i ≠ j := fun e => hji e.symm
      rw [testBit_xflip_ne m i j hij]
      simp [hji]

/-- a run of annihilation operators on distinct modes -/
theorem ann_fold (l : List Nat) (hnd : l.Nodup) (k m : Nat) :
    ((∀ i ∈ l, m.testBit i = true) → ∃ k', (l.map fun i => (i, 0)).foldl specStep (some (k, m)) = some (k', xflips m l)) ∧
    (¬ (∀ i ∈ l, m.testBit i = true) → (l.map fun i => (i, 0)).foldl specStep (some (k, m)) = none) := by
  induction l generalizing k m with
  | nil => exact ⟨fun _ => ⟨k, rfl⟩, fun h => absurd (by simp) h⟩
  | cons i r ih =>
    rw [List.nodup_cons] at hnd
    rw [List.map_cons, List.foldl_cons]
    by_cases hb : m.testBit i = true
    · have hstep : specStep (some (k, m)) (i, 0) = some ((k + countBelow m i % 2) % 2, m ^^^ (1 <<< i)) := by
        simp [specStep, actF, hb]
      rw [hstep]
      have hbits : ∀ j ∈ r, (m ^^^ (1 <<< i)).testBit j = m.testBit j := by
        intro j hj
        exact testBit_xflip_ne m i j (fun e => hnd.1 (e ▸ hj))
      obtain ⟨a, b⟩ := ih hnd.2 ((k + countBelow m i % 2) % 2) (m ^^^ (1 <<< i))
      constructor
      · intro hall
        have := a (fun j hj => by rw [hbits j hj]; exact hall j (List.mem_cons_of_mem _ hj))
        simpa [xflips] using this
      · intro hnall
        apply b
        intro hall
        apply hnall
        intro j hj
        rcases List.mem_cons.mp hj with rfl | hj
        · exact hb
        · rw [← hbits j hj]; exact hall j hj
    · have hstep : specStep (some (k, m)) (i, 0) = none := by
        have : m.testBit i = false := by simpa using hb
        simp [specStep, actF, this]
      rw [hstep, foldl_specStep_none]
      exact ⟨fun hall => absurd (hall i (by simp)) hb, fun _ => rfl⟩

/-- a run of creation operators on distinct modes -/
theorem cre_fold (l : List Nat) (hnd : l.Nodup) (k m : Nat) :
    ((∀ i ∈ l, m.testBit i = false) → ∃ k', (l.map fun i => (i, 1)).foldl specStep (some (k, m)) = some (k', xflips m l)) ∧
    (¬ (∀ i ∈ l, m.testBit i = false) → (l.map fun i => (i, 1)).foldl specStep (some (k, m)) = none) := by
  induction l generalizing k m with
  | nil => exact ⟨fun _ => ⟨k, rfl⟩, fun h => absurd (by simp) h⟩
  | cons i r ih =>
    rw [List.nodup_cons] at hnd
    rw [List.map_cons, List.foldl_cons]
    by_cases hb : m.testBit i = false
    · have hstep : specStep (some (k, m)) (i, 1) = some ((k + countBelow m i % 2) % 2, m ^^^ (1 <<< i)) := by
        simp [specStep, actF, hb]
      rw [hstep]
      have hbits : ∀ j ∈ r, (m ^^^ (1 <<< i)).testBit j = m.testBit j := by
        intro j hj
        exact testBit_xflip_ne m i j (fun e => hnd.1 (e ▸ hj))
      obtain ⟨a, b⟩ := ih hnd.2 ((k + countBelow m i % 2) % 2) (m ^^^ (1 <<< i))
      constructor
      · intro hall
        have := a (fun j hj => by rw [hbits j hj]; exact hall j (List.mem_cons_of_mem _ hj))
        simpa [xflips] using this
      · intro hnall
        apply b
        intro hall
        apply hnall
        intro j hj
        rcases List.mem_cons.mp hj with rfl | hj
        · exact hb
        · rw [← hbits j hj]; exact hall j hj
    · have hstep : specStep (some (k, m)) (i, 1) = none := by
        have : m.testBit i = true := by simpa using hb
        simp [specStep, actF, this]
      rw [hstep, foldl_specStep_none]
      exact ⟨fun hall => absurd (hall i (by simp)) hb, fun _ => rfl⟩

/-- a normal-ordered term: creation operators on the modes `cr`, then annihilation operators on the modes `an` -/
def noTerm (cr an : List Nat) : Term := (cr.map fun i => (i, 1)) ++ (an.map fun i => (i, 0))

theorem noTerm_reverse (cr an : List Nat) :
    (noTerm cr an).reverse = (an.reverse.map fun i => (i, 0)) ++ (cr.reverse.map fun i => (i, 1)) := by
  simp [noTerm, List.map_reverse]

/-- the Spec action of a normal-ordered term with distinct creation modes and distinct annihilation modes does not
vanish exactly when the annihilated modes are occupied and the created, not annihilated, modes are empty -/
theorem actFTerm_noTerm_isSome (cr an : List Nat) (hc : cr.Nodup) (ha : an.Nodup) (m : Nat) :
    (actFTerm (noTerm cr an) m).isSome = true ↔
      (∀ i ∈ an, m.testBit i = true) ∧ (∀ i ∈ cr, i ∉ an → m.testBit i = false) := by
  rw [actFTerm_eq_foldl, noTerm_reverse, List.foldl_append]
  obtain ⟨a1, a2⟩ := ann_fold an.reverse (nodup_rev ha) 0 m
  by_cases hall : ∀ i ∈ an.reverse, m.testBit i = true
  · obtain ⟨k', hk'⟩ := a1 hall
    rw [hk']
    have hall' : ∀ i ∈ an, m.testBit i = true := fun i hi => hall i (List.mem_reverse.mpr hi)
    obtain ⟨c1, c2⟩ := cre_fold cr.reverse (nodup_rev hc) k' (xflips m an.reverse)
    have hbit : ∀ i, (xflips m an.reverse).testBit i = false ↔ (i ∈ an ∨ m.testBit i = false) := by
      intro i
      rw [testBit_xflips m an.reverse (nodup_rev ha) i]
      by_cases hi : i ∈ an
      · simp [hi, hall' i hi]
      · simp [hi]
    by_cases hcr : ∀ i ∈ cr.reverse, (xflips m an.reverse).testBit i = false
    · obtain ⟨k'', hk''⟩ := c1 hcr
      rw [hk'']
      simp only [Option.isSome_some, true_iff]
      refine ⟨hall', ?_⟩
      intro i hi hni
      rcases (hbit i).mp (hcr i (List.mem_reverse.mpr hi)) with h | h
      · exact absurd h hni
      · exact h
    · rw [c2 hcr]
      simp only [Option.isSome_none, Bool.false_eq_true, false_iff]
      rintro ⟨_, h2⟩
      apply hcr
      intro i hi
      apply (hbit i).mpr
      by_cases hia : i ∈ an
      · exact Or.inl hia
      · exact Or.inr (h2 i (List.mem_reverse.mp hi) hia)
  · rw [a2 hall, foldl_specStep_none]
    simp only [Option.isSome_none, Bool.false_eq_true, false_iff]
    rintro ⟨h1, _⟩
    exact hall (fun i hi => h1 i (List.mem_reverse.mp hi))

/-! ### the plan of the first loop -/

def planStep (p : TermPlan) (f : Nat × Nat) : TermPlan :=
  if f.2 = 0 then ⟨p.occ ++ [f.1], p.unocc, p.delta - 1⟩
  else ⟨p.occ, if p.occ.contains f.1 then p.unocc else p.unocc ++ [f.1], p.delta + 1⟩

theorem termPlan_eq (t : Term) : termPlan t = t.reverse.foldl planStep ⟨[], [], 0⟩ := rfl

theorem plan_ann (l : List Nat) (p : TermPlan) :
    ((l.map fun i => (i, 0)).foldl planStep p).occ = p.occ ++ l ∧
      ((l.map fun i => (i, 0)).foldl planStep p).unocc = p.unocc := by
  induction l generalizing p with
  | nil => simp
  | cons i r ih =>
    rw [List.map_cons, List.foldl_cons]
    obtain ⟨h1, h2⟩ := ih (planStep p (i, 0))
    rw [h1, h2]
    simp [planStep]

theorem plan_cre (l : List Nat) (p : TermPlan) :
    ((l.map fun i => (i, 1)).foldl planStep p).occ = p.occ ∧
      ∀ j, j ∈ ((l.map fun i => (i, 1)).foldl planStep p).unocc ↔ (j ∈ p.unocc ∨ (j ∈ l ∧ j ∉ p.occ)) := by
  induction l generalizing p with
  | nil => simp
  | cons i r ih =>
    rw [List.map_cons, List.foldl_cons]
    obtain ⟨h1, h2⟩ := ih (planStep p (i, 1))
    have ho : (planStep p (i, 1)).occ = p.occ := by simp [planStep]
    refine ⟨by rw [h1, ho], ?_⟩
    intro j
    rw [h2 j, ho]
    by_cases hi : i ∈ p.occ
    · have hu : (planStep p (i, 1)).unocc = p.unocc := by simp [planStep, hi]
      rw [hu]
      constructor
      · rintro (h | ⟨h, h'⟩)
        · exact Or.inl h
        · exact Or.inr ⟨List.mem_cons_of_mem _ h, h'⟩
      · rintro (h | ⟨h, h'⟩)
        · exact Or.inl h
        · rcases List.mem_cons.mp h with rfl | h
          · exact absurd hi h'
          · exact Or.inr ⟨h, h'⟩
    · have hu : (planStep p (i, 1)).unocc = p.unocc ++ [i] := by simp [planStep, hi]
      rw [hu]
      constructor
      · rintro (h | ⟨h, h'⟩)
        · rcases List.mem_append.mp h with h | h
          · exact Or.inl h
          · simp at h; subst h; exact Or.inr ⟨by simp, hi⟩
        · exact Or.inr ⟨List.mem_cons_of_mem _ h, h'⟩
      · rintro (h | ⟨h, h'⟩)
        · exact Or.inl (List.mem_append_left _ h)
        · rcases List.mem_cons.mp h with rfl | h
          · exact Or.inl (by simp)
          · exact Or.inr ⟨h, h'⟩

theorem termPlan_noTerm (cr an : List Nat) :
    (termPlan (noTerm cr an)).occ = an.reverse ∧
      ∀ j, j ∈ (termPlan (noTerm cr an)).unocc ↔ (j ∈ cr ∧ j ∉ an) := by
  rw [termPlan_eq, noTerm_reverse, List.foldl_append]
  obtain ⟨a1, a2⟩ := plan_ann an.reverse ⟨[], [], 0⟩
  obtain ⟨c1, c2⟩ := plan_cre cr.reverse ((an.reverse.map fun i => (i, 0)).foldl planStep ⟨[], [], 0⟩)
  refine ⟨by rw [c1, a1]; simp, ?_⟩
  intro j
  rw [c2 j, a1, a2]
  simp

/-- **the pre-filter is exact for normal-ordered terms**: the basis determinant passes exactly when the Spec action
of the term on its basis state does not vanish -/
theorem passes_iff_action (cr an : List Nat) (hc : cr.Nodup) (ha : an.Nodup) (d : Det) (m : Nat) (hag : Agree d m) :
    passes (noTerm cr an) d = true ↔ (actFTerm (noTerm cr an) m).isSome = true := by
  rw [actFTerm_noTerm_isSome cr an hc ha m]
  obtain ⟨ho, hu⟩ := termPlan_noTerm cr an
  unfold passes
  rw [Bool.and_eq_true, List.all_eq_true, ho]
  constructor
  · rintro ⟨h1, h2⟩
    refine ⟨fun i hi => by rw [hag i]; exact h1 i (List.mem_reverse.mpr hi), ?_⟩
    intro i hi hni
    have hnot : ((termPlan (noTerm cr an)).unocc.any fun i => d.getD i false) = false := by simpa using h2
    rw [List.any_eq_false] at hnot
    have := hnot i ((hu i).mpr ⟨hi, hni⟩)
    rw [hag i]; simpa using this
  · rintro ⟨h1, h2⟩
    refine ⟨fun i hi => by rw [← hag i]; exact h1 i (List.mem_reverse.mp hi), ?_⟩
    have : ((termPlan (noTerm cr an)).unocc.any fun i => d.getD i false) = false := by
      rw [List.any_eq_false]
      intro i hi
      obtain ⟨hic, hia⟩ := (hu i).mp hi
      have := h2 i hic hia
      rw [hag i] at this
      rw [this]; simp
    rw [this]; rfl

end OFV.C10
