/-
Z-strings, already-canonical Pauli strings, and the Jordan-Wigner image of one ladder operator.
-/
import OFV.Model.C04
import OFV.Proofs.C04Hom
import Mathlib.Tactic.NormNum
import Mathlib.Tactic.LinearCombination

namespace OFV
namespace Sem
open Spec Model Model.C04

/-! ### parity of an interval of bits -/

/-- number of set bits of `s` at positions `lo ≤ k < hi` -/
def cnt (s lo hi : Nat) : Nat := ((List.range' lo (hi - lo)).filter fun k => s.testBit k).length

theorem countBelow_eq_cnt (s j : Nat) : countBelow s j = cnt s 0 j := by
  simp [countBelow, cnt, List.range_eq_range']

theorem cnt_self (s lo : Nat) : cnt s lo lo = 0 := by simp [cnt]

theorem cnt_succ (s lo hi : Nat) (h : lo ≤ hi) :
    cnt s lo (hi + 1) = cnt s lo hi + (if s.testBit hi then 1 else 0) := by
  unfold cnt
  have : hi + 1 - lo = (hi - lo) + 1 := by omega
  rw [this, List.range'_concat, List.filter_append, List.length_append]
  have e : lo + 1 * (hi - lo) = hi := by omega
  rw [e]
  by_cases hb : s.testBit hi <;> simp [hb]

theorem zs_succ (lo hi : Nat) (h : lo ≤ hi) : zs lo (hi + 1) = zs lo hi ++ [(hi, 3)] := by
  unfold zs
  have : hi + 1 - lo = (hi - lo) + 1 := by omega
  rw [this, List.range'_concat, List.map_append]
  have e : lo + 1 * (hi - lo) = hi := by omega
  rw [e]; rfl

theorem zs_self (lo : Nat) : zs lo lo = [] := by simp [zs]

/-- a Z-string on `[lo, hi)` multiplies `|s⟩` by `(-1)^{number of set bits in [lo, hi)}` -/
theorem actPTerm_zs (s lo hi : Nat) (h : lo ≤ hi) :
    actPTerm (zs lo hi) s = (2 * (cnt s lo hi % 2), s) := by
  induction hi, h using Nat.le_induction with
  | base => simp [zs_self, cnt_self, actPTerm_nil]
  | succ hi h ih =>
    rw [zs_succ lo hi h, actPTerm_append, cnt_succ s lo hi h]
    simp only [actPTerm_cons, actPTerm_nil, stepP, actP, ih]
    by_cases hb : s.testBit hi <;> simp [hb] <;> omega

theorem zs_valid (lo hi : Nat) : ValidQ (zs lo hi) := by
  intro f hf; simp [zs] at hf; obtain ⟨a, _, rfl⟩ := hf; simp

theorem cnt_xflip (s j lo hi : Nat) (h : j < lo ∨ hi ≤ j) : cnt (s ^^^ (1 <<< j)) lo hi = cnt s lo hi := by
  unfold cnt
  congr 1
  apply List.filter_congr
  intro k hk
  rw [List.mem_range'_1] at hk
  rw [testBit_xflip_ne]
  omega

/-! ### strings that are already canonical -/

def SortedQ (t : List (Nat × Nat)) : Prop := t.Pairwise (fun f g => f.1 < g.1) ∧ ∀ f ∈ t, f.2 ≠ 0

theorem sortF_sorted {t : List (Nat × Nat)} (h : t.Pairwise (fun f g => f.1 < g.1)) : sortF t = t := by
  induction t with
  | nil => rfl
  | cons f r ih =>
    rw [List.pairwise_cons] at h
    rw [sortF, ih h.2]
    cases r with
    | nil => rfl
    | cons g r' =>
      have := h.1 g List.mem_cons_self
      simp only [insertF]
      rw [if_pos (by omega)]

theorem mergeQ_sorted (l : Nat × Nat) (rest : List (Nat × Nat)) (h : SortedQ (l :: rest)) :
    mergeQ l rest = (1, l :: rest) := by
  induction rest generalizing l with
  | nil =>
    have := h.2 l List.mem_cons_self
    simp [mergeQ, this]
  | cons r rest ih =>
    obtain ⟨hp, hn⟩ := h
    rw [List.pairwise_cons] at hp
    have hlr := hp.1 r List.mem_cons_self
    have hl0 := hn l List.mem_cons_self
    have := ih r ⟨hp.2, fun f hf => hn f (List.mem_cons_of_mem _ hf)⟩
    simp only [mergeQ]
    rw [if_neg (by omega), this]
    simp [hl0]

theorem simplifyQubit_sorted {t : List (Nat × Nat)} (h : SortedQ t) : simplifyQubit t = (1, t) := by
  unfold simplifyQubit
  rw [sortF_sorted h.1]
  cases t with
  | nil => rfl
  | cons l rest => exact mergeQ_sorted l rest h

theorem mk_sorted {t : List (Nat × Nat)} (h : SortedQ t) (c : GQ) : mk .qubit t c = [(t, c)] := by
  simp [mk, simplify, simplifyQubit_sorted h]

theorem zs_pairwise (lo hi : Nat) : (zs lo hi).Pairwise (fun f g => f.1 < g.1) := by
  unfold zs
  rw [List.pairwise_map]
  exact List.pairwise_lt_range'

theorem zs_mem {lo hi : Nat} {f : Nat × Nat} (h : f ∈ zs lo hi) : lo ≤ f.1 ∧ f.1 < hi ∧ f.2 = 3 := by
  simp [zs] at h
  obtain ⟨a, ha, rfl⟩ := h
  simp; omega

/-- `Z_lo … Z_{hi-1} P_hi` is canonical -/
theorem sorted_zs_snoc (lo hi p : Nat) (hp : p ≠ 0) : SortedQ (zs lo hi ++ [(hi, p)]) := by
  constructor
  · rw [List.pairwise_append]
    refine ⟨zs_pairwise lo hi, by simp, ?_⟩
    intro a ha b hb
    simp at hb; subst hb
    exact (zs_mem ha).2.1
  · intro f hf
    rcases List.mem_append.1 hf with h | h
    · rw [(zs_mem h).2.2]; decide
    · simp at h; subst h; exact hp

/-! ### the ladder image -/

def yCoef (a : Nat) : GQ := if a != 0 then ⟨0, -(mkRat 1 2)⟩ else ⟨0, mkRat 1 2⟩

theorem normSq_yCoef (a : Nat) : (0 + yCoef a).normSq = 1 / 4 := by
  unfold yCoef GQ.normSq
  split <;> simp <;> norm_num [Rat.mkRat_eq_div]

/-- `lookup_ladder_terms[(j, a)]` is `½ Z_0…Z_{j-1} X_j ∓ (i/2) Z_0…Z_{j-1} Y_j` (two entries), provided
the deletion threshold of `+=` is at most `1/2` (it is `1e-8`). -/
theorem jwLadder_eq (tol : Rat) (htol : tol * tol ≤ 1 / 4) (j a : Nat) :
    jwLadder tol j a = [(zs 0 j ++ [(j, 1)], half), (zs 0 j ++ [(j, 2)], 0 + yCoef a)] := by
  have hne : ¬ (zs 0 j ++ [(j, 1)] = zs 0 j ++ [(j, 2)]) := by simp
  have hsmall : GQ.isSmall tol (0 + yCoef a) = false := by
    simp only [GQ.isSmall, normSq_yCoef, decide_eq_false_iff_not, not_lt]; exact htol
  unfold jwLadder
  simp only [mk_sorted (sorted_zs_snoc 0 j 1 (by decide)), mk_sorted (sorted_zs_snoc 0 j 2 (by decide))]
  simp only [iadd, List.foldl_cons, List.foldl_nil, Dict.getD, Dict.get?, hne, if_false, Option.getD_none]
  rw [show (if a != 0 then (⟨0, -(mkRat 1 2)⟩ : GQ) else ⟨0, mkRat 1 2⟩) = yCoef a from rfl, hsmall]
  simp [Dict.set, hne]

theorem jwLadder_valid (tol : Rat) (htol : tol * tol ≤ 1 / 4) (f : Nat × Nat) : ValidOp (jwLadder tol f.1 f.2) := by
  rw [jwLadder_eq tol htol]
  intro tc h
  simp at h
  rcases h with rfl | rfl <;>
  · intro g hg
    rcases List.mem_append.1 hg with h | h
    · exact zs_valid _ _ g h
    · simp at h; subst h; simp

theorem sgn_eq_ipow (k : Nat) : GQ.sgn k = GQ.ipow (2 * (k % 2)) := by
  unfold GQ.sgn GQ.ipow
  have : k % 2 = 0 ∨ k % 2 = 1 := by omega
  rcases this with h | h <;> simp [h]

/-- the fermionic action the Model's ladder image is compared with (`a = 0` annihilation, else creation) -/
def actJW (f : Nat × Nat) (m : Nat) : Option (GQ × Nat) :=
  match actF f.1 (if f.2 = 0 then 0 else 1) m with
  | none => none
  | some (k, m') => some (GQ.sgn k, m')

theorem act_x (j m : Nat) :
    actPTerm (zs 0 j ++ [(j, 1)]) m = ((0 + 2 * (countBelow m j % 2)) % 4, m ^^^ (1 <<< j)) := by
  rw [actPTerm_append, actPTerm_zs _ 0 j (Nat.zero_le _)]
  simp only [actPTerm_cons, actPTerm_nil, stepP, actP]
  rw [cnt_xflip m j 0 j (Or.inr (Nat.le_refl _)), countBelow_eq_cnt]

theorem act_y (j m : Nat) :
    actPTerm (zs 0 j ++ [(j, 2)]) m
      = (((0 + if m.testBit j then 3 else 1) % 4 + 2 * (countBelow m j % 2)) % 4, m ^^^ (1 <<< j)) := by
  rw [actPTerm_append, actPTerm_zs _ 0 j (Nat.zero_le _)]
  simp only [actPTerm_cons, actPTerm_nil, stepP, actP]
  rw [cnt_xflip m j 0 j (Or.inr (Nat.le_refl _)), countBelow_eq_cnt]
  all_goals rfl

theorem half_add_half : (⟨mkRat 1 2, 0⟩ : GQ) + ⟨mkRat 1 2, 0⟩ = 1 := by
  apply GQ.ext <;> simp <;> norm_num [Rat.mkRat_eq_div]
theorem y0_mul_I : (⟨0, mkRat 1 2⟩ : GQ) * GQ.I = -⟨mkRat 1 2, 0⟩ := by
  apply GQ.ext <;> simp
theorem y1_mul_I : (⟨0, -mkRat 1 2⟩ : GQ) * GQ.I = ⟨mkRat 1 2, 0⟩ := by
  apply GQ.ext <;> simp

/-- **Jordan-Wigner on one ladder operator**: on every basis state `|m⟩` the two Pauli strings of the
image add up to the fermionic action of `a_j^(†)` (sign `(-1)^{#occupied modes below j}`, or 0). -/
theorem jwLadder_sum (tol : Rat) (htol : tol * tol ≤ 1 / 4) (f : Nat × Nat) (m : Nat) (W : Nat → GQ) :
    ((jwLadder tol f.1 f.2).map fun r => r.2 * GQ.ipow (actPTerm r.1 m).1 * W (actPTerm r.1 m).2).sum
      = match actJW f m with
        | none => 0
        | some (c, m') => c * W m' := by
  obtain ⟨j, a⟩ := f
  rw [jwLadder_eq tol htol]
  simp only [List.map_cons, List.map_nil, List.sum_cons, List.sum_nil, act_x, act_y, actJW, actF]
  have hc : countBelow m j % 2 = 0 ∨ countBelow m j % 2 = 1 := by omega
  by_cases ha : a = 0 <;> by_cases hb : m.testBit j <;> rcases hc with hc | hc <;>
    simp [ha, hb, hc, yCoef, half, GQ.ipow, GQ.sgn] <;>
    simp only [y0_mul_I, y1_mul_I] <;>
    first
      | linear_combination (W (m ^^^ 1 <<< j)) * half_add_half
      | linear_combination (-W (m ^^^ 1 <<< j)) * half_add_half
      | linear_combination (0 : GQ) * half_add_half

end Sem
end OFV
