/- C17: the ladder-operator identities behind the chemist reordering and the RDM maps, in an arbitrary ring with
elements satisfying the canonical anticommutation relations.  (Noncommutative ring normalisation + the CAR.) -/
import Mathlib.Tactic.NoncommRing
import Mathlib.Tactic.Abel

namespace OFV
namespace Car

variable {R : Type} [Ring R]

/-- Kronecker delta in the ring -/
def dl (i j : Nat) : R := if i = j then 1 else 0

theorem dl_cases (i j : Nat) : (dl i j : R) = 0 ∨ (dl i j : R) = 1 := by
  unfold dl; by_cases h : i = j <;> simp [h]

theorem dl_comm (i j : Nat) : (dl i j : R) = dl j i := by
  unfold dl
  by_cases h : i = j
  · subst h; rfl
  · have : ¬ j = i := fun h' => h h'.symm
    simp [h, this]

/-- canonical anticommutation relations for the creators `ad i` and annihilators `a i` of the modes `i < n` -/
structure CAR (n : Nat) (ad a : Nat → R) : Prop where
  aa : ∀ i j, i < n → j < n → a i * a j + a j * a i = 0
  dd : ∀ i j, i < n → j < n → ad i * ad j + ad j * ad i = 0
  ad : ∀ i j, i < n → j < n → a i * ad j + ad j * a i = dl i j

theorem chemist_key (P Q Rr S d : R) (b : d = 0 ∨ d = 1) :
    P * Q * Rr * S - (P * S * Q * Rr - d * (P * Rr)) =
      P * Q * (Rr * S + S * Rr) - P * (S * Q + Q * S - d) * Rr := by
  rcases b with rfl | rfl <;> noncomm_ring

theorem ph_key (P Q Rr S d : R) (b : d = 0 ∨ d = 1) :
    P * Rr * Q * S - (d * (P * S) - P * Q * Rr * S) = P * (Rr * Q + Q * Rr - d) * S := by
  rcases b with rfl | rfl <;> noncomm_ring

theorem two_hole_key (S Rr Q P dqr dps dpr dqs : R)
    (b1 : dqr = 0 ∨ dqr = 1) (b2 : dps = 0 ∨ dps = 1) (b3 : dpr = 0 ∨ dpr = 1) (b4 : dqs = 0 ∨ dqs = 1) :
    S * Rr * Q * P -
        (P * Q * Rr * S - (dqr * (P * S) + dps * (Q * Rr)) + (dpr * (Q * S) + dqs * (P * Rr))
          - (dqs * dpr - dps * dqr)) =
        S * (Rr * Q + Q * Rr - dqr) * P + dqr * (S * P + P * S - dps)
        - S * Q * (Rr * P + P * Rr - dpr) - dpr * (S * Q + Q * S - dqs)
        + (S * Q + Q * S - dqs) * P * Rr - Q * (S * P + P * S - dps) * Rr
        + ((Q * P + P * Q) * S * Rr - P * Q * (S * Rr + Rr * S)) := by
  rcases b1 with rfl | rfl <;> rcases b2 with rfl | rfl <;> rcases b3 with rfl | rfl <;> rcases b4 with rfl | rfl <;>
    noncomm_ring

theorem contraction_key (P Q Rd Ra d : R) (b : d = 0 ∨ d = 1) :
    P * Rd * Ra * Q - (P * Q * (Rd * Ra) - d * (P * Ra)) =
      P * Rd * (Ra * Q + Q * Ra) - P * (Q * Rd + Rd * Q - d) * Ra := by
  rcases b with rfl | rfl <;> noncomm_ring

variable {n : Nat} {ad a : Nat → R}

/-- `a†_p a†_q a_r a_s = a†_p a_s a†_q a_r − δ_qs a†_p a_r` -/
theorem chemist_reorder (h : CAR n ad a) (p q r s : Nat) (_hp : p < n) (hq : q < n) (hr : r < n) (hs : s < n) :
    ad p * ad q * a r * a s = ad p * a s * ad q * a r - dl q s * (ad p * a r) := by
  have key := chemist_key (ad p) (ad q) (a r) (a s) (dl q s) (dl_cases q s)
  have e : a s * ad q + ad q * a s - (dl q s : R) = 0 := by rw [dl_comm q s]; exact sub_eq_zero.mpr (h.ad s q hs hq)
  rw [h.aa r s hr hs, e] at key
  simp at key
  exact sub_eq_zero.mp key

/-- `a†_p a_r a†_q a_s = δ_qr a†_p a_s − a†_p a†_q a_r a_s` -/
theorem particle_hole (h : CAR n ad a) (p q r s : Nat) (hq : q < n) (hr : r < n) :
    ad p * a r * ad q * a s = dl q r * (ad p * a s) - ad p * ad q * a r * a s := by
  have key := ph_key (ad p) (ad q) (a r) (a s) (dl q r) (dl_cases q r)
  have e : a r * ad q + ad q * a r - (dl q r : R) = 0 := by rw [dl_comm q r]; exact sub_eq_zero.mpr (h.ad r q hr hq)
  rw [e] at key
  simp at key
  exact sub_eq_zero.mp key

/-- `a_s a_r a†_q a†_p = a†_p a†_q a_r a_s − term1 − term2 − term3` with the terms of `rdm_mapping_functions.py` -/
theorem two_hole (h : CAR n ad a) (p q r s : Nat) (hp : p < n) (hq : q < n) (hr : r < n) (hs : s < n) :
    a s * a r * ad q * ad p =
      ad p * ad q * a r * a s - (dl q r * (ad p * a s) + dl p s * (ad q * a r))
        + (dl p r * (ad q * a s) + dl q s * (ad p * a r)) - (dl q s * dl p r - dl p s * dl q r) := by
  have key := two_hole_key (a s) (a r) (ad q) (ad p) (dl q r) (dl p s) (dl p r) (dl q s)
    (dl_cases q r) (dl_cases p s) (dl_cases p r) (dl_cases q s)
  have e1 : a r * ad q + ad q * a r - (dl q r : R) = 0 := by rw [dl_comm q r]; exact sub_eq_zero.mpr (h.ad r q hr hq)
  have e2 : a s * ad p + ad p * a s - (dl p s : R) = 0 := by rw [dl_comm p s]; exact sub_eq_zero.mpr (h.ad s p hs hp)
  have e3 : a r * ad p + ad p * a r - (dl p r : R) = 0 := by rw [dl_comm p r]; exact sub_eq_zero.mpr (h.ad r p hr hp)
  have e4 : a s * ad q + ad q * a s - (dl q s : R) = 0 := by rw [dl_comm q s]; exact sub_eq_zero.mpr (h.ad s q hs hq)
  rw [e1, e2, e3, e4, h.dd q p hq hp, h.aa s r hs hr] at key
  simp at key
  exact sub_eq_zero.mp key

/-- `a†_p a†_r a_r a_q = a†_p a_q (a†_r a_r) − δ_rq a†_p a_r` (summed over `r`: `a†_p a_q (N̂ − 1)`) -/
theorem contraction_term (h : CAR n ad a) (p q r : Nat) (hq : q < n) (hr : r < n) :
    ad p * ad r * a r * a q = ad p * a q * (ad r * a r) - dl r q * (ad p * a r) := by
  have key := contraction_key (ad p) (a q) (ad r) (a r) (dl r q) (dl_cases r q)
  have e : a q * ad r + ad r * a q - (dl r q : R) = 0 := by rw [dl_comm r q]; exact sub_eq_zero.mpr (h.ad q r hq hr)
  rw [h.aa r q hr hq, e] at key
  simp at key
  exact sub_eq_zero.mp key

end Car
end OFV
