/-
C07 — helper lemmas about the fermionic Spec action (`actF`, `actFTerm`):
composition algebra of partial signed maps, the canonical anticommutation relations for
distinct modes, adjoints of ladder operators, conservation of occupation numbers.
Core Lean only.
-/
import OFV.Spec.Basic
import OFV.Proofs.Bits
import OFV.Model.C07
import OFV.Spec.C07

namespace OFV
namespace Proofs
namespace C07F
open OFV.Spec

abbrev Term := List (Nat × Nat)

/-- partial signed maps on Fock basis states: `none` = 0, `some (k, s')` = `(-1)^k |s'⟩` -/
abbrev FMap := Nat → Option (Nat × Nat)

/-- `g` first, then `f` -/
def fcomp (f g : FMap) : FMap := fun s =>
  match g s with
  | none => none
  | some (k, s') =>
    match f s' with
    | none => none
    | some (k', s'') => some ((k + k') % 2, s'')

/-- multiply by `(-1)^n` -/
def fneg (n : Nat) (f : FMap) : FMap := fun s =>
  match f s with
  | none => none
  | some (k, s') => some ((k + n) % 2, s')

def fid : FMap := fun s => some (0, s)
def fzero : FMap := fun _ => none
def ffac (x : Nat × Nat) : FMap := actF x.1 x.2

/-- signs are reduced mod 2 -/
def Red (f : FMap) : Prop := ∀ s k s', f s = some (k, s') → k < 2

theorem actFTerm_nil : actFTerm [] = fid := by
  funext s; simp [actFTerm, fid]

theorem actFTerm_cons (x : Nat × Nat) (t : Term) : actFTerm (x :: t) = fcomp (ffac x) (actFTerm t) := by
  funext s
  simp only [actFTerm, List.foldr_cons, fcomp, ffac]
  cases h : List.foldr _ (some (0, s)) t with
  | none => rfl
  | some r => rfl

theorem red_ffac (x : Nat × Nat) : Red (ffac x) := by
  intro s k s' h
  simp only [ffac, actF] at h
  split at h
  · cases h
  · cases h; omega

theorem red_fcomp (f g : FMap) : Red (fcomp f g) := by
  intro s k s' h
  simp only [fcomp] at h
  split at h
  · cases h
  · split at h
    · cases h
    · cases h; omega

theorem red_fid : Red fid := by
  intro s k s' h; cases h; omega

theorem red_actFTerm (t : Term) : Red (actFTerm t) := by
  cases t with
  | nil => rw [actFTerm_nil]; exact red_fid
  | cons x t => rw [actFTerm_cons]; exact red_fcomp _ _

theorem fcomp_assoc (f g h : FMap) : fcomp (fcomp f g) h = fcomp f (fcomp g h) := by
  funext s
  simp only [fcomp]
  cases h s with
  | none => rfl
  | some r =>
    obtain ⟨k, s1⟩ := r
    simp only
    cases g s1 with
    | none => rfl
    | some r2 =>
      obtain ⟨k2, s2⟩ := r2
      simp only
      cases f s2 with
      | none => rfl
      | some r3 =>
        obtain ⟨k3, s3⟩ := r3
        simp only [Option.some.injEq, Prod.mk.injEq, and_true]
        omega

theorem fcomp_fid_left (f : FMap) (hf : Red f) : fcomp fid f = f := by
  funext s
  simp only [fcomp, fid]
  cases h : f s with
  | none => rfl
  | some r =>
    obtain ⟨k, s1⟩ := r
    have := hf s k s1 h
    simp only [Option.some.injEq, Prod.mk.injEq, and_true]
    omega

theorem fcomp_fid_right (f : FMap) (hf : Red f) : fcomp f fid = f := by
  funext s
  simp only [fcomp, fid]
  cases h : f s with
  | none => rfl
  | some r =>
    obtain ⟨k, s1⟩ := r
    have := hf s k s1 h
    simp only [Option.some.injEq, Prod.mk.injEq, and_true]
    omega

theorem fcomp_fzero_left (f : FMap) : fcomp fzero f = fzero := by
  funext s; simp only [fcomp, fzero]; cases f s <;> rfl

theorem fcomp_fzero_right (f : FMap) : fcomp f fzero = fzero := by
  funext s; simp [fcomp, fzero]

theorem fneg_fcomp_left (n : Nat) (f g : FMap) : fcomp (fneg n f) g = fneg n (fcomp f g) := by
  funext s
  simp only [fcomp, fneg]
  cases g s with
  | none => rfl
  | some r =>
    obtain ⟨k, s1⟩ := r
    simp only
    cases f s1 with
    | none => rfl
    | some r2 =>
      obtain ⟨k2, s2⟩ := r2
      simp only [Option.some.injEq, Prod.mk.injEq, and_true]
      omega

theorem fneg_fcomp_right (n : Nat) (f g : FMap) : fcomp f (fneg n g) = fneg n (fcomp f g) := by
  funext s
  simp only [fcomp, fneg]
  cases g s with
  | none => rfl
  | some r =>
    obtain ⟨k, s1⟩ := r
    simp only
    cases f s1 with
    | none => rfl
    | some r2 =>
      obtain ⟨k2, s2⟩ := r2
      simp only [Option.some.injEq, Prod.mk.injEq, and_true]
      omega

theorem fneg_fneg (n m : Nat) (f : FMap) : fneg n (fneg m f) = fneg (n + m) f := by
  funext s
  simp only [fneg]
  cases f s with
  | none => rfl
  | some r =>
    obtain ⟨k, s1⟩ := r
    simp only [Option.some.injEq, Prod.mk.injEq, and_true]
    omega

theorem fneg_congr (n m : Nat) (f : FMap) (h : n % 2 = m % 2) : fneg n f = fneg m f := by
  funext s
  simp only [fneg]
  cases f s with
  | none => rfl
  | some r =>
    obtain ⟨k, s1⟩ := r
    simp only [Option.some.injEq, Prod.mk.injEq, and_true]
    omega

theorem fneg_even (n : Nat) (f : FMap) (hf : Red f) (h : n % 2 = 0) : fneg n f = f := by
  funext s
  simp only [fneg]
  cases h' : f s with
  | none => rfl
  | some r =>
    obtain ⟨k, s1⟩ := r
    have := hf s k s1 h'
    simp only [Option.some.injEq, Prod.mk.injEq, and_true]
    omega

theorem actFTerm_append (a b : Term) : actFTerm (a ++ b) = fcomp (actFTerm a) (actFTerm b) := by
  induction a with
  | nil => rw [List.nil_append, actFTerm_nil, fcomp_fid_left _ (red_actFTerm b)]
  | cons x a ih => rw [List.cons_append, actFTerm_cons, actFTerm_cons, ih, fcomp_assoc]

/-! ### occupation counts below a mode -/

theorem countBelow_succ (s j : Nat) :
    countBelow s (j + 1) = countBelow s j + (if s.testBit j then 1 else 0) := by
  simp only [countBelow, List.range_succ, List.filter_append, List.length_append]
  cases h : s.testBit j <;> simp [List.filter, h]

/-- flipping bit `i` does not change the count below `j ≤ i` -/
theorem countBelow_xflip_ge (s i j : Nat) (h : j ≤ i) : countBelow (s ^^^ (1 <<< i)) j = countBelow s j := by
  induction j with
  | zero => simp [countBelow]
  | succ j ih =>
    rw [countBelow_succ, countBelow_succ, ih (by omega), testBit_xflip_ne s i j (by omega)]

/-- flipping bit `i < j` changes the parity of the count below `j` -/
theorem countBelow_xflip_lt (s i j : Nat) (h : i < j) :
    countBelow (s ^^^ (1 <<< i)) j % 2 = (countBelow s j + 1) % 2 := by
  induction j with
  | zero => omega
  | succ j ih =>
    rw [countBelow_succ, countBelow_succ]
    by_cases hij : i = j
    · subst hij
      rw [countBelow_xflip_ge s i i (Nat.le_refl _), testBit_xflip]
      cases s.testBit i <;> simp <;> omega
    · rw [testBit_xflip_ne s i j hij]
      have := ih (by omega)
      omega

/-! ### canonical anticommutation relations for distinct modes -/

theorem ffac_swap (i x j y : Nat) (hij : i ≠ j) :
    fcomp (ffac (i, x)) (ffac (j, y)) = fneg 1 (fcomp (ffac (j, y)) (ffac (i, x))) := by
  funext s
  have h1 := testBit_xflip_ne s j i (Ne.symm hij)
  have h2 := testBit_xflip_ne s i j hij
  have h3 := xflip_comm s i j
  simp only [fcomp, fneg, ffac, actF]
  by_cases c1 : ((y == 1) == s.testBit j) = true <;> by_cases c2 : ((x == 1) == s.testBit i) = true <;>
    simp [c1, c2, h1, h2, h3]
  rcases Nat.lt_or_gt_of_ne hij with hlt | hgt
  · have e1 := countBelow_xflip_ge s j i (Nat.le_of_lt hlt)
    have e2 := countBelow_xflip_lt s i j hlt
    omega
  · have e1 := countBelow_xflip_ge s i j (Nat.le_of_lt hgt)
    have e2 := countBelow_xflip_lt s j i hgt
    omega

/-- a ladder operator moves through a term not touching its mode at the price of `(-1)^{|t|}` -/
theorem ffac_term_swap (f : Nat × Nat) (t : Term) (h : ∀ g ∈ t, f.1 ≠ g.1) :
    fcomp (ffac f) (actFTerm t) = fneg t.length (fcomp (actFTerm t) (ffac f)) := by
  induction t with
  | nil =>
    rw [actFTerm_nil, fcomp_fid_left _ (red_ffac f), fcomp_fid_right _ (red_ffac f)]
    exact (fneg_even 0 _ (red_ffac f) rfl).symm
  | cons g t ih =>
    have hg := h g (by simp)
    obtain ⟨i, x⟩ := f
    obtain ⟨j, y⟩ := g
    rw [actFTerm_cons, ← fcomp_assoc, ffac_swap i x j y hg, fneg_fcomp_left, fcomp_assoc,
      ih (fun g' hg' => h g' (by simp [hg'])), fneg_fcomp_right, fneg_fneg, ← fcomp_assoc]
    apply fneg_congr
    simp only [List.length_cons]; omega

/-- terms on disjoint sets of modes commute up to `(-1)^{|a||b|}` -/
theorem term_swap_disjoint (a b : Term) (h : ∀ f ∈ a, ∀ g ∈ b, f.1 ≠ g.1) :
    actFTerm (a ++ b) = fneg (a.length * b.length) (actFTerm (b ++ a)) := by
  induction a with
  | nil =>
    simp only [List.nil_append, List.append_nil, List.length_nil, Nat.zero_mul]
    exact (fneg_even 0 _ (red_actFTerm b) rfl).symm
  | cons f a ih =>
    have e1 : b ++ f :: a = (b ++ [f]) ++ a := by simp
    rw [List.cons_append, actFTerm_cons, ih (fun f' hf' => h f' (by simp [hf'])), fneg_fcomp_right,
      actFTerm_append b a, ← fcomp_assoc, ffac_term_swap f b (h f (by simp)), fneg_fcomp_left, fneg_fneg, e1,
      actFTerm_append (b ++ [f]) a, actFTerm_append b [f], actFTerm_cons, actFTerm_nil,
      fcomp_fid_right _ (red_ffac f)]
    apply fneg_congr
    simp only [List.length_cons, Nat.add_mul, Nat.one_mul]

theorem term_comm_disjoint_even (a b : Term) (h : ∀ f ∈ a, ∀ g ∈ b, f.1 ≠ g.1)
    (he : a.length % 2 = 0 ∨ b.length % 2 = 0) : actFTerm (a ++ b) = actFTerm (b ++ a) := by
  rw [term_swap_disjoint a b h]
  apply fneg_even _ _ (red_actFTerm _)
  rcases he with he | he
  · rw [Nat.mul_mod, he]; simp
  · rw [Nat.mul_mod, he]; simp

/-! ### adjoints -/

/-- `g` is the adjoint (transpose; the signs are real) of `f` -/
def Adj (f g : FMap) : Prop := ∀ s s' k, f s = some (k, s') ↔ g s' = some (k, s)

theorem adj_fcomp {f f' g g' : FMap} (hf : Adj f f') (hg : Adj g g') : Adj (fcomp f g) (fcomp g' f') := by
  intro s s' k
  simp only [fcomp]
  constructor
  · intro h
    cases hgs : g s with
    | none => simp [hgs] at h
    | some r =>
      obtain ⟨k1, s1⟩ := r
      simp only [hgs] at h
      cases hfs : f s1 with
      | none => simp [hfs] at h
      | some r2 =>
        obtain ⟨k2, s2⟩ := r2
        simp only [hfs, Option.some.injEq, Prod.mk.injEq] at h
        obtain ⟨hk, hs⟩ := h
        subst hs
        rw [(hf s1 s2 k2).mp hfs]
        simp only
        rw [(hg s s1 k1).mp hgs]
        simp only [Option.some.injEq, Prod.mk.injEq, and_true]
        omega
  · intro h
    cases hfs : f' s' with
    | none => simp [hfs] at h
    | some r =>
      obtain ⟨k2, s1⟩ := r
      simp only [hfs] at h
      cases hgs : g' s1 with
      | none => simp [hgs] at h
      | some r2 =>
        obtain ⟨k1, s2⟩ := r2
        simp only [hgs, Option.some.injEq, Prod.mk.injEq] at h
        obtain ⟨hk, hs⟩ := h
        subst hs
        rw [(hg s2 s1 k1).mpr hgs]
        simp only
        rw [(hf s1 s' k2).mpr hfs]
        simp only [Option.some.injEq, Prod.mk.injEq, and_true]
        omega

theorem adj_fid : Adj fid fid := by
  intro s s' k
  simp only [fid, Option.some.injEq, Prod.mk.injEq]
  constructor <;> (intro h; exact ⟨h.1, h.2.symm⟩)

/-- `a_j† ` and `a_j` are adjoint to each other (actions 0 / 1) -/
theorem adj_ffac (j a : Nat) (ha : a ≤ 1) : Adj (ffac (j, a)) (ffac (j, 1 - a)) := by
  intro s s' k
  have h1 := testBit_xflip s j
  have h2 := xflip_xflip s j
  have h1' := testBit_xflip s' j
  have h2' := xflip_xflip s' j
  have hc := countBelow_xflip_ge s j j (Nat.le_refl _)
  have hc' := countBelow_xflip_ge s' j j (Nat.le_refl _)
  have ha' : a = 0 ∨ a = 1 := by omega
  simp only [ffac, actF]
  rcases ha' with rfl | rfl
  · constructor
    · intro h
      split at h
      · cases h
      · rename_i hb
        simp only [Option.some.injEq, Prod.mk.injEq] at h
        obtain ⟨hk, hs⟩ := h
        subst hs
        simp_all
    · intro h
      split at h
      · cases h
      · rename_i hb
        simp only [Option.some.injEq, Prod.mk.injEq] at h
        obtain ⟨hk, hs⟩ := h
        subst hs
        simp_all
  · constructor
    · intro h
      split at h
      · cases h
      · rename_i hb
        simp only [Option.some.injEq, Prod.mk.injEq] at h
        obtain ⟨hk, hs⟩ := h
        subst hs
        simp_all
    · intro h
      split at h
      · cases h
      · rename_i hb
        simp only [Option.some.injEq, Prod.mk.injEq] at h
        obtain ⟨hk, hs⟩ := h
        subst hs
        simp_all

open OFV.Model.C07 in
theorem hcTermF_cons (x : Nat × Nat) (t : Term) : hcTermF (x :: t) = hcTermF t ++ [(x.1, 1 - x.2)] := by
  simp [hcTermF]

/-- ladder actions are 0 (annihilation) or 1 (creation) -/
def Ladder (t : Term) : Prop := ∀ f ∈ t, f.2 ≤ 1

open OFV.Model.C07 in
/-- reverse-and-flip is the adjoint of a product of ladder operators -/
theorem adj_term (t : Term) (h : Ladder t) : Adj (actFTerm t) (actFTerm (hcTermF t)) := by
  induction t with
  | nil => simp only [hcTermF, List.reverse_nil, List.map_nil, actFTerm_nil]; exact adj_fid
  | cons x t ih =>
    rw [hcTermF_cons, actFTerm_cons, actFTerm_append, actFTerm_cons, actFTerm_nil,
      fcomp_fid_right _ (red_ffac _)]
    exact adj_fcomp (adj_ffac x.1 x.2 (h x (by simp))) (ih (fun f hf => h f (by simp [hf])))

open OFV.Model.C07 in
theorem hcTermF_involutive (t : Term) (h : Ladder t) : hcTermF (hcTermF t) = t := by
  induction t with
  | nil => rfl
  | cons x t ih =>
    have hx := h x (by simp)
    have e : hcTermF (hcTermF t ++ [(x.1, 1 - x.2)]) = (x.1, 1 - (1 - x.2)) :: hcTermF (hcTermF t) := by
      simp [hcTermF]
    rw [hcTermF_cons, e, ih (fun f hf => h f (by simp [hf]))]
    have : 1 - (1 - x.2) = x.2 := by omega
    rw [this]

theorem conj_conj (c : GQ) : c.conj.conj = c := by
  cases c; simp [GQ.conj]

/-! ### dictionaries: assignment under fresh keys appends -/

theorem set_fresh {κ α : Type} [DecidableEq κ] (d : List (κ × α)) (k : κ) (v : α) (h : k ∉ Dict.keys d) :
    Dict.set d k v = d ++ [(k, v)] := by
  induction d with
  | nil => rfl
  | cons e d ih =>
    obtain ⟨k', v'⟩ := e
    simp only [Dict.keys, List.map_cons, List.mem_cons, not_or] at h
    have hne : ¬ k' = k := fun e => h.1 e.symm
    simp only [Dict.set, hne, if_false, List.cons_append]
    rw [ih (by simpa [Dict.keys] using h.2)]

theorem foldl_set_fresh {κ α : Type} [DecidableEq κ] (φ : κ → κ) (ψ : α → α) (A acc : List (κ × α))
    (h : (Dict.keys acc ++ (Dict.keys A).map φ).Nodup) :
    A.foldl (fun acc e => Dict.set acc (φ e.1) (ψ e.2)) acc = acc ++ A.map (fun e => (φ e.1, ψ e.2)) := by
  induction A generalizing acc with
  | nil => simp
  | cons e A ih =>
    simp only [List.foldl_cons, List.map_cons]
    have hfresh : φ e.1 ∉ Dict.keys acc := by
      intro hm
      simp only [Dict.keys, List.map_cons] at h
      have := (List.nodup_append.mp h).2.2 _ hm (φ e.1) (by simp)
      exact this rfl
    rw [set_fresh acc _ _ hfresh, ih]
    · simp
    · simp only [Dict.keys, List.map_append, List.map_cons, List.map_nil, List.append_assoc,
        List.cons_append, List.nil_append] at h ⊢
      exact h

/-! ### occupation numbers change by the net number of creations minus annihilations -/

def bitI (s m : Nat) : Int := if s.testBit m then 1 else 0

theorem bitI_range (s m : Nat) : 0 ≤ bitI s m ∧ bitI s m ≤ 1 := by
  unfold bitI; split <;> omega

/-- net change of the occupation of mode `m` (any action other than 1 annihilates, as in `actF`) -/
def net (m : Nat) : Term → Int
  | [] => 0
  | f :: t => (if f.1 = m then (if f.2 = 1 then 1 else -1) else 0) + net m t

theorem net_append (m : Nat) (a b : Term) : net m (a ++ b) = net m a + net m b := by
  induction a with
  | nil => simp [net]
  | cons f a ih => simp only [List.cons_append, net, ih]; omega

theorem fcomp_some {f g : FMap} {s k s' : Nat} (h : fcomp f g s = some (k, s')) :
    ∃ k1 s1 k2, g s = some (k1, s1) ∧ f s1 = some (k2, s') ∧ k = (k1 + k2) % 2 := by
  simp only [fcomp] at h
  cases hg : g s with
  | none => simp [hg] at h
  | some r =>
    obtain ⟨k1, s1⟩ := r
    simp only [hg] at h
    cases hf : f s1 with
    | none => simp [hf] at h
    | some r2 =>
      obtain ⟨k2, s2⟩ := r2
      simp only [hf, Option.some.injEq, Prod.mk.injEq] at h
      exact ⟨k1, s1, k2, rfl, by rw [hf, h.2], h.1.symm⟩

theorem ffac_bit {x : Nat × Nat} {s k s' : Nat} (h : ffac x s = some (k, s')) (m : Nat) :
    bitI s' m = bitI s m + (if x.1 = m then (if x.2 = 1 then 1 else -1) else 0) := by
  obtain ⟨j, a⟩ := x
  simp only [ffac, actF] at h
  split at h
  · cases h
  · rename_i hc
    simp only [Option.some.injEq, Prod.mk.injEq] at h
    obtain ⟨_, hs⟩ := h
    subst hs
    by_cases hjm : j = m
    · subst hjm
      simp only [bitI, testBit_xflip, if_true]
      by_cases ha : a = 1
      · subst ha; cases hb : s.testBit j <;> simp_all
      · have : (a == 1) = false := by simp [ha]
        cases hb : s.testBit j <;> simp_all
    · simp only [bitI, testBit_xflip_ne s j m hjm, hjm, if_false]; omega

/-- occupation-number bookkeeping: if the term does not annihilate the state, every mode's
occupation changes by the net count -/
theorem actFTerm_bit (t : Term) : ∀ {s k s' : Nat}, actFTerm t s = some (k, s') →
    ∀ m, bitI s' m = bitI s m + net m t := by
  induction t with
  | nil =>
    intro s k s' h m
    rw [actFTerm_nil] at h
    simp only [fid, Option.some.injEq, Prod.mk.injEq] at h
    rw [h.2]; simp [net]
  | cons x t ih =>
    intro s k s' h m
    rw [actFTerm_cons] at h
    obtain ⟨k1, s1, k2, h1, h2, _⟩ := fcomp_some h
    have e1 := ih h1 m
    have e2 := ffac_bit h2 m
    simp only [net]; omega

/-- a term that creates (or annihilates) some mode twice net is the zero operator -/
theorem actFTerm_zero_of_net (t : Term) (m : Nat) (h : 2 ≤ net m t ∨ net m t ≤ -2) : actFTerm t = fzero := by
  funext s
  cases hs : actFTerm t s with
  | none => rfl
  | some r =>
    obtain ⟨k, s'⟩ := r
    have := actFTerm_bit t hs m
    have r1 := bitI_range s m
    have r2 := bitI_range s' m
    omega

theorem eq_of_bitI_eq {s s' : Nat} (h : ∀ m, bitI s' m = bitI s m) : s' = s := by
  apply Nat.eq_of_testBit_eq
  intro m
  have := h m
  simp only [bitI] at this
  cases h1 : s'.testBit m <;> cases h2 : s.testBit m <;> simp_all

/-- diagonal maps: the basis state is kept (up to sign) or annihilated -/
def Diag (f : FMap) : Prop := ∀ s k s', f s = some (k, s') → s' = s

theorem diag_of_balanced (t : Term) (h : ∀ m, net m t = 0) : Diag (actFTerm t) := by
  intro s k s' hs
  apply eq_of_bitI_eq
  intro m
  have := actFTerm_bit t hs m
  rw [h m] at this
  omega

theorem diag_comm {f g : FMap} (hf : Diag f) (hg : Diag g) : fcomp f g = fcomp g f := by
  funext s
  simp only [fcomp]
  cases h1 : g s with
  | none =>
    cases h2 : f s with
    | none => rfl
    | some r =>
      obtain ⟨k, s'⟩ := r
      have := hf s k s' h2
      subst this
      simp [h1]
  | some r =>
    obtain ⟨k, s'⟩ := r
    have := hg s k s' h1
    subst this
    simp only
    cases h2 : f s' with
    | none => rfl
    | some r2 =>
      obtain ⟨k2, s2⟩ := r2
      have := hf s' k2 s2 h2
      subst this
      simp only [h1, Option.some.injEq, Prod.mk.injEq, and_true]
      omega

end C07F
end Proofs
end OFV
