/-
C07 — the formal involution of `hermitian_conjugated` on BosonOperator words IS the adjoint for the
Fock (Bargmann) inner product of the polynomial representation: `⟨x^e, x^e'⟩ = δ_{e e'} Π e_i!`.
For a ladder word `t` with `t x^{e0} = K x^{e1}`, the reversed-and-flipped word satisfies
`t† x^{e1} = K' x^{e0}` with `K' Π e0_i! = K Π e1_i!`, i.e. `⟨x^{e1}, t x^{e0}⟩ = ⟨t† x^{e1}, x^{e0}⟩`.
Core Lean only.
-/
import OFV.Proofs.SpecBoson
import OFV.Proofs.C06Boson
import OFV.Proofs.C07Ops
import OFV.Proofs.C07Fermi

namespace OFV
namespace Proofs
namespace C07A
open OFV.Spec OFV.Model OFV.Model.C07 OFV.Proofs.C06B

/-- canonical exponent vector (no trailing zeros) -/
def Canon (e : Mono) : Prop := trimZeros e = e

theorem trim_idem (e : Mono) : trimZeros (trimZeros e) = trimZeros e :=
  trimZeros_ext _ _ (fun i => expGet_trimZeros e i)

theorem canon_expSet (e : Mono) (j v : Nat) : Canon (expSet e j v) := by
  unfold Canon expSet; exact trim_idem _

theorem canon_ext (a b : Mono) (ha : Canon a) (hb : Canon b) (h : ∀ i, expGet a i = expGet b i) : a = b := by
  rw [← ha, ← hb]; exact trimZeros_ext a b h

theorem wfact_trim : ∀ (e : Mono), wfact (trimZeros e) = wfact e
  | [] => rfl
  | a :: r => by
    have ih := wfact_trim r
    simp only [trimZeros]
    split
    · rename_i h
      obtain ⟨h1, h2⟩ := h
      subst h2
      rw [h1] at ih
      simp only [wfact, fct] at ih ⊢
      omega
    · simp only [wfact, ih]

theorem wfact_append_zeros (e : Mono) (n : Nat) : wfact (e ++ List.replicate n 0) = wfact e := by
  induction e with
  | nil =>
    induction n with
    | zero => rfl
    | succ n ih => simp only [List.nil_append] at ih ⊢; simp [List.replicate_succ, wfact, fct, ih]
  | cons a r ih => simp only [List.cons_append, wfact, ih]

/-- the padded list `expSet` works on -/
def pad (e : Mono) (j : Nat) : Mono := if j < e.length then e else e ++ List.replicate (j + 1 - e.length) 0

theorem pad_length (e : Mono) (j : Nat) : j < (pad e j).length := by
  unfold pad; split
  · assumption
  · simp; omega

theorem wfact_pad (e : Mono) (j : Nat) : wfact (pad e j) = wfact e := by
  unfold pad; split
  · rfl
  · exact wfact_append_zeros _ _

theorem pad_getD (e : Mono) (j : Nat) : (pad e j).getD j 0 = expGet e j := by
  unfold pad expGet; split
  · rfl
  · rename_i h
    rw [List.getD_eq_getElem?_getD, List.getD_eq_getElem?_getD, List.getElem?_append_right (by omega),
      List.getElem?_eq_none (by omega : e.length ≤ j)]
    simp only [List.getElem?_replicate]
    split <;> rfl

theorem expSet_eq (e : Mono) (j v : Nat) : expSet e j v = trimZeros ((pad e j).set j v) := rfl

theorem wfact_expSet_succ (e : Mono) (j : Nat) :
    wfact (expSet e j (expGet e j + 1)) = wfact e * (expGet e j + 1) := by
  rw [expSet_eq, wfact_trim, ← pad_getD, wfact_set_succ _ _ (pad_length e j), wfact_pad]

theorem wfact_expSet_pred (e : Mono) (j : Nat) (h : expGet e j ≠ 0) :
    wfact (expSet e j (expGet e j - 1)) * expGet e j = wfact e := by
  have h' : (pad e j).getD j 0 ≠ 0 := by rwa [pad_getD]
  rw [expSet_eq, wfact_trim, ← pad_getD, wfact_set_pred _ _ (pad_length e j) h', wfact_pad]

/-! ### one ladder operator -/

theorem ofInt_one : GQ.ofInt 1 = 1 := by apply GQ.ext <;> simp [GQ.ofInt]

theorem ofNat_mul (a b : Nat) : GQ.ofInt (a : Int) * GQ.ofInt (b : Int) = GQ.ofInt ((a * b : Nat) : Int) := by
  rw [ofInt_mul]; congr 1

/-- adjointness for a single factor: if `g x^e = c x^{e'}` then `g† x^{e'} = c' x^e` with
`c' Π e_i! = c Π e'_i!` -/
theorem factor_adjoint (j a : Nat) (ha : a ≤ 1) (e : Mono) (he : Canon e) (c : GQ) (e' : Mono)
    (h : actB j a e = some (c, e')) :
    Canon e' ∧ ∃ C C' : Nat, c = GQ.ofInt (C : Int) ∧ actB j (1 - a) e' = some (GQ.ofInt (C' : Int), e) ∧
      C' * wfact e = C * wfact e' := by
  have hcases : a = 1 ∨ a = 0 := by omega
  rcases hcases with rfl | rfl
  · -- creation: `x_j ·`, undone by `∂_j`
    simp only [actB, beq_self_eq_true, if_true, Option.some.injEq, Prod.mk.injEq] at h
    obtain ⟨rfl, rfl⟩ := h
    refine ⟨canon_expSet _ _ _, 1, expGet e j + 1, ofInt_one.symm, ?_, ?_⟩
    · have hk : expGet (raiseX j e) j = expGet e j + 1 := by simp [raiseX, expGet_expSet]
      have hback : expSet (raiseX j e) j (expGet e j + 1 - 1) = e := by
        apply canon_ext _ _ (canon_expSet _ _ _) he
        intro i
        simp only [raiseX, expGet_expSet]
        by_cases hi : i = j
        · subst hi; simp
        · simp [hi]
      simp only [actB, lowerX, hk, Nat.sub_self, show ((0 : Nat) == 1) = false from rfl, Bool.false_eq_true, if_false,
        Nat.succ_ne_zero, hback]
    · rw [show raiseX j e = expSet e j (expGet e j + 1) from rfl, wfact_expSet_succ]
      simp [Nat.mul_comm]
  · -- annihilation: `∂_j`, undone by `x_j ·`
    simp only [actB, show ((0 : Nat) == 1) = false from rfl, Bool.false_eq_true, if_false, lowerX] at h
    by_cases hk : expGet e j = 0
    · simp [hk] at h
    · simp only [hk, if_false, Option.some.injEq, Prod.mk.injEq] at h
      obtain ⟨rfl, rfl⟩ := h
      refine ⟨canon_expSet _ _ _, expGet e j, 1, rfl, ?_, ?_⟩
      · have hback : raiseX j (expSet e j (expGet e j - 1)) = e := by
          apply canon_ext _ _ (canon_expSet _ _ _) he
          intro i
          simp only [raiseX, expGet_expSet]
          by_cases hi : i = j
          · subst hi; simp; omega
          · simp [hi]
        simp only [actB, Nat.sub_zero, beq_self_eq_true, if_true, hback]
        rw [show ((1 : Nat) : Int) = 1 from rfl, ofInt_one]
      · rw [Nat.one_mul, Nat.mul_comm, wfact_expSet_pred e j hk]

/-! ### words -/

/-- a fold started with coefficient `c0` is the fold started with `1`, scaled -/
theorem foldr_scale (l : List (Nat × Nat)) (c0 : GQ) (e : Mono) :
    l.foldr (stepW actB) (some (c0, e)) =
      (l.foldr (stepW actB) (some (1, e))).map fun p => (p.1 * c0, p.2) := by
  induction l with
  | nil => simp [GQ.one_mul']
  | cons f l ih =>
    simp only [List.foldr_cons, ih]
    cases l.foldr (stepW actB) (some (1, e)) with
    | none => rfl
    | some p =>
      obtain ⟨c, e'⟩ := p
      simp only [Option.map_some, stepW]
      cases actB f.1 f.2 e' with
      | none => rfl
      | some q => simp [GQ.mul_assoc']

/-- **the reversed-and-flipped word is the adjoint** for the inner product `⟨x^e, x^e'⟩ = δ Π e_i!` -/
theorem word_adjoint (t : List (Nat × Nat)) (ht : ∀ f ∈ t, f.2 ≤ 1) (e0 : Mono) (h0 : Canon e0) :
    ∀ (c : GQ) (e1 : Mono), actTermWith actB t e0 = some (c, e1) →
      Canon e1 ∧ ∃ K K' : Nat, c = GQ.ofInt (K : Int) ∧
        actTermWith actB (hcTermF t) e1 = some (GQ.ofInt (K' : Int), e0) ∧ K' * wfact e0 = K * wfact e1 := by
  induction t with
  | nil =>
    intro c e1 h
    simp only [actTermWith, List.foldr_nil, Option.some.injEq, Prod.mk.injEq] at h
    obtain ⟨rfl, rfl⟩ := h
    exact ⟨h0, 1, 1, ofInt_one.symm, by simp [hcTermF, actTermWith, ofInt_one], rfl⟩
  | cons f t ih =>
    intro c e1 h
    rw [actTermWith_cons] at h
    cases hi : actTermWith actB t e0 with
    | none => rw [hi] at h; simp at h
    | some p =>
      obtain ⟨ct, e'⟩ := p
      rw [hi] at h
      simp only at h
      cases hf : actB f.1 f.2 e' with
      | none => rw [hf] at h; simp at h
      | some q =>
        obtain ⟨cf, e''⟩ := q
        rw [hf] at h
        simp only [Option.some.injEq, Prod.mk.injEq] at h
        obtain ⟨rfl, rfl⟩ := h
        obtain ⟨hc', K, K', rfl, hadj, hw⟩ := ih (fun g hg => ht g (by simp [hg])) ct e' hi
        obtain ⟨hc'', C, C', rfl, hfadj, hfw⟩ := factor_adjoint f.1 f.2 (ht f (by simp)) e' hc' cf e'' hf
        refine ⟨hc'', C * K, K' * C', ofNat_mul C K, ?_, ?_⟩
        · have hh : hcTermF (f :: t) = hcTermF t ++ [(f.1, 1 - f.2)] := by simp [hcTermF]
          rw [hh, actTermWith_eq, List.foldr_append]
          simp only [List.foldr_cons, List.foldr_nil, stepW, hfadj]
          rw [foldr_scale, ← actTermWith_eq, hadj]
          simp only [Option.map_some, GQ.mul_one', ofNat_mul]
        · calc K' * C' * wfact e0 = C' * (K' * wfact e0) := by
                rw [Nat.mul_comm K' C', Nat.mul_assoc]
            _ = C' * (K * wfact e') := by rw [hw]
            _ = K * (C' * wfact e') := by rw [← Nat.mul_assoc, Nat.mul_comm C' K, Nat.mul_assoc]
            _ = K * (C * wfact e'') := by rw [hfw]
            _ = C * K * wfact e'' := by rw [← Nat.mul_assoc, Nat.mul_comm K C]

/-! ### matrix elements -/

/-- coefficient of `x^{e_out}` in `t x^{e_in}` -/
def melB (t : List (Nat × Nat)) (eIn eOut : Mono) : GQ :=
  match actTermWith actB t eIn with
  | some (c, e) => if e = eOut then c else 0
  | none => 0

theorem hcTermF_ladder (t : List (Nat × Nat)) : ∀ f ∈ hcTermF t, f.2 ≤ 1 := by
  intro f hf
  simp only [hcTermF, List.mem_map, List.mem_reverse] at hf
  obtain ⟨g, _, rfl⟩ := hf
  simp only; omega

theorem ofNat_mul_eq {a b c d : Nat} (h : a * b = c * d) :
    GQ.ofInt (a : Int) * GQ.ofInt (b : Int) = GQ.ofInt (c : Int) * GQ.ofInt (d : Int) := by
  rw [ofNat_mul, ofNat_mul, h]

/-- `⟨x^{e1}, t x^{e0}⟩ = ⟨t† x^{e1}, x^{e0}⟩` in the Bargmann inner product, all matrix elements -/
theorem melB_adjoint (t : List (Nat × Nat)) (ht : ∀ f ∈ t, f.2 ≤ 1) (e0 e1 : Mono) (h0 : Canon e0) (h1 : Canon e1) :
    melB t e0 e1 * GQ.ofInt (wfact e1 : Int) = melB (hcTermF t) e1 e0 * GQ.ofInt (wfact e0 : Int) := by
  have hinv : hcTermF (hcTermF t) = t := OFV.Proofs.C07F.hcTermF_involutive t ht
  unfold melB
  cases hA : actTermWith actB t e0 with
  | some p =>
    obtain ⟨c, e⟩ := p
    by_cases he : e = e1
    · subst he
      obtain ⟨_, K, K', rfl, hadj, hw⟩ := word_adjoint t ht e0 h0 c e hA
      simp only [if_true, hadj]
      exact ofNat_mul_eq hw.symm
    · simp only [he, if_false, GQ.zero_mul']
      cases hB : actTermWith actB (hcTermF t) e1 with
      | none => simp [GQ.zero_mul']
      | some q =>
        obtain ⟨c', e'⟩ := q
        by_cases he' : e' = e0
        · subst he'
          obtain ⟨_, K, K', rfl, hadj, _⟩ := word_adjoint (hcTermF t) (hcTermF_ladder t) e1 h1 c' e' hB
          rw [hinv, hA] at hadj
          simp only [Option.some.injEq, Prod.mk.injEq] at hadj
          exact absurd hadj.2 he
        · simp [he', GQ.zero_mul']
  | none =>
    simp only [GQ.zero_mul']
    cases hB : actTermWith actB (hcTermF t) e1 with
    | none => simp [GQ.zero_mul']
    | some q =>
      obtain ⟨c', e'⟩ := q
      by_cases he' : e' = e0
      · subst he'
        obtain ⟨_, K, K', rfl, hadj, _⟩ := word_adjoint (hcTermF t) (hcTermF_ladder t) e1 h1 c' e' hB
        rw [hinv, hA] at hadj
        simp at hadj
      · simp [he', GQ.zero_mul']

end C07A
end Proofs
end OFV
