/-
C19 — the identity coefficient of the Pauli decomposition of the molecular Hamiltonian of `get_one_norm_int`
(`Spec.C19.molOp`) is `htilde = constant + Σ_p h_pp + Σ_pq (½ g_pqqp − ¼ g_pqpq)`: exactly the term that
`get_one_norm_int_woconst` leaves out.  No symmetry of the integrals is needed.
-/
import OFV.Proofs.C19Diag
import OFV.Proofs.C19JwNorm
import OFV.Proofs.C04Iop
import Mathlib.Algebra.BigOperators.Group.Finset.Sigma
import Mathlib.Tactic.NormNum
import OFV.Model.C19

namespace OFV
namespace C19P
open Spec Spec.C19 Sem

/-- the trace against the identity is the sum of the diagonal matrix elements -/
theorem pauliTrace_id (N : Nat) (A : Model.Op) :
    pauliTrace N ((List.range (2 ^ N)).map (applyF A)) 0 0
      = (A.map fun tc => tc.2 * ∑ s ∈ Finset.range (2 ^ N), termCoef .fermion tc.1 [s] [s]).sum := by
  unfold pauliTrace
  simp only
  rw [foldl_signed (List.range (2 ^ N)) (fun s => popcount (0 &&& (s ^^^ 0)) N % 2 = 0)
    (fun s => SV.coeff (((List.range (2 ^ N)).map (applyF A)).getD s []) (s ^^^ 0)) 0, zero_add, list_sum_range_eq]
  have hcol : ∀ s ∈ Finset.range (2 ^ N),
      (if popcount (0 &&& (s ^^^ 0)) N % 2 = 0 then (1 : GQ) else -1)
        * SV.coeff (((List.range (2 ^ N)).map (applyF A)).getD s []) (s ^^^ 0)
      = (A.map fun tc => tc.2 * termCoef .fermion tc.1 [s] [s]).sum := by
    intro s hs
    have hs' : s < 2 ^ N := Finset.mem_range.1 hs
    have h1 : ((List.range (2 ^ N)).map (applyF A)).getD s [] = applyF A s := by
      simp [List.getD_eq_getElem?_getD, List.getElem?_map, List.getElem?_range hs']
    have h2 : popcount (0 &&& (s ^^^ 0)) N % 2 = 0 := by
      have : sg N (0 &&& (s ^^^ 0)) = 1 := by rw [Nat.zero_and, sg_zero]
      unfold sg at this
      by_contra hc
      rw [if_neg hc] at this
      have : ((-1 : GQ)).re = (1 : GQ).re := by rw [this]
      simp at this
      norm_num at this
    rw [h1, if_pos h2, one_mul, Nat.xor_zero, melF_eq_den, den_eq_sum]
  rw [Finset.sum_congr rfl hcol, finset_sum_list_comm]
  have hp : popcount (0 &&& 0) N = 0 := by
    have : ∀ M, popcount 0 M = 0 := by
      intro M
      induction M with
      | zero => rfl
      | succ M ih => rw [popcount_succ, ih]; simp
    simpa using this N
  rw [hp, ipow_zero, one_mul]
  apply congrArg
  apply List.map_congr_left
  intro tc _
  rw [Finset.mul_sum]

/-! ### sums of diagonal elements -/

theorem four_eq : (4 : GQ) = 2 * 2 := by norm_num

theorem dsum2 (N i j : Nat) (hi : i < N) :
    (4 : GQ) * ∑ s ∈ Finset.range (2 ^ N), termCoef .fermion [(i, 1), (j, 0)] [s] [s]
      = if i = j then 2 * ((2 ^ N : Nat) : GQ) else 0 := by
  rw [Finset.sum_congr rfl (fun s _ => diag2 i j s)]
  by_cases h : i = j
  · simp only [h, if_true]
    rw [← h, four_eq, mul_assoc, sum_occ N i hi]
  · simp [h]

theorem dsum4 (N i j k l : Nat) (hi : i < N) (hj : j < N) :
    (4 : GQ) * ∑ s ∈ Finset.range (2 ^ N), termCoef .fermion [(i, 1), (j, 1), (k, 0), (l, 0)] [s] [s]
      = if i ≠ j ∧ i = l ∧ j = k then ((2 ^ N : Nat) : GQ)
        else if i ≠ j ∧ i = k ∧ j = l then -((2 ^ N : Nat) : GQ) else 0 := by
  rw [Finset.sum_congr rfl (fun s _ => diag4 i j k l s)]
  by_cases h1 : i ≠ j ∧ i = l ∧ j = k
  · simp only [if_pos h1]
    exact sum_occ2 N i j hi hj h1.1
  · simp only [if_neg h1]
    by_cases h2 : i ≠ j ∧ i = k ∧ j = l
    · simp only [if_pos h2, Finset.sum_neg_distrib, mul_neg]
      rw [sum_occ2 N i j hi hj h2.1]
    · simp [if_neg h2]

end C19P
end OFV

namespace OFV
namespace C19P
open Spec Spec.C19 Sem

/-! ### collapsing the index sums -/

def rl' (r : Rat) : GQ := ⟨r, 0⟩

theorem rl'_add (a b : Rat) : rl' a + rl' b = rl' (a + b) := by apply GQ.ext <;> simp [rl']
theorem rl'_mul (a b : Rat) : rl' a * rl' b = rl' (a * b) := by apply GQ.ext <;> simp [rl']
theorem rl'_zero : rl' 0 = 0 := rfl
theorem rl'_sum (s : Finset Nat) (f : Nat → Rat) : ∑ i ∈ s, rl' (f i) = rl' (∑ i ∈ s, f i) := by
  induction s using Finset.induction_on with
  | empty => simp [rl'_zero]
  | insert a s ha ih => rw [Finset.sum_insert ha, Finset.sum_insert ha, ih, rl'_add]

theorem natCast_eq_rl' (k : Nat) : ((k : Nat) : GQ) = rl' (k : Rat) := by
  induction k with
  | zero => simp [rl'_zero]
  | succ k ih =>
    rw [Nat.cast_succ, ih]
    apply GQ.ext <;> simp [rl']

theorem two_rl : (2 : GQ) = rl' 2 := by
  rw [show (2 : GQ) = ((2 : Nat) : GQ) by norm_num, natCast_eq_rl']; norm_num

theorem four_rl : (4 : GQ) = rl' 4 := by
  rw [show (4 : GQ) = ((4 : Nat) : GQ) by norm_num, natCast_eq_rl']; norm_num

theorem sum_delta (n p : Nat) (hp : p < n) (f : Nat → GQ) :
    ∑ r ∈ Finset.range n, (if p = r then f r else 0) = f p := by
  rw [Finset.sum_ite_eq]
  simp [hp]

/-- the kernel `4 Σ_s ⟨s| a†_i a†_j a_k a_l |s⟩` -/
def K4 (T : GQ) (i j k l : Nat) : GQ :=
  if i ≠ j ∧ i = l ∧ j = k then T else if i ≠ j ∧ i = k ∧ j = l then -T else 0

/-- the sum over `r, s` for fixed `p, q` and spins -/
theorem inner_rs (n p q σ τ : Nat) (hp : p < n) (hq : q < n) (hσ : σ < 2) (hτ : τ < 2) (T : GQ) (c : Nat → Nat → GQ) :
    ∑ r ∈ Finset.range n, ∑ s ∈ Finset.range n, c r s * K4 T (2 * p + σ) (2 * q + τ) (2 * r + τ) (2 * s + σ)
      = if p = q ∧ σ = τ then 0 else c q p * T + (if σ = τ then c p q * (-T) else 0) := by
  by_cases hd : p = q ∧ σ = τ
  · rw [if_pos hd]
    apply Finset.sum_eq_zero
    intro r _
    apply Finset.sum_eq_zero
    intro s _
    have : 2 * p + σ = 2 * q + τ := by rw [hd.1, hd.2]
    unfold K4
    rw [if_neg (fun h => h.1 this), if_neg (fun h => h.1 this), mul_zero]
  · rw [if_neg hd]
    have hij : 2 * p + σ ≠ 2 * q + τ := by
      intro e; apply hd; constructor <;> omega
    have hK : ∀ r s, c r s * K4 T (2 * p + σ) (2 * q + τ) (2 * r + τ) (2 * s + σ)
        = (if q = r then (if p = s then c r s * T else 0) else 0)
          + (if p = r then (if q = s then (if σ = τ then c r s * (-T) else 0) else 0) else 0) := by
      intro r s
      unfold K4
      by_cases h1 : p = s ∧ q = r
      · have hA : 2 * p + σ ≠ 2 * q + τ ∧ 2 * p + σ = 2 * s + σ ∧ 2 * q + τ = 2 * r + τ :=
          ⟨hij, by omega, by omega⟩
        rw [if_pos hA, if_pos h1.2, if_pos h1.1]
        have : ¬ (p = r ∧ q = s ∧ σ = τ) := by
          rintro ⟨e1, e2, e3⟩; apply hd; constructor <;> omega
        by_cases e1 : p = r
        · rw [if_pos e1]
          by_cases e2 : q = s
          · rw [if_pos e2]
            have : ¬ σ = τ := fun e3 => this ⟨e1, e2, e3⟩
            rw [if_neg this, add_zero]
          · rw [if_neg e2, add_zero]
        · rw [if_neg e1, add_zero]
      · have hA : ¬ (2 * p + σ ≠ 2 * q + τ ∧ 2 * p + σ = 2 * s + σ ∧ 2 * q + τ = 2 * r + τ) := by
          rintro ⟨_, e1, e2⟩; apply h1; constructor <;> omega
        rw [if_neg hA]
        have h1' : (if q = r then (if p = s then c r s * T else 0) else 0) = 0 := by
          by_cases e1 : q = r
          · rw [if_pos e1, if_neg (fun e2 => h1 ⟨e2, e1⟩)]
          · rw [if_neg e1]
        rw [h1', zero_add]
        by_cases h2 : p = r ∧ q = s ∧ σ = τ
        · have hB : 2 * p + σ ≠ 2 * q + τ ∧ 2 * p + σ = 2 * r + τ ∧ 2 * q + τ = 2 * s + σ :=
            ⟨hij, by omega, by omega⟩
          rw [if_pos hB, if_pos h2.1, if_pos h2.2.1, if_pos h2.2.2]
        · have hB : ¬ (2 * p + σ ≠ 2 * q + τ ∧ 2 * p + σ = 2 * r + τ ∧ 2 * q + τ = 2 * s + σ) := by
            rintro ⟨_, e1, e2⟩; apply h2; refine ⟨?_, ?_, ?_⟩ <;> omega
          rw [if_neg hB, mul_zero]
          by_cases e1 : p = r
          · rw [if_pos e1]
            by_cases e2 : q = s
            · rw [if_pos e2, if_neg (fun e3 => h2 ⟨e1, e2, e3⟩)]
            · rw [if_neg e2]
          · rw [if_neg e1]
    rw [Finset.sum_congr rfl (fun r _ => Finset.sum_congr rfl (fun s _ => hK r s))]
    simp only [Finset.sum_add_distrib]
    congr 1
    · have : ∀ r ∈ Finset.range n, ∑ s ∈ Finset.range n, (if q = r then (if p = s then c r s * T else 0) else 0)
          = if q = r then c r p * T else 0 := by
        intro r _
        by_cases e : q = r
        · simp only [if_pos e]
          exact sum_delta n p hp (fun s => c r s * T)
        · simp [if_neg e]
      rw [Finset.sum_congr rfl this, sum_delta n q hq (fun r => c r p * T)]
    · have : ∀ r ∈ Finset.range n, ∑ s ∈ Finset.range n,
            (if p = r then (if q = s then (if σ = τ then c r s * (-T) else 0) else 0) else 0)
          = if p = r then (if σ = τ then c r q * (-T) else 0) else 0 := by
        intro r _
        by_cases e : p = r
        · simp only [if_pos e]
          exact sum_delta n q hq (fun s => if σ = τ then c r s * (-T) else 0)
        · simp [if_neg e]
      rw [Finset.sum_congr rfl this, sum_delta n p hp (fun r => if σ = τ then c r q * (-T) else 0)]

/-- the sum over both spins -/
theorem inner_spins (n p q : Nat) (hp : p < n) (hq : q < n) (T : GQ) (c : Nat → Nat → GQ) :
    ∑ σ ∈ Finset.range 2, ∑ τ ∈ Finset.range 2, ∑ r ∈ Finset.range n, ∑ s ∈ Finset.range n,
        c r s * K4 T (2 * p + σ) (2 * q + τ) (2 * r + τ) (2 * s + σ)
      = if p = q then 2 * (c p p * T) else 4 * (c q p * T) - 2 * (c p q * T) := by
  simp only [Finset.sum_range_succ, Finset.sum_range_zero, zero_add]
  rw [inner_rs n p q 0 0 hp hq (by norm_num) (by norm_num), inner_rs n p q 0 1 hp hq (by norm_num) (by norm_num),
    inner_rs n p q 1 0 hp hq (by norm_num) (by norm_num), inner_rs n p q 1 1 hp hq (by norm_num) (by norm_num)]
  by_cases h : p = q
  · subst h
    simp
    ring
  · simp [h]
    ring

end C19P
end OFV

namespace OFV
namespace C19P
open Spec Spec.C19 Sem

theorem reorder4 (A B C D : Finset Nat) (F : Nat → Nat → Nat → Nat → GQ) :
    ∑ r ∈ A, ∑ s ∈ B, ∑ σ ∈ C, ∑ τ ∈ D, F r s σ τ = ∑ σ ∈ C, ∑ τ ∈ D, ∑ r ∈ A, ∑ s ∈ B, F r s σ τ := by
  calc ∑ r ∈ A, ∑ s ∈ B, ∑ σ ∈ C, ∑ τ ∈ D, F r s σ τ
      = ∑ r ∈ A, ∑ σ ∈ C, ∑ s ∈ B, ∑ τ ∈ D, F r s σ τ := Finset.sum_congr rfl (fun r _ => Finset.sum_comm)
    _ = ∑ σ ∈ C, ∑ r ∈ A, ∑ s ∈ B, ∑ τ ∈ D, F r s σ τ := Finset.sum_comm
    _ = ∑ σ ∈ C, ∑ r ∈ A, ∑ τ ∈ D, ∑ s ∈ B, F r s σ τ :=
        Finset.sum_congr rfl (fun σ _ => Finset.sum_congr rfl (fun r _ => Finset.sum_comm))
    _ = ∑ σ ∈ C, ∑ τ ∈ D, ∑ r ∈ A, ∑ s ∈ B, F r s σ τ := Finset.sum_congr rfl (fun σ _ => Finset.sum_comm)

/-- `htilde` of `get_one_norm_int` -/
def htildeF (n : Nat) (const : Rat) (h : List (List Rat)) (g : List (List (List (List Rat)))) : Rat :=
  const + ∑ p ∈ Finset.range n, m2 h p p
    + ∑ p ∈ Finset.range n, ∑ q ∈ Finset.range n, ((1 / 2) * m4 g p q q p - (1 / 4) * m4 g p q p q)

theorem rat_final (t const : Rat) (n : Nat) (hh : Nat → Rat) (a b : Nat → Nat → Rat) :
    const * (4 * t) + t * (4 * ∑ p ∈ Finset.range n, hh p)
        + t * ∑ p ∈ Finset.range n, ∑ q ∈ Finset.range n, (2 * a p q - b p q)
      = t * (4 * (const + ∑ p ∈ Finset.range n, hh p
          + ∑ p ∈ Finset.range n, ∑ q ∈ Finset.range n, ((1 / 2) * a p q - (1 / 4) * b p q))) := by
  have : ∑ p ∈ Finset.range n, ∑ q ∈ Finset.range n, (2 * a p q - b p q)
      = 4 * ∑ p ∈ Finset.range n, ∑ q ∈ Finset.range n, ((1 / 2) * a p q - (1 / 4) * b p q) := by
    rw [Finset.mul_sum]
    apply Finset.sum_congr rfl
    intro p _
    rw [Finset.mul_sum]
    apply Finset.sum_congr rfl
    intro q _
    ring
  rw [this]; ring

/-- **four times the identity trace of the molecular Hamiltonian** -/
theorem mol_trace4 (n : Nat) (const : Rat) (h : List (List Rat)) (g : List (List (List (List Rat)))) :
    (4 : GQ) * pauliTrace (2 * n) ((List.range (2 ^ (2 * n))).map (applyF (molOp n const h g))) 0 0
      = rl' (((2 ^ (2 * n) : Nat) : Rat) * (4 * htildeF n const h g)) := by
  have hT : ((2 ^ (2 * n) : Nat) : GQ) = rl' ((2 ^ (2 * n) : Nat) : Rat) := natCast_eq_rl' _
  rw [pauliTrace_id, gsum_mul_left]
  have e0 : (fun tc : List (Nat × Nat) × GQ =>
        (4 : GQ) * (tc.2 * ∑ s ∈ Finset.range (2 ^ (2 * n)), termCoef .fermion tc.1 [s] [s]))
      = fun tc => tc.2 * (4 * ∑ s ∈ Finset.range (2 ^ (2 * n)), termCoef .fermion tc.1 [s] [s]) := by
    funext tc; ring
  rw [e0]
  unfold molOp
  simp only [List.map_append, List.sum_append, List.map_cons, List.map_nil, List.sum_cons, List.sum_nil, add_zero,
    sum_flatMap, List.map_map, list_sum_range_eq]
  -- the constant
  have c0 : (4 : GQ) * ∑ s ∈ Finset.range (2 ^ (2 * n)), termCoef .fermion [] [s] [s]
      = 4 * ((2 ^ (2 * n) : Nat) : GQ) := by
    rw [Finset.sum_congr rfl (fun s _ => diag0 s)]
    simp [Finset.sum_const]
  -- one-body part
  have c1 : ∑ p ∈ Finset.range n, ∑ q ∈ Finset.range n, ∑ σ ∈ Finset.range 2,
        ((fun tc : List (Nat × Nat) × GQ =>
            tc.2 * (4 * ∑ s ∈ Finset.range (2 ^ (2 * n)), termCoef .fermion tc.1 [s] [s]))
          ∘ fun σ => ([(2 * p + σ, 1), (2 * q + σ, 0)], (⟨m2 h p q, 0⟩ : GQ))) σ
      = rl' (((2 ^ (2 * n) : Nat) : Rat) * (4 * ∑ p ∈ Finset.range n, m2 h p p)) := by
    have step : ∀ p ∈ Finset.range n, ∑ q ∈ Finset.range n, ∑ σ ∈ Finset.range 2,
          ((fun tc : List (Nat × Nat) × GQ =>
              tc.2 * (4 * ∑ s ∈ Finset.range (2 ^ (2 * n)), termCoef .fermion tc.1 [s] [s]))
            ∘ fun σ => ([(2 * p + σ, 1), (2 * q + σ, 0)], (⟨m2 h p q, 0⟩ : GQ))) σ
        = rl' (((2 ^ (2 * n) : Nat) : Rat) * (4 * m2 h p p)) := by
      intro p hp
      have hpn := Finset.mem_range.1 hp
      have inner : ∀ q ∈ Finset.range n, ∑ σ ∈ Finset.range 2,
            ((fun tc : List (Nat × Nat) × GQ =>
                tc.2 * (4 * ∑ s ∈ Finset.range (2 ^ (2 * n)), termCoef .fermion tc.1 [s] [s]))
              ∘ fun σ => ([(2 * p + σ, 1), (2 * q + σ, 0)], (⟨m2 h p q, 0⟩ : GQ))) σ
          = if p = q then rl' (((2 ^ (2 * n) : Nat) : Rat) * (4 * m2 h p q)) else 0 := by
        intro q _
        have : ∀ σ ∈ Finset.range 2,
            ((fun tc : List (Nat × Nat) × GQ =>
                tc.2 * (4 * ∑ s ∈ Finset.range (2 ^ (2 * n)), termCoef .fermion tc.1 [s] [s]))
              ∘ fun σ => ([(2 * p + σ, 1), (2 * q + σ, 0)], (⟨m2 h p q, 0⟩ : GQ))) σ
            = if p = q then rl' (((2 ^ (2 * n) : Nat) : Rat) * (2 * m2 h p q)) else 0 := by
          intro σ hσ
          have hσ2 := Finset.mem_range.1 hσ
          simp only [Function.comp]
          rw [dsum2 (2 * n) (2 * p + σ) (2 * q + σ) (by omega)]
          by_cases e : p = q
          · subst e
            rw [if_pos rfl, if_pos rfl, hT]
            show rl' (m2 h p p) * (2 * rl' _) = _
            rw [two_rl, rl'_mul, rl'_mul]
            congr 1; ring
          · have : ¬ (2 * p + σ = 2 * q + σ) := by omega
            rw [if_neg this, if_neg e, mul_zero]
        rw [Finset.sum_congr rfl this]
        by_cases e : p = q
        · simp only [if_pos e, Finset.sum_const, Finset.card_range, nsmul_eq_mul]
          rw [natCast_eq_rl' 2, rl'_mul]
          congr 1; push_cast; ring
        · simp [if_neg e]
      rw [Finset.sum_congr rfl inner, sum_delta n p hpn (fun q => rl' (((2 ^ (2 * n) : Nat) : Rat) * (4 * m2 h p q)))]
    rw [Finset.sum_congr rfl step, rl'_sum]
    congr 1
    rw [Finset.mul_sum, Finset.mul_sum]
  -- two-body part
  have c2 : ∑ p ∈ Finset.range n, ∑ q ∈ Finset.range n, ∑ r ∈ Finset.range n, ∑ s ∈ Finset.range n,
        ∑ σ ∈ Finset.range 2, ∑ τ ∈ Finset.range 2,
        ((fun tc : List (Nat × Nat) × GQ =>
            tc.2 * (4 * ∑ s ∈ Finset.range (2 ^ (2 * n)), termCoef .fermion tc.1 [s] [s]))
          ∘ fun τ => ([(2 * p + σ, 1), (2 * q + τ, 1), (2 * r + τ, 0), (2 * s + σ, 0)], (⟨m4 g p q r s / 2, 0⟩ : GQ))) τ
      = rl' (((2 ^ (2 * n) : Nat) : Rat)
          * ∑ p ∈ Finset.range n, ∑ q ∈ Finset.range n, (2 * m4 g p q q p - m4 g p q p q)) := by
    have step : ∀ p ∈ Finset.range n, ∀ q ∈ Finset.range n,
        ∑ r ∈ Finset.range n, ∑ s ∈ Finset.range n, ∑ σ ∈ Finset.range 2, ∑ τ ∈ Finset.range 2,
          ((fun tc : List (Nat × Nat) × GQ =>
              tc.2 * (4 * ∑ s ∈ Finset.range (2 ^ (2 * n)), termCoef .fermion tc.1 [s] [s]))
            ∘ fun τ => ([(2 * p + σ, 1), (2 * q + τ, 1), (2 * r + τ, 0), (2 * s + σ, 0)], (⟨m4 g p q r s / 2, 0⟩ : GQ))) τ
        = rl' (((2 ^ (2 * n) : Nat) : Rat) * (2 * m4 g p q q p - m4 g p q p q)) := by
      intro p hp q hq
      have hpn := Finset.mem_range.1 hp
      have hqn := Finset.mem_range.1 hq
      have hterm : ∀ r ∈ Finset.range n, ∀ s ∈ Finset.range n, ∀ σ ∈ Finset.range 2, ∀ τ ∈ Finset.range 2,
          ((fun tc : List (Nat × Nat) × GQ =>
              tc.2 * (4 * ∑ s ∈ Finset.range (2 ^ (2 * n)), termCoef .fermion tc.1 [s] [s]))
            ∘ fun τ => ([(2 * p + σ, 1), (2 * q + τ, 1), (2 * r + τ, 0), (2 * s + σ, 0)], (⟨m4 g p q r s / 2, 0⟩ : GQ))) τ
          = rl' (m4 g p q r s / 2) * K4 ((2 ^ (2 * n) : Nat) : GQ) (2 * p + σ) (2 * q + τ) (2 * r + τ) (2 * s + σ) := by
        intro r _ s _ σ hσ τ hτ
        have hσ2 := Finset.mem_range.1 hσ
        have hτ2 := Finset.mem_range.1 hτ
        simp only [Function.comp]
        rw [dsum4 (2 * n) (2 * p + σ) (2 * q + τ) (2 * r + τ) (2 * s + σ) (by omega) (by omega)]
        rfl
      rw [Finset.sum_congr rfl (fun r hr => Finset.sum_congr rfl (fun s hs => Finset.sum_congr rfl
        (fun σ hσ => Finset.sum_congr rfl (fun τ hτ => hterm r hr s hs σ hσ τ hτ))))]
      rw [reorder4, inner_spins n p q hpn hqn _ (fun r s => rl' (m4 g p q r s / 2)), hT]
      by_cases e : p = q
      · subst e
        rw [if_pos rfl]
        rw [two_rl, rl'_mul, rl'_mul]
        congr 1; ring
      · rw [if_neg e]
        rw [two_rl, four_rl, rl'_mul, rl'_mul, rl'_mul, rl'_mul]
        apply GQ.ext
        · simp [rl']; ring
        · simp [rl']
    rw [Finset.sum_congr rfl (fun p hp => Finset.sum_congr rfl (fun q hq => step p hp q hq))]
    rw [Finset.sum_congr rfl (fun p _ => rl'_sum (Finset.range n) _), rl'_sum]
    congr 1
    rw [Finset.mul_sum]
    apply Finset.sum_congr rfl
    intro p _
    rw [Finset.mul_sum]
  rw [c0, c1, c2, hT]
  show rl' const * (4 * rl' _) + _ + _ = _
  rw [four_rl, rl'_mul, rl'_mul, rl'_add, rl'_add]
  congr 1
  unfold htildeF
  exact rat_final _ const n (fun p => m2 h p p) (fun p q => m4 g p q q p) (fun p q => m4 g p q p q)

end C19P
end OFV

namespace OFV
namespace C19P
open Spec Spec.C19 Sem

/-- **identity coefficient of the molecular Hamiltonian**: `Tr(H) / 2^N = htilde` -/
theorem mol_trace (n : Nat) (const : Rat) (h : List (List Rat)) (g : List (List (List (List Rat)))) :
    pauliTrace (2 * n) ((List.range (2 ^ (2 * n))).map (applyF (molOp n const h g))) 0 0
      = ((2 ^ (2 * n) : Nat) : GQ) * (⟨htildeF n const h g, 0⟩ : GQ) := by
  have h4 := mol_trace4 n const h g
  rw [four_rl] at h4
  rw [natCast_eq_rl']
  show _ = rl' _ * rl' _
  rw [rl'_mul]
  have hre := congrArg GQ.re h4
  have him := congrArg GQ.im h4
  simp only [GQ.mul_re, GQ.mul_im, rl'] at hre him
  apply GQ.ext
  · simp only [rl']
    linarith
  · simp only [rl']
    linarith

theorem sumRange_eq (n : Nat) (f : Nat → Rat) : Model.C19.sumRange n f = ∑ i ∈ Finset.range n, f i := by
  unfold Model.C19.sumRange
  induction n with
  | zero => simp
  | succ n ih => rw [List.range_succ, List.foldl_append, ih, Finset.sum_range_succ]; simp

/-- `get_one_norm_int = |htilde| + get_one_norm_int_woconst` with the same `htilde` -/
theorem oneNorm_split (const : Rat) (h : List (List Rat)) (g : List (List (List (List Rat)))) :
    Model.C19.oneNorm const h g
      = Model.C19.rabs (htildeF h.length const h g) + Model.C19.oneNormWoConst h g := by
  unfold Model.C19.oneNorm htildeF
  simp only
  congr 2
  rw [sumRange_eq, Finset.sum_congr rfl (fun p _ => by rw [sumRange_eq]), Finset.sum_add_distrib, add_assoc]
  rfl

end C19P
end OFV
