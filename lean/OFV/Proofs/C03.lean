/-
C03 — soundness of the normal-ordering Model against the abstract (anti)commutation
relations: for EVERY ring `A`, every central, additive embedding of the coefficients and
every interpretation `g` of the factors that satisfies the rewriting relations the code uses
(`Relations`), the dictionary returned by `noTerm 0 k t c` evaluates to `c · ⟦t⟧`.
-/
import Mathlib.Algebra.Ring.Defs
import Mathlib.Algebra.BigOperators.Group.List.Basic
import Mathlib.Tactic.NoncommRing
import Mathlib.Tactic.Abel
import Mathlib.Tactic.Linarith
import Mathlib.Tactic.Ring
import OFV.Model.C03

namespace OFV
namespace Proofs
namespace C03
open Model Model.C03

variable {A : Type} [Ring A]

/-- interpretation of coefficients and factors in a ring -/
structure Interp (A : Type) [Ring A] where
  ι : GQ → A
  g : Factor → A
  ι_add : ∀ a b, ι (a + b) = ι a + ι b
  ι_central : ∀ c x, ι c * x = x * ι c

namespace Interp
variable (I : Interp A)

def evalT (t : Term) : A := (t.map I.g).prod
def evalOp (a : Op) : A := (a.map fun e => I.ι e.2 * I.evalT e.1).sum

theorem evalT_append (s t : Term) : I.evalT (s ++ t) = I.evalT s * I.evalT t := by
  simp [evalT, List.prod_append]

theorem evalT_cons (f : Factor) (t : Term) : I.evalT (f :: t) = I.g f * I.evalT t := by
  simp [evalT]

@[simp] theorem evalT_nil : I.evalT [] = 1 := by simp [evalT]
@[simp] theorem evalOp_nil : I.evalOp [] = 0 := by simp [evalOp]

theorem evalOp_cons (e : Term × GQ) (a : Op) : I.evalOp (e :: a) = I.ι e.2 * I.evalT e.1 + I.evalOp a := by
  simp [evalOp]

theorem gq_zero_add (c : GQ) : (0 : GQ) + c = c := by apply GQ.ext <;> simp
theorem gq_add_zero (c : GQ) : c + (0 : GQ) = c := by apply GQ.ext <;> simp

theorem ι_zero : I.ι 0 = 0 := by
  have h := I.ι_add 0 0
  rw [gq_zero_add] at h
  have : I.ι 0 + 0 = I.ι 0 + I.ι 0 := by rw [add_zero]; exact h
  exact (add_left_cancel this).symm

/-- `d[k] = d.get(k, 0) + c` adds `c · ⟦k⟧` -/
theorem evalOp_set_add (d : Op) (k : Term) (c : GQ) :
    I.evalOp (Dict.set d k (Dict.getD d k 0 + c)) = I.evalOp d + I.ι c * I.evalT k := by
  induction d with
  | nil =>
    simp [Dict.set, Dict.getD, Dict.get?, evalOp_cons, gq_zero_add]
  | cons e r ih =>
    obtain ⟨k', v⟩ := e
    by_cases h : k' = k
    · subst h
      simp only [Dict.set, Dict.getD, Dict.get?, if_true, Option.getD_some, evalOp_cons, I.ι_add]
      noncomm_ring
    · have ih' : I.evalOp (Dict.set r k (Dict.getD r k 0 + c)) = I.evalOp r + I.ι c * I.evalT k := ih
      simp only [Dict.set, Dict.getD, Dict.get?, h, if_false, evalOp_cons] at ih' ⊢
      rw [ih']; abel

theorem normSq_nonneg (x : GQ) : 0 ≤ x.normSq := by
  unfold GQ.normSq; nlinarith [mul_self_nonneg x.re, mul_self_nonneg x.im]

theorem isSmall_zero (v : GQ) : GQ.isSmall 0 v = false := by
  unfold GQ.isSmall
  have := normSq_nonneg v
  simp only [mul_zero, decide_eq_false_iff_not, not_lt]
  exact this

theorem iadd_zero_eq (a b : Op) :
    iadd 0 a b = b.foldl (fun acc x => Dict.set acc x.1 (Dict.getD acc x.1 0 + x.2)) a := by
  unfold iadd
  simp only [isSmall_zero, Bool.false_eq_true, if_false]

/-- `a += b` without deletion (tolerance 0) is addition of the denotations -/
theorem evalOp_iadd (a b : Op) : I.evalOp (iadd 0 a b) = I.evalOp a + I.evalOp b := by
  rw [iadd_zero_eq]
  induction b generalizing a with
  | nil => simp
  | cons e r ih =>
    rw [List.foldl_cons, ih, evalOp_set_add, evalOp_cons]
    abel

end Interp

/-- the rewriting relations the code relies on, for the kind `k` -/
structure Relations (I : Interp A) (k : Kind) : Prop where
  /-- the class constructor (`_simplify`) does not change the denotation -/
  simp_sound : ∀ t, I.evalT (simplify k.cls t).2 = I.evalT t
  simp_coeff : ∀ t, (simplify k.cls t).1 = 1
  /-- `l x = σ x l` : low left of high, different modes -/
  swap_diff : ∀ (x l : Factor) (c : GQ), k.high x.2 = true → k.high l.2 = false → x.1 ≠ l.1 →
    I.ι c * (I.g l * I.g x) = I.ι (k.swapCoeff c) * (I.g x * I.g l)
  /-- `l x = σ x l + contraction` : low left of high, same mode -/
  swap_same : ∀ (x l : Factor) (c : GQ), k.high x.2 = true → k.high l.2 = false → x.1 = l.1 →
    I.ι c * (I.g l * I.g x) =
      I.ι (k.swapCoeff c) * (I.g x * I.g l) + I.ι (k.contractCoeff (k.swapCoeff c))
  /-- same type, larger mode index on the right -/
  swap_type : ∀ (x l : Factor) (c : GQ), x.2 = l.2 → x.1 > l.1 →
    I.ι c * (I.g l * I.g x) = I.ι (k.swapCoeff c) * (I.g x * I.g l)
  /-- fermions: a repeated factor is zero -/
  nilpotent : k.isFermion = true → ∀ (x l : Factor), x.2 = l.2 → x.1 = l.1 → I.g l * I.g x = 0

theorem gq_mul_one (a : GQ) : a * 1 = a := by apply GQ.ext <;> simp

theorem evalOp_mk (I : Interp A) (k : Kind) (R : Relations I k) (t : Term) (c : GQ) :
    I.evalOp (mk k.cls t c) = I.ι c * I.evalT t := by
  unfold mk
  simp only [Interp.evalOp_cons, Interp.evalOp_nil, add_zero, R.simp_coeff, gq_mul_one, R.simp_sound]

/-- what a finished inner loop / an early return has to satisfy -/
def StepOK (I : Interp A) (target : A) (S : Term) : Step → Prop
  | .cont pre c' acc' => I.evalOp acc' + I.ι c' * I.evalT (pre ++ S) = target
  | .ret acc' => I.evalOp acc' = target

section algebra
variable (I : Interp A)

theorem evalT_focus (revP : Term) (l x : Factor) (passed S : Term) :
    I.evalT ((l :: revP).reverse ++ [x] ++ passed ++ S) =
      I.evalT revP.reverse * (I.g l * I.g x) * I.evalT (passed ++ S) := by
  simp only [List.reverse_cons, List.append_assoc, Interp.evalT_append, Interp.evalT_cons, Interp.evalT_nil]
  noncomm_ring

theorem evalT_swapped (revP : Term) (l x : Factor) (passed S : Term) :
    I.evalT (revP.reverse ++ [x] ++ (l :: passed) ++ S) =
      I.evalT revP.reverse * (I.g x * I.g l) * I.evalT (passed ++ S) := by
  simp only [List.append_assoc, Interp.evalT_append, Interp.evalT_cons, Interp.evalT_nil, List.cons_append]
  noncomm_ring

theorem evalT_removed (revP : Term) (passed S : Term) :
    I.evalT (revP.reverse ++ passed ++ S) = I.evalT revP.reverse * I.evalT (passed ++ S) := by
  simp only [List.append_assoc, Interp.evalT_append]

theorem central_mid (c : GQ) (P M Q : A) : I.ι c * (P * M * Q) = P * (I.ι c * M) * Q := by
  rw [← mul_assoc, ← mul_assoc, I.ι_central c P]
  noncomm_ring

end algebra

theorem inner_sound (I : Interp A) (k : Kind) (R : Relations I k) (rec : Term → GQ → Op) (N : Nat)
    (hrec : ∀ t c, t.length + 2 ≤ N → I.evalOp (rec t c) = I.ι c * I.evalT t) :
    ∀ (revP : Term) (x : Factor) (passed S : Term) (c : GQ) (acc : Op),
      revP.length + 1 + passed.length + S.length ≤ N →
      StepOK I (I.evalOp acc + I.ι c * I.evalT (revP.reverse ++ [x] ++ passed ++ S)) S
        (inner 0 k rec revP x passed S c acc) := by
  intro revP
  induction revP with
  | nil =>
    intro x passed S c acc _
    simp [inner, StepOK]
  | cons l revP ih =>
    intro x passed S c acc hN
    have hN' : revP.length + 1 + (l :: passed).length + S.length ≤ N := by
      simp only [List.length_cons] at hN ⊢; omega
    have hNx : revP.length + 1 + (x :: passed).length + S.length ≤ N := by
      simp only [List.length_cons] at hN ⊢; omega
    rw [evalT_focus, central_mid]
    unfold inner
    by_cases h1 : (k.high x.2 && !k.high l.2) = true
    · -- swap (and possibly contract)
      simp only [h1, if_true]
      have hx : k.high x.2 = true := by
        cases hh : k.high x.2 <;> simp [hh] at h1 ⊢
      have hl : k.high l.2 = false := by
        cases hh : k.high l.2 <;> simp [hh, hx] at h1 ⊢
      by_cases hidx : x.1 = l.1
      · simp only [hidx, if_true]
        have := ih x (l :: passed) S (k.swapCoeff c)
          (iadd 0 acc (rec (revP.reverse ++ passed ++ S) (k.contractCoeff (k.swapCoeff c)))) hN'
        rw [evalT_swapped, central_mid, I.evalOp_iadd, hrec _ _ (by
          simp only [List.length_append, List.length_reverse, List.length_cons] at hN ⊢; omega),
          evalT_removed] at this
        rw [R.swap_same x l c hx hl hidx]
        convert this using 1
        rw [mul_add, add_mul, ← I.ι_central (k.contractCoeff (k.swapCoeff c)) (I.evalT revP.reverse)]
        noncomm_ring
      · simp only [hidx, if_false]
        have := ih x (l :: passed) S (k.swapCoeff c) acc hN'
        rw [evalT_swapped, central_mid] at this
        rw [R.swap_diff x l c hx hl hidx]
        exact this
    · simp only [h1, Bool.false_eq_true, if_false]
      have keep : StepOK I (I.evalOp acc + I.evalT revP.reverse * (I.ι c * (I.g l * I.g x)) * I.evalT (passed ++ S)) S
          (inner 0 k rec revP l (x :: passed) S c acc) := by
        have := ih l (x :: passed) S c acc hNx
        have e : revP.reverse ++ [l] ++ x :: passed ++ S = (l :: revP).reverse ++ [x] ++ passed ++ S := by simp
        rw [e, evalT_focus, central_mid] at this
        exact this
      by_cases h2 : x.2 = l.2
      · simp only [h2, if_true]
        by_cases h3 : (k.isFermion && x.1 == l.1) = true
        · simp only [h3, if_true, StepOK]
          have hf : k.isFermion = true := by
            cases hh : k.isFermion <;> simp [hh] at h3 ⊢
          have hi : x.1 = l.1 := by
            cases hh : k.isFermion <;> simp [hh] at h3
            exact h3
          rw [R.nilpotent hf x l h2 hi]
          simp
        · simp only [h3, Bool.false_eq_true, if_false]
          by_cases h4 : x.1 > l.1
          · simp only [h4, if_true]
            have := ih x (l :: passed) S (k.swapCoeff c) acc hN'
            rw [evalT_swapped, central_mid] at this
            rw [R.swap_type x l c h2 h4]
            exact this
          · simp only [h4, if_false]
            exact keep
      · simp only [h2, if_false]
        exact keep

def StepLen (n : Nat) : Step → Prop
  | .cont pre _ _ => pre.length = n
  | .ret _ => True

theorem StepLen_congr {n m : Nat} {s : Step} (h : StepLen n s) (e : n = m) : StepLen m s := e ▸ h

theorem inner_length (tol : Rat) (k : Kind) (rec : Term → GQ → Op) :
    ∀ (revP : Term) (x : Factor) (passed S : Term) (c : GQ) (acc : Op),
      StepLen (revP.length + 1 + passed.length) (inner tol k rec revP x passed S c acc) := by
  intro revP
  induction revP with
  | nil => intro x passed S c acc; simp [inner, StepLen]; omega
  | cons l revP ih =>
    intro x passed S c acc
    have e1 : revP.length + 1 + (l :: passed).length = (l :: revP).length + 1 + passed.length := by
      simp only [List.length_cons]; omega
    have e2 : revP.length + 1 + (x :: passed).length = (l :: revP).length + 1 + passed.length := by
      simp only [List.length_cons]; omega
    unfold inner
    split_ifs
    · exact StepLen_congr (ih _ _ _ _ _) e1
    · exact StepLen_congr (ih _ _ _ _ _) e1
    · trivial
    · exact StepLen_congr (ih _ _ _ _ _) e1
    · exact StepLen_congr (ih _ _ _ _ _) e2
    · exact StepLen_congr (ih _ _ _ _ _) e2

theorem outer_sound (I : Interp A) (k : Kind) (R : Relations I k) (rec : Term → GQ → Op) (N : Nat)
    (hrec : ∀ t c, t.length + 2 ≤ N → I.evalOp (rec t c) = I.ι c * I.evalT t) :
    ∀ (rest done : Term) (c : GQ) (acc : Op), done.length + rest.length ≤ N →
      I.evalOp (outer 0 k rec done rest c acc) = I.evalOp acc + I.ι c * I.evalT (done ++ rest) := by
  intro rest
  induction rest with
  | nil =>
    intro done c acc _
    simp only [outer, I.evalOp_iadd, evalOp_mk I k R, List.append_nil]
  | cons x S ih =>
    intro done c acc hN
    have hs := inner_sound I k R rec N hrec done.reverse x [] S c acc (by
      simp only [List.length_reverse, List.length_cons, List.length_nil] at hN ⊢; omega)
    unfold outer
    have e : done.reverse.reverse ++ [x] ++ [] ++ S = done ++ x :: S := by simp
    rw [e] at hs
    cases hstep : inner 0 k rec done.reverse x [] S c acc with
    | ret acc' =>
      rw [hstep] at hs
      simpa [StepOK] using hs
    | cont pre c' acc' =>
      rw [hstep] at hs
      simp only [StepOK] at hs
      simp only
      have hl := inner_length 0 k rec done.reverse x [] S c acc
      rw [hstep] at hl
      simp only [StepLen, List.length_reverse, List.length_nil, add_zero] at hl
      rw [ih pre c' acc' (by simp only [List.length_cons] at hN; omega)]
      exact hs

theorem noTermFuel_sound (I : Interp A) (k : Kind) (R : Relations I k) :
    ∀ (fuel : Nat) (t : Term) (c : GQ), t.length < fuel →
      I.evalOp (noTermFuel 0 k fuel t c) = I.ι c * I.evalT t := by
  intro fuel
  induction fuel with
  | zero => intro t c h; omega
  | succ fuel ih =>
    intro t c h
    unfold noTermFuel
    rw [outer_sound I k R (noTermFuel 0 k fuel) t.length (fun t' c' h' => ih t' c' (by omega)) t [] c []
      (by simp)]
    simp

theorem noTerm_sound (I : Interp A) (k : Kind) (R : Relations I k) (t : Term) (c : GQ) :
    I.evalOp (noTerm 0 k t c) = I.ι c * I.evalT t :=
  noTermFuel_sound I k R (t.length + 1) t c (by omega)

theorem normalOrdered_sound (I : Interp A) (k : Kind) (R : Relations I k) (a : Op) :
    I.evalOp (normalOrdered 0 k a) = I.evalOp a := by
  unfold normalOrdered
  have : ∀ (acc : Op), I.evalOp (a.foldl (fun acc x => iadd 0 acc (noTerm 0 k x.1 x.2)) acc) =
      I.evalOp acc + I.evalOp a := by
    induction a with
    | nil => intro acc; simp
    | cons e r ih =>
      intro acc
      rw [List.foldl_cons, ih, I.evalOp_iadd, noTerm_sound I k R, Interp.evalOp_cons]
      abel
  simpa using this []

/-! ### the standard relations imply `Relations` -/

theorem gq_neg_cancel (c : GQ) : c * (-1) + c = 0 := by apply GQ.ext <;> simp
theorem gq_neg_neg (c : GQ) : (-1 : GQ) * (c * (-1)) = c := by apply GQ.ext <;> simp
theorem gq_one_mul_one (c : GQ) : (1 : GQ) * (c * 1) = c := by apply GQ.ext <;> simp

theorem ι_mul_neg_one (I : Interp A) (c : GQ) : I.ι (c * (-1)) = - I.ι c := by
  have h := I.ι_add (c * (-1)) c
  rw [gq_neg_cancel, I.ι_zero] at h
  exact eq_neg_of_add_eq_zero_left h.symm

/-- insertion into an index-sorted term only moves a factor past factors of other modes -/
theorem evalT_insertF (I : Interp A) (comm : ∀ f h : Factor, f.1 ≠ h.1 → I.g f * I.g h = I.g h * I.g f)
    (f : Factor) (t : Term) : I.evalT (insertF f t) = I.g f * I.evalT t := by
  induction t with
  | nil => simp [insertF, Interp.evalT_cons]
  | cons h r ih =>
    unfold insertF
    split_ifs with hle
    · simp [Interp.evalT_cons]
    · rw [Interp.evalT_cons, ih, Interp.evalT_cons, ← mul_assoc, ← mul_assoc,
        comm f h (by omega)]

theorem evalT_sortF (I : Interp A) (comm : ∀ f h : Factor, f.1 ≠ h.1 → I.g f * I.g h = I.g h * I.g f)
    (t : Term) : I.evalT (sortF t) = I.evalT t := by
  induction t with
  | nil => simp [sortF]
  | cons f r ih => rw [sortF, evalT_insertF I comm, ih, Interp.evalT_cons]

/-- CAR ⇒ the fermionic rewriting relations -/
theorem relations_fermion (I : Interp A)
    (car_mixed : ∀ x l : Factor, x.2 ≠ 0 → l.2 = 0 →
      I.g l * I.g x + I.g x * I.g l = if x.1 = l.1 then 1 else 0)
    (car_same : ∀ x l : Factor, x.2 = l.2 → x.1 ≠ l.1 → I.g l * I.g x + I.g x * I.g l = 0)
    (car_sq : ∀ x l : Factor, x.2 = l.2 → x.1 = l.1 → I.g l * I.g x = 0) :
    Relations I .fermion where
  simp_sound := fun t => rfl
  simp_coeff := fun t => rfl
  swap_diff := by
    intro x l c hx hl hne
    have hx' : x.2 ≠ 0 := by simpa [Kind.high] using hx
    have hl' : l.2 = 0 := by simpa [Kind.high] using hl
    have h := car_mixed x l hx' hl'
    rw [if_neg hne] at h
    have : I.g l * I.g x = -(I.g x * I.g l) := eq_neg_of_add_eq_zero_left h
    simp only [Kind.swapCoeff, ι_mul_neg_one, this]
    noncomm_ring
  swap_same := by
    intro x l c hx hl he
    have hx' : x.2 ≠ 0 := by simpa [Kind.high] using hx
    have hl' : l.2 = 0 := by simpa [Kind.high] using hl
    have h := car_mixed x l hx' hl'
    rw [if_pos he] at h
    have : I.g l * I.g x = 1 - I.g x * I.g l := eq_sub_of_add_eq h
    simp only [Kind.swapCoeff, Kind.contractCoeff, gq_neg_neg, ι_mul_neg_one, this]
    noncomm_ring
  swap_type := by
    intro x l c ht hgt
    have h := car_same x l ht (by omega)
    have : I.g l * I.g x = -(I.g x * I.g l) := eq_neg_of_add_eq_zero_left h
    simp only [Kind.swapCoeff, ι_mul_neg_one, this]
    noncomm_ring
  nilpotent := fun _ x l ht hi => car_sq x l ht hi

theorem gq_mul_one' (c : GQ) : c * 1 = c := by apply GQ.ext <;> simp
theorem gq_one_mul (c : GQ) : (1 : GQ) * c = c := by apply GQ.ext <;> simp

/-- CCR ⇒ the bosonic rewriting relations -/
theorem relations_boson (I : Interp A)
    (comm_diff : ∀ f h : Factor, f.1 ≠ h.1 → I.g f * I.g h = I.g h * I.g f)
    (ccr : ∀ x l : Factor, x.2 ≠ 0 → l.2 = 0 → x.1 = l.1 → I.g l * I.g x = I.g x * I.g l + 1)
    (comm_same : ∀ x l : Factor, x.2 = l.2 → I.g l * I.g x = I.g x * I.g l) :
    Relations I .boson where
  simp_sound := fun t => evalT_sortF I comm_diff t
  simp_coeff := fun t => rfl
  swap_diff := by
    intro x l c _ _ hne
    simp only [Kind.swapCoeff, gq_mul_one', comm_diff l x (fun e => hne e.symm)]
  swap_same := by
    intro x l c hx hl he
    have hx' : x.2 ≠ 0 := by simpa [Kind.high] using hx
    have hl' : l.2 = 0 := by simpa [Kind.high] using hl
    simp only [Kind.swapCoeff, Kind.contractCoeff, gq_one_mul, gq_mul_one', ccr x l hx' hl' he]
    noncomm_ring
  swap_type := by
    intro x l c ht _
    simp only [Kind.swapCoeff, gq_mul_one', comm_same x l ht]
  nilpotent := by intro h; simp [Kind.isFermion] at h

theorem gq_quad_coeff (c hbar : GQ) : (-c) * GQ.I * hbar = c * ((-1) * GQ.I * hbar) := by
  apply GQ.ext <;> simp <;> ring

/-- `[q, p] = iħ` ⇒ the quadrature rewriting relations (`ι` multiplicative) -/
theorem relations_quad (I : Interp A) (hbar : GQ)
    (ι_mul : ∀ a b, I.ι (a * b) = I.ι a * I.ι b)
    (comm_diff : ∀ f h : Factor, f.1 ≠ h.1 → I.g f * I.g h = I.g h * I.g f)
    (pq : ∀ x l : Factor, x.2 = 0 → l.2 ≠ 0 → x.1 = l.1 →
      I.g l * I.g x = I.g x * I.g l + I.ι ((-1) * GQ.I * hbar))
    (comm_same : ∀ x l : Factor, x.2 = l.2 → I.g l * I.g x = I.g x * I.g l) :
    Relations I (.quad hbar) where
  simp_sound := fun t => evalT_sortF I comm_diff t
  simp_coeff := fun t => rfl
  swap_diff := by
    intro x l c _ _ hne
    simp only [Kind.swapCoeff, comm_diff l x (fun e => hne e.symm)]
  swap_same := by
    intro x l c hx hl he
    have hx' : x.2 = 0 := by simpa [Kind.high] using hx
    have hl' : l.2 ≠ 0 := by simpa [Kind.high] using hl
    simp only [Kind.swapCoeff, Kind.contractCoeff]
    rw [gq_quad_coeff, ι_mul, pq x l hx' hl' he]
    noncomm_ring
  swap_type := by
    intro x l c ht _
    simp only [Kind.swapCoeff, comm_same x l ht]
  nilpotent := by intro h; simp [Kind.isFermion] at h

end C03
end Proofs
end OFV
