/- C10: sums of distinct powers of two; configuration-state index (core Lean only). -/
import OFV.Proofs.C10

namespace OFV.C10
open OFV.Model.C10 OFV.Spec OFV.Spec.C10

/-- adding `2^i` to a number whose bit `i` is clear changes no other bit (no carry) -/
theorem testBit_two_pow_add_of_not (x i j : Nat) (h : x.testBit i = false) (hj : j ≠ i) :
    (2 ^ i + x).testBit j = x.testBit j := by
  induction i generalizing x j with
  | zero =>
    cases j with
    | zero => exact absurd rfl hj
    | succ j' =>
      rw [Nat.testBit_succ, Nat.testBit_succ]
      have : x % 2 = 0 := by
        rw [Nat.testBit_zero] at h
        simpa using h
      congr 1; omega
  | succ i ih =>
    cases j with
    | zero =>
      rw [Nat.testBit_zero, Nat.testBit_zero, Nat.pow_succ]
      generalize 2 ^ i = t
      have : (t * 2 + x) % 2 = x % 2 := by omega
      rw [this]
    | succ j' =>
      rw [Nat.testBit_succ, Nat.testBit_succ]
      have hdiv : (2 ^ (i + 1) + x) / 2 = 2 ^ i + x / 2 := by
        rw [Nat.pow_succ]; generalize 2 ^ i = t; omega
      rw [hdiv]
      apply ih
      · rw [← Nat.testBit_succ]; exact h
      · omega

/-- the bits of a sum of distinct powers of two are the exponents -/
theorem testBit_sum_pow (ps : List Nat) (h : ps.Nodup) (j : Nat) :
    ((ps.map (2 ^ ·)).sum).testBit j = decide (j ∈ ps) := by
  induction ps generalizing j with
  | nil => simp
  | cons p r ih =>
    rw [List.nodup_cons] at h
    rw [List.map_cons, List.sum_cons]
    have hp : ((r.map (2 ^ ·)).sum).testBit p = false := by rw [ih h.2]; simpa using h.1
    by_cases hjp : j = p
    · subst hjp
      rw [Nat.testBit_two_pow_add_eq, hp]; simp
    · rw [testBit_two_pow_add_of_not _ _ _ hp hjp, ih h.2]
      simp [hjp]

theorem sum_pow_lt (ps : List Nat) (h : ps.Nodup) (n : Nat) (hlt : ∀ p ∈ ps, p < n) :
    (ps.map (2 ^ ·)).sum < 2 ^ n := by
  apply Nat.lt_pow_two_of_testBit
  intro i hi
  rw [testBit_sum_pow ps h]
  simp
  intro hmem
  have := hlt i hmem
  omega

/-! ### jw_configuration_state -/

theorem configIndex_eq (occ : List Nat) (n : Nat) :
    configIndex occ n = ((occ.map fun i => n - 1 - i).map (2 ^ ·)).sum := by
  simp [configIndex, List.map_map, Function.comp_def]

theorem nodup_positions (occ : List Nat) (n : Nat) (h : occ.Nodup) (hlt : ∀ i ∈ occ, i < n) :
    (occ.map fun i => n - 1 - i).Nodup := by
  unfold List.Nodup
  rw [List.pairwise_map]
  apply List.Pairwise.imp_of_mem _ h
  intro a b ha hb hab heq
  have := hlt a ha
  have := hlt b hb
  apply hab; omega

/-- `jw_configuration_state(occ, n)` has its 1 at the big-endian index whose bit `n - 1 - j` is
set exactly for the occupied modes `j`, and the index is `< 2^n` -/
theorem configIndex_bits (occ : List Nat) (n : Nat) (h : occ.Nodup) (hlt : ∀ i ∈ occ, i < n) :
    configIndex occ n < 2 ^ n ∧
      ∀ j, j < n → (configIndex occ n).testBit (n - 1 - j) = decide (j ∈ occ) := by
  rw [configIndex_eq]
  have hnd := nodup_positions occ n h hlt
  refine ⟨sum_pow_lt _ hnd n ?_, ?_⟩
  · intro p hp
    rcases List.mem_map.mp hp with ⟨i, hi, rfl⟩
    have := hlt i hi
    omega
  · intro j hj
    rw [testBit_sum_pow _ hnd]
    congr 1
    apply propext
    constructor
    · intro hm
      rcases List.mem_map.mp hm with ⟨i, hi, he⟩
      have := hlt i hi
      have : i = j := by omega
      subst this; exact hi
    · intro hm
      exact List.mem_map.mpr ⟨j, hm, rfl⟩

/-- the Spec mask (mode `j` = bit `j`) of that matrix index is `sum(2**j for j in occ)` -/
theorem maskOfIndex_testBit (n idx j : Nat) :
    (maskOfIndex n idx).testBit j = (decide (j < n) && idx.testBit (n - 1 - j)) := by
  unfold maskOfIndex
  suffices h : ∀ (m acc : Nat), m ≤ n →
      ((List.range m).foldl (fun acc j => if idx.testBit (n - 1 - j) then acc ||| (1 <<< j) else acc) acc).testBit j
        = (acc.testBit j || (decide (j < m) && idx.testBit (n - 1 - j))) by
    have := h n 0 (Nat.le_refl n)
    simpa using this
  intro m
  induction m with
  | zero => intro acc _; simp
  | succ m ih =>
    intro acc hm
    rw [List.range_succ, List.foldl_append, List.foldl_cons, List.foldl_nil]
    have ihm := ih acc (by omega)
    have hdec : decide (j < m + 1) = (decide (j < m) || decide (m = j)) := by
      by_cases h1 : j < m
      · have : j < m + 1 := by omega
        simp [h1, this]
      · by_cases h2 : m = j
        · subst h2; simp
        · have : ¬ j < m + 1 := by omega
          simp [h1, h2, this]
    by_cases hb : idx.testBit (n - 1 - m)
    · rw [if_pos hb, Nat.testBit_or, ihm, Nat.one_shiftLeft, Nat.testBit_two_pow, hdec]
      by_cases hjm : m = j
      · subst hjm; simp [hb]
      · simp [hjm]
    · rw [if_neg hb, ihm, hdec]
      by_cases hjm : m = j
      · subst hjm; simp [hb]
      · simp [hjm]

theorem configIndex_mask (occ : List Nat) (n : Nat) (h : occ.Nodup) (hlt : ∀ i ∈ occ, i < n) :
    maskOfIndex n (configIndex occ n) = (occ.map (2 ^ ·)).sum := by
  apply Nat.eq_of_testBit_eq
  intro j
  rw [maskOfIndex_testBit, testBit_sum_pow occ h]
  by_cases hj : j < n
  · rw [(configIndex_bits occ n h hlt).2 j hj]; simp [hj]
  · have : j ∉ occ := fun hm => hj (hlt j hm)
    simp [hj, this]

/-- `jw_hartree_fock_state`: the first `ne` modes are the `ne` most significant bits -/
theorem hartreeFockIndex_closed (ne n : Nat) (h : ne ≤ n) : hartreeFockIndex ne n + 2 ^ (n - ne) = 2 ^ n := by
  unfold hartreeFockIndex configIndex
  induction ne with
  | zero => simp
  | succ k ih =>
    rw [List.range_succ, List.map_append, List.sum_append]
    have ihk := ih (by omega)
    simp only [List.map_cons, List.map_nil, List.sum_cons, List.sum_nil, Nat.add_zero]
    have hp : 2 ^ (n - k) = 2 * 2 ^ (n - 1 - k) := by
      have : n - k = (n - 1 - k) + 1 := by omega
      rw [this, Nat.pow_succ]; omega
    have hq : n - (k + 1) = n - 1 - k := by omega
    rw [hq]
    omega

end OFV.C10

namespace OFV.C10
open OFV.Model.C10 OFV.Spec OFV.Spec.C10

/-- counting a predicate over `0 … n-1` or over the reversed positions gives the same number -/
theorem count_reverse (n : Nat) (p : Nat → Bool) :
    ((List.range n).filter fun j => p (n - 1 - j)).length = ((List.range n).filter p).length := by
  have hrev : (List.range n).reverse = (List.range n).map fun j => n - 1 - j := by
    have h0 : (List.range n).reverse = (List.range' 0 n).reverse := by rw [List.range_eq_range']
    rw [h0, List.reverse_range']
    apply List.map_congr_left
    intro j _; omega
  have h1 : ((List.range n).filter p).length = ((List.range n).reverse.filter p).length := by
    rw [List.filter_reverse, List.length_reverse]
  rw [h1, hrev, List.filter_map, List.length_map]
  rfl

/-- the particle number is the same read from the big-endian matrix index or from its mask -/
theorem popcount_maskOfIndex (n idx : Nat) : countBelow (maskOfIndex n idx) n = countBelow idx n := by
  unfold countBelow
  have : (List.range n).filter (fun j => (maskOfIndex n idx).testBit j)
      = (List.range n).filter (fun j => idx.testBit (n - 1 - j)) := by
    apply List.filter_congr
    intro j hj
    rw [maskOfIndex_testBit]
    simp [List.mem_range.mp hj]
  rw [this, count_reverse n (fun k => idx.testBit k)]

end OFV.C10
