/-
C03 — the exact regime: on inputs whose coefficients lie on a lattice `(1/D)·ℤ[i]` with
`EQ_TOLERANCE ≤ 1/D`, the deletion of small sums by `+=` only ever deletes exact zeros, so the
Model run with the real tolerance and the Model run with tolerance 0 (the one the soundness and
canonicity theorems talk about) return dictionaries with the same coefficients.
-/
import Mathlib.Tactic.Linarith
import Mathlib.Tactic.Ring
import Mathlib.Tactic.FieldSimp
import OFV.Proofs.GQRing
import OFV.Proofs.C02
import OFV.Proofs.C03Canon3

namespace OFV
namespace Proofs
namespace C03
open Model Model.C03

/-- `c ∈ (1/D)·ℤ[i]` -/
def Lat (D : Nat) (c : GQ) : Prop := ∃ m n : Int, c.re = (m : Rat) / D ∧ c.im = (n : Rat) / D

theorem lat_zero (D : Nat) : Lat D 0 := ⟨0, 0, by simp, by simp⟩

theorem lat_add (D : Nat) (a b : GQ) (ha : Lat D a) (hb : Lat D b) : Lat D (a + b) := by
  obtain ⟨m, n, h1, h2⟩ := ha
  obtain ⟨m', n', h1', h2'⟩ := hb
  refine ⟨m + m', n + n', ?_, ?_⟩
  · simp only [GQ.add_re, h1, h1']; push_cast; ring
  · simp only [GQ.add_im, h2, h2']; push_cast; ring

theorem lat_neg (D : Nat) (a : GQ) (ha : Lat D a) : Lat D (-a) := by
  obtain ⟨m, n, h1, h2⟩ := ha
  refine ⟨-m, -n, ?_, ?_⟩
  · simp only [GQ.neg_re, h1]; push_cast; ring
  · simp only [GQ.neg_im, h2]; push_cast; ring

theorem lat_congr (D : Nat) (a b : GQ) (h : a = b) (ha : Lat D a) : Lat D b := h ▸ ha

/-- a lattice point below the tolerance is zero -/
theorem lat_small_zero (D : Nat) (hD : 0 < D) (tol : Rat) (h0 : 0 ≤ tol) (h1 : tol * D ≤ 1) (c : GQ)
    (hc : Lat D c) (hs : GQ.isSmall tol c = true) : c = 0 := by
  obtain ⟨m, n, hm, hn⟩ := hc
  unfold GQ.isSmall GQ.normSq at hs
  rw [decide_eq_true_eq, hm, hn] at hs
  have hDq : (0 : Rat) < D := by exact_mod_cast hD
  have hsq : ((m : Rat) * m + (n : Rat) * n) < 1 := by
    have e : (m : Rat) / D * ((m : Rat) / D) + (n : Rat) / D * ((n : Rat) / D) =
        ((m : Rat) * m + (n : Rat) * n) / ((D : Rat) * D) := by field_simp
    rw [e, div_lt_iff₀ (mul_pos hDq hDq)] at hs
    have : tol * tol * ((D : Rat) * D) = (tol * D) * (tol * D) := by ring
    rw [this] at hs
    have h2 : tol * D * (tol * D) ≤ 1 := by
      have hnn : 0 ≤ tol * D := mul_nonneg h0 (le_of_lt hDq)
      nlinarith
    linarith
  have hint : m * m + n * n < 1 := by exact_mod_cast hsq
  have hm0 : m = 0 := by nlinarith [mul_self_nonneg m, mul_self_nonneg n]
  have hn0 : n = 0 := by nlinarith [mul_self_nonneg m, mul_self_nonneg n]
  apply GQ.ext
  · rw [hm, hm0]; simp
  · rw [hn, hn0]; simp

/-- coefficient function of a dictionary -/
def Fn (a : Op) (t : Term) : GQ := Dict.getD a t 0

def LatOp (D : Nat) (a : Op) : Prop := ∀ e ∈ a, Lat D e.2

theorem lat_Fn (D : Nat) (a : Op) (la : LatOp D a) (t : Term) : Lat D (Fn a t) := by
  unfold Fn Dict.getD
  cases h : Dict.get? a t with
  | none => exact lat_zero D
  | some v =>
    induction a with
    | nil => simp [Dict.get?] at h
    | cons e r ih =>
      obtain ⟨k, w⟩ := e
      by_cases hk : k = t
      · simp [Dict.get?, hk] at h; subst h; exact la (k, w) (by simp)
      · simp [Dict.get?, hk] at h
        exact ih (fun e he => la e (List.mem_cons_of_mem _ he)) h

theorem latOp_set (D : Nat) (a : Op) (k : Term) (v : GQ) (la : LatOp D a) (hv : Lat D v) :
    LatOp D (Dict.set a k v) := by
  induction a with
  | nil => intro e he; simp [Dict.set] at he; subst he; exact hv
  | cons e r ih =>
    obtain ⟨k', v'⟩ := e
    have hr : LatOp D r := fun e he => la e (List.mem_cons_of_mem _ he)
    unfold Dict.set
    split_ifs with h
    · intro e he
      rcases List.mem_cons.1 he with rfl | he
      · exact hv
      · exact hr e he
    · intro e he
      rcases List.mem_cons.1 he with rfl | he
      · exact la (k', v') (by simp)
      · exact ih hr e he

theorem latOp_erase (D : Nat) (a : Op) (k : Term) (la : LatOp D a) : LatOp D (Dict.erase a k) := by
  induction a with
  | nil => intro e he; simp [Dict.erase] at he
  | cons e r ih =>
    obtain ⟨k', v'⟩ := e
    have hr : LatOp D r := fun e he => la e (List.mem_cons_of_mem _ he)
    unfold Dict.erase
    split_ifs with h
    · exact hr
    · intro e he
      rcases List.mem_cons.1 he with rfl | he
      · exact la (k', v') (by simp)
      · exact ih hr e he

theorem get?_erase (a : Op) (wa : Dict.WF a) (k t : Term) :
    Dict.get? (Dict.erase a k) t = if k = t then none else Dict.get? a t := by
  induction a with
  | nil => simp [Dict.erase, Dict.get?]
  | cons e r ih =>
    obtain ⟨k', v'⟩ := e
    have hw : k' ∉ Dict.keys r ∧ Dict.WF r := by simpa [Dict.WF, Dict.keys] using wa
    by_cases h : k' = k
    · subst h
      by_cases h2 : k' = t
      · subst h2
        simp only [Dict.erase, if_true]
        exact (Proofs.C02.get?_eq_none_iff r k').2 hw.1
      · simp [Dict.erase, Dict.get?, h2]
    · by_cases h2 : k = t
      · subst h2
        simp only [Dict.erase, h, if_false, Dict.get?, if_true]
        have := ih hw.2
        simpa using this
      · simp only [Dict.erase, h, if_false, Dict.get?, h2]
        by_cases h3 : k' = t
        · simp [h3]
        · simp only [h3, if_false]; have := ih hw.2; simpa [h2] using this

/-- one step of `+=` on the lattice: the coefficient function is updated, whatever the tolerance -/
theorem fn_step (D : Nat) (hD : 0 < D) (tol : Rat) (h0 : 0 ≤ tol) (h1 : tol * D ≤ 1) (a : Op)
    (wa : Dict.WF a) (la : LatOp D a) (t : Term) (c : GQ) (hc : Lat D c) :
    let v := Dict.getD a t 0 + c
    let a' := if GQ.isSmall tol v then Dict.erase a t else Dict.set a t v
    Dict.WF a' ∧ LatOp D a' ∧ ∀ t', Fn a' t' = if t = t' then Fn a t + c else Fn a t' := by
  intro v a'
  have hv : Lat D v := lat_add D _ _ (lat_Fn D a la t) hc
  by_cases hs : GQ.isSmall tol v = true
  · have hz : v = 0 := lat_small_zero D hD tol h0 h1 v hv hs
    have ea : a' = Dict.erase a t := by simp [a', hs]
    rw [ea]
    refine ⟨wf_erase a t wa, latOp_erase D a t la, ?_⟩
    intro t'
    unfold Fn Dict.getD
    rw [get?_erase a wa]
    by_cases h : t = t'
    · subst h; simp only [if_true, Option.getD_none]; exact hz.symm
    · simp [h]
  · have ea : a' = Dict.set a t v := by simp [a', hs]
    rw [ea]
    refine ⟨wf_set a t v wa, latOp_set D a t v la hv, ?_⟩
    intro t'
    unfold Fn Dict.getD
    rw [Proofs.C02.get?_set]
    by_cases h : t = t'
    · subst h; simp [v, Dict.getD]
    · simp [h]

/-- `a += b` on the lattice adds the coefficient functions, whatever the tolerance -/
theorem fn_iadd (D : Nat) (hD : 0 < D) (tol : Rat) (h0 : 0 ≤ tol) (h1 : tol * D ≤ 1) (b : Op) :
    ∀ (a : Op), Dict.WF a → LatOp D a → Dict.WF b → LatOp D b →
      Dict.WF (iadd tol a b) ∧ LatOp D (iadd tol a b) ∧ ∀ t, Fn (iadd tol a b) t = Fn a t + Fn b t := by
  induction b with
  | nil =>
    intro a wa la _ _
    refine ⟨wa, la, fun t => ?_⟩
    simp [iadd, Fn, Dict.getD, Dict.get?]
  | cons e r ih =>
    intro a wa la wb lb
    obtain ⟨t, c⟩ := e
    have hw : t ∉ Dict.keys r ∧ Dict.WF r := by simpa [Dict.WF, Dict.keys] using wb
    have hc : Lat D c := lb (t, c) (by simp)
    obtain ⟨w1, l1, f1⟩ := fn_step D hD tol h0 h1 a wa la t c hc
    have e1 : iadd tol a ((t, c) :: r) =
        iadd tol (if GQ.isSmall tol (Dict.getD a t 0 + c) then Dict.erase a t
          else Dict.set a t (Dict.getD a t 0 + c)) r := by
      simp [iadd]
    rw [e1]
    obtain ⟨w2, l2, f2⟩ := ih _ w1 l1 hw.2 (fun e he => lb e (List.mem_cons_of_mem _ he))
    refine ⟨w2, l2, fun t' => ?_⟩
    rw [f2 t', f1 t']
    have hr0 : Fn r t = 0 := by
      unfold Fn Dict.getD; rw [(Proofs.C02.get?_eq_none_iff r t).2 hw.1]; rfl
    by_cases h : t = t'
    · subst h
      simp only [if_true, hr0]
      unfold Fn
      simp [Dict.getD, Dict.get?]
    · simp only [h, if_false]
      unfold Fn
      simp [Dict.getD, Dict.get?, h]

/-- two dictionaries with the same coefficient function, both well formed and on the lattice -/
def Sim (D : Nat) (a a' : Op) : Prop :=
  Dict.WF a ∧ Dict.WF a' ∧ LatOp D a ∧ LatOp D a' ∧ ∀ t, Fn a t = Fn a' t

theorem sim_nil (D : Nat) : Sim D [] [] :=
  ⟨by simp [Dict.WF, Dict.keys], by simp [Dict.WF, Dict.keys], fun e he => by simp at he,
    fun e he => by simp at he, fun _ => rfl⟩

theorem sim_iadd (D : Nat) (hD : 0 < D) (tol : Rat) (h0 : 0 ≤ tol) (h1 : tol * D ≤ 1)
    (a a' b b' : Op) (ha : Sim D a a') (hb : Sim D b b') : Sim D (iadd tol a b) (iadd 0 a' b') := by
  obtain ⟨wa, wa', la, la', fa⟩ := ha
  obtain ⟨wb, wb', lb, lb', fb⟩ := hb
  obtain ⟨w1, l1, f1⟩ := fn_iadd D hD tol h0 h1 b a wa la wb lb
  obtain ⟨w2, l2, f2⟩ := fn_iadd D hD 0 (le_refl 0) (by simp) b' a' wa' la' wb' lb'
  exact ⟨w1, w2, l1, l2, fun t => by rw [f1, f2, fa, fb]⟩

def StepSim (D : Nat) : Step → Step → Prop
  | .cont pre c acc, .cont pre' c' acc' => pre = pre' ∧ c = c' ∧ Lat D c ∧ Sim D acc acc'
  | .ret acc, .ret acc' => Sim D acc acc'
  | _, _ => False

section sim
variable (D : Nat) (hD : 0 < D) (tol : Rat) (h0 : 0 ≤ tol) (h1 : tol * D ≤ 1) (k : Kind)
  (hk : ∀ c, Lat D c → Lat D (k.swapCoeff c) ∧ Lat D (k.contractCoeff c))
  (rec rec' : Term → GQ → Op)

include hD h0 h1 hk in
theorem inner_sim (hrec : ∀ t c, Lat D c → Sim D (rec t c) (rec' t c)) :
    ∀ (revP : Term) (x : Factor) (passed S : Term) (c : GQ) (acc acc' : Op), Lat D c → Sim D acc acc' →
      StepSim D (inner tol k rec revP x passed S c acc) (inner 0 k rec' revP x passed S c acc') := by
  intro revP
  induction revP with
  | nil =>
    intro x passed S c acc acc' hc hs
    simp only [inner, StepSim]
    exact ⟨trivial, trivial, hc, hs⟩
  | cons l r ih =>
    intro x passed S c acc acc' hc hs
    unfold inner
    split_ifs
    · exact ih x (l :: passed) S _ _ _ (hk c hc).1
        (sim_iadd D hD tol h0 h1 _ _ _ _ hs (hrec _ _ (hk _ (hk c hc).1).2))
    · exact ih x (l :: passed) S _ _ _ (hk c hc).1 hs
    · exact hs
    · exact ih x (l :: passed) S _ _ _ (hk c hc).1 hs
    · exact ih l (x :: passed) S _ _ _ hc hs
    · exact ih l (x :: passed) S _ _ _ hc hs

include hD h0 h1 hk in
theorem outer_sim (hrec : ∀ t c, Lat D c → Sim D (rec t c) (rec' t c))
    (hmk : ∀ t c, Lat D c → Lat D (c * (simplify k.cls t).1)) :
    ∀ (rest done : Term) (c : GQ) (acc acc' : Op), Lat D c → Sim D acc acc' →
      Sim D (outer tol k rec done rest c acc) (outer 0 k rec' done rest c acc') := by
  intro rest
  induction rest with
  | nil =>
    intro done c acc acc' hc hs
    unfold outer
    apply sim_iadd D hD tol h0 h1 _ _ _ _ hs
    have hl : LatOp D (mk k.cls done c) := by
      intro e he; simp only [mk, List.mem_singleton] at he; subst he; exact hmk done c hc
    have hw : Dict.WF (mk k.cls done c) := by simp [mk, Dict.WF, Dict.keys]
    exact ⟨hw, hw, hl, hl, fun _ => rfl⟩
  | cons x S ih =>
    intro done c acc acc' hc hs
    have h := inner_sim D hD tol h0 h1 k hk rec rec' hrec done.reverse x [] S c acc acc' hc hs
    unfold outer
    cases h1' : inner tol k rec done.reverse x [] S c acc with
    | ret a1 =>
      cases h2' : inner 0 k rec' done.reverse x [] S c acc' with
      | ret a2 => rw [h1', h2'] at h; exact h
      | cont p2 c2 a2 => rw [h1', h2'] at h; exact absurd h (by simp [StepSim])
    | cont p1 c1 a1 =>
      cases h2' : inner 0 k rec' done.reverse x [] S c acc' with
      | ret a2 => rw [h1', h2'] at h; exact absurd h (by simp [StepSim])
      | cont p2 c2 a2 =>
        rw [h1', h2'] at h
        obtain ⟨e1, e2, hc1, hs1⟩ := h
        subst e1; subst e2
        exact ih p1 c1 a1 a2 hc1 hs1

include hD h0 h1 hk in
theorem noTermFuel_sim (hmk : ∀ t c, Lat D c → Lat D (c * (simplify k.cls t).1)) :
    ∀ (fuel : Nat) (t : Term) (c : GQ), Lat D c →
      Sim D (noTermFuel tol k fuel t c) (noTermFuel 0 k fuel t c) := by
  intro fuel
  induction fuel with
  | zero => intro t c _; exact sim_nil D
  | succ fuel ih =>
    intro t c hc
    unfold noTermFuel
    exact outer_sim D hD tol h0 h1 k hk _ _ ih hmk t [] c [] [] hc (sim_nil D)

include hD h0 h1 hk in
theorem normalOrdered_sim (hmk : ∀ t c, Lat D c → Lat D (c * (simplify k.cls t).1)) (a : Op)
    (la : LatOp D a) : Sim D (normalOrdered tol k a) (normalOrdered 0 k a) := by
  unfold normalOrdered
  have : ∀ (l : Op) (acc acc' : Op), LatOp D l → Sim D acc acc' →
      Sim D (l.foldl (fun acc x => iadd tol acc (noTerm tol k x.1 x.2)) acc)
        (l.foldl (fun acc x => iadd 0 acc (noTerm 0 k x.1 x.2)) acc') := by
    intro l
    induction l with
    | nil => intro acc acc' _ h; simpa using h
    | cons e r ih =>
      intro acc acc' hl h
      rw [List.foldl_cons, List.foldl_cons]
      apply ih _ _ (fun e' he' => hl e' (List.mem_cons_of_mem _ he'))
      exact sim_iadd D hD tol h0 h1 _ _ _ _ h
        (noTermFuel_sim D hD tol h0 h1 k hk hmk _ _ _ (hl e (by simp)))
  exact this a [] [] la (sim_nil D)

end sim

theorem lat_mul_one (D : Nat) (c : GQ) (h : Lat D c) : Lat D (c * 1) := lat_congr D c _ (by ring) h

theorem hk_fermion (D : Nat) (c : GQ) (h : Lat D c) :
    Lat D (Kind.fermion.swapCoeff c) ∧ Lat D (Kind.fermion.contractCoeff c) := by
  constructor
  · exact lat_congr D (-c) _ (by simp only [Kind.swapCoeff]; ring) (lat_neg D c h)
  · exact lat_congr D (-c) _ (by simp only [Kind.contractCoeff]; ring) (lat_neg D c h)

theorem hk_boson (D : Nat) (c : GQ) (h : Lat D c) :
    Lat D (Kind.boson.swapCoeff c) ∧ Lat D (Kind.boson.contractCoeff c) := by
  constructor
  · exact lat_congr D c _ (by simp only [Kind.swapCoeff]; ring) h
  · exact lat_congr D c _ (by simp only [Kind.contractCoeff]; ring) h

/-- quadratures with `ħ` a Gaussian integer (1, 2, 8, …): the lattice is closed under `-c·i·ħ` -/
theorem hk_quad (D : Nat) (hbar : GQ) (hh : ∃ p q : Int, hbar.re = p ∧ hbar.im = q) (c : GQ) (h : Lat D c) :
    Lat D ((Kind.quad hbar).swapCoeff c) ∧ Lat D ((Kind.quad hbar).contractCoeff c) := by
  refine ⟨h, ?_⟩
  obtain ⟨m, n, h1, h2⟩ := h
  obtain ⟨p, q, hp, hq⟩ := hh
  refine ⟨n * p + m * q, n * q - m * p, ?_, ?_⟩
  · simp only [Kind.contractCoeff, GQ.mul_re, GQ.mul_im, GQ.neg_re, GQ.neg_im, GQ.I_re, GQ.I_im, h1, h2, hp, hq]
    push_cast; ring
  · simp only [Kind.contractCoeff, GQ.mul_re, GQ.mul_im, GQ.neg_re, GQ.neg_im, GQ.I_re, GQ.I_im, h1, h2, hp, hq]
    push_cast; ring

/-- admissible kinds: fermions, bosons, quadratures with `ħ` a Gaussian integer (1, 2, 8, …;
for `ħ = 1/2` the lattice is not closed under the contraction factor `-iħ`) -/
def LatticeKind : Kind → Prop
  | .fermion => True
  | .boson => True
  | .quad hbar => ∃ p q : Int, hbar.re = p ∧ hbar.im = q

/-- the decidable lattice test the driver evaluates implies the lattice hypothesis -/
theorem lat_of_latB (D : Nat) (hD : 0 < D) (a : Op) (h : latB D a = true) : ∀ e ∈ a, Lat D e.2 := by
  intro e he
  unfold latB at h
  rw [List.all_eq_true] at h
  have := h e he
  simp only [Bool.and_eq_true, beq_iff_eq] at this
  have hDq : (D : Rat) ≠ 0 := by exact_mod_cast (Nat.pos_iff_ne_zero.1 hD)
  refine ⟨(e.2.re * D).num, (e.2.im * D).num, ?_, ?_⟩
  · rw [Rat.coe_int_num_of_den_eq_one this.1]; field_simp
  · rw [Rat.coe_int_num_of_den_eq_one this.2]; field_simp

/-- fermions: the run with the real tolerance and the run with tolerance 0 agree on the lattice -/
theorem normal_ordered_exact_regime_aux (D : Nat) (hD : 0 < D) (tol : Rat) (h0 : 0 ≤ tol) (h1 : tol * D ≤ 1)
    (a : Op) (la : ∀ e ∈ a, Lat D e.2) (t : Term) :
    Dict.getD (normalOrdered tol .fermion a) t 0 = Dict.getD (normalOrdered 0 .fermion a) t 0 :=
  (normalOrdered_sim D hD tol h0 h1 .fermion (hk_fermion D) (fun _ c hc => lat_mul_one D c hc) a la).2.2.2.2 t

end C03
end Proofs
end OFV
