/-
C07 — helper lemmas for the dual-basis shortcut predicates: the three term shapes
`p^ p`, `p^ q`, `p^ q^ p q`, which products vanish, which commute.  Core Lean only.
-/
import OFV.Proofs.C07Fermi

namespace OFV
namespace Proofs
namespace C07F
open OFV.Spec OFV.Model.C07

/-- single terms of the plane-wave dual-basis Hamiltonian -/
inductive DualTerm : Term → Prop
  | n1 (p : Nat) : DualTerm [(p, 1), (p, 0)]
  | hop (p q : Nat) (h : p ≠ q) : DualTerm [(p, 1), (q, 0)]
  | n2 (p q : Nat) (h : p ≠ q) : DualTerm [(p, 1), (q, 1), (p, 0), (q, 0)]

theorem net_n1 (p m : Nat) : net m [(p, 1), (p, 0)] = 0 := by
  simp only [net]
  by_cases h1 : p = m <;> simp [h1]

theorem net_n2 (p q m : Nat) : net m [(p, 1), (q, 1), (p, 0), (q, 0)] = 0 := by
  simp only [net]
  by_cases h1 : p = m <;> by_cases h2 : q = m <;> simp [h1, h2]

theorem diag_n1 (p : Nat) : Diag (actFTerm [(p, 1), (p, 0)]) := diag_of_balanced _ (net_n1 p)
theorem diag_n2 (p q : Nat) : Diag (actFTerm [(p, 1), (q, 1), (p, 0), (q, 0)]) := diag_of_balanced _ (net_n2 p q)

theorem comm_of_diag (a b : Term) (ha : Diag (actFTerm a)) (hb : Diag (actFTerm b)) :
    actFTerm (a ++ b) = actFTerm (b ++ a) := by
  rw [actFTerm_append, actFTerm_append, diag_comm ha hb]

/-- `p^ q^ p q` annihilates every state in which `p` or `q` is empty -/
theorem n2_requires {p q s k s' : Nat} (hpq : p ≠ q)
    (h : actFTerm [(p, 1), (q, 1), (p, 0), (q, 0)] s = some (k, s')) : bitI s p = 1 ∧ bitI s q = 1 := by
  have e : [(p, 1), (q, 1), (p, 0), (q, 0)] = [(p, 1), (q, 1)] ++ [(p, 0), (q, 0)] := rfl
  rw [e, actFTerm_append] at h
  obtain ⟨k1, s1, k2, h1, _, _⟩ := fcomp_some h
  have b1 := actFTerm_bit _ h1 p
  have b2 := actFTerm_bit _ h1 q
  have r1 := bitI_range s p
  have r2 := bitI_range s q
  have r3 := bitI_range s1 p
  have r4 := bitI_range s1 q
  have hqp : ¬ q = p := fun e => hpq e.symm
  simp only [net, hpq, hqp, if_true, if_false] at b1 b2
  constructor <;> omega

/-- a hopping term and a two-body number term on the same two modes multiply to zero
(in both orders) -/
theorem hop_n2_zero (p q x y : Nat) (hpq : p ≠ q) (hxy : x ≠ y)
    (hs : (x = p ∧ y = q) ∨ (x = q ∧ y = p)) :
    actFTerm ([(p, 1), (q, 0)] ++ [(x, 1), (y, 1), (x, 0), (y, 0)]) = fzero ∧
    actFTerm ([(x, 1), (y, 1), (x, 0), (y, 0)] ++ [(p, 1), (q, 0)]) = fzero := by
  have hqp : ¬ q = p := fun e => hpq e.symm
  constructor
  · funext s
    cases h : actFTerm ([(p, 1), (q, 0)] ++ [(x, 1), (y, 1), (x, 0), (y, 0)]) s with
    | none => rfl
    | some r =>
      exfalso
      obtain ⟨k, s'⟩ := r
      rw [actFTerm_append] at h
      obtain ⟨k1, s1, k2, h1, h2, _⟩ := fcomp_some h
      have hd := diag_n2 x y s k1 s1 h1
      subst hd
      have hr := n2_requires hxy h1
      have hp1 : bitI s1 p = 1 := by rcases hs with ⟨rfl, rfl⟩ | ⟨rfl, rfl⟩ <;> simp [hr]
      have b := actFTerm_bit _ h2 p
      have r1 := bitI_range s' p
      simp only [net, hqp, if_true, if_false] at b
      omega
  · funext s
    cases h : actFTerm ([(x, 1), (y, 1), (x, 0), (y, 0)] ++ [(p, 1), (q, 0)]) s with
    | none => rfl
    | some r =>
      exfalso
      obtain ⟨k, s'⟩ := r
      rw [actFTerm_append] at h
      obtain ⟨k1, s1, k2, h1, h2, _⟩ := fcomp_some h
      have hr := n2_requires hxy h2
      have hq1 : bitI s1 q = 1 := by rcases hs with ⟨rfl, rfl⟩ | ⟨rfl, rfl⟩ <;> simp [hr]
      have b := actFTerm_bit _ h1 q
      have r1 := bitI_range s q
      simp only [net, hpq, if_true, if_false] at b
      omega

theorem disjoint_of_lists (a b : Term) (h : ∀ i ∈ a.map (·.1), ∀ j ∈ b.map (·.1), i ≠ j) :
    ∀ f ∈ a, ∀ g ∈ b, f.1 ≠ g.1 :=
  fun f hf g hg => h f.1 (List.mem_map.mpr ⟨f, hf, rfl⟩) g.1 (List.mem_map.mpr ⟨g, hg, rfl⟩)

/-- both `a b` and `b a` vanish when together they create or annihilate a mode twice net -/
theorem comm_of_net (a b : Term) (m : Nat) (h : 2 ≤ net m (a ++ b) ∨ net m (a ++ b) ≤ -2) :
    actFTerm (a ++ b) = actFTerm (b ++ a) := by
  rw [actFTerm_zero_of_net _ m h, actFTerm_zero_of_net (b ++ a) m (by
    rw [net_append] at h ⊢; omega)]

/-- soundness core of `trivially_commutes_dual_basis`: a `True` answer implies `⟦a⟧⟦b⟧ = ⟦b⟧⟦a⟧` -/
theorem tc_dual_commutes (a b : Term) (ha : DualTerm a) (hb : DualTerm b)
    (h : triviallyCommutesDualBasis a b = true) : actFTerm (a ++ b) = actFTerm (b ++ a) := by
  cases ha with
  | n1 p =>
    cases hb with
    | n1 r => exact comm_of_diag _ _ (diag_n1 p) (diag_n1 r)
    | n2 r s hrs => exact comm_of_diag _ _ (diag_n1 p) (diag_n2 r s)
    | hop r s hrs =>
      simp [triviallyCommutesDualBasis, fIdx, fAct, isNumberOp] at h
      apply term_comm_disjoint_even _ _ _ (Or.inl (by simp))
      apply disjoint_of_lists
      simp; omega
  | hop p q hpq =>
    cases hb with
    | n1 r =>
      simp [triviallyCommutesDualBasis, fIdx, fAct, isNumberOp] at h
      apply term_comm_disjoint_even _ _ _ (Or.inl (by simp))
      apply disjoint_of_lists
      simp; omega
    | hop r s hrs =>
      simp [triviallyCommutesDualBasis, fIdx, fAct, isNumberOp] at h
      have hc : (p ≠ r ∧ p ≠ s ∧ q ≠ r ∧ q ≠ s) ∨ p = r ∨ q = s := by omega
      rcases hc with hd | rfl | rfl
      · apply term_comm_disjoint_even _ _ _ (Or.inl (by simp))
        apply disjoint_of_lists
        simp; omega
      · apply comm_of_net _ _ p
        have h1 : ¬ q = p := fun e => hpq e.symm
        have h2 : ¬ s = p := fun e => hrs e.symm
        simp [net, h1, h2]
      · apply comm_of_net _ _ q
        simp [net, hpq, hrs]
    | n2 r s hrs =>
      simp [triviallyCommutesDualBasis, fIdx, fAct, isNumberOp] at h
      have hc : (p ≠ r ∧ p ≠ s ∧ q ≠ r ∧ q ≠ s) ∨ (r = p ∧ s = q) ∨ (r = q ∧ s = p) := by omega
      rcases hc with hd | hs
      · apply term_comm_disjoint_even _ _ _ (Or.inl (by simp))
        apply disjoint_of_lists
        simp; omega
      · have := hop_n2_zero p q r s hpq hrs hs
        rw [this.1, this.2]
  | n2 p q hpq =>
    cases hb with
    | n1 r => exact comm_of_diag _ _ (diag_n2 p q) (diag_n1 r)
    | n2 r s hrs => exact comm_of_diag _ _ (diag_n2 p q) (diag_n2 r s)
    | hop r s hrs =>
      simp [triviallyCommutesDualBasis, fIdx, fAct, isNumberOp] at h
      have hc : (p ≠ r ∧ p ≠ s ∧ q ≠ r ∧ q ≠ s) ∨ (p = r ∧ q = s) ∨ (p = s ∧ q = r) := by omega
      rcases hc with hd | hs
      · apply term_comm_disjoint_even _ _ _ (Or.inl (by simp))
        apply disjoint_of_lists
        simp; omega
      · have := hop_n2_zero r s p q hrs hpq hs
        rw [this.1, this.2]

/-! ### `trivially_double_commutes_dual_basis`: which branch answered `True` -/

theorem filter2_length (l : List Nat) (p q : Nat) :
    1 < (List.filter l.contains [p, q]).length ↔ (p ∈ l ∧ q ∈ l) := by
  by_cases hp : p ∈ l <;> by_cases hq : q ∈ l <;> simp [List.filter, hp, hq]

/-- outside the input class of finding F07, a `True` answer has one of three sound reasons:
`b`, `c` pass `trivially_commutes_dual_basis`; or `a` shares no mode with `b`, `c`; or the
creation/annihilation counts exceed ±1 for some mode -/
theorem tdc_cases (a b c : Term) (hb : DualTerm b) (hc : DualTerm c) (hex : f07Class b c = false)
    (h : triviallyDoubleCommutesDualBasis a b c = true) :
    triviallyCommutesDualBasis b c = true ∨
    (!([fIdx b 0, fIdx b 1, fIdx c 0, fIdx c 1].contains (fIdx a 0) ||
       [fIdx b 0, fIdx b 1, fIdx c 0, fIdx c 1].contains (fIdx a 1))) = true ∨
    ((countChanges (a ++ b ++ c)).any (fun e => e.2 > 1) ||
      (countChanges (a ++ b ++ c)).any (fun e => e.2 < -1)) = true := by
  unfold triviallyDoubleCommutesDualBasis at h
  generalize ((countChanges (a ++ b ++ c)).any (fun e => e.2 > 1) ||
    (countChanges (a ++ b ++ c)).any (fun e => e.2 < -1)) = X at h ⊢
  generalize fIdx a 0 = a0 at h ⊢
  generalize fIdx a 1 = a1 at h ⊢
  cases hb with
  | n1 p =>
    cases hc with
    | n1 r => left; simp [triviallyCommutesDualBasis, fIdx, fAct, isNumberOp]
    | n2 r s hrs => left; simp [triviallyCommutesDualBasis, fIdx, fAct, isNumberOp]
    | hop r s hrs =>
      simp [f07Class, fIdx, hrs] at hex
      simp [triviallyCommutesDualBasis, fIdx, hex] at h ⊢
  | hop p q hpq =>
    cases hc with
    | n1 r =>
      simp [triviallyCommutesDualBasis, fIdx, fAct, isNumberOp, hpq, filter2_length] at h ⊢
      cases X <;> simp at h ⊢ <;> omega
    | n2 r s hrs =>
      simp [triviallyCommutesDualBasis, fIdx, fAct, isNumberOp, hpq, filter2_length] at h ⊢
      cases X <;> simp at h ⊢ <;> omega
    | hop r s hrs =>
      simp [triviallyCommutesDualBasis, fIdx, fAct, isNumberOp, hpq, hrs] at h ⊢
      cases X <;> simp at h ⊢ <;> omega
  | n2 p q hpq =>
    cases hc with
    | n1 r => left; simp [triviallyCommutesDualBasis, fIdx, fAct, isNumberOp]
    | n2 r s hrs => left; simp [triviallyCommutesDualBasis, fIdx, fAct, isNumberOp]
    | hop r s hrs =>
      simp [triviallyCommutesDualBasis, fIdx, fAct, isNumberOp, hpq, hrs, filter2_length] at h ⊢
      cases X <;> simp at h ⊢ <;> omega

/-- every factor of a dual-basis term acts on one of its first two modes; the length is even;
actions are 0 / 1 -/
theorem DualTerm.modes {t : Term} (h : DualTerm t) : ∀ f ∈ t, f.1 = fIdx t 0 ∨ f.1 = fIdx t 1 := by
  cases h <;> simp [fIdx]

theorem DualTerm.even {t : Term} (h : DualTerm t) : t.length % 2 = 0 := by
  cases h <;> simp

theorem DualTerm.ladder {t : Term} (h : DualTerm t) : Ladder t := by
  cases h <;> simp [Ladder]

/-! ### the `counts` dictionary holds the net counts -/

/-- `2 * action - 1` summed over the factors on mode `m` -/
def netM (m : Nat) : Term → Int
  | [] => 0
  | f :: t => (if f.1 = m then 2 * (f.2 : Int) - 1 else 0) + netM m t

theorem netM_eq_net (m : Nat) (t : Term) (h : Ladder t) : netM m t = net m t := by
  induction t with
  | nil => rfl
  | cons f t ih =>
    have hf := h f (by simp)
    simp only [netM, net, ih (fun g hg => h g (by simp [hg]))]
    by_cases hm : f.1 = m
    · have : f.2 = 0 ∨ f.2 = 1 := by omega
      rcases this with h0 | h0 <;> simp [hm, h0]
    · simp [hm]

theorem keys_set {α : Type} (d : List (Nat × α)) (k : Nat) (v : α) :
    Dict.keys (Dict.set d k v) = if k ∈ Dict.keys d then Dict.keys d else Dict.keys d ++ [k] := by
  induction d with
  | nil => simp [Dict.set, Dict.keys]
  | cons e d ih =>
    obtain ⟨k', v'⟩ := e
    by_cases hk : k' = k
    · subst hk; simp [Dict.set, Dict.keys]
    · have hk' : ¬ k = k' := fun e => hk e.symm
      simp only [Dict.set, hk, if_false, Dict.keys, List.map_cons, List.mem_cons, hk', false_or] at ih ⊢
      rw [ih]; split <;> rename_i hmem <;> simp [hmem]

theorem nodup_set {α : Type} (d : List (Nat × α)) (k : Nat) (v : α) (h : (Dict.keys d).Nodup) :
    (Dict.keys (Dict.set d k v)).Nodup := by
  rw [keys_set]
  split
  · exact h
  · rename_i hk
    rw [List.nodup_append]
    exact ⟨h, by simp, by intro a ha b hb; simp at hb; subst hb; intro e; subst e; exact hk ha⟩

theorem getD_set (d : List (Nat × Int)) (k m : Nat) (v : Int) :
    Dict.getD (Dict.set d k v) m 0 = if k = m then v else Dict.getD d m 0 := by
  induction d with
  | nil =>
    by_cases h : k = m <;> simp [Dict.set, Dict.getD, Dict.get?, h]
  | cons e d ih =>
    obtain ⟨k', v'⟩ := e
    by_cases hk : k' = k
    · subst hk
      by_cases h : k' = m <;> simp [Dict.set, Dict.getD, Dict.get?, h]
    · simp only [Dict.set, hk, if_false]
      simp only [Dict.getD, Dict.get?] at ih ⊢
      by_cases h : k' = m
      · subst h
        have : ¬ k = k' := fun e => hk e.symm
        simp [this]
      · simp only [h, if_false]; exact ih

theorem getD_of_mem (d : List (Nat × Int)) (h : (Dict.keys d).Nodup) : ∀ e ∈ d, Dict.getD d e.1 0 = e.2 := by
  induction d with
  | nil => intro e he; cases he
  | cons x d ih =>
    intro e he
    obtain ⟨k', v'⟩ := x
    simp only [Dict.keys, List.map_cons, List.nodup_cons] at h
    rcases List.mem_cons.mp he with rfl | he'
    · simp [Dict.getD, Dict.get?]
    · have hne : ¬ k' = e.1 := by
        intro heq
        apply h.1
        rw [heq]
        exact List.mem_map.mpr ⟨e, he', rfl⟩
      simp only [Dict.getD, Dict.get?, hne, if_false]
      exact ih h.2 e he'

theorem countChanges_aux (t : Term) : ∀ (d : List (Nat × Int)), (Dict.keys d).Nodup →
    (Dict.keys (t.foldl (fun d f => Dict.set d f.1 (Dict.getD d f.1 0 + 2 * (f.2 : Int) - 1)) d)).Nodup ∧
    ∀ m, Dict.getD (t.foldl (fun d f => Dict.set d f.1 (Dict.getD d f.1 0 + 2 * (f.2 : Int) - 1)) d) m 0 =
      Dict.getD d m 0 + netM m t := by
  induction t with
  | nil => intro d hd; exact ⟨hd, fun m => by simp [netM]⟩
  | cons f t ih =>
    intro d hd
    simp only [List.foldl_cons]
    have := ih _ (nodup_set d f.1 (Dict.getD d f.1 0 + 2 * (f.2 : Int) - 1) hd)
    refine ⟨this.1, fun m => ?_⟩
    rw [this.2 m, getD_set]
    simp only [netM]
    by_cases hm : f.1 = m
    · subst hm; simp; omega
    · simp [hm]

/-- every entry of `counts` is (mode, net count of that mode) -/
theorem countChanges_mem (t : Term) (e : Nat × Int) (he : e ∈ countChanges t) : e.2 = netM e.1 t := by
  have h := countChanges_aux t [] (by simp [Dict.keys])
  have := getD_of_mem _ h.1 e he
  rw [← this]
  have h2 := h.2 e.1
  simp only [Dict.getD, Dict.get?, Option.getD_none] at h2
  simpa [countChanges, Dict.getD] using h2

/-! ### reasons for a vanishing double commutator -/

open OFV.Spec.C07 in
theorem dcF_of_comm (a b c : Term) (h : actFTerm (b ++ c) = actFTerm (c ++ b)) : DoubleCommZeroF a b c := by
  intro s u
  have e1 : actFTerm (a ++ b ++ c) = actFTerm (a ++ c ++ b) := by
    rw [List.append_assoc, List.append_assoc, actFTerm_append a, actFTerm_append a, h]
  have e2 : actFTerm (b ++ c ++ a) = actFTerm (c ++ b ++ a) := by
    rw [actFTerm_append (b ++ c), actFTerm_append (c ++ b), h]
  simp only [dcAmpF, ampF, e1, e2]
  omega

open OFV.Spec.C07 in
theorem dcF_of_outer (a b c : Term) (h1 : actFTerm (a ++ (b ++ c)) = actFTerm ((b ++ c) ++ a))
    (h2 : actFTerm (a ++ (c ++ b)) = actFTerm ((c ++ b) ++ a)) : DoubleCommZeroF a b c := by
  intro s u
  simp only [dcAmpF, ampF, List.append_assoc] at *
  rw [← h1, ← h2]
  omega

open OFV.Spec.C07 in
theorem dcF_of_net (a b c : Term) (m : Nat) (h : 2 ≤ net m (a ++ b ++ c) ∨ net m (a ++ b ++ c) ≤ -2) :
    DoubleCommZeroF a b c := by
  intro s u
  have z1 := actFTerm_zero_of_net _ m h
  have z2 := actFTerm_zero_of_net (a ++ c ++ b) m (by simp only [net_append] at h ⊢; omega)
  have z3 := actFTerm_zero_of_net (b ++ c ++ a) m (by simp only [net_append] at h ⊢; omega)
  have z4 := actFTerm_zero_of_net (c ++ b ++ a) m (by simp only [net_append] at h ⊢; omega)
  simp only [dcAmpF, ampF, z1, z2, z3, z4, fzero]
  omega

end C07F
end Proofs
end OFV
