/- C03 — the antisymmetrised two-body tensor denotes the same operator (abstract CAR). -/
import Mathlib.Algebra.BigOperators.Group.Finset.Basic
import Mathlib.Algebra.BigOperators.Ring.Finset
import Mathlib.Algebra.BigOperators.Intervals
import Mathlib.Tactic.Abel
import Mathlib.Tactic.NoncommRing
import OFV.Proofs.C03
import OFV.Proofs.C03Chemist
import OFV.Proofs.C03Interaction

namespace OFV
namespace Proofs
namespace C03
open Model Model.C03 Finset

variable {A : Type} [Ring A]

theorem tri_sum {M : Type} [AddCommGroup M] (n : Nat) (h : Nat → Nat → M) :
    ∑ p ∈ range n, ∑ q ∈ range n, h p q =
      ∑ p ∈ range n, ∑ q ∈ range p, (h p q + h q p) + ∑ p ∈ range n, h p p := by
  induction n with
  | zero => simp
  | succ n ih =>
    rw [sum_range_succ, sum_range_succ (fun p => ∑ q ∈ range p, (h p q + h q p)),
      sum_range_succ (fun p => h p p)]
    have e1 : ∑ p ∈ range n, ∑ q ∈ range (n + 1), h p q =
        ∑ p ∈ range n, ∑ q ∈ range n, h p q + ∑ p ∈ range n, h p n := by
      rw [← sum_add_distrib]; apply sum_congr rfl; intro p _; rw [sum_range_succ]
    rw [e1, ih, sum_range_succ, sum_add_distrib]
    abel

/-- antisymmetrisation of a double sum against an antisymmetric family -/
theorem antisym_double_sum (n : Nat) (F : Nat → Nat → A) (X : Nat → Nat → A)
    (hX : ∀ p q, X q p = - X p q) (hX0 : ∀ p, X p p = 0) :
    ∑ p ∈ range n, ∑ q ∈ range n, F p q * X p q =
      ∑ p ∈ range n, ∑ q ∈ range p, (F p q - F q p) * X p q := by
  rw [tri_sum]
  have : ∑ p ∈ range n, F p p * X p p = 0 := by
    apply sum_eq_zero; intro p _; rw [hX0, mul_zero]
  rw [this, add_zero]
  apply sum_congr rfl; intro p _
  apply sum_congr rfl; intro q _
  rw [hX p q]; noncomm_ring

/-- the operator a two-body tensor denotes: `Σ T[p,q,r,s] a†_p a†_q a_r a_s` -/
def den2 (I : Interp A) (n : Nat) (T : List GQ) : A :=
  ∑ p ∈ range n, ∑ q ∈ range n, ∑ r ∈ range n, ∑ s ∈ range n,
    I.ι (t4 n T p q r s) * ((I.g (p, 1) * I.g (q, 1)) * (I.g (r, 0) * I.g (s, 0)))

theorem sum_ite_lt (n p : Nat) (hp : p < n) (f : Nat → A) :
    ∑ q ∈ range n, (if q < p then f q else 0) = ∑ q ∈ range p, f q := by
  rw [← sum_filter]
  apply sum_congr _ (fun _ _ => rfl)
  ext q; simp only [mem_filter, mem_range]; omega

theorem ι_sub (I : Interp A) (a b : GQ) : I.ι (a - b) = I.ι a - I.ι b := by
  have : a - b = a + (-b) := by apply GQ.ext <;> simp [sub_eq_add_neg]
  rw [this, I.ι_add, ι_neg]; abel

theorem gq_zero_add' (c : GQ) : (0 : GQ) + c = c := by apply GQ.ext <;> simp
theorem gq_one_mul' (c : GQ) : (1 : GQ) * c = c := by apply GQ.ext <;> simp
theorem gq_neg_one_mul' (c : GQ) : (-1 : GQ) * c = -c := by apply GQ.ext <;> simp

theorem ι_antisym (I : Interp A) (n : Nat) (T : List GQ) (p q r s : Nat) :
    I.ι (antisym n T (p, q) (r, s)) =
      I.ι (t4 n T p q r s) - I.ι (t4 n T p q s r) - (I.ι (t4 n T q p r s) - I.ι (t4 n T q p s r)) := by
  unfold antisym
  simp only [List.foldl, Model.C03.flip, if_true, if_false, Bool.false_eq_true, beq_self_eq_true,
    gq_zero_add', gq_one_mul', I.ι_add]
  have e1 : ((true == false) = true) = False := by simp
  have e2 : ((false == true) = true) = False := by simp
  simp only [e1, e2, if_false, gq_neg_one_mul', ι_neg]
  abel

/-- the fully antisymmetrised form of a two-body tensor's denotation -/
theorem den2_antisym (I : Interp A) (n : Nat) (T : List GQ)
    (hC : ∀ p q, I.g (q, 1) * I.g (p, 1) = -(I.g (p, 1) * I.g (q, 1)))
    (hC0 : ∀ p, I.g (p, 1) * I.g (p, 1) = 0)
    (hA : ∀ r s, I.g (s, 0) * I.g (r, 0) = -(I.g (r, 0) * I.g (s, 0)))
    (hA0 : ∀ r, I.g (r, 0) * I.g (r, 0) = 0) :
    den2 I n T = ∑ p ∈ range n, ∑ q ∈ range p, ∑ r ∈ range n, ∑ s ∈ range r,
      (I.ι (t4 n T p q r s) - I.ι (t4 n T p q s r) - (I.ι (t4 n T q p r s) - I.ι (t4 n T q p s r))) *
        ((I.g (p, 1) * I.g (q, 1)) * (I.g (r, 0) * I.g (s, 0))) := by
  unfold den2
  -- inner pair (r, s), for fixed p q
  have stepA : ∀ p q, ∑ r ∈ range n, ∑ s ∈ range n,
      I.ι (t4 n T p q r s) * ((I.g (p, 1) * I.g (q, 1)) * (I.g (r, 0) * I.g (s, 0))) =
      ∑ r ∈ range n, ∑ s ∈ range r,
        (I.ι (t4 n T p q r s) - I.ι (t4 n T p q s r)) *
          ((I.g (p, 1) * I.g (q, 1)) * (I.g (r, 0) * I.g (s, 0))) := by
    intro p q
    rw [tri_sum]
    have hd : ∑ r ∈ range n, I.ι (t4 n T p q r r) *
        ((I.g (p, 1) * I.g (q, 1)) * (I.g (r, 0) * I.g (r, 0))) = 0 := by
      apply sum_eq_zero; intro r _; rw [hA0]; simp
    rw [hd, add_zero]
    apply sum_congr rfl; intro r _
    apply sum_congr rfl; intro s _
    rw [hA r s]
    noncomm_ring
  simp only [stepA]
  -- outer pair (p, q)
  rw [tri_sum]
  have hdiag : ∑ p ∈ range n, ∑ r ∈ range n, ∑ s ∈ range r,
      (I.ι (t4 n T p p r s) - I.ι (t4 n T p p s r)) * ((I.g (p, 1) * I.g (p, 1)) * (I.g (r, 0) * I.g (s, 0))) = 0 := by
    apply sum_eq_zero; intro p _
    apply sum_eq_zero; intro r _
    apply sum_eq_zero; intro s _
    rw [hC0]; simp
  rw [hdiag, add_zero]
  apply sum_congr rfl; intro p _
  apply sum_congr rfl; intro q _
  rw [← sum_add_distrib]
  apply sum_congr rfl; intro r _
  rw [← sum_add_distrib]
  apply sum_congr rfl; intro s _
  rw [hC p q]
  noncomm_ring

/-- **`normal_ordered(InteractionOperator)` denotes the same two-body operator** (abstract CAR):
the scattered, antisymmetrised tensor and the original tensor have the same denotation. -/
theorem normalOrderedTwoBody_sound (I : Interp A) (n : Nat) (T : List GQ)
    (hC : ∀ p q, I.g (q, 1) * I.g (p, 1) = -(I.g (p, 1) * I.g (q, 1)))
    (hC0 : ∀ p, I.g (p, 1) * I.g (p, 1) = 0)
    (hA : ∀ r s, I.g (s, 0) * I.g (r, 0) = -(I.g (r, 0) * I.g (s, 0)))
    (hA0 : ∀ r, I.g (r, 0) * I.g (r, 0) = 0) :
    den2 I n (normalOrderedTwoBody n T) = den2 I n T := by
  rw [den2_antisym I n T hC hC0 hA hA0]
  unfold den2
  apply sum_congr rfl; intro p hp
  have hp' : p < n := mem_range.1 hp
  -- restrict q to q < p
  have hq : ∀ (f : Nat → A), (∑ q ∈ range n, if q < p then f q else 0) = ∑ q ∈ range p, f q :=
    sum_ite_lt n p hp'
  rw [← hq]
  apply sum_congr rfl; intro q hq'
  have hqn : q < n := mem_range.1 hq'
  by_cases hqp : q < p
  · rw [if_pos hqp]
    apply sum_congr rfl; intro r hr
    have hr' : r < n := mem_range.1 hr
    rw [← sum_ite_lt n r hr']
    apply sum_congr rfl; intro s hs
    have hs' : s < n := mem_range.1 hs
    rw [normalOrderedTwoBody_closed n T p q r s hp' hqn hr' hs']
    by_cases hsr : s < r
    · rw [if_pos ⟨hqp, hsr⟩, if_pos hsr, ι_antisym]
    · have : ¬ (q < p ∧ s < r) := fun h => hsr h.2
      rw [if_neg this, if_neg hsr, I.ι_zero, zero_mul]
  · rw [if_neg hqp]
    apply sum_eq_zero; intro r hr
    apply sum_eq_zero; intro s hs
    rw [normalOrderedTwoBody_closed n T p q r s hp' hqn (mem_range.1 hr) (mem_range.1 hs)]
    have : ¬ (q < p ∧ s < r) := fun h => hqp h.1
    rw [if_neg this, I.ι_zero, zero_mul]

end C03
end Proofs
end OFV
