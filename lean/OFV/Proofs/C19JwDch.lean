/-
C19 — the Pauli coefficients of the Model's `jordan_wigner(DiagonalCoulombHamiltonian)` (`Model.C04.jwDCH`)
for real matrices `T`, `V`, read off key by key on an exact run:
`Z_j`, `Z_a Z_b`, `X_a Z … Z X_b`, `Y_a Z … Z Y_b`; every other non-identity string has coefficient 0.
-/
import OFV.Proofs.C19JwKeys
import OFV.Proofs.C04Dch
import OFV.Model.C19

namespace OFV
namespace C19Jw
open Model Model.C04
open Sem (SortedQ)

/-! ### real coefficients -/

theorem rl_zero : rl 0 = 0 := rfl
theorem rl_add (a b : Rat) : rl a + rl b = rl (a + b) := by apply GQ.ext <;> simp [rl]
theorem rl_mul (a b : Rat) : rl a * rl b = rl (a * b) := by apply GQ.ext <;> simp [rl]
theorem half_eq : half = rl (mkRat 1 2) := rfl
theorem rl_re (a : Rat) : (rl a).re = a := rfl
theorem rl_im (a : Rat) : (rl a).im = 0 := rfl

theorem ite_rl (c : Prop) [Decidable c] (x : Rat) : (if c then rl x else 0) = rl (if c then x else 0) := by
  by_cases h : c <;> simp [h, rl_zero]

theorem rl_sum {α : Type} (l : List α) (f : α → Rat) : (l.map fun a => rl (f a)).sum = rl ((l.map f).sum) := by
  induction l with
  | nil => simp [rl_zero]
  | cons a l ih => simp only [List.map_cons, List.sum_cons, ih, rl_add]

theorem half_rat : mkRat 1 2 = (1 : Rat) / 2 := by norm_num [Rat.mkRat_eq_div]

/-! ### contributions of single strings -/

theorem csum_singleton (t : Key) (c : GQ) (k : Key) : csum [(t, c)] k = if t = k then c else 0 := by
  simp [csum]

theorem csum_mk_sorted {t : Key} (h : SortedQ t) (c : GQ) (k : Key) :
    csum (mk .qubit t c) k = if t = k then c else 0 := by
  rw [Sem.mk_sorted h, csum_singleton]

theorem csum_mk_zero (t k : Key) : csum (mk .qubit t 0) k = 0 := by
  simp [mk, csum]

theorem sorted_nil : SortedQ ([] : Key) := ⟨List.Pairwise.nil, fun f hf => by simp at hf⟩

theorem sorted_kPP (P : Nat) (hP : P ≠ 0) (ab : Nat × Nat) (h : ab.1 < ab.2) : SortedQ (kPP P ab) :=
  Sem.sorted_hop ab.1 ab.2 P P h hP hP

/-- the two operands of the diagonal loop for one `p` -/
def dchDiag (n : Nat) (one two : List GQ) (p : Nat) : List Op :=
  [mk .qubit [(p, 3)] (rl (-(mkRat 1 2)) * (get1 n one p p + get1 n two p p)),
   mk .qubit [] (half * (get1 n one p p + get1 n two p p))]

/-- the eight operands of the pair loop for one pair -/
def dchPair (n : Nat) (one two : List GQ) (pq : Nat × Nat) : List Op :=
  [mk .qubit ([(pq.1, 1)] ++ zs (pq.1 + 1) pq.2 ++ [(pq.2, 1)]) (rl (mkRat 1 2 * (get1 n one pq.1 pq.2).re)),
   mk .qubit ([(pq.1, 2)] ++ zs (pq.1 + 1) pq.2 ++ [(pq.2, 2)]) (rl (mkRat 1 2 * (get1 n one pq.1 pq.2).re)),
   mk .qubit ([(pq.1, 2)] ++ zs (pq.1 + 1) pq.2 ++ [(pq.2, 1)]) (rl (mkRat 1 2 * (get1 n one pq.1 pq.2).im)),
   mk .qubit ([(pq.1, 1)] ++ zs (pq.1 + 1) pq.2 ++ [(pq.2, 2)]) (rl (-(mkRat 1 2) * (get1 n one pq.1 pq.2).im)),
   mk .qubit [(pq.1, 3), (pq.2, 3)] (half * get1 n two pq.1 pq.2),
   mk .qubit [(pq.1, 3)] (rl (-(mkRat 1 2)) * get1 n two pq.1 pq.2),
   mk .qubit [(pq.2, 3)] (rl (-(mkRat 1 2)) * get1 n two pq.1 pq.2),
   mk .qubit [] (half * get1 n two pq.1 pq.2)]

theorem dchImgs_eq (n : Nat) (one two : List GQ) :
    dchImgs n one two = (List.range n).flatMap (dchDiag n one two) ++ (pairs n).flatMap (dchPair n one two) := rfl

theorem wf_mk_const (c : GQ) : Dict.WF (mk .qubit [] c) := by
  simp [mk, Dict.WF, Dict.keys]

theorem coef_mk_const (c : GQ) (k : Key) (hk : k ≠ []) : coef (mk .qubit [] c) k = 0 := by
  have : mk .qubit [] c = [([], c)] := Sem.mk_sorted sorted_nil c
  rw [this]
  unfold coef Dict.getD
  simp [Dict.get?, Ne.symm hk]

/-- on an exact run every coefficient of `jwDCH` is the initial one plus the contributions of all operands;
the keys are pairwise distinct -/
theorem dch_coef (tol : Rat) (n : Nat) (const : GQ) (one two : List GQ) (hok : jwDCHOk tol n const one two = true) :
    Dict.WF (jwDCH tol n const one two)
    ∧ ∀ k, coef (jwDCH tol n const one two) k = coef (mk .qubit [] const) k
        + (((List.range n).map fun p => ((dchDiag n one two p).map fun img => csum img k).sum).sum
          + ((pairs n).map fun pq => ((dchPair n one two pq).map fun img => csum img k).sum).sum) := by
  rw [Sem.jwDCH_eq_fold]
  obtain ⟨_, w, c, _⟩ := sum_acc tol (dchImgs n one two) (mk .qubit [] const) (wf_mk_const const) true hok
  refine ⟨w, fun k => ?_⟩
  rw [c k, dchImgs_eq, List.map_append, List.sum_append, Sem.sum_flatMap, Sem.sum_flatMap]

section
variable (n : Nat) (one two : List GQ) (T V : List (List Rat))
variable (hT : ∀ p q, p < n → q < n → get1 n one p q = rl (C19.mat T p q))
variable (hV : ∀ p q, p < n → q < n → get1 n two p q = rl (C19.mat V p q))
include hT hV

/-- contributions of the diagonal operands to `Z_j` -/
theorem diag_kZ (p j : Nat) (hp : p < n) :
    ((dchDiag n one two p).map fun img => csum img (kZ j)).sum
      = rl (if p = j then -(1 / 2) * (C19.mat T p p + C19.mat V p p) else 0) := by
  unfold dchDiag
  simp only [List.map_cons, List.map_nil, List.sum_cons, List.sum_nil, add_zero]
  rw [show [(p, 3)] = kZ p from rfl, csum_mk_sorted (sorted_kZ p), csum_mk_sorted sorted_nil, hT p p hp hp, hV p p hp hp,
    rl_add, rl_mul, half_rat]
  have e1 : (kZ p = kZ j) = (p = j) := by simp [kZ]
  have e2 : (([] : Key) = kZ j) = False := by simp [kZ]
  simp only [e1, e2, if_false, add_zero, ite_rl]

omit hT hV in
/-- the diagonal operands contribute to no other non-identity key -/
theorem diag_other (p : Nat) (k : Key) (hk : k ≠ []) (hkz : k ≠ kZ p) :
    ((dchDiag n one two p).map fun img => csum img k).sum = 0 := by
  unfold dchDiag
  simp only [List.map_cons, List.map_nil, List.sum_cons, List.sum_nil, add_zero]
  rw [show [(p, 3)] = kZ p from rfl, csum_mk_sorted (sorted_kZ p), csum_mk_sorted sorted_nil,
    if_neg (fun h => hkz h.symm), if_neg (fun h => hk h.symm), add_zero]

/-- contributions of the operands of the pair `(p, q)`, `p < q < n`, to an arbitrary key -/
theorem pair_csum (pq : Nat × Nat) (hpq : pq ∈ pairs n) (k : Key) :
    ((dchPair n one two pq).map fun img => csum img k).sum
      = (if kPP 1 pq = k then rl (1 / 2 * C19.mat T pq.1 pq.2) else 0)
        + ((if kPP 2 pq = k then rl (1 / 2 * C19.mat T pq.1 pq.2) else 0)
        + ((if kZZ pq = k then rl (1 / 2 * C19.mat V pq.1 pq.2) else 0)
        + ((if kZ pq.1 = k then rl (-(1 / 2) * C19.mat V pq.1 pq.2) else 0)
        + ((if kZ pq.2 = k then rl (-(1 / 2) * C19.mat V pq.1 pq.2) else 0)
        + (if ([] : Key) = k then rl (1 / 2 * C19.mat V pq.1 pq.2) else 0))))) := by
  obtain ⟨p, q⟩ := pq
  obtain ⟨hlt, hqn⟩ := Sem.pairs_lt n p q hpq
  have hpn : p < n := by omega
  unfold dchPair
  simp only [List.map_cons, List.map_nil, List.sum_cons, List.sum_nil, add_zero]
  rw [hT p q hpn hqn, hV p q hpn hqn]
  simp only [rl_re, rl_im, mul_zero, rl_zero, csum_mk_zero, zero_add, half_eq, rl_mul, half_rat]
  rw [show [(p, 1)] ++ zs (p + 1) q ++ [(q, 1)] = kPP 1 (p, q) from rfl,
    show [(p, 2)] ++ zs (p + 1) q ++ [(q, 2)] = kPP 2 (p, q) from rfl,
    show [(p, 3), (q, 3)] = kZZ (p, q) from rfl, show [(p, 3)] = kZ p from rfl, show [(q, 3)] = kZ q from rfl,
    csum_mk_sorted (sorted_kPP 1 (by decide) (p, q) hlt), csum_mk_sorted (sorted_kPP 2 (by decide) (p, q) hlt),
    csum_mk_sorted (sorted_kZZ (p, q) hlt), csum_mk_sorted (sorted_kZ p), csum_mk_sorted (sorted_kZ q),
    csum_mk_sorted sorted_nil]

end

end C19Jw
end OFV
