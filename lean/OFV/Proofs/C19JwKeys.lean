/-
C19 — the entries of an exactly accumulated operator summed against an explicit duplicate-free key list, and the
Pauli strings written by `_jordan_wigner_diagonal_coulomb_hamiltonian` (`Z_j`, `Z_a Z_b`, `X_a Z … Z X_b`,
`Y_a Z … Z Y_b`) as pairwise different dictionary keys.
-/
import OFV.Proofs.C19Accum
import OFV.Proofs.C04Ladder
import OFV.Proofs.C04Iop2
import Mathlib.Algebra.BigOperators.Group.Finset.Basic
import Mathlib.Tactic.Linarith

namespace OFV
namespace C19Jw
open Model Model.C04
open Sem (SortedQ)

/-! ### entries vs keys -/

theorem coef_of_mem (R : Op) (wf : Dict.WF R) (t : Key) (c : GQ) (h : (t, c) ∈ R) : coef R t = c := by
  induction R with
  | nil => simp at h
  | cons e r ih =>
    obtain ⟨k0, v0⟩ := e
    have wd' := wf
    unfold Dict.WF Dict.keys at wd'
    simp only [List.map_cons, List.nodup_cons] at wd'
    simp only [List.mem_cons, Prod.mk.injEq] at h
    unfold coef Dict.getD
    simp only [Dict.get?]
    rcases h with ⟨rfl, rfl⟩ | h
    · simp
    · have hne : k0 ≠ t := by
        intro he
        subst he
        exact wd'.1 (List.mem_map.2 ⟨(k0, c), h, rfl⟩)
      rw [if_neg hne]
      exact ih wd'.2 h

/-- the entries of a well-formed dictionary summed against a duplicate-free key list `L`: keys outside `L`
must contribute 0, keys of `L` that are absent contribute `h k 0 = 0` -/
theorem entry_sum (R : Op) (wf : Dict.WF R) (h : Key → GQ → Rat) (h0 : ∀ k, h k 0 = 0) (L : List Key)
    (hL : L.Nodup) (hout : ∀ k ∈ Dict.keys R, k ∉ L → h k (coef R k) = 0) :
    (R.map fun tc => h tc.1 tc.2).sum = (L.map fun k => h k (coef R k)).sum := by
  have e1 : (R.map fun tc => h tc.1 tc.2) = (Dict.keys R).map fun k => h k (coef R k) := by
    unfold Dict.keys
    rw [List.map_map]
    apply List.map_congr_left
    intro tc htc
    obtain ⟨t, c⟩ := tc
    simp only [Function.comp]
    rw [coef_of_mem R wf t c htc]
  rw [e1, ← List.sum_toFinset _ wf, ← List.sum_toFinset _ hL]
  have hu1 : (Dict.keys R).toFinset ⊆ (Dict.keys R).toFinset ∪ L.toFinset := Finset.subset_union_left
  have hu2 : L.toFinset ⊆ (Dict.keys R).toFinset ∪ L.toFinset := Finset.subset_union_right
  rw [Finset.sum_subset hu1, Finset.sum_subset hu2]
  · intro k _ hk
    have : k ∈ Dict.keys R ∧ k ∉ L ∨ k ∈ L := by
      by_cases hkL : k ∈ L
      · exact Or.inr hkL
      · rename_i hk0
        rcases Finset.mem_union.1 hk0 with h' | h'
        · exact Or.inl ⟨List.mem_toFinset.1 h', hkL⟩
        · exact absurd (List.mem_toFinset.1 h') hkL
    rcases this with ⟨h1, h2⟩ | h1
    · exact hout k h1 h2
    · exact absurd (List.mem_toFinset.2 h1) hk
  · intro k _ hk
    have : k ∉ Dict.keys R := fun hm => hk (List.mem_toFinset.2 hm)
    rw [coef_of_not_mem R k this, h0]

/-! ### the key shapes -/

def kZ (a : Nat) : Key := [(a, 3)]
def kZZ (ab : Nat × Nat) : Key := [(ab.1, 3), (ab.2, 3)]
/-- `P_a Z_{a+1} … Z_{b-1} P_b` -/
def kPP (P : Nat) (ab : Nat × Nat) : Key := [(ab.1, P)] ++ zs (ab.1 + 1) ab.2 ++ [(ab.2, P)]

theorem kPP_inj (P P' : Nat) (ab cd : Nat × Nat) (h : kPP P ab = kPP P' cd) : P = P' ∧ ab = cd := by
  obtain ⟨a, b⟩ := ab
  obtain ⟨c, d⟩ := cd
  unfold kPP at h
  simp only [List.cons_append, List.nil_append, List.cons.injEq, Prod.mk.injEq] at h
  obtain ⟨⟨h1, h2⟩, h3⟩ := h
  have := (List.append_inj' h3 rfl).2
  simp only [List.cons.injEq, Prod.mk.injEq, and_true] at this
  exact ⟨h2, by rw [h1, this.1]⟩

theorem sorted_kZ (a : Nat) : SortedQ (kZ a) :=
  ⟨List.pairwise_singleton _ _, fun f hf => by simp [kZ] at hf; subst hf; simp⟩

theorem sorted_kZZ (ab : Nat × Nat) (h : ab.1 < ab.2) : SortedQ (kZZ ab) := by
  refine ⟨?_, fun f hf => ?_⟩
  · simp [kZZ, h]
  · simp [kZZ] at hf
    rcases hf with rfl | rfl <;> simp

theorem pairs_nodup (n : Nat) : (pairs n).Nodup := by
  have := Sem.combs2_range_sorted n
  unfold pairs
  refine this.imp ?_
  intro a b hab he
  subst he
  rcases hab with h | ⟨_, h⟩ <;> omega

/-- the non-identity keys that can carry a non-zero coefficient -/
def keyList (n : Nat) : List Key :=
  (List.range n).map kZ ++ ((pairs n).map kZZ ++ ((pairs n).map (kPP 1) ++ (pairs n).map (kPP 2)))

theorem keyList_nodup (n : Nat) : (keyList n).Nodup := by
  unfold keyList
  have np := pairs_nodup n
  rw [List.nodup_append]
  refine ⟨?_, ?_, ?_⟩
  · refine List.Nodup.map_on ?_ List.nodup_range
    intro a _ b _ h
    simpa [kZ] using h
  · rw [List.nodup_append]
    refine ⟨?_, ?_, ?_⟩
    · refine List.Nodup.map_on ?_ np
      intro a _ b _ h
      obtain ⟨a1, a2⟩ := a
      obtain ⟨b1, b2⟩ := b
      simp only [kZZ, List.cons.injEq, Prod.mk.injEq, and_true] at h
      simp [h.1, h.2]
    · rw [List.nodup_append]
      refine ⟨?_, ?_, ?_⟩
      · refine List.Nodup.map_on ?_ np
        intro a _ b _ h
        exact (kPP_inj 1 1 a b h).2
      · refine List.Nodup.map_on ?_ np
        intro a _ b _ h
        exact (kPP_inj 2 2 a b h).2
      · intro x hx y hy hxy
        simp only [List.mem_map] at hx hy
        obtain ⟨a, _, rfl⟩ := hx
        obtain ⟨b, _, rfl⟩ := hy
        have := (kPP_inj 1 2 a b hxy).1
        omega
    · intro x hx y hy hxy
      simp only [List.mem_map] at hx
      obtain ⟨a, _, rfl⟩ := hx
      rcases List.mem_append.1 hy with hy | hy
      all_goals
        simp only [List.mem_map] at hy
        obtain ⟨b, _, rfl⟩ := hy
        simp [kZZ, kPP] at hxy
  · intro x hx y hy hxy
    simp only [List.mem_map] at hx
    obtain ⟨a, _, rfl⟩ := hx
    rcases List.mem_append.1 hy with hy | hy
    · simp only [List.mem_map] at hy
      obtain ⟨b, _, rfl⟩ := hy
      simp [kZ, kZZ] at hxy
    · rcases List.mem_append.1 hy with hy | hy
      all_goals
        simp only [List.mem_map] at hy
        obtain ⟨b, _, rfl⟩ := hy
        simp [kZ, kPP] at hxy

end C19Jw
end OFV
