/- C17: the summation steps — operator-level chemist reordering, the summed 1-RDM contraction, and the bilinearity
behind `InteractionRDM.expectation` — in an algebra over a commutative ring with the CAR. -/
import OFV.Proofs.C17Car
import Mathlib.Algebra.Algebra.Defs
import Mathlib.Algebra.BigOperators.Group.Finset.Basic
import Mathlib.Algebra.BigOperators.Ring.Finset
import Mathlib.Algebra.BigOperators.GroupWithZero.Action
import Mathlib.Algebra.Module.LinearMap.Defs
import Mathlib.Algebra.Module.BigOperators

namespace OFV
namespace Car

open Finset

variable {K : Type} [CommRing K] {R : Type} [Ring R] [Algebra K R]
variable {n : Nat} {ad a : Nat → R}

theorem dl_mul (i j : Nat) (x : R) : (dl i j : R) * x = if i = j then x else 0 := by
  unfold dl; by_cases h : i = j <;> simp [h]

/-- operator-level chemist reordering:
`Σ h_pqrs a†_p a†_q a_r a_s = Σ h_pqrs a†_p a_s a†_q a_r − Σ_{pr} (Σ_q h_pqrq) a†_p a_r` -/
theorem chemist_reorder_sum (hc : CAR n ad a) (h : Nat → Nat → Nat → Nat → K) :
    ∑ p ∈ range n, ∑ q ∈ range n, ∑ r ∈ range n, ∑ s ∈ range n, h p q r s • (ad p * ad q * a r * a s) =
      (∑ p ∈ range n, ∑ q ∈ range n, ∑ r ∈ range n, ∑ s ∈ range n, h p q r s • (ad p * a s * ad q * a r))
      - ∑ p ∈ range n, ∑ r ∈ range n, (∑ q ∈ range n, h p q r q) • (ad p * a r) := by
  have step : ∀ p ∈ range n, ∀ q ∈ range n, ∀ r ∈ range n,
      ∑ s ∈ range n, h p q r s • (ad p * ad q * a r * a s) =
        (∑ s ∈ range n, h p q r s • (ad p * a s * ad q * a r)) - h p q r q • (ad p * a r) := by
    intro p hp q hq r hr
    have e : ∀ s ∈ range n, h p q r s • (ad p * ad q * a r * a s) =
        h p q r s • (ad p * a s * ad q * a r) - (if q = s then h p q r s • (ad p * a r) else 0) := by
      intro s hs
      rw [chemist_reorder hc p q r s (mem_range.mp hp) (mem_range.mp hq) (mem_range.mp hr) (mem_range.mp hs),
        smul_sub, dl_mul]
      by_cases e : q = s <;> simp [e]
    rw [sum_congr rfl e, sum_sub_distrib, sum_ite_eq]
    simp [hq]
  rw [sum_congr rfl (fun p hp => sum_congr rfl (fun q hq => sum_congr rfl (fun r hr => step p hp q hq r hr)))]
  simp only [sum_sub_distrib]
  congr 1
  apply sum_congr rfl
  intro p _
  rw [sum_comm]
  apply sum_congr rfl
  intro r _
  rw [sum_smul]

/-- summed 1-RDM contraction: `Σ_r a†_p a†_r a_r a_q = a†_p a_q N̂ − a†_p a_q` with `N̂ = Σ_r a†_r a_r` -/
theorem contraction_sum (hc : CAR n ad a) (p q : Nat) (hq : q < n) :
    ∑ r ∈ range n, ad p * ad r * a r * a q = ad p * a q * (∑ r ∈ range n, ad r * a r) - ad p * a q := by
  have e : ∀ r ∈ range n, ad p * ad r * a r * a q =
      ad p * a q * (ad r * a r) - (if r = q then ad p * a r else 0) := by
    intro r hr
    rw [contraction_term hc p q r hq (mem_range.mp hr), dl_mul]
  rw [sum_congr rfl e, sum_sub_distrib, mul_sum, sum_ite_eq']
  simp [hq]

/-- … hence on a vector with `N̂ v = N v` (an `N`-particle state): `(Σ_r a†_p a†_r a_r a_q) v = (N − 1) · a†_p a_q v`,
the divisor of `map_two_pdm_to_one_pdm` -/
theorem contraction_on_sector {V : Type} [AddCommGroup V] [Module R V] (hc : CAR n ad a) (p q : Nat) (hq : q < n)
    (v : V) (N : R) (hN : (∑ r ∈ range n, ad r * a r) • v = N • v)
    (hcomm : ad p * a q * N = N * (ad p * a q)) :
    (∑ r ∈ range n, ad p * ad r * a r * a q) • v = (N - 1) • ((ad p * a q) • v) := by
  rw [contraction_sum hc p q hq, sub_smul, mul_smul, hN, ← mul_smul, hcomm, mul_smul, sub_smul, one_smul]

/-- bilinearity behind `InteractionRDM.expectation`: for every linear functional `φ` (an expectation value
`⟨ψ|·|ψ⟩`, `φ 1 = 1`) the value on `H = c + Σ o1_pq a†_p a_q + Σ o2_pqrs a†_p a†_q a_r a_s` is
`c + Σ o1_pq D_pq + Σ o2_pqrs Γ_pqrs` with the RDMs `D_pq = φ(a†_p a_q)`, `Γ_pqrs = φ(a†_p a†_q a_r a_s)` -/
theorem expectation_bilinear (φ : R →ₗ[K] K) (hφ : φ 1 = 1) (c : K) (o1 : Nat → Nat → K)
    (o2 : Nat → Nat → Nat → Nat → K) :
    φ (c • (1 : R) + (∑ p ∈ range n, ∑ q ∈ range n, o1 p q • (ad p * a q))
        + ∑ p ∈ range n, ∑ q ∈ range n, ∑ r ∈ range n, ∑ s ∈ range n, o2 p q r s • (ad p * ad q * a r * a s)) =
      c + (∑ p ∈ range n, ∑ q ∈ range n, φ (ad p * a q) * o1 p q)
        + ∑ p ∈ range n, ∑ q ∈ range n, ∑ r ∈ range n, ∑ s ∈ range n, φ (ad p * ad q * a r * a s) * o2 p q r s := by
  simp only [map_add, map_sum, map_smul, hφ, smul_eq_mul, mul_one]
  congr 1
  · congr 1
    apply sum_congr rfl; intro p _; apply sum_congr rfl; intro q _; ring
  · apply sum_congr rfl; intro p _; apply sum_congr rfl; intro q _
    apply sum_congr rfl; intro r _; apply sum_congr rfl; intro s _; ring

theorem map_dl_mul (φ : R →ₗ[K] K) (i j : Nat) (x : R) : φ ((dl i j : R) * x) = if i = j then φ x else 0 := by
  rw [dl_mul]; by_cases h : i = j <;> simp [h]

theorem map_dl_dl (φ : R →ₗ[K] K) (hφ : φ 1 = 1) (i j k l : Nat) :
    φ ((dl i j : R) * (dl k l : R)) = if i = j ∧ k = l then 1 else 0 := by
  unfold dl; by_cases h : i = j <;> by_cases h' : k = l <;> simp [h, h', hφ]

/-- `map_two_pdm_to_particle_hole_dm` is correct for every state: with `D = φ(a†a)`, `Γ = φ(a†a†aa)`,
`φ(a†_p a_r a†_q a_s) = δ_qr D_ps − Γ_pqrs` -/
theorem particle_hole_expectation (hc : CAR n ad a) (φ : R →ₗ[K] K) (p q r s : Nat) (hq : q < n) (hr : r < n) :
    φ (ad p * a r * ad q * a s) = (if q = r then φ (ad p * a s) else 0) - φ (ad p * ad q * a r * a s) := by
  rw [particle_hole hc p q r s hq hr, map_sub, map_dl_mul]

/-- `map_two_pdm_to_two_hole_dm` is correct for every state: exactly the formula of the code
`tqdm[s,r,q,p] = tpdm[p,q,r,s] − term1 − term2 − term3` -/
theorem two_hole_expectation (hc : CAR n ad a) (φ : R →ₗ[K] K) (hφ : φ 1 = 1) (p q r s : Nat)
    (hp : p < n) (hq : q < n) (hr : r < n) (hs : s < n) :
    φ (a s * a r * ad q * ad p) =
      φ (ad p * ad q * a r * a s)
        - ((if q = r then φ (ad p * a s) else 0) + (if p = s then φ (ad q * a r) else 0))
        + ((if p = r then φ (ad q * a s) else 0) + (if q = s then φ (ad p * a r) else 0))
        - ((if q = s ∧ p = r then (1 : K) else 0) - (if p = s ∧ q = r then 1 else 0)) := by
  rw [two_hole hc p q r s hp hq hr hs]
  simp only [map_sub, map_add, map_dl_mul, map_dl_dl φ hφ]

end Car
end OFV
