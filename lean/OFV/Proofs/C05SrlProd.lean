/-
`a†_i a_j` under Bravyi-Kitaev as four Pauli strings (the pairwise concatenations of the two strings of each
ladder image), their normal forms, and the pointwise Boolean facts about the Fenwick sets used to compare the
strings emitted by `_seeley_richard_love` with them.
-/
import OFV.Proofs.C05SrlFacts

set_option linter.unusedSimpArgs false

namespace OFV
namespace BK
open Model Model.C05 Spec Sem

/-! ### the weighted sum of the four product strings is the encoded action of `a†_i a_j` -/

theorem φW_append (e : Nat) (W : Nat → GQ) (A B : List (Nat × Nat)) :
    φW e W (A ++ B) = GQ.ipow (actPTerm B e).1 * φW (actPTerm B e).2 W A := by
  unfold φW
  rw [actPTerm_append]
  simp only
  rw [ipow_mod, ← ipow_add]; ring

/-- encoded action of `a†_i a_j` on `|enc s⟩`, against an arbitrary weight `W` on the target state -/
def hopAct (n i j s : Nat) (W : Nat → GQ) : GQ :=
  match actBK n (j, 0) s with
  | none => 0
  | some (c1, s1) => c1 * (match actBK n (i, 1) s1 with
    | none => 0
    | some (c2, s2) => c2 * W (Spec.C05.enc .bk n s2))

theorem prod_sum (tol : Rat) (htol : tol * tol ≤ 1 / 4) (n i j : Nat) (hi : i < n) (hj : j < n) (s : Nat)
    (W : Nat → GQ) :
    C05.half * C05.half * φW (Spec.C05.enc .bk n s) W (T1 n i ++ T1 n j)
      + C05.half * (-mHalfI) * φW (Spec.C05.enc .bk n s) W (T1 n i ++ T2 n j)
      + mHalfI * C05.half * φW (Spec.C05.enc .bk n s) W (T2 n i ++ T1 n j)
      + mHalfI * (-mHalfI) * φW (Spec.C05.enc .bk n s) W (T2 n i ++ T2 n j)
      = hopAct n i j s W := by
  set e := Spec.C05.enc .bk n s with he
  let W' : Nat → GQ := fun y => sumφ (φW y W) (bkLadder tol n i 1)
  have hW' : ∀ y, W' y = C05.half * φW y W (T1 n i) + mHalfI * φW y W (T2 n i) := by
    intro y
    have := bkLadder_sumφ tol htol n i 1 y W
    simpa using this
  have h1 := bkLadder_sumφ tol htol n j 0 e W'
  have h2 := bkLadder_sum tol htol n (j, 0) hj s W'
  rw [sumφ_φW, ← he] at h2
  simp only at h2
  rw [h1] at h2
  have e1 : φW e W' (T1 n j) = C05.half * φW e W (T1 n i ++ T1 n j) + mHalfI * φW e W (T2 n i ++ T1 n j) := by
    rw [φW_append, φW_append]
    simp only [φW, hW']
    ring
  have e2 : φW e W' (T2 n j) = C05.half * φW e W (T1 n i ++ T2 n j) + mHalfI * φW e W (T2 n i ++ T2 n j) := by
    rw [φW_append, φW_append]
    simp only [φW, hW']
    ring
  have e3 : (if (0 : Nat) == 1 then mHalfI else -mHalfI) = -mHalfI := by simp
  rw [e1, e2, e3] at h2
  unfold hopAct
  have h3 : ∀ s1, W' (Spec.C05.enc .bk n s1) = match actBK n (i, 1) s1 with
      | none => 0
      | some (c2, s2) => c2 * W (Spec.C05.enc .bk n s2) := by
    intro s1
    have := bkLadder_sum tol htol n (i, 1) hi s1 W
    rw [sumφ_φW] at this
    exact this
  cases hA : actBK n (j, 0) s with
  | none => rw [hA] at h2; simp only at h2; rw [← h2]; ring
  | some cs =>
    obtain ⟨c1, s1⟩ := cs
    rw [hA] at h2
    simp only at h2
    rw [h3 s1] at h2
    simp only
    rw [← h2]; ring

/-- the column of `bravyi_kitaev(c a†_i a_j)` at an encoded state is `c` times the encoded action -/
theorem bkTerm_hop (tol : Rat) (htol : tol * tol ≤ 1 / 4) (n i j : Nat) (hi : i < n) (hj : j < n)
    (c : GQ) (s x : Nat) :
    den .qubit (bkTerm tol n [(i, 1), (j, 0)] c) [Spec.C05.enc .bk n s] [x]
      = c * hopAct n i j s (fun y => if y = x then 1 else 0) := by
  have ht : ValidT n [(i, 1), (j, 0)] := by
    intro f hf
    simp only [List.mem_cons, List.not_mem_nil, or_false] at hf
    rcases hf with rfl | rfl <;> simp [hi, hj]
  unfold bkTerm
  have key := foldl_mulOp_sound_emb (Spec.C05.enc .bk n) (imgBK tol n) (actBK n) (imgBK_valid tol n)
      (fun f s W => by
        have := imgBK_sum tol htol n f s W
        cases h : actBK n f s with
        | none => rw [h] at this; simpa using this
        | some cs => obtain ⟨c', s'⟩ := cs; rw [h] at this; simpa using this) [(i, 1), (j, 0)] _ (mk_const_valid c) s x
  rw [bkTerm_eq_fold tol n _ ht, key]
  unfold hopAct
  simp only [actTermS, List.foldr_cons, List.foldr_nil]
  cases hA : actBK n (j, 0) s with
  | none => simp
  | some cs =>
    obtain ⟨c1, s1⟩ := cs
    simp only
    cases hB : actBK n (i, 1) s1 with
    | none => simp
    | some cs2 =>
      obtain ⟨c2, s2⟩ := cs2
      simp only [den_mk_const]
      ring

/-! ### normal forms of the ladder strings -/

theorem T1_eq (n j : Nat) : T1 n j = pad 1 (upd' n j) ++ pad 3 (paritySet j) := rfl
theorem T2_eq (n j : Nat) :
    T2 n j = [(j, 2)] ++ pad 1 (diff (upd' n j) [j]) ++ pad 3 (diff (symDiff (paritySet j) (occupationSet j)) [j]) := rfl

theorem xl_T1 (n j : Nat) : xl (T1 n j) = upd' n j := by
  rw [T1_eq, xl_append, xl_pad1, xl_pad3, List.append_nil]
theorem zl_T1 (n j : Nat) : zl (T1 n j) = paritySet j := by
  rw [T1_eq, zl_append, zl_pad1, zl_pad3, List.nil_append]
theorem xl_T2 (n j : Nat) : xl (T2 n j) = j :: diff (upd' n j) [j] := by
  rw [T2_eq, xl_append, xl_append, xl_pad1, xl_pad3, List.append_nil]; rfl
theorem zl_T2 (n j : Nat) : zl (T2 n j) = j :: diff (symDiff (paritySet j) (occupationSet j)) [j] := by
  rw [T2_eq, zl_append, zl_append, zl_pad1, zl_pad3, List.append_nil]; rfl
theorem nfk_T1 (n j : Nat) : nfk (T1 n j) = 0 := by
  rw [T1_eq, nfk_append, nfk_pad1, nfk_pad3, zl_pad1, crossX_nil_left]
theorem nfk_T2 (n j : Nat) : nfk (T2 n j) = 1 := by
  rw [T2_eq, nfk_append, nfk_append, nfk_pad1, nfk_pad3, xl_pad3, crossX_nil_right, xl_pad1]
  have : List.count j (diff (upd' n j) [j]) = 0 := by
    apply List.count_eq_zero_of_not_mem
    rw [diff_mem]; simp
  simp [nfk, isZ, zl, xl, crossX, this]

theorem srt_upd' (n j : Nat) : Srt (upd' n j) := updateSet'_sorted j n

/-- the second ladder string has the same X-support as the first -/
theorem count_xl_T2 (n j q : Nat) : (j :: diff (upd' n j) [j]).count q = (upd' n j).count q := by
  have hs := srt_upd' n j
  have hj : j ∈ upd' n j := (upd'_mem n j j).2 (Or.inl rfl)
  have hnd := nodup_of_sorted hs
  have hnd2 : (j :: diff (upd' n j) [j]).Nodup := by
    rw [List.nodup_cons]
    refine ⟨by rw [diff_mem]; simp, nodup_of_sorted (srt_diff _ _ hs)⟩
  by_cases hq : q ∈ upd' n j
  · rw [List.count_eq_one_of_mem hnd hq]
    apply List.count_eq_one_of_mem hnd2
    by_cases hqj : q = j
    · subst hqj; exact List.mem_cons_self
    · apply List.mem_cons_of_mem; rw [diff_mem]; exact ⟨hq, by simpa using hqj⟩
  · rw [List.count_eq_zero_of_not_mem hq]
    apply List.count_eq_zero_of_not_mem
    intro h
    rcases List.mem_cons.1 h with rfl | h
    · exact hq hj
    · rw [diff_mem] at h; exact hq h.1

theorem crossX_congr_right (L M M' : List Nat) (h : ∀ q, M.count q = M'.count q) : crossX L M = crossX L M' := by
  unfold crossX; congr 1; apply List.map_congr_left; intro q _; exact h q

/-- phases of the four product strings (`i ≠ j`): number of `Y`s plus 2 if `j < i` -/
theorem nfk_prod (n i j : Nat) (hi : i < n) (hj : j < n) (hij : i ≠ j) :
    nfk (T1 n i ++ T1 n j) % 4 = (2 * (if j < i then 1 else 0)) % 4 ∧
    nfk (T1 n i ++ T2 n j) % 4 = (1 + 2 * (if j < i then 1 else 0)) % 4 ∧
    nfk (T2 n i ++ T1 n j) % 4 = (1 + 2 * (if j < i then 1 else 0)) % 4 ∧
    nfk (T2 n i ++ T2 n j) % 4 = (2 + 2 * (if j < i then 1 else 0)) % 4 := by
  have c1 := cross_parity n i j hi hj
  have c2 := cross_zset n i j hi hj
  have hle : (if j ≤ i then 1 else 0) = (if j < i then (1 : Nat) else 0) := by
    by_cases h : j < i
    · simp [h, Nat.le_of_lt h]
    · have : ¬ j ≤ i := by omega
      simp [h, this]
  rw [hle] at c2
  have e2 : crossX (paritySet i) (j :: diff (upd' n j) [j]) = crossX (paritySet i) (upd' n j) :=
    crossX_congr_right _ _ _ (count_xl_T2 n j)
  have e3 : crossX (diff (symDiff (paritySet i) (occupationSet i)) [i]) (j :: diff (upd' n j) [j])
      = crossX (diff (symDiff (paritySet i) (occupationSet i)) [i]) (upd' n j) :=
    crossX_congr_right _ _ _ (count_xl_T2 n j)
  refine ⟨?_, ?_, ?_, ?_⟩
  · rw [nfk_append, nfk_T1, nfk_T1, zl_T1, xl_T1]; omega
  · rw [nfk_append, nfk_T1, nfk_T2, zl_T1, xl_T2, e2]; omega
  · rw [nfk_append, nfk_T1, nfk_T2, zl_T2, xl_T1, crossX_cons_left]; omega
  · rw [nfk_append, nfk_T2, nfk_T2, zl_T2, xl_T2, crossX_cons_left, e3, count_xl_T2]; omega

/-! ### pointwise facts about the sets of `i` and `j`, as Boolean constraints -/

/-- `ui` = `q ∈ U(i)`, `pi` = `q ∈ P(i)`, `oi` = `q ∈ O(i)`, `qi` = `q = i`, likewise for `j`;
`gUi_j` = `j ∈ U(i)`, `gPj_i` = `i ∈ P(j)`, …; `lt` = `i < j`; `ie` = `i` even -/
def PtF (ui uj pi pj oi oj qi qj gUi_j gUj_i gPi_j gPj_i gOi_j gOj_i lt ie je : Bool) : Prop :=
  (ui = true → qi = false ∧ pi = false ∧ oi = false) ∧
  (uj = true → qj = false ∧ pj = false ∧ oj = false) ∧
  (pi = true → qi = false) ∧ (pj = true → qj = false) ∧
  (qi = true → oi = true) ∧ (qj = true → oj = true) ∧
  (oi = true → qi = false → pi = true) ∧ (oj = true → qj = false → pj = true) ∧
  (qi = true → qj = false) ∧
  (qi = true → uj = gUj_i ∧ pj = gPj_i ∧ oj = gOj_i) ∧
  (qj = true → ui = gUi_j ∧ pi = gPi_j ∧ oi = gOi_j) ∧
  (lt = true → uj = true → pi = false ∧ oi = false ∧ qi = false) ∧
  (lt = true → gUj_i = false ∧ gPi_j = false ∧ gOi_j = false) ∧
  (lt = false → ui = true → pj = false ∧ oj = false ∧ qj = false) ∧
  (lt = false → gUi_j = false ∧ gPj_i = false ∧ gOj_i = false) ∧
  (ie = true → oi = qi) ∧ (je = true → oj = qj) ∧
  (gOj_i = true → gPj_i = true) ∧ (gOi_j = true → gPi_j = true) ∧
  (oj = true → ui = true → gUi_j = true) ∧ (oi = true → uj = true → gUj_i = true) ∧
  (gOj_i = true → gUi_j = true) ∧ (gOi_j = true → gUj_i = true) ∧
  (ie = true → gPj_i = true → pj = (qi || pi)) ∧ (je = true → gPi_j = true → pi = (qj || pj)) ∧
  (gPj_i = true → ie = true → je = false) ∧ (gPi_j = true → je = true → ie = false)

set_option synthInstance.maxSize 4000 in
instance (ui uj pi pj oi oj qi qj gUi_j gUj_i gPi_j gPj_i gOi_j gOj_i lt ie je : Bool) :
    Decidable (PtF ui uj pi pj oi oj qi qj gUi_j gUj_i gPi_j gPj_i gOi_j gOj_i lt ie je) := by
  unfold PtF; exact inferInstance

theorem occ_lo (j : Nat) : ∀ fuel idx k, loM j ≤ idx → idx ≤ j → k ∈ downLoop (loM j) fuel idx → loM j ≤ loM k := by
  intro fuel
  induction fuel with
  | zero => intro idx k _ _ h; simp [downLoop] at h
  | succ f ih =>
    intro idx k h1 h2 h
    by_cases h0 : idx = loM j
    · rw [h0, downLoop_stop] at h; simp at h
    · have hgt : loM j < idx := by omega
      have hpos : 0 < idx := by omega
      have hge : loM j ≤ clearLow idx := clearLow_ge (j + 1) idx hgt (by omega)
      rw [downLoop_step (loM j) f idx h0 hpos] at h
      rcases List.mem_cons.1 h with rfl | h
      · unfold loM at hge ⊢
        have e : idx - 1 + 1 = idx := by omega
        rw [e]; exact hge
      · have hlt := clearLow_lt hpos
        exact ih _ _ hge (by omega) h

/-- the block of a member of the occupation set of `j` lies inside the block of `j` -/
theorem occ_block (j k : Nat) (h : k ∈ occupationSet j) : loM j ≤ loM k ∧ k ≤ j := by
  refine ⟨?_, occupationSet_le j k h⟩
  unfold occupationSet at h
  rw [ofList_mem] at h
  rcases List.mem_cons.1 h with rfl | h
  · exact Nat.le_refl _
  · exact occ_lo j _ _ _ (loM_le j) (Nat.le_refl _) h

/-- a member of `O(j)` whose block contains `i ≠ j` forces `j ∈ U(i)` -/
theorem occ_update (i j n q : Nat) (hj : j < n) (ho : q ∈ occupationSet j) (hlo : loM q ≤ i) (hiq : i ≤ q)
    (hij : i ≠ j) : j ∈ updateSet i n := by
  obtain ⟨h1, h2⟩ := occ_block j q ho
  rw [updateSet_mem]
  exact ⟨by omega, hj, by omega⟩

/-- an even `i` in `P(j)`: `j = i + 1`, and `P(j) = {i} ∪ P(i)` -/
theorem parity_even (i j q : Nat) (hi : i % 2 = 0) (h : i ∈ paritySet j) :
    j = i + 1 ∧ (q ∈ paritySet j ↔ (q = i ∨ q ∈ paritySet i)) := by
  have hj : j = i + 1 := by
    unfold paritySet at h
    rw [ofList_mem] at h
    have := down_even_head _ _ _ h hi
    omega
  refine ⟨hj, ?_⟩
  subst hj
  unfold paritySet
  rw [ofList_mem, ofList_mem, downLoop_step 0 (i + 1) (i + 1) (by omega) (by omega)]
  have : clearLow (i + 1) = i := by rw [clearLow_eq, lowbitW_odd (by omega)]; omega
  rw [this]
  simp

theorem pt_facts (i j n q : Nat) (hi : i < n) (hj : j < n) (hij : i ≠ j) :
    PtF (decide (q ∈ updateSet i n)) (decide (q ∈ updateSet j n)) (decide (q ∈ paritySet i)) (decide (q ∈ paritySet j))
      (decide (q ∈ occupationSet i)) (decide (q ∈ occupationSet j)) (decide (q = i)) (decide (q = j))
      (decide (j ∈ updateSet i n)) (decide (i ∈ updateSet j n)) (decide (j ∈ paritySet i)) (decide (i ∈ paritySet j))
      (decide (j ∈ occupationSet i)) (decide (i ∈ occupationSet j)) (decide (i < j)) (decide (i % 2 = 0))
      (decide (j % 2 = 0)) := by
  have U := fun a b (h : b ∈ updateSet a n) => (updateSet_mem a n b).1 h
  have P := fun a b (h : b ∈ paritySet a) => paritySet_lt a b h
  have O := fun a b (h : b ∈ occupationSet a) => occupationSet_le a b h
  unfold PtF
  simp only [decide_eq_true_eq, decide_eq_false_iff_not]
  refine ⟨?_, ?_, ?_, ?_, ?_, ?_, ?_, ?_, ?_, ?_, ?_, ?_, ?_, ?_, ?_, ?_, ?_, ?_, ?_, ?_, ?_, ?_, ?_, ?_, ?_, ?_, ?_⟩
  · intro h; have := U _ _ h
    exact ⟨by omega, fun h' => by have := P _ _ h'; omega, fun h' => by have := O _ _ h'; omega⟩
  · intro h; have := U _ _ h
    exact ⟨by omega, fun h' => by have := P _ _ h'; omega, fun h' => by have := O _ _ h'; omega⟩
  · intro h; have := P _ _ h; omega
  · intro h; have := P _ _ h; omega
  · intro h; subst h; exact occupationSet_mem_self q
  · intro h; subst h; exact occupationSet_mem_self q
  · intro h h'; exact occ_sub_parity i q h h'
  · intro h h'; exact occ_sub_parity j q h h'
  · intro h; omega
  · intro h; subst h; simp
  · intro h; subst h; simp
  · intro hlt h; have := U _ _ h
    exact ⟨fun h' => by have := P _ _ h'; omega, fun h' => by have := O _ _ h'; omega, by omega⟩
  · intro hlt
    exact ⟨fun h' => by have := U _ _ h'; omega, fun h' => by have := P _ _ h'; omega,
      fun h' => by have := O _ _ h'; omega⟩
  · intro hlt h; have := U _ _ h
    exact ⟨fun h' => by have := P _ _ h'; omega, fun h' => by have := O _ _ h'; omega, by omega⟩
  · intro hlt
    exact ⟨fun h' => by have := U _ _ h'; omega, fun h' => by have := P _ _ h'; omega,
      fun h' => by have := O _ _ h'; omega⟩
  · intro h; have := occ_even i q h; simp only [this]
  · intro h; have := occ_even j q h; simp only [this]
  · intro h; exact occ_sub_parity j i h hij
  · intro h; exact occ_sub_parity i j h (fun e => hij e.symm)
  · intro ho hu
    have := U _ _ hu
    exact occ_update i j n q hj ho (by omega) (by omega) hij
  · intro ho hu
    have := U _ _ hu
    exact occ_update j i n q hi ho (by omega) (by omega) (fun e => hij e.symm)
  · intro ho; exact occ_update i j n i hj ho (loM_le i) (Nat.le_refl _) hij
  · intro ho; exact occ_update j i n j hi ho (loM_le j) (Nat.le_refl _) (fun e => hij e.symm)
  · intro he hp
    have := (parity_even i j q he hp).2
    simp only [this, Bool.decide_or]
  · intro he hp
    have := (parity_even j i q he hp).2
    simp only [this, Bool.decide_or]
  · intro hp he; have := (parity_even i j q he hp).1; omega
  · intro hp he; have := (parity_even j i q he hp).1; omega

end BK
end OFV
