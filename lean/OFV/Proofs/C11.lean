/- Helper lemmas for C11 (schedules of the Givens decompositions). Core tactics only. -/
import OFV.Model.C11

namespace OFV
namespace Model
namespace C11

theorem mem_zipUp {sr sc len i j : Nat} :
    (i, j) ∈ zipUp sr sc len ↔ ∃ t, t < len ∧ i = sr + t ∧ j = sc + 2 * t := by
  simp only [zipUp, List.mem_map, List.mem_range, Prod.mk.injEq]
  constructor
  · rintro ⟨t, ht, h1, h2⟩; exact ⟨t, ht, h1.symm, h2.symm⟩
  · rintro ⟨t, ht, h1, h2⟩; exact ⟨t, ht, h1.symm, h2.symm⟩

theorem mem_zipDown {er ec len i j : Nat} :
    (i, j) ∈ zipDown er ec len ↔ ∃ t, t < len ∧ i = er - t ∧ j = ec + 2 * t := by
  simp only [zipDown, List.mem_map, List.mem_range, Prod.mk.injEq]
  constructor
  · rintro ⟨t, ht, h1, h2⟩; exact ⟨t, ht, h1.symm, h2.symm⟩
  · rintro ⟨t, ht, h1, h2⟩; exact ⟨t, ht, h1.symm, h2.symm⟩

/-- position `(i, j)` is visited in iteration `k` of `givens_decomposition_square` iff it lies in the
strict upper triangle and `k = n - 1 - j + 2 i` -/
theorem mem_squareLayer (n k i j : Nat) :
    (i, j) ∈ squareLayer n k ↔ i < j ∧ j < n ∧ k + j = n - 1 + 2 * i := by
  unfold squareLayer rangeLen2
  split
  · rw [mem_zipUp]
    constructor
    · rintro ⟨t, ht, rfl, rfl⟩; omega
    · intro h; exact ⟨i, by omega, by omega, by omega⟩
  · rw [mem_zipUp]
    constructor
    · rintro ⟨t, ht, rfl, rfl⟩; omega
    · intro h; exact ⟨i - (k + 2 - n), by omega, by omega, by omega⟩

theorem mem_givensLayer (m n k i j : Nat) (hm : m < n) (_hk : k < n - 1) :
    (i, j) ∈ givensLayer m n k ↔ i < m ∧ i < j ∧ j ≤ i + (n - m) ∧ k + j = n - m + 2 * i := by
  unfold givensLayer
  simp only
  split
  · rw [mem_zipUp]
    constructor
    · rintro ⟨t, ht, rfl, rfl⟩; omega
    · intro h; exact ⟨i, by omega, by omega, by omega⟩
  · split
    · rw [mem_zipUp]
      constructor
      · rintro ⟨t, ht, rfl, rfl⟩; omega
      · intro h; exact ⟨i - (m - (n - 1 - k)), by omega, by omega, by omega⟩
    · split
      · rw [mem_zipUp]
        constructor
        · rintro ⟨t, ht, rfl, rfl⟩; omega
        · intro h; exact ⟨i, by omega, by omega, by omega⟩
      · rw [mem_zipUp]
        constructor
        · rintro ⟨t, ht, rfl, rfl⟩; omega
        · intro h; exact ⟨i - (k + 1 - min m (n - m)), by omega, by omega, by omega⟩

theorem mem_gaussLayer (n k i j : Nat) :
    (i, j) ∈ gaussLayer n k ↔ i < n ∧ j + 1 < n ∧ n - 1 ≤ i + j ∧ k + (n - 1) = 2 * i + j := by
  unfold gaussLayer rangeLen2
  split
  · rw [mem_zipDown]
    constructor
    · rintro ⟨t, ht, rfl, rfl⟩; omega
    · intro h; exact ⟨k - i, by omega, by omega, by omega⟩
  · rw [mem_zipDown]
    constructor
    · rintro ⟨t, ht, rfl, rfl⟩; omega
    · intro h; exact ⟨n - 1 - i, by omega, by omega, by omega⟩

theorem mem_givensLeft (m n l k : Nat) (hm : m ≤ n) :
    (l, k) ∈ givensLeft m n ↔ k < n ∧ l + (n - m) < k := by
  unfold givensLeft
  simp only [List.mem_flatMap, List.mem_map, List.mem_range, Prod.mk.injEq]
  constructor
  · rintro ⟨t, ht, l', hl', rfl, rfl⟩; omega
  · intro h; exact ⟨n - 1 - k, by omega, l, by omega, rfl, by omega⟩

theorem mem_gaussLeft (n l k : Nat) : (l, k) ∈ gaussLeft n ↔ l + k + 1 < n := by
  unfold gaussLeft
  simp only [List.mem_flatMap, List.mem_map, List.mem_range, Prod.mk.injEq]
  constructor
  · rintro ⟨k', hk', l', hl', rfl, rfl⟩; omega
  · intro h; exact ⟨k, by omega, l, by omega, rfl, rfl⟩

/-- "already zero before iteration `k`" of the sweep of `givens_decomposition`: zeroed by the first
(left-unitary) stage or by an earlier iteration -/
def givensZeroBefore (m n k i j : Nat) : Prop :=
  (i, j) ∈ givensLeft m n ∨ ∃ k', k' < k ∧ (i, j) ∈ givensLayer m n k'

end C11
end Model
end OFV
